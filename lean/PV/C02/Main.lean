/-
pm_c02: model driver for C02.  One case = one bitmap history.  Lines:

  kind slice|btree            first line of a case: which container collection       → ok
  add v ...                   Bitmap.Add(v...)                                        → b=<changed> | <obs>
  dadd v                      Bitmap.DirectAdd(v)                                     → b=<changed> | <obs>
  remove v ...                Bitmap.Remove(v...)                                     → b=<changed> | <obs>
  addn v ... / daddn v ...    AddN / DirectAddN                                       → n=<changed> a=[slice afterwards] | <obs>
  removen v ... / dremoven    RemoveN / DirectRemoveN                                 → n=<changed> a=[...] | <obs>
  import set|clear v,v,...    ImportRoaringBits(payload holding exactly these values) → n=<changed> | <obs>
  importo set|clear v,.. m    same with an official-format payload (reference encoder, run mode m) → n=<changed> | <obs>
  fill set|clear k lo hi      ImportRoaringBits(payload = container k holding lo..hi) → n=<changed> | <obs>
  fillstep set|clear k lo hi s  ImportRoaringBits(payload = container k holding lo, lo+s, .. <= hi) → n=<changed> | <obs>
  optimize                    Bitmap.Optimize                                         → | <obs>
  ctrremove k                 Containers.Remove(k)                                    → | <obs>
  reload                      UnmarshalBinary(WriteTo) on the same bitmap             → | <obs>
  contains v                  Bitmap.Contains (through the lookaside)                 → true|false
  probe v ...                 Contains for each value, in order                       → 0/1 string
  iter k                      Iterator.Seek(k) then Next until eof                    → [..]
  freeze                      Bitmap.Freeze() (result dropped; containers become frozen)  → | <obs>
  obs                         the observation alone                                   → | <obs>
  look                        is the lookaside coherent with the stored containers?   → ok|stale
  keys                        keys of the non-empty containers (container iterator)   → keys=[..]

<obs> = `count=<Count()> any=<Any()> slice=[Slice()] views=<key>:<N>:[values];...` (non-empty containers),
all obtained without going through the lookaside.  `#spec` is the same text computed from the
abstract set (Spec.step).  The model is run under two opposite aliasing policies; if they ever
gave different answers the model column would say POLICY-DIVERGENCE.
-/
import PV.Common.Proto
import PV.C02.Model
import PV.C02.Spec
open PV.Proto PV.C02

/-- Every kernel works in place when the code can (removing the last value still yields nil). -/
def polInPlace : Policy :=
  ⟨fun _ _ => false, fun _ _ => false, fun _ _ => false, fun _ => false, fun _ => false, fun _ _ => false⟩
/-- Every kernel returns a new object. -/
def polFresh : Policy :=
  ⟨fun _ _ => true, fun _ _ => true, fun _ _ => true, fun _ => true, fun _ => true, fun _ _ => true⟩

/-- Long lists are printed as a digest (same function in the harness). -/
def showNatsC (xs : List Nat) : String :=
  if xs.length ≤ 48 then showNats xs
  else s!"<n={xs.length},sum={(xs.map (· % 1000003)).foldl (· + ·) 0},lo={xs.head!},hi={xs.getLast!}>"

def showViews (vs : List (Nat × Cell)) : String :=
  ";".intercalate (vs.map (fun e => s!"{e.1}:{e.2.length}:{showNatsC e.2}"))

def obsStr (count : Nat) (any : Bool) (slice : List Nat) (views : List (Nat × Cell)) : String :=
  s!"count={count} any={showBool any} slice={showNatsC slice} views={showViews views}"

def outStr : Out → String
  | .changed b => s!"b={showBool b} "
  | .changedN n a => s!"n={n} a={showNatsC a} "
  | .imported n => s!"n={n} "
  | .unit => ""
  | .bool b => showBool b
  | .nat n => toString n
  | .list l => showNatsC l
  | .views v => showViews v

structure D (σ : Type) where
  a : BM σ
  b : BM σ
  s : Spec.S

inductive St where
  | none
  | bt (d : D BT)
  | sc (d : D SC)

def modelObs {σ : Type} (C : Coll σ) (b : BM σ) : String :=
  obsStr (count C b) (anyBit C b) (slice C b) (views C b)

def both (x y : String) : String :=
  if x = y then x else s!"POLICY-DIVERGENCE inplace=<{x}> fresh=<{y}>"

def ascB : List Nat → Bool
  | [] => true
  | [_] => true
  | a :: b :: r => a < b && ascB (b :: r)

/-- `Spec.step`, computed with the merge kernels where a payload is ascending (every payload the
harness builds is): `Spec.addAll s vs = unionAsc s vs` and `Spec.removeAll s vs = diffAsc s vs`
(`Spec.addAll_eq_unionAsc`, `Spec.removeAll_eq_diffAsc`), and the reported count is the change of
cardinality (`C02_changed_counts_spec`).  Payloads of 65536 values make the quadratic textbook
definitions too slow to run. -/
def specStep (s : Spec.S) (op : Op) : Spec.S × Out :=
  match op with
  | .importSet gs =>
    let vals := Spec.groupValues gs
    if ascB vals then
      let s' := unionAsc s vals
      (s', .imported (s'.length - s.length))
    else Spec.step s op
  | .importClear gs =>
    let vals := Spec.groupValues gs
    if ascB vals then
      let s' := diffAsc s vals
      (s', .imported (s.length - s'.length))
    else Spec.step s op
  | _ => Spec.step s op

/-- Run a mutation on both policy instances and on the spec. -/
def mutate {σ : Type} (C : Coll σ) (d : D σ) (op : Op) (tag : String) : D σ × Ans :=
  let ra := step C polInPlace d.a op
  let rb := step C polFresh d.b op
  let rs := specStep d.s op
  let ma := outStr ra.2 ++ "| " ++ modelObs C ra.1
  let mb := outStr rb.2 ++ "| " ++ modelObs C rb.1
  let sp := outStr rs.2 ++ "| " ++ obsStr rs.1.length (!rs.1.isEmpty) rs.1 (Spec.views rs.1)
  (⟨ra.1, rb.1, rs.1⟩, ans2 (both ma mb) sp tag)

/-- Run a read. -/
def readOp {σ : Type} (C : Coll σ) (d : D σ) (op : Op) (tag : String) : D σ × Ans :=
  let ra := step C polInPlace d.a op
  let rb := step C polFresh d.b op
  let rs := Spec.step d.s op
  (⟨ra.1, rb.1, rs.1⟩, ans2 (both (outStr ra.2) (outStr rb.2)) (outStr rs.2) tag)

def probe {σ : Type} (C : Coll σ) (d : D σ) (vs : List Nat) : D σ × Ans :=
  let r := vs.foldl (fun (acc : D σ × String × String × String) v =>
      let ra := contains C acc.1.a v
      let rb := contains C acc.1.b v
      let bit (x : Bool) := if x then "1" else "0"
      (⟨ra.1, rb.1, acc.1.s⟩, acc.2.1 ++ bit ra.2, acc.2.2.1 ++ bit rb.2,
        acc.2.2.2 ++ bit (acc.1.s.contains v))) (d, "", "", "")
  (r.1, ans2 (both r.2.1 r.2.2.1) r.2.2.2 "c02-probe")

/-- Coherence of the lookaside, evaluated on the model state.  B-tree: the cached pointer is what
the tree stores under the cached key.  Slice: a non-nil cached pointer is the stored one.  (Which key
is cached depends on whether kernels returned new objects or nil, which the model leaves to the
policy; the invariant does not.) -/
def lookStr {σ : Type} (C : Coll σ) (isBT : Bool) (b : BM σ) : String :=
  let stored := ((C.ents b.c).lookup (C.lastKey b.c)).join
  if isBT then (if stored = C.last b.c then "ok" else "stale")
  else (if (C.last b.c).isNone || stored = C.last b.c then "ok" else "stale")

/-- Keys of the non-empty containers.  (Which empty containers exist depends on whether a
difference kernel hands back nil or an empty container, which the model leaves to the policy.) -/
def keysStr {σ : Type} (C : Coll σ) (b : BM σ) : String :=
  s!"keys={showNats ((views C b).map Prod.fst)}"

def stepD {σ : Type} (C : Coll σ) (isBT : Bool) (d : D σ) (ws : List String) : D σ × Ans :=
  let bad := (d, ans "bad-op")
  match ws with
  | "add" :: vs => match natList? vs with
    | some vs => mutate C d (.add vs) "c02-add"
    | none => bad
  | ["dadd", v] => match v.toNat? with
    | some v => mutate C d (.add [v]) "c02-dadd"
    | none => bad
  | "remove" :: vs => match natList? vs with
    | some vs => mutate C d (.remove vs) "c02-remove"
    | none => bad
  | "addn" :: vs => match natList? vs with
    | some vs => mutate C d (.addN vs) "c02-addn"
    | none => bad
  | "daddn" :: vs => match natList? vs with
    | some vs => mutate C d (.addN vs) "c02-daddn"
    | none => bad
  | "removen" :: vs => match natList? vs with
    | some vs => mutate C d (.removeN vs) "c02-removen"
    | none => bad
  | "dremoven" :: vs => match natList? vs with
    | some vs => mutate C d (.removeN vs) "c02-dremoven"
    | none => bad
  | ["import", "set", csv] => match csvNats? csv with
    | some vs => mutate C d (.importSet (groupVals vs)) "c02-import-set"
    | none => bad
  | ["import", "clear", csv] => match csvNats? csv with
    | some vs => mutate C d (.importClear (groupVals vs)) "c02-import-clear"
    | none => bad
  | ["importo", "set", csv, _mode] => match csvNats? csv with
    | some vs => mutate C d (.importSet (groupVals vs)) "c02-importo-set"
    | none => bad
  | ["importo", "clear", csv, _mode] => match csvNats? csv with
    | some vs => mutate C d (.importClear (groupVals vs)) "c02-importo-clear"
    | none => bad
  | ["fill", "set", k, lo, hi] => match k.toNat?, lo.toNat?, hi.toNat? with
    | some k, some lo, some hi => mutate C d (.importSet (if lo > hi then [] else [(k, List.range' lo (hi + 1 - lo))])) "c02-fill-set"
    | _, _, _ => bad
  | ["fill", "clear", k, lo, hi] => match k.toNat?, lo.toNat?, hi.toNat? with
    | some k, some lo, some hi => mutate C d (.importClear (if lo > hi then [] else [(k, List.range' lo (hi + 1 - lo))])) "c02-fill-clear"
    | _, _, _ => bad
  | ["fillstep", mode, k, lo, hi, st] => match k.toNat?, lo.toNat?, hi.toNat?, st.toNat? with
    | some k, some lo, some hi, some st =>
      if st = 0 ∨ lo > hi ∨ (mode ≠ "set" ∧ mode ≠ "clear") then bad else
      let cell := (List.range ((hi - lo) / st + 1)).map (fun i => lo + i * st)
      mutate C d (if mode = "set" then .importSet [(k, cell)] else .importClear [(k, cell)]) "c02-fillstep"
    | _, _, _, _ => bad
  | ["optimize"] => mutate C d .optimize "c02-optimize"
  | ["ctrremove", k] => match k.toNat? with
    | some k => mutate C d (.ctrRemove k) "c02-ctrremove"
    | none => bad
  | ["reload"] => mutate C d .reload "c02-reload"
  | ["freeze"] =>
    -- Bitmap.Freeze(): marks every container frozen (shared with the returned copy); the next
    -- write to such a container clones it — one of the "kernel returns a new object" cases the
    -- policy stands for.  No change to the contents.
    (d, ans2 (both ("| " ++ modelObs C d.a) ("| " ++ modelObs C d.b))
          ("| " ++ obsStr d.s.length (!d.s.isEmpty) d.s (Spec.views d.s)) "c02-freeze")
  | ["obs"] =>
    (d, ans2 (both ("| " ++ modelObs C d.a) ("| " ++ modelObs C d.b))
          ("| " ++ obsStr d.s.length (!d.s.isEmpty) d.s (Spec.views d.s)) "c02-obs")
  | ["contains", v] => match v.toNat? with
    | some v => readOp C d (.contains v) "c02-contains"
    | none => bad
  | "probe" :: vs => match natList? vs with
    | some vs => probe C d vs
    | none => bad
  | ["iter", k] => match k.toNat? with
    | some k => readOp C d (.iterFrom k) "c02-iter"
    | none => bad
  | ["look"] => (d, ans2 (both (lookStr C isBT d.a) (lookStr C isBT d.b)) "ok" "c02-look")
  | ["keys"] => (d, ans2 (both (keysStr C d.a) (keysStr C d.b))
      s!"keys={showNats ((Spec.views d.s).map Prod.fst)}" "c02-keys")
  | _ => bad

def stepSt (st : St) (ws : List String) : St × Ans :=
  match ws with
  | ["kind", "btree"] => (.bt ⟨BM.init btColl, BM.init btColl, []⟩, ans "ok")
  | ["kind", "slice"] => (.sc ⟨BM.init scColl, BM.init scColl, []⟩, ans "ok")
  | _ =>
    match st with
    | .none => (st, ans "bad-op:no-kind")
    | .bt d => let r := stepD btColl true d ws; (.bt r.1, r.2)
    | .sc d => let r := stepD scColl false d ws; (.sc r.1, r.2)

def main : IO Unit := run St.none stepSt
