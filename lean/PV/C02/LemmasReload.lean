/-
C02 helper lemmas, part 12: UnmarshalBinary(WriteTo(b)) on the same bitmap — Optimize, Reset,
then one PutContainerValues (+ data) per non-empty container — reproduces the same set.
-/
import PV.C02.LemmasReads
namespace PV.C02
open List

variable {σ : Type}

theorem putValues_spec {C : Coll σ} (ok : CollOK C) (p : Policy) (s : σ) (h : Heap) (k : Nat) (cell : Cell)
    (hg : Good C ok ⟨s, h⟩) (hk : k < INVALID) (hc : CellOK cell) :
    Good C ok ⟨(putValues C p s h k cell).1, (putValues C p s h k cell).2⟩ ∧
    cont C ⟨(putValues C p s h k cell).1, (putValues C p s h k cell).2⟩ k = cell ∧
    ∀ k', k' ≠ k → cont C ⟨(putValues C p s h k cell).1, (putValues C p s h k cell).2⟩ k' = cont C ⟨s, h⟩ k' := by
  unfold putValues
  obtain ⟨e, _, h2, hinv, hlk⟩ := ok.update s k (putValuesFn p cell h) hg.inv hk
  have hlk' := lk_after_update hlk
  rw [h2]
  cases hl : lk C s k with
  | none =>
    rw [hl] at hlk'
    have hF : putValuesFn p cell h none e = (h ++ [cell], some h.length, true) := rfl
    rw [hF] at hlk' ⊢
    exact apply_gen ok ⟨s, h⟩ k _ (h ++ [cell]) (some h.length) cell hg hinv hlk' hc
      (Or.inr (Or.inr (Or.inl ⟨rfl, rfl⟩)))
  | some i =>
    rw [hl] at hlk'
    by_cases hf : p.thawFresh (hget h i) = true
    · have hF : putValuesFn p cell h (some i) e = (h ++ [cell], some h.length, true) := by
        simp [putValuesFn, hf]
      rw [hF] at hlk' ⊢
      exact apply_gen ok ⟨s, h⟩ k _ (h ++ [cell]) (some h.length) cell hg hinv hlk' hc
        (Or.inr (Or.inr (Or.inl ⟨rfl, rfl⟩)))
    · have hF : putValuesFn p cell h (some i) e = (hset h i cell, some i, true) := by
        simp [putValuesFn, hf]
      rw [hF] at hlk' ⊢
      exact apply_gen ok ⟨s, h⟩ k _ (hset h i cell) (some i) cell hg hinv hlk' hc
        (Or.inr (Or.inl ⟨i, hl, rfl, rfl⟩))

theorem putValues_fold {C : Coll σ} (ok : CollOK C) (p : Policy) (items : List (Nat × Cell)) :
    ∀ (s : σ) (h : Heap), Good C ok ⟨s, h⟩ → KeysAsc items →
    (∀ it ∈ items, it.1 < INVALID ∧ CellOK it.2) →
    Good C ok ⟨(items.foldl (fun (acc : σ × Heap) it => putValues C p acc.1 acc.2 it.1 it.2) (s, h)).1,
               (items.foldl (fun (acc : σ × Heap) it => putValues C p acc.1 acc.2 it.1 it.2) (s, h)).2⟩ ∧
    ∀ k, cont C ⟨(items.foldl (fun (acc : σ × Heap) it => putValues C p acc.1 acc.2 it.1 it.2) (s, h)).1,
                 (items.foldl (fun (acc : σ × Heap) it => putValues C p acc.1 acc.2 it.1 it.2) (s, h)).2⟩ k
      = match List.lookup k items with
        | some c => c
        | none => cont C ⟨s, h⟩ k := by
  induction items with
  | nil => intro s h hg _ _; exact ⟨hg, fun _ => rfl⟩
  | cons it t ih =>
    obtain ⟨k0, c0⟩ := it
    intro s h hg hka hit
    have hk' := keysAsc_cons.mp hka
    obtain ⟨g1, g2, g3⟩ := putValues_spec ok p s h k0 c0 hg (hit (k0, c0) (by simp)).1 (hit (k0, c0) (by simp)).2
    obtain ⟨i1, i2⟩ := ih _ _ g1 hk'.2 (fun it' h' => hit it' (by simp [h']))
    simp only [foldl_cons]
    refine ⟨i1, ?_⟩
    intro k
    rw [i2 k]
    simp only [lookup_cons]
    by_cases e : k = k0
    · subst e
      simp only [beq_self_eq_true]
      rw [lookup_eq_none_of_lt hk'.1]; exact g2
    · have : (k == k0) = false := by simp [e]
      simp only [this]
      cases List.lookup k t with
      | none => exact g3 k e
      | some c => rfl

theorem reload_spec {C : Coll σ} (ok : CollOK C) (p : Policy) (b : BM σ) (hg : Good C ok b) :
    Good C ok (reload C p b) ∧ slice C (reload C p b) = slice C b := by
  obtain ⟨hg1, hs1⟩ := optimize_spec ok p b hg
  -- the serialised containers
  have hL := cells_LOK hg1
  have hitems : views C (optimize C p b) = (cells C (optimize C p b)).filter (fun e => e.2.length != 0) := rfl
  have hka : KeysAsc (views C (optimize C p b)) := by
    rw [hitems]; unfold KeysAsc Asc; rw [pairwise_map]; exact Pairwise.filter _ hL.keys
  have hit : ∀ it ∈ views C (optimize C p b), it.1 < INVALID ∧ CellOK it.2 := by
    intro it hm
    rw [hitems] at hm
    have hm' := (mem_filter.mp hm).1
    obtain ⟨k, c⟩ := it
    obtain ⟨i, hl, rfl⟩ := (mem_cells hg1).mp hm'
    exact ⟨ok.keyok _ k i hg1.inv hl, hg1.heap.cell k i hl⟩
  -- the freshly reset collection
  obtain ⟨hri, hre⟩ := ok.reset (optimize C p b).c
  have hlk0 : ∀ k, lk C (C.reset (optimize C p b).c) k = none := by intro k; unfold lk; rw [hre]; rfl
  have hg0 : Good C ok ⟨C.reset (optimize C p b).c, (optimize C p b).h⟩ := by
    refine ⟨hri, ⟨?_, ?_, ?_⟩⟩
    · intro k i hl; rw [hlk0] at hl; cases hl
    · intro k i hl; rw [hlk0] at hl; cases hl
    · intro k k' i hl; rw [hlk0] at hl; cases hl
  obtain ⟨f1, f2⟩ := putValues_fold ok p (views C (optimize C p b)) _ _ hg0 hka hit
  have hgr : Good C ok (reload C p b) := f1
  refine ⟨hgr, ?_⟩
  rw [← hs1]
  apply slice_unique hgr (asc_slice hg1)
  intro v
  rw [mem_slice hg1]
  have hc : cont C (reload C p b) (v / W) = cont C (optimize C p b) (v / W) := by
    show cont C ⟨_, _⟩ (v / W) = _
    rw [f2 (v / W)]
    cases hlu : List.lookup (v / W) (views C (optimize C p b)) with
    | some c =>
      simp only
      have hm := mem_of_lookup_eq_some hlu
      rw [hitems] at hm
      obtain ⟨i, hl, rfl⟩ := (mem_cells hg1).mp (mem_filter.mp hm).1
      exact (cont_of_lk_some hl).symm
    | none =>
      simp only
      rw [cont_of_lk_none (hlk0 _)]
      cases hl : lk C (optimize C p b).c (v / W) with
      | none => exact (cont_of_lk_none hl).symm
      | some i =>
        rw [cont_of_lk_some hl]
        by_cases hemp : (hget (optimize C p b).h i).length = 0
        · exact (length_eq_zero_iff.mp hemp).symm
        · exfalso
          have hm : (v / W, hget (optimize C p b).h i) ∈ views C (optimize C p b) := by
            rw [hitems, mem_filter]
            refine ⟨(mem_cells hg1).mpr ⟨i, hl, rfl⟩, ?_⟩
            simpa using hemp
          rw [lookup_eq_some_of_mem hka hm] at hlu
          cases hlu
  rw [hc]

end PV.C02
