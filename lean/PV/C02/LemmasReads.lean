/-
C02 helper lemmas, part 11: Optimize, Containers.Remove, and the remaining reads
(iterator from a position, per-container views).
-/
import PV.C02.LemmasImport3
namespace PV.C02
open List

variable {σ : Type}

theorem optimize_spec {C : Coll σ} (ok : CollOK C) (p : Policy) (b : BM σ) (hg : Good C ok b) :
    Good C ok (optimize C p b) ∧ slice C (optimize C p b) = slice C b := by
  obtain ⟨h1, h2, h3⟩ := ok.everyOpt p b.c b.h hg.inv hg.heap
  have hg' : Good C ok (optimize C p b) := ⟨h1, h2⟩
  refine ⟨hg', ?_⟩
  apply slice_unique hg' (asc_slice hg)
  intro v
  rw [mem_slice hg]
  show _ ↔ v % W ∈ contentsOf C (C.updateEvery b.c b.h (optFn p)).1 (C.updateEvery b.c b.h (optFn p)).2 (v / W)
  rw [h3]; rfl

theorem ctrRemove_spec {C : Coll σ} (ok : CollOK C) (b : BM σ) (k : Nat) (hg : Good C ok b) :
    Good C ok (ctrRemove C b k) ∧ slice C (ctrRemove C b k) = (slice C b).filter (fun v => v / W != k) := by
  obtain ⟨hi, hl⟩ := ok.remove b.c k hg.inv
  have hg' : Good C ok (ctrRemove C b k) := by
    refine ⟨hi, ⟨?_, ?_, ?_⟩⟩
    · intro k' j h
      have h' : lk C (C.remove b.c k) k' = some j := h
      rw [hl] at h'; split at h'
      · cases h'
      · exact hg.heap.ptr k' j h'
    · intro k' j h
      have h' : lk C (C.remove b.c k) k' = some j := h
      rw [hl] at h'; split at h'
      · cases h'
      · exact hg.heap.cell k' j h'
    · intro k1 k2 j h1 h2
      have h1' : lk C (C.remove b.c k) k1 = some j := h1
      have h2' : lk C (C.remove b.c k) k2 = some j := h2
      rw [hl] at h1' h2'
      split at h1'
      · cases h1'
      · split at h2'
        · cases h2'
        · exact hg.heap.inj k1 k2 j h1' h2'
  refine ⟨hg', ?_⟩
  apply slice_unique hg' (Pairwise.filter _ (asc_slice hg))
  intro v
  rw [mem_filter, mem_slice hg]
  show _ ↔ v % W ∈ contentsOf C (C.remove b.c k) b.h (v / W)
  unfold contentsOf cont contentsOf
  rw [hl]
  by_cases e : v / W = k
  · simp [e]
  · simp [e]

/-! ### Iterator from a position -/

theorem flatMap_filter_eq {α β : Type} (l : List α) (q : α → Bool) (f : α → List β)
    (h : ∀ e ∈ l, q e = false → f e = []) : (l.filter q).flatMap f = l.flatMap f := by
  induction l with
  | nil => rfl
  | cons a t ih =>
    have iht := ih (fun e he => h e (by simp [he]))
    rw [filter_cons]
    cases hq : q a
    · simp only [Bool.false_eq_true, ↓reduceIte, flatMap_cons]
      rw [h a (by simp) hq, iht]; rfl
    · simp only [↓reduceIte, flatMap_cons, iht]

theorem iterFrom_spec {C : Coll σ} (ok : CollOK C) (b : BM σ) (k : Nat) (hg : Good C ok b) :
    iterFrom C b k = (slice C b).filter (fun v => decide (v ≥ k)) := by
  unfold iterFrom slice
  rw [filter_flatMap]
  apply flatMap_filter_eq
  intro e he hq
  obtain ⟨ke, ie⟩ := e
  have hlt : ke < k / W := by simpa using hq
  have hc := hg.heap.cell ke ie ((mem_iterEnts hg).mp he)
  rw [filter_eq_nil_iff]
  intro v hv
  obtain ⟨x, hx, rfl⟩ := mem_map.mp hv
  have hxW := hc.2 x hx
  simp only [ge_iff_le, decide_eq_true_eq, Nat.not_le]
  have h1 : (ke + 1) * W ≤ k / W * W := Nat.mul_le_mul_right W hlt
  have h2 : k / W * W ≤ k := Nat.div_mul_le_self k W
  rw [Nat.add_mul] at h1
  omega

/-! ### Per-container views -/

theorem keysOf_cons (v : Nat) (vs : List Nat) :
    Spec.keysOf (v :: vs) = match Spec.keysOf vs with
      | [] => [v / W]
      | k :: ks => if v / W = k then k :: ks else v / W :: k :: ks := rfl

theorem keysOf_mem {s : List Nat} {x : Nat} (hx : x ∈ Spec.keysOf s) : ∃ v ∈ s, v / W = x := by
  induction s generalizing x with
  | nil => simp [Spec.keysOf] at hx
  | cons v t ih =>
    unfold Spec.keysOf at hx
    cases hk : Spec.keysOf t with
    | nil =>
      rw [hk] at hx
      simp at hx
      exact ⟨v, by simp, hx.symm⟩
    | cons k ks =>
      rw [hk] at hx
      simp only at hx
      split at hx
      · obtain ⟨w, hw, hwx⟩ := ih (by rw [hk]; exact hx)
        exact ⟨w, by simp [hw], hwx⟩
      · rcases mem_cons.mp hx with e | hx'
        · exact ⟨v, by simp, e.symm⟩
        · obtain ⟨w, hw, hwx⟩ := ih (by rw [hk]; exact hx')
          exact ⟨w, by simp [hw], hwx⟩

/-- A block of values with the same key in front of values with other keys. -/
theorem keysOf_block (k : Nat) (B s' : List Nat) (hB : ∀ v ∈ B, v / W = k) (hne : B ≠ [])
    (hs' : ∀ v ∈ s', v / W ≠ k) : Spec.keysOf (B ++ s') = k :: Spec.keysOf s' := by
  induction B with
  | nil => exact absurd rfl hne
  | cons v t ih =>
    have hv : v / W = k := hB v (by simp)
    by_cases ht : t = []
    · subst ht
      simp only [nil_append, cons_append]
      rw [keysOf_cons]
      cases hk : Spec.keysOf s' with
      | nil => simp [hv]
      | cons k' ks =>
        have : k' ≠ k := by
          obtain ⟨w, hw, hwk⟩ := keysOf_mem (s := s') (x := k') (by rw [hk]; simp)
          rw [← hwk]; exact hs' w hw
        have hne' : ¬ k = k' := fun e => this e.symm
        simp [hne', hv]
    · have iht := ih (fun w hw => hB w (by simp [hw])) ht
      simp only [cons_append]
      rw [keysOf_cons, iht]
      simp [hv]

theorem views_flat (L : List (Nat × Cell)) (hL : LOK L) :
    Spec.views (flat L) = L.filter (fun e => e.2.length != 0) := by
  induction L with
  | nil => rfl
  | cons e t ih =>
    obtain ⟨k, c⟩ := e
    have hkeys := pairwise_cons.mp hL.keys
    have hLt : LOK t := ⟨hkeys.2, fun e he => hL.cells e (by simp [he])⟩
    have hc : CellOK c := hL.cells (k, c) (by simp)
    have iht := ih hLt
    have hflat : flat ((k, c) :: t) = c.map (fun x => k * W + x) ++ flat t := by
      unfold flat; rw [flatMap_cons]
    have hrest : ∀ v ∈ flat t, v / W ≠ k := by
      intro v hv
      obtain ⟨c', hm, _⟩ := (mem_flat hLt).mp hv
      have := hkeys.1 _ hm
      simp at this; omega
    rw [hflat, filter_cons]
    by_cases hce : c = []
    · subst hce; simpa using iht
    · have hlen : (c.length != 0) = true := by
        cases c with
        | nil => exact absurd rfl hce
        | cons _ _ => rfl
      simp only [hlen, ↓reduceIte]
      have hB : ∀ v ∈ c.map (fun x => k * W + x), v / W = k := by
        intro v hv
        obtain ⟨x, hx, rfl⟩ := mem_map.mp hv
        exact div_W (hc.2 x hx)
      have hBne : c.map (fun x => k * W + x) ≠ [] := by simpa using hce
      unfold Spec.views
      rw [keysOf_block k _ _ hB hBne hrest, map_cons]
      congr 1
      · -- the entry of key k
        congr 1
        rw [filter_append]
        have h1 : (c.map (fun x => k * W + x)).filter (fun v => v / W == k) = c.map (fun x => k * W + x) := by
          rw [filter_eq_self]; intro v hv; simp [hB v hv]
        have h2 : (flat t).filter (fun v => v / W == k) = [] := by
          rw [filter_eq_nil_iff]; intro v hv; simp [hrest v hv]
        rw [h1, h2, append_nil, map_map]
        have : ∀ x ∈ c, ((fun v => v % W) ∘ fun x => k * W + x) x = x := by
          intro x hx; exact mod_W (hc.2 x hx)
        rw [map_congr_left this, map_id'']
        intro x; rfl
      · -- the other keys
        rw [← iht]
        unfold Spec.views
        apply map_congr_left
        intro k' hk'
        obtain ⟨w, hw, hwk⟩ := keysOf_mem hk'
        have hkk : k' ≠ k := by rw [← hwk]; exact hrest w hw
        congr 2
        rw [filter_append]
        have : (c.map (fun x => k * W + x)).filter (fun v => v / W == k') = [] := by
          rw [filter_eq_nil_iff]; intro v hv
          rw [hB v hv]; simpa using fun e => hkk e.symm
        rw [this, nil_append]

theorem views_spec {C : Coll σ} (ok : CollOK C) (b : BM σ) (hg : Good C ok b) :
    views C b = Spec.views (slice C b) := by
  rw [slice_eq_flat, views_flat _ (cells_LOK hg)]
  rfl

end PV.C02
