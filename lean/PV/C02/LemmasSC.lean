/-
C02 helper lemmas, part 4: the slice collection satisfies the collection laws.
Coherent (slice): a non-nil cached pointer is the pointer stored under the cached key
(`GetOrCreate` ignores a nil cache entry, so nil carries no claim).
-/
import PV.C02.LemmasColl
import PV.C02.LemmasBT
namespace PV.C02
open List

def SC.Coherent (s : SC) : Prop := ∀ i, s.last = some i → List.lookup s.lastKey s.ents = some (some i)

def SC.Inv (s : SC) : Prop :=
  KeysAsc s.ents ∧ SC.Coherent s ∧ ∀ e ∈ s.ents, e.1 < INVALID

theorem sc_keysLt_aSet {es : Ents} {k : Nat} {c : Ptr} (hk : k < INVALID) (h : ∀ e ∈ es, e.1 < INVALID) :
    ∀ e ∈ aSet es k c, e.1 < INVALID := by
  intro e he
  rcases mem_keys_aSet _ _ _ _ he with rfl | he
  · exact hk
  · exact h e he

theorem lk_sc (s : SC) (k : Nat) : lk scColl s k = (List.lookup k s.ents).join := rfl

theorem join_eq_some {α : Type} {o : Option (Option α)} {a : α} : o.join = some a ↔ o = some (some a) := by
  cases o with
  | none => simp
  | some x => cases x <;> simp

/-- Contents by entries and heap. -/
def eCont (es : Ents) (h : Heap) (k : Nat) : Cell := pcell h (List.lookup k es).join

theorem eCont_append {es : Ents} {h ex : Heap} (hp : ∀ k i, (k, some i) ∈ es → i < h.length) (k : Nat) :
    eCont es (h ++ ex) k = eCont es h k := by
  unfold eCont
  cases hl : (List.lookup k es).join with
  | none => rfl
  | some i => exact hget_append_of_lt (hp k i (mem_of_lookup_eq_some (join_eq_some.mp hl)))

theorem scEvery_opt (p : Policy) (lkey : Nat) : ∀ (es : Ents) (h : Heap) (lc : Ptr),
    KeysAsc es → (∀ k i, (k, some i) ∈ es → i < h.length) → (es.filterMap Prod.snd).Nodup →
    (∃ ex, (scEvery (optFn p) lkey h lc es).2.2 = h ++ ex) ∧
    ((scEvery (optFn p) lkey h lc es).1.map Prod.fst = es.map Prod.fst) ∧
    (∀ k i, (k, some i) ∈ (scEvery (optFn p) lkey h lc es).1 →
        (k, some i) ∈ es ∨ (h.length ≤ i ∧ i < (scEvery (optFn p) lkey h lc es).2.2.length)) ∧
    ((scEvery (optFn p) lkey h lc es).1.filterMap Prod.snd).Nodup ∧
    (∀ k, eCont (scEvery (optFn p) lkey h lc es).1 (scEvery (optFn p) lkey h lc es).2.2 k = eCont es h k) ∧
    ((scEvery (optFn p) lkey h lc es).2.1 =
      match List.lookup lkey es with
      | some _ => (List.lookup lkey (scEvery (optFn p) lkey h lc es).1).join
      | none => lc) := by
  intro es
  induction es with
  | nil => intro h lc _ _ _; simp [scEvery, eCont]
  | cons e r ih =>
    obtain ⟨k0, c0⟩ := e
    intro h lc hka hp hnd
    rw [keysAsc_cons] at hka
    have hpr : ∀ k i, (k, some i) ∈ r → i < h.length := fun k i he => hp k i (by simp [he])
    have hlk0 : List.lookup lkey r = none ∨ lkey ≠ k0 := by
      by_cases h0 : lkey = k0
      · left; subst h0; exact lookup_eq_none_of_lt hka.1
      · right; exact h0
    -- common continuation: the head becomes (k0, c1) and the loop goes on with heap h'
    have keep : ∀ (h' : Heap) (c1 : Ptr), (∃ ex, h' = h ++ ex) →
        (c1 = c0 ∨ c1 = none ∨ ∃ j, c1 = some j ∧ h.length ≤ j ∧ j < h'.length) →
        pcell h' c1 = pcell h c0 →
        (r.filterMap Prod.snd).Nodup →
        (c0 = none ∨ ∃ i0, c0 = some i0 ∧ i0 ∉ r.filterMap Prod.snd) →
        let q := scEvery (optFn p) lkey h' (if k0 = lkey then c1 else lc) r
        (∃ ex, q.2.2 = h ++ ex) ∧
        (((k0, c1) :: q.1).map Prod.fst = k0 :: r.map Prod.fst) ∧
        (∀ k i, (k, some i) ∈ (k0, c1) :: q.1 →
            (k, some i) ∈ (k0, c0) :: r ∨ (h.length ≤ i ∧ i < q.2.2.length)) ∧
        (((k0, c1) :: q.1).filterMap Prod.snd).Nodup ∧
        (∀ k, eCont ((k0, c1) :: q.1) q.2.2 k = eCont ((k0, c0) :: r) h k) ∧
        (q.2.1 = match List.lookup lkey ((k0, c0) :: r) with
          | some _ => (List.lookup lkey ((k0, c1) :: q.1)).join
          | none => lc) := by
      intro h' c1 ⟨ex, hex⟩ hc1 hcell hndr hc0 q
      have hlen : h.length ≤ h'.length := by rw [hex]; simp
      have hpr' : ∀ k i, (k, some i) ∈ r → i < h'.length := fun k i he => Nat.lt_of_lt_of_le (hpr k i he) hlen
      obtain ⟨⟨ex2, hex2⟩, hkeys, hids, hnd2, hcont, hlast⟩ :=
        ih h' (if k0 = lkey then c1 else lc) hka.2 hpr' hndr
      refine ⟨⟨ex ++ ex2, by show q.2.2 = _; rw [hex2, hex, append_assoc]⟩, ?_, ?_, ?_, ?_, ?_⟩
      · simp only [map_cons]; rw [hkeys]
      · intro k i he
        rcases mem_cons.mp he with e | he
        · cases e
          rcases hc1 with e1 | e1 | ⟨j, e1, hj1, hj2⟩
          · left; rw [← e1]; simp
          · cases e1
          · cases e1; right; refine ⟨hj1, ?_⟩; show i < q.2.2.length; rw [hex2]; simp; omega
        · rcases hids k i he with hm | hm
          · left; simp [hm]
          · right; exact ⟨by omega, hm.2⟩
      · rw [filterMap_cons]
        cases hc : c1 with
        | none => simpa using hnd2
        | some j =>
          simp only [nodup_cons]
          refine ⟨?_, hnd2⟩
          intro hm
          obtain ⟨e, he, hej⟩ := mem_filterMap.mp hm
          obtain ⟨k1, c⟩ := e
          simp at hej; subst hej
          rcases hids k1 j he with hm | hm
          · rcases hc1 with e1 | e1 | ⟨j', e1, hj1, hj2⟩
            · rcases hc0 with e0 | ⟨i0, e0, hi0⟩
              · rw [hc, e0] at e1; cases e1
              · rw [hc, e0] at e1; cases e1
                exact hi0 (mem_filterMap.mpr ⟨_, hm, rfl⟩)
            · rw [hc] at e1; cases e1
            · rw [hc] at e1; cases e1
              have := hpr k1 j hm; omega
          · rcases hc1 with e1 | e1 | ⟨j', e1, hj1, hj2⟩
            · rcases hc0 with e0 | ⟨i0, e0, hi0⟩
              · rw [hc, e0] at e1; cases e1
              · rw [hc, e0] at e1; cases e1
                have := hp k0 j (by simp [e0]); omega
            · rw [hc] at e1; cases e1
            · rw [hc] at e1; cases e1; omega
      · intro k
        unfold eCont
        simp only [lookup_cons]
        by_cases hk : k = k0
        · subst hk; simp only [beq_self_eq_true, Option.join_some]
          rw [← hcell]
          cases hc : c1 with
          | none => rfl
          | some j =>
            have hjlt : j < h'.length := by
              rcases hc1 with e1 | e1 | ⟨j', e1, hj1, hj2⟩
              · rw [hc] at e1; exact Nat.lt_of_lt_of_le (hp k j (by simp [e1])) hlen
              · rw [hc] at e1; cases e1
              · rw [hc] at e1; cases e1; exact hj2
            show hget q.2.2 j = hget h' j
            rw [hex2, hget_append_of_lt hjlt]
        · have : (k == k0) = false := by simp [hk]
          simp only [this]
          have h1 := hcont k
          unfold eCont at h1
          show pcell q.2.2 (List.lookup k q.1).join = _
          rw [h1]
          have h2 := eCont_append (es := r) (h := h) (ex := ex) hpr k
          unfold eCont at h2
          rw [← hex] at h2; exact h2
      · show q.2.1 = _
        rw [hlast]
        simp only [lookup_cons]
        by_cases h0 : lkey = k0
        · subst h0
          simp only [beq_self_eq_true, ↓reduceIte, Option.join_some]
          rw [lookup_eq_none_of_lt hka.1]
        · have : (lkey == k0) = false := by simp [h0]
          have h0' : ¬ k0 = lkey := fun e => h0 e.symm
          have hq : q = scEvery (optFn p) lkey h' lc r := by
            show scEvery (optFn p) lkey h' (if k0 = lkey then c1 else lc) r = _
            rw [if_neg h0']
          simp only [this, h0', ↓reduceIte]
          rw [hq]
    simp only [scEvery, optFn, cOptimize]
    have hndr : (r.filterMap Prod.snd).Nodup := by
      rw [filterMap_cons] at hnd
      cases c0 with
      | none => simpa using hnd
      | some i0 => simp only [nodup_cons] at hnd; exact hnd.2
    cases c0 with
    | none =>
      simp only [↓reduceIte]
      exact keep h none ⟨[], by simp⟩ (Or.inl rfl) rfl hndr (Or.inl rfl)
    | some i0 =>
      have hi0 : i0 ∉ r.filterMap Prod.snd := by
        rw [filterMap_cons] at hnd; simp only [nodup_cons] at hnd; exact hnd.1
      have hc0 : (some i0 = none ∨ ∃ i, some i0 = some i ∧ i ∉ r.filterMap Prod.snd) := Or.inr ⟨i0, rfl, hi0⟩
      by_cases hemp : (hget h i0).length = 0
      · simp only [hemp, ↓reduceIte]
        exact keep h none ⟨[], by simp⟩ (Or.inr (Or.inl rfl))
          (by show [] = hget h i0; exact (length_eq_zero_iff.mp hemp).symm) hndr hc0
      · simp only [hemp, ↓reduceIte]
        by_cases hf : p.optFresh (hget h i0) = true
        · simp only [hf, ↓reduceIte]
          exact keep (h ++ [hget h i0]) (some h.length) ⟨[hget h i0], rfl⟩
            (Or.inr (Or.inr ⟨h.length, rfl, Nat.le_refl _, by simp⟩))
            (by show hget (h ++ [hget h i0]) h.length = hget h i0; exact hget_append_eq) hndr hc0
        · simp only [hf]
          exact keep h (some i0) ⟨[], by simp⟩ (Or.inl rfl) rfl hndr hc0

end PV.C02

namespace PV.C02
open List

theorem sc_contentsOf (s : SC) (h : Heap) (k : Nat) : contentsOf scColl s h k = eCont s.ents h k := by
  unfold contentsOf eCont; rw [lk_sc]
  cases (List.lookup k s.ents).join <;> rfl

theorem lk_eSet (es : Ents) (k k' : Nat) (c : Ptr) :
    (List.lookup k' (eSet es k c)).join = if k' = k then c else (List.lookup k' es).join := by
  unfold eSet; rw [lookup_aSet]; split <;> simp

theorem eids_nodup {es : Ents} (hk : KeysAsc es)
    (hinj : ∀ k k' i, (List.lookup k es).join = some i → (List.lookup k' es).join = some i → k = k') :
    (es.filterMap Prod.snd).Nodup := by
  induction es with
  | nil => simp
  | cons e r ih =>
    obtain ⟨k0, c0⟩ := e
    have hk' := keysAsc_cons.mp hk
    have hr : (r.filterMap Prod.snd).Nodup := by
      apply ih hk'.2
      intro k k' i h1 h2
      have m1 := mem_of_lookup_eq_some (join_eq_some.mp h1)
      have m2 := mem_of_lookup_eq_some (join_eq_some.mp h2)
      exact hinj k k' i (join_eq_some.mpr (lookup_eq_some_of_mem hk (by simp [m1])))
        (join_eq_some.mpr (lookup_eq_some_of_mem hk (by simp [m2])))
    rw [filterMap_cons]
    cases c0 with
    | none => simpa using hr
    | some i0 =>
      simp only [nodup_cons]
      refine ⟨?_, hr⟩
      intro hm
      obtain ⟨e, he, hei⟩ := mem_filterMap.mp hm
      obtain ⟨k1, c1⟩ := e
      simp at hei; subst hei
      have h1 : (List.lookup k1 ((k0, some i0) :: r)).join = some i0 :=
        join_eq_some.mpr (lookup_eq_some_of_mem hk (by simp [he]))
      have h0 : (List.lookup k0 ((k0, some i0) :: r)).join = some i0 :=
        join_eq_some.mpr (lookup_eq_some_of_mem hk (by simp))
      have := hinj _ _ _ h1 h0
      have := hk'.1 _ he
      simp at this; omega

theorem key_eq_of_eids_nodup {es : Ents} (hnd : (es.filterMap Prod.snd).Nodup) {k k' i : Nat}
    (h1 : (k, some i) ∈ es) (h2 : (k', some i) ∈ es) : k = k' := by
  induction es with
  | nil => cases h1
  | cons e r ih =>
    obtain ⟨k0, c0⟩ := e
    rw [filterMap_cons] at hnd
    have hr : (r.filterMap Prod.snd).Nodup := by
      cases c0 with
      | none => simpa using hnd
      | some i0 => simp only [nodup_cons] at hnd; exact hnd.2
    rcases mem_cons.mp h1 with e1 | m1 <;> rcases mem_cons.mp h2 with e2 | m2
    · cases e1; cases e2; rfl
    · exfalso; cases e1; simp only [nodup_cons] at hnd
      exact hnd.1 (mem_filterMap.mpr ⟨_, m2, rfl⟩)
    · exfalso; cases e2; simp only [nodup_cons] at hnd
      exact hnd.1 (mem_filterMap.mpr ⟨_, m1, rfl⟩)
    · exact ih hr m1 m2

/-- The slice collection satisfies the collection laws. -/
def scOK : CollOK scColl where
  Inv := SC.Inv
  init := by
    refine ⟨?_, ?_, ?_⟩
    · simp [scColl, SC.init, KeysAsc, Asc]
    · intro i hi; simp [scColl, SC.init] at hi
    · intro e he; simp [scColl, SC.init] at he
  init_ents := by simp [scColl, SC.init]
  keys := fun s hs => hs.1
  keyok := by
    intro s k i hs hl
    exact hs.2.2 _ (mem_of_lookup_eq_some (join_eq_some.mp hl))
  get := by
    intro s k hs
    exact ⟨hs, rfl, rfl⟩
  put := by
    intro s k c hs hkv
    obtain ⟨hk, hc, hlt⟩ := hs
    show SC.Inv (SC.put s k c) ∧ ∀ k', lk scColl (SC.put s k c) k' = if k' = k then c else lk scColl s k'
    refine ⟨⟨keysAsc_aSet k c hk, ?_, sc_keysLt_aSet hkv hlt⟩, ?_⟩
    · intro i hi
      show List.lookup k (eSet s.ents k c) = some (some i)
      have : c = some i := hi
      unfold eSet; rw [lookup_aSet]; simp [this]
    · intro k'; exact lk_eSet s.ents k k' c
  remove := by
    intro s k hs
    obtain ⟨hk, hc, hlt⟩ := hs
    show SC.Inv (SC.remove s k) ∧ ∀ k', lk scColl (SC.remove s k) k' = if k' = k then none else lk scColl s k'
    unfold SC.remove
    cases hl : List.lookup k s.ents with
    | none =>
      dsimp only
      refine ⟨⟨hk, hc, hlt⟩, ?_⟩
      intro k'; split
      · rename_i he; subst he; rw [lk_sc, hl]; rfl
      · rfl
    | some c =>
      dsimp only
      refine ⟨⟨keysAsc_filter _ hk, ?_, fun e he => hlt e (mem_filter.mp he).1⟩, ?_⟩
      · intro i hi
        by_cases he : k = s.lastKey
        · simp [he] at hi
        · simp only [he, ↓reduceIte] at hi ⊢
          rw [lookup_filter_ne]
          have : ¬ s.lastKey = k := fun e => he e.symm
          simp only [this, ↓reduceIte]; exact hc i hi
      · intro k'
        show (List.lookup k' (s.ents.filter fun e => e.1 != k)).join = _
        rw [lookup_filter_ne, lk_sc]; split <;> rfl
  goc := by
    intro s h k hs hkv
    obtain ⟨hk, hc, hlt⟩ := hs
    show SC.Inv (SC.getOrCreate s h k).1 ∧ (SC.getOrCreate s h k).2.2 = lk scColl (SC.getOrCreate s h k).1 k ∧
      (∀ k', k' ≠ k → lk scColl (SC.getOrCreate s h k).1 k' = lk scColl s k') ∧
      (((SC.getOrCreate s h k).2.2 = lk scColl s k ∧ (SC.getOrCreate s h k).2.1 = h) ∨
       (lk scColl s k = none ∧ (SC.getOrCreate s h k).2.2 = some h.length ∧ (SC.getOrCreate s h k).2.1 = h ++ [[]]))
    unfold SC.getOrCreate
    split
    · rename_i hhit
      obtain ⟨i, hi⟩ := Option.isSome_iff_exists.mp hhit.2
      have hl := hc i hi
      rw [← hhit.1] at hl
      have : lk scColl s k = s.last := by rw [lk_sc, hl, hi]; rfl
      exact ⟨⟨hk, hc, hlt⟩, this.symm, fun _ _ => rfl, Or.inl ⟨this.symm, rfl⟩⟩
    · cases hl : List.lookup k s.ents with
      | none =>
        dsimp only
        refine ⟨⟨keysAsc_aSet k _ hk, ?_, sc_keysLt_aSet hkv hlt⟩, ?_, ?_, Or.inr ⟨by rw [lk_sc, hl]; rfl, rfl, rfl⟩⟩
        · intro i hi
          show List.lookup k (eSet s.ents k (some h.length)) = some (some i)
          have : some h.length = some i := hi
          unfold eSet; rw [lookup_aSet]; simp [this]
        · show some h.length = (List.lookup k (eSet s.ents k (some h.length))).join
          rw [lk_eSet]; simp
        · intro k' hne
          show (List.lookup k' (eSet s.ents k (some h.length))).join = _
          rw [lk_eSet]; simp [hne]; rfl
      | some c =>
        dsimp only
        refine ⟨⟨hk, ?_, hlt⟩, ?_, fun _ _ => rfl, Or.inl ⟨?_, rfl⟩⟩
        · intro i hi
          show List.lookup k s.ents = some (some i)
          have : c = some i := hi
          rw [hl, this]
        · show c = (List.lookup k s.ents).join
          rw [hl]; rfl
        · show c = (List.lookup k s.ents).join
          rw [hl]; rfl
  update := by
    intro α s k fn hs hkv
    obtain ⟨hk, hc, hlt⟩ := hs
    show ∃ e, (∀ i, lk scColl s k = some i → e = true) ∧
      (SC.update s k fn).2 = (fn (lk scColl s k) e).1 ∧ SC.Inv (SC.update s k fn).1 ∧
      ∀ k', lk scColl (SC.update s k fn).1 k' =
        if k' = k ∧ (fn (lk scColl s k) e).2.2 = true then (fn (lk scColl s k) e).2.1 else lk scColl s k'
    unfold SC.update
    cases hl : List.lookup k s.ents with
    | some c =>
      have hlk : lk scColl s k = c := by rw [lk_sc, hl]; rfl
      rw [hlk]
      refine ⟨true, fun _ _ => rfl, ?_⟩
      dsimp only
      by_cases hw : (fn c true).2.2 = true
      · simp only [hw, ↓reduceIte, and_true]
        refine ⟨trivial, ⟨?_, ?_, by unfold SC.refreshLast; split <;> exact sc_keysLt_aSet hkv hlt⟩, ?_⟩
        · unfold SC.refreshLast; split <;> exact keysAsc_aSet k _ hk
        · intro i hi
          unfold SC.refreshLast at hi ⊢
          by_cases he : k = s.lastKey
          · simp only [he, ↓reduceIte] at hi ⊢
            show List.lookup s.lastKey (eSet s.ents s.lastKey _) = _
            have : (fn c true).2.1 = some i := hi
            unfold eSet; rw [lookup_aSet]; simp [this]
          · simp only [he, ↓reduceIte] at hi ⊢
            show List.lookup s.lastKey (eSet s.ents k _) = _
            unfold eSet; rw [lookup_aSet]
            have : ¬ s.lastKey = k := fun e => he e.symm
            simp only [this, ↓reduceIte]; exact hc i hi
        · intro k'
          have : lk scColl (SC.refreshLast { s with ents := eSet s.ents k (fn c true).2.1 } k (fn c true).2.1) k'
              = (List.lookup k' (eSet s.ents k (fn c true).2.1)).join := by
            unfold SC.refreshLast; split <;> rfl
          rw [this, lk_eSet]; rfl
      · have hw' : (fn c true).2.2 = false := by simpa using hw
        simp only [hw']
        exact ⟨rfl, ⟨hk, hc, hlt⟩, fun k' => by simp⟩
    | none =>
      have hlk : lk scColl s k = none := by rw [lk_sc, hl]; rfl
      rw [hlk]
      refine ⟨false, by simp, ?_⟩
      dsimp only
      by_cases hw : (fn none false).2.2 = true ∧ (fn none false).2.1.isSome = true
      · simp only [hw, and_self, ↓reduceIte, and_true]
        refine ⟨trivial, ⟨keysAsc_aSet k _ hk, ?_, sc_keysLt_aSet hkv hlt⟩, ?_⟩
        · intro i hi
          show List.lookup s.lastKey (eSet s.ents k _) = _
          have h1 := hc i hi
          have : ¬ s.lastKey = k := by intro e; rw [e, hl] at h1; cases h1
          unfold eSet; rw [lookup_aSet]; simp only [this, ↓reduceIte]; exact h1
        · intro k'
          show (List.lookup k' (eSet s.ents k _)).join = _
          rw [lk_eSet]; rfl
      · simp only [hw, ↓reduceIte]
        refine ⟨trivial, ⟨hk, hc, hlt⟩, ?_⟩
        intro k'
        split
        · rename_i he
          obtain ⟨e1, e2⟩ := he
          subst e1
          have : (fn none false).2.1 = none := by
            cases h : (fn none false).2.1 with
            | none => rfl
            | some j => exfalso; apply hw; simp [e2, h]
          rw [this]; exact hlk
        · rfl
  everyOpt := by
    intro p s h hs hh
    obtain ⟨hk, hc, hlt⟩ := hs
    have hptr : ∀ k i, (k, some i) ∈ s.ents → i < h.length := by
      intro k i he
      exact hh.ptr k i (by rw [lk_sc]; exact join_eq_some.mpr (lookup_eq_some_of_mem hk he))
    have hnd : (s.ents.filterMap Prod.snd).Nodup := by
      apply eids_nodup hk
      intro k k' i h1 h2
      exact hh.inj k k' i h1 h2
    obtain ⟨⟨ex, hex⟩, hkeys, hids, hnd2, hcont, hlast⟩ := scEvery_opt p s.lastKey s.ents h s.last hk hptr hnd
    show SC.Inv (SC.updateEvery s h (optFn p)).1 ∧
      HeapOK scColl (SC.updateEvery s h (optFn p)).1 (SC.updateEvery s h (optFn p)).2 ∧
      ∀ k, contentsOf scColl (SC.updateEvery s h (optFn p)).1 (SC.updateEvery s h (optFn p)).2 k
        = contentsOf scColl s h k
    unfold SC.updateEvery
    dsimp only
    have hk2 : KeysAsc (scEvery (optFn p) s.lastKey h s.last s.ents).1 := by
      unfold KeysAsc; rw [hkeys]; exact hk
    have hlt2 : ∀ e ∈ (scEvery (optFn p) s.lastKey h s.last s.ents).1, e.1 < INVALID := by
      intro e he
      have : e.1 ∈ (scEvery (optFn p) s.lastKey h s.last s.ents).1.map Prod.fst := mem_map.mpr ⟨e, he, rfl⟩
      rw [hkeys] at this
      obtain ⟨e', he', hee⟩ := mem_map.mp this
      rw [← hee]; exact hlt e' he'
    refine ⟨⟨hk2, ?_, hlt2⟩, ⟨?_, ?_, ?_⟩, ?_⟩
    · intro i hi
      have hi' : (scEvery (optFn p) s.lastKey h s.last s.ents).2.1 = some i := hi
      rw [hlast] at hi'
      show List.lookup s.lastKey (scEvery (optFn p) s.lastKey h s.last s.ents).1 = some (some i)
      cases hl : List.lookup s.lastKey s.ents with
      | some c => rw [hl] at hi'; exact join_eq_some.mp hi'
      | none =>
        rw [hl] at hi'
        have := hc i hi'
        rw [hl] at this; cases this
    · intro k i hl
      rcases hids k i (mem_of_lookup_eq_some (join_eq_some.mp hl)) with hm | hm
      · have := hptr k i hm
        show i < (scEvery (optFn p) s.lastKey h s.last s.ents).2.2.length
        rw [hex]; simp; omega
      · exact hm.2
    · intro k i hl
      have hl' : (List.lookup k (scEvery (optFn p) s.lastKey h s.last s.ents).1).join = some i := hl
      have hc1 := hcont k
      unfold eCont at hc1
      rw [hl'] at hc1
      show CellOK (hget (scEvery (optFn p) s.lastKey h s.last s.ents).2.2 i)
      have : hget (scEvery (optFn p) s.lastKey h s.last s.ents).2.2 i = pcell h (List.lookup k s.ents).join := hc1
      rw [this]
      cases hg : (List.lookup k s.ents).join with
      | none => exact ⟨asc_nil, by simp [pcell]⟩
      | some i' => exact hh.cell k i' hg
    · intro k k' i h1 h2
      exact key_eq_of_eids_nodup hnd2 (mem_of_lookup_eq_some (join_eq_some.mp h1))
        (mem_of_lookup_eq_some (join_eq_some.mp h2))
    · intro k
      rw [sc_contentsOf, sc_contentsOf]; exact hcont k
  reset := by
    intro s
    refine ⟨⟨?_, ?_, ?_⟩, ?_⟩
    · simp [scColl, SC.reset, KeysAsc, Asc]
    · intro i hi; simp [scColl, SC.reset] at hi
    · intro e he; simp [scColl, SC.reset] at he
    · simp [scColl, SC.reset]

end PV.C02
