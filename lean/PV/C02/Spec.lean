/-
C02 spec: a bitmap is a set of naturals, kept as a strictly ascending list.  Every mutation is
the obvious set operation and reports the documented change count; every read is the obvious
function of the set.
-/
import PV.C02.Model
namespace PV.C02.Spec
open PV.C02

/-- A set of naturals as a strictly ascending list. -/
abbrev S := List Nat

def addAll (s : S) (vs : List Nat) : S := vs.foldl (fun acc v => insertAsc v acc) s
def removeAll (s : S) (vs : List Nat) : S := s.filter (fun x => !vs.contains x)

/-- `AddN`'s `a[:changed]`: the values of `vs` not yet in the set, first occurrences, in order. -/
def newly (s : S) : List Nat → List Nat
  | [] => []
  | v :: vs => if s.contains v then newly s vs else v :: newly (insertAsc v s) vs

/-- `RemoveN`'s `a[:changed]`: the values of `vs` that are in the set, first occurrences, in order. -/
def gone (s : S) : List Nat → List Nat
  | [] => []
  | v :: vs => if s.contains v then v :: gone (eraseAsc v s) vs else gone s vs

/-- All values of a roaring payload given as containers. -/
def groupValues (gs : List (Nat × Cell)) : List Nat :=
  gs.flatMap (fun g => g.2.map (fun x => g.1 * W + x))

/-- Keys that hold at least one value, ascending. -/
def keysOf : S → List Nat
  | [] => []
  | v :: vs => match keysOf vs with
    | [] => [v / W]
    | k :: ks => if v / W = k then k :: ks else v / W :: k :: ks

/-- Per-container view of a set. -/
def views (s : S) : List (Nat × Cell) :=
  (keysOf s).map (fun k => (k, (s.filter (fun v => v / W == k)).map (fun v => v % W)))

def step (s : S) : Op → S × Out
  | .add vs => (addAll s vs, .changed (vs.any (fun v => !s.contains v)))
  | .remove vs => (removeAll s vs, .changed (vs.any (fun v => s.contains v)))
  | .addN vs => (addAll s vs, .changedN (newly s vs).length (newly s vs ++ vs.drop (newly s vs).length))
  | .removeN vs => (removeAll s vs, .changedN (gone s vs).length (gone s vs ++ vs.drop (gone s vs).length))
  | .importSet gs => (addAll s (groupValues gs),
      .imported ((groupValues gs).filter (fun v => !s.contains v)).length)
  | .importClear gs => (removeAll s (groupValues gs),
      .imported ((groupValues gs).filter (fun v => s.contains v)).length)
  | .optimize => (s, .unit)
  | .ctrRemove k => (s.filter (fun v => v / W != k), .unit)
  | .reload => (s, .unit)
  | .contains v => (s, .bool (s.contains v))
  | .count => (s, .nat s.length)
  | .slice => (s, .list s)
  | .iterFrom k => (s, .list (s.filter (fun v => v ≥ k)))
  | .views => (s, .views (views s))

def run (s : S) (ops : List Op) : S × List Out :=
  ops.foldl (fun acc op => let r := step acc.1 op; (r.1, acc.2 ++ [r.2])) (s, [])

end PV.C02.Spec
