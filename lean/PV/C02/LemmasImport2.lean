/-
C02 helper lemmas, part 9: one container of an import (the `importUpdater` closures run through
`Containers.Update`), then whole imports; Optimize; Containers.Remove.
-/
import PV.C02.LemmasImport
namespace PV.C02
open List

variable {σ : Type}

theorem lk_after_update {C : Coll σ} {s s' : σ} {k : Nat} {w : Bool} {nv : Ptr}
    (h : ∀ k', lk C s' k' = if k' = k ∧ w = true then nv else lk C s k') :
    ∀ k', lk C s' k' = if k' = k then (if w then nv else lk C s k) else lk C s k' := by
  intro k'; rw [h]
  by_cases e : k' = k
  · subst e; cases w <;> simp
  · simp [e]

theorem W_ne_zero : ¬ (0 = W) := by unfold W; omega

theorem length_filter_true (l : List Nat) : (l.filter (fun _ => true)).length = l.length := by
  rw [filter_eq_self.mpr (by intros; rfl)]

/-- One container of a set-import. -/
theorem importSet_group {C : Coll σ} (ok : CollOK C) (p : Policy) (s : σ) (h : Heap) (n k : Nat)
    (syn : Cell) (hg : Good C ok ⟨s, h⟩) (hk : k < INVALID) (hsyn : CellOK syn) :
    Good C ok ⟨(C.update s k (importSetFn p syn (h, n))).1, (C.update s k (importSetFn p syn (h, n))).2.1⟩ ∧
    cont C ⟨(C.update s k (importSetFn p syn (h, n))).1, (C.update s k (importSetFn p syn (h, n))).2.1⟩ k
      = unionAsc (cont C ⟨s, h⟩ k) syn ∧
    (∀ k', k' ≠ k →
      cont C ⟨(C.update s k (importSetFn p syn (h, n))).1, (C.update s k (importSetFn p syn (h, n))).2.1⟩ k'
        = cont C ⟨s, h⟩ k') ∧
    (C.update s k (importSetFn p syn (h, n))).2.2
      = n + (syn.filter (fun x => !(cont C ⟨s, h⟩ k).contains x)).length := by
  obtain ⟨e, _, h2, hinv, hlk⟩ := ok.update s k (importSetFn p syn (h, n)) hg.inv hk
  have hlk' := lk_after_update hlk
  have hold := cont_cellOK hg k
  rw [h2]
  -- every case ends by `apply_gen` on the concrete result of the closure
  have fin : ∀ (h' : Heap) (cnt : Nat) (newC : Ptr) (w : Bool) (cell' : Cell),
      importSetFn p syn (h, n) (lk C s k) e = ((h', cnt), newC, w) →
      CellOK cell' →
      ((∃ junk, h' = h ++ junk ∧ (if w then newC else lk C s k) = lk C s k ∧ cell' = cont C ⟨s, h⟩ k) ∨
       (∃ i, lk C s k = some i ∧ h' = hset h i cell' ∧ (if w then newC else lk C s k) = some i) ∨
       (h' = h ++ [cell'] ∧ (if w then newC else lk C s k) = some h.length) ∨
       (h' = h ∧ (if w then newC else lk C s k) = none ∧ cell' = [])) →
      cell' = unionAsc (cont C ⟨s, h⟩ k) syn →
      cnt = n + (syn.filter (fun x => !(cont C ⟨s, h⟩ k).contains x)).length →
      Good C ok ⟨(C.update s k (importSetFn p syn (h, n))).1, (importSetFn p syn (h, n) (lk C s k) e).1.1⟩ ∧
      cont C ⟨(C.update s k (importSetFn p syn (h, n))).1, (importSetFn p syn (h, n) (lk C s k) e).1.1⟩ k
        = unionAsc (cont C ⟨s, h⟩ k) syn ∧
      (∀ k', k' ≠ k →
        cont C ⟨(C.update s k (importSetFn p syn (h, n))).1, (importSetFn p syn (h, n) (lk C s k) e).1.1⟩ k'
          = cont C ⟨s, h⟩ k') ∧
      (importSetFn p syn (h, n) (lk C s k) e).1.2
        = n + (syn.filter (fun x => !(cont C ⟨s, h⟩ k).contains x)).length := by
    intro h' cnt newC w cell' hF hc hs hu hn
    rw [hF] at hlk' ⊢
    obtain ⟨g1, g2, g3⟩ := apply_gen ok ⟨s, h⟩ k _ h' (if w then newC else lk C s k) cell' hg hinv hlk' hc hs
    exact ⟨g1, by rw [g2, hu], g3, hn⟩
  cases hl : lk C s k with
  | none =>
    have hc0 : cont C ⟨s, h⟩ k = [] := cont_of_lk_none hl
    rw [hl] at fin
    apply fin (h ++ [syn]) (n + syn.length) (some h.length) true syn
    · simp [importSetFn, cN, W_ne_zero]
    · exact hsyn
    · exact Or.inr (Or.inr (Or.inl ⟨rfl, rfl⟩))
    · rw [hc0, unionAsc_nil_left hsyn.1]
    · rw [hc0]; simp [length_filter_true]
  | some i =>
    have hci : cont C ⟨s, h⟩ k = hget h i := cont_of_lk_some hl
    rw [hl] at fin
    rw [hci] at fin hold ⊢
    by_cases hfull : (hget h i).length = W
    · -- full container: left alone
      apply fin h n (some i) false (hget h i)
      · simp [importSetFn, cN, hfull]
      · exact hold
      · exact Or.inl ⟨[], by simp, rfl, rfl⟩
      · rw [unionAsc_full hold hsyn hfull]
      · rw [filter_not_mem_full hold hsyn hfull]; rfl
    · by_cases hemp : (hget h i).length = 0
      · -- empty container: replaced by a clone of the payload container
        have he0 : hget h i = [] := length_eq_zero_iff.mp hemp
        apply fin (h ++ [syn]) (n + syn.length) (some h.length) true syn
        · simp [importSetFn, cN, hemp, W_ne_zero]
        · exact hsyn
        · exact Or.inr (Or.inr (Or.inl ⟨rfl, rfl⟩))
        · rw [he0, unionAsc_nil_left hsyn.1]
        · rw [he0]; simp [length_filter_true]
      · have hlen := length_unionAsc (a := hget h i) (b := syn) hold.1 hsyn.1
        have hcu := cellOK_unionAsc hold hsyn
        by_cases hfr : p.unionFresh (hget h i) syn = true
        · by_cases hch : (unionAsc (hget h i) syn).length = (hget h i).length
          · apply fin (h ++ [unionAsc (hget h i) syn]) n (some i) false (hget h i)
            · simp [importSetFn, cN, hfull, hemp, hfr, hch]
            · exact hold
            · exact Or.inl ⟨[unionAsc (hget h i) syn], rfl, rfl, rfl⟩
            · exact (unionAsc_eq_of_length hold.1 hsyn.1 hch).symm
            · omega
          · apply fin (h ++ [unionAsc (hget h i) syn])
              (n + ((unionAsc (hget h i) syn).length - (hget h i).length)) (some h.length) true
              (unionAsc (hget h i) syn)
            · simp [importSetFn, cN, hfull, hemp, hfr, hch]
            · exact hcu
            · exact Or.inr (Or.inr (Or.inl ⟨rfl, rfl⟩))
            · rfl
            · omega
        · by_cases hch : (unionAsc (hget h i) syn).length = (hget h i).length
          · apply fin (hset h i (unionAsc (hget h i) syn)) n (some i) false (unionAsc (hget h i) syn)
            · simp [importSetFn, cN, hfull, hemp, hfr, hch]
            · exact hcu
            · exact Or.inr (Or.inl ⟨i, rfl, rfl, rfl⟩)
            · rfl
            · omega
          · apply fin (hset h i (unionAsc (hget h i) syn))
              (n + ((unionAsc (hget h i) syn).length - (hget h i).length)) (some i) true
              (unionAsc (hget h i) syn)
            · simp [importSetFn, cN, hfull, hemp, hfr, hch]
            · exact hcu
            · exact Or.inr (Or.inl ⟨i, rfl, rfl, rfl⟩)
            · rfl
            · omega

end PV.C02
