/-
C02 helper lemmas, part 8: ImportRoaringBits (set / clear) through `Containers.Update`,
Optimize, Containers.Remove.
-/
import PV.C02.LemmasStep
import PV.C02.LemmasBT
namespace PV.C02
open List

variable {σ : Type}

/-- A collection state `s'` whose pointer for `k` is `newC` (all other keys as in `b1`), with a
heap `h'` in which the container of `k` holds `cell'`. -/
theorem apply_gen {C : Coll σ} (ok : CollOK C) (b1 : BM σ) (k : Nat) (s' : σ) (h' : Heap) (newC : Ptr)
    (cell' : Cell) (hg : Good C ok b1) (hinv : ok.Inv s')
    (hlk : ∀ k', lk C s' k' = if k' = k then newC else lk C b1.c k')
    (hcell : CellOK cell')
    (hs : (∃ junk, h' = b1.h ++ junk ∧ newC = lk C b1.c k ∧ cell' = cont C b1 k) ∨
          (∃ i, lk C b1.c k = some i ∧ h' = hset b1.h i cell' ∧ newC = some i) ∨
          (h' = b1.h ++ [cell'] ∧ newC = some b1.h.length) ∨
          (h' = b1.h ∧ newC = none ∧ cell' = [])) :
    Good C ok ⟨s', h'⟩ ∧ cont C ⟨s', h'⟩ k = cell' ∧ ∀ k', k' ≠ k → cont C ⟨s', h'⟩ k' = cont C b1 k' := by
  rcases hs with ⟨junk, h1, h2, h3⟩ | ⟨i, hli, h1, h2⟩ | ⟨h1, h2⟩ | ⟨h1, h2, h3⟩
  · -- pointer unchanged, heap only grew
    subst h1; subst h2; subst h3
    have hsame : ∀ k', lk C s' k' = lk C b1.c k' := by
      intro k'; rw [hlk]; split
      · rename_i e; rw [e]
      · rfl
    refine ⟨⟨hinv, ⟨?_, ?_, ?_⟩⟩, ?_, ?_⟩
    · intro k' j hl; rw [hsame] at hl
      show j < (b1.h ++ junk).length
      have := hg.heap.ptr k' j hl; simp; omega
    · intro k' j hl; rw [hsame] at hl
      show CellOK (hget (b1.h ++ junk) j)
      rw [hget_append_of_lt (hg.heap.ptr k' j hl)]; exact hg.heap.cell k' j hl
    · intro k1 k2 j hl1 hl2; rw [hsame] at hl1 hl2; exact hg.heap.inj k1 k2 j hl1 hl2
    · show contentsOf C s' (b1.h ++ junk) k = contentsOf C b1.c b1.h k
      unfold contentsOf; rw [hsame]
      cases hl : lk C b1.c k with
      | none => rfl
      | some j => exact hget_append_of_lt (hg.heap.ptr k j hl)
    · intro k' _
      show contentsOf C s' (b1.h ++ junk) k' = contentsOf C b1.c b1.h k'
      unfold contentsOf; rw [hsame]
      cases hl : lk C b1.c k' with
      | none => rfl
      | some j => exact hget_append_of_lt (hg.heap.ptr k' j hl)
  · -- in place
    subst h1; subst h2
    have hsame : ∀ k', lk C s' k' = lk C b1.c k' := by
      intro k'; rw [hlk]; split
      · rename_i e; rw [e, hli]
      · rfl
    have hil : i < b1.h.length := hg.heap.ptr k i hli
    refine ⟨⟨hinv, ⟨?_, ?_, ?_⟩⟩, ?_, ?_⟩
    · intro k' j hl; rw [hsame] at hl
      show j < (hset b1.h i cell').length; rw [length_hset]; exact hg.heap.ptr k' j hl
    · intro k' j hl; rw [hsame] at hl
      by_cases hj : i = j
      · subst hj; show CellOK (hget (hset b1.h i cell') i); rw [hget_hset_eq hil]; exact hcell
      · show CellOK (hget (hset b1.h i cell') j); rw [hget_hset_ne hj]; exact hg.heap.cell k' j hl
    · intro k1 k2 j hl1 hl2; rw [hsame] at hl1 hl2; exact hg.heap.inj k1 k2 j hl1 hl2
    · show contentsOf C s' (hset b1.h i cell') k = cell'
      unfold contentsOf; rw [hsame, hli]; exact hget_hset_eq hil
    · intro k' hne'
      show contentsOf C s' (hset b1.h i cell') k' = contentsOf C b1.c b1.h k'
      unfold contentsOf; rw [hsame]
      cases hl : lk C b1.c k' with
      | none => rfl
      | some j =>
        have : i ≠ j := by intro e; subst e; exact hne' (hg.heap.inj k' k i hl hli)
        exact hget_hset_ne this
  · -- new object
    subst h1; subst h2
    refine ⟨⟨hinv, ⟨?_, ?_, ?_⟩⟩, ?_, ?_⟩
    · intro k' j hl
      rw [hlk] at hl
      show j < (b1.h ++ [cell']).length
      simp only [length_append, length_cons, length_nil]
      split at hl
      · cases hl; omega
      · have := hg.heap.ptr k' j hl; omega
    · intro k' j hl
      rw [hlk] at hl
      split at hl
      · cases hl; show CellOK (hget (b1.h ++ [cell']) b1.h.length); rw [hget_append_eq]; exact hcell
      · show CellOK (hget (b1.h ++ [cell']) j)
        rw [hget_append_lt (hg.heap.ptr k' j hl)]; exact hg.heap.cell k' j hl
    · intro k1 k2 j hl1 hl2
      rw [hlk] at hl1 hl2
      split at hl1 <;> split at hl2
      · rename_i e1 e2; rw [e1, e2]
      · cases hl1; have := hg.heap.ptr k2 _ hl2; omega
      · cases hl2; have := hg.heap.ptr k1 _ hl1; omega
      · exact hg.heap.inj k1 k2 j hl1 hl2
    · show contentsOf C s' (b1.h ++ [cell']) k = cell'
      unfold contentsOf; rw [hlk]; simp only [↓reduceIte]; exact hget_append_eq
    · intro k' hne'
      show contentsOf C s' (b1.h ++ [cell']) k' = contentsOf C b1.c b1.h k'
      unfold contentsOf; rw [hlk]; simp only [hne', ↓reduceIte]
      cases hl : lk C b1.c k' with
      | none => rfl
      | some j => exact hget_append_lt (hg.heap.ptr k' j hl)
  · -- nil
    subst h1; subst h2; subst h3
    refine ⟨⟨hinv, ⟨?_, ?_, ?_⟩⟩, ?_, ?_⟩
    · intro k' j hl; rw [hlk] at hl; split at hl
      · cases hl
      · exact hg.heap.ptr k' j hl
    · intro k' j hl; rw [hlk] at hl; split at hl
      · cases hl
      · exact hg.heap.cell k' j hl
    · intro k1 k2 j hl1 hl2
      rw [hlk] at hl1 hl2
      split at hl1
      · cases hl1
      · split at hl2
        · cases hl2
        · exact hg.heap.inj k1 k2 j hl1 hl2
    · show contentsOf C s' b1.h k = []
      unfold contentsOf; rw [hlk]; simp
    · intro k' hne'
      show contentsOf C s' b1.h k' = contentsOf C b1.c b1.h k'
      unfold contentsOf; rw [hlk]; simp [hne']

/-! ### Container-level facts used by the import closures -/

theorem unionAsc_nil_left {b : List Nat} (hb : Asc b) : unionAsc [] b = b :=
  asc_ext (asc_unionAsc asc_nil hb) hb (fun v => by rw [mem_unionAsc]; simp)

theorem cellOK_unionAsc {a b : Cell} (ha : CellOK a) (hb : CellOK b) : CellOK (unionAsc a b) := by
  refine ⟨asc_unionAsc ha.1 hb.1, ?_⟩
  intro x hx; rcases mem_unionAsc.mp hx with h | h
  · exact ha.2 x h
  · exact hb.2 x h

theorem cellOK_diffAsc {a b : Cell} (ha : CellOK a) : CellOK (diffAsc a b) :=
  ⟨asc_diffAsc ha.1, fun x hx => ha.2 x ((diffAsc_sublist a b).subset hx)⟩

theorem asc_nodup {l : List Nat} (h : Asc l) : l.Nodup := by
  unfold Asc at h
  exact Pairwise.imp (fun {a b} hab => by omega) h

theorem cell_length_le {a : Cell} (ha : CellOK a) : a.length ≤ W := by
  have := asc_length_le (l := a) (lo := 0) (n := W) ha.1 (fun x hx => ⟨Nat.zero_le _, ha.2 x hx⟩) (Nat.zero_le _)
  omega

/-- Union into a full container changes nothing. -/
theorem unionAsc_full {a b : Cell} (ha : CellOK a) (hb : CellOK b) (hf : a.length = W) :
    unionAsc a b = a := by
  apply unionAsc_eq_of_length ha.1 hb.1
  have h1 := length_le_unionAsc (b := b) ha.1 hb.1
  have h2 := cell_length_le (cellOK_unionAsc ha hb)
  omega

theorem filter_not_mem_full {a b : Cell} (ha : CellOK a) (hb : CellOK b) (hf : a.length = W) :
    b.filter (fun x => !a.contains x) = [] := by
  rw [filter_eq_nil_iff]
  intro x hx
  have := mem_of_full ha.1 ha.2 hf (hb.2 x hx)
  simp [this]

theorem diffAsc_full {a b : Cell} (ha : CellOK a) (hb : CellOK b) (hf : b.length = W) :
    diffAsc a b = [] := by
  rw [diffAsc_eq_filter ha.1 hb.1]
  unfold diffFilter
  rw [filter_eq_nil_iff]
  intro x hx
  have := mem_of_full hb.1 hb.2 hf (ha.2 x hx)
  simp [this]

theorem length_diffAsc {a b : Cell} (ha : Asc a) (hb : Asc b) :
    (diffAsc a b).length + (a.filter (fun x => b.contains x)).length = a.length := by
  rw [diffAsc_eq_filter ha hb]
  unfold diffFilter
  clear ha
  induction a with
  | nil => rfl
  | cons x t ih =>
    rw [filter_cons, filter_cons]
    cases hb' : b.contains x
    · simp only [Bool.not_false, ↓reduceIte, length_cons, Bool.false_eq_true]; omega
    · simp only [Bool.not_true, Bool.false_eq_true, ↓reduceIte, length_cons]; omega

theorem filter_cons_count {x : Nat} {t : List Nat} (hx : x ∉ t) : ∀ (b : List Nat), b.Nodup →
    (b.filter (fun y => (x :: t).contains y)).length
      = (if x ∈ b then 1 else 0) + (b.filter (fun y => t.contains y)).length
  | [], _ => by simp
  | y :: u, hb => by
    rw [nodup_cons] at hb
    have ih := filter_cons_count hx u hb.2
    rw [filter_cons, filter_cons]
    by_cases hyx : y = x
    · subst hyx
      have c1 : (y :: t).contains y = true := by simp
      have c2 : t.contains y = false := by simpa using hx
      have c3 : y ∉ u := hb.1
      rw [c1, c2]; simp only [↓reduceIte, Bool.false_eq_true, length_cons, mem_cons, true_or]
      rw [ih]; simp only [c3, ↓reduceIte]; omega
    · have c1 : (x :: t).contains y = t.contains y := by simp [hyx]
      have c4 : (x ∈ y :: u) ↔ x ∈ u := by
        simp only [mem_cons]; constructor
        · rintro (e | e); exact absurd e.symm hyx; exact e
        · exact Or.inr
      rw [c1]
      cases ht : t.contains y
      · simp only [Bool.false_eq_true, ↓reduceIte]; rw [ih]; simp only [c4]
      · simp only [↓reduceIte, length_cons]; rw [ih]; simp only [c4]; omega

theorem inter_count_comm {a b : List Nat} (ha : a.Nodup) (hb : b.Nodup) :
    (a.filter (fun x => b.contains x)).length = (b.filter (fun x => a.contains x)).length := by
  induction a with
  | nil =>
    have : b.filter (fun x => ([] : List Nat).contains x) = [] := by
      rw [filter_eq_nil_iff]; intro x _; simp
    rw [this]; rfl
  | cons x t ih =>
    rw [nodup_cons] at ha
    rw [filter_cons_count ha.1 b hb, filter_cons, ← ih ha.2]
    by_cases hx : x ∈ b
    · have : b.contains x = true := by simpa using hx
      simp only [this, ↓reduceIte, length_cons, hx]; omega
    · have : b.contains x = false := by simpa using hx
      simp only [this, Bool.false_eq_true, ↓reduceIte, hx]; omega

end PV.C02
