/-
C02 helper lemmas, part 7: point mutations (Add / Remove / AddN / RemoveN and their Direct
variants) refine insert / erase on the ascending value list.
-/
import PV.C02.LemmasBitmap
namespace PV.C02
open List

variable {σ : Type}

/-- Values are `uint64`: the container key is below the invalid key. -/
theorem key_lt_invalid {v : Nat} (hv : v < 2 ^ 64) : v / W < INVALID := by
  unfold W INVALID; omega

theorem mod_lt_W (v : Nat) : v % W < W := Nat.mod_lt _ W_pos

theorem eq_split_iff {v k x : Nat} (hx : x < W) : v = k * W + x ↔ v / W = k ∧ v % W = x := by
  constructor
  · rintro rfl; exact ⟨div_W hx, mod_W hx⟩
  · rintro ⟨rfl, rfl⟩; exact (split_W v).symm

/-- A point update of one container that inserts `x` is an insert on the value list. -/
theorem slice_insert {C : Coll σ} {ok : CollOK C} {b b' : BM σ} (hg : Good C ok b) (hg' : Good C ok b')
    {k x : Nat} (hx : x < W) (hk : cont C b' k = insertAsc x (cont C b k))
    (ho : ∀ k', k' ≠ k → cont C b' k' = cont C b k') :
    slice C b' = insertAsc (k * W + x) (slice C b) := by
  apply slice_unique hg' (asc_insertAsc (asc_slice hg))
  intro v
  rw [mem_insertAsc, mem_slice hg, eq_split_iff hx]
  by_cases e : v / W = k
  · rw [e, hk, mem_insertAsc]; simp
  · rw [ho _ e]; simp [e]

theorem slice_erase {C : Coll σ} {ok : CollOK C} {b b' : BM σ} (hg : Good C ok b) (hg' : Good C ok b')
    {k x : Nat} (hx : x < W) (hk : cont C b' k = eraseAsc x (cont C b k))
    (ho : ∀ k', k' ≠ k → cont C b' k' = cont C b k') :
    slice C b' = eraseAsc (k * W + x) (slice C b) := by
  apply slice_unique hg' (asc_eraseAsc (asc_slice hg))
  intro v
  rw [mem_eraseAsc, mem_slice hg, Ne, eq_split_iff hx]
  by_cases e : v / W = k
  · rw [e, hk, mem_eraseAsc]; simp
  · rw [ho _ e]; simp [e]

theorem contains_slice {C : Coll σ} {ok : CollOK C} {b : BM σ} (hg : Good C ok b) (v : Nat) :
    (slice C b).contains v = (cont C b (v / W)).contains (v % W) := by
  rw [Bool.eq_iff_iff, contains_iff_mem, contains_iff_mem, mem_slice hg]

/-! ### DirectAdd, Bitmap.remove -/

theorem directAdd_spec {C : Coll σ} (ok : CollOK C) (p : Policy) (b : BM σ) (v : Nat)
    (hg : Good C ok b) (hv : v < 2 ^ 64) :
    Good C ok (directAdd C p b v).1 ∧
    slice C (directAdd C p b v).1 = insertAsc v (slice C b) ∧
    (directAdd C p b v).2 = !(slice C b).contains v := by
  have hk := key_lt_invalid hv
  obtain ⟨hg1, hp1, hc1⟩ := goc_spec ok b (v / W) hg hk
  obtain ⟨h1, _, h3, h4, h5⟩ := apply_op ok kAdd p
    ⟨(C.getOrCreate b.c b.h (v / W)).1, (C.getOrCreate b.c b.h (v / W)).2.1⟩ (v / W) (v % W)
    (C.getOrCreate b.c b.h (v / W)).2.2 hg1 hk (mod_lt_W v) hp1
  rw [hc1] at h3 h5
  have h4' : ∀ k', k' ≠ v / W → cont C (directAdd C p b v).1 k' = cont C b k' := by
    intro k' hne; rw [← hc1 k']; exact h4 k' hne
  refine ⟨h1, ?_, ?_⟩
  · have := slice_insert hg h1 (mod_lt_W v) h3 h4'
    rw [split_W] at this; exact this
  · rw [contains_slice hg]; exact h5

theorem get_spec {C : Coll σ} (ok : CollOK C) (b : BM σ) (k : Nat) (hg : Good C ok b) :
    Good C ok ⟨(C.get b.c k).1, b.h⟩ ∧ (C.get b.c k).2 = lk C (C.get b.c k).1 k ∧
    ∀ k', cont C ⟨(C.get b.c k).1, b.h⟩ k' = cont C b k' := by
  obtain ⟨hi, hp, he⟩ := ok.get b.c k hg.inv
  have hlk : ∀ k', lk C (C.get b.c k).1 k' = lk C b.c k' := by intro k'; unfold lk; rw [he]
  refine ⟨⟨hi, ⟨?_, ?_, ?_⟩⟩, by rw [hlk]; exact hp, ?_⟩
  · intro k' i h; exact hg.heap.ptr k' i (by rw [← hlk]; exact h)
  · intro k' i h; exact hg.heap.cell k' i (by rw [← hlk]; exact h)
  · intro k1 k2 i h1 h2; exact hg.heap.inj k1 k2 i (by rw [← hlk]; exact h1) (by rw [← hlk]; exact h2)
  · intro k'; unfold cont contentsOf; rw [hlk]

theorem bmRemove_spec {C : Coll σ} (ok : CollOK C) (p : Policy) (b : BM σ) (v : Nat)
    (hg : Good C ok b) (hv : v < 2 ^ 64) :
    Good C ok (bmRemove C p b v).1 ∧
    slice C (bmRemove C p b v).1 = eraseAsc v (slice C b) ∧
    (bmRemove C p b v).2 = (slice C b).contains v := by
  have hk := key_lt_invalid hv
  obtain ⟨hg1, hp1, hc1⟩ := get_spec ok b (v / W) hg
  obtain ⟨h1, _, h3, h4, h5⟩ := apply_op ok kRemove p ⟨(C.get b.c (v / W)).1, b.h⟩ (v / W) (v % W)
    (C.get b.c (v / W)).2 hg1 hk (mod_lt_W v) hp1
  rw [hc1] at h3 h5
  have h4' : ∀ k', k' ≠ v / W → cont C (bmRemove C p b v).1 k' = cont C b k' := by
    intro k' hne; rw [← hc1 k']; exact h4 k' hne
  refine ⟨h1, ?_, ?_⟩
  · have := slice_erase hg h1 (mod_lt_W v) h3 h4'
    rw [split_W] at this; exact this
  · rw [contains_slice hg]; exact h5

/-! ### Add(vs...) / Remove(vs...) -/

theorem bmAdd_fold {C : Coll σ} (ok : CollOK C) (p : Policy) (vs : List Nat) :
    ∀ (b : BM σ) (c0 : Bool), Good C ok b → (∀ v ∈ vs, v < 2 ^ 64) →
    Good C ok (vs.foldl (fun acc v => ((directAdd C p acc.1 v).1, acc.2 || (directAdd C p acc.1 v).2)) (b, c0)).1 ∧
    slice C (vs.foldl (fun acc v => ((directAdd C p acc.1 v).1, acc.2 || (directAdd C p acc.1 v).2)) (b, c0)).1
      = Spec.addAll (slice C b) vs ∧
    (vs.foldl (fun acc v => ((directAdd C p acc.1 v).1, acc.2 || (directAdd C p acc.1 v).2)) (b, c0)).2
      = (c0 || vs.any (fun v => !(slice C b).contains v)) := by
  induction vs with
  | nil => intro b c0 hg _; simp [Spec.addAll, hg]
  | cons v t ih =>
    intro b c0 hg hvs
    obtain ⟨h1, h2, h3⟩ := directAdd_spec ok p b v hg (hvs v (by simp))
    obtain ⟨i1, i2, i3⟩ := ih (directAdd C p b v).1 (c0 || (directAdd C p b v).2) h1
      (fun w hw => hvs w (by simp [hw]))
    simp only [foldl_cons]
    refine ⟨i1, ?_, ?_⟩
    · rw [i2, h2, Spec.addAll_cons]
    · rw [i3, h2, h3]
      have := Spec.any_add_seq (slice C b) (asc_slice hg) (v :: t) c0
      simp only [foldl_cons, any_cons] at this
      rw [Spec.any_add_seq _ (asc_insertAsc (asc_slice hg))] at this
      exact this

theorem bmRemove_fold {C : Coll σ} (ok : CollOK C) (p : Policy) (vs : List Nat) :
    ∀ (b : BM σ) (c0 : Bool), Good C ok b → (∀ v ∈ vs, v < 2 ^ 64) →
    Good C ok (vs.foldl (fun acc v => ((bmRemove C p acc.1 v).1, acc.2 || (bmRemove C p acc.1 v).2)) (b, c0)).1 ∧
    slice C (vs.foldl (fun acc v => ((bmRemove C p acc.1 v).1, acc.2 || (bmRemove C p acc.1 v).2)) (b, c0)).1
      = Spec.removeAll (slice C b) vs ∧
    (vs.foldl (fun acc v => ((bmRemove C p acc.1 v).1, acc.2 || (bmRemove C p acc.1 v).2)) (b, c0)).2
      = (c0 || vs.any (fun v => (slice C b).contains v)) := by
  induction vs with
  | nil => intro b c0 hg _; simp [Spec.removeAll_nil, hg]
  | cons v t ih =>
    intro b c0 hg hvs
    obtain ⟨h1, h2, h3⟩ := bmRemove_spec ok p b v hg (hvs v (by simp))
    obtain ⟨i1, i2, i3⟩ := ih (bmRemove C p b v).1 (c0 || (bmRemove C p b v).2) h1
      (fun w hw => hvs w (by simp [hw]))
    simp only [foldl_cons]
    refine ⟨i1, ?_, ?_⟩
    · rw [i2, h2, Spec.removeAll_cons]
    · rw [i3, h2, h3]
      have := Spec.any_remove_seq (slice C b) (v :: t) c0
      simp only [foldl_cons, any_cons] at this
      rw [Spec.any_remove_seq] at this
      exact this

/-! ### directOpN -/

/-- Loop invariant of `directOpN`: the cached `cont` is the pointer stored for `hb`. -/
def OpNInv (C : Coll σ) (ok : CollOK C) (st : OpNState σ) : Prop :=
  Good C ok st.b ∧ (st.hb ≠ INVALID → st.cont = lk C st.b.c st.hb)

theorem opN_step {C : Coll σ} (ok : CollOK C) {op g chg} (ks : KSpec op g chg) (p : Policy)
    (st : OpNState σ) (v : Nat) (hi : OpNInv C ok st) (hv : v < 2 ^ 64) :
    OpNInv C ok (directOpNStep C p op st v) ∧
    cont C (directOpNStep C p op st v).b (v / W) = g (v % W) (cont C st.b (v / W)) ∧
    (∀ k', k' ≠ v / W → cont C (directOpNStep C p op st v).b k' = cont C st.b k') ∧
    (directOpNStep C p op st v).pre
      = if chg (v % W) (cont C st.b (v / W)) then st.pre ++ [v] else st.pre := by
  have hk := key_lt_invalid hv
  obtain ⟨hg, hcache⟩ := hi
  -- the (collection, heap, pointer) triple the kernel is applied to
  have hsel : ∃ (c1 : σ) (h1 : Heap) (pt : Ptr),
      (if v / W != st.hb then C.getOrCreate st.b.c st.b.h (v / W) else (st.b.c, st.b.h, st.cont)) = (c1, h1, pt) ∧
      Good C ok ⟨c1, h1⟩ ∧ pt = lk C c1 (v / W) ∧ ∀ k', cont C ⟨c1, h1⟩ k' = cont C st.b k' := by
    by_cases hne : (v / W != st.hb) = true
    · obtain ⟨hg1, hp1, hc1⟩ := goc_spec ok st.b (v / W) hg hk
      exact ⟨_, _, _, by rw [if_pos hne], hg1, hp1, hc1⟩
    · have heq : v / W = st.hb := by simpa using hne
      refine ⟨st.b.c, st.b.h, st.cont, by rw [if_neg hne], hg, ?_, fun _ => rfl⟩
      rw [heq]; apply hcache; rw [← heq]; omega
  obtain ⟨c1, h1, pt, hsel, hg1, hp1, hc1⟩ := hsel
  obtain ⟨a1, a2, a3, a4, a5⟩ := apply_op ok ks p ⟨c1, h1⟩ (v / W) (v % W) pt hg1 hk (mod_lt_W v) hp1
  unfold directOpNStep
  simp only [hsel]
  rw [hc1] at a3 a5
  refine ⟨⟨a1, fun _ => a2.symm⟩, a3, ?_, ?_⟩
  · intro k' hne; rw [← hc1 k']; exact a4 k' hne
  · rw [a5]

theorem opN_add_fold {C : Coll σ} (ok : CollOK C) (p : Policy) (vs : List Nat) :
    ∀ (st : OpNState σ), OpNInv C ok st → (∀ v ∈ vs, v < 2 ^ 64) →
    Good C ok (vs.foldl (directOpNStep C p cAdd) st).b ∧
    slice C (vs.foldl (directOpNStep C p cAdd) st).b = Spec.addAll (slice C st.b) vs ∧
    (vs.foldl (directOpNStep C p cAdd) st).pre = st.pre ++ Spec.newly (slice C st.b) vs := by
  induction vs with
  | nil => intro st hi _; simp [Spec.addAll, Spec.newly, hi.1]
  | cons v t ih =>
    intro st hi hvs
    obtain ⟨s1, s2, s3, s4⟩ := opN_step ok kAdd p st v hi (hvs v (by simp))
    obtain ⟨i1, i2, i3⟩ := ih (directOpNStep C p cAdd st v) s1 (fun w hw => hvs w (by simp [hw]))
    have hsl : slice C (directOpNStep C p cAdd st v).b = insertAsc v (slice C st.b) := by
      have := slice_insert hi.1 s1.1 (mod_lt_W v) s2 s3
      rw [split_W] at this; exact this
    simp only [foldl_cons]
    refine ⟨i1, ?_, ?_⟩
    · rw [i2, hsl, Spec.addAll_cons]
    · rw [i3, s4, hsl, ← contains_slice hi.1, Spec.newly_cons]
      by_cases hc : (slice C st.b).contains v = true
      · simp only [hc, Bool.not_true, Bool.false_eq_true, ↓reduceIte]
        rw [insertAsc_of_mem (asc_slice hi.1) (by simpa using hc)]
      · have hc' : (slice C st.b).contains v = false := by simpa using hc
        simp only [hc', Bool.not_false, ↓reduceIte, Bool.false_eq_true, append_assoc, cons_append,
          nil_append]

theorem opN_remove_fold {C : Coll σ} (ok : CollOK C) (p : Policy) (vs : List Nat) :
    ∀ (st : OpNState σ), OpNInv C ok st → (∀ v ∈ vs, v < 2 ^ 64) →
    Good C ok (vs.foldl (directOpNStep C p cRemove) st).b ∧
    slice C (vs.foldl (directOpNStep C p cRemove) st).b = Spec.removeAll (slice C st.b) vs ∧
    (vs.foldl (directOpNStep C p cRemove) st).pre = st.pre ++ Spec.gone (slice C st.b) vs := by
  induction vs with
  | nil => intro st hi _; simp [Spec.removeAll_nil, Spec.gone, hi.1]
  | cons v t ih =>
    intro st hi hvs
    obtain ⟨s1, s2, s3, s4⟩ := opN_step ok kRemove p st v hi (hvs v (by simp))
    obtain ⟨i1, i2, i3⟩ := ih (directOpNStep C p cRemove st v) s1 (fun w hw => hvs w (by simp [hw]))
    have hsl : slice C (directOpNStep C p cRemove st v).b = eraseAsc v (slice C st.b) := by
      have := slice_erase hi.1 s1.1 (mod_lt_W v) s2 s3
      rw [split_W] at this; exact this
    simp only [foldl_cons]
    refine ⟨i1, ?_, ?_⟩
    · rw [i2, hsl, Spec.removeAll_cons]
    · rw [i3, s4, hsl, ← contains_slice hi.1, Spec.gone_cons]
      by_cases hc : (slice C st.b).contains v = true
      · simp only [hc, ↓reduceIte, append_assoc, cons_append, nil_append]
      · have hc' : (slice C st.b).contains v = false := by simpa using hc
        simp only [hc', Bool.false_eq_true, ↓reduceIte]
        rw [eraseAsc_of_not_mem (by simpa using hc')]

theorem directAddN_spec {C : Coll σ} (ok : CollOK C) (p : Policy) (b : BM σ) (vs : List Nat)
    (hg : Good C ok b) (hvs : ∀ v ∈ vs, v < 2 ^ 64) :
    Good C ok (directAddN C p b vs).1 ∧
    slice C (directAddN C p b vs).1 = Spec.addAll (slice C b) vs ∧
    (directAddN C p b vs).2 = Spec.newly (slice C b) vs := by
  have hi : OpNInv C ok (⟨b, INVALID, none, []⟩ : OpNState σ) := ⟨hg, fun h => absurd rfl h⟩
  obtain ⟨h1, h2, h3⟩ := opN_add_fold ok p vs _ hi hvs
  simp only [nil_append] at h3
  exact ⟨h1, h2, h3⟩

theorem directRemoveN_spec {C : Coll σ} (ok : CollOK C) (p : Policy) (b : BM σ) (vs : List Nat)
    (hg : Good C ok b) (hvs : ∀ v ∈ vs, v < 2 ^ 64) :
    Good C ok (directRemoveN C p b vs).1 ∧
    slice C (directRemoveN C p b vs).1 = Spec.removeAll (slice C b) vs ∧
    (directRemoveN C p b vs).2 = Spec.gone (slice C b) vs := by
  have hi : OpNInv C ok (⟨b, INVALID, none, []⟩ : OpNState σ) := ⟨hg, fun h => absurd rfl h⟩
  obtain ⟨h1, h2, h3⟩ := opN_remove_fold ok p vs _ hi hvs
  simp only [nil_append] at h3
  exact ⟨h1, h2, h3⟩

end PV.C02
