/-
C02 property theorems: bitmap reads stay consistent with every mutation applied.

Full-strength statement (proved below, no `_partial`): for BOTH container collections, for EVERY
aliasing policy (which kernels return a new object), for every history of Add / Remove / AddN /
RemoveN (and their Direct variants) / ImportRoaringBits set and clear / Optimize /
Containers.Remove / UnmarshalBinary(WriteTo) / Contains / Count / Slice / Iterator / per-container
views starting from the empty bitmap:
  * the lookaside stays coherent with the stored containers (`Good`, which contains
    `BT.Coherent` / `SC.Coherent`),
  * the value list read through the iterator equals the set obtained by applying the mutations in
    order, and every read and every return value equals the one computed from that set,
  * every mutation reports exactly how many bits it changed, and AddN / RemoveN leave exactly the
    changed values in `a[:changed]`.
The theorems are about the code as fixed on branch verif/a02; the witness theorems at the end show
that the original lookaside handling violates them.
-/
import PV.C02.LemmasReload
import PV.C02.LemmasBT
import PV.C02.LemmasSC
import PV.C02.LemmasSpecCount
import PV.C02.LemmasProps
namespace PV.C02
open List

variable {σ : Type}

/-- **Refinement of one step.** Under the invariant, a step of the model of the code does to the
value list exactly what the set specification says, returns exactly what it says, and
re-establishes the invariant. -/
theorem C02_step_refines (C : Coll σ) (ok : CollOK C) (p : Policy) (b : BM σ) (op : Op)
    (hg : Good C ok b) (hop : OpOK op) :
    Good C ok (step C p b op).1 ∧
    slice C (step C p b op).1 = (Spec.step (slice C b) op).1 ∧
    (step C p b op).2 = (Spec.step (slice C b) op).2 := by
  cases op with
  | add vs =>
    obtain ⟨h1, h2, h3⟩ := bmAdd_fold ok p vs b false hg hop
    refine ⟨h1, h2, ?_⟩
    show Out.changed _ = Out.changed _
    rw [show (bmAdd C p b vs).2 = _ from h3]; simp
  | remove vs =>
    obtain ⟨h1, h2, h3⟩ := bmRemove_fold ok p vs b false hg hop
    refine ⟨h1, h2, ?_⟩
    show Out.changed _ = Out.changed _
    rw [show (bmRemoveAll C p b vs).2 = _ from h3]; simp
  | addN vs =>
    obtain ⟨h1, h2, h3⟩ := directAddN_spec ok p b vs hg hop
    refine ⟨h1, h2, ?_⟩
    show Out.changedN _ _ = Out.changedN _ _
    rw [h3]
  | removeN vs =>
    obtain ⟨h1, h2, h3⟩ := directRemoveN_spec ok p b vs hg hop
    refine ⟨h1, h2, ?_⟩
    show Out.changedN _ _ = Out.changedN _ _
    rw [h3]
  | importSet gs =>
    obtain ⟨h1, h2, h3⟩ := importSet_fold ok p gs b.c b.h 0 hg hop
    refine ⟨h1, h2, ?_⟩
    show Out.imported _ = Out.imported _
    congr 1
    rw [show (importBits C p false b gs).2 = _ from h3]; simp
  | importClear gs =>
    obtain ⟨h1, h2, h3⟩ := importClear_fold ok p gs b.c b.h 0 hg hop
    refine ⟨h1, h2, ?_⟩
    show Out.imported _ = Out.imported _
    congr 1
    rw [show (importBits C p true b gs).2 = _ from h3]; simp
  | optimize =>
    obtain ⟨h1, h2⟩ := optimize_spec ok p b hg
    exact ⟨h1, h2, rfl⟩
  | ctrRemove k =>
    obtain ⟨h1, h2⟩ := ctrRemove_spec ok b k hg
    exact ⟨h1, h2, rfl⟩
  | reload =>
    obtain ⟨h1, h2⟩ := reload_spec ok p b hg
    exact ⟨h1, h2, rfl⟩
  | contains v =>
    obtain ⟨h1, h2, h3⟩ := contains_spec hg v
    refine ⟨h1, ?_, ?_⟩
    · apply slice_unique h1 (asc_slice hg)
      intro w; rw [mem_slice hg, h2]
    · show Out.bool _ = Out.bool _
      rw [h3]
  | count =>
    refine ⟨hg, rfl, ?_⟩
    show Out.nat _ = Out.nat _
    rw [count_spec hg]
  | slice => exact ⟨hg, rfl, rfl⟩
  | iterFrom k =>
    refine ⟨hg, rfl, ?_⟩
    show Out.list _ = Out.list _
    rw [iterFrom_spec ok b k hg]
  | views =>
    refine ⟨hg, rfl, ?_⟩
    show Out.views _ = Out.views _
    rw [views_spec ok b hg]

/-- **The Coherent invariant is preserved by every step** (with heap well-formedness). -/
theorem C02_coherent_step (C : Coll σ) (ok : CollOK C) (p : Policy) (b : BM σ) (op : Op)
    (hg : Good C ok b) (hop : OpOK op) : Good C ok (step C p b op).1 :=
  (C02_step_refines C ok p b op hg hop).1

/-- B-tree collection: after every step the lookaside holds exactly what the tree stores under
the cached key. -/
theorem C02_coherent_step_btree (p : Policy) (b : BM BT) (op : Op)
    (hg : Good btColl btOK b) (hop : OpOK op) : BT.Coherent (step btColl p b op).1.c :=
  (C02_coherent_step btColl btOK p b op hg hop).inv.2.2

/-- Slice collection: after every step a cached pointer is the stored one. -/
theorem C02_coherent_step_slice (p : Policy) (b : BM SC) (op : Op)
    (hg : Good scColl scOK b) (hop : OpOK op) : SC.Coherent (step scColl p b op).1.c :=
  (C02_coherent_step scColl scOK p b op hg hop).inv.2.1

/-- Histories with an output accumulator (the induction behind `C02_history_from`). -/
theorem C02_history_acc (C : Coll σ) (ok : CollOK C) (p : Policy) (ops : List Op) :
    ∀ (b : BM σ) (outs : List Out), Good C ok b → (∀ op ∈ ops, OpOK op) →
    Good C ok (ops.foldl (fun acc op => ((step C p acc.1 op).1, acc.2 ++ [(step C p acc.1 op).2])) (b, outs)).1 ∧
    slice C (ops.foldl (fun acc op => ((step C p acc.1 op).1, acc.2 ++ [(step C p acc.1 op).2])) (b, outs)).1
      = (ops.foldl (fun acc op => ((Spec.step acc.1 op).1, acc.2 ++ [(Spec.step acc.1 op).2])) (slice C b, outs)).1 ∧
    (ops.foldl (fun acc op => ((step C p acc.1 op).1, acc.2 ++ [(step C p acc.1 op).2])) (b, outs)).2
      = (ops.foldl (fun acc op => ((Spec.step acc.1 op).1, acc.2 ++ [(Spec.step acc.1 op).2])) (slice C b, outs)).2 := by
  induction ops with
  | nil => intro b outs hg _; exact ⟨hg, rfl, rfl⟩
  | cons op t ih =>
    intro b outs hg hops
    obtain ⟨s1, s2, s3⟩ := C02_step_refines C ok p b op hg (hops op (by simp))
    obtain ⟨i1, i2, i3⟩ := ih (step C p b op).1 (outs ++ [(step C p b op).2]) s1
      (fun o ho => hops o (by simp [ho]))
    simp only [foldl_cons]
    rw [← s2, ← s3]
    exact ⟨i1, i2, i3⟩

/-- **Every history.** From any good state, any list of well-formed operations keeps the
invariant, ends in the set the specification computes and produces the same outputs. -/
theorem C02_history_from (C : Coll σ) (ok : CollOK C) (p : Policy) (b : BM σ) (ops : List Op)
    (hg : Good C ok b) (hops : ∀ op ∈ ops, OpOK op) :
    Good C ok (run C p b ops).1 ∧
    slice C (run C p b ops).1 = (Spec.run (slice C b) ops).1 ∧
    (run C p b ops).2 = (Spec.run (slice C b) ops).2 :=
  C02_history_acc C ok p ops b [] hg hops

/-- **Every history from the empty bitmap**, any collection satisfying the laws. -/
theorem C02_history (C : Coll σ) (ok : CollOK C) (p : Policy) (ops : List Op)
    (hops : ∀ op ∈ ops, OpOK op) :
    Good C ok (run C p (BM.init C) ops).1 ∧
    slice C (run C p (BM.init C) ops).1 = (Spec.run [] ops).1 ∧
    (run C p (BM.init C) ops).2 = (Spec.run [] ops).2 := by
  have := C02_history_from C ok p (BM.init C) ops (good_init C ok) hops
  rw [slice_init C ok] at this
  exact this

/-- The property for `NewBTreeBitmap` / file-backed bitmaps. -/
theorem C02_history_btree (p : Policy) (ops : List Op) (hops : ∀ op ∈ ops, OpOK op) :
    slice btColl (run btColl p (BM.init btColl) ops).1 = (Spec.run [] ops).1 ∧
    (run btColl p (BM.init btColl) ops).2 = (Spec.run [] ops).2 :=
  (C02_history btColl btOK p ops hops).2

/-- The property for `NewBitmap` (slice collection). -/
theorem C02_history_slice (p : Policy) (ops : List Op) (hops : ∀ op ∈ ops, OpOK op) :
    slice scColl (run scColl p (BM.init scColl) ops).1 = (Spec.run [] ops).1 ∧
    (run scColl p (BM.init scColl) ops).2 = (Spec.run [] ops).2 :=
  (C02_history scColl scOK p ops hops).2

/-! ### Change counts -/

/-- `|new Δ old|` for two sets one of which contains the other. -/
def delta (s s' : List Nat) : Nat := (s'.length - s.length) + (s.length - s'.length)

/-- **Each mutation reports exactly how many bits it changed.**  For a set `s` (ascending list):
`Add`/`Remove` report whether the set changed; `AddN`/`RemoveN`/imports report `|new Δ old|`, and
`AddN`/`RemoveN` leave exactly the changed values, without repetition, in `a[:changed]` and the
rest of `a` untouched. -/
theorem C02_changed_counts_spec (s : Spec.S) (hs : Asc s) :
    (∀ vs, (Spec.step s (.add vs)).2 = .changed (decide (delta s (Spec.step s (.add vs)).1 ≠ 0))) ∧
    (∀ vs, (Spec.step s (.remove vs)).2 = .changed (decide (delta s (Spec.step s (.remove vs)).1 ≠ 0))) ∧
    (∀ vs, ∃ a, (Spec.step s (.addN vs)).2 = .changedN (delta s (Spec.step s (.addN vs)).1) a ∧
        (a.take (delta s (Spec.step s (.addN vs)).1)).Nodup ∧
        (∀ v, v ∈ a.take (delta s (Spec.step s (.addN vs)).1) ↔ v ∈ vs ∧ v ∉ s) ∧
        a.drop (delta s (Spec.step s (.addN vs)).1) = vs.drop (delta s (Spec.step s (.addN vs)).1)) ∧
    (∀ vs, ∃ a, (Spec.step s (.removeN vs)).2 = .changedN (delta s (Spec.step s (.removeN vs)).1) a ∧
        (a.take (delta s (Spec.step s (.removeN vs)).1)).Nodup ∧
        (∀ v, v ∈ a.take (delta s (Spec.step s (.removeN vs)).1) ↔ v ∈ vs ∧ v ∈ s) ∧
        a.drop (delta s (Spec.step s (.removeN vs)).1) = vs.drop (delta s (Spec.step s (.removeN vs)).1)) ∧
    (∀ gs, GroupsOK gs →
        (Spec.step s (.importSet gs)).2 = .imported (delta s (Spec.step s (.importSet gs)).1)) ∧
    (∀ gs, GroupsOK gs →
        (Spec.step s (.importClear gs)).2 = .imported (delta s (Spec.step s (.importClear gs)).1)) := by
  refine ⟨?_, ?_, ?_, ?_, ?_, ?_⟩
  · intro vs
    obtain ⟨_, n2, n3⟩ := Spec.newly_spec s hs vs
    show Out.changed _ = Out.changed _
    congr 1
    show (vs.any fun v => !s.contains v) = decide (delta s (Spec.addAll s vs) ≠ 0)
    unfold delta; rw [n3]
    rw [Bool.eq_iff_iff, any_eq_true, decide_eq_true_eq]
    constructor
    · rintro ⟨v, hv, hc⟩
      have : v ∈ Spec.newly s vs := (n2 v).mpr ⟨hv, by simpa using hc⟩
      have : 0 < (Spec.newly s vs).length := length_pos_of_mem this
      omega
    · intro h
      have hpos : 0 < (Spec.newly s vs).length := by omega
      obtain ⟨v, hv⟩ := exists_mem_of_length_pos hpos
      obtain ⟨h1, h2⟩ := (n2 v).mp hv
      exact ⟨v, h1, by simpa using h2⟩
  · intro vs
    obtain ⟨_, n2, n3⟩ := Spec.gone_spec s hs vs
    show Out.changed _ = Out.changed _
    congr 1
    show (vs.any fun v => s.contains v) = decide (delta s (Spec.removeAll s vs) ≠ 0)
    unfold delta
    rw [Bool.eq_iff_iff, any_eq_true, decide_eq_true_eq]
    constructor
    · rintro ⟨v, hv, hc⟩
      have : v ∈ Spec.gone s vs := (n2 v).mpr ⟨hv, by simpa using hc⟩
      have : 0 < (Spec.gone s vs).length := length_pos_of_mem this
      omega
    · intro h
      have hpos : 0 < (Spec.gone s vs).length := by omega
      obtain ⟨v, hv⟩ := exists_mem_of_length_pos hpos
      obtain ⟨h1, h2⟩ := (n2 v).mp hv
      exact ⟨v, h1, by simpa using h2⟩
  · intro vs
    obtain ⟨n1, n2, n3⟩ := Spec.newly_spec s hs vs
    have hd : delta s (Spec.addAll s vs) = (Spec.newly s vs).length := by unfold delta; rw [n3]; omega
    refine ⟨Spec.newly s vs ++ vs.drop (Spec.newly s vs).length, ?_, ?_, ?_, ?_⟩
    · show Out.changedN _ _ = Out.changedN _ _
      rw [show (Spec.step s (.addN vs)).1 = Spec.addAll s vs from rfl, hd]
    · rw [show (Spec.step s (.addN vs)).1 = Spec.addAll s vs from rfl, hd, take_left']; exact n1; rfl
    · intro v
      rw [show (Spec.step s (.addN vs)).1 = Spec.addAll s vs from rfl, hd, take_left' rfl]; exact n2 v
    · rw [show (Spec.step s (.addN vs)).1 = Spec.addAll s vs from rfl, hd, drop_left' rfl]
  · intro vs
    obtain ⟨n1, n2, n3⟩ := Spec.gone_spec s hs vs
    have hd : delta s (Spec.removeAll s vs) = (Spec.gone s vs).length := by unfold delta; omega
    refine ⟨Spec.gone s vs ++ vs.drop (Spec.gone s vs).length, ?_, ?_, ?_, ?_⟩
    · show Out.changedN _ _ = Out.changedN _ _
      rw [show (Spec.step s (.removeN vs)).1 = Spec.removeAll s vs from rfl, hd]
    · rw [show (Spec.step s (.removeN vs)).1 = Spec.removeAll s vs from rfl, hd, take_left' rfl]; exact n1
    · intro v
      rw [show (Spec.step s (.removeN vs)).1 = Spec.removeAll s vs from rfl, hd, take_left' rfl]; exact n2 v
    · rw [show (Spec.step s (.removeN vs)).1 = Spec.removeAll s vs from rfl, hd, drop_left' rfl]
  · intro gs hgs
    obtain ⟨_, _, n3⟩ := Spec.newly_spec s hs (Spec.groupValues gs)
    rw [Spec.newly_nodup s hs _ (groupValues_nodup hgs)] at n3
    show Out.imported _ = Out.imported _
    congr 1
    show _ = delta s (Spec.addAll s (Spec.groupValues gs))
    unfold delta; rw [n3]; omega
  · intro gs hgs
    obtain ⟨_, _, n3⟩ := Spec.gone_spec s hs (Spec.groupValues gs)
    rw [Spec.gone_nodup s _ (groupValues_nodup hgs)] at n3
    show Out.imported _ = Out.imported _
    congr 1
    show _ = delta s (Spec.removeAll s (Spec.groupValues gs))
    unfold delta; omega

/-- The same for the model of the code: whatever a mutation of the real data structure returns is
the change count of the set it represents. -/
theorem C02_changed_counts (C : Coll σ) (ok : CollOK C) (p : Policy) (b : BM σ) (op : Op)
    (hg : Good C ok b) (hop : OpOK op) :
    (step C p b op).2 = (Spec.step (slice C b) op).2 ∧
    slice C (step C p b op).1 = (Spec.step (slice C b) op).1 ∧
    (∀ n a, (step C p b op).2 = .changedN n a → n = delta (slice C b) (slice C (step C p b op).1)) ∧
    (∀ n, (step C p b op).2 = .imported n → n = delta (slice C b) (slice C (step C p b op).1)) ∧
    (∀ c, (step C p b op).2 = .changed c →
        c = decide (delta (slice C b) (slice C (step C p b op).1) ≠ 0)) := by
  obtain ⟨_, h2, h3⟩ := C02_step_refines C ok p b op hg hop
  obtain ⟨c1, c2, c3, c4, c5, c6⟩ := C02_changed_counts_spec (slice C b) (asc_slice hg)
  refine ⟨h3, h2, ?_, ?_, ?_⟩
  · intro n a hna
    rw [h3] at hna; rw [h2]
    cases op with
    | addN vs => obtain ⟨a', e, _⟩ := c3 vs; rw [e] at hna; cases hna; rfl
    | removeN vs => obtain ⟨a', e, _⟩ := c4 vs; rw [e] at hna; cases hna; rfl
    | _ => cases hna
  · intro n hn
    rw [h3] at hn; rw [h2]
    cases op with
    | importSet gs => rw [c5 gs hop] at hn; cases hn; rfl
    | importClear gs => rw [c6 gs hop] at hn; cases hn; rfl
    | _ => cases hn
  · intro c hc
    rw [h3] at hc; rw [h2]
    cases op with
    | add vs => rw [c1 vs] at hc; cases hc; rfl
    | remove vs => rw [c2 vs] at hc; cases hc; rfl
    | _ => cases hc

/-! ### Non-vacuity: the hypotheses are satisfied by non-trivial states -/

def polInPlace : Policy :=
  ⟨fun _ _ => false, fun _ _ => false, fun _ _ => false, fun _ => false, fun _ => false, fun _ _ => false⟩
def polFresh : Policy :=
  ⟨fun _ _ => true, fun _ _ => true, fun _ _ => true, fun _ => true, fun _ => true, fun _ _ => true⟩

/-- A history touching three containers, with a replacing import and a removal to nil. -/
def demoOps : List Op :=
  [.importSet [(0, [7, 9]), (2, [0, 65535])], .contains 7, .add [8, 65536 + 3], .removeN [7, 7, 99],
   .importClear [(0, [8, 9])], .optimize, .addN [9, 9, 131072], .reload, .contains 9]

example : ∀ op ∈ demoOps, OpOK op := by
  intro op hop
  simp only [demoOps, mem_cons, mem_nil_iff, or_false] at hop
  rcases hop with rfl | rfl | rfl | rfl | rfl | rfl | rfl | rfl | rfl <;>
    simp [OpOK, GroupsOK, KeysAsc, Asc, CellOK, INVALID, W]

example : (run btColl polFresh (BM.init btColl) demoOps).2 = (Spec.run [] demoOps).2 := by decide
example : slice scColl (run scColl polInPlace (BM.init scColl) demoOps).1 = [9, 65539, 131072, 196607] := by
  decide

/-! ### The code before the fixes violates the property (witnesses kept for the record)

`btCollOrig` / `scCollOrig` are the collections as they were: zero-valued B-tree lookaside that
`Update` / `UpdateEvery` do not touch; slice `Put` / `Update` that do not refresh the cache. -/

/-- DESIGN §8 #2: fresh `NewBTreeBitmap()`, `ImportRoaringBits({7,9})`, `Contains(7)`, `Add(8)`,
`Slice()`: the original code answers `false` and then `[8]` — the specification says `true` and
`[7, 8, 9]`. -/
theorem C02_orig_btree_fresh_import_witness :
    (run btCollOrig polInPlace (BM.init btCollOrig)
        [.importSet [(0, [7, 9])], .contains 7, .add [8], .slice]).2
      = [.imported 2, .bool false, .changed true, .list [8]] ∧
    (Spec.run [] [.importSet [(0, [7, 9])], .contains 7, .add [8], .slice]).2
      = [.imported 2, .bool true, .changed true, .list [7, 8, 9]] := by decide

instance (s : BT) : Decidable (BT.Coherent s) := by unfold BT.Coherent; exact inferInstance

/-- The lookaside of the original B-tree collection is incoherent right after that import. -/
theorem C02_orig_btree_incoherent_witness :
    ¬ BT.Coherent (run btCollOrig polInPlace (BM.init btCollOrig) [.importSet [(0, [7, 9])]]).1.c := by
  decide

/-- A replacing update (clear-import) after a lookup: the original code keeps reading and writing
the detached container (`Contains(65543)` stays true, `Add(65544)` is lost). -/
theorem C02_orig_btree_clear_import_witness :
    (run btCollOrig polInPlace (BM.init btCollOrig)
        [.add [65543, 65545], .contains 65543, .importClear [(1, [7])], .contains 65543, .add [65544], .slice]).2
      = [.changed true, .bool true, .imported 1, .bool true, .changed true, .list [65545]] ∧
    (Spec.run []
        [.add [65543, 65545], .contains 65543, .importClear [(1, [7])], .contains 65543, .add [65544], .slice]).2
      = [.changed true, .bool true, .imported 1, .bool false, .changed true, .list [65544, 65545]] := by
  decide

/-- Slice collection, original `Put`: `Add(5)`, `Remove(5)` (stores nil), `Add(6)` goes into the
detached old container: the bitmap stays empty. -/
theorem C02_orig_slice_put_witness :
    (run scCollOrig polInPlace (BM.init scCollOrig) [.add [5], .remove [5], .add [6], .slice]).2
      = [.changed true, .changed true, .changed true, .list []] ∧
    (Spec.run [] [.add [5], .remove [5], .add [6], .slice]).2
      = [.changed true, .changed true, .changed true, .list [6]] := by decide

end PV.C02
