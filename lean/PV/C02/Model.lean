/-
C02 model: the two container collections of roaring (`containers_btree.go`, `containers_slice.go`)
with their last-container lookaside exactly as coded (after the `fix:` commits on branch verif/a02),
and the mutation / read paths of `roaring.Bitmap` that go through them (`roaring.go`).

Containers are modelled abstractly (another property, C01, models the encodings): a container is
a strictly ascending list of `uint16` values, held in a heap cell.  Pointers are heap ids, so
aliasing and replacement are visible: a kernel either updates the cell in place or allocates a
new cell and returns the new pointer.  Which of the two happens depends on the encoding, on the
frozen / mapped flags and on thresholds in the Go code; the model leaves that choice to an
arbitrary `Policy` and every theorem holds for every policy.  Only "removing the last value returns
nil" and "`add` on nil allocates" are fixed by the contents, as in the code.

  tree (btree.go)                 ascending association list key → id (never stores nil)
  tree.Put / enumerator.Every     `BT.update` / `btEvery` (deleting while enumerating skips the next entry)
  bTreeContainers                 `BT` : tree + (lastKey, lastContainer)
  sliceContainers                 `SC` : ascending list key → pointer-or-nil + (lastKey, lastContainer)
  Bitmap.Add/Remove/AddN/RemoveN/DirectAddN/DirectRemoveN/DirectAdd/remove/directOpN
  Bitmap.ImportRoaringBits (set / clear importUpdater), Bitmap.Optimize, Containers.Remove
  Bitmap.Contains / Count / Slice (Iterator) / Containers.Iterator views / Iterator.Seek+Next
  UnmarshalBinary(WriteTo(b)) on the same bitmap ("file-backed" state: Reset + PutContainerValues)

uint64 values are `Nat` (< 2^64 is a hypothesis of the theorems); core Lean only.
-/
namespace PV.C02

/-- Contents of one container: strictly ascending values `< 65536`. -/
abbrev Cell := List Nat
abbrev Heap := List Cell
/-- A `*Container`: nil or a heap id (ids are plain `Nat` indices into the heap). -/
abbrev Ptr := Option Nat

/-- Container width. -/
def W : Nat := 65536
/-- `^uint64(0)`, the "definitely-invalid key". -/
def INVALID : Nat := 18446744073709551615

def hget (h : Heap) (i : Nat) : Cell := h.getD i []
def hset (h : Heap) (i : Nat) (c : Cell) : Heap := h.set i c

/-! ### Container kernels on abstract contents -/

def insertAsc (x : Nat) : Cell → Cell
  | [] => [x]
  | y :: ys => if x < y then x :: y :: ys else if x = y then y :: ys else y :: insertAsc x ys

def eraseAsc (x : Nat) (a : Cell) : Cell := a.filter (fun y => y != x)
/-- Union of two ascending lists by merging (`n` = fuel, at least the sum of the lengths). -/
def unionAux : Nat → Cell → Cell → Cell
  | 0, a, _ => a
  | _ + 1, [], b => b
  | _ + 1, a, [] => a
  | n + 1, x :: xs, y :: ys =>
    if x < y then x :: unionAux n xs (y :: ys)
    else if y < x then y :: unionAux n (x :: xs) ys
    else x :: unionAux n xs ys

def unionAsc (a b : Cell) : Cell := unionAux (a.length + b.length) a b

/-- Difference of two ascending lists by merging. -/
def diffAux : Nat → Cell → Cell → Cell
  | 0, a, _ => a
  | _ + 1, [], _ => []
  | _ + 1, a, [] => a
  | n + 1, x :: xs, y :: ys =>
    if x < y then x :: diffAux n xs (y :: ys)
    else if y < x then diffAux n (x :: xs) ys
    else diffAux n xs ys

def diffAsc (a b : Cell) : Cell := diffAux (a.length + b.length) a b

/-- Which kernels hand back a different object than the one they were given. -/
structure Policy where
  addFresh : Cell → Nat → Bool
  removeFresh : Cell → Nat → Bool
  unionFresh : Cell → Cell → Bool
  optFresh : Cell → Bool
  thawFresh : Cell → Bool
  /-- `difference` with an empty result: nil (the run kernels end in `optimize()`) or an empty
  container (the array / bitmap kernels) -/
  diffNil : Cell → Cell → Bool

/-- `(*Container).N()` (nil-safe). -/
def cN (h : Heap) : Ptr → Nat
  | none => 0
  | some i => (hget h i).length

/-- `(*Container).add`: nil receiver allocates an array container. -/
def cAdd (p : Policy) (h : Heap) (c : Ptr) (v : Nat) : Heap × Ptr × Bool :=
  match c with
  | none => (h ++ [[v]], some h.length, true)
  | some i =>
    if (hget h i).contains v then (h, some i, false)
    else if p.addFresh (hget h i) v then (h ++ [insertAsc v (hget h i)], some h.length, true)
    else (hset h i (insertAsc v (hget h i)), some i, true)

/-- `(*Container).remove`: removing the last value returns nil and leaves the object alone. -/
def cRemove (p : Policy) (h : Heap) (c : Ptr) (v : Nat) : Heap × Ptr × Bool :=
  match c with
  | none => (h, none, false)
  | some i =>
    if !(hget h i).contains v then (h, some i, false)
    else if (hget h i).length = 1 then (h, none, true)
    else if p.removeFresh (hget h i) v then (h ++ [eraseAsc v (hget h i)], some h.length, true)
    else (hset h i (eraseAsc v (hget h i)), some i, true)

/-- `(*Container).optimize`: nil for an empty container, else the same or a converted object. -/
def cOptimize (p : Policy) (h : Heap) (c : Ptr) : Heap × Ptr :=
  match c with
  | none => (h, none)
  | some i =>
    if (hget h i).length = 0 then (h, none)
    else if p.optFresh (hget h i) then (h ++ [hget h i], some h.length)
    else (h, some i)

/-! ### The collection interface (`Containers` in roaring.go), as far as Bitmap uses it -/

structure Coll (σ : Type) where
  init : σ
  /-- Stored entries in key order (slice: entries whose pointer is nil included). -/
  ents : σ → List (Nat × Ptr)
  lastKey : σ → Nat
  last : σ → Ptr
  get : σ → Nat → σ × Ptr
  put : σ → Nat → Ptr → σ
  remove : σ → Nat → σ
  getOrCreate : σ → Heap → Nat → σ × Heap × Ptr
  update : {α : Type} → σ → Nat → (Ptr → Bool → α × Ptr × Bool) → σ × α
  updateEvery : {α : Type} → σ → α → (α → Nat → Ptr → α × Ptr × Bool) → σ × α
  reset : σ → σ
  size : σ → Nat

/-! ### B-tree collection -/

/-- Insert or replace in an association list kept in ascending key order. -/
def aSet {β : Type} (es : List (Nat × β)) (k : Nat) (v : β) : List (Nat × β) :=
  match es with
  | [] => [(k, v)]
  | (k', v') :: r =>
    if k < k' then (k, v) :: (k', v') :: r
    else if k = k' then (k, v) :: r
    else (k', v') :: aSet r k v

abbrev Tree := List (Nat × Nat)

def tGet (t : Tree) (k : Nat) : Option Nat := t.lookup k

def tSet (t : Tree) (k : Nat) (i : Nat) : Tree := aSet t k i

def tDel (t : Tree) (k : Nat) : Tree := t.filter (fun e => e.1 != k)

/-- `tree.Set`: a nil value deletes. -/
def tSetP (t : Tree) (k : Nat) : Ptr → Tree
  | none => tDel t k
  | some i => tSet t k i

structure BT where
  tree : Tree
  lastKey : Nat
  last : Ptr
deriving Repr

/-- `newBTreeContainers` (fixed: the lookaside starts at the invalid key). -/
def BT.init : BT := ⟨[], INVALID, none⟩

def BT.get (s : BT) (k : Nat) : BT × Ptr :=
  if k = s.lastKey then (s, s.last)
  else match tGet s.tree k with
    | some i => ({ s with lastKey := k, last := some i }, some i)
    | none => (s, none)

/-- `Put` (containers handed to Put are never mapped on the paths modelled here). -/
def BT.put (s : BT) (k : Nat) (c : Ptr) : BT :=
  { tree := tSetP s.tree k c, lastKey := k, last := c }

def BT.invalidateLast (s : BT) (k : Nat) : BT :=
  if k = s.lastKey then { s with lastKey := INVALID, last := none } else s

def BT.remove (s : BT) (k : Nat) : BT :=
  BT.invalidateLast { s with tree := tDel s.tree k } k

def BT.getOrCreate (s : BT) (h : Heap) (k : Nat) : BT × Heap × Ptr :=
  if k = s.lastKey then (s, h, s.last)
  else match tGet s.tree k with
    | none => ({ tree := tSet s.tree k h.length, lastKey := k, last := some h.length },
               h ++ [[]], some h.length)
    | some i => ({ s with lastKey := k, last := some i }, h, some i)

/-- `tree.Put(k, upd)`. -/
def treePut {α : Type} (t : Tree) (k : Nat) (fn : Ptr → Bool → α × Ptr × Bool) : Tree × α :=
  match tGet t k with
  | some i =>
    let r := fn (some i) true
    if r.2.2 then (tSetP t k r.2.1, r.1) else (t, r.1)
  | none =>
    let r := fn none false
    if r.2.2 then
      (match r.2.1 with
       | none => (t, r.1)
       | some j => (tSet t k j, r.1))
    else (t, r.1)

/-- `Update` (fixed: the lookaside entry for `k` is dropped afterwards). -/
def BT.update {α : Type} (s : BT) (k : Nat) (fn : Ptr → Bool → α × Ptr × Bool) : BT × α :=
  let r := treePut s.tree k fn
  (BT.invalidateLast { s with tree := r.1 } k, r.2)

/-- `enumerator.Every`: a delete moves the following entry into the current slot and the
enumerator then steps over it (exact while the tree is a single leaf, < 508 containers). -/
def btEvery {α : Type} (fn : α → Nat → Ptr → α × Ptr × Bool) : α → Tree → Bool → Tree × α
  | a, [], _ => ([], a)
  | a, e :: r, true =>
    let q := btEvery fn a r false
    (e :: q.1, q.2)
  | a, (k, i) :: r, false =>
    let res := fn a k (some i)
    if res.2.2 then
      match res.2.1 with
      | none => btEvery fn res.1 r true
      | some j =>
        let q := btEvery fn res.1 r false
        ((k, j) :: q.1, q.2)
    else
      let q := btEvery fn res.1 r false
      ((k, i) :: q.1, q.2)

/-- `UpdateEvery` (fixed: the lookaside is dropped afterwards). -/
def BT.updateEvery {α : Type} (s : BT) (a : α) (fn : α → Nat → Ptr → α × Ptr × Bool) : BT × α :=
  let r := btEvery fn a s.tree false
  ({ tree := r.1, lastKey := INVALID, last := none }, r.2)

def BT.reset (_ : BT) : BT := ⟨[], INVALID, none⟩

def btColl : Coll BT where
  init := BT.init
  ents := fun s => s.tree.map (fun e => (e.1, some e.2))
  lastKey := BT.lastKey
  last := BT.last
  get := BT.get
  put := BT.put
  remove := BT.remove
  getOrCreate := BT.getOrCreate
  update := BT.update
  updateEvery := BT.updateEvery
  reset := BT.reset
  size := fun s => s.tree.length

/-! ### Slice collection -/

abbrev Ents := List (Nat × Ptr)

def eSet (es : Ents) (k : Nat) (c : Ptr) : Ents := aSet es k c

structure SC where
  ents : Ents
  lastKey : Nat
  last : Ptr
deriving Repr

def SC.init : SC := ⟨[], 0, none⟩

/-- `Get`: binary search, no cache. -/
def SC.get (s : SC) (k : Nat) : SC × Ptr := (s, (s.ents.lookup k).join)

/-- `refreshLast` (added by the fix). -/
def SC.refreshLast (s : SC) (k : Nat) (c : Ptr) : SC :=
  if k = s.lastKey then { s with last := c } else s

/-- `Put` (fixed: sets the cache to the container it stores, as `bTreeContainers.Put` does). -/
def SC.put (s : SC) (k : Nat) (c : Ptr) : SC :=
  { ents := eSet s.ents k c, lastKey := k, last := c }

def SC.remove (s : SC) (k : Nat) : SC :=
  match s.ents.lookup k with
  | none => s
  | some _ =>
    { ents := s.ents.filter (fun e => e.1 != k),
      lastKey := if k = s.lastKey then INVALID else s.lastKey,
      last := if k = s.lastKey then none else s.last }

def SC.getOrCreate (s : SC) (h : Heap) (k : Nat) : SC × Heap × Ptr :=
  if k = s.lastKey ∧ s.last.isSome then (s, h, s.last)
  else match s.ents.lookup k with
    | none => ({ ents := eSet s.ents k (some h.length), lastKey := k, last := some h.length },
               h ++ [[]], some h.length)
    | some c => ({ s with lastKey := k, last := c }, h, c)

def SC.update {α : Type} (s : SC) (k : Nat) (fn : Ptr → Bool → α × Ptr × Bool) : SC × α :=
  match s.ents.lookup k with
  | some c =>
    let r := fn c true
    if r.2.2 then (SC.refreshLast { s with ents := eSet s.ents k r.2.1 } k r.2.1, r.1) else (s, r.1)
  | none =>
    let r := fn none false
    if r.2.2 ∧ r.2.1.isSome then ({ s with ents := eSet s.ents k r.2.1 }, r.1) else (s, r.1)

/-- The loop of `UpdateEvery`; `lk`/`lc` = lastKey / lastContainer. -/
def scEvery {α : Type} (fn : α → Nat → Ptr → α × Ptr × Bool) (lk : Nat) :
    α → Ptr → Ents → Ents × Ptr × α
  | a, lc, [] => ([], lc, a)
  | a, lc, (k, c) :: r =>
    let res := fn a k c
    if res.2.2 then
      let q := scEvery fn lk res.1 (if k = lk then res.2.1 else lc) r
      ((k, res.2.1) :: q.1, q.2)
    else
      let q := scEvery fn lk res.1 lc r
      ((k, c) :: q.1, q.2)

def SC.updateEvery {α : Type} (s : SC) (a : α) (fn : α → Nat → Ptr → α × Ptr × Bool) : SC × α :=
  let r := scEvery fn s.lastKey a s.last s.ents
  ({ ents := r.1, lastKey := s.lastKey, last := r.2.1 }, r.2.2)

def SC.reset (_ : SC) : SC := ⟨[], 0, none⟩

def scColl : Coll SC where
  init := SC.init
  ents := SC.ents
  lastKey := SC.lastKey
  last := SC.last
  get := SC.get
  put := SC.put
  remove := SC.remove
  getOrCreate := SC.getOrCreate
  update := SC.update
  updateEvery := SC.updateEvery
  reset := SC.reset
  size := fun s => s.ents.length

/-! ### Bitmap -/

structure BM (σ : Type) where
  c : σ
  h : Heap

section bitmap
variable {σ : Type} (C : Coll σ) (p : Policy)

def BM.init : BM σ := ⟨C.init, []⟩

/-- `DirectAdd`. -/
def directAdd (b : BM σ) (v : Nat) : BM σ × Bool :=
  let g := C.getOrCreate b.c b.h (v / W)
  let r := cAdd p g.2.1 g.2.2 (v % W)
  (⟨if r.2.1 != g.2.2 then C.put g.1 (v / W) r.2.1 else g.1, r.1⟩, r.2.2)

/-- `Bitmap.remove` (what `op.apply` runs for a remove op). -/
def bmRemove (b : BM σ) (v : Nat) : BM σ × Bool :=
  let g := C.get b.c (v / W)
  let r := cRemove p b.h g.2 (v % W)
  (⟨if r.2.1 != g.2 then C.put g.1 (v / W) r.2.1 else g.1, r.1⟩, r.2.2)

/-- `Add(a...)`: one op per value (log first — see C05 — then apply). -/
def bmAdd (b : BM σ) (vs : List Nat) : BM σ × Bool :=
  vs.foldl (fun acc v => let r := directAdd C p acc.1 v; (r.1, acc.2 || r.2)) (b, false)

/-- `Remove(a...)`. -/
def bmRemoveAll (b : BM σ) (vs : List Nat) : BM σ × Bool :=
  vs.foldl (fun acc v => let r := bmRemove C p acc.1 v; (r.1, acc.2 || r.2)) (b, false)

/-- Loop state of `directOpN`: bitmap, `hb`, `cont`, the changed values written to `a[:changed]`. -/
structure OpNState (σ : Type) where
  b : BM σ
  hb : Nat
  cont : Ptr
  pre : List Nat

def directOpNStep (op : Policy → Heap → Ptr → Nat → Heap × Ptr × Bool) (st : OpNState σ) (v : Nat) :
    OpNState σ :=
  let g : σ × Heap × Ptr :=
    if v / W != st.hb then C.getOrCreate st.b.c st.b.h (v / W) else (st.b.c, st.b.h, st.cont)
  let r := op p g.2.1 g.2.2 (v % W)
  { b := ⟨if r.2.1 != g.2.2 then C.put g.1 (v / W) r.2.1 else g.1, r.1⟩,
    hb := v / W,
    cont := r.2.1,
    pre := if r.2.2 then st.pre ++ [v] else st.pre }

/-- `directOpN`: returns the bitmap, and the caller's slice afterwards (`a[:changed]` holds the
changed values in order, the rest of `a` is untouched). -/
def directOpN (op : Policy → Heap → Ptr → Nat → Heap × Ptr × Bool) (b : BM σ) (a : List Nat) :
    BM σ × List Nat :=
  let st := a.foldl (directOpNStep C p op) ⟨b, INVALID, none, []⟩
  (st.b, st.pre)

def directAddN (b : BM σ) (a : List Nat) := directOpN C p cAdd b a
def directRemoveN (b : BM σ) (a : List Nat) := directOpN C p cRemove b a

/-- The `importUpdater` closure for a set-import; threaded state = (heap, changed). -/
def importSetFn (syn : Cell) (acc : Heap × Nat) (oldC : Ptr) (_existed : Bool) :
    (Heap × Nat) × Ptr × Bool :=
  let h := acc.1
  let existN := cN h oldC
  if existN = W then (acc, oldC, false)
  else match oldC with
    | none => ((h ++ [syn], acc.2 + syn.length), some h.length, true)
    | some i =>
      if existN = 0 then ((h ++ [syn], acc.2 + syn.length), some h.length, true)
      else
        let u := unionAsc (hget h i) syn
        if p.unionFresh (hget h i) syn then
          -- a different object comes back; the old one keeps its contents
          if u.length != existN then ((h ++ [u], acc.2 + (u.length - existN)), some h.length, true)
          else ((h ++ [u], acc.2), oldC, false)
        else
          if u.length != existN then ((hset h i u, acc.2 + (u.length - existN)), some i, true)
          else ((hset h i u, acc.2), oldC, false)

/-- The `importUpdater` closure for a clear-import. -/
def importClearFn (syn : Cell) (acc : Heap × Nat) (oldC : Ptr) (existed : Bool) :
    (Heap × Nat) × Ptr × Bool :=
  let h := acc.1
  let existN := cN h oldC
  if existN = 0 || !existed then (acc, none, false)
  else match oldC with
    | none => (acc, none, false)
    | some i =>
      -- `difference(oldC, &synthC)`: nil when the import is a full container, else a new object
      if syn.length = W then ((h, acc.2 + existN), none, true)
      else
        let d := diffAsc (hget h i) syn
        if d.length != existN then
          if d.length = 0 ∧ p.diffNil (hget h i) syn = true then ((h, acc.2 + existN), none, true)
          else ((h ++ [d], acc.2 + (existN - d.length)), some h.length, true)
        else ((h ++ [d], acc.2), oldC, false)

/-- `ImportRoaringBits`: `groups` = the containers of the payload in file order. -/
def importBits (clear : Bool) (b : BM σ) (groups : List (Nat × Cell)) : BM σ × Nat :=
  let r := groups.foldl (fun (acc : σ × Heap × Nat) g =>
      let u := C.update acc.1 g.1
        (if clear then importClearFn p g.2 (acc.2.1, acc.2.2) else importSetFn p g.2 (acc.2.1, acc.2.2))
      (u.1, u.2.1, u.2.2)) (b.c, b.h, 0)
  (⟨r.1, r.2.1⟩, r.2.2)

/-- The callback of `Optimize`. -/
def optFn (h : Heap) (_k : Nat) (c : Ptr) : Heap × Ptr × Bool :=
  let r := cOptimize p h c
  (r.1, r.2, true)

def optimize (b : BM σ) : BM σ :=
  let r := C.updateEvery b.c b.h (optFn p)
  ⟨r.1, r.2⟩

def ctrRemove (b : BM σ) (k : Nat) : BM σ := ⟨C.remove b.c k, b.h⟩

/-! Reads -/

/-- What `Containers.Iterator(0)` walks: entries with a non-nil container. -/
def iterEnts (b : BM σ) : List (Nat × Nat) :=
  (C.ents b.c).filterMap (fun e => e.2.map (fun i => (e.1, i)))

/-- `Contains`: goes through `Get`, i.e. through the lookaside, and may update it. -/
def contains (b : BM σ) (v : Nat) : BM σ × Bool :=
  let g := C.get b.c (v / W)
  (⟨g.1, b.h⟩, match g.2 with
    | none => false
    | some i => (hget b.h i).contains (v % W))

/-- `Count`: sum of the containers' N. -/
def count (b : BM σ) : Nat :=
  ((C.ents b.c).map (fun e => cN b.h e.2)).sum

/-- `Slice` / `ForEach`: the iterator from 0. -/
def slice (b : BM σ) : List Nat :=
  (iterEnts C b).flatMap (fun e => (hget b.h e.2).map (fun x => e.1 * W + x))

/-- `Iterator.Seek(k)` followed by `Next` until eof. -/
def iterFrom (b : BM σ) (k : Nat) : List Nat :=
  ((iterEnts C b).filter (fun e => e.1 ≥ k / W)).flatMap
    (fun e => ((hget b.h e.2).map (fun x => e.1 * W + x)).filter (fun v => v ≥ k))

/-- Per-container view: key and contents of every non-empty container. -/
def views (b : BM σ) : List (Nat × Cell) :=
  ((iterEnts C b).map (fun e => (e.1, hget b.h e.2))).filter (fun e => e.2.length != 0)

/-- `Any()`: some container has N > 0. -/
def anyBit (b : BM σ) : Bool := (iterEnts C b).any (fun e => (hget b.h e.2).length > 0)

/-- Keys of all containers the container iterator yields (empty ones included) and `Size()`. -/
def rawKeys (b : BM σ) : List Nat × Nat := ((iterEnts C b).map Prod.fst, C.size b.c)

/-- `updater.update` of `PutContainerValues` together with the data attached right afterwards by
UnmarshalBinary: an existing container is thawed (same or cloned object), a missing one is made. -/
def putValuesFn (cell : Cell) (h : Heap) (oldC : Ptr) (_existed : Bool) : Heap × Ptr × Bool :=
  match oldC with
  | some i =>
    if p.thawFresh (hget h i) then (h ++ [cell], some h.length, true) else (hset h i cell, some i, true)
  | none => (h ++ [cell], some h.length, true)

/-- `PutContainerValues`: for the B-tree literally `tree.Put(key, updater.update)` (+ fixed: the
lookaside entry is dropped); for the slice collection the hand-written code has exactly the shape
of its `Update` (replace + refreshLast when found, insert at the search position when not). -/
def putValues (s : σ) (h : Heap) (k : Nat) (cell : Cell) : σ × Heap :=
  C.update s k (putValuesFn p cell h)

/-- `UnmarshalBinary(b.WriteTo())` on the same bitmap: Optimize, then Reset and one
PutContainerValues (+ data) per non-empty container. -/
def reload (b : BM σ) : BM σ :=
  let b1 := optimize C p b
  let items := views C b1
  let r := items.foldl (fun (acc : σ × Heap) it => putValues C p acc.1 acc.2 it.1 it.2)
    (C.reset b1.c, b1.h)
  ⟨r.1, r.2⟩

end bitmap

/-! ### Operations and the step function -/

inductive Op where
  | add (vs : List Nat)
  | remove (vs : List Nat)
  | addN (vs : List Nat)
  | removeN (vs : List Nat)
  | importSet (groups : List (Nat × Cell))
  | importClear (groups : List (Nat × Cell))
  | optimize
  | ctrRemove (k : Nat)
  | reload
  | contains (v : Nat)
  | count
  | slice
  | iterFrom (k : Nat)
  | views
deriving Repr

inductive Out where
  | changed (b : Bool)
  /-- changed count and the caller's slice afterwards -/
  | changedN (n : Nat) (a : List Nat)
  | imported (n : Nat)
  | unit
  | bool (b : Bool)
  | nat (n : Nat)
  | list (l : List Nat)
  | views (l : List (Nat × Cell))
deriving Repr, DecidableEq

def step {σ : Type} (C : Coll σ) (p : Policy) (b : BM σ) : Op → BM σ × Out
  | .add vs => let r := bmAdd C p b vs; (r.1, .changed r.2)
  | .remove vs => let r := bmRemoveAll C p b vs; (r.1, .changed r.2)
  | .addN vs => let r := directAddN C p b vs; (r.1, .changedN r.2.length (r.2 ++ vs.drop r.2.length))
  | .removeN vs => let r := directRemoveN C p b vs; (r.1, .changedN r.2.length (r.2 ++ vs.drop r.2.length))
  | .importSet gs => let r := importBits C p false b gs; (r.1, .imported r.2)
  | .importClear gs => let r := importBits C p true b gs; (r.1, .imported r.2)
  | .optimize => (optimize C p b, .unit)
  | .ctrRemove k => (ctrRemove C b k, .unit)
  | .reload => (reload C p b, .unit)
  | .contains v => let r := contains C b v; (r.1, .bool r.2)
  | .count => (b, .nat (count C b))
  | .slice => (b, .list (slice C b))
  | .iterFrom k => (b, .list (iterFrom C b k))
  | .views => (b, .views (views C b))

def run {σ : Type} (C : Coll σ) (p : Policy) (b : BM σ) (ops : List Op) : BM σ × List Out :=
  ops.foldl (fun acc op => let r := step C p acc.1 op; (r.1, acc.2 ++ [r.2])) (b, [])

/-- Group values (any order, duplicates allowed) into the containers a roaring payload holds. -/
def groupVals (vs : List Nat) : List (Nat × Cell) :=
  vs.foldl (fun gs v =>
    match gs.lookup (v / W) with
    | none => aSet gs (v / W) [v % W]
    | some cell => aSet gs (v / W) (insertAsc (v % W) cell)) []

/-! ### The code before the fixes (used only by the witness theorems in Props.lean) -/

/-- Original `newBTreeContainers`: zero-valued lookaside (key 0, nil). -/
def BT.initOrig : BT := ⟨[], 0, none⟩

/-- Original `bTreeContainers.Update`: the lookaside is not touched. -/
def BT.updateOrig {α : Type} (s : BT) (k : Nat) (fn : Ptr → Bool → α × Ptr × Bool) : BT × α :=
  let r := treePut s.tree k fn
  ({ s with tree := r.1 }, r.2)

def BT.updateEveryOrig {α : Type} (s : BT) (a : α) (fn : α → Nat → Ptr → α × Ptr × Bool) : BT × α :=
  let r := btEvery fn a s.tree false
  ({ s with tree := r.1 }, r.2)

def btCollOrig : Coll BT :=
  { btColl with init := BT.initOrig, update := BT.updateOrig, updateEvery := BT.updateEveryOrig }

/-- Original `sliceContainers.Put` / `Update` (found branch): no `refreshLast`. -/
def SC.putOrig (s : SC) (k : Nat) (c : Ptr) : SC := { s with ents := eSet s.ents k c }

def SC.updateOrig {α : Type} (s : SC) (k : Nat) (fn : Ptr → Bool → α × Ptr × Bool) : SC × α :=
  match s.ents.lookup k with
  | some c =>
    let r := fn c true
    if r.2.2 then ({ s with ents := eSet s.ents k r.2.1 }, r.1) else (s, r.1)
  | none =>
    let r := fn none false
    -- the original panics here when it has to insert (negative index); modelled as "not inserted"
    (s, r.1)

def scCollOrig : Coll SC := { scColl with put := SC.putOrig, update := SC.updateOrig }

end PV.C02
