/-
`changed` results: each write reports exactly "the stored set is different afterwards"; the kind
of a fragment never changes.  Core Lean only.
-/
import PV.C07.LemmasSmall
namespace PV.C07
open List hiding lookup

variable {η : Type}

/-- for ascending lists, `!=` is "some member differs". -/
theorem bne_iff_exists {S S' : List Nat} (hs : Sorted S) (hs' : Sorted S') :
    (S' != S) = true ↔ ∃ x, ¬ (x ∈ S' ↔ x ∈ S) := by
  simp only [bne_iff_ne, ne_eq]
  constructor
  · intro h
    apply Classical.byContradiction
    intro hn
    apply h
    apply sorted_ext hs' hs
    intro x
    apply Classical.byContradiction
    intro hx
    exact hn ⟨x, hx⟩
  · rintro ⟨x, hx⟩ h
    rw [h] at hx; exact hx Iff.rfl

theorem bne_ins {S : List Nat} (hs : Sorted S) (p : Nat) : (ins p S != S) = !has p S := by
  rw [Bool.eq_iff_iff, bne_iff_exists hs (sorted_ins hs)]
  simp only [Bool.not_eq_eq_eq_not, Bool.not_true, has_false_iff]
  constructor
  · rintro ⟨x, hx⟩ hp
    apply hx
    rw [mem_ins]
    constructor
    · rintro (rfl | h) <;> assumption
    · exact Or.inr
  · intro hp
    exact ⟨p, fun h => hp (h.mp (mem_ins.mpr (Or.inl rfl)))⟩

theorem bne_del {S : List Nat} (hs : Sorted S) (p : Nat) : (del p S != S) = has p S := by
  rw [Bool.eq_iff_iff, bne_iff_exists hs (sorted_del hs), has_iff]
  constructor
  · rintro ⟨x, hx⟩
    apply Classical.byContradiction
    intro hp
    apply hx
    rw [mem_del]
    exact ⟨And.left, fun h => ⟨h, fun e => hp (e ▸ h)⟩⟩
  · intro hp
    exact ⟨p, fun h => (mem_del.mp (h.mpr hp)).2 rfl⟩

theorem bne_dropRow {S : List Nat} (hs : Sorted S) (r : Nat) :
    (dropRow S r != S) = !(rowCols S r).isEmpty := by
  rw [Bool.eq_iff_iff, bne_iff_exists hs (show Sorted (dropRow S r) from sorted_filter _ hs)]
  simp only [Bool.not_eq_eq_eq_not, Bool.not_true, isEmpty_eq_false_iff, ne_eq]
  constructor
  · rintro ⟨x, hx⟩ he
    apply hx
    rw [dropRow_eq_self he]
  · intro hne
    obtain ⟨c, hc⟩ := exists_mem_of_ne_nil _ hne
    simp only [rowCols, mem_map, mem_filter, beq_iff_eq] at hc
    obtain ⟨p, ⟨hp, hr⟩, _⟩ := hc
    exact ⟨p, fun h => (mem_dropRow.mp (h.mpr hp)).2 hr⟩

/-- on a well-formed mutex fragment a set changes the stored set iff the bit was not there. -/
theorem bne_spec_setBit_mutex {kind : Kind} (hk : kind ≠ .set) {S : List Nat} (hs : Sorted S)
    (ha : AtMostOne S) (r c : Nat) : (Spec.setBit kind S r c != S) = !has (pos r c) S := by
  rw [Bool.eq_iff_iff, bne_iff_exists hs (sorted_spec_setBit kind hs r c)]
  simp only [Bool.not_eq_eq_eq_not, Bool.not_true, has_false_iff, mem_spec_setBit_mutex hk]
  constructor
  · rintro ⟨x, hx⟩ hp
    apply hx
    constructor
    · rintro (rfl | h)
      · exact hp
      · exact h.1
    · intro h
      refine Or.inr ⟨h, ?_⟩
      rintro ⟨h1, h2⟩
      have hxe : x = pos (rowOf x) c := eq_pos_of rfl h1
      exact h2 (ha c _ _ (hxe ▸ h) hp)
  · intro hp
    exact ⟨pos r c, fun h => hp (h.mp (Or.inl rfl))⟩

/-! ### setValue / clearValue -/

theorem svb_changed (c u : Nat) (s : Frag η) : ∀ i,
    (setValueBits c u i s).2 = true ↔
      ∃ j, j < i ∧ ((testBit u j = true ∧ pos (bsiOffsetBit + j) c ∉ s.bits) ∨
                    (testBit u j = false ∧ pos (bsiOffsetBit + j) c ∈ s.bits))
  | 0 => by simp [setValueBits]
  | i + 1 => by
    have ih := svb_changed c u s i
    have hq : pos (bsiOffsetBit + i) c ∈ (setValueBits c u i s).1.bits ↔ pos (bsiOffsetBit + i) c ∈ s.bits := by
      rw [mem_svb]
      constructor
      · rintro (h | h)
        · exact h.1
        · exact absurd rfl (vbp_ne (Or.inl h) (Or.inl rfl))
      · intro h
        exact Or.inl ⟨h, fun h2 => vbp_ne (Or.inr h2) (Or.inl rfl) rfl⟩
    simp only [setValueBits]
    cases ht : testBit u i
    · simp only [Bool.false_eq_true, ↓reduceIte, Bool.or_eq_true, ih, ucb_changed, has_iff, hq]
      constructor
      · rintro (⟨j, hj, h⟩ | h)
        · exact ⟨j, by omega, h⟩
        · exact ⟨i, by omega, Or.inr ⟨ht, h⟩⟩
      · rintro ⟨j, hj, h⟩
        by_cases e : j = i
        · subst e
          rcases h with ⟨h1, _⟩ | ⟨_, h2⟩
          · rw [ht] at h1; cases h1
          · exact Or.inr h2
        · exact Or.inl ⟨j, by omega, h⟩
    · simp only [↓reduceIte, Bool.or_eq_true, ih, usb_changed, Bool.not_eq_eq_eq_not, Bool.not_true,
        has_false_iff, hq]
      constructor
      · rintro (⟨j, hj, h⟩ | h)
        · exact ⟨j, by omega, h⟩
        · exact ⟨i, by omega, Or.inl ⟨ht, h⟩⟩
      · rintro ⟨j, hj, h⟩
        by_cases e : j = i
        · subst e
          rcases h with ⟨_, h2⟩ | ⟨h1, _⟩
          · exact Or.inr h2
          · rw [ht] at h1; cases h1
        · exact Or.inl ⟨j, by omega, h⟩

/-- the positions of a value whose stored state differs from the value, grouped as the code
visits them: value bits, exists bit, sign bit. -/
theorem pfv_diff_iff (S : List Nat) (c depth : Nat) (v : Int) (clear : Bool) :
    (∃ x, (x ∈ (positionsForValue c depth v clear).1 ∧ x ∉ S) ∨
          (x ∈ (positionsForValue c depth v clear).2 ∧ x ∈ S)) ↔
      (∃ j, j < depth ∧ ((testBit v.natAbs j = true ∧ pos (bsiOffsetBit + j) c ∉ S) ∨
                         (testBit v.natAbs j = false ∧ pos (bsiOffsetBit + j) c ∈ S))) ∨
      (if clear = true then pos bsiExistsBit c ∈ S else pos bsiExistsBit c ∉ S) ∨
      (if v ≥ 0 ∨ clear = true then pos bsiSignBit c ∈ S else pos bsiSignBit c ∉ S) := by
  simp only [mem_pfv1, mem_pfv2]
  constructor
  · rintro ⟨x, (⟨(⟨rfl, hc⟩ | ⟨rfl, hc⟩ | ⟨j, hj, rfl, ht⟩), hx⟩ | ⟨(⟨rfl, hc⟩ | ⟨rfl, hc⟩ | ⟨j, hj, rfl, ht⟩), hx⟩)⟩
    · exact Or.inr (Or.inl (by simp only [hc, Bool.false_eq_true, ↓reduceIte]; exact hx))
    · exact Or.inr (Or.inr (by simp only [hc, ↓reduceIte]; exact hx))
    · exact Or.inl ⟨j, hj, Or.inl ⟨ht, hx⟩⟩
    · exact Or.inr (Or.inl (by simp only [hc, ↓reduceIte]; exact hx))
    · exact Or.inr (Or.inr (by simp only [hc, ↓reduceIte]; exact hx))
    · exact Or.inl ⟨j, hj, Or.inr ⟨ht, hx⟩⟩
  · rintro (⟨j, hj, ⟨ht, hx⟩ | ⟨ht, hx⟩⟩ | h | h)
    · exact ⟨_, Or.inl ⟨Or.inr (Or.inr ⟨j, hj, rfl, ht⟩), hx⟩⟩
    · exact ⟨_, Or.inr ⟨Or.inr (Or.inr ⟨j, hj, rfl, ht⟩), hx⟩⟩
    · by_cases hc : clear = true
      · simp only [hc, ↓reduceIte] at h
        exact ⟨_, Or.inr ⟨Or.inl ⟨rfl, hc⟩, h⟩⟩
      · simp only [hc] at h
        exact ⟨_, Or.inl ⟨Or.inl ⟨rfl, by simpa using hc⟩, h⟩⟩
    · by_cases hc : v ≥ 0 ∨ clear = true
      · simp only [hc, ↓reduceIte] at h
        exact ⟨_, Or.inr ⟨Or.inr (Or.inl ⟨rfl, hc⟩), h⟩⟩
      · simp only [hc, ↓reduceIte] at h
        exact ⟨_, Or.inl ⟨Or.inr (Or.inl ⟨rfl, hc⟩), h⟩⟩

/-- `setValueBase` reports changed iff one of the positions it writes had the other state. -/
theorem setValueBase_changed (s : Frag η) (c depth : Nat) (v : Int) (clear : Bool) :
    ∃ b, (setValueBase s c depth v clear).2 = .changed b ∧ (b = true ↔ ∃ x,
      (x ∈ (positionsForValue c depth v clear).1 ∧ x ∉ s.bits) ∨
      (x ∈ (positionsForValue c depth v clear).2 ∧ x ∈ s.bits)) := by
  refine ⟨_, rfl, ?_⟩
  have hb := svb_changed c v.natAbs s depth
  have hmb := fun x => mem_svb c v.natAbs s x depth
  have n0 : ∀ l : Prop, (pos bsiExistsBit c ∈ (valueBitPositions c v.natAbs depth).1 ∨
      pos bsiExistsBit c ∈ (valueBitPositions c v.natAbs depth).2) → l := fun l h =>
    absurd rfl (vbp_ne (i := depth) h (Or.inr (Or.inl rfl)))
  have n1 : ∀ l : Prop, (pos bsiSignBit c ∈ (valueBitPositions c v.natAbs depth).1 ∨
      pos bsiSignBit c ∈ (valueBitPositions c v.natAbs depth).2) → l := fun l h =>
    absurd rfl (vbp_ne (i := depth) h (Or.inr (Or.inr rfl)))
  have n01 := pos_exists_ne_sign c
  have he : pos bsiExistsBit c ∈ (setValueBits c v.natAbs depth s).1.bits ↔ pos bsiExistsBit c ∈ s.bits := by
    rw [hmb]
    exact ⟨fun h => h.elim And.left (fun h => n0 _ (Or.inl h)), fun h => Or.inl ⟨h, fun h2 => n0 _ (Or.inr h2)⟩⟩
  have hs0 : pos bsiSignBit c ∈ (setValueBits c v.natAbs depth s).1.bits ↔ pos bsiSignBit c ∈ s.bits := by
    rw [hmb]
    exact ⟨fun h => h.elim And.left (fun h => n1 _ (Or.inl h)), fun h => Or.inl ⟨h, fun h2 => n1 _ (Or.inr h2)⟩⟩
  have hE : (if clear = true then unprotectedClearBit (setValueBits c v.natAbs depth s).1 bsiExistsBit c
      else unprotectedSetBit (setValueBits c v.natAbs depth s).1 bsiExistsBit c).2 = true ↔
      (if clear = true then pos bsiExistsBit c ∈ s.bits else pos bsiExistsBit c ∉ s.bits) := by
    cases clear
    · simp only [Bool.false_eq_true, ↓reduceIte, usb_changed, Bool.not_eq_eq_eq_not, Bool.not_true, has_false_iff, he]
    · simp only [↓reduceIte, ucb_changed, has_iff, he]
  have hs1 : pos bsiSignBit c ∈ (if clear = true then unprotectedClearBit (setValueBits c v.natAbs depth s).1 bsiExistsBit c
      else unprotectedSetBit (setValueBits c v.natAbs depth s).1 bsiExistsBit c).1.bits ↔ pos bsiSignBit c ∈ s.bits := by
    cases clear
    · simp only [Bool.false_eq_true, ↓reduceIte, mem_usb, hs0]
      exact ⟨fun h => h.elim (fun e => absurd e.symm n01) id, Or.inr⟩
    · simp only [↓reduceIte, mem_ucb, hs0]
      exact ⟨And.left, fun h => ⟨h, fun e => n01 e.symm⟩⟩
  have hG : (if v ≥ 0 ∨ clear = true then unprotectedClearBit (if clear = true then unprotectedClearBit (setValueBits c v.natAbs depth s).1 bsiExistsBit c
      else unprotectedSetBit (setValueBits c v.natAbs depth s).1 bsiExistsBit c).1 bsiSignBit c
      else unprotectedSetBit (if clear = true then unprotectedClearBit (setValueBits c v.natAbs depth s).1 bsiExistsBit c
      else unprotectedSetBit (setValueBits c v.natAbs depth s).1 bsiExistsBit c).1 bsiSignBit c).2 = true ↔
      (if v ≥ 0 ∨ clear = true then pos bsiSignBit c ∈ s.bits else pos bsiSignBit c ∉ s.bits) := by
    by_cases hc : v ≥ 0 ∨ clear = true
    · simp only [hc, ↓reduceIte, ucb_changed, has_iff, hs1]
    · simp only [hc, ↓reduceIte, usb_changed, Bool.not_eq_eq_eq_not, Bool.not_true, has_false_iff, hs1]
  rw [pfv_diff_iff]
  simp only [Bool.or_eq_true, or_assoc]
  exact or_congr hb (or_congr hE hG)

theorem bne_spec_setValue {S : List Nat} (hs : Sorted S) (c depth : Nat) (v : Int) (clear : Bool) :
    (Spec.setValue S c depth v clear != S) = true ↔ ∃ x,
      (x ∈ (positionsForValue c depth v clear).1 ∧ x ∉ S) ∨
      (x ∈ (positionsForValue c depth v clear).2 ∧ x ∈ S) := by
  rw [bne_iff_exists hs (sorted_spec_setValue _ _ _ _ _ hs)]
  constructor
  · rintro ⟨x, hx⟩
    refine ⟨x, ?_⟩
    rw [mem_spec_setValue] at hx
    by_cases h1 : x ∈ (positionsForValue c depth v clear).1
    · by_cases hS : x ∈ S
      · exact absurd ⟨fun _ => hS, fun _ => Or.inr h1⟩ hx
      · exact Or.inl ⟨h1, hS⟩
    · by_cases h2 : x ∈ (positionsForValue c depth v clear).2
      · by_cases hS : x ∈ S
        · exact Or.inr ⟨h2, hS⟩
        · exfalso; apply hx
          exact ⟨fun h => h.elim And.left (fun h => absurd h h1), fun h => absurd h hS⟩
      · exfalso; apply hx
        exact ⟨fun h => h.elim And.left (fun h => absurd h h1), fun h => Or.inl ⟨h, h2⟩⟩
  · rintro ⟨x, h | h⟩
    · refine ⟨x, fun hx => h.2 (hx.mp ?_)⟩
      rw [mem_spec_setValue]; exact Or.inr h.1
    · refine ⟨x, fun hx => ?_⟩
      have := hx.mpr h.2
      rw [mem_spec_setValue] at this
      rcases this with h3 | h3
      · exact h3.2 h.1
      · exact pfv_disjoint h3 h.1

/-! ### the kind of a fragment is fixed -/

theorem step_kind (H : List Nat → η) (s : Frag η) (op : Op) : (step H s op).1.kind = s.kind := by
  cases op with
  | setBit r c =>
    simp only [step, setBit]
    split
    · simp
    · split <;> try simp
      split <;> simp
  | clearBit r c => simp [step, clearBit]
  | setRow r cols => simp [step, setRow, snapshot]
  | clearRow r =>
    simp only [step, clearRow]
    split <;> simp [snapshot]
  | bulkImport clear pairs =>
    simp only [step, bulkImport]
    split
    · simp only [bulkImportMutex]
      split <;> simp
    · simp only [bulkImportStandard]
      split <;> simp
  | importValue clear depth cvs => simp [step]
  | importRoaring clear pairs => simp [step]
  | setValue c depth v => simp [step]
  | clearValue c depth v => simp [step]
  | snapshot => rfl
  | reopen => rfl
  | invalidateChecksums => rfl
  | row r => simp only [step, row]; split <;> rfl
  | blocks => rfl
  | bit r c => rfl
  | value c depth => rfl
  | rows => rfl
  | rowsCol c => rfl
  | forEachBit => rfl
  | blockData b => rfl
  | mutexGet c => rfl

end PV.C07
