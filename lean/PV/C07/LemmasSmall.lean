/-
importValue, small-write path: walking the batch backwards with a seen-set (first occurrence of a
column wins) and applying the collected positions at once = applying the batch left to right
(last value of a column wins).  Core Lean only.
-/
import PV.C07.LemmasRefine
namespace PV.C07
open List hiding lookup

variable {η : Type}

/-! ### exact description of positionsForValue -/

theorem mem_vbp1 (c u x : Nat) : ∀ i, x ∈ (valueBitPositions c u i).1 ↔
    ∃ j, j < i ∧ x = pos (bsiOffsetBit + j) c ∧ testBit u j = true
  | 0 => by simp [valueBitPositions]
  | i + 1 => by
    have ih := mem_vbp1 c u x i
    simp only [valueBitPositions]
    split
    · rename_i ht
      simp only [mem_append, ih, mem_singleton]
      constructor
      · rintro (⟨j, hj, h⟩ | rfl)
        · exact ⟨j, by omega, h⟩
        · exact ⟨i, by omega, rfl, ht⟩
      · rintro ⟨j, hj, h1, h2⟩
        by_cases e : j = i
        · subst e; exact Or.inr h1
        · exact Or.inl ⟨j, by omega, h1, h2⟩
    · rename_i ht
      rw [ih]
      constructor
      · rintro ⟨j, hj, h⟩; exact ⟨j, by omega, h⟩
      · rintro ⟨j, hj, h1, h2⟩
        by_cases e : j = i
        · subst e; exact absurd h2 ht
        · exact ⟨j, by omega, h1, h2⟩

theorem mem_vbp2 (c u x : Nat) : ∀ i, x ∈ (valueBitPositions c u i).2 ↔
    ∃ j, j < i ∧ x = pos (bsiOffsetBit + j) c ∧ testBit u j = false
  | 0 => by simp [valueBitPositions]
  | i + 1 => by
    have ih := mem_vbp2 c u x i
    simp only [valueBitPositions]
    split
    · rename_i ht
      rw [ih]
      constructor
      · rintro ⟨j, hj, h⟩; exact ⟨j, by omega, h⟩
      · rintro ⟨j, hj, h1, h2⟩
        by_cases e : j = i
        · subst e; rw [ht] at h2; cases h2
        · exact ⟨j, by omega, h1, h2⟩
    · rename_i ht
      simp only [mem_append, ih, mem_singleton]
      constructor
      · rintro (⟨j, hj, h⟩ | rfl)
        · exact ⟨j, by omega, h⟩
        · exact ⟨i, by omega, rfl, by simpa using ht⟩
      · rintro ⟨j, hj, h1, h2⟩
        by_cases e : j = i
        · subst e; exact Or.inr h1
        · exact Or.inl ⟨j, by omega, h1, h2⟩

theorem mem_pfv1 (c depth : Nat) (v : Int) (clear : Bool) (x : Nat) :
    x ∈ (positionsForValue c depth v clear).1 ↔
      (x = pos bsiExistsBit c ∧ clear = false) ∨ (x = pos bsiSignBit c ∧ ¬ (v ≥ 0 ∨ clear = true)) ∨
      ∃ j, j < depth ∧ x = pos (bsiOffsetBit + j) c ∧ testBit v.natAbs j = true := by
  simp only [positionsForValue, mem_append, mem_vbp1]
  cases clear <;> by_cases hv : v ≥ 0 <;> simp [hv, or_assoc]

theorem mem_pfv2 (c depth : Nat) (v : Int) (clear : Bool) (x : Nat) :
    x ∈ (positionsForValue c depth v clear).2 ↔
      (x = pos bsiExistsBit c ∧ clear = true) ∨ (x = pos bsiSignBit c ∧ (v ≥ 0 ∨ clear = true)) ∨
      ∃ j, j < depth ∧ x = pos (bsiOffsetBit + j) c ∧ testBit v.natAbs j = false := by
  simp only [positionsForValue, mem_append, mem_vbp2]
  cases clear <;> by_cases hv : v ≥ 0 <;> simp [hv, or_assoc]

theorem pfv_col {c depth : Nat} {v : Int} {clear : Bool} {x : Nat}
    (h : x ∈ (positionsForValue c depth v clear).1 ∨ x ∈ (positionsForValue c depth v clear).2) :
    colOf x = c % SW := by
  rw [mem_pfv1, mem_pfv2] at h
  rcases h with (⟨rfl, _⟩ | ⟨rfl, _⟩ | ⟨j, _, rfl, _⟩) | (⟨rfl, _⟩ | ⟨rfl, _⟩ | ⟨j, _, rfl, _⟩) <;>
    exact colOf_pos _ _

theorem pfv_disjoint {c depth : Nat} {v : Int} {clear : Bool} {x : Nat}
    (h1 : x ∈ (positionsForValue c depth v clear).1) : x ∉ (positionsForValue c depth v clear).2 := by
  rw [mem_pfv1] at h1
  rw [mem_pfv2]
  have r0 : ∀ j, pos bsiExistsBit c ≠ pos (bsiOffsetBit + j) c := by
    intro j e; have := (pos_inj e).1; simp [bsiExistsBit, bsiOffsetBit] at this; omega
  have r1 : ∀ j, pos bsiSignBit c ≠ pos (bsiOffsetBit + j) c := by
    intro j e; have := (pos_inj e).1; simp [bsiSignBit, bsiOffsetBit] at this; omega
  have r01 := pos_exists_ne_sign c
  have rj : ∀ j j', pos (bsiOffsetBit + j) c = pos (bsiOffsetBit + j') c → j = j' := by
    intro j j' e; have := (pos_inj e).1; omega
  rintro (⟨e, hc⟩ | ⟨e, hc⟩ | ⟨j', _, e, ht'⟩)
  · rcases h1 with ⟨_, h⟩ | ⟨e', _⟩ | ⟨j, _, e', _⟩
    · rw [h] at hc; cases hc
    · exact r01 (by rw [← e, e'])
    · exact r0 j (by rw [← e, e'])
  · rcases h1 with ⟨e', _⟩ | ⟨_, h⟩ | ⟨j, _, e', _⟩
    · exact r01 (by rw [← e', e])
    · exact h hc
    · exact r1 j (by rw [← e, e'])
  · rcases h1 with ⟨e', _⟩ | ⟨e', _⟩ | ⟨j, _, e', ht⟩
    · exact r0 j' (by rw [← e', e])
    · exact r1 j' (by rw [← e', e])
    · have := rj j j' (by rw [← e', e])
      subst this
      rw [ht] at ht'; cases ht'

theorem pfv_complete {c depth : Nat} {v : Int} {clear : Bool} {x : Nat}
    (hc : colOf x = c % SW) (hr : rowOf x < depth + bsiOffsetBit) :
    x ∈ (positionsForValue c depth v clear).1 ∨ x ∈ (positionsForValue c depth v clear).2 := by
  rw [mem_pfv1, mem_pfv2]
  have hx : x = pos (rowOf x) c := eq_pos_of rfl hc
  by_cases h0 : rowOf x = 0
  · have e : x = pos bsiExistsBit c := by rw [hx, h0]; rfl
    cases clear
    · exact Or.inl (Or.inl ⟨e, rfl⟩)
    · exact Or.inr (Or.inl ⟨e, rfl⟩)
  · by_cases h1 : rowOf x = 1
    · have e : x = pos bsiSignBit c := by rw [hx, h1]; rfl
      by_cases hv : v ≥ 0 ∨ clear = true
      · exact Or.inr (Or.inr (Or.inl ⟨e, hv⟩))
      · exact Or.inl (Or.inr (Or.inl ⟨e, hv⟩))
    · have hj : rowOf x = bsiOffsetBit + (rowOf x - 2) := by simp only [bsiOffsetBit]; omega
      have e : x = pos (bsiOffsetBit + (rowOf x - 2)) c := by rw [← hj]; exact hx
      have hlt : rowOf x - 2 < depth := by simp only [bsiOffsetBit] at hr; omega
      cases ht : testBit v.natAbs (rowOf x - 2)
      · exact Or.inr (Or.inr (Or.inr ⟨_, hlt, e, ht⟩))
      · exact Or.inl (Or.inr (Or.inr ⟨_, hlt, e, ht⟩))

theorem vbp_mod (c u : Nat) : ∀ i, valueBitPositions (c % SW) u i = valueBitPositions c u i
  | 0 => rfl
  | i + 1 => by simp only [valueBitPositions, vbp_mod c u i, pos_mod]

theorem pfv_mod (c depth : Nat) (v : Int) (clear : Bool) :
    positionsForValue (c % SW) depth v clear = positionsForValue c depth v clear := by
  simp only [positionsForValue, vbp_mod, pos_mod]

/-! ### first / last value of a column in a batch -/

def firstValOf : List (Nat × Int) → Nat → Option Int
  | [], _ => none
  | (c, v) :: rest, k => if c % SW = k then some v else firstValOf rest k

theorem firstValOf_append (l₁ l₂ : List (Nat × Int)) (k : Nat) :
    firstValOf (l₁ ++ l₂) k = match firstValOf l₁ k with
      | some v => some v
      | none => firstValOf l₂ k := by
  induction l₁ with
  | nil => simp [firstValOf]
  | cons cv l₁ ih =>
    obtain ⟨c, v⟩ := cv
    simp only [cons_append, firstValOf]
    split
    · rfl
    · exact ih

/-- what the backwards walk collects. -/
theorem mem_smallWritePlan (depth : Nat) (clear : Bool) (x : Nat) :
    ∀ (l : List (Nat × Int)) (seen : List Nat),
    (x ∈ (smallWritePlan l depth clear seen).1 ↔
      colOf x ∉ seen ∧ ∃ v, firstValOf l (colOf x) = some v ∧ x ∈ (positionsForValue (colOf x) depth v clear).1) ∧
    (x ∈ (smallWritePlan l depth clear seen).2 ↔
      colOf x ∉ seen ∧ ∃ v, firstValOf l (colOf x) = some v ∧ x ∈ (positionsForValue (colOf x) depth v clear).2)
  | [], seen => by simp [smallWritePlan, firstValOf]
  | (c, v) :: rest, seen => by
    simp only [smallWritePlan, firstValOf]
    by_cases hseen : seen.contains (c % SW) = true
    · have ih := mem_smallWritePlan depth clear x rest seen
      have hin : c % SW ∈ seen := by simpa using hseen
      simp only [hseen, ↓reduceIte]
      by_cases hk : c % SW = colOf x
      · have : colOf x ∈ seen := hk ▸ hin
        rw [ih.1, ih.2]; simp [this]
      · simp only [hk, ↓reduceIte]; exact ih
    · have ih := mem_smallWritePlan depth clear x rest ((c % SW) :: seen)
      have hnin : c % SW ∉ seen := by simpa using hseen
      simp only [hseen, Bool.false_eq_true, ↓reduceIte, mem_append, ih.1, ih.2]
      by_cases hk : c % SW = colOf x
      · have e : positionsForValue (colOf x) depth v clear = positionsForValue c depth v clear := by
          rw [← hk, pfv_mod]
        have hns : colOf x ∉ seen := hk ▸ hnin
        simp only [hk, ↓reduceIte, mem_cons, not_true_eq_false, false_and, or_false,
          Option.some.injEq, exists_eq_left', e, hns, not_false_eq_true, true_and]
      · have hne : ¬ colOf x = c % SW := fun h => hk h.symm
        have n1 : x ∉ (positionsForValue c depth v clear).1 := fun h => hne (pfv_col (Or.inl h))
        have n2 : x ∉ (positionsForValue c depth v clear).2 := fun h => hne (pfv_col (Or.inr h))
        simp only [hk, ↓reduceIte, mem_cons, hne, false_or, n1, n2]
        exact ⟨trivial, trivial⟩

/-- the batch applied left to right. -/
theorem mem_spec_importValue (clear : Bool) (depth : Nat) (x : Nat) :
    ∀ (cvs : List (Nat × Int)) (S : List Nat),
    x ∈ Spec.importValue S clear depth cvs ↔
      match firstValOf cvs.reverse (colOf x) with
      | some v => if rowOf x < depth + bsiOffsetBit then x ∈ (positionsForValue (colOf x) depth v clear).1 else x ∈ S
      | none => x ∈ S
  | [], S => by simp [Spec.importValue, firstValOf]
  | (c, v) :: rest, S => by
    have ih := mem_spec_importValue clear depth x rest (Spec.setValue S c depth v clear)
    have hstep : x ∈ Spec.importValue S clear depth ((c, v) :: rest) ↔
        x ∈ Spec.importValue (Spec.setValue S c depth v clear) clear depth rest := by
      simp [Spec.importValue]
    rw [hstep, ih, reverse_cons, firstValOf_append]
    have hS : ¬ rowOf x < depth + bsiOffsetBit →
        (x ∈ Spec.setValue S c depth v clear ↔ x ∈ S) := by
      intro hr
      rw [mem_spec_setValue]
      constructor
      · rintro (h | h)
        · exact h.1
        · exact absurd (pfv_rows (Or.inl h)) hr
      · intro h; exact Or.inl ⟨h, fun h2 => hr (pfv_rows (Or.inr h2))⟩
    cases hf : firstValOf rest.reverse (colOf x) with
    | some v' =>
      simp only
      by_cases hr : rowOf x < depth + bsiOffsetBit
      · simp [hr]
      · simp only [hr, ↓reduceIte]; exact hS hr
    | none =>
      simp only [firstValOf]
      by_cases hk : c % SW = colOf x
      · simp only [hk, ↓reduceIte]
        have e : positionsForValue (colOf x) depth v clear = positionsForValue c depth v clear := by
          rw [← hk, pfv_mod]
        by_cases hr : rowOf x < depth + bsiOffsetBit
        · simp only [hr, ↓reduceIte, e]
          rw [mem_spec_setValue]
          constructor
          · rintro (⟨_, h2⟩ | h)
            · rcases pfv_complete (v := v) (clear := clear) hk.symm hr with h | h
              · exact h
              · exact absurd h h2
            · exact h
          · exact Or.inr
        · simp only [hr, ↓reduceIte]; exact hS hr
      · simp only [hk, ↓reduceIte]
        rw [mem_spec_setValue]
        have hne : ¬ colOf x = c % SW := fun h => hk h.symm
        constructor
        · rintro (h | h)
          · exact h.1
          · exact absurd (pfv_col (Or.inl h)) hne
        · intro h; exact Or.inl ⟨h, fun h2 => hne (pfv_col (Or.inr h2))⟩

/-- C07, importValue small-write path = specification. -/
theorem importValueSmallWrite_bits_eq (s : Frag η) (cvs : List (Nat × Int)) (depth : Nat) (clear : Bool)
    (hs : Sorted s.bits) :
    (importValueSmallWrite s cvs depth clear).bits = Spec.importValue s.bits clear depth cvs := by
  apply sorted_ext (sorted_importPositions _ _ _ _ hs) (sorted_spec_importValue _ _ _ _ hs)
  intro x
  have hp := mem_smallWritePlan depth clear x cvs.reverse []
  show x ∈ (importPositions s _ _ _).bits ↔ _
  rw [mem_importPositions, hp.1, hp.2, mem_spec_importValue]
  cases hf : firstValOf cvs.reverse (colOf x) with
  | none => simp
  | some v =>
    simp only [not_mem_nil, not_false_eq_true, Option.some.injEq, exists_eq_left', true_and]
    by_cases hr : rowOf x < depth + bsiOffsetBit
    · simp only [hr, ↓reduceIte]
      constructor
      · rintro ⟨h | h, h2⟩
        · rcases pfv_complete (c := colOf x) (v := v) (clear := clear) (Nat.mod_eq_of_lt (colOf_lt x)).symm hr with h3 | h3
          · exact h3
          · exact absurd h3 h2
        · exact h
      · intro h; exact ⟨Or.inr h, pfv_disjoint h⟩
    · simp only [hr, ↓reduceIte]
      constructor
      · rintro ⟨h | h, _⟩
        · exact h
        · exact absurd (pfv_rows (Or.inl h)) hr
      · intro h; exact ⟨Or.inl h, fun h2 => hr (pfv_rows (Or.inr h2))⟩

end PV.C07
