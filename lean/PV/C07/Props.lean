/-
C07 property theorems: every shard read reflects all completed writes, whatever the write path;
each write reports whether it changed anything.

Model  PV/C07/Model.lean  : fragment.go function by function (storage abstracted to an ascending
                            list of positions; row cache, checksum cache, op counter, snapshots).
Spec   PV/C07/Spec.lean   : a set of (row, column) positions; every write is a set operation,
                            batches are applied left to right, `changed` = "the set differs".
WF H s                    : storage ascending, cached rows coherent, cached checksums valid, and on
                            mutex / bool fragments at most one row per column (bool: rows 0, 1).
OpOK kind op              : the operation reaches a fragment of that kind through the API.

FULL-STRENGTH STATEMENT (what the property asks):
    theorem C07_refines : WF H s → OpOK s.kind op →
        (step H s op).1.bits = Spec.stepState s.kind s.bits op ∧
        (step H s op).2      = Spec.out H s.kind s.bits op
It is FALSE for the current code at exactly one place: `unprotectedSetRow` returns
`changed = true` unconditionally (a TODO in the code; the existing test
TestExecutor_Execute_SetRow/Set_NoSource pins `Store(empty -> empty) = true`, so this was not
repaired), see `C07_setrow_changed_always_true_witness`.  Proved here: the statement with the
answer of a setRow that leaves the row as it was excluded (`C07_refines_partial`; the storage
part holds for setRow too), and `C07_setRow_changed_when_different` shows setRow's answer is
right whenever the row really changes.
-/
import PV.C07.LemmasWF
namespace PV.C07
open List hiding lookup

variable {η : Type}

/-- Per step: the storage after the step is the specification's set, well-formedness and the
fragment kind are kept, and the answer (incl. `changed`) is the specification's answer.
Excluded: the `changed` flag of setRow (always true). -/
theorem C07_refines_partial (H : List Nat → η) (s : Frag η) (op : Op)
    (hw : WF H s) (hop : OpOK s.kind op) :
    (step H s op).1.bits = Spec.stepState s.kind s.bits op ∧
    WF H (step H s op).1 ∧ (step H s op).1.kind = s.kind ∧
    (isSetRow op = false → (step H s op).2 = Spec.out H s.kind s.bits op) ∧
    (isSetRow op = true → (step H s op).2 = .w (.changed true)) := by
  refine ⟨step_bits hw op hop, wf_step hw op hop, step_kind H s op, step_out hw op hop, ?_⟩
  intro h
  cases op <;> simp [isSetRow] at h
  rfl

/-- setRow answers correctly whenever it really changes the row. -/
theorem C07_setRow_changed_when_different (H : List Nat → η) (s : Frag η) (r : Nat) (cols : List Nat)
    (hdiff : (Spec.setRow s.bits r cols != s.bits) = true) :
    (step H s (.setRow r cols)).2 = Spec.out H s.kind s.bits (.setRow r cols) := by
  simp only [Spec.out, Spec.stepState, hdiff]
  rfl

/-- The model deviates from the specification on this input: row 3 holds column 7, setRow(3, {7})
reports changed = true, the specification says false. -/
theorem C07_setrow_changed_always_true_witness :
    (step (id : List Nat → List Nat) (run id (Frag.empty .set 10000) [.setBit 3 7]) (.setRow 3 [7])).2
        = .w (.changed true) ∧
    (Spec.setRow (run (id : List Nat → List Nat) (Frag.empty .set 10000) [.setBit 3 7]).bits 3 [7]
        != (run (id : List Nat → List Nat) (Frag.empty .set 10000) [.setBit 3 7]).bits) = false :=
  ⟨rfl, by decide⟩

/-- Reads (bit, row, row list, integer value, bit enumeration, block data, block checksums,
mutex value) answer from the stored set alone — whatever is in the row cache or the checksum
cache — and leave the set untouched. -/
theorem C07_reads (H : List Nat → η) (s : Frag η) (op : Op) (hw : WF H s) (hop : OpOK s.kind op)
    (hr : isRead op = true) :
    (step H s op).2 = Spec.out H s.kind s.bits op ∧ (step H s op).1.bits = s.bits := by
  have h1 := step_out hw op hop (by cases op <;> simp_all [isRead, isSetRow])
  have h2 := step_bits hw op hop
  refine ⟨h1, ?_⟩
  rw [h2]
  cases op <;> simp_all [isRead, Spec.stepState]

/-- A snapshot — foreground or background, at any position of a history — changes no answer:
it is a step that leaves the stored set and well-formedness alone. -/
theorem C07_snapshot_transparent (H : List Nat → η) (s : Frag η) (hw : WF H s) :
    (step H s .snapshot).1.bits = s.bits ∧ WF H (step H s .snapshot).1 :=
  ⟨rfl, wf_step hw .snapshot (by
    by_cases hk : s.kind = .set
    · exact Or.inl ⟨hk, rfl⟩
    · exact Or.inr ⟨hk, rfl, trivial⟩)⟩

/-- A restart (close + reopen) changes no answer either: the stored set and well-formedness are
kept, the caches start empty. -/
theorem C07_reopen_transparent (H : List Nat → η) (s : Frag η) (hw : WF H s) :
    (step H s .reopen).1.bits = s.bits ∧ (step H s .reopen).1.kind = s.kind ∧ WF H (step H s .reopen).1 :=
  ⟨rfl, rfl, wf_step hw .reopen (by
    by_cases hk : s.kind = .set
    · exact Or.inl ⟨hk, rfl⟩
    · exact Or.inr ⟨hk, rfl, trivial⟩)⟩

/-- All finite histories (snapshot steps at arbitrary positions are ordinary members of `ops`):
every answer along the history is the specification's answer on the specification's state
(setRow's `changed` excepted, see above), and the final storage is the writes applied in order. -/
theorem C07_history_partial (H : List Nat → η) (s : Frag η) (ops : List Op)
    (hw : WF H s) (hall : AllOK s.kind ops) :
    HistOK H s.kind s s.bits ops ∧
    (run H s ops).bits = ops.foldl (Spec.stepState s.kind) s.bits ∧
    WF H (run H s ops) :=
  history ops s hw hall

/-- From a freshly opened fragment. -/
theorem C07_history_from_empty_partial (H : List Nat → η) (kind : Kind) (maxOpN : Nat) (ops : List Op)
    (hall : AllOK kind ops) :
    HistOK H kind (Frag.empty kind maxOpN) [] ops ∧
    (run H (Frag.empty kind maxOpN) ops).bits = ops.foldl (Spec.stepState kind) [] :=
  let h := history ops (Frag.empty kind maxOpN) (wf_empty H kind maxOpN) hall
  ⟨h.1, h.2.1⟩

/-! Non-vacuity: a reachable, non-trivial state (bits in two blocks, a cached row, a cached
checksum, a forced snapshot) satisfies WF, and a long mixed history is admissible. -/

example : WF (id : List Nat → List Nat) (run id (Frag.empty .set 3) exOps) :=
  (history exOps _ (wf_empty _ _ _) (by intro op _; exact Or.inl ⟨rfl, by cases op <;> first | rfl | simp_all [exOps]⟩)).2.2

example : (run (id : List Nat → List Nat) (Frag.empty .set 3) exOps).bits =
    [pos 0 3, pos 1 7, pos 2 3, pos 2 4, pos 2 7, pos 3 4] := by decide

end PV.C07
