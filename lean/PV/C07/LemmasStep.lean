/-
The invariant is preserved by every operation of the step function, and `Blocks()` answers the
specification's block list.  Core Lean only.
-/
import PV.C07.LemmasValue
import PV.C07.LemmasBlocks
namespace PV.C07
open List hiding lookup

variable {η : Type}

theorem inv_row {H : List Nat → η} {s : Frag η} (hI : Inv H s) (r : Nat) : Inv H (row s r).1 := by
  unfold row
  split
  · exact hI
  · refine ⟨hI.sorted, ?_, hI.sums⟩
    intro r' cols h
    simp only [lookup_putKey] at h
    split at h
    · rename_i e; subst e
      simp only [Option.some.injEq] at h
      exact h.symm
    · exact hI.cache r' cols h

theorem row_out {H : List Nat → η} {s : Frag η} (hI : Inv H s) (r : Nat) : (row s r).2 = rowCols s.bits r := by
  unfold row
  split
  · rename_i cols h; exact hI.cache r cols h
  · rfl

theorem blocks_spec {H : List Nat → η} {s : Frag η} (hI : Inv H s) :
    (blocks H s).2 = Spec.blocks H s.bits ∧ Inv H (blocks H s).1 := by
  have hsuf : Suffix s.bits s.bits := ⟨0, by simp only [Nat.zero_le, decide_true]; exact (filter_eq_self.mpr (fun _ _ => rfl)).symm⟩
  have h := blocksLoop_spec H s.bits hI.sorted (s.bits.length + 1) s.bits s.sums [] (by omega) hsuf hI.sums
  refine ⟨?_, ⟨hI.sorted, hI.cache, h.2⟩⟩
  simp only [blocks, h.1, nil_append]
  rfl

/-- every operation keeps the invariant (storage ascending, cached rows coherent, cached
checksums valid). -/
theorem inv_step {H : List Nat → η} {s : Frag η} (hI : Inv H s) (op : Op) : Inv H (step H s op).1 := by
  cases op with
  | setBit r c => exact inv_of_framed hI (sorted_setBit s r c hI.sorted) (framed_setBit s r c)
  | clearBit r c => exact inv_of_framed hI (sorted_clearBit s r c hI.sorted) (framed_clearBit s r c)
  | setRow r cols => exact inv_of_framed hI (sorted_setRow s r cols hI.sorted) (framed_setRow s r cols)
  | clearRow r => exact inv_of_framed hI (sorted_clearRow s r hI.sorted) (framed_clearRow s r)
  | bulkImport clear pairs =>
    exact inv_of_framed hI (sorted_bulkImport s clear pairs hI.sorted) (framed_bulkImport s clear pairs)
  | importValue clear depth cvs =>
    exact inv_of_framed hI (sorted_importValue s clear depth cvs hI.sorted)
      (framed_importValue s clear depth cvs hI.sorted)
  | importRoaring clear pairs =>
    exact inv_of_framed hI (sorted_importRoaring s clear pairs hI.sorted) (framed_importRoaring s clear pairs)
  | setValue c depth v =>
    exact inv_of_framed hI (sorted_setValueBase s c depth v false hI.sorted) (framed_setValueBase s c depth v false)
  | clearValue c depth v =>
    exact inv_of_framed hI (sorted_setValueBase s c depth v true hI.sorted) (framed_setValueBase s c depth v true)
  | snapshot => exact inv_of_framed hI hI.sorted ⟨[], frame_snapshot s⟩
  | reopen =>
    exact ⟨hI.sorted, by intro r c h; simp [step, reopen, lookup] at h,
      by intro b h hh; simp [step, reopen, lookup] at hh⟩
  | invalidateChecksums =>
    exact ⟨hI.sorted, hI.cache, by intro b h hh; simp [step, invalidateChecksums, lookup] at hh⟩
  | row r => exact inv_row hI r
  | blocks => exact (blocks_spec hI).2
  | bit r c => exact hI
  | value c depth => exact hI
  | rows => exact hI
  | rowsCol c => exact hI
  | forEachBit => exact hI
  | blockData b => exact hI
  | mutexGet c => exact hI

/-- a history: the operations applied in order. -/
def run (H : List Nat → η) (s : Frag η) : List Op → Frag η
  | [] => s
  | op :: ops => run H (step H s op).1 ops

theorem inv_run {H : List Nat → η} {s : Frag η} (hI : Inv H s) (ops : List Op) : Inv H (run H s ops) := by
  induction ops generalizing s with
  | nil => exact hI
  | cons op ops ih => exact ih (inv_step hI op)

theorem lookup_map_key {β : Type} (f : Nat → β) (b : Nat) : ∀ (ids : List Nat),
    lookup b (ids.map (fun x => (x, f x))) = if b ∈ ids then some (f b) else none
  | [] => by simp [lookup]
  | x :: ids => by
    simp only [map_cons, lookup, lookup_map_key f b ids, mem_cons]
    by_cases h : b = x
    · simp [h]
    · simp [h]

theorem mem_blockIds_iff (S : List Nat) (b : Nat) : b ∈ Spec.blockIds S ↔ bitsOfBlock S b ≠ [] := by
  rw [mem_blockIds]
  constructor
  · rintro ⟨p, hp, rfl⟩ h
    have : p ∈ bitsOfBlock S (blockOf p) := by simp [bitsOfBlock, hp]
    rw [h] at this; simp at this
  · intro h
    obtain ⟨p, hp⟩ := exists_mem_of_ne_nil _ h
    have := mem_filter.mp hp
    exact ⟨p, this.1, by simpa using this.2⟩


end PV.C07
