/-
`Blocks()`: the iterator walk with the contiguous-cached-checksum shortcut computes, under
ChecksumInv, exactly the list "every non-empty block with the hash of its current bits".
Core Lean only.
-/
import PV.C07.LemmasInv
namespace PV.C07
open List

variable {η : Type}

/-! ### takeWhile / dropWhile on ascending lists -/

theorem dropWhile_eq_filter {l : List Nat} (P : Nat → Bool) (hs : Sorted l)
    (hP : ∀ a ∈ l, ∀ b ∈ l, a < b → P b = true → P a = true) :
    l.dropWhile P = l.filter (fun x => !P x) := by
  induction l with
  | nil => rfl
  | cons a t ih =>
    have hp := pairwise_cons.mp hs
    have ih' := ih hp.2 (fun x hx y hy => hP x (mem_cons_of_mem _ hx) y (mem_cons_of_mem _ hy))
    by_cases ha : P a = true
    · simp [ha, ih']
    · have hall : ∀ b ∈ t, P b = false := by
        intro b hb
        by_cases hb' : P b = true
        · exact absurd (hP a (by simp) b (mem_cons_of_mem _ hb) (hp.1 b hb) hb') ha
        · simpa using hb'
      have : t.filter (fun x => !P x) = t := by
        apply filter_eq_self.mpr
        intro b hb; simp [hall b hb]
      simp [ha, this]

theorem takeWhile_eq_filter {l : List Nat} (P : Nat → Bool) (hs : Sorted l)
    (hP : ∀ a ∈ l, ∀ b ∈ l, a < b → P b = true → P a = true) :
    l.takeWhile P = l.filter P := by
  induction l with
  | nil => rfl
  | cons a t ih =>
    have hp := pairwise_cons.mp hs
    have ih' := ih hp.2 (fun x hx y hy => hP x (mem_cons_of_mem _ hx) y (mem_cons_of_mem _ hy))
    by_cases ha : P a = true
    · simp [ha, ih']
    · have hall : ∀ b ∈ t, P b = false := by
        intro b hb
        by_cases hb' : P b = true
        · exact absurd (hP a (by simp) b (mem_cons_of_mem _ hb) (hp.1 b hb) hb') ha
        · simpa using hb'
      have : t.filter P = [] := by
        apply filter_eq_nil_iff.mpr
        intro b hb; simp [hall b hb]
      simp [ha, this]

/-! ### dedup / blockIds -/

theorem mem_dedup {x : Nat} : ∀ {l : List Nat}, x ∈ dedup l ↔ x ∈ l
  | [] => by simp [dedup]
  | [a] => by simp [dedup]
  | a :: b :: t => by
    have ih := @mem_dedup x (b :: t)
    simp only [dedup]
    split
    · subst_vars; rw [ih]; simp
    · rw [mem_cons, ih]; simp

theorem sorted_dedup : ∀ {l : List Nat}, l.Pairwise (· ≤ ·) → Sorted (dedup l)
  | [], _ => by simp [dedup, Sorted]
  | [a], _ => by simp [dedup, Sorted]
  | a :: b :: t, h => by
    have hp := pairwise_cons.mp h
    have ih := sorted_dedup hp.2
    simp only [dedup]
    split
    · exact ih
    · rename_i hne
      apply pairwise_cons.mpr
      refine ⟨?_, ih⟩
      intro x hx
      have hx' := mem_dedup.mp hx
      have hab : a ≤ b := hp.1 b (by simp)
      have hbx : b ≤ x := by
        rcases mem_cons.mp hx' with rfl | hx''
        · exact Nat.le_refl _
        · exact (pairwise_cons.mp hp.2).1 x hx''
      omega

theorem blockOf_mono {a b : Nat} (h : a ≤ b) : blockOf a ≤ blockOf b :=
  Nat.div_le_div_right h

theorem HBSSW_pos : 0 < HBS * SW := by decide

theorem lt_block_iff (p N : Nat) : p < N * (HBS * SW) ↔ blockOf p < N := by
  unfold blockOf
  exact (Nat.div_lt_iff_lt_mul HBSSW_pos).symm

theorem mem_blockIds {S : List Nat} {x : Nat} : x ∈ Spec.blockIds S ↔ ∃ p ∈ S, blockOf p = x := by
  simp [Spec.blockIds, mem_dedup]

theorem sorted_blockIds {S : List Nat} (h : Sorted S) : Sorted (Spec.blockIds S) := by
  apply sorted_dedup
  apply pairwise_map.mpr
  exact h.imp (fun hab => blockOf_mono (Nat.le_of_lt hab))

theorem sorted_append {l₁ l₂ : List Nat} (h₁ : Sorted l₁) (h₂ : Sorted l₂)
    (h : ∀ a ∈ l₁, ∀ b ∈ l₂, a < b) : Sorted (l₁ ++ l₂) :=
  pairwise_append.mpr ⟨h₁, h₂, h⟩

theorem sorted_range' (b n : Nat) : Sorted (range' b n) := by
  unfold Sorted
  have := @List.pairwise_lt_range' b n 1 (by omega)
  exact this

/-! ### readContiguousChecksums -/

theorem contiguous_spec (sums : List (Nat × η)) : ∀ (fuel b : Nat),
    (contiguous sums fuel b).map (·.1) = range' b (contiguous sums fuel b).length ∧
    ∀ e ∈ contiguous sums fuel b, lookup e.1 sums = some e.2
  | 0, b => by simp [contiguous]
  | fuel + 1, b => by
    simp only [contiguous]
    split
    · simp
    · rename_i h hl
      have ih := contiguous_spec sums fuel (b + 1)
      refine ⟨?_, ?_⟩
      · simp only [map_cons, length_cons, range'_succ, ih.1]
      · intro e he
        rcases mem_cons.mp he with rfl | he
        · exact hl
        · exact ih.2 e he

/-! ### the loop -/

/-- `rest` is the part of `bits` from some block on. -/
def Suffix (bits rest : List Nat) : Prop := ∃ k, rest = bits.filter (fun p => decide (k ≤ blockOf p))

/-- the answer the loop must append for the remaining values. -/
def want (H : List Nat → η) (bits rest : List Nat) : List (Nat × η) :=
  (Spec.blockIds rest).map (fun b => (b, H (bitsOfBlock bits b)))

def SumsOK (H : List Nat → η) (bits : List Nat) (sums : List (Nat × η)) : Prop :=
  ∀ b h, lookup b sums = some h → h = H (bitsOfBlock bits b) ∧ bitsOfBlock bits b ≠ []

theorem suffix_head_min {bits : List Nat} {v : Nat} {rest' : List Nat} (hs : Sorted bits)
    (hsuf : Suffix bits (v :: rest')) :
    (v :: rest') = bits.filter (fun p => decide (blockOf v ≤ blockOf p)) := by
  obtain ⟨k, hk⟩ := hsuf
  have hv : v ∈ bits.filter (fun p => decide (k ≤ blockOf p)) := by rw [← hk]; simp
  have hkv : k ≤ blockOf v := by simpa using (mem_filter.mp hv).2
  have hsr : Sorted (v :: rest') := by rw [hk]; exact sorted_filter _ hs
  rw [hk]
  apply filter_congr_sorted hs hs |> fun _ => ?_
  apply sorted_ext (sorted_filter _ hs) (sorted_filter _ hs)
  intro x
  simp only [mem_filter, decide_eq_true_eq]
  constructor
  · rintro ⟨hx, hkx⟩
    refine ⟨hx, ?_⟩
    have : x ∈ v :: rest' := by rw [hk]; simp [hx, hkx]
    rcases mem_cons.mp this with rfl | hx'
    · exact Nat.le_refl _
    · exact blockOf_mono (Nat.le_of_lt ((pairwise_cons.mp hsr).1 x hx'))
  · rintro ⟨hx, hvx⟩
    exact ⟨hx, Nat.le_trans hkv hvx⟩

theorem map_fst_snd_ext {β : Type} (cs : List (Nat × β)) (f : Nat → β) (b : Nat)
    (h1 : cs.map (·.1) = range' b cs.length) (h2 : ∀ e ∈ cs, e.2 = f e.1) :
    cs = (range' b cs.length).map (fun x => (x, f x)) := by
  rw [← h1, map_map]
  conv => lhs; rw [← map_id cs]
  apply map_congr_left
  intro e he
  simp [← h2 e he]

theorem blocksLoop_spec (H : List Nat → η) (bits : List Nat) (hs : Sorted bits) :
    ∀ (fuel : Nat) (rest : List Nat) (sums acc : List (Nat × η)),
      rest.length ≤ fuel → Suffix bits rest → SumsOK H bits sums →
      (blocksLoop H fuel rest sums acc).1 = acc ++ want H bits rest ∧
      SumsOK H bits (blocksLoop H fuel rest sums acc).2
  | 0, rest, sums, acc, hf, _, hok => by
    have : rest = [] := by cases rest <;> simp_all
    subst this
    simp [blocksLoop, want, Spec.blockIds, dedup, hok]
  | fuel + 1, [], sums, acc, _, _, hok => by
    simp [blocksLoop, want, Spec.blockIds, dedup, hok]
  | fuel + 1, v :: rest', sums, acc, hf, hsuf, hok => by
    have hrest := suffix_head_min hs hsuf
    have hsr : Sorted (v :: rest') := by rw [hrest]; exact sorted_filter _ hs
    have hmin : ∀ x ∈ v :: rest', blockOf v ≤ blockOf x := by
      intro x hx; rw [hrest] at hx; simpa using (mem_filter.mp hx).2
    have hvbits : v ∈ bits := by
      have : v ∈ v :: rest' := by simp
      rw [hrest] at this; exact (mem_filter.mp this).1
    simp only [blocksLoop]
    split
    · -- no cached checksum for this block: hash it
      rename_i hcs
      have hP : ∀ a ∈ v :: rest', ∀ b ∈ v :: rest', a < b →
          (blockOf b == blockOf v) = true → (blockOf a == blockOf v) = true := by
        intro a ha b hb hab hbv
        have h1 := hmin a ha
        have h2 := blockOf_mono (Nat.le_of_lt hab)
        have h3 : blockOf b = blockOf v := by simpa using hbv
        simp; omega
      have htake : (v :: rest').takeWhile (fun p => blockOf p == blockOf v) = bitsOfBlock bits (blockOf v) := by
        rw [takeWhile_eq_filter _ hsr hP, hrest, filter_filter]
        unfold bitsOfBlock
        apply filter_congr
        intro x _
        by_cases hx : blockOf x = blockOf v <;> simp [hx]
      have hdrop : (v :: rest').dropWhile (fun p => blockOf p == blockOf v) =
          bits.filter (fun p => decide (blockOf v + 1 ≤ blockOf p)) := by
        rw [dropWhile_eq_filter _ hsr hP, hrest, filter_filter]
        apply filter_congr
        intro x _
        by_cases hx : blockOf x = blockOf v
        · simp [hx]
        · by_cases hx2 : blockOf v ≤ blockOf x
          · have : blockOf v + 1 ≤ blockOf x := by omega
            simp [hx, hx2, this]
          · have : ¬ blockOf v + 1 ≤ blockOf x := by omega
            simp [hx2, this]
      have hlen : ((v :: rest').dropWhile (fun p => blockOf p == blockOf v)).length ≤ fuel := by
        have h1 : (v :: rest').dropWhile (fun p => blockOf p == blockOf v) =
            rest'.dropWhile (fun p => blockOf p == blockOf v) := by simp
        rw [h1]
        have h2 := (dropWhile_sublist (fun p => blockOf p == blockOf v) (l := rest')).length_le
        simp only [length_cons] at hf
        omega
      have hne : bitsOfBlock bits (blockOf v) ≠ [] := by
        intro h
        have : v ∈ bitsOfBlock bits (blockOf v) := by simp [bitsOfBlock, hvbits]
        rw [h] at this; simp at this
      have hok' : SumsOK H bits (putKey (blockOf v)
          (H ((v :: rest').takeWhile (fun p => blockOf p == blockOf v))) sums) := by
        intro b h hl
        rw [lookup_putKey] at hl
        split at hl
        · rename_i hb
          subst hb
          simp only [Option.some.injEq] at hl
          rw [← hl, htake]
          exact ⟨rfl, hne⟩
        · exact hok b h hl
      have ih := blocksLoop_spec H bits hs fuel _ _ (acc ++ [(blockOf v,
          H ((v :: rest').takeWhile (fun p => blockOf p == blockOf v)))]) hlen ⟨_, hdrop⟩ hok'
      refine ⟨?_, ih.2⟩
      rw [ih.1, append_assoc]
      congr 1
      -- blockIds (v :: rest') = blockOf v :: blockIds rest2
      have hids : Spec.blockIds (v :: rest') = blockOf v ::
          Spec.blockIds ((v :: rest').dropWhile (fun p => blockOf p == blockOf v)) := by
        have hs2 : Sorted ((v :: rest').dropWhile (fun p => blockOf p == blockOf v)) := by
          rw [hdrop]; exact sorted_filter _ hs
        apply sorted_ext (sorted_blockIds hsr)
        · apply pairwise_cons.mpr
          refine ⟨?_, sorted_blockIds hs2⟩
          intro x hx
          obtain ⟨p, hp, rfl⟩ := mem_blockIds.mp hx
          rw [hdrop] at hp
          have := (mem_filter.mp hp).2
          simp at this; omega
        · intro x
          rw [mem_cons, mem_blockIds, mem_blockIds]
          constructor
          · rintro ⟨p, hp, rfl⟩
            by_cases hpb : blockOf p = blockOf v
            · exact Or.inl hpb
            · refine Or.inr ⟨p, ?_, rfl⟩
              rw [hdrop]
              have hp' := hp
              rw [hrest] at hp'
              have h1 := (mem_filter.mp hp').1
              have h2 := hmin p hp
              simp only [mem_filter, decide_eq_true_eq]
              exact ⟨h1, by omega⟩
          · rintro (rfl | ⟨p, hp, rfl⟩)
            · exact ⟨v, by simp, rfl⟩
            · refine ⟨p, ?_, rfl⟩
              exact (dropWhile_sublist _).subset hp
      simp only [want, hids, map_cons, htake, singleton_append]
    · -- cached checksums for blocks b, b+1, ..: copy them and seek behind them
      rename_i cs hcs
      obtain ⟨hc1, hc2⟩ := contiguous_spec sums (sums.length + 1) (blockOf v)
      generalize hcsdef : contiguous sums (sums.length + 1) (blockOf v) = cs' at *
      have hn : cs'.length ≠ 0 := by
        intro h; exact hcs (length_eq_zero_iff.mp h)
      have hval : ∀ e ∈ cs', e.2 = H (bitsOfBlock bits e.1) ∧ bitsOfBlock bits e.1 ≠ [] :=
        fun e he => hok e.1 e.2 (hc2 e he)
      have hP : ∀ a ∈ v :: rest', ∀ b ∈ v :: rest', a < b →
          (decide (b < (blockOf v + cs'.length) * (HBS * SW))) = true →
          (decide (a < (blockOf v + cs'.length) * (HBS * SW))) = true := by
        intro a _ b _ hab hb
        simp only [decide_eq_true_eq] at hb ⊢
        omega
      have hdrop : (v :: rest').dropWhile (fun p => decide (p < (blockOf v + cs'.length) * (HBS * SW))) =
          bits.filter (fun p => decide (blockOf v + cs'.length ≤ blockOf p)) := by
        rw [dropWhile_eq_filter _ hsr hP, hrest, filter_filter]
        apply filter_congr
        intro x _
        rw [Bool.eq_iff_iff]
        simp only [Bool.and_eq_true, Bool.not_eq_eq_eq_not, Bool.not_true, decide_eq_false_iff_not,
          decide_eq_true_eq, lt_block_iff]
        omega
      have hlen : ((v :: rest').dropWhile (fun p => decide (p < (blockOf v + cs'.length) * (HBS * SW)))).length ≤ fuel := by
        have hv : decide (v < (blockOf v + cs'.length) * (HBS * SW)) = true := by
          simp only [decide_eq_true_eq, lt_block_iff]; omega
        have h1 : (v :: rest').dropWhile (fun p => decide (p < (blockOf v + cs'.length) * (HBS * SW))) =
            rest'.dropWhile (fun p => decide (p < (blockOf v + cs'.length) * (HBS * SW))) := by
          simp [hv]
        rw [h1]
        have h2 := (dropWhile_sublist (fun p => decide (p < (blockOf v + cs'.length) * (HBS * SW))) (l := rest')).length_le
        simp only [length_cons] at hf
        omega
      have ih := blocksLoop_spec H bits hs fuel _ sums (acc ++ cs') hlen ⟨_, hdrop⟩ hok
      refine ⟨?_, ih.2⟩
      rw [ih.1, append_assoc]
      congr 1
      have hcs' : cs' = (range' (blockOf v) cs'.length).map (fun x => (x, H (bitsOfBlock bits x))) :=
        map_fst_snd_ext cs' _ _ hc1 (fun e he => (hval e he).1)
      have hids : Spec.blockIds (v :: rest') = range' (blockOf v) cs'.length ++
          Spec.blockIds ((v :: rest').dropWhile (fun p => decide (p < (blockOf v + cs'.length) * (HBS * SW)))) := by
        have hs2 : Sorted ((v :: rest').dropWhile (fun p => decide (p < (blockOf v + cs'.length) * (HBS * SW)))) := by
          rw [hdrop]; exact sorted_filter _ hs
        apply sorted_ext (sorted_blockIds hsr)
        · apply sorted_append (sorted_range' _ _) (sorted_blockIds hs2)
          intro a ha b hb
          obtain ⟨p, hp, rfl⟩ := mem_blockIds.mp hb
          rw [hdrop] at hp
          have := (mem_filter.mp hp).2
          simp only [decide_eq_true_eq] at this
          have := (mem_range'_1.mp ha).2
          omega
        · intro x
          rw [mem_append, mem_blockIds, mem_blockIds, mem_range'_1]
          constructor
          · rintro ⟨p, hp, rfl⟩
            by_cases hpb : blockOf p < blockOf v + cs'.length
            · exact Or.inl ⟨hmin p hp, hpb⟩
            · refine Or.inr ⟨p, ?_, rfl⟩
              rw [hdrop]
              have hp' := hp
              rw [hrest] at hp'
              simp only [mem_filter, decide_eq_true_eq]
              exact ⟨(mem_filter.mp hp').1, by omega⟩
          · rintro (⟨h1, h2⟩ | ⟨p, hp, rfl⟩)
            · -- block x is cached, hence not empty, hence present in rest
              have hx : x ∈ cs'.map (·.1) := by rw [hc1]; exact mem_range'_1.mpr ⟨h1, h2⟩
              obtain ⟨e, he, rfl⟩ := mem_map.mp hx
              have hne := (hval e he).2
              obtain ⟨p, hp⟩ := exists_mem_of_ne_nil _ hne
              have hp' := mem_filter.mp hp
              refine ⟨p, ?_, by simpa using hp'.2⟩
              rw [hrest]
              simp only [mem_filter, decide_eq_true_eq]
              have : blockOf p = e.1 := by simpa using hp'.2
              exact ⟨hp'.1, by omega⟩
            · exact ⟨p, (dropWhile_sublist _).subset hp, rfl⟩
      simp only [want, hids, map_append]
      rw [← hcs']

end PV.C07
