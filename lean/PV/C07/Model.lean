/-
Shared fragment model for C07 (reads reflect writes), C10 (block checksums) and C13 (mutex / bool).
Core Lean only.  Follows fragment.go (tree with the a04 `fix:` commits) function by function:

  unprotectedSetBit / unprotectedClearBit, setBit + handleMutex, clearBit
  unprotectedSetRow, unprotectedClearRow
  bulkImport -> bulkImportStandard | bulkImportMutex -> importPositions
  importValue -> importValueSmallWrite (positionsForValue) | large path (importSetValue)
  importRoaring (ImportRoaringBits + per-row bookkeeping)
  setValueBase (setValue / clearValue)
  incrementOpN / enqueueSnapshot (no queue: synchronous) / snapshot
  unprotectedRow (row cache), bit, value, rows, rows(filterColumn), forEachBit, blockData,
  Blocks + readContiguousChecksums, InvalidateChecksums, rowsVector.Get / boolVector.Get

Abstractions (stated in props/C07.json): the roaring storage is a strictly ascending list of
positions `row * ShardWidth + column` (containers, encodings, the B-tree and its lookaside, the
op log and the mmap belong to C01-C05 and are tied here by correspondence only); a snapshot is
therefore the identity on `bits` and only resets the operation counter.  Columns are in-shard
offsets `< ShardWidth` (f.pos rejects anything else before any write).  uint64 is Nat.
The block hash is a parameter `H : List Nat → η` (xxhash over the big-endian positions).
-/
namespace PV.C07

def SW : Nat := 1048576          -- ShardWidth
def HBS : Nat := 100             -- HashBlockSize

/-- `pos(rowID, columnID)` of fragment.go. -/
def pos (r c : Nat) : Nat := r * SW + c % SW
def rowOf (p : Nat) : Nat := p / SW
def colOf (p : Nat) : Nat := p % SW
/-- block of a storage position: `v / (HashBlockSize * ShardWidth)`. -/
def blockOf (p : Nat) : Nat := p / (HBS * SW)

/-! ### storage: strictly ascending list of positions -/

def ins (x : Nat) : List Nat → List Nat
  | [] => [x]
  | y :: ys => if x < y then x :: y :: ys else if x = y then y :: ys else y :: ins x ys

def del (x : Nat) (l : List Nat) : List Nat := l.filter (fun y => y != x)

def has (x : Nat) (l : List Nat) : Bool := l.contains x

/-- `Bitmap.DirectAddN`: new storage and the number of bits that changed. -/
def addN (l : List Nat) : List Nat → List Nat × Nat
  | [] => (l, 0)
  | p :: ps => if has p l then addN l ps else let r := addN (ins p l) ps; (r.1, r.2 + 1)

/-- `Bitmap.DirectRemoveN`. -/
def removeN (l : List Nat) : List Nat → List Nat × Nat
  | [] => (l, 0)
  | p :: ps => if has p l then let r := removeN (del p l) ps; (r.1, r.2 + 1) else removeN l ps

/-- columns of a row, ascending (`rowFromStorage(...).Columns()` relative to the shard). -/
def rowCols (l : List Nat) (r : Nat) : List Nat := (l.filter (fun p => rowOf p == r)).map colOf

/-- storage without the containers of row `r`. -/
def dropRow (l : List Nat) (r : Nat) : List Nat := l.filter (fun p => rowOf p != r)

/-- distinct values of an ascending-by-group list (`skip dups` of unprotectedRows). -/
def dedup : List Nat → List Nat
  | [] => []
  | [x] => [x]
  | x :: y :: ys => if x = y then dedup (y :: ys) else x :: dedup (y :: ys)

/-- rows that have at least one bit set, ascending (`rows(0)`). -/
def rowsOf (l : List Nat) : List Nat := dedup (l.map rowOf)

/-- rows holding column `c` (`rows(0, filterColumn(c))`). -/
def rowsWithCol (l : List Nat) (c : Nat) : List Nat :=
  (l.filter (fun p => colOf p == c % SW)).map rowOf

def bitsOfBlock (l : List Nat) (b : Nat) : List Nat := l.filter (fun p => blockOf p == b)

/-! ### association lists used for the row cache and the checksum cache -/

def lookup {β : Type} (k : Nat) : List (Nat × β) → Option β
  | [] => none
  | (k', v) :: xs => if k = k' then some v else lookup k xs

def eraseKey {β : Type} (k : Nat) (m : List (Nat × β)) : List (Nat × β) :=
  m.filter (fun e => e.1 != k)

def putKey {β : Type} (k : Nat) (v : β) (m : List (Nat × β)) : List (Nat × β) :=
  (k, v) :: eraseKey k m

/-! ### the fragment -/

inductive Kind | set | mutex | bool
deriving DecidableEq, Repr, Inhabited

structure Frag (η : Type) where
  bits : List Nat                       -- f.storage
  rowCache : List (Nat × List Nat)      -- f.rowCache : row -> materialised columns
  sums : List (Nat × η)                 -- f.checksums : block -> cached checksum
  kind : Kind                           -- f.mutexVector: nil | rowsVector | boolVector
  opN : Nat                             -- f.opN
  maxOpN : Nat                          -- f.MaxOpN
  snaps : Nat                           -- f.snapshotsTaken

def Frag.empty {η : Type} (kind : Kind) (maxOpN : Nat) : Frag η :=
  { bits := [], rowCache := [], sums := [], kind := kind, opN := 0, maxOpN := maxOpN, snaps := 0 }

variable {η : Type}

/-- `snapshot()` (+ unprotectedWriteToFragment): storage rewritten, op counter reset. -/
def snapshot (s : Frag η) : Frag η := { s with opN := 0, snaps := s.snaps + 1 }

/-- `incrementOpN(changed)`; without a queue `enqueueSnapshot` snapshots at once. -/
def incrementOpN (s : Frag η) (changed : Nat) : Frag η :=
  if changed = 0 then s
  else
    let s1 := { s with opN := s.opN + changed }
    if s1.opN > s1.maxOpN then snapshot s1 else s1

/-- `delete(f.checksums, rowID/HashBlockSize)` and `f.rowCache.Add(rowID, nil)`. -/
def invalidateRow (s : Frag η) (r : Nat) : Frag η :=
  { s with sums := eraseKey (r / HBS) s.sums, rowCache := eraseKey r s.rowCache }

def invalidateRows (s : Frag η) (rows : List Nat) : Frag η := rows.foldl invalidateRow s

/-! ### single bit writes -/

def unprotectedSetBit (s : Frag η) (r c : Nat) : Frag η × Bool :=
  let p := pos r c
  if has p s.bits then (s, false)
  else
    let s1 := { s with bits := ins p s.bits }
    let s2 := { s1 with sums := eraseKey (r / HBS) s1.sums }
    let s3 := incrementOpN s2 1
    ({ s3 with rowCache := eraseKey r s3.rowCache }, true)

def unprotectedClearBit (s : Frag η) (r c : Nat) : Frag η × Bool :=
  let p := pos r c
  if has p s.bits then
    let s1 := { s with bits := del p s.bits }
    let s2 := { s1 with sums := eraseKey (r / HBS) s1.sums }
    let s3 := incrementOpN s2 1
    ({ s3 with rowCache := eraseKey r s3.rowCache }, true)
  else (s, false)

/-- Result of `mutexVector.Get`. -/
inductive MGet
  | none                    -- no value
  | found (row : Nat)
  | multiple                -- "found multiple row values for column"
  | nonBool                 -- "found non-boolean value"
deriving DecidableEq, Repr

/-- `rowsVector.Get` / `boolVector.Get`. -/
def mutexGet (kind : Kind) (bits : List Nat) (c : Nat) : MGet :=
  match rowsWithCol bits c with
  | [] => .none
  | [r] => if kind = .bool ∧ r > 1 then .nonBool else .found r
  | _ => .multiple

/-- Outcome of a write. -/
inductive WOut
  | changed (b : Bool)
  | ok
  | errMultiple
  | errNonBool
deriving DecidableEq, Repr

/-- `setBit`: handleMutex (clear the existing value of the column) then unprotectedSetBit. -/
def setBit (s : Frag η) (r c : Nat) : Frag η × WOut :=
  if s.kind = .set then
    let (s1, ch) := unprotectedSetBit s r c
    (s1, .changed ch)
  else
    match mutexGet s.kind s.bits c with
    | .multiple => (s, .errMultiple)
    | .nonBool => (s, .errNonBool)
    | .none => let (s1, ch) := unprotectedSetBit s r c; (s1, .changed ch)
    | .found e =>
      if e ≠ r then
        let (s1, _) := unprotectedClearBit s e c
        let (s2, ch) := unprotectedSetBit s1 r c
        (s2, .changed ch)
      else
        let (s1, ch) := unprotectedSetBit s r c
        (s1, .changed ch)

def clearBit (s : Frag η) (r c : Nat) : Frag η × WOut :=
  let (s1, ch) := unprotectedClearBit s r c
  (s1, .changed ch)

/-! ### whole-row writes -/

/-- canonical (ascending, duplicate free) form of a list: `NewRow(cols...)`, a roaring bitmap. -/
def canon (l : List Nat) : List Nat := l.foldl (fun acc x => ins x acc) []

/-- `unprotectedSetRow` (after the fixes: handles the empty row, invalidates the block checksum).
`changed` is always true in the code (a TODO there; the existing test suite pins it), which
deviates from the specification when the stored row already equals the given one: known
finding `setrow-changed-always-true`. -/
def setRow (s : Frag η) (r : Nat) (cols : List Nat) : Frag η × WOut :=
  let new := canon (cols.map (· % SW))
  let bits1 := dropRow s.bits r
  let s1 := { s with bits := bits1, sums := eraseKey (r / HBS) s.sums }
  let bits2 := (addN bits1 (new.map (pos r))).1
  let s2 := { s1 with bits := bits2, rowCache := eraseKey r s1.rowCache }
  (snapshot s2, .changed true)

/-- `unprotectedClearRow` (after the fixes). -/
def clearRow (s : Frag η) (r : Nat) : Frag η × WOut :=
  let changed := !(rowCols s.bits r).isEmpty
  let s1 := { s with bits := dropRow s.bits r }
  let s2 := if changed then { s1 with sums := eraseKey (r / HBS) s1.sums } else s1
  let s3 := { s2 with rowCache := eraseKey r s2.rowCache }
  (snapshot s3, .changed changed)

/-! ### imports -/

/-- `importPositions(set, clear, rowSet)`. -/
def importPositions (s : Frag η) (set clear rowSet : List Nat) : Frag η :=
  let a := addN s.bits set
  let s1 := incrementOpN { s with bits := a.1 } a.2
  let d := removeN s1.bits clear
  let s2 := incrementOpN { s1 with bits := d.1 } d.2
  invalidateRows s2 rowSet

/-- `bulkImportStandard`. -/
def bulkImportStandard (s : Frag η) (clear : Bool) (pairs : List (Nat × Nat)) : Frag η :=
  let positions := pairs.map (fun rc => pos rc.1 rc.2)
  let rowSet := pairs.map (·.1)
  if clear then importPositions s [] positions rowSet else importPositions s positions [] rowSet

/-- `colSet[columnIDs[i]] = rowIDs[i]` over the batch: column -> row of its last occurrence. -/
def colSetOf : List (Nat × Nat) → List (Nat × Nat) → List (Nat × Nat)
  | acc, [] => acc
  | acc, (r, c) :: rest => colSetOf (putKey (c % SW) r acc) rest

/-- the loop of `bulkImportMutex` over colSet (storage is not written during the loop):
returns the positions to set, to clear, the affected rows, or the vector's error. -/
def mutexPlan (kind : Kind) (bits : List Nat) :
    List (Nat × Nat) → Except MGet (List Nat × List Nat × List Nat)
  | [] => .ok ([], [], [])
  | (c, r) :: rest =>
    match mutexGet kind bits c with
    | .multiple => .error .multiple
    | .nonBool => .error .nonBool
    | g =>
      match mutexPlan kind bits rest with
      | .error e => .error e
      | .ok (sets, clears, rows) =>
        match g with
        | .found e =>
          if e = r then .ok (sets, clears, rows)
          else .ok (pos r c :: sets, pos e c :: clears, e :: r :: rows)
        | _ => .ok (pos r c :: sets, clears, r :: rows)

def bulkImportMutex (s : Frag η) (pairs : List (Nat × Nat)) : Frag η × WOut :=
  match mutexPlan s.kind s.bits (colSetOf [] pairs) with
  | .error .nonBool => (s, .errNonBool)
  | .error _ => (s, .errMultiple)
  | .ok (sets, clears, rows) => (importPositions s sets clears rows, .ok)

/-- `bulkImport`. -/
def bulkImport (s : Frag η) (clear : Bool) (pairs : List (Nat × Nat)) : Frag η × WOut :=
  if s.kind ≠ .set ∧ !clear then bulkImportMutex s pairs
  else (bulkImportStandard s clear pairs, .ok)

/-! ### integer values (BSI rows: 0 exists, 1 sign, 2+i value bit i) -/

def bsiExistsBit : Nat := 0
def bsiSignBit : Nat := 1
def bsiOffsetBit : Nat := 2

def testBit (u i : Nat) : Bool := (u / 2 ^ i) % 2 == 1

/-- value bits part of `positionsForValue`: for i < depth, set where the bit is 1, clear where 0. -/
def valueBitPositions (c : Nat) (u : Nat) : Nat → List Nat × List Nat
  | 0 => ([], [])
  | i + 1 =>
    let r := valueBitPositions c u i
    if testBit u i then (r.1 ++ [pos (bsiOffsetBit + i) c], r.2)
    else (r.1, r.2 ++ [pos (bsiOffsetBit + i) c])

/-- `positionsForValue`: positions to set and to clear for one column. -/
def positionsForValue (c depth : Nat) (v : Int) (clear : Bool) : List Nat × List Nat :=
  let u := v.natAbs
  let ex : List Nat × List Nat :=
    if clear then ([], [pos bsiExistsBit c]) else ([pos bsiExistsBit c], [])
  let sg : List Nat × List Nat :=
    if v ≥ 0 ∨ clear then ([], [pos bsiSignBit c]) else ([pos bsiSignBit c], [])
  let vb := valueBitPositions c u depth
  (ex.1 ++ sg.1 ++ vb.1, ex.2 ++ sg.2 ++ vb.2)

def rangeList (n : Nat) : List Nat := List.range n

/-- `importValueSmallWrite`: walk the batch backwards, first occurrence of a column wins. -/
def smallWritePlan : List (Nat × Int) → Nat → Bool → List Nat → List Nat × List Nat
  | [], _, _, _ => ([], [])
  | (c, v) :: rest, depth, clear, seen =>
    if seen.contains (c % SW) then smallWritePlan rest depth clear seen
    else
      let p := positionsForValue c depth v clear
      let r := smallWritePlan rest depth clear ((c % SW) :: seen)
      (p.1 ++ r.1, p.2 ++ r.2)

def importValueSmallWrite (s : Frag η) (cvs : List (Nat × Int)) (depth : Nat) (clear : Bool) : Frag η :=
  let plan := smallWritePlan cvs.reverse depth clear []
  importPositions s plan.1 plan.2 (rangeList (depth + bsiOffsetBit))

/-- storage.Add / storage.Remove without bookkeeping, returning 1 when the bit changed. -/
def rawAdd (l : List Nat) (p : Nat) : List Nat × Nat := if has p l then (l, 0) else (ins p l, 1)
def rawRemove (l : List Nat) (p : Nat) : List Nat × Nat := if has p l then (del p l, 1) else (l, 0)

def importSetValueBits (c u : Nat) : Nat → List Nat → List Nat × Nat
  | 0, l => (l, 0)
  | i + 1, l =>
    let r := importSetValueBits c u i l
    let w := if testBit u i then rawAdd r.1 (pos (bsiOffsetBit + i) c)
             else rawRemove r.1 (pos (bsiOffsetBit + i) c)
    (w.1, r.2 + w.2)

/-- `importSetValue`. -/
def importSetValue (l : List Nat) (c depth : Nat) (v : Int) (clear : Bool) : List Nat × Nat :=
  let b := importSetValueBits c v.natAbs depth l
  let e := if clear then rawRemove b.1 (pos bsiExistsBit c) else rawAdd b.1 (pos bsiExistsBit c)
  let g := if v ≥ 0 ∨ clear then rawRemove e.1 (pos bsiSignBit c) else rawAdd e.1 (pos bsiSignBit c)
  (g.1, b.2 + e.2 + g.2)

def importValueLargeLoop (l : List Nat) (depth : Nat) (clear : Bool) : List (Nat × Int) → List Nat × Nat
  | [] => (l, 0)
  | (c, v) :: rest =>
    let a := importSetValue l c depth v clear
    let r := importValueLargeLoop a.1 depth clear rest
    (r.1, a.2 + r.2)

/-- `importValue`. -/
def importValue (s : Frag η) (clear : Bool) (depth : Nat) (cvs : List (Nat × Int)) : Frag η × WOut :=
  if cvs.length * (depth + 1) + s.opN < s.maxOpN then
    (importValueSmallWrite s cvs depth clear, .ok)
  else
    let r := importValueLargeLoop s.bits depth clear cvs
    let s1 := invalidateRows { s with bits := r.1 } (rangeList (depth + bsiOffsetBit))
    let s2 := incrementOpN s1 r.2
    (snapshot s2, .ok)

/-- `setValueBase` (setValue: clear = false, clearValue: clear = true). -/
def setValueBits (c u : Nat) : Nat → Frag η → Frag η × Bool
  | 0, s => (s, false)
  | i + 1, s =>
    let r := setValueBits c u i s
    let w := if testBit u i then unprotectedSetBit r.1 (bsiOffsetBit + i) c
             else unprotectedClearBit r.1 (bsiOffsetBit + i) c
    (w.1, r.2 || w.2)

def setValueBase (s : Frag η) (c depth : Nat) (v : Int) (clear : Bool) : Frag η × WOut :=
  let b := setValueBits c v.natAbs depth s
  let e := if clear then unprotectedClearBit b.1 bsiExistsBit c else unprotectedSetBit b.1 bsiExistsBit c
  let g := if v ≥ 0 ∨ clear then unprotectedClearBit e.1 bsiSignBit c else unprotectedSetBit e.1 bsiSignBit c
  (g.1, .changed (b.2 || e.2 || g.2))

/-! ### roaring import -/

/-- `importRoaring`: ImportRoaringBits unions / subtracts the data; rows with a non-zero change
count are invalidated. -/
def importRoaring (s : Frag η) (clear : Bool) (pairs : List (Nat × Nat)) : Frag η × WOut :=
  let data := canon (pairs.map (fun rc => pos rc.1 rc.2))
  let changedPositions := if clear then data.filter (fun p => has p s.bits)
                          else data.filter (fun p => !has p s.bits)
  let bits1 := if clear then (removeN s.bits data).1 else (addN s.bits data).1
  let s1 := invalidateRows { s with bits := bits1 } (changedPositions.map rowOf)
  (incrementOpN s1 changedPositions.length, .ok)

/-! ### reads -/

/-- `unprotectedRow`: row cache, else rowFromStorage + cache fill. -/
def row (s : Frag η) (r : Nat) : Frag η × List Nat :=
  match lookup r s.rowCache with
  | some cols => (s, cols)
  | none =>
    let cols := rowCols s.bits r
    ({ s with rowCache := putKey r cols s.rowCache }, cols)

def bit (s : Frag η) (r c : Nat) : Bool := has (pos r c) s.bits

def valueBits (l : List Nat) (c : Nat) : Nat → Nat
  | 0 => 0
  | i + 1 => valueBits l c i + (if has (pos (bsiOffsetBit + i) c) l then 2 ^ i else 0)

/-- `value`. -/
def value (s : Frag η) (c depth : Nat) : Int × Bool :=
  if !bit s bsiExistsBit c then (0, false)
  else
    let u : Int := valueBits s.bits c depth
    (if bit s bsiSignBit c then -u else u, true)

def forEachBit (s : Frag η) : List (Nat × Nat) := s.bits.map (fun p => (rowOf p, colOf p))

def blockData (s : Frag η) (b : Nat) : List (Nat × Nat) :=
  (bitsOfBlock s.bits b).map (fun p => (rowOf p, colOf p))

/-- `readContiguousChecksums`: cached checksums of blocks b, b+1, ... (fuel bounds the walk by
the size of the cache). -/
def contiguous (sums : List (Nat × η)) : Nat → Nat → List (Nat × η)
  | 0, _ => []
  | fuel + 1, b =>
    match lookup b sums with
    | none => []
    | some h => (b, h) :: contiguous sums fuel (b + 1)

/-- the main loop of `Blocks()`; `rest` = the iterator's remaining values, head = current `v`. -/
def blocksLoop (H : List Nat → η) : Nat → List Nat → List (Nat × η) → List (Nat × η) →
    List (Nat × η) × List (Nat × η)
  | 0, _, sums, acc => (acc, sums)
  | _ + 1, [], sums, acc => (acc, sums)
  | fuel + 1, v :: rest, sums, acc =>
    let b := blockOf v
    match contiguous sums (sums.length + 1) b with
    | [] =>
      let blk := (v :: rest).takeWhile (fun p => blockOf p == b)
      let rest2 := (v :: rest).dropWhile (fun p => blockOf p == b)
      let h := H blk
      blocksLoop H fuel rest2 (putKey b h sums) (acc ++ [(b, h)])
    | cs =>
      let rest2 := (v :: rest).dropWhile (fun p => p < (b + cs.length) * (HBS * SW))
      blocksLoop H fuel rest2 sums (acc ++ cs)

/-- `Blocks()`. -/
def blocks (H : List Nat → η) (s : Frag η) : Frag η × List (Nat × η) :=
  let r := blocksLoop H (s.bits.length + 1) s.bits s.sums []
  ({ s with sums := r.2 }, r.1)

/-- Close + Open of the fragment (restart of the holder / field / view): the storage file is read
back, `Open` starts with an empty row cache and an empty checksum map, and `view.newFragment`
gives the fragment the mutex vector of its field type again — the kind is a property of the
field (persisted in its meta file), not of the open fragment. -/
def reopen (s : Frag η) : Frag η := { s with rowCache := [], sums := [] }

/-- `InvalidateChecksums()`. -/
def invalidateChecksums (s : Frag η) : Frag η := { s with sums := [] }

/-! ### operations and the step function -/

inductive Op
  | setBit (r c : Nat)
  | clearBit (r c : Nat)
  | setRow (r : Nat) (cols : List Nat)
  | clearRow (r : Nat)
  | bulkImport (clear : Bool) (pairs : List (Nat × Nat))
  | importValue (clear : Bool) (depth : Nat) (cvs : List (Nat × Int))
  | importRoaring (clear : Bool) (pairs : List (Nat × Nat))
  | setValue (c depth : Nat) (v : Int)
  | clearValue (c depth : Nat) (v : Int)
  | snapshot
  | reopen
  | invalidateChecksums
  | row (r : Nat)
  | bit (r c : Nat)
  | value (c depth : Nat)
  | rows
  | rowsCol (c : Nat)
  | forEachBit
  | blockData (b : Nat)
  | blocks
  | mutexGet (c : Nat)
deriving Repr

/-- Observable result of one operation. -/
inductive Out (η : Type)
  | w (o : WOut)
  | cols (l : List Nat)
  | bool (b : Bool)
  | val (v : Int) (ex : Bool)
  | rows (l : List Nat)
  | pairs (l : List (Nat × Nat))
  | blocks (l : List (Nat × η))
  | mget (g : MGet)

def step (H : List Nat → η) (s : Frag η) : Op → Frag η × Out η
  | .setBit r c => let x := setBit s r c; (x.1, .w x.2)
  | .clearBit r c => let x := clearBit s r c; (x.1, .w x.2)
  | .setRow r cols => let x := setRow s r cols; (x.1, .w x.2)
  | .clearRow r => let x := clearRow s r; (x.1, .w x.2)
  | .bulkImport clear pairs => let x := bulkImport s clear pairs; (x.1, .w x.2)
  | .importValue clear depth cvs => let x := importValue s clear depth cvs; (x.1, .w x.2)
  | .importRoaring clear pairs => let x := importRoaring s clear pairs; (x.1, .w x.2)
  | .setValue c depth v => let x := setValueBase s c depth v false; (x.1, .w x.2)
  | .clearValue c depth v => let x := setValueBase s c depth v true; (x.1, .w x.2)
  | .snapshot => (snapshot s, .w .ok)
  | .reopen => (reopen s, .w .ok)
  | .invalidateChecksums => (invalidateChecksums s, .w .ok)
  | .row r => let x := row s r; (x.1, .cols x.2)
  | .bit r c => (s, .bool (bit s r c))
  | .value c depth => let x := value s c depth; (s, .val x.1 x.2)
  | .rows => (s, .rows (rowsOf s.bits))
  | .rowsCol c => (s, .rows (rowsWithCol s.bits c))
  | .forEachBit => (s, .pairs (forEachBit s))
  | .blockData b => (s, .pairs (blockData s b))
  | .blocks => let x := blocks H s; (x.1, .blocks x.2)
  | .mutexGet c => (s, .mget (mutexGet s.kind s.bits c))

end PV.C07
