/-
Invariants of the fragment model and the frame lemma every write path is proved with.
Core Lean only.
-/
import PV.C07.LemmasSet
namespace PV.C07
open List

variable {η : Type}

/-- cached rows are what storage holds (`rowCache` coherent). -/
def CacheInv (s : Frag η) : Prop :=
  ∀ r cols, lookup r s.rowCache = some cols → cols = rowCols s.bits r

/-- C10: a cached checksum is the hash of the block's current bits, and the block is not empty. -/
def ChecksumInv (H : List Nat → η) (s : Frag η) : Prop :=
  ∀ b h, lookup b s.sums = some h → h = H (bitsOfBlock s.bits b) ∧ bitsOfBlock s.bits b ≠ []

structure Inv (H : List Nat → η) (s : Frag η) : Prop where
  sorted : Sorted s.bits
  cache : CacheInv s
  sums : ChecksumInv H s

theorem inv_empty (H : List Nat → η) (k : Kind) (m : Nat) : Inv H (Frag.empty k m) :=
  ⟨sorted_nil, by intro r c h; simp [Frag.empty, lookup] at h, by intro b h hh; simp [Frag.empty, lookup] at hh⟩

/-! ### association lists -/

theorem lookup_eraseKey {β : Type} (k k' : Nat) (m : List (Nat × β)) :
    lookup k (eraseKey k' m) = if k = k' then none else lookup k m := by
  induction m with
  | nil => simp [eraseKey, lookup]
  | cons e m ih =>
    obtain ⟨a, v⟩ := e
    simp only [eraseKey, filter_cons] at ih ⊢
    by_cases h : a = k'
    · subst h
      simp only [bne_self_eq_false, Bool.false_eq_true, ↓reduceIte, ih, lookup]
      by_cases h2 : k = a <;> simp [h2]
    · have : (a != k') = true := by simp [h]
      simp only [this, ↓reduceIte, lookup, ih]
      by_cases h2 : k = a
      · subst h2; simp [h]
      · simp [h2]

theorem lookup_putKey {β : Type} (k k' : Nat) (v : β) (m : List (Nat × β)) :
    lookup k (putKey k' v m) = if k = k' then some v else lookup k m := by
  simp only [putKey, lookup, lookup_eraseKey]
  by_cases h : k = k' <;> simp [h]

/-! ### projections of the bookkeeping steps -/

@[simp] theorem snapshot_bits (s : Frag η) : (snapshot s).bits = s.bits := rfl
@[simp] theorem snapshot_rowCache (s : Frag η) : (snapshot s).rowCache = s.rowCache := rfl
@[simp] theorem snapshot_sums (s : Frag η) : (snapshot s).sums = s.sums := rfl
@[simp] theorem snapshot_kind (s : Frag η) : (snapshot s).kind = s.kind := rfl
@[simp] theorem snapshot_maxOpN (s : Frag η) : (snapshot s).maxOpN = s.maxOpN := rfl

@[simp] theorem incrementOpN_bits (s : Frag η) (n : Nat) : (incrementOpN s n).bits = s.bits := by
  unfold incrementOpN; split
  · rfl
  · simp only []; split <;> rfl
@[simp] theorem incrementOpN_rowCache (s : Frag η) (n : Nat) : (incrementOpN s n).rowCache = s.rowCache := by
  unfold incrementOpN; split
  · rfl
  · simp only []; split <;> rfl
@[simp] theorem incrementOpN_sums (s : Frag η) (n : Nat) : (incrementOpN s n).sums = s.sums := by
  unfold incrementOpN; split
  · rfl
  · simp only []; split <;> rfl
@[simp] theorem incrementOpN_kind (s : Frag η) (n : Nat) : (incrementOpN s n).kind = s.kind := by
  unfold incrementOpN; split
  · rfl
  · simp only []; split <;> rfl
@[simp] theorem incrementOpN_maxOpN (s : Frag η) (n : Nat) : (incrementOpN s n).maxOpN = s.maxOpN := by
  unfold incrementOpN; split
  · rfl
  · simp only []; split <;> rfl

@[simp] theorem invalidateRows_bits (s : Frag η) (R : List Nat) : (invalidateRows s R).bits = s.bits := by
  unfold invalidateRows
  induction R generalizing s with
  | nil => rfl
  | cons r R ih => simp only [foldl_cons, ih]; rfl
@[simp] theorem invalidateRows_kind (s : Frag η) (R : List Nat) : (invalidateRows s R).kind = s.kind := by
  unfold invalidateRows
  induction R generalizing s with
  | nil => rfl
  | cons r R ih => simp only [foldl_cons, ih]; rfl
@[simp] theorem invalidateRows_maxOpN (s : Frag η) (R : List Nat) : (invalidateRows s R).maxOpN = s.maxOpN := by
  unfold invalidateRows
  induction R generalizing s with
  | nil => rfl
  | cons r R ih => simp only [foldl_cons, ih]; rfl

theorem lookup_invalidateRows_cache (s : Frag η) (R : List Nat) (r : Nat) (c : List Nat)
    (h : lookup r (invalidateRows s R).rowCache = some c) : lookup r s.rowCache = some c ∧ r ∉ R := by
  unfold invalidateRows at h
  induction R generalizing s with
  | nil => exact ⟨h, by simp⟩
  | cons r' R ih =>
    simp only [foldl_cons] at h
    have := ih _ h
    simp only [invalidateRow, lookup_eraseKey] at this
    by_cases e : r = r'
    · simp [e] at this
    · simp only [e, ↓reduceIte] at this
      exact ⟨this.1, by simp [e, this.2]⟩

theorem lookup_invalidateRows_sums (s : Frag η) (R : List Nat) (b : Nat) (h : η)
    (hh : lookup b (invalidateRows s R).sums = some h) :
    lookup b s.sums = some h ∧ ∀ r ∈ R, r / HBS ≠ b := by
  unfold invalidateRows at hh
  induction R generalizing s with
  | nil => exact ⟨hh, by simp⟩
  | cons r' R ih =>
    simp only [foldl_cons] at hh
    have := ih _ hh
    simp only [invalidateRow, lookup_eraseKey] at this
    by_cases e : b = r' / HBS
    · simp [e] at this
    · simp only [e, ↓reduceIte] at this
      refine ⟨this.1, ?_⟩
      intro r hr
      rcases mem_cons.mp hr with rfl | hr
      · exact fun x => e x.symm
      · exact this.2 r hr

/-- the caches of `invalidateRows` depend on the caches only. -/
theorem invalidateRows_caches_congr (s t : Frag η) (R : List Nat)
    (h1 : s.rowCache = t.rowCache) (h2 : s.sums = t.sums) :
    (invalidateRows s R).rowCache = (invalidateRows t R).rowCache ∧
    (invalidateRows s R).sums = (invalidateRows t R).sums := by
  unfold invalidateRows
  induction R generalizing s t with
  | nil => exact ⟨h1, h2⟩
  | cons r R ih =>
    simp only [foldl_cons]
    apply ih
    · simp [invalidateRow, h1]
    · simp [invalidateRow, h2]

/-! ### the frame relation -/

/-- `s'` is `s` with bit changes confined to the rows `R`, whose cache entries (rows and blocks)
are gone; other cache entries may have been dropped but none was added or altered. -/
structure Frame (s s' : Frag η) (R : List Nat) : Prop where
  cache : ∀ r c, lookup r s'.rowCache = some c → lookup r s.rowCache = some c ∧ r ∉ R
  sums : ∀ b h, lookup b s'.sums = some h → lookup b s.sums = some h ∧ ∀ r ∈ R, r / HBS ≠ b
  bits : ∀ p, rowOf p ∉ R → (p ∈ s.bits ↔ p ∈ s'.bits)

theorem Frame.refl (s : Frag η) : Frame s s [] :=
  ⟨fun _ _ h => ⟨h, by simp⟩, fun _ _ h => ⟨h, by simp⟩, fun _ _ => Iff.rfl⟩

theorem Frame.trans {s s' s'' : Frag η} {R R' : List Nat} (f : Frame s s' R) (g : Frame s' s'' R') :
    Frame s s'' (R ++ R') := by
  refine ⟨?_, ?_, ?_⟩
  · intro r c h
    have h1 := g.cache r c h
    have h2 := f.cache r c h1.1
    exact ⟨h2.1, by simp [h1.2, h2.2]⟩
  · intro b h hh
    have h1 := g.sums b h hh
    have h2 := f.sums b h h1.1
    refine ⟨h2.1, ?_⟩
    intro r hr
    rcases mem_append.mp hr with hr | hr
    · exact h2.2 r hr
    · exact h1.2 r hr
  · intro p hp
    simp only [mem_append, not_or] at hp
    exact (f.bits p hp.1).trans (g.bits p hp.2)

/-- frames where only caches shrink / counters change. -/
theorem Frame.of_same_bits {s s' : Frag η} (hb : s'.bits = s.bits)
    (hc : ∀ r c, lookup r s'.rowCache = some c → lookup r s.rowCache = some c)
    (hs : ∀ b h, lookup b s'.sums = some h → lookup b s.sums = some h) : Frame s s' [] :=
  ⟨fun r c h => ⟨hc r c h, by simp⟩, fun b h hh => ⟨hs b h hh, by simp⟩, fun p _ => by rw [hb]⟩

theorem frame_snapshot (s : Frag η) : Frame s (snapshot s) [] :=
  Frame.of_same_bits rfl (fun _ _ h => h) (fun _ _ h => h)

theorem frame_incrementOpN (s : Frag η) (n : Nat) : Frame s (incrementOpN s n) [] :=
  Frame.of_same_bits (by simp) (fun _ _ h => by simpa using h) (fun _ _ h => by simpa using h)

/-- the invariant survives every framed step. -/
theorem inv_of_frame {H : List Nat → η} {s s' : Frag η} {R : List Nat}
    (hI : Inv H s) (hs' : Sorted s'.bits) (f : Frame s s' R) : Inv H s' := by
  refine ⟨hs', ?_, ?_⟩
  · intro r c h
    have h1 := f.cache r c h
    rw [hI.cache r c h1.1]
    unfold rowCols
    congr 1
    apply filter_congr_sorted hI.sorted hs'
    intro p hp
    have : rowOf p = r := by simpa using hp
    exact f.bits p (this ▸ h1.2)
  · intro b h hh
    have h1 := f.sums b h hh
    have e : bitsOfBlock s.bits b = bitsOfBlock s'.bits b := by
      unfold bitsOfBlock
      apply filter_congr_sorted hI.sorted hs'
      intro p hp
      have hb : blockOf p = b := by simpa using hp
      apply f.bits p
      intro hin
      exact h1.2 _ hin (by rw [← blockOf_eq]; exact hb)
    rw [← e]
    exact hI.sums b h h1.1

/-- general shape of a write: new storage `bits'`, rows `R` invalidated, anything after that
which leaves storage and caches alone. -/
theorem frame_write {s s' : Frag η} (R : List Nat) (bits' : List Nat)
    (hb : s'.bits = bits')
    (hc : s'.rowCache = (invalidateRows s R).rowCache)
    (hs : s'.sums = (invalidateRows s R).sums)
    (hconf : ∀ p, rowOf p ∉ R → (p ∈ s.bits ↔ p ∈ bits')) : Frame s s' R := by
  refine ⟨?_, ?_, ?_⟩
  · intro r c h; rw [hc] at h; exact lookup_invalidateRows_cache s R r c h
  · intro b h hh; rw [hs] at hh; exact lookup_invalidateRows_sums s R b h hh
  · intro p hp; rw [hb]; exact hconf p hp

end PV.C07
