/-
Line-protocol driver shared by pm_c07, pm_c10 and pm_c13.  Two fragments `a` and `b` per case.
The hash parameter is instantiated with the identity (`H l = l`), so "equal checksum" is
"equal list of positions" and a stale checksum shows the stale contents.

Lines (fragment id `a`|`b` is always the second token):
  open <f> <set|mutex|bool> <shard> <ranked|lru|none> <maxopn> <queue 0|1>   -> ok
  openfield <f> <mutex|bool>                                                   -> ok   (fragment of a real Field)
  openholder <f> <mutex|bool> | openserver <f> <mutex|bool>                    -> ok   (field of a real Holder / of an in-process server: PQL + API.Import)
  reopen <f>                                                                   -> ok   (close + open: fragment, field, holder or server restart)
  fclearrow <f> r                                                              -> true|false  (ClearRow through the field's owner)
  setbit <f> r c | clearbit <f> r c | setrow <f> r c,c,.. | clearrow <f> r     -> true|false|err:mutex
  import <f> <clear 0|1> r:c,r:c,..                                            -> ok|err:mutex
  importvalue <f> <clear> <depth> c:v,c:v,..                                   -> ok
  importroaring <f> <clear> r:c,..                                             -> ok
  setvalue <f> c depth v | clearvalue <f> c depth v                            -> true|false
  snapshot <f> | invalidate <f>                                                -> ok
  row <f> r -> [c ..]   bit <f> r c -> bool   value <f> c depth -> "v true"|"0 false"
  rows <f> -> [r ..]    rowscol <f> c -> [r ..]   bits <f> -> r:c r:c ..   blockdata <f> b -> r:c ..
  blocks <f> -> b=[p p ..] b=[..]      mget <f> c -> none|<row>|err:mutex
  cmpblocks -> b:eq|b:ne ..   (Blocks() of a against Blocks() of b, per block id)
  stat <f> -> "<opN> <snapshotsTaken>"  (model only)
  fset <f> r c | fclear <f> r c -> true|false|err:..     fimport <f> <clear> r:c,.. -> ok|err:boolrow
  frow <f> r -> [c ..]                                   (through the Field API)
`#spec` carries Spec.out evaluated on the specification's own state.
-/
import PV.Common.Proto
import PV.C07.Model
import PV.C07.Spec
namespace PV.C07.Driver
open PV.Proto PV.C07

abbrev F := Frag (List Nat)
def H : List Nat → List Nat := id

structure Slot where
  opened : Bool := false
  field : Bool := false
  m : F := Frag.empty .set 10000
  S : Spec.State := []

structure St where
  a : Slot := {}
  b : Slot := {}

def getSlot (st : St) (f : String) : Option Slot :=
  if f = "a" then some st.a else if f = "b" then some st.b else none

def setSlot (st : St) (f : String) (x : Slot) : St :=
  if f = "a" then { st with a := x } else { st with b := x }

def splitNE (s : String) (sep : String) : List String :=
  if s = "" || s = "-" then [] else s.splitOn sep

def parsePair (s : String) : Option (Nat × Nat) :=
  match s.splitOn ":" with
  | [a, b] => do pure (← a.toNat?, ← b.toNat?)
  | _ => none

def parseCV (s : String) : Option (Nat × Int) :=
  match s.splitOn ":" with
  | [a, b] => do pure (← a.toNat?, ← b.toInt?)
  | _ => none

def parsePairs (s : String) : Option (List (Nat × Nat)) := (splitNE s ",").mapM parsePair
def parseCVs (s : String) : Option (List (Nat × Int)) := (splitNE s ",").mapM parseCV

def parseKind (s : String) : Option Kind :=
  if s = "set" then some .set else if s = "mutex" then some .mutex
  else if s = "bool" then some .bool else none

def parseBool01 (s : String) : Option Bool :=
  if s = "0" then some false else if s = "1" then some true else none

def showPairs (l : List (Nat × Nat)) : String :=
  " ".intercalate (l.map (fun rc => s!"{rc.1}:{rc.2}"))

def showBlocks (l : List (Nat × List Nat)) : String :=
  " ".intercalate (l.map (fun bh => s!"{bh.1}={showNats bh.2}"))

def showW : WOut → String
  | .changed b => showBool b
  | .ok => "ok"
  | .errMultiple => "err:mutex"
  | .errNonBool => "err:mutex"

def showMGet : MGet → String
  | .none => "none"
  | .found r => toString r
  | .multiple => "err:mutex"
  | .nonBool => "err:mutex"

def showOut : Out (List Nat) → String
  | .w o => showW o
  | .cols l => showNats l
  | .bool b => showBool b
  | .val v ex => s!"{v} {showBool ex}"
  | .rows l => showNats l
  | .pairs l => showPairs l
  | .blocks l => showBlocks l
  | .mget g => showMGet g

/-- parse an operation line (without the leading fragment id). -/
def parseOp : List String → Option Op
  | ["setbit", r, c] => do pure (.setBit (← r.toNat?) (← c.toNat?))
  | ["clearbit", r, c] => do pure (.clearBit (← r.toNat?) (← c.toNat?))
  | ["setrow", r, cs] => do pure (.setRow (← r.toNat?) (← csvNats? cs))
  | ["clearrow", r] => do pure (.clearRow (← r.toNat?))
  | ["import", cl, ps] => do pure (.bulkImport (← parseBool01 cl) (← parsePairs ps))
  | ["importvalue", cl, d, cvs] => do pure (.importValue (← parseBool01 cl) (← d.toNat?) (← parseCVs cvs))
  | ["importroaring", cl, ps] => do pure (.importRoaring (← parseBool01 cl) (← parsePairs ps))
  | ["setvalue", c, d, v] => do pure (.setValue (← c.toNat?) (← d.toNat?) (← v.toInt?))
  | ["clearvalue", c, d, v] => do pure (.clearValue (← c.toNat?) (← d.toNat?) (← v.toInt?))
  | ["snapshot"] => some .snapshot
  | ["reopen"] => some .reopen
  | ["invalidate"] => some .invalidateChecksums
  | ["row", r] => do pure (.row (← r.toNat?))
  | ["bit", r, c] => do pure (.bit (← r.toNat?) (← c.toNat?))
  | ["value", c, d] => do pure (.value (← c.toNat?) (← d.toNat?))
  | ["rows"] => some .rows
  | ["rowscol", c] => do pure (.rowsCol (← c.toNat?))
  | ["bits"] => some .forEachBit
  | ["blockdata", b] => do pure (.blockData (← b.toNat?))
  | ["blocks"] => some .blocks
  | ["mget", c] => do pure (.mutexGet (← c.toNat?))
  -- Field API entry points: same fragment paths (Field.SetBit -> view.setBit -> fragment.setBit ...)
  | ["fset", r, c] => do pure (.setBit (← r.toNat?) (← c.toNat?))
  | ["fclear", r, c] => do pure (.clearBit (← r.toNat?) (← c.toNat?))
  | ["frow", r] => do pure (.row (← r.toNat?))
  | ["fclearrow", r] => do pure (.clearRow (← r.toNat?))
  | _ => none

/-- run one operation on a slot: model answer, spec answer. -/
def runOp (x : Slot) (op : Op) (tag : String) : Slot × Ans :=
  let r := step H x.m op
  let so := Spec.out H x.m.kind x.S op
  let S' := Spec.stepState x.m.kind x.S op
  ({ x with m := r.1, S := S' }, ans2 (showOut r.2) (showOut so) tag)

def lookupBlock (b : Nat) (l : List (Nat × List Nat)) : Option (List Nat) := lookup b l

def cmpBlocks (la lb : List (Nat × List Nat)) : String :=
  let ids := canon ((la.map (·.1)) ++ (lb.map (·.1)))
  " ".intercalate (ids.map (fun b =>
    let e := match lookupBlock b la, lookupBlock b lb with
      | some x, some y => x == y
      | _, _ => false
    s!"{b}:{if e then "eq" else "ne"}"))

/-- `strict = false` (pm_c10, pm_c13): setRow's `changed` flag — a C07 matter, see the known
finding `setrow-changed-always-true` — is not compared with the specification. -/
def step (strict : Bool) (st : St) (ws : List String) : St × Ans :=
  let bad := (st, ans "bad-op")
  match ws with
  | ["cmpblocks"] =>
    if !(st.a.opened && st.b.opened) then (st, ans "err:closed") else
    let ra := blocks H st.a.m
    let rb := blocks H st.b.m
    let st' := { st with a := { st.a with m := ra.1 }, b := { st.b with m := rb.1 } }
    (st', ans2 (cmpBlocks ra.2 rb.2) (cmpBlocks (Spec.blocks H st.a.S) (Spec.blocks H st.b.S)) "cmpblocks")
  | ["open", f, kind, _shard, _cache, maxopn, _queue] =>
    match getSlot st f, parseKind kind, maxopn.toNat? with
    | some _, some k, some mo =>
      (setSlot st f { opened := true, m := Frag.empty k (if mo = 0 then 10000 else mo), S := [] }, ans "ok")
    | _, _, _ => bad
  | ["openfield", f, kind] | ["openholder", f, kind] | ["openserver", f, kind] =>
    match getSlot st f, parseKind kind with
    | some _, some k =>
      (setSlot st f { opened := true, field := true, m := Frag.empty k 10000, S := [] }, ans "ok")
    | _, _ => bad
  | op :: f :: rest =>
    match getSlot st f with
    | none => bad
    | some x =>
      if !x.opened then (st, ans "err:closed") else
      if (op = "fset" || op = "fclear" || op = "frow" || op = "fimport" || op = "fclearrow") && !x.field then
        (st, ans "err:nofield") else
      if op = "mget" && x.m.kind = .set then (st, ans "err:novector") else
      match op, rest with
      | "stat", [] => (st, ans s!"{x.m.opN} {x.m.snaps}")
      | "fimport", [cl, ps] =>
        match parseBool01 cl, parsePairs ps with
        | some clear, some pairs =>
          -- Field.Import: bool fields accept rows 0 and 1 only; checked before anything is written
          if x.m.kind = .bool ∧ pairs.any (fun rc => rc.1 > 1) then (st, ans "err:boolrow")
          else
            let (x', a) := runOp x (.bulkImport clear pairs) "fimport"
            (setSlot st f x', a)
        | _, _ => bad
      | _, _ =>
        match parseOp (op :: rest) with
        | none => bad
        | some o =>
          let tag := if op = "setrow" then "setrow-changed-always-true" else op
          let (x', a) := runOp x o tag
          let a := if op = "setrow" && !strict then ans a.model else a
          (setSlot st f x', a)
  | _ => bad

def main (strict : Bool) : IO Unit := run ({} : St) (step strict)

end PV.C07.Driver
