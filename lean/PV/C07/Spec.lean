/-
Abstract specification shared by C07 / C10 / C13.  Core Lean only, executable.

The state of a shard is a set of bit positions (a strictly ascending `List Nat` of
`row * ShardWidth + column`).  Every write is described by what it does to that set, every
read by a function of that set, and `changed` by "the set is different afterwards".
For mutex / bool fields the same set is viewed as a map `column -> Option row` (`mview`).
-/
import PV.C07.Model
namespace PV.C07.Spec
open PV.C07

abbrev State := List Nat

def addAll (S : State) (l : List Nat) : State := l.foldl (fun a p => ins p a) S
def delAll (S : State) (l : List Nat) : State := l.foldl (fun a p => del p a) S

/-- set one bit; on a mutex / bool field the column's other rows are cleared first. -/
def setBit (kind : Kind) (S : State) (r c : Nat) : State :=
  if kind = .set then ins (pos r c) S
  else ins (pos r c) (S.filter (fun p => !(colOf p == c % SW && rowOf p != r)))

def clearBit (S : State) (r c : Nat) : State := del (pos r c) S

def setRow (S : State) (r : Nat) (cols : List Nat) : State :=
  addAll (dropRow S r) (cols.map (pos r))

def clearRow (S : State) (r : Nat) : State := dropRow S r

/-- a batch is applied left to right, one bit at a time (so the last entry for a bit / column wins). -/
def bulkImport (kind : Kind) (S : State) (clear : Bool) (pairs : List (Nat × Nat)) : State :=
  if clear then pairs.foldl (fun a rc => clearBit a rc.1 rc.2) S
  else pairs.foldl (fun a rc => setBit kind a rc.1 rc.2) S

/-- write one integer value: the column's exists / sign / value bits become exactly those of `v`
(a clear removes exists and sign and leaves the value bits of `v`). -/
def setValue (S : State) (c depth : Nat) (v : Int) (clear : Bool) : State :=
  let p := positionsForValue c depth v clear
  addAll (delAll S p.2) p.1

def importValue (S : State) (clear : Bool) (depth : Nat) (cvs : List (Nat × Int)) : State :=
  cvs.foldl (fun a cv => setValue a cv.1 depth cv.2 clear) S

def importRoaring (S : State) (clear : Bool) (pairs : List (Nat × Nat)) : State :=
  let data := pairs.map (fun rc => pos rc.1 rc.2)
  if clear then delAll S data else addAll S data

/-- the write part of an operation (reads, snapshots and checksum bookkeeping leave the set alone). -/
def stepState (kind : Kind) (S : State) : Op → State
  | .setBit r c => setBit kind S r c
  | .clearBit r c => clearBit S r c
  | .setRow r cols => setRow S r cols
  | .clearRow r => clearRow S r
  | .bulkImport clear pairs => bulkImport kind S clear pairs
  | .importValue clear depth cvs => importValue S clear depth cvs
  | .importRoaring clear pairs => importRoaring S clear pairs
  | .setValue c depth v => setValue S c depth v false
  | .clearValue c depth v => setValue S c depth v true
  | _ => S

/-- block ids holding data, ascending. -/
def blockIds (S : State) : List Nat := dedup (S.map blockOf)

/-- what `Blocks()` must answer: every non-empty block with the hash of its current bits. -/
def blocks {η : Type} (H : List Nat → η) (S : State) : List (Nat × η) :=
  (blockIds S).map (fun b => (b, H (bitsOfBlock S b)))

def value (S : State) (c depth : Nat) : Int × Bool :=
  if !has (pos bsiExistsBit c) S then (0, false)
  else
    let u : Int := valueBits S c depth
    (if has (pos bsiSignBit c) S then -u else u, true)

/-- mutex / bool view: the value of a column. -/
def mview (S : State) (c : Nat) : Option Nat := (rowsWithCol S c).head?

def mget (S : State) (c : Nat) : MGet :=
  match mview S c with
  | none => .none
  | some r => .found r

/-- the observable result the property prescribes for an operation executed in state `S`
(`S'` = state after the operation). -/
def out {η : Type} (H : List Nat → η) (kind : Kind) (S : State) (op : Op) : Out η :=
  let S' := stepState kind S op
  match op with
  | .setBit _ _ | .clearBit _ _ | .setRow _ _ | .clearRow _
  | .setValue _ _ _ | .clearValue _ _ _ => .w (.changed (S' != S))
  | .bulkImport _ _ | .importValue _ _ _ | .importRoaring _ _ | .snapshot | .reopen | .invalidateChecksums =>
    .w .ok
  | .row r => .cols (rowCols S r)
  | .bit r c => .bool (has (pos r c) S)
  | .value c depth => let x := value S c depth; .val x.1 x.2
  | .rows => .rows (rowsOf S)
  | .rowsCol c => .rows (rowsWithCol S c)
  | .forEachBit => .pairs (S.map (fun p => (rowOf p, colOf p)))
  | .blockData b => .pairs ((bitsOfBlock S b).map (fun p => (rowOf p, colOf p)))
  | .blocks => .blocks (blocks H S)
  | .mutexGet c => .mget (mget S c)

/-! ### mutex / bool fields as a map column -> Option row (C13) -/

abbrev MState := Nat → Option Nat

def mset (m : MState) (r c : Nat) : MState := fun c' => if c' = c % SW then some r else m c'
def mclear (m : MState) (r c : Nat) : MState :=
  fun c' => if c' = c % SW ∧ m c' = some r then none else m c'
def mclearRow (m : MState) (r : Nat) : MState := fun c' => if m c' = some r then none else m c'

/-- last write wins; batches are applied left to right. -/
def mstep (m : MState) : Op → MState
  | .setBit r c => mset m r c
  | .clearBit r c => mclear m r c
  | .clearRow r => mclearRow m r
  | .bulkImport clear pairs =>
    if clear then pairs.foldl (fun a rc => mclear a rc.1 rc.2) m
    else pairs.foldl (fun a rc => mset a rc.1 rc.2) m
  | _ => m

end PV.C07.Spec
