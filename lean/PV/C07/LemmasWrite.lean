/-
Every write path of the fragment model: what it does to the stored set (membership), that it
keeps the storage ascending, and that it is a framed step (bit changes confined to rows whose
cached row / block checksum it drops).  Core Lean only.
-/
import PV.C07.LemmasInv
namespace PV.C07
open List

variable {η : Type}

/-- a framed step, for some set of rows. -/
def Framed (s s' : Frag η) : Prop := ∃ R, Frame s s' R

theorem Framed.refl (s : Frag η) : Framed s s := ⟨[], Frame.refl s⟩
theorem Framed.trans {s s' s'' : Frag η} (f : Framed s s') (g : Framed s' s'') : Framed s s'' := by
  obtain ⟨R, f⟩ := f; obtain ⟨R', g⟩ := g; exact ⟨R ++ R', f.trans g⟩

theorem inv_of_framed {H : List Nat → η} {s s' : Frag η}
    (hI : Inv H s) (hs' : Sorted s'.bits) (f : Framed s s') : Inv H s' := by
  obtain ⟨R, f⟩ := f; exact inv_of_frame hI hs' f

/-! ### single bits -/

theorem usb_has {s : Frag η} {r c : Nat} (h : has (pos r c) s.bits = true) :
    unprotectedSetBit s r c = (s, false) := by
  simp [unprotectedSetBit, h]

theorem usb_not {s : Frag η} {r c : Nat} (h : ¬ has (pos r c) s.bits = true) :
    unprotectedSetBit s r c =
      (let s3 := incrementOpN { s with bits := ins (pos r c) s.bits, sums := eraseKey (r / HBS) s.sums } 1
       ({ s3 with rowCache := eraseKey r s3.rowCache }, true)) := by
  simp [unprotectedSetBit, h]

theorem ucb_has {s : Frag η} {r c : Nat} (h : has (pos r c) s.bits = true) :
    unprotectedClearBit s r c =
      (let s3 := incrementOpN { s with bits := del (pos r c) s.bits, sums := eraseKey (r / HBS) s.sums } 1
       ({ s3 with rowCache := eraseKey r s3.rowCache }, true)) := by
  simp [unprotectedClearBit, h]

theorem ucb_not {s : Frag η} {r c : Nat} (h : ¬ has (pos r c) s.bits = true) :
    unprotectedClearBit s r c = (s, false) := by
  simp [unprotectedClearBit, h]

theorem mem_usb (s : Frag η) (r c x : Nat) :
    x ∈ (unprotectedSetBit s r c).1.bits ↔ x = pos r c ∨ x ∈ s.bits := by
  by_cases h : has (pos r c) s.bits = true
  · rw [usb_has h]
    have := has_iff.mp h
    constructor
    · intro hx; exact Or.inr hx
    · rintro (rfl | hx) <;> assumption
  · rw [usb_not h]; simp [mem_ins]

theorem sorted_usb (s : Frag η) (r c : Nat) (hs : Sorted s.bits) :
    Sorted (unprotectedSetBit s r c).1.bits := by
  by_cases h : has (pos r c) s.bits = true
  · rw [usb_has h]; exact hs
  · rw [usb_not h]; simpa using sorted_ins hs

theorem usb_changed (s : Frag η) (r c : Nat) :
    (unprotectedSetBit s r c).2 = !has (pos r c) s.bits := by
  by_cases h : has (pos r c) s.bits = true
  · rw [usb_has h]; simp [h]
  · rw [usb_not h]; simp [h]

@[simp] theorem usb_kind (s : Frag η) (r c : Nat) : (unprotectedSetBit s r c).1.kind = s.kind := by
  by_cases h : has (pos r c) s.bits = true
  · rw [usb_has h]
  · rw [usb_not h]; simp
@[simp] theorem usb_maxOpN (s : Frag η) (r c : Nat) : (unprotectedSetBit s r c).1.maxOpN = s.maxOpN := by
  by_cases h : has (pos r c) s.bits = true
  · rw [usb_has h]
  · rw [usb_not h]; simp

theorem framed_usb (s : Frag η) (r c : Nat) : Framed s (unprotectedSetBit s r c).1 := by
  by_cases h : has (pos r c) s.bits = true
  · rw [usb_has h]; exact Framed.refl s
  · rw [usb_not h]
    refine ⟨[r], frame_write [r] (ins (pos r c) s.bits) (by simp) (by simp [invalidateRows, invalidateRow])
      (by simp [invalidateRows, invalidateRow]) ?_⟩
    intro p hp
    rw [mem_ins]
    constructor
    · exact Or.inr
    · rintro (rfl | h)
      · simp [rowOf_pos] at hp
      · exact h

theorem mem_ucb (s : Frag η) (r c x : Nat) :
    x ∈ (unprotectedClearBit s r c).1.bits ↔ x ∈ s.bits ∧ x ≠ pos r c := by
  by_cases h : has (pos r c) s.bits = true
  · rw [ucb_has h]; simp [mem_del]
  · rw [ucb_not h]
    have : pos r c ∉ s.bits := by simpa [has] using h
    constructor
    · intro hx; exact ⟨hx, fun e => this (e ▸ hx)⟩
    · exact And.left

theorem sorted_ucb (s : Frag η) (r c : Nat) (hs : Sorted s.bits) :
    Sorted (unprotectedClearBit s r c).1.bits := by
  by_cases h : has (pos r c) s.bits = true
  · rw [ucb_has h]; simpa using sorted_del hs
  · rw [ucb_not h]; exact hs

theorem ucb_changed (s : Frag η) (r c : Nat) :
    (unprotectedClearBit s r c).2 = has (pos r c) s.bits := by
  by_cases h : has (pos r c) s.bits = true
  · rw [ucb_has h]; simp [h]
  · rw [ucb_not h]; simp [h]

@[simp] theorem ucb_kind (s : Frag η) (r c : Nat) : (unprotectedClearBit s r c).1.kind = s.kind := by
  by_cases h : has (pos r c) s.bits = true
  · rw [ucb_has h]; simp
  · rw [ucb_not h]
@[simp] theorem ucb_maxOpN (s : Frag η) (r c : Nat) : (unprotectedClearBit s r c).1.maxOpN = s.maxOpN := by
  by_cases h : has (pos r c) s.bits = true
  · rw [ucb_has h]; simp
  · rw [ucb_not h]

theorem framed_ucb (s : Frag η) (r c : Nat) : Framed s (unprotectedClearBit s r c).1 := by
  by_cases h : has (pos r c) s.bits = true
  · rw [ucb_has h]
    refine ⟨[r], frame_write [r] (del (pos r c) s.bits) (by simp) (by simp [invalidateRows, invalidateRow])
      (by simp [invalidateRows, invalidateRow]) ?_⟩
    intro p hp
    rw [mem_del]
    constructor
    · intro h
      refine ⟨h, ?_⟩
      rintro rfl
      simp [rowOf_pos] at hp
    · exact And.left
  · rw [ucb_not h]; exact Framed.refl s

/-! ### setBit (handleMutex) and clearBit -/

theorem sorted_setBit (s : Frag η) (r c : Nat) (hs : Sorted s.bits) : Sorted (setBit s r c).1.bits := by
  unfold setBit
  split
  · exact sorted_usb s r c hs
  · split
    · exact hs
    · exact hs
    · exact sorted_usb s r c hs
    · split
      · exact sorted_usb _ r c (sorted_ucb s _ c hs)
      · exact sorted_usb s r c hs

theorem framed_setBit (s : Frag η) (r c : Nat) : Framed s (setBit s r c).1 := by
  unfold setBit
  split
  · exact framed_usb s r c
  · split
    · exact Framed.refl s
    · exact Framed.refl s
    · exact framed_usb s r c
    · split
      · exact (framed_ucb s _ c).trans (framed_usb _ r c)
      · exact framed_usb s r c

theorem sorted_clearBit (s : Frag η) (r c : Nat) (hs : Sorted s.bits) : Sorted (clearBit s r c).1.bits :=
  sorted_ucb s r c hs

theorem framed_clearBit (s : Frag η) (r c : Nat) : Framed s (clearBit s r c).1 := framed_ucb s r c

/-! ### whole rows -/

theorem mem_dropRow {l : List Nat} {r x : Nat} : x ∈ dropRow l r ↔ x ∈ l ∧ rowOf x ≠ r := by
  simp [dropRow]

theorem mem_setRow (s : Frag η) (r : Nat) (cols : List Nat) (x : Nat) :
    x ∈ (setRow s r cols).1.bits ↔ (x ∈ s.bits ∧ rowOf x ≠ r) ∨ ∃ c ∈ cols, x = pos r c := by
  simp only [setRow, snapshot_bits, mem_addN, mem_dropRow, mem_map, mem_canon]
  constructor
  · rintro (h | ⟨a, ⟨c, hc, rfl⟩, rfl⟩)
    · exact Or.inl h
    · refine Or.inr ⟨c, hc, ?_⟩
      simp [pos]
  · rintro (h | ⟨c, hc, rfl⟩)
    · exact Or.inl h
    · refine Or.inr ⟨c % SW, ⟨c, hc, rfl⟩, ?_⟩
      simp [pos]

theorem sorted_setRow (s : Frag η) (r : Nat) (cols : List Nat) (hs : Sorted s.bits) :
    Sorted (setRow s r cols).1.bits := by
  simp only [setRow, snapshot_bits]
  exact sorted_addN (sorted_filter _ hs)

theorem framed_setRow (s : Frag η) (r : Nat) (cols : List Nat) : Framed s (setRow s r cols).1 := by
  refine ⟨[r], frame_write [r] (setRow s r cols).1.bits rfl
    (by simp [setRow, invalidateRows, invalidateRow]) (by simp [setRow, invalidateRows, invalidateRow]) ?_⟩
  intro p hp
  rw [mem_setRow]
  have hp' : rowOf p ≠ r := by simpa using hp
  constructor
  · intro h; exact Or.inl ⟨h, hp'⟩
  · rintro (h | ⟨c, _, rfl⟩)
    · exact h.1
    · simp [rowOf_pos] at hp'

theorem dropRow_eq_self {l : List Nat} {r : Nat} (h : rowCols l r = []) : dropRow l r = l := by
  unfold dropRow
  apply filter_eq_self.mpr
  intro a ha
  simp only [rowCols, map_eq_nil_iff, filter_eq_nil_iff] at h
  have := h a ha
  simpa using this

theorem clearRow_bits (s : Frag η) (r : Nat) : (clearRow s r).1.bits = dropRow s.bits r := by
  by_cases h : (rowCols s.bits r).isEmpty = true <;> simp [clearRow, h]

theorem mem_clearRow (s : Frag η) (r x : Nat) :
    x ∈ (clearRow s r).1.bits ↔ x ∈ s.bits ∧ rowOf x ≠ r := by
  rw [clearRow_bits, mem_dropRow]

theorem sorted_clearRow (s : Frag η) (r : Nat) (hs : Sorted s.bits) : Sorted (clearRow s r).1.bits := by
  rw [clearRow_bits]; exact sorted_filter _ hs

theorem framed_clearRow (s : Frag η) (r : Nat) : Framed s (clearRow s r).1 := by
  by_cases h : (rowCols s.bits r).isEmpty = true
  · -- nothing stored in the row: storage unchanged, only the cached row is dropped
    have he : rowCols s.bits r = [] := by simpa using h
    refine ⟨[], Frame.of_same_bits ?_ ?_ ?_⟩
    · simp [clearRow, h, dropRow_eq_self he]
    · intro r' c hc
      simp only [clearRow, h, Bool.not_true, Bool.false_eq_true, ↓reduceIte, snapshot_rowCache,
        lookup_eraseKey] at hc
      split at hc
      · simp at hc
      · exact hc
    · intro b hh hc
      simpa [clearRow, h] using hc
  · refine ⟨[r], frame_write [r] (dropRow s.bits r) (by simp [clearRow, h])
      (by simp [clearRow, h, invalidateRows, invalidateRow]) (by simp [clearRow, h, invalidateRows, invalidateRow]) ?_⟩
    intro p hp
    have hp' : rowOf p ≠ r := by simpa using hp
    simp [mem_dropRow, hp']

/-! ### importPositions and the bulk imports -/

theorem importPositions_bits (s : Frag η) (set clear R : List Nat) :
    (importPositions s set clear R).bits = (removeN (addN s.bits set).1 clear).1 := by
  simp [importPositions]

theorem mem_importPositions (s : Frag η) (set clear R : List Nat) (x : Nat) :
    x ∈ (importPositions s set clear R).bits ↔ (x ∈ s.bits ∨ x ∈ set) ∧ x ∉ clear := by
  rw [importPositions_bits, mem_removeN, mem_addN]

theorem sorted_importPositions (s : Frag η) (set clear R : List Nat) (hs : Sorted s.bits) :
    Sorted (importPositions s set clear R).bits := by
  rw [importPositions_bits]; exact sorted_removeN (sorted_addN hs)

@[simp] theorem importPositions_kind (s : Frag η) (set clear R : List Nat) :
    (importPositions s set clear R).kind = s.kind := by simp [importPositions]
@[simp] theorem importPositions_maxOpN (s : Frag η) (set clear R : List Nat) :
    (importPositions s set clear R).maxOpN = s.maxOpN := by simp [importPositions]

theorem frame_importPositions (s : Frag η) (set clear R : List Nat)
    (hrows : ∀ p, p ∈ set ∨ p ∈ clear → rowOf p ∈ R) : Frame s (importPositions s set clear R) R := by
  have hc := invalidateRows_caches_congr
    (incrementOpN { (incrementOpN { s with bits := (addN s.bits set).1 } (addN s.bits set).2) with
        bits := (removeN (incrementOpN { s with bits := (addN s.bits set).1 } (addN s.bits set).2).bits clear).1 }
      (removeN (incrementOpN { s with bits := (addN s.bits set).1 } (addN s.bits set).2).bits clear).2)
    s R (by simp) (by simp)
  refine frame_write R _ rfl hc.1 hc.2 ?_
  intro p hp
  rw [mem_importPositions]
  constructor
  · intro h
    exact ⟨Or.inl h, fun hc => hp (hrows p (Or.inr hc))⟩
  · rintro ⟨h | h, _⟩
    · exact h
    · exact absurd (hrows p (Or.inl h)) hp

theorem sorted_bulkImportStandard (s : Frag η) (clear : Bool) (pairs : List (Nat × Nat))
    (hs : Sorted s.bits) : Sorted (bulkImportStandard s clear pairs).bits := by
  unfold bulkImportStandard
  split <;> exact sorted_importPositions _ _ _ _ hs

theorem framed_bulkImportStandard (s : Frag η) (clear : Bool) (pairs : List (Nat × Nat)) :
    Framed s (bulkImportStandard s clear pairs) := by
  have key : ∀ p, p ∈ pairs.map (fun rc => pos rc.1 rc.2) → rowOf p ∈ pairs.map (·.1) := by
    intro p hp
    obtain ⟨rc, hrc, rfl⟩ := mem_map.mp hp
    rw [rowOf_pos]; exact mem_map.mpr ⟨rc, hrc, rfl⟩
  unfold bulkImportStandard
  split
  · exact ⟨_, frame_importPositions s [] _ _ (by intro p hp; rcases hp with hp | hp; simp at hp; exact key p hp)⟩
  · exact ⟨_, frame_importPositions s _ [] _ (by intro p hp; rcases hp with hp | hp; exact key p hp; simp at hp)⟩

/-- what `mutexPlan` returns: positions whose rows are all in the returned row list. -/
theorem mutexPlan_rows (kind : Kind) (bits : List Nat) (cs : List (Nat × Nat))
    (sets clears rows : List Nat) (h : mutexPlan kind bits cs = .ok (sets, clears, rows)) :
    ∀ p, p ∈ sets ∨ p ∈ clears → rowOf p ∈ rows := by
  induction cs generalizing sets clears rows with
  | nil =>
    simp only [mutexPlan, Except.ok.injEq, Prod.mk.injEq] at h
    obtain ⟨rfl, rfl, rfl⟩ := h
    intro p hp; simp at hp
  | cons cr cs ih =>
    obtain ⟨c, r⟩ := cr
    simp only [mutexPlan] at h
    split at h
    · cases h
    · cases h
    · rename_i g hg1 hg2
      split at h
      · cases h
      · rename_i sets' clears' rows' hrec
        have ih' := ih sets' clears' rows' hrec
        split at h
        · rename_i e
          split at h
          · simp only [Except.ok.injEq, Prod.mk.injEq] at h
            obtain ⟨rfl, rfl, rfl⟩ := h
            exact ih'
          · simp only [Except.ok.injEq, Prod.mk.injEq] at h
            obtain ⟨rfl, rfl, rfl⟩ := h
            intro p hp
            simp only [mem_cons] at hp ⊢
            rcases hp with (rfl | hp) | (rfl | hp)
            · simp [rowOf_pos]
            · exact Or.inr (Or.inr (ih' p (Or.inl hp)))
            · simp [rowOf_pos]
            · exact Or.inr (Or.inr (ih' p (Or.inr hp)))
        · simp only [Except.ok.injEq, Prod.mk.injEq] at h
          obtain ⟨rfl, rfl, rfl⟩ := h
          intro p hp
          simp only [mem_cons] at hp ⊢
          rcases hp with (rfl | hp) | hp
          · simp [rowOf_pos]
          · exact Or.inr (ih' p (Or.inl hp))
          · exact Or.inr (ih' p (Or.inr hp))

theorem sorted_bulkImport (s : Frag η) (clear : Bool) (pairs : List (Nat × Nat)) (hs : Sorted s.bits) :
    Sorted (bulkImport s clear pairs).1.bits := by
  unfold bulkImport
  split
  · unfold bulkImportMutex
    split
    · exact hs
    · exact hs
    · exact sorted_importPositions _ _ _ _ hs
  · exact sorted_bulkImportStandard s clear pairs hs

theorem framed_bulkImport (s : Frag η) (clear : Bool) (pairs : List (Nat × Nat)) :
    Framed s (bulkImport s clear pairs).1 := by
  unfold bulkImport
  split
  · unfold bulkImportMutex
    split
    · exact Framed.refl s
    · exact Framed.refl s
    · rename_i sets clears rows h
      exact ⟨rows, frame_importPositions s sets clears rows (mutexPlan_rows _ _ _ _ _ _ h)⟩
  · exact framed_bulkImportStandard s clear pairs

end PV.C07
