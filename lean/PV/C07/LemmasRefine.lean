/-
Refinement: for every operation the model's storage after the step is the specification's set
after the step (`step_bits`), and the model's answer is the specification's answer.
Core Lean only.
-/
import PV.C07.LemmasMutex
namespace PV.C07
open List hiding lookup

variable {η : Type}

/-! ### easy paths -/

theorem usb_bits_eq (s : Frag η) (r c : Nat) (hs : Sorted s.bits) :
    (unprotectedSetBit s r c).1.bits = ins (pos r c) s.bits := by
  apply sorted_ext (sorted_usb s r c hs) (sorted_ins hs)
  intro x; rw [mem_usb, mem_ins]

theorem ucb_bits_eq (s : Frag η) (r c : Nat) (hs : Sorted s.bits) :
    (unprotectedClearBit s r c).1.bits = del (pos r c) s.bits := by
  apply sorted_ext (sorted_ucb s r c hs) (sorted_del hs)
  intro x; rw [mem_ucb, mem_del]

theorem setRow_bits_eq (s : Frag η) (r : Nat) (cols : List Nat) (hs : Sorted s.bits) :
    (setRow s r cols).1.bits = Spec.setRow s.bits r cols := by
  have h2 : Sorted (Spec.setRow s.bits r cols) := sorted_addAll (sorted_filter _ hs)
  apply sorted_ext (sorted_setRow s r cols hs) h2
  intro x
  rw [mem_setRow]
  unfold Spec.setRow
  rw [mem_addAll, mem_dropRow, mem_map]
  constructor
  · rintro (h | ⟨c, hc, rfl⟩)
    · exact Or.inl h
    · exact Or.inr ⟨c, hc, rfl⟩
  · rintro (h | ⟨c, hc, rfl⟩)
    · exact Or.inl h
    · exact Or.inr ⟨c, hc, rfl⟩

theorem mem_foldl_ins (ps : List (Nat × Nat)) (S : List Nat) (x : Nat) :
    x ∈ ps.foldl (fun a rc => ins (pos rc.1 rc.2) a) S ↔ x ∈ S ∨ x ∈ ps.map (fun rc => pos rc.1 rc.2) := by
  induction ps generalizing S with
  | nil => simp
  | cons p ps ih =>
    simp only [foldl_cons, ih, mem_ins, map_cons, mem_cons]
    constructor
    · rintro ((h | h) | h) <;> simp [h]
    · rintro (h | h | h) <;> simp [h]

theorem sorted_foldl_ins (ps : List (Nat × Nat)) (S : List Nat) (h : Sorted S) :
    Sorted (ps.foldl (fun a rc => ins (pos rc.1 rc.2) a) S) := by
  induction ps generalizing S with
  | nil => exact h
  | cons p ps ih => exact ih _ (sorted_ins h)

theorem mem_foldl_del (ps : List (Nat × Nat)) (S : List Nat) (x : Nat) :
    x ∈ ps.foldl (fun a rc => del (pos rc.1 rc.2) a) S ↔ x ∈ S ∧ x ∉ ps.map (fun rc => pos rc.1 rc.2) := by
  induction ps generalizing S with
  | nil => simp
  | cons p ps ih =>
    simp only [foldl_cons, ih, mem_del, map_cons, mem_cons, not_or]
    constructor
    · rintro ⟨⟨a, b⟩, c⟩; exact ⟨a, b, c⟩
    · rintro ⟨a, b, c⟩; exact ⟨⟨a, b⟩, c⟩

theorem sorted_foldl_del (ps : List (Nat × Nat)) (S : List Nat) (h : Sorted S) :
    Sorted (ps.foldl (fun a rc => del (pos rc.1 rc.2) a) S) := by
  induction ps generalizing S with
  | nil => exact h
  | cons p ps ih => exact ih _ (sorted_del h)

theorem bulkImportStandard_bits_eq (s : Frag η) (clear : Bool) (pairs : List (Nat × Nat))
    (hs : Sorted s.bits) (hk : clear = true ∨ s.kind = .set) :
    (bulkImportStandard s clear pairs).bits = Spec.bulkImport s.kind s.bits clear pairs := by
  cases clear
  · have hk' : s.kind = .set := by simpa using hk
    simp only [bulkImportStandard, Spec.bulkImport, Bool.false_eq_true, ↓reduceIte, Spec.setBit, hk']
    apply sorted_ext (sorted_importPositions _ _ _ _ hs) (sorted_foldl_ins _ _ hs)
    intro x
    rw [mem_importPositions, mem_foldl_ins]; simp
  · simp only [bulkImportStandard, Spec.bulkImport, ↓reduceIte, Spec.clearBit]
    apply sorted_ext (sorted_importPositions _ _ _ _ hs) (sorted_foldl_del _ _ hs)
    intro x
    rw [mem_importPositions, mem_foldl_del]; simp

theorem importRoaring_bits_eq (s : Frag η) (clear : Bool) (pairs : List (Nat × Nat)) (hs : Sorted s.bits) :
    (importRoaring s clear pairs).1.bits = Spec.importRoaring s.bits clear pairs := by
  have h2 : Sorted (Spec.importRoaring s.bits clear pairs) := by
    unfold Spec.importRoaring; split
    · exact sorted_delAll hs
    · exact sorted_addAll hs
  apply sorted_ext (sorted_importRoaring s clear pairs hs) h2
  intro x
  rw [mem_importRoaring]
  cases clear <;> simp [Spec.importRoaring, mem_addAll, mem_delAll]

theorem setValueBase_bits_eq (s : Frag η) (c depth : Nat) (v : Int) (clear : Bool) (hs : Sorted s.bits) :
    (setValueBase s c depth v clear).1.bits = Spec.setValue s.bits c depth v clear := by
  apply sorted_ext (sorted_setValueBase s c depth v clear hs) (sorted_spec_setValue _ _ _ _ _ hs)
  intro x; rw [mem_setValueBase, mem_spec_setValue]

end PV.C07
