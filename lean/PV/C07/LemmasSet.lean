/-
Lemmas about the storage representation (strictly ascending lists) used by the fragment model.
Core Lean only.
-/
import PV.C07.Model
import PV.C07.Spec
namespace PV.C07
open List

/-- strictly ascending. -/
def Sorted (l : List Nat) : Prop := l.Pairwise (· < ·)

theorem sorted_nil : Sorted [] := Pairwise.nil

theorem has_iff {x : Nat} {l : List Nat} : has x l = true ↔ x ∈ l := by
  simp [has]

theorem has_false_iff {x : Nat} {l : List Nat} : has x l = false ↔ x ∉ l := by
  simp [has]

theorem mem_ins {x y : Nat} {l : List Nat} : y ∈ ins x l ↔ y = x ∨ y ∈ l := by
  induction l with
  | nil => simp [ins]
  | cons z zs ih =>
    simp only [ins]
    split
    · simp
    · split
      · subst_vars; simp
      · simp only [mem_cons, ih]
        constructor
        · rintro (h | h | h) <;> simp [h]
        · rintro (h | h | h) <;> simp [h]

theorem sorted_ins {x : Nat} {l : List Nat} (h : Sorted l) : Sorted (ins x l) := by
  induction l with
  | nil => simp [ins, Sorted]
  | cons z zs ih =>
    simp only [ins]
    have hz := (pairwise_cons.mp h)
    split
    · rename_i hlt
      apply pairwise_cons.mpr
      refine ⟨?_, h⟩
      intro a ha
      rcases mem_cons.mp ha with rfl | ha
      · exact hlt
      · exact Nat.lt_trans hlt (hz.1 a ha)
    · split
      · exact h
      · rename_i h1 h2
        apply pairwise_cons.mpr
        refine ⟨?_, ih hz.2⟩
        intro a ha
        rcases mem_ins.mp ha with rfl | ha
        · omega
        · exact hz.1 a ha

theorem mem_del {x y : Nat} {l : List Nat} : y ∈ del x l ↔ y ∈ l ∧ y ≠ x := by
  simp [del]

theorem sorted_filter {l : List Nat} (P : Nat → Bool) (h : Sorted l) : Sorted (l.filter P) :=
  Pairwise.filter P h

theorem sorted_del {x : Nat} {l : List Nat} (h : Sorted l) : Sorted (del x l) :=
  sorted_filter _ h

/-- two strictly ascending lists with the same members are equal. -/
theorem sorted_ext : ∀ {l₁ l₂ : List Nat}, Sorted l₁ → Sorted l₂ → (∀ x, x ∈ l₁ ↔ x ∈ l₂) → l₁ = l₂
  | [], [], _, _, _ => rfl
  | [], b :: l₂, _, _, h => by have := (h b).mpr (by simp); simp at this
  | a :: l₁, [], _, _, h => by have := (h a).mp (by simp); simp at this
  | a :: l₁, b :: l₂, h₁, h₂, h => by
    have p₁ := pairwise_cons.mp h₁
    have p₂ := pairwise_cons.mp h₂
    have hab : a = b := by
      have ha : a ∈ b :: l₂ := (h a).mp (by simp)
      have hb : b ∈ a :: l₁ := (h b).mpr (by simp)
      rcases mem_cons.mp ha with e | ha'
      · exact e
      · rcases mem_cons.mp hb with e | hb'
        · exact e.symm
        · have := p₂.1 a ha'; have := p₁.1 b hb'; omega
    subst hab
    congr 1
    apply sorted_ext p₁.2 p₂.2
    intro x
    constructor
    · intro hx
      have : x ∈ a :: l₂ := (h x).mp (by simp [hx])
      rcases mem_cons.mp this with e | hx'
      · have := p₁.1 x hx; omega
      · exact hx'
    · intro hx
      have : x ∈ a :: l₁ := (h x).mpr (by simp [hx])
      rcases mem_cons.mp this with e | hx'
      · have := p₂.1 x hx; omega
      · exact hx'

/-- filters of two ascending lists agree when the lists agree on what the filter keeps. -/
theorem filter_congr_sorted {l l' : List Nat} (hs : Sorted l) (hs' : Sorted l') (P : Nat → Bool)
    (h : ∀ p, P p = true → (p ∈ l ↔ p ∈ l')) : l.filter P = l'.filter P := by
  apply sorted_ext (sorted_filter P hs) (sorted_filter P hs')
  intro x
  simp only [mem_filter]
  constructor
  · rintro ⟨a, b⟩; exact ⟨(h x b).mp a, b⟩
  · rintro ⟨a, b⟩; exact ⟨(h x b).mpr a, b⟩

/-! ### addN / removeN / addAll / delAll -/

theorem mem_addN {l ps : List Nat} {x : Nat} : x ∈ (addN l ps).1 ↔ x ∈ l ∨ x ∈ ps := by
  induction ps generalizing l with
  | nil => simp [addN]
  | cons p ps ih =>
    simp only [addN]
    split
    · rename_i hp
      rw [ih]; simp only [mem_cons]
      have := has_iff.mp hp
      constructor
      · rintro (h | h) <;> simp [h]
      · rintro (h | rfl | h) <;> simp_all
    · simp only [ih, mem_ins, mem_cons]
      constructor
      · rintro ((h | h) | h) <;> simp [h]
      · rintro (h | h | h) <;> simp [h]

theorem sorted_addN {l ps : List Nat} (h : Sorted l) : Sorted (addN l ps).1 := by
  induction ps generalizing l with
  | nil => simpa [addN]
  | cons p ps ih =>
    simp only [addN]
    split
    · exact ih h
    · exact ih (sorted_ins h)

theorem mem_removeN {l ps : List Nat} {x : Nat} : x ∈ (removeN l ps).1 ↔ x ∈ l ∧ x ∉ ps := by
  induction ps generalizing l with
  | nil => simp [removeN]
  | cons p ps ih =>
    simp only [removeN]
    split
    · simp only [ih, mem_del, mem_cons, not_or]
      constructor
      · rintro ⟨⟨a, b⟩, c⟩; exact ⟨a, b, c⟩
      · rintro ⟨a, b, c⟩; exact ⟨⟨a, b⟩, c⟩
    · rename_i hp
      have hp' : p ∉ l := by simpa [has] using hp
      simp only [ih, mem_cons, not_or]
      constructor
      · rintro ⟨a, c⟩; exact ⟨a, fun e => hp' (e ▸ a), c⟩
      · rintro ⟨a, _, c⟩; exact ⟨a, c⟩

theorem sorted_removeN {l ps : List Nat} (h : Sorted l) : Sorted (removeN l ps).1 := by
  induction ps generalizing l with
  | nil => simpa [removeN]
  | cons p ps ih =>
    simp only [removeN]
    split
    · exact ih (sorted_del h)
    · exact ih h

theorem mem_addAll {S l : List Nat} {x : Nat} : x ∈ Spec.addAll S l ↔ x ∈ S ∨ x ∈ l := by
  unfold Spec.addAll
  induction l generalizing S with
  | nil => simp
  | cons p ps ih =>
    simp only [foldl_cons, ih, mem_ins, mem_cons]
    constructor
    · rintro ((h | h) | h) <;> simp [h]
    · rintro (h | h | h) <;> simp [h]

theorem sorted_addAll {S l : List Nat} (h : Sorted S) : Sorted (Spec.addAll S l) := by
  unfold Spec.addAll
  induction l generalizing S with
  | nil => simpa
  | cons p ps ih => exact ih (sorted_ins h)

theorem mem_delAll {S l : List Nat} {x : Nat} : x ∈ Spec.delAll S l ↔ x ∈ S ∧ x ∉ l := by
  unfold Spec.delAll
  induction l generalizing S with
  | nil => simp
  | cons p ps ih =>
    simp only [foldl_cons, ih, mem_del, mem_cons, not_or]
    constructor
    · rintro ⟨⟨a, b⟩, c⟩; exact ⟨a, b, c⟩
    · rintro ⟨a, b, c⟩; exact ⟨⟨a, b⟩, c⟩

theorem sorted_delAll {S l : List Nat} (h : Sorted S) : Sorted (Spec.delAll S l) := by
  unfold Spec.delAll
  induction l generalizing S with
  | nil => simpa
  | cons p ps ih => exact ih (sorted_del h)

theorem mem_canon {l : List Nat} {x : Nat} : x ∈ canon l ↔ x ∈ l := by
  have : canon l = Spec.addAll [] l := rfl
  rw [this, mem_addAll]; simp

theorem sorted_canon {l : List Nat} : Sorted (canon l) := by
  have : canon l = Spec.addAll [] l := rfl
  rw [this]; exact sorted_addAll sorted_nil

/-! ### positions -/

theorem SW_pos : 0 < SW := by decide

theorem rowOf_pos (r c : Nat) : rowOf (pos r c) = r := by
  unfold rowOf pos
  have h : c % SW < SW := Nat.mod_lt _ SW_pos
  rw [Nat.mul_comm, Nat.mul_add_div SW_pos, Nat.div_eq_of_lt h]; rfl

theorem colOf_pos (r c : Nat) : colOf (pos r c) = c % SW := by
  unfold colOf pos
  rw [Nat.mul_comm, Nat.mul_add_mod]; exact Nat.mod_mod _ _

theorem pos_rowOf_colOf (p : Nat) : pos (rowOf p) (colOf p) = p := by
  unfold pos rowOf colOf
  rw [Nat.mod_mod, Nat.mul_comm]; exact Nat.div_add_mod p SW

theorem blockOf_eq (p : Nat) : blockOf p = rowOf p / HBS := by
  unfold blockOf rowOf
  rw [Nat.mul_comm, Nat.div_div_eq_div_mul]

theorem pos_inj {r r' c c' : Nat} (h : pos r c = pos r' c') : r = r' ∧ c % SW = c' % SW := by
  have h1 := congrArg rowOf h
  have h2 := congrArg colOf h
  simp only [rowOf_pos, colOf_pos] at h1 h2
  exact ⟨h1, h2⟩

end PV.C07
