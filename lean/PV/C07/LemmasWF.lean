/-
Well-formed fragments, admissible operations, and the three step theorems everything in
PV/C07/Props.lean and PV/C13/Props.lean is a corollary of:
  step_bits  (storage after the step = specification set after the step)
  wf_step    (well-formedness is preserved)
  step_out   (the answer is the specification's answer; setRow's `changed` excepted)
plus the mutex view lemmas (column -> Option row).  Core Lean only.
-/
import PV.C07.LemmasOut
namespace PV.C07
open List hiding lookup

variable {η : Type}

/-- what holds of every reachable fragment. -/
structure WF (H : List Nat → η) (s : Frag η) : Prop where
  inv : Inv H s
  amo : s.kind ≠ .set → AtMostOne s.bits
  bool : BoolOK s.kind s.bits

theorem wf_empty (H : List Nat → η) (k : Kind) (m : Nat) : WF H (Frag.empty k m) :=
  ⟨inv_empty H k m, fun _ c r₁ r₂ h => by simp [Frag.empty] at h, fun _ x hx => by simp [Frag.empty] at hx⟩

/-- operations that reach a mutex / bool fragment (executor.go / api.go: Store and roaring
imports are refused for these field types; integer values live in their own fragments). -/
def mutexOp : Op → Bool
  | .setRow _ _ | .importValue _ _ _ | .importRoaring _ _ | .setValue _ _ _ | .clearValue _ _ _ => false
  | _ => true

/-- bool fields only ever see rows 0 and 1 (PQL translates true/false; Field.Import refuses others). -/
def rowsOK (kind : Kind) : Op → Prop
  | .setBit r _ => kind = .bool → r ≤ 1
  | .bulkImport false pairs => kind = .bool → ∀ rc ∈ pairs, rc.1 ≤ 1
  | _ => True

def isMutexGet : Op → Bool
  | .mutexGet _ => true
  | _ => false

/-- admissible operation for a fragment of this kind. -/
def OpOK (kind : Kind) (op : Op) : Prop :=
  (kind = .set ∧ isMutexGet op = false) ∨ (kind ≠ .set ∧ mutexOp op = true ∧ rowsOK kind op)

/-! ### storage after a step -/

theorem row_bits (s : Frag η) (r : Nat) : (row s r).1.bits = s.bits := by
  unfold row; split <;> rfl

theorem step_bits {H : List Nat → η} {s : Frag η} (hw : WF H s) (op : Op) (hop : OpOK s.kind op) :
    (step H s op).1.bits = Spec.stepState s.kind s.bits op := by
  have hs := hw.inv.sorted
  cases op with
  | setBit r c =>
    by_cases hk : s.kind = .set
    · simp only [step, setBit, hk, ↓reduceIte, Spec.stepState, Spec.setBit]
      exact usb_bits_eq s r c hs
    · exact (setBit_mutex_spec s hk hs (hw.amo hk) hw.bool r c).1
  | clearBit r c => exact ucb_bits_eq s r c hs
  | setRow r cols => exact setRow_bits_eq s r cols hs
  | clearRow r => exact clearRow_bits s r
  | bulkImport clear pairs =>
    simp only [step, bulkImport, Spec.stepState]
    split
    · rename_i h
      have hc : clear = false := by simpa using h.2
      subst hc
      exact (bulkImportMutex_spec s h.1 hs (hw.amo h.1) hw.bool pairs).2
    · rename_i h
      apply bulkImportStandard_bits_eq s clear pairs hs
      by_cases hk : s.kind = .set
      · exact Or.inr hk
      · left
        cases clear
        · exact absurd ⟨hk, by simp⟩ h
        · rfl
  | importValue clear depth cvs =>
    simp only [step, importValue, Spec.stepState]
    split
    · exact importValueSmallWrite_bits_eq s cvs depth clear hs
    · simp only [snapshot_bits, incrementOpN_bits, invalidateRows_bits]
      exact largeLoop_eq_spec _ _ _ _ hs
  | importRoaring clear pairs => exact importRoaring_bits_eq s clear pairs hs
  | setValue c depth v => exact setValueBase_bits_eq s c depth v false hs
  | clearValue c depth v => exact setValueBase_bits_eq s c depth v true hs
  | snapshot => rfl
  | reopen => rfl
  | invalidateChecksums => rfl
  | row r => exact row_bits s r
  | blocks => rfl
  | bit r c => rfl
  | value c depth => rfl
  | rows => rfl
  | rowsCol c => rfl
  | forEachBit => rfl
  | blockData b => rfl
  | mutexGet c => rfl

/-! ### well-formedness is preserved -/

theorem atMostOne_bulk_set {kind : Kind} (hk : kind ≠ .set) : ∀ (pairs : List (Nat × Nat)) (S : List Nat),
    AtMostOne S → AtMostOne (pairs.foldl (fun a rc => Spec.setBit kind a rc.1 rc.2) S)
  | [], _, h => h
  | _ :: rest, _, h => atMostOne_bulk_set hk rest _ (atMostOne_spec_setBit hk h _ _)

theorem boolOK_bulk_set {kind : Kind} (hk : kind ≠ .set) : ∀ (pairs : List (Nat × Nat)) (S : List Nat),
    BoolOK kind S → (kind = .bool → ∀ rc ∈ pairs, rc.1 ≤ 1) →
    BoolOK kind (pairs.foldl (fun a rc => Spec.setBit kind a rc.1 rc.2) S)
  | [], _, h, _ => h
  | rc :: rest, _, h, hr =>
    boolOK_bulk_set hk rest _ (boolOK_spec_setBit hk h _ _ (fun hb => hr hb rc (by simp)))
      (fun hb x hx => hr hb x (by simp [hx]))

theorem spec_step_subset_of_clear (kind : Kind) (S : List Nat) (op : Op)
    (h : match op with
      | .clearBit _ _ | .clearRow _ | .bulkImport true _ => True
      | _ => False) : ∀ x, x ∈ Spec.stepState kind S op → x ∈ S := by
  intro x hx
  match op, h with
  | .clearBit r c, _ => exact (mem_del.mp hx).1
  | .clearRow r, _ => exact (mem_dropRow.mp hx).1
  | .bulkImport true pairs, _ =>
    simp only [Spec.stepState, Spec.bulkImport, ↓reduceIte, Spec.clearBit] at hx
    exact ((mem_foldl_del pairs S x).mp hx).1

theorem wf_step {H : List Nat → η} {s : Frag η} (hw : WF H s) (op : Op) (hop : OpOK s.kind op) :
    WF H (step H s op).1 := by
  have hbits := step_bits hw op hop
  have hkind := step_kind H s op
  refine ⟨inv_step hw.inv op, ?_, ?_⟩
  · rw [hkind, hbits]
    intro hk
    have ha := hw.amo hk
    have hm : mutexOp op = true := by
      rcases hop with ⟨h, _⟩ | ⟨_, h, _⟩
      · exact absurd h hk
      · exact h
    cases op with
    | setBit r c => exact atMostOne_spec_setBit hk ha r c
    | clearBit r c => exact ha.subset (spec_step_subset_of_clear _ _ (.clearBit r c) trivial)
    | clearRow r => exact ha.subset (spec_step_subset_of_clear _ _ (.clearRow r) trivial)
    | bulkImport clear pairs =>
      cases clear
      · simp only [Spec.stepState, Spec.bulkImport, Bool.false_eq_true, ↓reduceIte]
        exact atMostOne_bulk_set hk pairs _ ha
      · exact ha.subset (spec_step_subset_of_clear _ _ (.bulkImport true pairs) trivial)
    | setRow r cols => simp [mutexOp] at hm
    | importValue clear depth cvs => simp [mutexOp] at hm
    | importRoaring clear pairs => simp [mutexOp] at hm
    | setValue c depth v => simp [mutexOp] at hm
    | clearValue c depth v => simp [mutexOp] at hm
    | _ => exact ha
  · rw [hkind, hbits]
    intro hkb
    have hk : s.kind ≠ .set := by rw [hkb]; decide
    have hb := hw.bool
    have hm : mutexOp op = true ∧ rowsOK s.kind op := by
      rcases hop with ⟨h, _⟩ | ⟨_, h⟩
      · exact absurd h hk
      · exact h
    cases op with
    | setBit r c => exact boolOK_spec_setBit hk hb r c hm.2 hkb
    | clearBit r c => exact hb.subset (spec_step_subset_of_clear _ _ (.clearBit r c) trivial) hkb
    | clearRow r => exact hb.subset (spec_step_subset_of_clear _ _ (.clearRow r) trivial) hkb
    | bulkImport clear pairs =>
      cases clear
      · simp only [Spec.stepState, Spec.bulkImport, Bool.false_eq_true, ↓reduceIte]
        exact boolOK_bulk_set hk pairs _ hb hm.2 hkb
      · exact hb.subset (spec_step_subset_of_clear _ _ (.bulkImport true pairs) trivial) hkb
    | setRow r cols => simp [mutexOp] at hm
    | importValue clear depth cvs => simp [mutexOp] at hm
    | importRoaring clear pairs => simp [mutexOp] at hm
    | setValue c depth v => simp [mutexOp] at hm
    | clearValue c depth v => simp [mutexOp] at hm
    | _ => exact hb hkb

/-! ### answers -/

theorem mget_eq {kind : Kind} {S : List Nat} (hs : Sorted S) (ha : AtMostOne S) (hb : BoolOK kind S)
    (c : Nat) : mutexGet kind S c = Spec.mget S c := by
  unfold mutexGet Spec.mget Spec.mview
  have hsr := sorted_rowsWithCol hs c
  match hrows : rowsWithCol S c with
  | [] => rfl
  | [e] =>
    have he : pos e c ∈ S := mem_rowsWithCol.mp (by rw [hrows]; simp)
    have : ¬ (kind = .bool ∧ e > 1) := by
      rintro ⟨hk, hgt⟩
      have := hb hk _ he
      rw [rowOf_pos] at this; omega
    simp [this]
  | a :: b :: t =>
    exfalso
    rw [hrows] at hsr
    have hab : a < b := (pairwise_cons.mp hsr).1 b (by simp)
    have h1 : pos a c ∈ S := mem_rowsWithCol.mp (by rw [hrows]; simp)
    have h2 : pos b c ∈ S := mem_rowsWithCol.mp (by rw [hrows]; simp)
    have := ha c a b h1 h2
    omega

def isSetRow : Op → Bool
  | .setRow _ _ => true
  | _ => false

theorem step_out {H : List Nat → η} {s : Frag η} (hw : WF H s) (op : Op) (hop : OpOK s.kind op)
    (hns : isSetRow op = false) : (step H s op).2 = Spec.out H s.kind s.bits op := by
  have hs := hw.inv.sorted
  cases op with
  | setBit r c =>
    by_cases hk : s.kind = .set
    · simp only [step, setBit, hk, ↓reduceIte, Spec.out, Spec.stepState, Spec.setBit, usb_changed,
        bne_ins hs]
    · simp only [step, Spec.out, Spec.stepState]
      rw [(setBit_mutex_spec s hk hs (hw.amo hk) hw.bool r c).2, bne_spec_setBit_mutex hk hs (hw.amo hk)]
  | clearBit r c =>
    simp only [step, clearBit, Spec.out, Spec.stepState, Spec.clearBit, ucb_changed, bne_del hs]
  | setRow r cols => simp [isSetRow] at hns
  | clearRow r =>
    simp only [step, Spec.out, Spec.stepState, Spec.clearRow, bne_dropRow hs]
    simp [clearRow]
  | bulkImport clear pairs =>
    simp only [step, bulkImport, Spec.out]
    split
    · rename_i h
      rw [(bulkImportMutex_spec s h.1 hs (hw.amo h.1) hw.bool pairs).1]
    · rfl
  | importValue clear depth cvs =>
    simp only [step, importValue, Spec.out]
    split <;> rfl
  | importRoaring clear pairs => rfl
  | setValue c depth v =>
    obtain ⟨b, hb, hiff⟩ := setValueBase_changed s c depth v false
    simp only [step, hb, Spec.out, Spec.stepState]
    congr 2
    rw [Bool.eq_iff_iff, hiff, bne_spec_setValue hs]
  | clearValue c depth v =>
    obtain ⟨b, hb, hiff⟩ := setValueBase_changed s c depth v true
    simp only [step, hb, Spec.out, Spec.stepState]
    congr 2
    rw [Bool.eq_iff_iff, hiff, bne_spec_setValue hs]
  | snapshot => rfl
  | reopen => rfl
  | invalidateChecksums => rfl
  | row r => simp only [step, Spec.out, row_out hw.inv r]
  | blocks => simp only [step, Spec.out, (blocks_spec hw.inv).1]
  | bit r c => rfl
  | value c depth => rfl
  | rows => rfl
  | rowsCol c => rfl
  | forEachBit => rfl
  | blockData b => rfl
  | mutexGet c =>
    rcases hop with ⟨_, h⟩ | ⟨hk, _⟩
    · simp [isMutexGet] at h
    · simp only [step, Spec.out, mget_eq hs (hw.amo hk) hw.bool c]

/-- setRow: the storage is right, the answer is always `changed = true`. -/
theorem setRow_out (H : List Nat → η) (s : Frag η) (r : Nat) (cols : List Nat) :
    (step H s (.setRow r cols)).2 = .w (.changed true) := rfl

/-! ### the mutex view -/

theorem mview_some_iff {S : List Nat} (hs : Sorted S) (ha : AtMostOne S) (c r : Nat) :
    Spec.mview S c = some r ↔ pos r c ∈ S := by
  unfold Spec.mview
  constructor
  · intro h
    apply mem_rowsWithCol.mp
    exact mem_of_mem_head? h
  · intro h
    have hr := mem_rowsWithCol.mpr h
    match hrows : rowsWithCol S c with
    | [] => rw [hrows] at hr; simp at hr
    | e :: t =>
      have he : pos e c ∈ S := mem_rowsWithCol.mp (by rw [hrows]; simp)
      simp [ha c e r he h]

/-- `m` is the mutex view of `S` on the shard's columns. -/
def Agree (m : Spec.MState) (S : List Nat) : Prop := ∀ c, c < SW → m c = Spec.mview S c

theorem agree_set {kind : Kind} (hk : kind ≠ .set) {S : List Nat} (hs : Sorted S) (ha : AtMostOne S)
    {m : Spec.MState} (hm : Agree m S) (r c : Nat) :
    Agree (Spec.mset m r c) (Spec.setBit kind S r c) := by
  intro c' hc'
  have hs' := sorted_spec_setBit kind hs r c
  have ha' := atMostOne_spec_setBit hk ha r c
  have hmod : c' % SW = c' := Nat.mod_eq_of_lt hc'
  apply Option.ext
  intro x
  rw [mview_some_iff hs' ha', mem_spec_setBit_mutex hk, colOf_pos, rowOf_pos, hmod]
  show (if c' = c % SW then some r else m c') = some x ↔ _
  by_cases e : c' = c % SW
  · rw [if_pos e]
    constructor
    · intro h
      have : r = x := Option.some.inj h
      subst this
      left; rw [e, pos_mod]
    · rintro (h | ⟨_, h⟩)
      · rw [(pos_inj h).1]
      · by_cases e2 : x = r
        · rw [e2]
        · exact absurd ⟨e, e2⟩ h
  · rw [if_neg e, hm c' hc', mview_some_iff hs ha]
    constructor
    · intro h; exact Or.inr ⟨h, fun h2 => e h2.1⟩
    · rintro (h | ⟨h, _⟩)
      · exfalso
        have := (pos_inj h).2
        rw [hmod] at this
        exact e this
      · exact h

theorem agree_clear {S : List Nat} (hs : Sorted S) (ha : AtMostOne S)
    {m : Spec.MState} (hm : Agree m S) (r c : Nat) :
    Agree (Spec.mclear m r c) (del (pos r c) S) := by
  intro c' hc'
  have hs' := sorted_del (x := pos r c) hs
  have ha' : AtMostOne (del (pos r c) S) := ha.subset (fun x hx => (mem_del.mp hx).1)
  have hmod : c' % SW = c' := Nat.mod_eq_of_lt hc'
  apply Option.ext
  intro x
  rw [mview_some_iff hs' ha', mem_del]
  show (if c' = c % SW ∧ m c' = some r then none else m c') = some x ↔ _
  rw [hm c' hc']
  by_cases e : c' = c % SW ∧ Spec.mview S c' = some r
  · rw [if_pos e]
    constructor
    · intro h; cases h
    · rintro ⟨hx, hne⟩
      exfalso; apply hne
      have hr := (mview_some_iff hs ha c' r).mp e.2
      have : x = r := ha c' x r hx hr
      rw [this, e.1, pos_mod]
  · rw [if_neg e, mview_some_iff hs ha]
    constructor
    · intro hx
      refine ⟨hx, fun h => e ?_⟩
      have h1 := pos_inj h
      rw [hmod] at h1
      exact ⟨h1.2, by rw [mview_some_iff hs ha, ← h1.1]; exact hx⟩
    · exact And.left

theorem agree_clearRow {S : List Nat} (hs : Sorted S) (ha : AtMostOne S)
    {m : Spec.MState} (hm : Agree m S) (r : Nat) :
    Agree (Spec.mclearRow m r) (dropRow S r) := by
  intro c' hc'
  have hs' : Sorted (dropRow S r) := sorted_filter _ hs
  have ha' : AtMostOne (dropRow S r) := ha.subset (fun x hx => (mem_dropRow.mp hx).1)
  apply Option.ext
  intro x
  rw [mview_some_iff hs' ha', mem_dropRow, rowOf_pos]
  show (if m c' = some r then none else m c') = some x ↔ _
  rw [hm c' hc']
  by_cases e : Spec.mview S c' = some r
  · rw [if_pos e]
    constructor
    · intro h; cases h
    · rintro ⟨hx, hne⟩
      exact absurd (ha c' x r hx ((mview_some_iff hs ha c' r).mp e)) hne
  · rw [if_neg e, mview_some_iff hs ha]
    constructor
    · intro hx
      exact ⟨hx, fun h => e (by rw [mview_some_iff hs ha, ← h]; exact hx)⟩
    · exact And.left

theorem agree_bulk_set {kind : Kind} (hk : kind ≠ .set) : ∀ (pairs : List (Nat × Nat)) (S : List Nat)
    (m : Spec.MState), Sorted S → AtMostOne S → Agree m S →
    Agree (pairs.foldl (fun a rc => Spec.mset a rc.1 rc.2) m)
      (pairs.foldl (fun a rc => Spec.setBit kind a rc.1 rc.2) S)
  | [], _, _, _, _, hm => hm
  | rc :: rest, S, m, hs, ha, hm =>
    agree_bulk_set hk rest _ _ (sorted_spec_setBit kind hs _ _) (atMostOne_spec_setBit hk ha _ _)
      (agree_set hk hs ha hm rc.1 rc.2)

theorem agree_bulk_clear : ∀ (pairs : List (Nat × Nat)) (S : List Nat)
    (m : Spec.MState), Sorted S → AtMostOne S → Agree m S →
    Agree (pairs.foldl (fun a rc => Spec.mclear a rc.1 rc.2) m)
      (pairs.foldl (fun a rc => Spec.clearBit a rc.1 rc.2) S)
  | [], _, _, _, _, hm => hm
  | rc :: rest, S, m, hs, ha, hm =>
    agree_bulk_clear rest _ _ (sorted_del hs) (ha.subset (fun x hx => (mem_del.mp hx).1))
      (agree_clear hs ha hm rc.1 rc.2)

/-- the mutex view of the specification state follows `mstep` (last write wins). -/
theorem agree_step {kind : Kind} (hk : kind ≠ .set) {S : List Nat} (hs : Sorted S) (ha : AtMostOne S)
    {m : Spec.MState} (hm : Agree m S) (op : Op) (hop : mutexOp op = true) :
    Agree (Spec.mstep m op) (Spec.stepState kind S op) := by
  cases op with
  | setBit r c => exact agree_set hk hs ha hm r c
  | clearBit r c => exact agree_clear hs ha hm r c
  | clearRow r => exact agree_clearRow hs ha hm r
  | bulkImport clear pairs =>
    cases clear
    · simp only [Spec.mstep, Spec.stepState, Spec.bulkImport, Bool.false_eq_true, ↓reduceIte]
      exact agree_bulk_set hk pairs S m hs ha hm
    · simp only [Spec.mstep, Spec.stepState, Spec.bulkImport, ↓reduceIte]
      exact agree_bulk_clear pairs S m hs ha hm
  | setRow r cols => simp [mutexOp] at hop
  | importValue clear depth cvs => simp [mutexOp] at hop
  | importRoaring clear pairs => simp [mutexOp] at hop
  | setValue c depth v => simp [mutexOp] at hop
  | clearValue c depth v => simp [mutexOp] at hop
  | _ => exact hm

/-! ### histories -/

/-- the model's answer is acceptable: the specification's, or setRow's constant `changed = true`
(known finding `setrow-changed-always-true`). -/
def outOK (op : Op) (m sp : Out η) : Prop := m = sp ∨ (isSetRow op = true ∧ m = .w (.changed true))

/-- answers along a history, model state `s` against specification state `S`. -/
def HistOK (H : List Nat → η) (kind : Kind) : Frag η → List Nat → List Op → Prop
  | _, _, [] => True
  | s, S, op :: ops =>
    outOK op (step H s op).2 (Spec.out H kind S op) ∧
    HistOK H kind (step H s op).1 (Spec.stepState kind S op) ops

def AllOK (kind : Kind) (ops : List Op) : Prop := ∀ op ∈ ops, OpOK kind op

theorem run_kind (H : List Nat → η) (s : Frag η) (ops : List Op) : (run H s ops).kind = s.kind := by
  induction ops generalizing s with
  | nil => rfl
  | cons op ops ih => simp only [run, ih, step_kind]

theorem history {H : List Nat → η} : ∀ (ops : List Op) (s : Frag η), WF H s → AllOK s.kind ops →
    HistOK H s.kind s s.bits ops ∧
    (run H s ops).bits = ops.foldl (Spec.stepState s.kind) s.bits ∧ WF H (run H s ops)
  | [], s, hw, _ => ⟨trivial, rfl, hw⟩
  | op :: ops, s, hw, hall => by
    have hop : OpOK s.kind op := hall op (by simp)
    have hk := step_kind H s op
    have hb := step_bits hw op hop
    have ih := history ops (step H s op).1 (wf_step hw op hop)
      (by rw [hk]; exact fun o ho => hall o (by simp [ho]))
    rw [hk, hb] at ih
    refine ⟨⟨?_, ih.1⟩, ?_, ih.2.2⟩
    · by_cases hsr : isSetRow op = true
      · right
        refine ⟨hsr, ?_⟩
        cases op <;> simp [isSetRow] at hsr
        rfl
      · left
        exact step_out hw op hop (by simpa using hsr)
    · simp only [run, foldl_cons]
      exact ih.2.1

theorem foldl_mset (pairs : List (Nat × Nat)) (m : Spec.MState) (c : Nat) :
    (pairs.foldl (fun a rc => Spec.mset a rc.1 rc.2) m) c =
      match lastRowOf pairs c with
      | some r => some r
      | none => m c := by
  induction pairs generalizing m with
  | nil => rfl
  | cons rc rest ih =>
    obtain ⟨r, c'⟩ := rc
    simp only [foldl_cons, ih, lastRowOf]
    cases lastRowOf rest c with
    | some r' => rfl
    | none =>
      simp only [Spec.mset]
      by_cases e : c' % SW = c
      · simp [e]
      · have : ¬ c = c' % SW := fun h => e h.symm
        simp [e, this]

/-- read operations. -/
def isRead : Op → Bool
  | .row _ | .bit _ _ | .value _ _ | .rows | .rowsCol _ | .forEachBit | .blockData _ | .blocks
  | .mutexGet _ => true
  | _ => false


/-- a mixed history used in non-vacuity examples. -/
def exOps : List Op :=
  [.setBit 0 1, .importValue false 2 [(3, -2), (3, 1)], .row 0, .blocks, .snapshot,
   .importRoaring true [(0, 1)], .setRow 150 [5, 6], .clearRow 150, .bulkImport false [(1, 7), (2, 7)],
   .setValue 4 2 3, .clearValue 4 2 3, .rows, .forEachBit]


end PV.C07
