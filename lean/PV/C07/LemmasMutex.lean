/-
Mutex / bool fragments: at most one row per column, mutexVector.Get, bulkImportMutex's plan
(colSet + per-column lookup against the pre-batch storage) against "apply the batch left to
right".  Core Lean only.
-/
import PV.C07.LemmasStep
namespace PV.C07
open List hiding lookup

variable {η : Type}

/-- C13: no column holds two rows. -/
def AtMostOne (bits : List Nat) : Prop :=
  ∀ c r₁ r₂, pos r₁ c ∈ bits → pos r₂ c ∈ bits → r₁ = r₂

/-- a bool fragment only holds rows 0 and 1. -/
def BoolOK (kind : Kind) (bits : List Nat) : Prop := kind = .bool → ∀ x ∈ bits, rowOf x ≤ 1

theorem AtMostOne.subset {S S' : List Nat} (h : AtMostOne S) (hsub : ∀ x, x ∈ S' → x ∈ S) : AtMostOne S' :=
  fun c r₁ r₂ h₁ h₂ => h c r₁ r₂ (hsub _ h₁) (hsub _ h₂)

theorem BoolOK.subset {k : Kind} {S S' : List Nat} (h : BoolOK k S) (hsub : ∀ x, x ∈ S' → x ∈ S) : BoolOK k S' :=
  fun hk x hx => h hk x (hsub x hx)

theorem pos_mod (r c : Nat) : pos r (c % SW) = pos r c := by simp [pos]

theorem eq_pos_of {x r c : Nat} (h1 : rowOf x = r) (h2 : colOf x = c % SW) : x = pos r c := by
  rw [← pos_rowOf_colOf x, h1, h2, pos_mod]

theorem mem_rowsWithCol {bits : List Nat} {c r : Nat} : r ∈ rowsWithCol bits c ↔ pos r c ∈ bits := by
  simp only [rowsWithCol, mem_map, mem_filter, beq_iff_eq]
  constructor
  · rintro ⟨p, ⟨hp, hc⟩, rfl⟩
    rw [← eq_pos_of rfl hc]; exact hp
  · intro h
    exact ⟨pos r c, ⟨h, colOf_pos r c⟩, rowOf_pos r c⟩

theorem colOf_lt (p : Nat) : colOf p < SW := Nat.mod_lt _ SW_pos

theorem sorted_rowsWithCol {bits : List Nat} (hs : Sorted bits) (c : Nat) : Sorted (rowsWithCol bits c) := by
  unfold rowsWithCol
  apply pairwise_map.mpr
  have hf : (bits.filter (fun p => colOf p == c % SW)).Pairwise (fun a b => a < b ∧ colOf a = colOf b) := by
    have h1 := sorted_filter (fun p => colOf p == c % SW) hs
    apply Pairwise.imp_of_mem (R := (· < ·)) _ h1
    intro a b ha hb hab
    have ha' := (mem_filter.mp ha).2
    have hb' := (mem_filter.mp hb).2
    simp only [beq_iff_eq] at ha' hb'
    exact ⟨hab, by rw [ha', hb']⟩
  apply hf.imp
  rintro a b ⟨hab, hc⟩
  unfold rowOf
  unfold colOf at hc
  have ha := Nat.div_add_mod a SW
  have hb := Nat.div_add_mod b SW
  by_cases h : a / SW < b / SW
  · exact h
  · exfalso
    have hle : b / SW ≤ a / SW := Nat.le_of_not_lt h
    have := Nat.mul_le_mul_left SW hle
    omega

/-- `mutexVector.Get` on a well-formed mutex / bool fragment: none or the single row. -/
theorem mutexGet_spec {kind : Kind} {bits : List Nat} (hs : Sorted bits) (ha : AtMostOne bits)
    (hb : BoolOK kind bits) (c : Nat) :
    (mutexGet kind bits c = .none ∧ ∀ r, pos r c ∉ bits) ∨
    (∃ e, mutexGet kind bits c = .found e ∧ pos e c ∈ bits) := by
  unfold mutexGet
  have hsr := sorted_rowsWithCol hs c
  match hrows : rowsWithCol bits c with
  | [] =>
    left
    refine ⟨rfl, fun r hr => ?_⟩
    have := mem_rowsWithCol.mpr hr
    rw [hrows] at this; simp at this
  | [e] =>
    right
    have he : pos e c ∈ bits := mem_rowsWithCol.mp (by rw [hrows]; simp)
    refine ⟨e, ?_, he⟩
    have : ¬ (kind = .bool ∧ e > 1) := by
      rintro ⟨hk, hgt⟩
      have := hb hk _ he
      rw [rowOf_pos] at this; omega
    simp [this]
  | a :: b :: t =>
    exfalso
    rw [hrows] at hsr
    have hab : a < b := (pairwise_cons.mp hsr).1 b (by simp)
    have h1 : pos a c ∈ bits := mem_rowsWithCol.mp (by rw [hrows]; simp)
    have h2 : pos b c ∈ bits := mem_rowsWithCol.mp (by rw [hrows]; simp)
    have := ha c a b h1 h2
    omega

/-! ### a single set on a mutex / bool fragment -/

theorem mem_spec_setBit_mutex {kind : Kind} (hk : kind ≠ .set) (S : List Nat) (r c x : Nat) :
    x ∈ Spec.setBit kind S r c ↔ x = pos r c ∨ (x ∈ S ∧ ¬ (colOf x = c % SW ∧ rowOf x ≠ r)) := by
  simp only [Spec.setBit, hk, ↓reduceIte, mem_ins, mem_filter]
  by_cases h1 : colOf x = c % SW <;> by_cases h2 : rowOf x = r <;> simp [h1, h2]

theorem sorted_spec_setBit (kind : Kind) {S : List Nat} (hs : Sorted S) (r c : Nat) :
    Sorted (Spec.setBit kind S r c) := by
  unfold Spec.setBit
  split
  · exact sorted_ins hs
  · exact sorted_ins (sorted_filter _ hs)

theorem atMostOne_spec_setBit {kind : Kind} (hk : kind ≠ .set) {S : List Nat} (ha : AtMostOne S) (r c : Nat) :
    AtMostOne (Spec.setBit kind S r c) := by
  intro c' r₁ r₂ h₁ h₂
  rw [mem_spec_setBit_mutex hk] at h₁ h₂
  by_cases hc : c' % SW = c % SW
  · have f : ∀ r', (pos r' c' = pos r c ∨ (pos r' c' ∈ S ∧ ¬ (colOf (pos r' c') = c % SW ∧ rowOf (pos r' c') ≠ r))) → r' = r := by
      intro r' h
      rcases h with h | ⟨_, h⟩
      · exact (pos_inj h).1
      · rw [colOf_pos, rowOf_pos] at h
        by_cases e : r' = r
        · exact e
        · exact absurd ⟨hc, e⟩ h
    rw [f r₁ h₁, f r₂ h₂]
  · have f : ∀ r', (pos r' c' = pos r c ∨ (pos r' c' ∈ S ∧ ¬ (colOf (pos r' c') = c % SW ∧ rowOf (pos r' c') ≠ r))) → pos r' c' ∈ S := by
      intro r' h
      rcases h with h | ⟨h, _⟩
      · exact absurd (pos_inj h).2 hc
      · exact h
    exact ha c' r₁ r₂ (f r₁ h₁) (f r₂ h₂)

theorem boolOK_spec_setBit {kind : Kind} (hk : kind ≠ .set) {S : List Nat} (hb : BoolOK kind S) (r c : Nat)
    (hr : kind = .bool → r ≤ 1) : BoolOK kind (Spec.setBit kind S r c) := by
  intro hkb x hx
  rw [mem_spec_setBit_mutex hk] at hx
  rcases hx with rfl | ⟨hx, _⟩
  · rw [rowOf_pos]; exact hr hkb
  · exact hb hkb x hx

/-- `setBit` with handleMutex does what the specification says (no error on well-formed fragments). -/
theorem setBit_mutex_spec (s : Frag η) (hk : s.kind ≠ .set) (hs : Sorted s.bits) (ha : AtMostOne s.bits)
    (hb : BoolOK s.kind s.bits) (r c : Nat) :
    (setBit s r c).1.bits = Spec.setBit s.kind s.bits r c ∧
    (setBit s r c).2 = .changed (!has (pos r c) s.bits) := by
  have hsort := sorted_setBit s r c hs
  have key : ∀ x, x ∈ (setBit s r c).1.bits ↔ x ∈ Spec.setBit s.kind s.bits r c := by
    intro x
    rw [mem_spec_setBit_mutex hk]
    rcases mutexGet_spec hs ha hb c with ⟨hg, hnone⟩ | ⟨e, hg, he⟩
    · simp only [setBit, hk, ↓reduceIte, hg, mem_usb]
      constructor
      · rintro (h | h)
        · exact Or.inl h
        · refine Or.inr ⟨h, ?_⟩
          rintro ⟨h1, _⟩
          exact hnone (rowOf x) (by rw [← eq_pos_of rfl h1]; exact h)
      · rintro (h | ⟨h, _⟩)
        · exact Or.inl h
        · exact Or.inr h
    · by_cases her : e = r
      · subst her
        simp only [setBit, hk, ↓reduceIte, hg, ne_eq, not_true_eq_false, mem_usb]
        constructor
        · rintro (h | h)
          · exact Or.inl h
          · refine Or.inr ⟨h, ?_⟩
            rintro ⟨h1, h2⟩
            have hx : x = pos (rowOf x) c := eq_pos_of rfl h1
            exact h2 (ha c _ _ (hx ▸ h) he)
        · rintro (h | ⟨h, _⟩)
          · exact Or.inl h
          · exact Or.inr h
      · simp only [setBit, hk, ↓reduceIte, hg, ne_eq, her, not_false_eq_true, mem_usb, mem_ucb]
        constructor
        · rintro (h | ⟨h, hne⟩)
          · exact Or.inl h
          · refine Or.inr ⟨h, ?_⟩
            rintro ⟨h1, _⟩
            have hx : x = pos (rowOf x) c := eq_pos_of rfl h1
            have : rowOf x = e := ha c _ _ (hx ▸ h) he
            exact hne (by rw [hx, this])
        · rintro (h | ⟨h, hn⟩)
          · exact Or.inl h
          · refine Or.inr ⟨h, ?_⟩
            rintro rfl
            exact hn ⟨colOf_pos e c, by rw [rowOf_pos]; exact her⟩
  refine ⟨sorted_ext hsort (sorted_spec_setBit _ hs r c) key, ?_⟩
  rcases mutexGet_spec hs ha hb c with ⟨hg, hnone⟩ | ⟨e, hg, he⟩
  · simp only [setBit, hk, ↓reduceIte, hg, usb_changed]
  · by_cases her : e = r
    · subst her
      simp only [setBit, hk, ↓reduceIte, hg, ne_eq, not_true_eq_false, usb_changed]
    · simp only [setBit, hk, ↓reduceIte, hg, ne_eq, her, not_false_eq_true, usb_changed]
      congr 2
      have hne : pos r c ≠ pos e c := fun h => her (pos_inj h).1.symm
      have : pos r c ∈ (unprotectedClearBit s e c).1.bits ↔ pos r c ∈ s.bits := by
        rw [mem_ucb]; exact ⟨And.left, fun h => ⟨h, hne⟩⟩
      rw [Bool.eq_iff_iff, has_iff, has_iff]; exact this

/-! ### the batch: colSet and the plan -/

/-- row of the last entry of the batch for column `k` (a column offset `< SW`). -/
def lastRowOf : List (Nat × Nat) → Nat → Option Nat
  | [], _ => none
  | (r, c) :: rest, k =>
    match lastRowOf rest k with
    | some r' => some r'
    | none => if c % SW = k then some r else none

/-- keys pairwise different. -/
def KeysNodup {β : Type} (m : List (Nat × β)) : Prop := (m.map (·.1)).Nodup

theorem mem_eraseKey {β : Type} {k : Nat} {m : List (Nat × β)} {e : Nat × β} :
    e ∈ eraseKey k m ↔ e ∈ m ∧ e.1 ≠ k := by simp [eraseKey]

theorem keysNodup_eraseKey {β : Type} (k : Nat) {m : List (Nat × β)} (h : KeysNodup m) :
    KeysNodup (eraseKey k m) := by
  unfold KeysNodup eraseKey at *
  exact (h.sublist (Sublist.map _ (filter_sublist (l := m))))

theorem keysNodup_putKey {β : Type} (k : Nat) (v : β) {m : List (Nat × β)} (h : KeysNodup m) :
    KeysNodup (putKey k v m) := by
  unfold KeysNodup putKey
  simp only [map_cons, nodup_cons]
  refine ⟨?_, keysNodup_eraseKey k h⟩
  intro hk
  obtain ⟨e, he, hek⟩ := mem_map.mp hk
  exact (mem_eraseKey.mp he).2 hek

theorem mem_iff_lookup {β : Type} {m : List (Nat × β)} (h : KeysNodup m) (k : Nat) (v : β) :
    (k, v) ∈ m ↔ lookup k m = some v := by
  induction m with
  | nil => simp [lookup]
  | cons e m ih =>
    obtain ⟨k', v'⟩ := e
    have hn : k' ∉ m.map (·.1) ∧ KeysNodup m := by
      simpa [KeysNodup] using h
    simp only [mem_cons, Prod.mk.injEq, lookup]
    by_cases hk : k = k'
    · subst hk
      simp only [true_and, ↓reduceIte, Option.some.injEq]
      constructor
      · rintro (h1 | h1)
        · exact h1.symm
        · exact absurd (mem_map.mpr ⟨(k, v), h1, rfl⟩) hn.1
      · intro h1; exact Or.inl h1.symm
    · simp only [hk, false_and, false_or, ↓reduceIte]
      exact ih hn.2

theorem colSetOf_spec : ∀ (pairs acc : List (Nat × Nat)), KeysNodup acc → (∀ e ∈ acc, e.1 < SW) →
    KeysNodup (colSetOf acc pairs) ∧ (∀ e ∈ colSetOf acc pairs, e.1 < SW) ∧
    ∀ k, lookup k (colSetOf acc pairs) = match lastRowOf pairs k with
      | some r => some r
      | none => lookup k acc
  | [], acc, hn, hlt => ⟨hn, hlt, fun k => by simp [colSetOf, lastRowOf]⟩
  | (r, c) :: rest, acc, hn, hlt => by
    have hlt' : ∀ e ∈ putKey (c % SW) r acc, e.1 < SW := by
      intro e he
      rcases mem_cons.mp he with rfl | he
      · exact Nat.mod_lt _ SW_pos
      · exact hlt e (mem_eraseKey.mp he).1
    have ih := colSetOf_spec rest (putKey (c % SW) r acc) (keysNodup_putKey _ _ hn) hlt'
    refine ⟨ih.1, ih.2.1, ?_⟩
    intro k
    simp only [colSetOf, lastRowOf]
    rw [ih.2.2 k]
    cases lastRowOf rest k with
    | some r' => rfl
    | none =>
      simp only [lookup_putKey]
      by_cases hk : c % SW = k
      · simp [hk]
      · have : ¬ k = c % SW := fun h => hk h.symm
        simp [hk, this]

/-- the plan, on a well-formed fragment: never an error; positions to set / clear. -/
theorem mutexPlan_spec {kind : Kind} {bits : List Nat} (hs : Sorted bits) (ha : AtMostOne bits)
    (hb : BoolOK kind bits) : ∀ (cs : List (Nat × Nat)),
    ∃ sets clears rows, mutexPlan kind bits cs = .ok (sets, clears, rows) ∧
      (∀ x, x ∈ sets ↔ ∃ c r, (c, r) ∈ cs ∧ x = pos r c ∧ pos r c ∉ bits) ∧
      (∀ x, x ∈ clears ↔ ∃ c r e, (c, r) ∈ cs ∧ x = pos e c ∧ pos e c ∈ bits ∧ e ≠ r)
  | [] => ⟨[], [], [], rfl, by simp, by simp⟩
  | (c, r) :: cs => by
    obtain ⟨sets, clears, rows, hplan, hsets, hclears⟩ := mutexPlan_spec hs ha hb cs
    -- what this entry contributes
    have hset1 : ∀ x, (∃ c' r', ((c', r') = (c, r) ∨ (c', r') ∈ cs) ∧ x = pos r' c' ∧ pos r' c' ∉ bits) ↔
        ((x = pos r c ∧ pos r c ∉ bits) ∨ x ∈ sets) := by
      intro x
      rw [hsets]
      constructor
      · rintro ⟨c', r', h1 | h1, h2, h3⟩
        · simp only [Prod.mk.injEq] at h1
          rw [h1.1, h1.2] at h2 h3
          exact Or.inl ⟨h2, h3⟩
        · exact Or.inr ⟨c', r', h1, h2, h3⟩
      · rintro (⟨h2, h3⟩ | ⟨c', r', h1, h2, h3⟩)
        · exact ⟨c, r, Or.inl rfl, h2, h3⟩
        · exact ⟨c', r', Or.inr h1, h2, h3⟩
    have hclr1 : ∀ x, (∃ c' r' e', ((c', r') = (c, r) ∨ (c', r') ∈ cs) ∧ x = pos e' c' ∧ pos e' c' ∈ bits ∧ e' ≠ r') ↔
        ((∃ e', x = pos e' c ∧ pos e' c ∈ bits ∧ e' ≠ r) ∨ x ∈ clears) := by
      intro x
      rw [hclears]
      constructor
      · rintro ⟨c', r', e', h1 | h1, h2, h3, h4⟩
        · simp only [Prod.mk.injEq] at h1
          rw [h1.1] at h2 h3
          rw [h1.2] at h4
          exact Or.inl ⟨e', h2, h3, h4⟩
        · exact Or.inr ⟨c', r', e', h1, h2, h3, h4⟩
      · rintro (⟨e', h2, h3, h4⟩ | ⟨c', r', e', h1, h2, h3, h4⟩)
        · exact ⟨c, r, e', Or.inl rfl, h2, h3, h4⟩
        · exact ⟨c', r', e', Or.inr h1, h2, h3, h4⟩
    rcases mutexGet_spec hs ha hb c with ⟨hg, hnone⟩ | ⟨e, hg, he⟩
    · refine ⟨pos r c :: sets, clears, r :: rows, by simp [mutexPlan, hg, hplan], ?_, ?_⟩
      · intro x
        simp only [mem_cons, hset1]
        constructor
        · rintro (h | h)
          · exact Or.inl ⟨h, hnone r⟩
          · exact Or.inr h
        · rintro (⟨h, _⟩ | h)
          · exact Or.inl h
          · exact Or.inr h
      · intro x
        simp only [mem_cons, hclr1]
        constructor
        · exact Or.inr
        · rintro (⟨e', _, h3, _⟩ | h)
          · exact absurd h3 (hnone e')
          · exact h
    · by_cases her : e = r
      · have he' : pos r c ∈ bits := her ▸ he
        refine ⟨sets, clears, rows, by simp [mutexPlan, hg, hplan, her], ?_, ?_⟩
        · intro x
          simp only [mem_cons, hset1]
          constructor
          · exact Or.inr
          · rintro (⟨_, h3⟩ | h)
            · exact absurd he' h3
            · exact h
        · intro x
          simp only [mem_cons, hclr1]
          constructor
          · exact Or.inr
          · rintro (⟨e', _, h3, h4⟩ | h)
            · exact absurd (ha c e' r h3 he') h4
            · exact h
      · have hrn : pos r c ∉ bits := fun h => her (ha c e r he h)
        refine ⟨pos r c :: sets, pos e c :: clears, e :: r :: rows, by simp [mutexPlan, hg, hplan, her], ?_, ?_⟩
        · intro x
          simp only [mem_cons, hset1]
          constructor
          · rintro (h | h)
            · exact Or.inl ⟨h, hrn⟩
            · exact Or.inr h
          · rintro (⟨h, _⟩ | h)
            · exact Or.inl h
            · exact Or.inr h
        · intro x
          simp only [mem_cons, hclr1]
          constructor
          · rintro (h | h)
            · exact Or.inl ⟨e, h, he, her⟩
            · exact Or.inr h
          · rintro (⟨e', h2, h3, _⟩ | h)
            · left; rw [h2, ha c e' e h3 he]
            · exact Or.inr h

theorem sorted_spec_bulk_set (kind : Kind) : ∀ (pairs : List (Nat × Nat)) (S : List Nat), Sorted S →
    Sorted (pairs.foldl (fun a rc => Spec.setBit kind a rc.1 rc.2) S)
  | [], _, h => h
  | _ :: rest, _, h => sorted_spec_bulk_set kind rest _ (sorted_spec_setBit kind h _ _)

/-- applying a batch of sets left to right: the last row given for a column wins, untouched
columns keep their bits. -/
theorem mem_spec_bulk_set {kind : Kind} (hk : kind ≠ .set) : ∀ (pairs : List (Nat × Nat)) (S : List Nat) (x : Nat),
    x ∈ pairs.foldl (fun a rc => Spec.setBit kind a rc.1 rc.2) S ↔
      match lastRowOf pairs (colOf x) with
      | some r => rowOf x = r
      | none => x ∈ S
  | [], S, x => by simp [lastRowOf]
  | (r, c) :: rest, S, x => by
    simp only [foldl_cons, lastRowOf]
    rw [mem_spec_bulk_set hk rest]
    cases lastRowOf rest (colOf x) with
    | some r' => rfl
    | none =>
      simp only [mem_spec_setBit_mutex hk]
      by_cases hc : c % SW = colOf x
      · simp only [hc, ↓reduceIte]
        constructor
        · rintro (h | ⟨_, h⟩)
          · rw [h, rowOf_pos]
          · by_cases e : rowOf x = r
            · exact e
            · exact absurd (And.intro (by first | trivial | rfl | exact hc.symm) e) h
        · intro h
          exact Or.inl (eq_pos_of h hc.symm)
      · simp only [hc, ↓reduceIte]
        constructor
        · rintro (h | ⟨h, _⟩)
          · exact absurd (by rw [h, colOf_pos]) hc
          · exact h
        · intro h
          exact Or.inr ⟨h, fun h2 => hc h2.1.symm⟩

/-- C13 core: `bulkImportMutex` (after the fix) = the batch applied left to right. -/
theorem bulkImportMutex_spec (s : Frag η) (hk : s.kind ≠ .set) (hs : Sorted s.bits)
    (ha : AtMostOne s.bits) (hb : BoolOK s.kind s.bits) (pairs : List (Nat × Nat)) :
    (bulkImportMutex s pairs).2 = .ok ∧
    (bulkImportMutex s pairs).1.bits = Spec.bulkImport s.kind s.bits false pairs := by
  obtain ⟨hkn, hklt, hlook⟩ := colSetOf_spec pairs [] (by simp [KeysNodup]) (by simp)
  obtain ⟨sets, clears, rows, hplan, hsets, hclears⟩ := mutexPlan_spec hs ha hb (colSetOf [] pairs)
  have hmem : ∀ k r, (k, r) ∈ colSetOf [] pairs ↔ lastRowOf pairs k = some r := by
    intro k r
    rw [mem_iff_lookup hkn, hlook k]
    cases lastRowOf pairs k <;> simp [lookup]
  simp only [bulkImportMutex, hplan, true_and]
  have hsorted : Sorted (Spec.bulkImport s.kind s.bits false pairs) := by
    simp only [Spec.bulkImport, Bool.false_eq_true, ↓reduceIte]
    exact sorted_spec_bulk_set _ _ _ hs
  apply sorted_ext (sorted_importPositions s sets clears rows hs) hsorted
  intro x
  rw [mem_importPositions]
  simp only [Spec.bulkImport, Bool.false_eq_true, ↓reduceIte]
  rw [mem_spec_bulk_set hk, hsets, hclears]
  have hx : x = pos (rowOf x) (colOf x) := (pos_rowOf_colOf x).symm
  cases hl : lastRowOf pairs (colOf x) with
  | none =>
    simp only
    constructor
    · rintro ⟨h | ⟨c, r, h1, h2, _⟩, _⟩
      · exact h
      · exfalso
        have hc : colOf x = c := by rw [h2, colOf_pos]; exact Nat.mod_eq_of_lt (hklt _ h1)
        rw [← hc] at h1
        have := (hmem _ _).mp h1
        rw [hl] at this; cases this
    · intro h
      refine ⟨Or.inl h, ?_⟩
      rintro ⟨c, r, e, h1, h2, _, _⟩
      have hc : colOf x = c := by rw [h2, colOf_pos]; exact Nat.mod_eq_of_lt (hklt _ h1)
      rw [← hc] at h1
      have := (hmem _ _).mp h1
      rw [hl] at this; cases this
  | some r =>
    simp only
    have hentry : (colOf x, r) ∈ colSetOf [] pairs := (hmem _ _).mpr hl
    have huniq : ∀ c r', (c, r') ∈ colSetOf [] pairs → colOf x = c → r' = r := by
      intro c r' h1 hc
      rw [← hc] at h1
      have := (hmem _ _).mp h1
      rw [hl] at this; exact (Option.some.inj this).symm
    constructor
    · rintro ⟨h | ⟨c, r', h1, h2, _⟩, hnc⟩
      · by_cases e : rowOf x = r
        · exact e
        · exfalso
          apply hnc
          exact ⟨colOf x, r, rowOf x, hentry, hx, hx ▸ h, e⟩
      · have hc : colOf x = c := by rw [h2, colOf_pos]; exact Nat.mod_eq_of_lt (hklt _ h1)
        have := huniq c r' h1 hc
        rw [h2, rowOf_pos]; exact this
    · intro hr
      have hxr : x = pos r (colOf x) := by rw [← hr]; exact hx
      have hnc : ¬ ∃ c r' e, (c, r') ∈ colSetOf [] pairs ∧ x = pos e c ∧ pos e c ∈ s.bits ∧ e ≠ r' := by
        rintro ⟨c, r', e, h1, h2, _, h4⟩
        have hc : colOf x = c := by rw [h2, colOf_pos]; exact Nat.mod_eq_of_lt (hklt _ h1)
        have h5 := huniq c r' h1 hc
        have : rowOf x = e := by rw [h2, rowOf_pos]
        exact h4 (by rw [← this, hr, h5])
      refine ⟨?_, hnc⟩
      by_cases hin : x ∈ s.bits
      · exact Or.inl hin
      · exact Or.inr ⟨colOf x, r, hentry, hxr, hxr ▸ hin⟩

end PV.C07
