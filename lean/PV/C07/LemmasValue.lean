/-
Integer-value write paths (positionsForValue / importSetValue / setValueBase / importValue) and
importRoaring: membership, ascending storage, framed steps.  Core Lean only.
-/
import PV.C07.LemmasWrite
namespace PV.C07
open List

variable {η : Type}

/-! ### raw single-position writes -/

theorem mem_rawAdd {l : List Nat} {q x : Nat} : x ∈ (rawAdd l q).1 ↔ x = q ∨ x ∈ l := by
  unfold rawAdd
  split
  · rename_i h
    have := has_iff.mp h
    constructor
    · exact Or.inr
    · rintro (rfl | h) <;> assumption
  · simp [mem_ins]

theorem mem_rawRemove {l : List Nat} {q x : Nat} : x ∈ (rawRemove l q).1 ↔ x ∈ l ∧ x ≠ q := by
  unfold rawRemove
  split
  · simp [mem_del]
  · rename_i h
    have : q ∉ l := by simpa [has] using h
    constructor
    · intro hx; exact ⟨hx, fun e => this (e ▸ hx)⟩
    · exact And.left

theorem sorted_rawAdd {l : List Nat} {q : Nat} (h : Sorted l) : Sorted (rawAdd l q).1 := by
  unfold rawAdd; split
  · exact h
  · exact sorted_ins h

theorem sorted_rawRemove {l : List Nat} {q : Nat} (h : Sorted l) : Sorted (rawRemove l q).1 := by
  unfold rawRemove; split
  · exact sorted_del h
  · exact h

/-! ### the positions of a value -/

theorem vbp_rows {c u i x : Nat}
    (h : x ∈ (valueBitPositions c u i).1 ∨ x ∈ (valueBitPositions c u i).2) :
    ∃ j, j < i ∧ x = pos (bsiOffsetBit + j) c := by
  induction i with
  | zero => simp [valueBitPositions] at h
  | succ i ih =>
    simp only [valueBitPositions] at h
    split at h
    · simp only [mem_append, mem_singleton] at h
      rcases h with (h | rfl) | h
      · obtain ⟨j, hj, e⟩ := ih (Or.inl h); exact ⟨j, by omega, e⟩
      · exact ⟨i, by omega, rfl⟩
      · obtain ⟨j, hj, e⟩ := ih (Or.inr h); exact ⟨j, by omega, e⟩
    · simp only [mem_append, mem_singleton] at h
      rcases h with h | h | rfl
      · obtain ⟨j, hj, e⟩ := ih (Or.inl h); exact ⟨j, by omega, e⟩
      · obtain ⟨j, hj, e⟩ := ih (Or.inr h); exact ⟨j, by omega, e⟩
      · exact ⟨i, by omega, rfl⟩

theorem vbp_ne {c u i x q : Nat} (h : x ∈ (valueBitPositions c u i).1 ∨ x ∈ (valueBitPositions c u i).2)
    (hq : q = pos (bsiOffsetBit + i) c ∨ q = pos bsiExistsBit c ∨ q = pos bsiSignBit c) : x ≠ q := by
  obtain ⟨j, hj, rfl⟩ := vbp_rows h
  intro e
  rcases hq with rfl | rfl | rfl
  · have := (pos_inj e).1; omega
  · have := (pos_inj e).1; simp [bsiOffsetBit, bsiExistsBit] at this
  · have := (pos_inj e).1; simp [bsiOffsetBit, bsiSignBit] at this; omega

/-- every position `positionsForValue` names lies in the BSI rows of the value. -/
theorem pfv_rows {c depth : Nat} {v : Int} {clear : Bool} {x : Nat}
    (h : x ∈ (positionsForValue c depth v clear).1 ∨ x ∈ (positionsForValue c depth v clear).2) :
    rowOf x < depth + bsiOffsetBit := by
  have key : x = pos bsiExistsBit c ∨ x = pos bsiSignBit c ∨
      (x ∈ (valueBitPositions c v.natAbs depth).1 ∨ x ∈ (valueBitPositions c v.natAbs depth).2) := by
    simp only [positionsForValue] at h
    rcases h with h | h
    · simp only [mem_append] at h
      rcases h with (h | h) | h
      · split at h <;> simp at h; exact Or.inl h
      · split at h <;> simp at h; exact Or.inr (Or.inl h)
      · exact Or.inr (Or.inr (Or.inl h))
    · simp only [mem_append] at h
      rcases h with (h | h) | h
      · split at h <;> simp at h; exact Or.inl h
      · split at h <;> simp at h; exact Or.inr (Or.inl h)
      · exact Or.inr (Or.inr (Or.inr h))
  rcases key with rfl | rfl | h
  · rw [rowOf_pos]; simp [bsiExistsBit, bsiOffsetBit]
  · rw [rowOf_pos]; simp [bsiSignBit, bsiOffsetBit]
  · obtain ⟨j, hj, rfl⟩ := vbp_rows h
    rw [rowOf_pos]; omega

theorem mem_rangeList {n x : Nat} : x ∈ rangeList n ↔ x < n := by simp [rangeList]

/-! ### importSetValue (large path) -/

theorem mem_isvb (c u : Nat) (l : List Nat) (x : Nat) : ∀ i,
    x ∈ (importSetValueBits c u i l).1 ↔
      (x ∈ l ∧ x ∉ (valueBitPositions c u i).2) ∨ x ∈ (valueBitPositions c u i).1
  | 0 => by simp [importSetValueBits, valueBitPositions]
  | i + 1 => by
    have ih := mem_isvb c u l x i
    simp only [importSetValueBits, valueBitPositions]
    split
    · rw [mem_rawAdd, ih]
      simp only [mem_append, mem_singleton]
      constructor
      · rintro (h | h | h)
        · exact Or.inr (Or.inr h)
        · exact Or.inl h
        · exact Or.inr (Or.inl h)
      · rintro (h | h | h)
        · exact Or.inr (Or.inl h)
        · exact Or.inr (Or.inr h)
        · exact Or.inl h
    · rw [mem_rawRemove, ih]
      simp only [mem_append, mem_singleton, not_or]
      constructor
      · rintro ⟨⟨h1, h2⟩ | h, h3⟩
        · exact Or.inl ⟨h1, h2, h3⟩
        · exact Or.inr h
      · rintro (⟨h1, h2, h3⟩ | h)
        · exact ⟨Or.inl ⟨h1, h2⟩, h3⟩
        · exact ⟨Or.inr h, vbp_ne (Or.inl h) (Or.inl rfl)⟩

theorem sorted_isvb (c u : Nat) (l : List Nat) (h : Sorted l) : ∀ i, Sorted (importSetValueBits c u i l).1
  | 0 => h
  | i + 1 => by
    simp only [importSetValueBits]
    split
    · exact sorted_rawAdd (sorted_isvb c u l h i)
    · exact sorted_rawRemove (sorted_isvb c u l h i)

theorem pos_exists_ne_sign (c : Nat) : pos bsiExistsBit c ≠ pos bsiSignBit c := by
  intro e; have := (pos_inj e).1; simp [bsiExistsBit, bsiSignBit] at this

/-- one column written bit by bit = the positions of `positionsForValue` applied as sets. -/
theorem mem_importSetValue (l : List Nat) (c depth : Nat) (v : Int) (clear : Bool) (x : Nat) :
    x ∈ (importSetValue l c depth v clear).1 ↔
      (x ∈ l ∧ x ∉ (positionsForValue c depth v clear).2) ∨ x ∈ (positionsForValue c depth v clear).1 := by
  have hb := mem_isvb c v.natAbs l x depth
  have n1 : (x ∈ (valueBitPositions c v.natAbs depth).1 ∨ x ∈ (valueBitPositions c v.natAbs depth).2) →
      x ≠ pos bsiExistsBit c ∧ x ≠ pos bsiSignBit c := fun h =>
    ⟨vbp_ne (i := depth) h (Or.inr (Or.inl rfl)), vbp_ne (i := depth) h (Or.inr (Or.inr rfl))⟩
  have n2 := pos_exists_ne_sign c
  simp only [importSetValue, positionsForValue]
  cases clear <;> by_cases hv : v ≥ 0 <;>
    simp only [hv, Bool.false_eq_true, ↓reduceIte, or_false, or_true, false_or, mem_rawRemove,
      mem_rawAdd, hb, mem_append, mem_cons, not_mem_nil] <;>
    grind

theorem sorted_importSetValue (l : List Nat) (c depth : Nat) (v : Int) (clear : Bool) (h : Sorted l) :
    Sorted (importSetValue l c depth v clear).1 := by
  have hb := sorted_isvb c v.natAbs l h depth
  simp only [importSetValue]
  cases clear <;> by_cases hv : v ≥ 0 <;> simp only [hv, Bool.false_eq_true, ↓reduceIte, or_false, or_true]
  · exact sorted_rawRemove (sorted_rawAdd hb)
  · exact sorted_rawAdd (sorted_rawAdd hb)
  · exact sorted_rawRemove (sorted_rawRemove hb)
  · exact sorted_rawRemove (sorted_rawRemove hb)

theorem mem_spec_setValue (S : List Nat) (c depth : Nat) (v : Int) (clear : Bool) (x : Nat) :
    x ∈ Spec.setValue S c depth v clear ↔
      (x ∈ S ∧ x ∉ (positionsForValue c depth v clear).2) ∨ x ∈ (positionsForValue c depth v clear).1 := by
  simp only [Spec.setValue, mem_addAll, mem_delAll]

theorem sorted_spec_setValue (S : List Nat) (c depth : Nat) (v : Int) (clear : Bool) (h : Sorted S) :
    Sorted (Spec.setValue S c depth v clear) := sorted_addAll (sorted_delAll h)

theorem importSetValue_eq_spec (l : List Nat) (c depth : Nat) (v : Int) (clear : Bool) (h : Sorted l) :
    (importSetValue l c depth v clear).1 = Spec.setValue l c depth v clear := by
  apply sorted_ext (sorted_importSetValue l c depth v clear h) (sorted_spec_setValue l c depth v clear h)
  intro x; rw [mem_importSetValue, mem_spec_setValue]

theorem sorted_spec_importValue (S : List Nat) (clear : Bool) (depth : Nat) (cvs : List (Nat × Int))
    (h : Sorted S) : Sorted (Spec.importValue S clear depth cvs) := by
  unfold Spec.importValue
  induction cvs generalizing S with
  | nil => exact h
  | cons cv cvs ih => exact ih _ (sorted_spec_setValue _ _ _ _ _ h)

theorem largeLoop_eq_spec (l : List Nat) (depth : Nat) (clear : Bool) (cvs : List (Nat × Int))
    (h : Sorted l) : (importValueLargeLoop l depth clear cvs).1 = Spec.importValue l clear depth cvs := by
  unfold Spec.importValue
  induction cvs generalizing l with
  | nil => rfl
  | cons cv cvs ih =>
    obtain ⟨c, v⟩ := cv
    simp only [importValueLargeLoop, foldl_cons]
    rw [ih _ (sorted_importSetValue l c depth v clear h), importSetValue_eq_spec l c depth v clear h]

/-- an integer import only touches the BSI rows. -/
theorem spec_importValue_confined (S : List Nat) (clear : Bool) (depth : Nat) (cvs : List (Nat × Int))
    (x : Nat) (hx : ¬ rowOf x < depth + bsiOffsetBit) :
    x ∈ Spec.importValue S clear depth cvs ↔ x ∈ S := by
  unfold Spec.importValue
  induction cvs generalizing S with
  | nil => exact Iff.rfl
  | cons cv cvs ih =>
    simp only [foldl_cons]
    rw [ih, mem_spec_setValue]
    constructor
    · rintro (h | h)
      · exact h.1
      · exact absurd (pfv_rows (Or.inl h)) hx
    · intro h
      exact Or.inl ⟨h, fun h2 => hx (pfv_rows (Or.inr h2))⟩

/-! ### importValue small path -/

theorem smallWritePlan_rows (l : List (Nat × Int)) (depth : Nat) (clear : Bool) (seen : List Nat) (x : Nat)
    (h : x ∈ (smallWritePlan l depth clear seen).1 ∨ x ∈ (smallWritePlan l depth clear seen).2) :
    rowOf x < depth + bsiOffsetBit := by
  induction l generalizing seen with
  | nil => simp [smallWritePlan] at h
  | cons cv l ih =>
    obtain ⟨c, v⟩ := cv
    simp only [smallWritePlan] at h
    split at h
    · exact ih seen h
    · simp only [mem_append] at h
      rcases h with (h | h) | (h | h)
      · exact pfv_rows (Or.inl h)
      · exact ih _ (Or.inl h)
      · exact pfv_rows (Or.inr h)
      · exact ih _ (Or.inr h)

theorem sorted_importValue (s : Frag η) (clear : Bool) (depth : Nat) (cvs : List (Nat × Int))
    (hs : Sorted s.bits) : Sorted (importValue s clear depth cvs).1.bits := by
  unfold importValue
  split
  · exact sorted_importPositions _ _ _ _ hs
  · simp only [snapshot_bits, incrementOpN_bits, invalidateRows_bits]
    rw [largeLoop_eq_spec _ _ _ _ hs]
    exact sorted_spec_importValue _ _ _ _ hs

theorem framed_importValue (s : Frag η) (clear : Bool) (depth : Nat) (cvs : List (Nat × Int))
    (hs : Sorted s.bits) : Framed s (importValue s clear depth cvs).1 := by
  unfold importValue
  split
  · refine ⟨_, frame_importPositions s _ _ _ ?_⟩
    intro p hp
    exact mem_rangeList.mpr (smallWritePlan_rows _ _ _ _ p hp)
  · refine ⟨rangeList (depth + bsiOffsetBit), ?_⟩
    have hc := invalidateRows_caches_congr
      { s with bits := (importValueLargeLoop s.bits depth clear cvs).1 } s (rangeList (depth + bsiOffsetBit)) rfl rfl
    refine frame_write _ (importValueLargeLoop s.bits depth clear cvs).1 (by simp) (by simpa using hc.1)
      (by simpa using hc.2) ?_
    intro p hp
    rw [largeLoop_eq_spec _ _ _ _ hs]
    exact (spec_importValue_confined _ _ _ _ p (fun h => hp (mem_rangeList.mpr h))).symm

@[simp] theorem importValue_kind (s : Frag η) (clear : Bool) (depth : Nat) (cvs : List (Nat × Int)) :
    (importValue s clear depth cvs).1.kind = s.kind := by
  unfold importValue; split <;> simp [importValueSmallWrite]

/-! ### setValueBase (setValue / clearValue) -/

theorem mem_svb (c u : Nat) (s : Frag η) (x : Nat) : ∀ i,
    x ∈ (setValueBits c u i s).1.bits ↔
      (x ∈ s.bits ∧ x ∉ (valueBitPositions c u i).2) ∨ x ∈ (valueBitPositions c u i).1
  | 0 => by simp [setValueBits, valueBitPositions]
  | i + 1 => by
    have ih := mem_svb c u s x i
    simp only [setValueBits, valueBitPositions]
    split
    · rw [mem_usb, ih]
      simp only [mem_append, mem_singleton]
      constructor
      · rintro (h | h | h)
        · exact Or.inr (Or.inr h)
        · exact Or.inl h
        · exact Or.inr (Or.inl h)
      · rintro (h | h | h)
        · exact Or.inr (Or.inl h)
        · exact Or.inr (Or.inr h)
        · exact Or.inl h
    · rw [mem_ucb, ih]
      simp only [mem_append, mem_singleton, not_or]
      constructor
      · rintro ⟨⟨h1, h2⟩ | h, h3⟩
        · exact Or.inl ⟨h1, h2, h3⟩
        · exact Or.inr h
      · rintro (⟨h1, h2, h3⟩ | h)
        · exact ⟨Or.inl ⟨h1, h2⟩, h3⟩
        · exact ⟨Or.inr h, vbp_ne (Or.inl h) (Or.inl rfl)⟩

theorem sorted_svb (c u : Nat) (s : Frag η) (h : Sorted s.bits) : ∀ i, Sorted (setValueBits c u i s).1.bits
  | 0 => h
  | i + 1 => by
    simp only [setValueBits]
    split
    · exact sorted_usb _ _ _ (sorted_svb c u s h i)
    · exact sorted_ucb _ _ _ (sorted_svb c u s h i)

theorem framed_svb (c u : Nat) (s : Frag η) : ∀ i, Framed s (setValueBits c u i s).1
  | 0 => Framed.refl s
  | i + 1 => by
    simp only [setValueBits]
    split
    · exact (framed_svb c u s i).trans (framed_usb _ _ _)
    · exact (framed_svb c u s i).trans (framed_ucb _ _ _)

@[simp] theorem svb_kind (c u : Nat) (s : Frag η) : ∀ i, (setValueBits c u i s).1.kind = s.kind
  | 0 => rfl
  | i + 1 => by
    simp only [setValueBits]
    split <;> simp [svb_kind c u s i]

theorem sorted_setValueBase (s : Frag η) (c depth : Nat) (v : Int) (clear : Bool) (hs : Sorted s.bits) :
    Sorted (setValueBase s c depth v clear).1.bits := by
  have hb := sorted_svb c v.natAbs s hs depth
  simp only [setValueBase]
  cases clear <;> by_cases hv : v ≥ 0 <;> simp only [hv, Bool.false_eq_true, ↓reduceIte, or_false, or_true]
  · exact sorted_ucb _ _ _ (sorted_usb _ _ _ hb)
  · exact sorted_usb _ _ _ (sorted_usb _ _ _ hb)
  · exact sorted_ucb _ _ _ (sorted_ucb _ _ _ hb)
  · exact sorted_ucb _ _ _ (sorted_ucb _ _ _ hb)

theorem framed_setValueBase (s : Frag η) (c depth : Nat) (v : Int) (clear : Bool) :
    Framed s (setValueBase s c depth v clear).1 := by
  have hb := framed_svb c v.natAbs s depth
  simp only [setValueBase]
  cases clear <;> by_cases hv : v ≥ 0 <;> simp only [hv, Bool.false_eq_true, ↓reduceIte, or_false, or_true]
  · exact (hb.trans (framed_usb _ _ _)).trans (framed_ucb _ _ _)
  · exact (hb.trans (framed_usb _ _ _)).trans (framed_usb _ _ _)
  · exact (hb.trans (framed_ucb _ _ _)).trans (framed_ucb _ _ _)
  · exact (hb.trans (framed_ucb _ _ _)).trans (framed_ucb _ _ _)

@[simp] theorem setValueBase_kind (s : Frag η) (c depth : Nat) (v : Int) (clear : Bool) :
    (setValueBase s c depth v clear).1.kind = s.kind := by
  simp only [setValueBase]
  cases clear <;> by_cases hv : v ≥ 0 <;> simp [hv]

/-- the per-bit path writes exactly the positions of `positionsForValue`. -/
theorem mem_setValueBase (s : Frag η) (c depth : Nat) (v : Int) (clear : Bool) (x : Nat) :
    x ∈ (setValueBase s c depth v clear).1.bits ↔
      (x ∈ s.bits ∧ x ∉ (positionsForValue c depth v clear).2) ∨ x ∈ (positionsForValue c depth v clear).1 := by
  have hb := mem_svb c v.natAbs s x depth
  have n1 : (x ∈ (valueBitPositions c v.natAbs depth).1 ∨ x ∈ (valueBitPositions c v.natAbs depth).2) →
      x ≠ pos bsiExistsBit c ∧ x ≠ pos bsiSignBit c := fun h =>
    ⟨vbp_ne (i := depth) h (Or.inr (Or.inl rfl)), vbp_ne (i := depth) h (Or.inr (Or.inr rfl))⟩
  have n2 := pos_exists_ne_sign c
  simp only [setValueBase, positionsForValue]
  cases clear <;> by_cases hv : v ≥ 0 <;>
    simp only [hv, Bool.false_eq_true, ↓reduceIte, or_false, or_true, false_or, mem_ucb,
      mem_usb, hb, mem_append, mem_cons, not_mem_nil] <;>
    grind

/-! ### importRoaring -/

theorem mem_importRoaring (s : Frag η) (clear : Bool) (pairs : List (Nat × Nat)) (x : Nat) :
    x ∈ (importRoaring s clear pairs).1.bits ↔
      if clear then x ∈ s.bits ∧ x ∉ pairs.map (fun rc => pos rc.1 rc.2)
      else x ∈ s.bits ∨ x ∈ pairs.map (fun rc => pos rc.1 rc.2) := by
  simp only [importRoaring, incrementOpN_bits, invalidateRows_bits]
  cases clear
  · simp [mem_addN, mem_canon]
  · simp [mem_removeN, mem_canon]

theorem sorted_importRoaring (s : Frag η) (clear : Bool) (pairs : List (Nat × Nat)) (hs : Sorted s.bits) :
    Sorted (importRoaring s clear pairs).1.bits := by
  simp only [importRoaring, incrementOpN_bits, invalidateRows_bits]
  split
  · exact sorted_removeN hs
  · exact sorted_addN hs

theorem framed_importRoaring (s : Frag η) (clear : Bool) (pairs : List (Nat × Nat)) :
    Framed s (importRoaring s clear pairs).1 := by
  let data := canon (pairs.map (fun rc => pos rc.1 rc.2))
  let changed := if clear then data.filter (fun p => has p s.bits) else data.filter (fun p => !has p s.bits)
  refine ⟨changed.map rowOf, ?_⟩
  have hc := invalidateRows_caches_congr
    { s with bits := if clear then (removeN s.bits data).1 else (addN s.bits data).1 } s (changed.map rowOf) rfl rfl
  refine frame_write _ (importRoaring s clear pairs).1.bits rfl
    (by simpa [importRoaring] using hc.1) (by simpa [importRoaring] using hc.2) ?_
  intro p hp
  have hp' : p ∉ changed := fun h => hp (mem_map.mpr ⟨p, h, rfl⟩)
  simp only [importRoaring, incrementOpN_bits, invalidateRows_bits]
  cases hcl : clear
  · simp only [hcl, Bool.false_eq_true, ↓reduceIte, mem_filter, Bool.not_eq_true', not_and, changed] at hp' ⊢
    rw [mem_addN]
    constructor
    · exact Or.inl
    · rintro (h | h)
      · exact h
      · have := hp' h
        simpa [has] using this
  · simp only [hcl, ↓reduceIte, mem_filter, not_and, changed] at hp' ⊢
    rw [mem_removeN]
    constructor
    · intro h
      refine ⟨h, fun hd => ?_⟩
      exact hp' hd (has_iff.mpr h)
    · exact And.left

@[simp] theorem importRoaring_kind (s : Frag η) (clear : Bool) (pairs : List (Nat × Nat)) :
    (importRoaring s clear pairs).1.kind = s.kind := by
  simp [importRoaring]

end PV.C07
