/-
C08 property theorems.  Core Lean only.

Full-strength statements: for EVERY option record `CreateField` accepts (every field type, cache
type/size, bounds — including bounds that exclude zero —, time quantum, keys, noStandardView) and
every bit depth an int field can grow to through writes, the options read back after Close + Open
are the options before (`C08_meta_roundtrip`), and an int field re-reads every stored value
(`C08_reopen`).  The model is the code after the two `fix:` commits (int field starts at bit depth 1;
cache size 0 with cache type none); on the unfixed code both theorems are false
(`C08_old_*_witness` state what the old code did on the minimal inputs; they are kept as
documentation of the repaired defects, the replays are in corpus/C08).
-/
import PV.C08.Model
import PV.C08.Spec
import PV.C14.LemmasField
namespace PV.C08
open PV.C14

theorem bitDepthInt_zero : bitDepthInt 0 = 0 := by decide

/-- Options a field can have: what `createField` produced, possibly with a larger bit depth
(int fields grow through `SetValue` / `importValue`). -/
def Reach (o : Opts) : Prop :=
  ∃ opt o0, createOptions opt = .ok o0 ∧
    (o = o0 ∨ (o0.typ = .int ∧ ∃ d, o0.bitDepth ≤ d ∧ o = { o0 with bitDepth := d }))

theorem roundtrip_created (opt o : Opts) (h : createOptions opt = .ok o) :
    reopenOptions (saveMeta o) = .ok o := by
  obtain ⟨typ, ct, cs, mn, mx, base, bd, tq, keys, noStd⟩ := opt
  simp only [createOptions, applyOptions, defaultOpts] at h
  cases typ
  all_goals simp only [] at h
  case int =>
    cases h
    by_cases hb : bd = 0 <;> simp [reopenOptions, loadMeta, saveMeta, applyOptions, hb]
  case time =>
    split at h
    · rename_i hv
      cases h
      simp [reopenOptions, loadMeta, saveMeta, applyOptions, hv, bitDepthInt_zero]
    · cases h
  case invalid => cases h
  all_goals
    cases h
    cases ct <;> by_cases hcs : cs = 0 <;>
      simp [reopenOptions, loadMeta, saveMeta, applyOptions, bitDepthInt_zero, hcs, defaultCacheSize]

theorem created_int_depth (opt o : Opts) (h : createOptions opt = .ok o) (hi : o.typ = .int) :
    1 ≤ o.bitDepth ∧ o.cacheType = .none ∧ o.cacheSize = 0 ∧ o.tq = "" := by
  obtain ⟨typ, ct, cs, mn, mx, base, bd, tq, keys, noStd⟩ := opt
  simp only [createOptions, applyOptions, defaultOpts] at h
  cases typ
  all_goals simp only [] at h
  case int => cases h; by_cases hb : bd = 0 <;> simp [hb]; omega
  case time => split at h <;> cases h; simp at hi
  case invalid => cases h
  all_goals (cases h; simp at hi)

/-- Meta data written by this version is never taken for v1: for an int field the file content is
read back unchanged. -/
theorem C08_load_save_int (o : Opts) (hd : 1 ≤ o.bitDepth) : loadMeta (saveMeta o) = o := by
  have : ¬ o.bitDepth = 0 := by omega
  simp [loadMeta, saveMeta, this]

/-- Close + Open gives back the options of every reachable field. -/
theorem C08_meta_roundtrip (o : Opts) (h : Reach o) :
    reopenOptions (saveMeta o) = .ok (Spec.reopenOptions o) := by
  obtain ⟨opt, o0, hc, h | ⟨hi, d, hd, rfl⟩⟩ := h
  · subst h; exact roundtrip_created opt o hc
  · have hcr := created_int_depth opt o0 hc hi
    have hne : ¬ d = 0 := by omega
    obtain ⟨typ, ct, cs, mn, mx, base, bd, tq, keys, noStd⟩ := o0
    simp only at hi hcr hd hne
    obtain ⟨_, h2, h3, h4⟩ := hcr
    subst hi h2 h3 h4
    simp [reopenOptions, loadMeta, saveMeta, applyOptions, hne, Spec.reopenOptions]

/-- Writes keep the options reachable (only the bit depth moves, and only upwards). -/
theorem C08_reach_setValue (f : IntField) (h : Reach f.opts) (hi : f.opts.typ = .int) (c : Nat) (v : Int)
    (hb : (v - f.opts.base).natAbs < 2^63) : Reach (f.setValue c v).1.opts := by
  have hmono : f.opts.bitDepth ≤ (f.setValue c v).1.opts.bitDepth := by
    simp only [IntField.setValue, IntField.toField, Field.setValue, Opts.bsi]
    by_cases h1 : v < f.opts.min
    · simp [h1]
    · by_cases h2 : v > f.opts.max
      · simp [h1, h2]
      · simp only [h1, h2, if_false]
        exact (growDepth_ok _ _ _ hb).1
  have heq : (f.setValue c v).1.opts = { f.opts with bitDepth := (f.setValue c v).1.opts.bitDepth } := by
    simp only [IntField.setValue]
  obtain ⟨opt, o0, hc, h | ⟨hi0, d, hd, hfd⟩⟩ := h
  · refine ⟨opt, o0, hc, Or.inr ⟨by rw [← h]; exact hi, (f.setValue c v).1.opts.bitDepth, by rw [← h]; exact hmono, ?_⟩⟩
    rw [heq, h]
  · refine ⟨opt, o0, hc, Or.inr ⟨hi0, (f.setValue c v).1.opts.bitDepth, ?_, ?_⟩⟩
    · rw [hfd] at hmono; exact Nat.le_trans hd hmono
    · rw [heq, hfd]

/-- An int field comes back unchanged — options and stored bits — so every `Field.Value`, and with
C14 every range query, Sum, Min and Max, answers as before the restart. -/
theorem C08_reopen (f : IntField) (h : Reach f.opts) : f.reopen = .ok (Spec.reopen f) := by
  simp only [IntField.reopen, C08_meta_roundtrip f.opts h, Spec.reopenOptions, Spec.reopen]

theorem C08_reopen_values (f f' : IntField) (h : Reach f.opts) (hr : f.reopen = .ok f') (c : Nat) :
    f'.value c = f.value c := by
  rw [C08_reopen f h] at hr
  cases hr; rfl

/-! ### The TopN cache survives the restart -/

theorem filterMap_cacheEntry_roundtrip (count : Nat → Nat) (l : List Nat) :
    ((l.filterMap (cacheEntry count)).map (·.1)).filterMap (cacheEntry count) = l.filterMap (cacheEntry count) := by
  induction l with
  | nil => rfl
  | cons x xs ih =>
    by_cases h : count x > 0
    · have e : cacheEntry count x = some (x, count x) := by simp [cacheEntry, h]
      simp only [List.filterMap_cons, e, List.map_cons, ih]
    · have e : cacheEntry count x = none := by simp [cacheEntry, h]
      simp only [List.filterMap_cons, e, ih]

/-- For every fragment of a cached set field whose rows fit the cache: the cache rebuilt by
`openCache` from the ids `flushCache` wrote at close is the cache held before the restart, so
`TopN` answers the same (this needs `close` to flush the cache whenever it holds rows — also when
no operation was logged since the last snapshot). -/
theorem C08_cache_roundtrip (d : SetData) (shard : Nat) : reopenCache d shard = fragCache d shard := by
  simp only [reopenCache, openCache, flushCache, fragCache]
  exact filterMap_cacheEntry_roundtrip _ _

theorem C08_topN_reopen (d : SetData) (shards : List Nat) :
    topN (shards.map (reopenCache d)) = topN (shards.map (fragCache d)) := by
  congr 1
  apply List.map_congr_left
  intro s _
  exact C08_cache_roundtrip d s

/-- What a skipped flush does: with no `.cache` file the reopened cache is empty although the
fragment holds the rows. -/
theorem C08_unflushed_cache_witness :
    openCache [] (SetData.count { bits := [(7, 1)] } 0) = [] ∧ fragCache { bits := [(7, 1)] } 0 = [(7, 1)] := by decide

/-- What the v1-upgrade branch does to a meta file with bit depth 0 (the reason the current format
must never write one): base becomes min and the depth covers max - min. -/
theorem C08_v1_branch (pb : Meta) (h0 : pb.bitDepth = 0) :
    (loadMeta pb).base = pb.min ∧
    (loadMeta pb).bitDepth = (if bitDepthInt (pb.max - pb.min) = 0 then 1 else bitDepthInt (pb.max - pb.min)) := by
  simp [loadMeta, h0]

/-- The repaired defect, on the model of the OLD createField (bit depth 0 saved): an int field
[-10, 1000] holding 0 in column 1 read -10 after the restart, with base -10 and bit depth 10. -/
def oldDepth0 : Opts :=
  { typ := .int, cacheType := .none, cacheSize := 0, min := -10, max := 1000, base := 0,
    bitDepth := 0, tq := "", keys := false, noStd := false }

theorem C08_old_depth0_witness :
    IntField.value ⟨oldDepth0, [⟨1, true, false, 0⟩]⟩ 1 = some 0 ∧
    reopenOptions (saveMeta oldDepth0) = .ok { oldDepth0 with base := -10, bitDepth := 10 } ∧
    IntField.value ⟨{ oldDepth0 with base := -10, bitDepth := 10 }, [⟨1, true, false, 0⟩]⟩ 1 = some (-10) := by
  refine ⟨by decide, ?_, by decide⟩
  have : bitDepthInt 1010 = 10 := by decide
  simp [reopenOptions, loadMeta, saveMeta, applyOptions, oldDepth0, this]

/-- Non-vacuity: every field type is reachable, e.g. an int field with bounds excluding zero grown to
depth 7, a time field, a keyed mutex field with an LRU cache. -/
example : Reach { typ := .int, cacheType := .none, cacheSize := 0, min := 5, max := 100, base := 0,
                  bitDepth := 7, tq := "", keys := false, noStd := false } :=
  ⟨{ defaultOpts with typ := .int, min := 5, max := 100 }, _, rfl, Or.inr ⟨rfl, 7, by decide, rfl⟩⟩

example : Reach { typ := .time, cacheType := .none, cacheSize := 0, min := 0, max := 0, base := 0,
                  bitDepth := 0, tq := "YMDH", keys := true, noStd := true } :=
  ⟨{ defaultOpts with typ := .time, tq := "YMDH", keys := true, noStd := true }, _, rfl, Or.inl rfl⟩

example : Reach { typ := .mutex, cacheType := .lru, cacheSize := 10, min := 0, max := 0, base := 0,
                  bitDepth := 0, tq := "", keys := true, noStd := false } :=
  ⟨{ defaultOpts with typ := .mutex, cacheType := .lru, cacheSize := 10, keys := true }, _, rfl, Or.inl rfl⟩

end PV.C08
