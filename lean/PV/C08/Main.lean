/-
pm_c08: model driver for C08.  One op per line; `case k` = a fresh data directory.

  cidx <i> <keys 0|1> <exist 0|1>                     create index        -> ok | err:exists
  cfld <i> <f> <type> <cacheType> <cacheSize> <min> <max> <quantum> <keys 0|1> <nostd 0|1>
        type: default|set|int|time|mutex|bool; cacheType: -|ranked|lru|none|bogus; quantum: -|Y|YM|...
                                                       create field        -> ok | err:exists | err:no-index |
                                                                              err:bad-option | err:bad-quantum | err:bad-cache
  dfld <i> <f> / didx <i>                              delete              -> ok | err:not-found | err:no-index
  opts <i> <f>                                         Field.Options()     -> type=.. cache=../.. min=.. max=.. base=.. depth=.. tq=.. keys=.. nostd=..
  iopts <i>                                            Index options       -> keys=.. exist=..
  schema                                               index and field names -> i:f,f;i:f
  setval <i> <f> <col> <v>                             PQL Set on an int field -> true|false|err:too-low|err:too-high
  kval <i> <f> <colkey> <v>                            PQL Set on an int field of a keyed index -> ok|err:too-low|err:too-high
  impval <i> <f> <0|1> <c:v,...>                       API.ImportValue     -> ok|err:too-low|err:too-high
  val <i> <f> <col>                                    Field.Value         -> <v>|null
  data <kind> <i> <f> ...                              writes to non-int fields (bit, tbit, clear, imp, bigimp, rattr, cattr);
                                                       interpreted by the model for unkeyed set fields of unkeyed
                                                       indexes (bit/clear/imp/bigimp), otherwise not            -> ok
  data bigimp <i> <f> <row> <shard> <n>                API.Import of n consecutive columns from column 1000 of the shard
  maxopn <i> <f> <n>                                   hook: fragment.MaxOpN of the field's fragments (n = 0: every
                                                       changing write ends in a snapshot, opN back to 0)        -> ok
  topn <i> <f>                                         RecalculateCaches; TopN(f)              -> row:count ... (count desc, row asc) | -
  topnids <i> <f> <ids>                                RecalculateCaches; TopN(f, ids=[...])   -> row:count ... | -
  reopen                                               the harness runs its query battery, closes the server, reopens
                                                       the directory and runs the battery again               -> same
`#spec` for `opts`/`val` after a restart is what they answered before it (Spec: restart = identity).
-/
import PV.Common.Proto
import PV.C08.Model
import PV.C08.Spec
open PV.Proto PV.C08 PV.C14

structure Fld where
  name : String
  opts : Opts
  cols : List Rec := []
  /-- bits of a plain (unkeyed) set field, and whether its caches went through Close + Open since
  the last write (then TopN is answered from the reopened caches) -/
  sd : SetData := {}
  reopened : Bool := false

structure Idx where
  name : String
  keys : Bool
  exist : Bool
  flds : List Fld := []

structure St where
  idxs : List Idx := []
  /-- the same state evolved by the specification of a restart (identity) -/
  spec : List Idx := []

def showFType : FType → String
  | .unset => "" | .set => "set" | .int => "int" | .time => "time" | .mutex => "mutex" | .bool => "bool"
  | .invalid => "invalid"

def showCType : CType → String
  | .unset => "" | .ranked => "ranked" | .lru => "lru" | .none => "none"

def showOpts (o : Opts) : String :=
  s!"type={showFType o.typ} cache={showCType o.cacheType}/{o.cacheSize} min={o.min} max={o.max} base={o.base} depth={o.bitDepth} tq={o.tq} keys={o.keys} nostd={o.noStd}"

def zeroOpts : Opts :=
  { typ := .unset, cacheType := .unset, cacheSize := 0, min := 0, max := 0, base := 0, bitDepth := 0,
    tq := "", keys := false, noStd := false }

def insertBy {α : Type} (key : α → String) (x : α) : List α → List α
  | [] => [x]
  | y :: ys => if key x < key y then x :: y :: ys else y :: insertBy key x ys

def findIdx (l : List Idx) (n : String) : Option Idx := l.find? (·.name = n)
def findFld (i : Idx) (n : String) : Option Fld := i.flds.find? (·.name = n)

def updIdx (l : List Idx) (i : Idx) : List Idx := l.map (fun x => if x.name = i.name then i else x)
def updFld (i : Idx) (f : Fld) : Idx := { i with flds := i.flds.map (fun x => if x.name = f.name then f else x) }

/-- The option record the functional options of `API.CreateField` build; `none` = an option fails. -/
def buildOpt (typ ct : String) (cs : Nat) (mn mx : Int) (tq : String) (keys nostd : Bool) :
    Except String Opts :=
  let ctv : Option CType := match ct with
    | "-" => some .unset | "ranked" => some .ranked | "lru" => some .lru | "none" => some .none | _ => none
  let q := if tq = "-" then "" else tq
  let base := { zeroOpts with keys := keys }
  match typ with
  | "default" => .ok base
  | "set" | "mutex" =>
    match ctv with
    | none => .error "err:bad-cache"
    | some c => .ok { base with typ := if typ = "set" then .set else .mutex, cacheType := c, cacheSize := cs }
  | "int" => if mn > mx then .error "err:bad-option" else .ok { base with typ := .int, min := mn, max := mx }
  | "time" => if validQuantum q then .ok { base with typ := .time, tq := q, noStd := nostd } else .error "err:bad-quantum"
  | "bool" => .ok { base with typ := .bool }
  | _ => .error "err:bad-option"

def existOpts : Opts :=
  match createOptions { zeroOpts with cacheType := .none } with
  | .ok o => o
  | .error _ => zeroOpts

def reopenFld (f : Fld) : Fld :=
  match reopenOptions (saveMeta f.opts) with
  | .ok o => { f with opts := o, reopened := true }
  | .error _ => f

/-- Single writes and bulk imports are interpreted for unkeyed set fields of unkeyed indexes. -/
def plain (ix : Idx) (f : Fld) : Bool := f.opts.typ == .set && !f.opts.keys && !ix.keys

def insertPair (p : Nat × Nat) : List (Nat × Nat) → List (Nat × Nat)
  | [] => [p]
  | q :: rest => if p.2 > q.2 || (p.2 == q.2 && p.1 < q.1) then p :: q :: rest else q :: insertPair p rest

def showPairs (ps : List (Nat × Nat)) : String :=
  if ps.isEmpty then "-" else " ".intercalate ((ps.foldl (fun acc p => insertPair p acc) []).map (fun p => s!"{p.1}:{p.2}"))

/-- `TopN(f)` after `RecalculateCaches`: from the caches as they are (rebuilt by openCache after a restart). -/
def fldTopN (f : Fld) : List (Nat × Nat) :=
  if f.opts.cacheType == .none then []
  else topN (f.sd.shards.map (fun s => if f.reopened then reopenCache f.sd s else fragCache f.sd s))

def parseRC (s : String) : Option (List (Nat × Nat)) :=
  (s.splitOn ",").mapM (fun it => match it.splitOn ":" with
    | [r, c] => do pure (← r.toNat?, ← c.toNat?)
    | _ => none)

def reopenAll (l : List Idx) : List Idx := l.map (fun i => { i with flds := i.flds.map reopenFld })

def b01 (s : String) : Bool := s = "1"

def parsePair (s : String) : Option (Nat × Int) :=
  match s.splitOn ":" with
  | [c, v] => do pure (← c.toNat?, ← v.toInt?)
  | _ => none

def parsePairs (s : String) : Option (List (Nat × Int)) :=
  if s = "-" || s = "" then some [] else (s.splitOn ",").mapM parsePair

def showOptI : Option Int → String
  | none => "null"
  | some v => toString v

/-- One op on one copy of the state (`restart` tells how a restart acts on it). -/
def apply (restart : List Idx → List Idx) (l : List Idx) (ws : List String) : List Idx × String :=
  match ws with
  | ["cidx", i, k, e] =>
    match findIdx l i with
    | some _ => (l, "err:exists")
    | none =>
      let flds := if b01 e then [{ name := "_exists", opts := existOpts : Fld }] else []
      (insertBy (·.name) { name := i, keys := b01 k, exist := b01 e, flds := flds } l, "ok")
  | ["cfld", i, f, typ, ct, cs, mn, mx, tq, k, ns] =>
    match cs.toNat?, mn.toInt?, mx.toInt? with
    | some cs, some mn, some mx =>
      match buildOpt typ ct cs mn mx tq (b01 k) (b01 ns) with
      | .error e => (l, e)
      | .ok opt =>
        match findIdx l i with
        | none => (l, "err:no-index")
        | some ix =>
          match findFld ix f with
          | some _ => (l, "err:exists")
          | none =>
            match createOptions opt with
            | .error .invalidTimeQuantum => (l, "err:bad-quantum")
            | .error _ => (l, "err:bad-option")
            | .ok o => (updIdx l { ix with flds := insertBy (·.name) { name := f, opts := o } ix.flds }, "ok")
    | _, _, _ => (l, "bad-op")
  | ["dfld", i, f] =>
    match findIdx l i with
    | none => (l, "err:no-index")
    | some ix =>
      match findFld ix f with
      | none => (l, "err:not-found")
      | some _ => (updIdx l { ix with flds := ix.flds.filter (·.name ≠ f) }, "ok")
  | ["didx", i] =>
    match findIdx l i with
    | none => (l, "err:no-index")
    | some _ => (l.filter (·.name ≠ i), "ok")
  | ["opts", i, f] =>
    match (findIdx l i).bind (findFld · f) with
    | none => (l, "err:not-found")
    | some fl => (l, showOpts fl.opts)
  | ["iopts", i] =>
    match findIdx l i with
    | none => (l, "err:not-found")
    | some ix => (l, s!"keys={ix.keys} exist={ix.exist}")
  | ["schema"] =>
    (l, ";".intercalate (l.map (fun ix => ix.name ++ ":" ++ ",".intercalate (ix.flds.map (·.name)))))
  | ["setval", i, f, c, v] =>
    match findIdx l i, c.toNat?, v.toInt? with
    | some ix, some c, some v =>
      match findFld ix f with
      | none => (l, "err:not-found")
      | some fl =>
        let (nf, r) := IntField.setValue ⟨fl.opts, fl.cols⟩ c v
        let out := match r with
          | .changed b => showBool b
          | .tooLow => "err:too-low"
          | .tooHigh => "err:too-high"
        (updIdx l (updFld ix { fl with opts := nf.opts, cols := nf.cols }), out)
    | _, _, _ => (l, "err:no-index")
  | ["kval", i, f, ck, v] =>
    -- value write on a keyed index: the column id comes from key translation (C24); only the
    -- bit-depth growth matters here, values of keyed columns are checked by the battery
    match findIdx l i, v.toInt? with
    | some ix, some v =>
      match findFld ix f with
      | none => (l, "err:not-found")
      | some fl =>
        let (nf, r) := IntField.setValue ⟨fl.opts, fl.cols⟩ (ck.hash.toNat % 1048576) v
        let out := match r with
          | .changed _ => "ok"
          | .tooLow => "err:too-low"
          | .tooHigh => "err:too-high"
        (updIdx l (updFld ix { fl with opts := nf.opts, cols := nf.cols }), out)
    | _, _ => (l, "err:no-index")
  | ["impval", i, f, cl, ps] =>
    match findIdx l i, parsePairs ps with
    | some ix, some pairs =>
      match findFld ix f with
      | none => (l, "err:not-found")
      | some fl =>
        let (nf, r) := IntField.importValue ⟨fl.opts, fl.cols⟩ pairs (b01 cl)
        let out := match r with
          | .ok => "ok"
          | .tooLow => "err:too-low"
          | .tooHigh => "err:too-high"
        (updIdx l (updFld ix { fl with opts := nf.opts, cols := nf.cols }), out)
    | _, _ => (l, "err:no-index")
  | ["val", i, f, c] =>
    match (findIdx l i).bind (findFld · f), c.toNat? with
    | some fl, some c => (l, showOptI (IntField.value ⟨fl.opts, fl.cols⟩ c))
    | _, _ => (l, "err:not-found")
  | "data" :: kind :: i :: rest =>
    match findIdx l i with
    | none => (l, "err:no-index")
    | some ix =>
      if kind = "cattr" then (l, "ok")
      else match rest with
        | f :: args =>
          match findFld ix f with
          | none => (l, "err:not-found")
          | some fl =>
            if !plain ix fl then (l, "ok")
            else
              let upd (sd : SetData) : List Idx × String :=
                (updIdx l (updFld ix { fl with sd := sd, reopened := false }), "ok")
              match kind, args with
              | "bit", [r, c] =>
                match r.toNat?, c.toNat? with
                | some r, some c => upd (fl.sd.setBit r c)
                | _, _ => (l, "ok")
              | "clear", [r, c] =>
                match r.toNat?, c.toNat? with
                | some r, some c => upd (fl.sd.clearBit r c)
                | _, _ => (l, "ok")
              | "imp", [ps] =>
                match parseRC ps with
                | some rcs => upd (rcs.foldl (fun sd rc => sd.setBit rc.1 rc.2) fl.sd)
                | none => (l, "bad-op")
              | "bigimp", [r, sh, n] =>
                match r.toNat?, sh.toNat?, n.toNat? with
                | some r, some sh, some n => upd (fl.sd.bulkImport r sh n)
                | _, _, _ => (l, "bad-op")
              | _, _ => (l, "ok")
        | [] => (l, "bad-op")
  | ["maxopn", i, f, _] =>
    match (findIdx l i).bind (findFld · f) with
    | none => (l, "err:not-found")
    | some _ => (l, "ok")
  | ["topn", i, f] =>
    match (findIdx l i).bind (findFld · f) with
    | none => (l, "err:not-found")
    | some fl => (l, showPairs (fldTopN fl))
  | ["topnids", i, f, ids] =>
    match (findIdx l i).bind (findFld · f), csvNats? ids with
    | some fl, some ids => (l, showPairs ((fldTopN fl).filter (fun p => ids.contains p.1)))
    | _, _ => (l, "err:not-found")
  | ["reopen"] => (restart l, "same")
  | _ => (l, "bad-op")

def step (s : St) (ws : List String) : St × Ans :=
  let (m, mo) := apply reopenAll s.idxs ws
  let (sp, so) := apply id s.spec ws
  ({ idxs := m, spec := sp }, ans2 mo so (ws.headD "?"))

def main : IO Unit := run ({} : St) step
