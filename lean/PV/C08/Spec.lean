/-
C08 spec: a clean restart changes nothing — the options of every field after Close + Open are the
options before, and every stored integer value reads the same.
-/
import PV.C08.Model
namespace PV.C08.Spec
open PV.C08

/-- Options after a restart. -/
def reopenOptions (o : Opts) : Opts := o

/-- An int field after a restart. -/
def reopen (f : IntField) : IntField := f

end PV.C08.Spec
