/-
C08 model: field metadata across a clean restart.  Core Lean only.  Follows field.go / index.go
(tree = /repo with the `fix:` commits of verif/a06):

  FieldOptions, applyDefaultOptions, OptFieldType*            the option record and its constructors
  Index.createField: newField(default) → Open → applyOptions(opt) → saveMeta
  Field.applyOptions                                           per field type, as coded
  FieldOptions.encode / Field.saveMeta                         the record written to `.meta`
  Field.loadMeta                                               with the `BitDepth == 0` "v1 upgrade" branch
  Field.Open on an existing directory: newField(default) → loadMeta → applyOptions(f.options)
  Field.SetValue / importValue                                 bit-depth growth + saveMeta (PV.C14.Model)

The protobuf encoding of `internal.FieldOptions` is trusted to round-trip (C27 covers codecs):
`Meta` is the decoded record.  Strings that are enumerations in the code (`Type`, `CacheType`) are
inductive types here; the time quantum stays a string with the code's validity test.
-/
import PV.C14.Model
namespace PV.C08
open PV.C14

/-- `FieldOptions.Type`: "", set, int, time, mutex, bool, anything else. -/
inductive FType | unset | set | int | time | mutex | bool | invalid
deriving DecidableEq, Repr

/-- `FieldOptions.CacheType`: "", ranked, lru, none. -/
inductive CType | unset | ranked | lru | none
deriving DecidableEq, Repr

/-- `FieldOptions`. -/
structure Opts where
  typ : FType
  cacheType : CType
  cacheSize : Nat
  min : Int
  max : Int
  base : Int
  bitDepth : Nat
  tq : String
  keys : Bool
  noStd : Bool
deriving DecidableEq, Repr

/-- `internal.FieldOptions`: what `.meta` holds. -/
structure Meta where
  typ : FType
  cacheType : CType
  cacheSize : Nat
  min : Int
  max : Int
  base : Int
  bitDepth : Nat
  tq : String
  keys : Bool
  noStd : Bool
deriving DecidableEq, Repr

def defaultCacheSize : Nat := 50000

/-- `OptFieldTypeDefault()` applied to the zero record: what `newField` starts every field with. -/
def defaultOpts : Opts :=
  { typ := .set, cacheType := .ranked, cacheSize := defaultCacheSize, min := 0, max := 0, base := 0,
    bitDepth := 0, tq := "", keys := false, noStd := false }

/-- `TimeQuantum.Valid`. -/
def validQuantum (q : String) : Bool :=
  ["Y", "YM", "YMD", "YMDH", "M", "MD", "MDH", "D", "DH", "H", ""].contains q

inductive Err | invalidFieldType | invalidTimeQuantum | invalidCacheType
deriving DecidableEq, Repr

/-- `Field.applyOptions(opt)` on a field whose options are `cur`. -/
def applyOptions (cur opt : Opts) : Except Err Opts :=
  match opt.typ with
  | .set | .mutex | .unset =>
    let cacheType := if opt.cacheType ≠ .unset then opt.cacheType else cur.cacheType
    let cacheSize := if opt.cacheSize ≠ 0 then opt.cacheSize else cur.cacheSize
    .ok { cur with
      typ := if opt.typ = .unset then .set else opt.typ
      cacheType := cacheType
      cacheSize := if cacheType = .none then 0 else cacheSize
      min := 0, max := 0, base := 0, bitDepth := 0, tq := "", keys := opt.keys }
  | .int =>
    .ok { cur with
      typ := .int, cacheType := .none, cacheSize := 0
      min := opt.min, max := opt.max, base := opt.base
      bitDepth := if opt.bitDepth = 0 then 1 else opt.bitDepth
      tq := "", keys := opt.keys }
  | .time =>
    if validQuantum opt.tq then
      .ok { cur with
        typ := .time, cacheType := .none, cacheSize := 0
        min := 0, max := 0, base := 0, bitDepth := 0
        keys := opt.keys, noStd := opt.noStd, tq := opt.tq }
    else .error .invalidTimeQuantum
  | .bool =>
    .ok { cur with
      typ := .bool, cacheType := .none, cacheSize := 0
      min := 0, max := 0, base := 0, bitDepth := 0, tq := "", keys := false }
  | .invalid => .error .invalidFieldType

/-- `Index.createField`: a fresh field (default options, no meta file) gets `opt` applied. -/
def createOptions (opt : Opts) : Except Err Opts :=
  -- Open() of the fresh field: loadMeta finds nothing, applyOptions(default options)
  match applyOptions defaultOpts defaultOpts with
  | .ok cur => applyOptions cur opt
  | .error e => .error e

/-- `FieldOptions.encode` (what `saveMeta` marshals). -/
def saveMeta (o : Opts) : Meta :=
  { typ := o.typ, cacheType := o.cacheType, cacheSize := o.cacheSize, min := o.min, max := o.max,
    base := o.base, bitDepth := o.bitDepth, tq := o.tq, keys := o.keys, noStd := o.noStd }

/-- `Field.loadMeta`: the "v1 upgrade" branch rewrites base and bit depth when the stored bit depth
is zero; then every option is copied from the file. -/
def loadMeta (pb : Meta) : Opts :=
  let pb :=
    if pb.bitDepth = 0 then
      let bd := bitDepthInt (pb.max - pb.min)
      { pb with base := pb.min, bitDepth := if bd = 0 then 1 else bd }
    else pb
  { typ := pb.typ, cacheType := pb.cacheType, cacheSize := pb.cacheSize, min := pb.min, max := pb.max,
    base := pb.base, bitDepth := pb.bitDepth, tq := pb.tq, keys := pb.keys, noStd := pb.noStd }

/-- `Field.Open` on an existing field directory: options from the meta file, then
`applyOptions(f.options)`. -/
def reopenOptions (pb : Meta) : Except Err Opts :=
  let o := loadMeta pb
  applyOptions o o

/-! ### The TopN cache of a set field across a restart

`fragment.close` → `flushCache` writes the row ids held by the fragment's rank / LRU cache to the
`.cache` file; `fragment.Open` → `openCache` reads the ids, recounts every row from storage
(`CountRange`) and `BulkAdd`s it (a row whose count is zero is not kept).  The model is for rows that
fit the cache (no eviction, no threshold cut), counts exact after `RecalculateCaches` (C12). -/

/-- Bits of a plain set field: single writes as (row, column), and bulk imports of `n` consecutive
columns of a shard starting at column 1000 of that shard — a region single writes never touch —
as (row, shard, n), at most one entry per (row, shard). -/
structure SetData where
  bits : List (Nat × Nat) := []
  bulk : List (Nat × Nat × Nat) := []
deriving Repr

def SetData.setBit (d : SetData) (row col : Nat) : SetData :=
  if d.bits.contains (row, col) then d else { d with bits := (row, col) :: d.bits }

def SetData.clearBit (d : SetData) (row col : Nat) : SetData :=
  { d with bits := d.bits.filter (· != (row, col)) }

def SetData.bulkImport (d : SetData) (row shard n : Nat) : SetData :=
  let old := ((d.bulk.filter (fun b => b.1 == row && b.2.1 == shard)).map (·.2.2)).foldl Nat.max 0
  { d with bulk := (row, shard, Nat.max old n) :: d.bulk.filter (fun b => !(b.1 == row && b.2.1 == shard)) }

/-- Number of bits of `row` in the fragment of `shard` (what `CountRange` over the row returns). -/
def SetData.count (d : SetData) (shard row : Nat) : Nat :=
  (d.bits.filter (fun b => b.1 == row && b.2 / shardWidth == shard)).length +
  ((d.bulk.filter (fun b => b.1 == row && b.2.1 == shard)).map (·.2.2)).foldl (· + ·) 0

def SetData.rows (d : SetData) : List Nat :=
  (d.bits.map (·.1) ++ d.bulk.map (·.1)).foldl (fun acc r => insertAsc r acc) []

def SetData.shards (d : SetData) : List Nat :=
  (d.bits.map (fun b => b.2 / shardWidth) ++ d.bulk.map (·.2.1)).foldl (fun acc r => insertAsc r acc) []

/-- A fragment's cache: row ↦ count, ascending by row. -/
abbrev Cache := List (Nat × Nat)

/-- What a cache holds for a row with `n` bits: nothing for `n = 0`. -/
def cacheEntry (count : Nat → Nat) (row : Nat) : Option (Nat × Nat) :=
  if count row > 0 then some (row, count row) else none

/-- The cache of the fragment of `shard` before the restart. -/
def fragCache (d : SetData) (shard : Nat) : Cache := d.rows.filterMap (cacheEntry (d.count shard))

/-- `fragment.flushCache`: the ids of the cache go to the `.cache` file. -/
def flushCache (c : Cache) : List Nat := c.map (·.1)

/-- `fragment.openCache`: every id of the file is recounted from storage and added. -/
def openCache (ids : List Nat) (count : Nat → Nat) : Cache := ids.filterMap (cacheEntry count)

/-- Close + Open of one fragment's cache. -/
def reopenCache (d : SetData) (shard : Nat) : Cache :=
  openCache (flushCache (fragCache d shard)) (d.count shard)

def addPair (acc : List (Nat × Nat)) (p : Nat × Nat) : List (Nat × Nat) :=
  match acc with
  | [] => [p]
  | q :: rest => if q.1 = p.1 then (q.1, q.2 + p.2) :: rest else q :: addPair rest p

/-- `TopN(f)` without a limit: the per-fragment caches merged by row, counts added. -/
def topN (caches : List Cache) : List (Nat × Nat) := caches.flatten.foldl addPair []

/-- The bsiGroup of an int field. -/
def Opts.bsi (o : Opts) : BSI := ⟨o.min, o.max, o.base, o.bitDepth⟩

/-- An int field: options plus the columns of its BSI view. -/
structure IntField where
  opts : Opts
  cols : List Rec
deriving Repr

def IntField.toField (f : IntField) : Field := ⟨f.opts.bsi, f.cols⟩

/-- `Field.SetValue`: the bit depth may grow (saved to `.meta` at once). -/
def IntField.setValue (f : IntField) (c : Nat) (v : Int) : IntField × SetRes :=
  let (g, r) := f.toField.setValue c v
  ({ opts := { f.opts with bitDepth := g.g.depth }, cols := g.cols }, r)

def IntField.importValue (f : IntField) (pairs : List (Nat × Int)) (clear : Bool) : IntField × ImpRes :=
  let (g, r) := f.toField.importValue pairs clear
  ({ opts := { f.opts with bitDepth := g.g.depth }, cols := g.cols }, r)

def IntField.value (f : IntField) (c : Nat) : Option Int := f.toField.value c

/-- Close + reopen of an int field: the fragment files are unchanged (C05/C09), the options come
back through the meta file. -/
def IntField.reopen (f : IntField) : Except Err IntField :=
  match reopenOptions (saveMeta f.opts) with
  | .ok o => .ok { opts := o, cols := f.cols }
  | .error e => .error e

end PV.C08
