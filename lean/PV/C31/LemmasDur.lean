/-
C31 helper lemmas: `time.ParseDuration` reads back what `time.Duration.String` prints.  Core Lean only.
-/
import PV.C31.Model
import PV.C31.LemmasToml
namespace PV.C31
open List

/-! ### spans -/

theorem span_append (p : Char → Bool) : ∀ (k rest : Str), (∀ c ∈ k, p c = true) →
    (∀ c, rest.head? = some c → p c = false) →
    (k ++ rest).takeWhile p = k ∧ (k ++ rest).dropWhile p = rest
  | [], rest, _, hr => by
    cases rest with
    | nil => simp
    | cons c cs => simp [hr c rfl]
  | c :: cs, rest, hk, hr => by
    have hc := hk c (by simp)
    obtain ⟨i1, i2⟩ := span_append p cs rest (fun d hd => hk d (by simp [hd])) hr
    simp [hc, i1, i2]

/-! ### digits -/

def digitsVal (ds : Str) : Nat := Nat.ofDigitChars 10 ds 0

theorem digitsVal_cons (c : Char) (cs : Str) :
    digitsVal (c :: cs) = 10 ^ cs.length * (c.toNat - 48) + digitsVal cs := by
  unfold digitsVal
  rw [Nat.ofDigitChars_cons, Nat.ofDigitChars_eq_ofDigitChars_zero]
  simp

theorem digitChar_isDigit (d : Nat) (h : d < 10) : (Nat.digitChar d).isDigit = true := by
  revert d; decide

theorem digitChar_val (d : Nat) (h : d < 10) : (Nat.digitChar d).toNat - 48 = d := by
  revert d; decide

/-! ### fmtFrac -/

theorem arith1 (a b t z : Nat) : a * (t * 10) + (t * b + z) = (b + 10 * a) * t + z := by
  have h1 : a * (t * 10) = 10 * a * t := by ac_rfl
  have h2 : t * b = b * t := Nat.mul_comm _ _
  rw [Nat.add_mul, h1, h2]; omega

theorem arith2 (a b : Nat) : 10 * (a * b) = a * (b * 10) := by ac_rfl

/-- What `fmtFrac` leaves: nothing for a zero fraction, otherwise `.` and 1..p digits whose value,
shifted to p digits, is the fraction. -/
def FracOK (p : Nat) (fr : Str) (x : Nat) : Prop :=
  (x = 0 ∧ fr = []) ∨
  ∃ ds, fr = '.' :: ds ∧ (∀ c ∈ ds, c.isDigit = true) ∧ 1 ≤ ds.length ∧ ds.length ≤ p ∧
    digitsVal ds * 10 ^ (p - ds.length) = x

theorem fmtFrac_print : ∀ (p v : Nat) (acc : Str), (∀ c ∈ acc, c.isDigit = true) →
    ∃ ds, fmtFrac p v true acc = ('.' :: ds, v / 10 ^ p) ∧ (∀ c ∈ ds, c.isDigit = true) ∧
      ds.length = p + acc.length ∧ digitsVal ds = (v % 10 ^ p) * 10 ^ acc.length + digitsVal acc
  | 0, v, acc, h => ⟨acc, by simp [fmtFrac], h, by simp, by simp [Nat.mod_one]⟩
  | p + 1, v, acc, h => by
    have hd : v % 10 < 10 := Nat.mod_lt _ (by decide)
    have hacc : ∀ c ∈ Nat.digitChar (v % 10) :: acc, c.isDigit = true := by
      intro c hc
      rcases mem_cons.mp hc with rfl | hc
      · exact digitChar_isDigit _ hd
      · exact h c hc
    obtain ⟨ds, e, hds, hl, hv⟩ := fmtFrac_print p (v / 10) (Nat.digitChar (v % 10) :: acc) hacc
    refine ⟨ds, ?_, hds, by simp [hl]; omega, ?_⟩
    · simp only [fmtFrac, Bool.true_or, if_true]
      rw [e, Nat.pow_succ, Nat.mul_comm, Nat.div_div_eq_div_mul]
    · have hmod : v % 10 ^ (p + 1) = v % 10 + 10 * (v / 10 % 10 ^ p) := by
        rw [Nat.pow_succ, Nat.mul_comm, Nat.mod_mul]
      rw [hv, digitsVal_cons, digitChar_val _ hd, length_cons, Nat.pow_succ, hmod]
      exact arith1 _ _ _ _

theorem fmtFrac_spec : ∀ (p v : Nat),
    (fmtFrac p v false []).2 = v / 10 ^ p ∧ FracOK p (fmtFrac p v false []).1 (v % 10 ^ p)
  | 0, v => by simp [fmtFrac, FracOK, Nat.mod_one]
  | p + 1, v => by
    have hd : v % 10 < 10 := Nat.mod_lt _ (by decide)
    have hmod : v % 10 ^ (p + 1) = v % 10 + 10 * (v / 10 % 10 ^ p) := by
      rw [Nat.pow_succ, Nat.mul_comm, Nat.mod_mul]
    have hdiv : v / 10 ^ (p + 1) = v / 10 / 10 ^ p := by
      rw [Nat.pow_succ, Nat.mul_comm, Nat.div_div_eq_div_mul]
    by_cases h0 : v % 10 = 0
    · obtain ⟨e1, e2⟩ := fmtFrac_spec p (v / 10)
      have step : fmtFrac (p + 1) v false [] = fmtFrac p (v / 10) false [] := by
        simp [fmtFrac, h0]
      rw [step]
      refine ⟨by rw [e1, hdiv], ?_⟩
      rcases e2 with ⟨z, hfr⟩ | ⟨ds, hfr, hds, l1, l2, hv⟩
      · left; exact ⟨by rw [hmod, h0, z], hfr⟩
      · right
        refine ⟨ds, hfr, hds, l1, by omega, ?_⟩
        rw [hmod, h0, ← hv, show p + 1 - ds.length = (p - ds.length) + 1 by omega, Nat.pow_succ,
          Nat.zero_add]
        exact (arith2 _ _).symm
    · have hacc : ∀ c ∈ [Nat.digitChar (v % 10)], c.isDigit = true := by
        intro c hc; simp only [mem_singleton] at hc; subst hc; exact digitChar_isDigit _ hd
      obtain ⟨ds, e, hds, hl, hv⟩ := fmtFrac_print p (v / 10) [Nat.digitChar (v % 10)] hacc
      have step : fmtFrac (p + 1) v false [] = fmtFrac p (v / 10) true [Nat.digitChar (v % 10)] := by
        simp [fmtFrac, h0]
      rw [step, e]
      refine ⟨hdiv.symm, Or.inr ⟨ds, rfl, hds, by simp at hl; omega, by simp at hl; omega, ?_⟩⟩
      simp only [length_singleton] at hl
      rw [hl, Nat.sub_self, Nat.pow_zero, Nat.mul_one, hv, hmod, digitsVal_cons, digitChar_val _ hd]
      simp [digitsVal]
      omega

/-! ### one group -/

theorem pow63 : (2 : Nat) ^ 63 = 9223372036854775808 := by decide

theorem isDigit_val_lt {c : Char} (h : c.isDigit = true) : c.toNat - 48 < 10 := by
  simp only [Char.isDigit, Bool.and_eq_true, decide_eq_true_eq] at h
  have h2 : c.val ≤ 57 := h.2
  have h2' : c.toNat ≤ 57 := UInt32.le_iff_toNat_le.mp h2
  omega

theorem fracAcc_small : ∀ (ds : Str) (x k : Nat), (∀ c ∈ ds, c.isDigit = true) →
    x * 10 ^ ds.length + digitsVal ds < 10 ^ 17 →
    fracAcc ds x k false = (x * 10 ^ ds.length + digitsVal ds, k + ds.length)
  | [], x, k, _, _ => by simp [fracAcc, digitsVal]
  | c :: cs, x, k, hd, hb => by
    have hc := isDigit_val_lt (hd c (by simp))
    have e : x * 10 ^ (c :: cs).length + digitsVal (c :: cs) =
        (x * 10 + (c.toNat - 48)) * 10 ^ cs.length + digitsVal cs := by
      rw [digitsVal_cons, length_cons, Nat.pow_succ, Nat.add_mul]
      have : x * (10 ^ cs.length * 10) = x * 10 * 10 ^ cs.length := by ac_rfl
      rw [this, Nat.mul_comm (10 ^ cs.length) (c.toNat - 48)]; omega
    rw [e] at hb ⊢
    have hpos : 1 ≤ 10 ^ cs.length := Nat.pow_pos (by decide)
    have hy : x * 10 + (c.toNat - 48) < 10 ^ 17 := by
      have : x * 10 + (c.toNat - 48) ≤ (x * 10 + (c.toNat - 48)) * 10 ^ cs.length :=
        Nat.le_mul_of_pos_right _ hpos
      omega
    have h17 : (10 : Nat) ^ 17 = 100000000000000000 := by decide
    have hx1 : ¬ x > (2 ^ 63 - 1) / 10 := by rw [pow63]; omega
    have hy1 : ¬ x * 10 + (c.toNat - 48) > 2 ^ 63 := by rw [pow63]; omega
    simp only [fracAcc, Bool.false_eq_true, if_false, hx1, hy1]
    rw [fracAcc_small cs _ (k + 1) (fun d hd' => hd d (by simp [hd'])) hb]
    simp only [length_cons]
    congr 1; omega

theorem splitFrac_other (c : Char) (r : Str) (h : c ≠ '.') : splitFrac (c :: r) = ([], c :: r) := by
  unfold splitFrac
  split
  · rename_i heq; simp only [cons.injEq] at heq; exact absurd heq.1 h
  · rfl

theorem not_num_not_digit {c : Char} (h : isNumChar c = false) : c.isDigit = false ∧ c ≠ '.' := by
  simp only [isNumChar, Bool.or_eq_false_iff, decide_eq_false_iff_not] at h
  exact h

theorem parseGroup_fmt (i : Nat) (fr u rest : Str) (unit p x : Nat)
    (hfr : FracOK p fr x) (hp : p ≤ 9) (hx : x < 10 ^ p)
    (hunit : unitOf u = some unit) (hu1 : u ≠ []) (hu2 : ∀ c ∈ u, isNumChar c = false)
    (hrest : ∀ c, rest.head? = some c → c.isDigit = true)
    (hfrac : fr ≠ [] → unit = 10 ^ p) (hunit1 : 1 ≤ unit)
    (hbound : i * unit + x ≤ 2 ^ 63) :
    parseGroup (Nat.toDigits 10 i ++ (fr ++ (u ++ rest))) = some (i * unit + x, rest) := by
  obtain ⟨c, t, hI, hc⟩ := digits_head i
  have hIall : ∀ d ∈ Nat.toDigits 10 i, d.isDigit = true := by
    have := digits_all i; rwa [all_eq_true] at this
  obtain ⟨c0, u', hu⟩ : ∃ c0 u', u = c0 :: u' := by
    cases u with
    | nil => exact absurd rfl hu1
    | cons a b => exact ⟨a, b, rfl⟩
  have hc0 := not_num_not_digit (hu2 c0 (by rw [hu]; simp))
  -- the unit and what follows it
  have hspanU : (u ++ rest).takeWhile (fun c => !isNumChar c) = u ∧
      (u ++ rest).dropWhile (fun c => !isNumChar c) = rest := by
    apply span_append
    · intro d hd; simp [hu2 d hd]
    · intro d hd; simp [isNumChar, hrest d hd]
  have hival : Nat.ofDigitChars 10 (Nat.toDigits 10 i) 0 = i := Nat.ofDigitChars_ten_toDigits
  have hi63 : ¬ i > 2 ^ 63 := by
    have : i ≤ i * unit := Nat.le_mul_of_pos_right _ hunit1
    omega
  have hidiv : ¬ i > 2 ^ 63 / unit := by
    have : i ≤ 2 ^ 63 / unit := (Nat.le_div_iff_mul_le hunit1).mpr (by omega)
    omega
  -- the fraction
  have key : ∃ fd, splitFrac (fr ++ (u ++ rest)) = (fd, u ++ rest) ∧ groupValue i unit fd = i * unit + x ∧
      (∀ d, (fr ++ (u ++ rest)).head? = some d → d.isDigit = false) := by
    rcases hfr with ⟨hx0, hfr0⟩ | ⟨ds, hfrd, hds, l1, l2, hv⟩
    · subst hfr0
      refine ⟨[], ?_, ?_, ?_⟩
      · simp only [nil_append, hu, cons_append]; exact splitFrac_other c0 _ hc0.2
      · simp [groupValue, fracAcc, hx0]
      · intro d hd; simp only [nil_append, hu, cons_append, head?_cons, Option.some.injEq] at hd
        subst hd; exact hc0.1
    · subst hfrd
      have hun : unit = 10 ^ p := hfrac (by simp)
      have hspanD : (ds ++ (u ++ rest)).takeWhile Char.isDigit = ds ∧
          (ds ++ (u ++ rest)).dropWhile Char.isDigit = u ++ rest := by
        apply span_append _ _ _ hds
        intro d hd; simp only [hu, cons_append, head?_cons, Option.some.injEq] at hd
        subst hd; exact hc0.1
      have hpos : 1 ≤ 10 ^ (p - ds.length) := Nat.pow_pos (by decide)
      have hle : digitsVal ds ≤ x := by
        rw [← hv]; exact Nat.le_mul_of_pos_right _ hpos
      have h9 : (10 : Nat) ^ p ≤ 10 ^ 9 := Nat.pow_le_pow_right (by decide) hp
      have hsmall : 0 * 10 ^ ds.length + digitsVal ds < 10 ^ 17 := by
        have : (10 : Nat) ^ 9 < 10 ^ 17 := by decide
        omega
      have hacc := fracAcc_small ds 0 0 hds hsmall
      simp only [Nat.zero_mul, Nat.zero_add] at hacc
      refine ⟨ds, ?_, ?_, ?_⟩
      · simp only [cons_append, splitFrac, hspanD.1, hspanD.2]
      · simp only [groupValue, hacc]
        by_cases hz : digitsVal ds > 0
        · rw [if_pos hz, hun]
          have hsplit : (10 : Nat) ^ p = 10 ^ (p - ds.length) * 10 ^ ds.length := by
            rw [← Nat.pow_add]; congr 1; omega
          have hq : digitsVal ds * 10 ^ p / 10 ^ ds.length = x := by
            rw [hsplit, ← Nat.mul_assoc,
              Nat.mul_div_cancel _ (Nat.pow_pos (by decide : 0 < 10)), hv]
          rw [hq]
        · have : digitsVal ds = 0 := by omega
          rw [if_neg hz]
          rw [this] at hv
          simp at hv
          omega
      · intro d hd; simp only [cons_append, head?_cons, Option.some.injEq] at hd
        subst hd; decide
  obtain ⟨fd, hsf, hgv, hhead⟩ := key
  have hspanI : (Nat.toDigits 10 i ++ (fr ++ (u ++ rest))).takeWhile Char.isDigit = Nat.toDigits 10 i ∧
      (Nat.toDigits 10 i ++ (fr ++ (u ++ rest))).dropWhile Char.isDigit = fr ++ (u ++ rest) :=
    span_append _ _ _ hIall hhead
  have hne : Nat.toDigits 10 i ≠ [] := Nat.toDigits_ne_nil
  have hnum : isNumChar c = true := by simp [isNumChar, hc]
  have hshape : Nat.toDigits 10 i ++ (fr ++ (u ++ rest)) = c :: (t ++ (fr ++ (u ++ rest))) := by
    rw [hI]; rfl
  unfold parseGroup
  rw [hshape] at hspanI ⊢
  simp only [hnum, Bool.not_true, Bool.false_eq_true, if_false, hspanI.1, hspanI.2, hival, hi63,
    hsf, hspanU.1, hspanU.2, hne, false_and, hu1, hunit, hidiv, hgv]
  have : ¬ i * unit + x > 2 ^ 63 := by omega
  simp only [this, if_false]

/-! ### the whole text -/

theorem parseGroups_nil (fuel d : Nat) (h : 0 < fuel) : parseGroups fuel [] d = some d := by
  cases fuel with
  | zero => omega
  | succ f => simp [parseGroups]

theorem parseGroups_step (fuel : Nat) (s rest : Str) (d v : Nat) (h : 0 < fuel) (hs : s ≠ [])
    (hg : parseGroup s = some (v, rest)) (hb : d + v ≤ 2 ^ 63) :
    parseGroups fuel s d = parseGroups (fuel - 1) rest (d + v) := by
  cases fuel with
  | zero => omega
  | succ f =>
    have : ¬ d + v > 2 ^ 63 := by omega
    simp [parseGroups, hs, hg, this]

theorem digits_pos (n : Nat) : 0 < (Nat.toDigits 10 n).length := Nat.length_toDigits_pos

theorem digits_head_digit (n : Nat) (rest : Str) :
    ∀ c, (Nat.toDigits 10 n ++ rest).head? = some c → c.isDigit = true := by
  obtain ⟨c, t, h, hc⟩ := digits_head n
  intro d hd
  rw [h] at hd
  simp only [cons_append, head?_cons, Option.some.injEq] at hd
  subst hd; exact hc

theorem fracOK_nil : FracOK 0 [] 0 := Or.inl ⟨rfl, rfl⟩

/-- Parsing the text of one or more groups printed by `durFormat` gives the value back. -/
theorem parseGroups_durFormat (u : Nat) (hu : u ≤ 2 ^ 63) :
    parseGroups ((durFormat u).length + 1) (durFormat u) 0 = some u ∧
    (∀ c, (durFormat u).head? = some c → c.isDigit = true) ∧ 2 ≤ (durFormat u).length := by
  have hrest0 : ∀ c, ([] : Str).head? = some c → c.isDigit = true := by intro c h; cases h
  unfold durFormat
  simp only [fmtInt]
  by_cases h9 : u < 1000000000
  · rw [if_pos h9]
    by_cases h0 : u = 0
    · subst h0; decide
    rw [if_neg h0]
    by_cases h3 : u < 1000
    · rw [if_pos h3]
      have g := parseGroup_fmt u [] ['n', 's'] [] 1 0 0 fracOK_nil (by decide) (by decide)
        (by decide) (by decide) (by decide) hrest0 (by intro h; exact absurd rfl h) (by decide)
        (by omega)
      simp only [nil_append, append_nil, Nat.mul_one, Nat.add_zero] at g
      have hl := digits_pos u
      refine ⟨?_, digits_head_digit u _, by simp only [length_append, length_cons, length_nil]; omega⟩
      rw [parseGroups_step _ _ [] 0 u (by omega) (by simp [Nat.toDigits_ne_nil]) g (by omega)]
      rw [parseGroups_nil _ _ (by simp only [length_append, length_cons, length_nil]; omega)]; simp
    rw [if_neg h3]
    by_cases h6 : u < 1000000
    · rw [if_pos h6]
      obtain ⟨e1, e2⟩ := fmtFrac_spec 3 u
      rw [e1]
      have g := parseGroup_fmt (u / 10 ^ 3) (fmtFrac 3 u false []).1 ['µ', 's'] [] 1000 3 (u % 10 ^ 3) e2
        (by decide) (Nat.mod_lt _ (by decide)) (by decide) (by decide) (by decide) hrest0
        (fun _ => by decide) (by decide) (by have := Nat.div_add_mod u (10 ^ 3); omega)
      simp only [append_nil] at g
      have hval : u / 10 ^ 3 * 1000 + u % 10 ^ 3 = u := by have := Nat.div_add_mod u (10 ^ 3); omega
      rw [hval] at g
      have hl := digits_pos (u / 10 ^ 3)
      refine ⟨?_, digits_head_digit _ _, by simp only [length_append, length_cons, length_nil]; omega⟩
      rw [parseGroups_step _ _ [] 0 u (by omega) (by simp [Nat.toDigits_ne_nil]) g (by omega)]
      rw [parseGroups_nil _ _ (by simp only [length_append, length_cons, length_nil]; omega)]; simp
    · rw [if_neg h6]
      obtain ⟨e1, e2⟩ := fmtFrac_spec 6 u
      rw [e1]
      have g := parseGroup_fmt (u / 10 ^ 6) (fmtFrac 6 u false []).1 ['m', 's'] [] 1000000 6 (u % 10 ^ 6) e2
        (by decide) (Nat.mod_lt _ (by decide)) (by decide) (by decide) (by decide) hrest0
        (fun _ => by decide) (by decide) (by have := Nat.div_add_mod u (10 ^ 6); omega)
      simp only [append_nil] at g
      have hval : u / 10 ^ 6 * 1000000 + u % 10 ^ 6 = u := by have := Nat.div_add_mod u (10 ^ 6); omega
      rw [hval] at g
      have hl := digits_pos (u / 10 ^ 6)
      refine ⟨?_, digits_head_digit _ _, by simp only [length_append, length_cons, length_nil]; omega⟩
      rw [parseGroups_step _ _ [] 0 u (by omega) (by simp [Nat.toDigits_ne_nil]) g (by omega)]
      rw [parseGroups_nil _ _ (by simp only [length_append, length_cons, length_nil]; omega)]; simp
  · rw [if_neg h9]
    obtain ⟨e1, e2⟩ := fmtFrac_spec 9 u
    simp only [e1]
    have hdm := Nat.div_add_mod u (10 ^ 9)
    have hp9 : (10 : Nat) ^ 9 = 1000000000 := by decide
    generalize hv : u / 10 ^ 9 = v at *
    generalize hx : u % 10 ^ 9 = x at *
    have hxlt : x < 10 ^ 9 := by rw [← hx]; exact Nat.mod_lt _ (by decide)
    -- the seconds group, after groups worth `d`
    have gs : ∀ (s : Nat), s * 1000000000 + x ≤ 2 ^ 63 →
        parseGroup (Nat.toDigits 10 s ++ ((fmtFrac 9 u false []).1 ++ (['s'] ++ []))) =
          some (s * 1000000000 + x, []) := fun s hs =>
      parseGroup_fmt s _ ['s'] [] 1000000000 9 x e2 (by decide) hxlt (by decide) (by decide)
        (by decide) hrest0 (fun _ => by decide) (by decide) hs
    simp only [append_nil] at gs
    by_cases hm : v / 60 > 0
    · rw [if_pos hm]
      by_cases hh : v / 60 / 60 > 0
      · rw [if_pos hh]
        have gh := parseGroup_fmt (v / 60 / 60) [] ['h']
          (Nat.toDigits 10 (v / 60 % 60) ++ 'm' :: (Nat.toDigits 10 (v % 60) ++ ((fmtFrac 9 u false []).1 ++ ['s'])))
          3600000000000 0 0 fracOK_nil (by decide) (by decide) (by decide) (by decide) (by decide)
          (digits_head_digit _ _) (by intro h; exact absurd rfl h) (by decide) (by omega)
        have gm := parseGroup_fmt (v / 60 % 60) [] ['m']
          (Nat.toDigits 10 (v % 60) ++ ((fmtFrac 9 u false []).1 ++ ['s']))
          60000000000 0 0 fracOK_nil (by decide) (by decide) (by decide) (by decide) (by decide)
          (digits_head_digit _ _) (by intro h; exact absurd rfl h) (by decide) (by omega)
        have g := gs (v % 60) (by omega)
        simp only [nil_append, singleton_append, Nat.add_zero] at gh gm
        have l1 := digits_pos (v / 60 / 60)
        have l2 := digits_pos (v / 60 % 60)
        have l3 := digits_pos (v % 60)
        refine ⟨?_, digits_head_digit _ _, by simp only [length_append, length_cons, length_nil]; omega⟩
        rw [parseGroups_step _ _ _ 0 _ (by omega) (by simp [Nat.toDigits_ne_nil]) gh (by omega)]
        rw [parseGroups_step _ _ _ _ _ (by simp only [length_append, length_cons, length_nil]; omega)
          (by simp [Nat.toDigits_ne_nil]) gm (by omega)]
        rw [parseGroups_step _ _ [] _ _ (by simp only [length_append, length_cons, length_nil]; omega)
          (by simp [Nat.toDigits_ne_nil]) g (by omega)]
        rw [parseGroups_nil _ _ (by simp only [length_append, length_cons, length_nil]; omega)]
        congr 1; omega
      · rw [if_neg hh]
        have gm := parseGroup_fmt (v / 60 % 60) [] ['m']
          (Nat.toDigits 10 (v % 60) ++ ((fmtFrac 9 u false []).1 ++ ['s']))
          60000000000 0 0 fracOK_nil (by decide) (by decide) (by decide) (by decide) (by decide)
          (digits_head_digit _ _) (by intro h; exact absurd rfl h) (by decide) (by omega)
        have g := gs (v % 60) (by omega)
        simp only [nil_append, singleton_append, Nat.add_zero] at gm
        have l2 := digits_pos (v / 60 % 60)
        have l3 := digits_pos (v % 60)
        refine ⟨?_, digits_head_digit _ _, by simp only [length_append, length_cons, length_nil]; omega⟩
        rw [parseGroups_step _ _ _ 0 _ (by omega) (by simp [Nat.toDigits_ne_nil]) gm (by omega)]
        rw [parseGroups_step _ _ [] _ _ (by simp only [length_append, length_cons, length_nil]; omega)
          (by simp [Nat.toDigits_ne_nil]) g (by omega)]
        rw [parseGroups_nil _ _ (by simp only [length_append, length_cons, length_nil]; omega)]
        congr 1; omega
    · rw [if_neg hm]
      have hv60 : v % 60 = v := by omega
      rw [hv60]
      have g := gs v (by omega)
      have hl := digits_pos v
      refine ⟨?_, digits_head_digit _ _, by simp only [length_append, length_cons, length_nil]; omega⟩
      rw [parseGroups_step _ _ [] 0 _ (by omega) (by simp [Nat.toDigits_ne_nil]) g (by omega)]
      rw [parseGroups_nil _ _ (by simp only [length_append, length_cons, length_nil]; omega)]
      congr 1; omega

theorem parseDur_digit_head (c : Char) (t : Str) (hc : c.isDigit = true) :
    parseDur (c :: t) = parseBody false (c :: t) := by
  have h1 : c ≠ '-' := by intro e; subst e; revert hc; decide
  have h2 : c ≠ '+' := by intro e; subst e; revert hc; decide
  unfold parseDur
  split
  · rename_i heq; simp only [cons.injEq] at heq; exact absurd heq.1 h1
  · rename_i heq; simp only [cons.injEq] at heq; exact absurd heq.1 h2
  · rfl

theorem parseBody_durFormat (neg : Bool) (u : Nat) (hu : u ≤ 2 ^ 63) :
    parseBody neg (durFormat u) =
      if neg then some (-(u : Int)) else if u > 2 ^ 63 - 1 then none else some (u : Int) := by
  obtain ⟨hp, _, hl⟩ := parseGroups_durFormat u hu
  have h1 : durFormat u ≠ ['0'] := by intro e; rw [e] at hl; simp at hl
  have h2 : durFormat u ≠ [] := by intro e; rw [e] at hl; simp at hl
  unfold parseBody
  rw [if_neg h1, if_neg h2, hp]

theorem parseDur_durString (d : Int) (h1 : -(2 ^ 63 : Int) ≤ d) (h2 : d < (2 ^ 63 : Int)) :
    parseDur (durString d) = some d := by
  unfold durString
  by_cases hn : d < 0
  · rw [if_pos hn]
    have hu : d.natAbs ≤ 2 ^ 63 := by omega
    show parseBody true (durFormat d.natAbs) = some d
    rw [parseBody_durFormat true _ hu]
    simp only [if_true]
    congr 1; omega
  · rw [if_neg hn]
    have hu : d.natAbs ≤ 2 ^ 63 := by omega
    obtain ⟨_, hh, hl⟩ := parseGroups_durFormat d.natAbs hu
    cases hdf : durFormat d.natAbs with
    | nil => rw [hdf] at hl; simp at hl
    | cons c t =>
      have hc : c.isDigit = true := hh c (by rw [hdf]; rfl)
      rw [parseDur_digit_head c t hc, ← hdf, parseBody_durFormat false _ hu]
      have : ¬ d.natAbs > 2 ^ 63 - 1 := by omega
      simp only [Bool.false_eq_true, if_false, this]
      congr 1; omega

end PV.C31
