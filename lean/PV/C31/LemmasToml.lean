/-
C31 helper lemmas: the TOML subset reads back what it renders.  Core Lean only.
-/
import PV.C31.Model
namespace PV.C31
open List

/-! ### strings -/

theorem hex_roundtrip : ∀ n, n < 31 →
    hexVal (hexDigit (n / 16)) = some (n / 16) ∧ hexVal (hexDigit (n % 16)) = some (n % 16) := by
  decide

theorem unescape_raw (c : Char) (X : Str) (h1 : c ≠ '"') (h2 : c ≠ '\\') (h3 : 31 < c.toNat) :
    unescape (c :: X) = (unescape X).map (fun p => (c :: p.1, p.2)) := by
  rw [unescape.eq_def]
  split <;> simp_all
  omega

theorem unescape_escChar (c : Char) (h : charOK c = true) (X : Str) :
    unescape (escChar c ++ X) = (unescape X).map (fun p => (c :: p.1, p.2)) := by
  unfold escChar
  by_cases c1 : c = '\x08'
  · subst c1; simp [unescape]
  by_cases c2 : c = '\t'
  · subst c2; simp [unescape]
  by_cases c3 : c = '\n'
  · subst c3; simp [unescape]
  by_cases c4 : c = '\x0c'
  · subst c4; simp [unescape]
  by_cases c5 : c = '\r'
  · subst c5; simp [unescape]
  by_cases c6 : c = '"'
  · subst c6; simp [unescape]
  by_cases c7 : c = '\\'
  · subst c7; simp [unescape]
  simp only [c1, c2, c3, c4, c5, c6, c7, if_false]
  unfold charOK at h
  by_cases hn : c.toNat % 65536 < 31
  · rw [if_pos hn] at h ⊢
    have hlt : c.toNat < 65536 := by simpa using h
    have hmod : c.toNat % 65536 = c.toNat := Nat.mod_eq_of_lt hlt
    rw [hmod] at hn ⊢
    obtain ⟨e1, e2⟩ := hex_roundtrip c.toNat hn
    have hz : hexVal '0' = some 0 := by decide
    simp only [cons_append, nil_append]
    rw [unescape.eq_def]
    simp only [hz, e1, e2]
    have : c.toNat / 16 * 16 + c.toNat % 16 = c.toNat := by omega
    simp [this, Char.ofNat_toNat]
  · rw [if_neg hn] at h ⊢
    have hne : c.toNat ≠ 31 := by simpa using h
    have : 31 < c.toNat := by
      have := Nat.mod_le c.toNat 65536
      omega
    simpa using unescape_raw c X c6 c7 this

theorem unescape_escape : ∀ (s rest : Str), (∀ c ∈ s, charOK c = true) →
    unescape (escape s ++ '"' :: rest) = some (s, rest)
  | [], rest, _ => by simp [escape, unescape]
  | c :: cs, rest, h => by
    simp only [escape, append_assoc]
    rw [unescape_escChar c (h c (by simp)), unescape_escape cs rest (fun d hd => h d (by simp [hd]))]
    simp

/-! ### integers -/

theorem digits_all (n : Nat) : (Nat.toDigits 10 n).all Char.isDigit = true := by
  rw [all_eq_true]; intro c hc
  exact Nat.isDigit_of_mem_toDigits (by decide) (by decide) hc

theorem digits_head (n : Nat) : ∃ c t, Nat.toDigits 10 n = c :: t ∧ c.isDigit = true := by
  cases h : Nat.toDigits 10 n with
  | nil => exact absurd h Nat.toDigits_ne_nil
  | cons c t =>
    refine ⟨c, t, rfl, ?_⟩
    exact Nat.isDigit_of_mem_toDigits (b := 10) (n := n) (by decide) (by decide) (by rw [h]; simp)

theorem isDigit_ne_minus {c : Char} (h : c.isDigit = true) : c ≠ '-' := by
  intro e; subst e; revert h; decide

theorem parseNat_digits (n : Nat) : parseNat (Nat.toDigits 10 n) = some n := by
  unfold parseNat
  have hne : Nat.toDigits 10 n ≠ [] := Nat.toDigits_ne_nil
  simp [hne, digits_all n]

theorem parseInt_renderInt (n : Int) (h1 : -(2 ^ 63 : Int) ≤ n) (h2 : n < (2 ^ 63 : Int)) :
    parseInt (renderInt n) = some n := by
  unfold renderInt
  by_cases hn : n < 0
  · rw [if_pos hn]
    simp only [parseInt, parseNat_digits]
    have : n.natAbs ≤ 2 ^ 63 := by omega
    rw [if_pos this]
    congr 1; omega
  · rw [if_neg hn]
    obtain ⟨c, t, hct, hc⟩ := digits_head n.natAbs
    have hp := parseNat_digits n.natAbs
    rw [hct] at hp ⊢
    have hm := isDigit_ne_minus hc
    unfold parseInt
    split
    · rename_i r heq
      simp only [cons.injEq] at heq
      exact absurd heq.1 hm
    · simp only [hp]
      have : n.natAbs < 2 ^ 63 := by omega
      rw [if_pos this]
      congr 1; omega

/-! ### arrays of strings -/

def strOK (s : Str) : Prop := ∀ c ∈ s, charOK c = true

theorem parseElems_render : ∀ (xs : List Str) (fuel : Nat) (rest : Str), xs ≠ [] →
    (∀ x ∈ xs, strOK x) → xs.length ≤ fuel →
    parseElems fuel (renderStrs xs ++ ']' :: rest) = some (xs, rest)
  | [], _, _, h, _, _ => absurd rfl h
  | [x], fuel, rest, _, hok, hf => by
    cases fuel with
    | zero => simp at hf
    | succ f =>
      simp only [renderStrs, cons_append, append_assoc, nil_append, parseElems]
      rw [unescape_escape x _ (hok x (by simp))]
      rfl
  | x :: y :: r, fuel, rest, _, hok, hf => by
    cases fuel with
    | zero => simp at hf
    | succ f =>
      simp only [renderStrs, cons_append, append_assoc, parseElems]
      rw [unescape_escape x _ (hok x (by simp))]
      simp only
      rw [parseElems_render (y :: r) f rest (by simp) (fun z hz => hok z (by simp [hz]))
        (by simp at hf ⊢; omega)]
      simp

theorem renderStrs_length : ∀ (xs : List Str), xs.length ≤ (renderStrs xs).length
  | [] => by simp
  | [x] => by simp [renderStrs]
  | x :: y :: r => by
    have := renderStrs_length (y :: r)
    simp only [renderStrs, length_cons, length_append] at this ⊢
    omega

/-! ### values -/

def valOK : TVal → Prop
  | .str s => strOK s
  | .int n => -(2 ^ 63 : Int) ≤ n ∧ n < (2 ^ 63 : Int)
  | .bool _ => True
  | .float t => isFloatTok t = true
  | .strs xs => ∀ x ∈ xs, strOK x

theorem floatTok_head {t : Str} (h : isFloatTok t = true) :
    ∃ c r, t = c :: r ∧ (c.isDigit = true ∨ c = '.' ∨ c = '-') := by
  cases t with
  | nil => simp [isFloatTok] at h
  | cons c r =>
    refine ⟨c, r, rfl, ?_⟩
    simp only [isFloatTok, Bool.and_eq_true, all_cons] at h
    have := h.2.1
    simp only [Bool.or_eq_true, decide_eq_true_eq] at this
    rcases this with (h | h) | h
    · exact Or.inl h
    · exact Or.inr (Or.inl h)
    · exact Or.inr (Or.inr h)

theorem digit_facts {c : Char} (h : c.isDigit = true ∨ c = '.' ∨ c = '-') :
    c ≠ '"' ∧ c ≠ '[' ∧ c ≠ 't' ∧ c ≠ 'f' := by
  rcases h with h | h | h
  · refine ⟨?_, ?_, ?_, ?_⟩ <;> (intro e; subst e; revert h; decide)
  · subst h; decide
  · subst h; decide

theorem parseVal_scalar (c : Char) (r : Str) (hc : c.isDigit = true ∨ c = '.' ∨ c = '-') :
    parseVal (c :: r) =
      if isFloatTok (c :: r) then some (.float (c :: r)) else (parseInt (c :: r)).map .int := by
  obtain ⟨h1, h2, h3, h4⟩ := digit_facts hc
  have e1 : (c :: r) ≠ ['t', 'r', 'u', 'e'] := by
    intro e; simp only [cons.injEq] at e; exact h3 e.1
  have e2 : (c :: r) ≠ ['f', 'a', 'l', 's', 'e'] := by
    intro e; simp only [cons.injEq] at e; exact h4 e.1
  simp only [parseVal, h1, h2, if_false, e1, e2]

theorem parseVal_renderVal (v : TVal) (h : valOK v) : parseVal (renderVal v) = some v := by
  cases v with
  | str s =>
    simp only [renderVal, parseVal, if_true]
    rw [unescape_escape s [] h]
  | bool b => cases b <;> decide
  | float t =>
    obtain ⟨c, r, rfl, hc⟩ := floatTok_head h
    have h' : isFloatTok (c :: r) = true := h
    simp only [renderVal]
    rw [parseVal_scalar c r hc, if_pos h']
  | int n =>
    obtain ⟨h1, h2⟩ := h
    have key := parseInt_renderInt n h1 h2
    simp only [renderVal]
    have shape : ∃ c r, renderInt n = c :: r ∧ (c.isDigit = true ∨ c = '.' ∨ c = '-') ∧
        (renderInt n).all (fun c => c.isDigit || c = '-') = true := by
      unfold renderInt
      obtain ⟨c, t, hct, hc⟩ := digits_head n.natAbs
      have hd := digits_all n.natAbs
      by_cases hn : n < 0
      · rw [if_pos hn]
        refine ⟨'-', _, rfl, Or.inr (Or.inr rfl), ?_⟩
        rw [all_cons]
        simp only [decide_true, Bool.or_true, Bool.true_and]
        rw [all_eq_true] at hd ⊢
        intro x hx; simp [hd x hx]
      · rw [if_neg hn, hct]
        refine ⟨c, t, rfl, Or.inl hc, ?_⟩
        rw [← hct]
        rw [all_eq_true] at hd ⊢
        intro x hx; simp [hd x hx]
    obtain ⟨c, r, hcr, hc, hall⟩ := shape
    have nofloat : isFloatTok (renderInt n) = false := by
      simp only [isFloatTok, Bool.and_eq_false_iff]
      left; right
      rw [any_eq_false]
      intro x hx
      rw [all_eq_true] at hall
      have := hall x hx
      intro e
      simp only [decide_eq_true_eq] at e
      subst e
      revert this; decide
    rw [hcr] at key nofloat ⊢
    rw [parseVal_scalar c r hc, nofloat, key]
    simp
  | strs xs =>
    cases xs with
    | nil => simp [renderVal, renderStrs, parseVal]
    | cons x r =>
      have hne : x :: r ≠ [] := by simp
      have hlen := renderStrs_length (x :: r)
      have hshape : ∃ t, renderStrs (x :: r) = '"' :: t := by
        cases r with
        | nil => exact ⟨_, rfl⟩
        | cons y r' => exact ⟨_, rfl⟩
      obtain ⟨t, ht⟩ := hshape
      have hp := parseElems_render (x :: r) ((renderStrs (x :: r) ++ [']']).length + 1) [] hne h
        (by simp only [length_append]; omega)
      simp only [renderVal]
      have hnot : renderStrs (x :: r) ++ [']'] ≠ [']'] := by
        rw [ht]; simp
      have hq : ('[' : Char) ≠ '"' := by decide
      simp only [parseVal, if_true, hnot, if_false, hp, hq]

/-! ### entries, lines, documents -/

theorem takeWhile_sep (p : Char → Bool) (sep : Char) (hs : p sep = false) :
    ∀ (k rest : Str), (∀ c ∈ k, p c = true) →
      (k ++ sep :: rest).takeWhile p = k ∧ (k ++ sep :: rest).dropWhile p = sep :: rest
  | [], rest, _ => by simp [hs]
  | c :: cs, rest, h => by
    have hc := h c (by simp)
    obtain ⟨i1, i2⟩ := takeWhile_sep p sep hs cs rest (fun d hd => h d (by simp [hd]))
    simp [hc, i1, i2]

def keyOK (k : Str) : Prop := k ≠ [] ∧ ∀ c ∈ k, c ≠ ' ' ∧ c ≠ '[' ∧ c ≠ '\n'

def nameOK (n : Str) : Prop := n ≠ [] ∧ ∀ c ∈ n, c ≠ ']' ∧ c ≠ '\n'

def entryOK (e : Entry) : Prop := keyOK e.key ∧ valOK e.val

theorem parseEntry_render (e : Entry) (h : entryOK e) :
    parseEntry (e.key ++ ' ' :: '=' :: ' ' :: renderVal e.val) = some e := by
  obtain ⟨⟨hne, hk⟩, hv⟩ := h
  obtain ⟨t1, t2⟩ := takeWhile_sep (fun c => decide (c ≠ ' ')) ' ' (by decide) e.key
    ('=' :: ' ' :: renderVal e.val) (fun c hc => by simpa using (hk c hc).1)
  unfold parseEntry
  simp only [t1, t2, hne, if_false, parseVal_renderVal e.val hv, Option.map_some]

theorem dropSpaces_indent : ∀ (ind : Str) (c : Char) (r : Str), (∀ x ∈ ind, x = ' ') → c ≠ ' ' →
    dropSpaces (ind ++ c :: r) = c :: r
  | [], c, r, _, hc => by
    unfold dropSpaces
    split
    · rename_i heq; simp only [nil_append, cons.injEq] at heq; exact absurd heq.1 hc
    · rfl
  | x :: xs, c, r, h, hc => by
    have hx : x = ' ' := h x (by simp)
    subst hx
    simp only [cons_append, dropSpaces]
    exact dropSpaces_indent xs c r (fun y hy => h y (by simp [hy])) hc

theorem parseLine_entry (ind : Str) (e : Entry) (hind : ∀ x ∈ ind, x = ' ') (h : entryOK e) :
    parseLine (renderEntry ind e) = some (.entry e) := by
  obtain ⟨⟨hne, hk⟩, hv⟩ := h
  cases hkey : e.key with
  | nil => exact absurd hkey hne
  | cons c k' =>
    have hc := hk c (by rw [hkey]; simp)
    have hp := parseEntry_render e ⟨⟨hne, hk⟩, hv⟩
    rw [hkey] at hp
    unfold parseLine renderEntry
    rw [hkey]
    simp only [cons_append]
    rw [dropSpaces_indent ind c _ hind hc.1]
    split
    · rename_i heq; cases heq
    · rename_i r heq; simp only [cons.injEq] at heq; exact absurd heq.1 hc.2.1
    · rename_i s h1 h2
      simp only [cons_append] at hp
      rw [hp]; rfl

theorem parseLine_blank : parseLine [] = some .blank := by
  simp [parseLine, dropSpaces]

theorem parseLine_header (n : Str) (h : nameOK n) :
    parseLine ('[' :: (n ++ [']'])) = some (.header n) := by
  obtain ⟨hne, hn⟩ := h
  obtain ⟨t1, t2⟩ := takeWhile_sep (fun c => decide (c ≠ ']')) ']' (by decide) n []
    (fun c hc => by simpa using (hn c hc).1)
  unfold parseLine
  have : dropSpaces ('[' :: (n ++ [']'])) = '[' :: (n ++ [']']) := by
    unfold dropSpaces
    split
    · rename_i heq; simp at heq
    · rfl
  rw [this]
  simp only [t1, t2, hne, ne_eq, not_false_eq_true, and_self, if_true]

theorem parseLines_entries_top (rest : List Str) : ∀ (es : List Entry) (top : List Entry),
    (∀ e ∈ es, entryOK e) →
    parseLines (es.map (renderEntry []) ++ rest) ⟨top, []⟩ = parseLines rest ⟨top ++ es, []⟩
  | [], top, _ => by simp
  | e :: es, top, h => by
    simp only [map_cons, cons_append, parseLines]
    rw [parseLine_entry [] e (by simp) (h e (by simp))]
    simp only [addLine, reverse_nil]
    rw [parseLines_entries_top rest es (top ++ [e]) (fun x hx => h x (by simp [hx]))]
    simp

theorem parseLines_entries_tab (rest : List Str) (top : List Entry) (tabs : List (Str × List Entry))
    (n : Str) : ∀ (es acc : List Entry), (∀ e ∈ es, entryOK e) →
    parseLines (es.map (renderEntry [' ', ' ']) ++ rest) ⟨top, tabs ++ [(n, acc)]⟩ =
      parseLines rest ⟨top, tabs ++ [(n, acc ++ es)]⟩
  | [], acc, _ => by simp
  | e :: es, acc, h => by
    simp only [map_cons, cons_append, parseLines]
    rw [parseLine_entry [' ', ' '] e (by simp) (h e (by simp))]
    simp only [addLine, reverse_append, reverse_cons, reverse_nil, nil_append, singleton_append,
      reverse_reverse]
    rw [parseLines_entries_tab rest top tabs n es (acc ++ [e]) (fun x hx => h x (by simp [hx]))]
    simp

def tableOK' (t : Str × List Entry) : Prop := nameOK t.1 ∧ ∀ e ∈ t.2, entryOK e

theorem parseLines_table (rest : List Str) (top : List Entry) (tabs : List (Str × List Entry))
    (t : Str × List Entry) (h : tableOK' t) :
    parseLines (renderTable t ++ rest) ⟨top, tabs⟩ = parseLines rest ⟨top, tabs ++ [t]⟩ := by
  obtain ⟨hn, he⟩ := h
  simp only [renderTable, cons_append, parseLines, parseLine_blank, addLine]
  rw [parseLine_header t.1 hn]
  simp only
  rw [parseLines_entries_tab _ top tabs t.1 t.2 [] he]
  simp only [nil_append]

def docOK (d : Doc) : Prop := (∀ e ∈ d.top, entryOK e) ∧ ∀ t ∈ d.tables, tableOK' t

theorem parseLines_tables (top : List Entry) : ∀ (ts tabs : List (Str × List Entry)),
    (∀ t ∈ ts, tableOK' t) →
    parseLines (ts.map renderTable).flatten ⟨top, tabs⟩ = some ⟨top, tabs ++ ts⟩
  | [], tabs, _ => by simp [parseLines]
  | t :: ts, tabs, h => by
    simp only [map_cons, flatten_cons]
    rw [parseLines_table _ top tabs t (h t (by simp)),
      parseLines_tables top ts (tabs ++ [t]) (fun x hx => h x (by simp [hx]))]
    simp

theorem parseDoc_renderDoc (d : Doc) (h : docOK d) : parseDoc (renderDoc d) = some d := by
  obtain ⟨h1, h2⟩ := h
  unfold parseDoc renderDoc
  rw [parseLines_entries_top _ d.top [] h1]
  simp only [nil_append]
  rw [parseLines_tables d.top d.tables [] h2]
  simp

/-! ### text level -/

theorem splitLines_joinLines : ∀ (ls : List Str), (∀ l ∈ ls, ∀ c ∈ l, c ≠ '\n') →
    splitLines (joinLines ls) = ls
  | [], _ => rfl
  | l :: ls, h => by
    have ih := splitLines_joinLines ls (fun x hx => h x (by simp [hx]))
    have hl := h l (by simp)
    simp only [joinLines]
    clear h
    induction l with
    | nil => simp [splitLines, ih]
    | cons c cs ihc =>
      have hc : c ≠ '\n' := hl c (by simp)
      have := ihc (fun d hd => hl d (by simp [hd]))
      simp only [cons_append, splitLines, hc, if_false, this]

/-! ### rendered lines contain no raw LF -/

def noLF (s : Str) : Prop := ∀ c ∈ s, c ≠ '\n'

theorem hexDigit_ne_lf : ∀ n, n < 16 → hexDigit n ≠ '\n' := by decide

theorem escChar_noLF (c : Char) : noLF (escChar c) := by
  unfold escChar
  intro x hx
  split at hx
  · simp at hx; rcases hx with rfl | rfl <;> decide
  split at hx
  · simp at hx; rcases hx with rfl | rfl <;> decide
  split at hx
  · simp at hx; rcases hx with rfl | rfl <;> decide
  split at hx
  · simp at hx; rcases hx with rfl | rfl <;> decide
  split at hx
  · simp at hx; rcases hx with rfl | rfl <;> decide
  split at hx
  · simp at hx; rcases hx with rfl | rfl <;> decide
  split at hx
  · simp at hx; rcases hx with rfl | rfl <;> decide
  rename_i h1 h2 h3 h4 h5 h6 h7
  simp only at hx
  split at hx
  · rename_i hn
    simp only [mem_cons, not_mem_nil, or_false] at hx
    rcases hx with rfl | rfl | rfl | rfl | rfl | rfl
    · decide
    · decide
    · decide
    · decide
    · exact hexDigit_ne_lf _ (by omega)
    · exact hexDigit_ne_lf _ (by omega)
  · simp only [mem_singleton] at hx
    subst hx; exact h3

theorem escape_noLF : ∀ s : Str, noLF (escape s)
  | [] => by intro c hc; cases hc
  | c :: cs => by
    intro x hx
    simp only [escape, mem_append] at hx
    rcases hx with hx | hx
    · exact escChar_noLF c x hx
    · exact escape_noLF cs x hx

theorem renderStrs_noLF : ∀ xs : List Str, noLF (renderStrs xs)
  | [] => by intro c hc; cases hc
  | [x] => by
    intro c hc
    simp only [renderStrs, mem_cons, mem_append, not_mem_nil, or_false] at hc
    rcases hc with rfl | hc | rfl
    · decide
    · exact escape_noLF x c hc
    · decide
  | x :: y :: r => by
    intro c hc
    simp only [renderStrs, mem_cons, mem_append] at hc
    rcases hc with rfl | hc | rfl | rfl | hc
    · decide
    · exact escape_noLF x c hc
    · decide
    · decide
    · exact renderStrs_noLF (y :: r) c hc

theorem digits_noLF (n : Nat) : noLF (Nat.toDigits 10 n) := by
  intro c hc e
  subst e
  have := Nat.isDigit_of_mem_toDigits (b := 10) (by decide) (by decide) hc
  revert this; decide

theorem renderVal_noLF (v : TVal) (h : valOK v) : noLF (renderVal v) := by
  cases v with
  | str s =>
    intro c hc
    simp only [renderVal, mem_cons, mem_append, not_mem_nil, or_false] at hc
    rcases hc with rfl | hc | rfl
    · decide
    · exact escape_noLF s c hc
    · decide
  | int n =>
    intro c hc
    simp only [renderVal, renderInt] at hc
    split at hc
    · simp only [mem_cons] at hc
      rcases hc with rfl | hc
      · decide
      · exact digits_noLF _ c hc
    · exact digits_noLF _ c hc
  | bool b => cases b <;> (intro c hc; simp [renderVal] at hc; rcases hc with rfl | rfl | rfl | rfl | rfl <;> decide)
  | float t =>
    intro c hc e
    subst e
    have h' : isFloatTok t = true := h
    simp only [isFloatTok, Bool.and_eq_true, all_eq_true] at h'
    have := h'.2 _ hc
    revert this; decide
  | strs xs =>
    intro c hc
    simp only [renderVal, mem_cons, mem_append, not_mem_nil, or_false] at hc
    rcases hc with rfl | hc | rfl
    · decide
    · exact renderStrs_noLF xs c hc
    · decide

theorem renderEntry_noLF (ind : Str) (e : Entry) (hind : ∀ x ∈ ind, x = ' ') (h : entryOK e) :
    noLF (renderEntry ind e) := by
  intro c hc
  simp only [renderEntry, mem_append, mem_cons] at hc
  rcases hc with hc | hc | rfl | rfl | rfl | hc
  · rw [hind c hc]; decide
  · exact (h.1.2 c hc).2.2
  · decide
  · decide
  · decide
  · exact renderVal_noLF e.val h.2 c hc

theorem renderDoc_noLF (d : Doc) (h : docOK d) : ∀ l ∈ renderDoc d, noLF l := by
  intro l hl
  simp only [renderDoc, mem_append, mem_map, mem_flatten] at hl
  rcases hl with ⟨e, he, rfl⟩ | ⟨ls, ⟨t, ht, rfl⟩, hl⟩
  · exact renderEntry_noLF [] e (by simp) (h.1 e he)
  · simp only [renderTable, mem_cons, mem_map] at hl
    rcases hl with rfl | rfl | ⟨e, he, rfl⟩
    · intro c hc; cases hc
    · intro c hc
      simp only [mem_cons, mem_append, not_mem_nil, or_false] at hc
      rcases hc with rfl | hc | rfl
      · decide
      · exact ((h.2 t ht).1.2 c hc).2
      · decide
    · exact renderEntry_noLF [' ', ' '] e (by simp) ((h.2 t ht).2 e he)

/-- Text level: render to one string, split at LF, parse. -/
theorem parseText_renderText (d : Doc) (h : docOK d) :
    parseDoc (splitLines (joinLines (renderDoc d))) = some d := by
  rw [splitLines_joinLines _ (renderDoc_noLF d h)]
  exact parseDoc_renderDoc d h

end PV.C31
