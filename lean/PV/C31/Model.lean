/-
C31 model.  Core Lean only.

Part A - option table types (rows are regenerated from the source by harness/extract/config into
         Gen.lean) and the environment-variable naming rule of `setAllConfig` (cmd/root.go):
         `v.SetEnvPrefix("PILOSA")`, `v.SetEnvKeyReplacer(strings.NewReplacer("-","_",".","_"))`,
         `v.AutomaticEnv()`; viper looks up  ToUpper(prefix + "_" + key)  after the replacer.
Part B - `resolve`: the body of the second `flags.VisitAll` of setAllConfig for one flag, over an
         abstract viper.  ASSUMED (third party, validated differentially on every run):
         `viper.Get(name)` of a bound pflag = value of the flag if it was changed on the command line,
         else the (non-empty) environment variable, else the config-file value, else the flag's
         default; `cast.ToString` followed by `pflag.Value.Set` is the identity on canonical scalar
         values.  Modelled exactly: the `f.Changed` short-circuit and the string-slice special case
         (`strings.Join(v.GetStringSlice(name), ",")` then `stringSliceValue.Set`, which reads the text
         back as one CSV record).
Part C - the TOML subset `pelletier/go-toml` v1.2.0 emits for `server.Config` (toml.Marshal) and its
         reading: strings (encodeTomlString and the lexer's basic-string rules), integers, booleans,
         floats (opaque decimal tokens; the float formatter is a parameter, DESIGN section 9),
         durations (strings, `time.Duration.String` / `ParseDuration` assumed inverse), arrays of
         strings, one level of tables.
-/
namespace PV.C31

abbrev Str := List Char

/-! ### Part A: table -/

inductive Kind where
  | str | int | uint | bool | float | dur | strs
deriving DecidableEq, Repr

/-- One leaf field of `server.Config` (server/config.go, gossip.Config, TLSConfig). -/
structure CfgField where
  goPath : String     -- e.g. "Cluster.LongQueryTime"
  tomlPath : String   -- e.g. "cluster.long-query-time" (toml tags joined by '.')
  kind : Kind
  tagged : Bool       -- every segment carries an explicit toml tag
deriving DecidableEq, Repr

inductive DefaultKind where
  | fromConfig        -- the flag's default expression is the Config field itself (NewConfig value)
  | literal           -- a literal in BuildServerFlags / SetTLSConfig
deriving DecidableEq, Repr

/-- One flag definition of `ctl.BuildServerFlags` (incl. `SetTLSConfig`). -/
structure FlagDef where
  name : String       -- flag name = viper key
  target : String     -- goPath of the Config field the flag writes to
  kind : Kind
  dflt : DefaultKind
  env : String        -- environment variable name computed by the extractor from the extracted rule
deriving DecidableEq, Repr

def upper (c : Char) : Char := if 'a' ≤ c ∧ c ≤ 'z' then Char.ofNat (c.toNat - 32) else c

/-- The environment variable viper consults for a key: ToUpper("PILOSA_" + key), '-' and '.' -> '_'. -/
def envNameOf (flag : String) : String :=
  String.ofList ("PILOSA_".toList ++ flag.toList.map (fun c => if c = '-' ∨ c = '.' then '_' else upper c))

def dots (s : String) : Nat := (s.toList.filter (· = '.')).length

/-- Table consistency, decidable (evaluated on the regenerated table by `C31_table`). -/
def tableOK (fields : List CfgField) (flags : List FlagDef) : Bool :=
  fields.all (fun fd =>
    fd.tagged && dots fd.tomlPath ≤ 1 &&
    (flags.filter (fun fl => fl.target = fd.goPath)).length = 1 &&
    (flags.filter (fun fl => fl.target = fd.goPath)).all (fun fl => fl.name = fd.tomlPath && fl.kind = fd.kind)) &&
  flags.all (fun fl => fields.any (fun fd => fd.goPath = fl.target) && fl.env = envNameOf fl.name) &&
  decide ((flags.map (·.env)).Nodup) && decide ((flags.map (·.name)).Nodup) &&
  decide ((fields.map (·.tomlPath)).Nodup)

/-! ### Part B: precedence -/

/-- A configuration value as it ends in the flag variable: canonical scalar text, or a string list. -/
inductive Val where
  | scalar (s : Str)
  | list (xs : List Str)
deriving DecidableEq, Repr

/-- What each source supplies for one option (`none` = source silent). -/
structure Sources where
  flag : Option Val   -- parsed from the command line (then `f.Changed`)
  env : Option Val    -- non-empty environment variable
  file : Option Val   -- key present in the config file
  dflt : Val          -- the flag's default
deriving DecidableEq, Repr

/-- ASSUMPTION (viper): lookup order of a bound flag. -/
def viperGet (s : Sources) : Val :=
  match s.flag with
  | some v => v
  | none => match s.env with
    | some v => v
    | none => match s.file with
      | some v => v
      | none => s.dflt

/-- `strings.Join(xs, ",")`. -/
def joinComma : List Str → Str
  | [] => []
  | [x] => x
  | x :: y :: r => x ++ ',' :: joinComma (y :: r)

/-- One CSV record without quotes: split on commas. -/
def splitComma : Str → List Str
  | [] => [[]]
  | c :: cs =>
    if c = ',' then [] :: splitComma cs
    else match splitComma cs with
      | [] => [[c]]
      | h :: t => (c :: h) :: t

/-- `pflag.readAsCSV` as used by `stringSliceValue.Set`: "" is the empty list; otherwise the first CSV
record.  Text containing a quote, CR or LF is outside this model (`none`). -/
def readAsCSV (s : Str) : Option (List Str) :=
  if s = [] then some []
  else if s.any (fun c => c = '"' ∨ c = '\r' ∨ c = '\n') then none
  else some (splitComma s)

/-- What `v.GetString`/`GetStringSlice`+`Join` followed by `f.Value.Set` turn a looked-up value into. -/
def throughSet : Val → Option Val
  | .scalar s => some (.scalar s)                       -- ASSUMPTION: identity on canonical scalars
  | .list xs => (readAsCSV (joinComma xs)).map .list    -- the string-slice special case

/-- setAllConfig for one flag: `if f.Changed { return }; flagErr = f.Value.Set(value)`. -/
def resolve (s : Sources) : Option Val :=
  match s.flag with
  | some v => some v
  | none => throughSet (viperGet s)

/-- String lists that survive `Join` + CSV reading: not the single empty string, and no element
containing a comma, quote, CR or LF. -/
def simpleList (xs : List Str) : Bool :=
  xs ≠ [[]] && xs.all (fun x => x.all (fun c => !(c = ',' ∨ c = '"' ∨ c = '\r' ∨ c = '\n')))

def Val.simple : Val → Bool
  | .scalar _ => true
  | .list xs => simpleList xs

/-! ### Part C: TOML subset -/

inductive TVal where
  | str (s : Str)
  | int (n : Int)
  | bool (b : Bool)
  | float (tok : Str)       -- decimal token as produced by the float formatter (parameter)
  | strs (xs : List Str)
deriving DecidableEq, Repr

def hexDigit (n : Nat) : Char := if n < 10 then Char.ofNat (48 + n) else Char.ofNat (55 + n)

def hexVal (c : Char) : Option Nat :=
  let n := c.toNat
  if 48 ≤ n ∧ n ≤ 57 then some (n - 48)
  else if 65 ≤ n ∧ n ≤ 70 then some (n - 55)
  else if 97 ≤ n ∧ n ≤ 102 then some (n - 87)
  else none

/-- `encodeTomlString` for one rune.  Note the code's test `uint16(rr) < 0x001F`: U+001F is written raw
and runes above U+FFFF are judged (and escaped) by their low 16 bits. -/
def escChar (c : Char) : Str :=
  if c = '\x08' then ['\\', 'b']
  else if c = '\t' then ['\\', 't']
  else if c = '\n' then ['\\', 'n']
  else if c = '\x0c' then ['\\', 'f']
  else if c = '\r' then ['\\', 'r']
  else if c = '"' then ['\\', '"']
  else if c = '\\' then ['\\', '\\']
  else
    let n := c.toNat % 65536
    if n < 31 then ['\\', 'u', '0', '0', hexDigit (n / 16), hexDigit (n % 16)] else [c]

def escape : Str → Str
  | [] => []
  | c :: cs => escChar c ++ escape cs

/-- The lexer's basic string (after the opening quote): decoded text and what follows the closing
quote.  `none` = lexer error (bad escape, raw control character, unterminated). -/
def unescape : Str → Option (Str × Str)
  | [] => none
  | '"' :: rest => some ([], rest)
  | '\\' :: 'b' :: rest => (unescape rest).map (fun p => ('\x08' :: p.1, p.2))
  | '\\' :: 't' :: rest => (unescape rest).map (fun p => ('\t' :: p.1, p.2))
  | '\\' :: 'n' :: rest => (unescape rest).map (fun p => ('\n' :: p.1, p.2))
  | '\\' :: 'f' :: rest => (unescape rest).map (fun p => ('\x0c' :: p.1, p.2))
  | '\\' :: 'r' :: rest => (unescape rest).map (fun p => ('\r' :: p.1, p.2))
  | '\\' :: '"' :: rest => (unescape rest).map (fun p => ('"' :: p.1, p.2))
  | '\\' :: '/' :: rest => (unescape rest).map (fun p => ('/' :: p.1, p.2))
  | '\\' :: '\\' :: rest => (unescape rest).map (fun p => ('\\' :: p.1, p.2))
  | '\\' :: 'u' :: a :: b :: c :: d :: rest =>
    match hexVal a, hexVal b, hexVal c, hexVal d with
    | some a, some b, some c, some d =>
      (unescape rest).map (fun p => (Char.ofNat (((a * 16 + b) * 16 + c) * 16 + d) :: p.1, p.2))
    | _, _, _, _ => none
  | '\\' :: _ => none
  | c :: rest => if c.toNat ≤ 31 then none else (unescape rest).map (fun p => (c :: p.1, p.2))

/-- Characters `encodeTomlString` + lexer carry unchanged: everything except U+001F (written raw,
refused by the lexer) and runes above U+FFFF whose low 16 bits are below 0x1F (escaped by their low
16 bits only). -/
def charOK (c : Char) : Bool :=
  if c.toNat % 65536 < 31 then c.toNat < 65536 else c.toNat ≠ 31

def renderInt (n : Int) : Str :=
  if n < 0 then '-' :: Nat.toDigits 10 n.natAbs else Nat.toDigits 10 n.natAbs

def parseNat (ds : Str) : Option Nat :=
  if ds = [] || !ds.all Char.isDigit then none else some (Nat.ofDigitChars 10 ds 0)

/-- TOML integers are int64 (`strconv.ParseInt(.., 10, 64)`). -/
def parseInt : Str → Option Int
  | '-' :: r =>
    match parseNat r with
    | some v => if v ≤ 2 ^ 63 then some (- (v : Int)) else none
    | none => none
  | r =>
    match parseNat r with
    | some v => if v < 2 ^ 63 then some (v : Int) else none
    | none => none

def renderStrs : List Str → Str
  | [] => []
  | [x] => '"' :: (escape x ++ ['"'])
  | x :: y :: r => '"' :: (escape x ++ '"' :: ',' :: renderStrs (y :: r))

def renderVal : TVal → Str
  | .str s => '"' :: (escape s ++ ['"'])
  | .int n => renderInt n
  | .bool b => if b then ['t', 'r', 'u', 'e'] else ['f', 'a', 'l', 's', 'e']
  | .float t => t
  | .strs xs => '[' :: (renderStrs xs ++ [']'])

/-- Elements of an array after `[`: `"..."` separated by `,`, closed by `]`; fuel = text length. -/
def parseElems : Nat → Str → Option (List Str × Str)
  | 0, _ => none
  | fuel + 1, s =>
    match s with
    | '"' :: r =>
      match unescape r with
      | none => none
      | some (x, rest) =>
        match rest with
        | ',' :: rest' => (parseElems fuel rest').map (fun p => (x :: p.1, p.2))
        | ']' :: rest' => some ([x], rest')
        | _ => none
    | _ => none

def isFloatTok (s : Str) : Bool :=
  s ≠ [] && s.any (· = '.') && s.all (fun c => c.isDigit || c = '.' || c = '-')

def parseVal (s : Str) : Option TVal :=
  match s with
  | [] => none
  | c :: r =>
    if c = '"' then
      match unescape r with
      | some (x, []) => some (.str x)
      | _ => none
    else if c = '[' then
      if r = [']'] then some (.strs [])
      else match parseElems (r.length + 1) r with
        | some (xs, []) => some (.strs xs)
        | _ => none
    else if s = ['t', 'r', 'u', 'e'] then some (.bool true)
    else if s = ['f', 'a', 'l', 's', 'e'] then some (.bool false)
    else if isFloatTok s then some (.float s)
    else (parseInt s).map .int

/-! ### durations: Go's `time.Duration.String` and `time.ParseDuration`, digit for digit

`toml.Duration.String/MarshalTOML` is `time.Duration(d).String()`; the value read from a file, the
environment or a flag goes through `pflag`'s `durationValue.Set` = `time.ParseDuration`.  Durations are
int64 nanoseconds.  `ParseDuration` computes the fractional part in float64
(`float64(f) * (float64(unit) / scale)`); the model computes `f * unit / 10^k` in naturals, which is the
same number whenever the float product is exact - in particular for every text `String` produces. -/

/-- `time.fmtFrac(buf, v, prec)`: the fraction digits of `v / 10^prec` without trailing zeros (with the
decimal point, or nothing when the fraction is 0) and `v / 10^prec`. -/
def fmtFrac : Nat → Nat → Bool → Str → Str × Nat
  | 0, v, print, acc => (if print then '.' :: acc else acc, v)
  | p + 1, v, print, acc =>
    let digit := v % 10
    let print' := print || decide (digit ≠ 0)
    fmtFrac p (v / 10) print' (if print' then Nat.digitChar digit :: acc else acc)

/-- `time.fmtInt`. -/
def fmtInt (v : Nat) : Str := Nat.toDigits 10 v

/-- `Duration.format` for the absolute value `u` (nanoseconds). -/
def durFormat (u : Nat) : Str :=
  if u < 1000000000 then
    if u = 0 then ['0', 's']
    else if u < 1000 then fmtInt u ++ ['n', 's']
    else if u < 1000000 then fmtInt (fmtFrac 3 u false []).2 ++ ((fmtFrac 3 u false []).1 ++ ['µ', 's'])
    else fmtInt (fmtFrac 6 u false []).2 ++ ((fmtFrac 6 u false []).1 ++ ['m', 's'])
  else
    let fr := (fmtFrac 9 u false []).1
    let v := (fmtFrac 9 u false []).2          -- whole seconds
    let secs := fmtInt (v % 60) ++ (fr ++ ['s'])
    if v / 60 > 0 then
      let ms := fmtInt (v / 60 % 60) ++ 'm' :: secs
      if v / 60 / 60 > 0 then fmtInt (v / 60 / 60) ++ 'h' :: ms else ms
    else secs

/-- `time.Duration(d).String()`. -/
def durString (d : Int) : Str :=
  if d < 0 then '-' :: durFormat d.natAbs else durFormat d.natAbs

/-- `unitMap` of package time. -/
def unitOf (u : Str) : Option Nat :=
  if u = ['n', 's'] then some 1
  else if u = ['u', 's'] ∨ u = ['µ', 's'] ∨ u = ['μ', 's'] then some 1000
  else if u = ['m', 's'] then some 1000000
  else if u = ['s'] then some 1000000000
  else if u = ['m'] then some 60000000000
  else if u = ['h'] then some 3600000000000
  else none

def isNumChar (c : Char) : Bool := c.isDigit || c = '.'

/-- `leadingFraction`: digits are accumulated until the value would overflow; returns the accumulated
value and the number of accumulated digits (`scale = 10^k`). -/
def fracAcc : Str → Nat → Nat → Bool → Nat × Nat
  | [], x, k, _ => (x, k)
  | c :: cs, x, k, ovf =>
    if ovf then fracAcc cs x k true
    else if x > (2 ^ 63 - 1) / 10 then fracAcc cs x k true
    else
      let y := x * 10 + (c.toNat - 48)
      if y > 2 ^ 63 then fracAcc cs x k true else fracAcc cs y (k + 1) false

/-- The optional `.digits` after the integer part: (fraction digits, rest). -/
def splitFrac : Str → Str × Str
  | '.' :: r => (r.takeWhile Char.isDigit, r.dropWhile Char.isDigit)
  | r => ([], r)

/-- `v*unit + uint64(float64(f) * (float64(unit) / scale))` with exact arithmetic. -/
def groupValue (v unit : Nat) (fracDigits : Str) : Nat :=
  v * unit + (if (fracAcc fracDigits 0 0 false).1 > 0
    then (fracAcc fracDigits 0 0 false).1 * unit / 10 ^ (fracAcc fracDigits 0 0 false).2 else 0)

/-- One `number unit` group of `ParseDuration`: its value in nanoseconds and the rest of the text. -/
def parseGroup (s : Str) : Option (Nat × Str) :=
  match s with
  | [] => none
  | c :: _ =>
    if !(isNumChar c) then none
    else if Nat.ofDigitChars 10 (s.takeWhile Char.isDigit) 0 > 2 ^ 63 then none   -- leadingInt overflow
    else if s.takeWhile Char.isDigit = [] ∧ (splitFrac (s.dropWhile Char.isDigit)).1 = [] then none  -- no digits
    else if (splitFrac (s.dropWhile Char.isDigit)).2.takeWhile (fun c => !isNumChar c) = [] then none -- missing unit
    else match unitOf ((splitFrac (s.dropWhile Char.isDigit)).2.takeWhile (fun c => !isNumChar c)) with
      | none => none
      | some unit =>
        if Nat.ofDigitChars 10 (s.takeWhile Char.isDigit) 0 > 2 ^ 63 / unit then none
        else if groupValue (Nat.ofDigitChars 10 (s.takeWhile Char.isDigit) 0) unit
            (splitFrac (s.dropWhile Char.isDigit)).1 > 2 ^ 63 then none
        else some (groupValue (Nat.ofDigitChars 10 (s.takeWhile Char.isDigit) 0) unit
            (splitFrac (s.dropWhile Char.isDigit)).1,
          (splitFrac (s.dropWhile Char.isDigit)).2.dropWhile (fun c => !isNumChar c))

def parseGroups : Nat → Str → Nat → Option Nat
  | 0, _, _ => none
  | fuel + 1, s, d =>
    if s = [] then some d
    else match parseGroup s with
      | none => none
      | some (v, rest) => if d + v > 2 ^ 63 then none else parseGroups fuel rest (d + v)

/-- `ParseDuration` after the optional sign. -/
def parseBody (neg : Bool) (body : Str) : Option Int :=
  if body = ['0'] then some 0
  else if body = [] then none
  else match parseGroups (body.length + 1) body 0 with
    | none => none
    | some d =>
      if neg then some (-(d : Int))
      else if d > 2 ^ 63 - 1 then none else some (d : Int)

/-- `time.ParseDuration`. -/
def parseDur : Str → Option Int
  | '-' :: r => parseBody true r
  | '+' :: r => parseBody false r
  | r => parseBody false r

structure Entry where
  key : Str
  val : TVal
deriving DecidableEq, Repr

/-- A document: the top-level entries, then the tables in order. -/
structure Doc where
  top : List Entry
  tables : List (Str × List Entry)
deriving DecidableEq, Repr

def renderEntry (indent : Str) (e : Entry) : Str :=
  indent ++ (e.key ++ ' ' :: '=' :: ' ' :: renderVal e.val)

def renderTable (t : Str × List Entry) : List Str :=
  [] :: ('[' :: (t.1 ++ [']'])) :: (t.2.map (renderEntry [' ', ' ']))

/-- Lines of the rendered document (go-toml `Tree.WriteTo`: simple values first, then the tables, each
preceded by an empty line). -/
def renderDoc (d : Doc) : List Str :=
  d.top.map (renderEntry []) ++ (d.tables.map renderTable).flatten

def dropSpaces : Str → Str
  | ' ' :: r => dropSpaces r
  | s => s

/-- `key = value` (leading blanks already dropped). -/
def parseEntry (s : Str) : Option Entry :=
  let k := s.takeWhile (· ≠ ' ')
  match s.dropWhile (· ≠ ' ') with
  | ' ' :: '=' :: ' ' :: v => if k = [] then none else (parseVal v).map (fun tv => ⟨k, tv⟩)
  | _ => none

inductive Line where
  | blank
  | header (name : Str)
  | entry (e : Entry)
deriving DecidableEq, Repr

def parseLine (l : Str) : Option Line :=
  match dropSpaces l with
  | [] => some .blank
  | '[' :: r =>
    let name := r.takeWhile (· ≠ ']')
    if r.dropWhile (· ≠ ']') = [']'] ∧ name ≠ [] then some (.header name) else none
  | s => (parseEntry s).map .entry

/-- Fold the parsed lines into a document (entries before the first header are top-level). -/
def addLine (d : Doc) : Line → Doc
  | .blank => d
  | .header n => { d with tables := d.tables ++ [(n, [])] }
  | .entry e =>
    match d.tables.reverse with
    | [] => { d with top := d.top ++ [e] }
    | (n, es) :: before => { d with tables := before.reverse ++ [(n, es ++ [e])] }

def parseLines : List Str → Doc → Option Doc
  | [], d => some d
  | l :: ls, d =>
    match parseLine l with
    | none => none
    | some ln => parseLines ls (addLine d ln)

def parseDoc (ls : List Str) : Option Doc := parseLines ls ⟨[], []⟩

/-- Text level: lines joined by LF / split at LF. -/
def joinLines : List Str → Str
  | [] => []
  | l :: ls => l ++ '\n' :: joinLines ls

def splitLines : Str → List Str
  | [] => []
  | c :: cs =>
    if c = '\n' then [] :: splitLines cs
    else match splitLines cs with
      | [] => [[c]]          -- last line without LF
      | h :: t => (c :: h) :: t

end PV.C31
