/-
C31 specification layer.  Core Lean only.
  * precedence: the value an option must end up with is the one of the highest-priority source that
    supplies one: flag > environment > file > default;
  * render/parse: reading a rendered configuration gives the configuration back.
-/
import PV.C31.Model
namespace PV.C31.Spec
open PV.C31

def expected (s : Sources) : Val :=
  match s.flag, s.env, s.file with
  | some v, _, _ => v
  | none, some v, _ => v
  | none, none, some v => v
  | none, none, none => s.dflt

/-- What `parse (render d)` must be. -/
def readBack (d : Doc) : Option Doc := some d

end PV.C31.Spec
