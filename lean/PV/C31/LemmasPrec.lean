/-
C31 helper lemmas: `readAsCSV (joinComma xs) = xs` for simple lists.  Core Lean only.
-/
import PV.C31.Model
namespace PV.C31
open List

def noComma (x : Str) : Prop := ∀ c ∈ x, c ≠ ','

theorem splitComma_ne_nil : ∀ s : Str, splitComma s ≠ []
  | [] => by simp [splitComma]
  | c :: cs => by
    simp only [splitComma]
    split
    · simp
    · split <;> simp

theorem splitComma_plain : ∀ (x : Str), noComma x → splitComma x = [x]
  | [], _ => rfl
  | c :: cs, h => by
    have hc : c ≠ ',' := h c (by simp)
    have ih := splitComma_plain cs (fun d hd => h d (by simp [hd]))
    simp [splitComma, hc, ih]

theorem splitComma_append : ∀ (x t : Str), noComma x →
    splitComma (x ++ ',' :: t) = x :: splitComma t
  | [], t, _ => by simp [splitComma]
  | c :: cs, t, h => by
    have hc : c ≠ ',' := h c (by simp)
    have ih := splitComma_append cs t (fun d hd => h d (by simp [hd]))
    simp [splitComma, hc, ih]

theorem splitComma_join : ∀ (xs : List Str), xs ≠ [] → (∀ x ∈ xs, noComma x) →
    splitComma (joinComma xs) = xs
  | [], h, _ => absurd rfl h
  | [x], _, hx => by simpa [joinComma] using splitComma_plain x (hx x (by simp))
  | x :: y :: r, _, hx => by
    simp only [joinComma]
    rw [splitComma_append x _ (hx x (by simp)),
      splitComma_join (y :: r) (by simp) (fun z hz => hx z (by simp [hz]))]

theorem joinComma_eq_nil : ∀ (xs : List Str), joinComma xs = [] → xs = [] ∨ xs = [[]]
  | [], _ => Or.inl rfl
  | [x], h => by simp [joinComma] at h; simp [h]
  | x :: y :: r, h => by simp [joinComma] at h

theorem mem_joinComma : ∀ (xs : List Str) (c : Char), c ∈ joinComma xs → c = ',' ∨ ∃ x ∈ xs, c ∈ x
  | [], c, h => by simp [joinComma] at h
  | [x], c, h => by simp only [joinComma] at h; exact Or.inr ⟨x, by simp, h⟩
  | x :: y :: r, c, h => by
    simp only [joinComma, mem_append, mem_cons] at h
    rcases h with h | h | h
    · exact Or.inr ⟨x, by simp, h⟩
    · exact Or.inl h
    · rcases mem_joinComma (y :: r) c h with h | ⟨z, hz, hc⟩
      · exact Or.inl h
      · exact Or.inr ⟨z, by simp [hz], hc⟩

theorem readAsCSV_join (xs : List Str) (h : simpleList xs = true) :
    readAsCSV (joinComma xs) = some xs := by
  simp only [simpleList, Bool.and_eq_true, decide_eq_true_eq, all_eq_true, Bool.not_eq_true',
    decide_eq_false_iff_not, not_or] at h
  obtain ⟨hne, hall⟩ := h
  unfold readAsCSV
  by_cases hj : joinComma xs = []
  · rcases joinComma_eq_nil xs hj with h | h
    · subst h; simp [joinComma]
    · exact absurd h hne
  · rw [if_neg hj]
    have hxs : xs ≠ [] := by intro h; subst h; exact hj rfl
    have hq : (joinComma xs).any (fun c => decide (c = '"' ∨ c = '\r' ∨ c = '\n')) = false := by
      rw [any_eq_false]
      intro c hc
      rcases mem_joinComma xs c hc with h | ⟨x, hx, hcx⟩
      · subst h; decide
      · have := hall x hx c hcx
        simp [this.2.1, this.2.2.1, this.2.2.2]
    rw [hq]
    simp only [Bool.false_eq_true, if_false]
    rw [splitComma_join xs hxs (fun x hx c hc => (hall x hx c hc).1)]

end PV.C31
