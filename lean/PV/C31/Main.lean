/-
pm_c31: model driver for C31.  Strings travel as dot-separated decimal code points (`e` = empty).
Values: `s<str>` string, `d<int>` duration in nanoseconds (rendered by the model's `durString` =
`time.Duration.String`, read by `parseDur` = `time.ParseDuration`), `i<int>` integer, `b0`/`b1`,
`f<tok64>/<tok32>` float (tok64 = FormatFloat(v,'f',-1,64), tok32 = what go-toml's formatter prints:
the float formatter is a parameter of the model, its value on this input is supplied by the generator
from strconv), `l<elem>;<elem>;..` string list (`l-` = empty list).

  prec <flag> <F> <E> <I> <D>     sources flag / env / file (`-` = silent) and the default for one option
      -> the value setAllConfig leaves in the flag variable (`err` = flagErr); #spec = highest-priority
         supplied value
  rp <flag>=<val>,<flag>=<val>,...   a complete configuration (all options of the table)
  gen <flag>=<val>,...               the same for the default configuration (generate-config)
  ds <int ns>                        -> time.Duration(ns).String() as code points
  pd <text>                          -> `ok <ns>` / `err`   time.ParseDuration(text)
      -> `text=<rendered TOML, code points> back=<flag>=<val>,... | err`  (back = what the server ends up
         with when started on the rendered file: parse, then setAllConfig with the file as only source)
         #spec = same text, back = the configuration that was rendered
-/
import PV.Common.Proto
import PV.C31.Model
import PV.C31.Spec
import PV.C31.Gen
open PV.Proto PV.C31

def decStr (s : String) : Option Str :=
  if s = "e" then some [] else (s.splitOn ".").mapM (fun t => t.toNat?.map Char.ofNat)

def encStr (s : Str) : String :=
  if s.isEmpty then "e" else ".".intercalate (s.map (fun c => toString c.toNat))

/-- A typed value on the wire. -/
inductive WVal where
  | str (s : Str) | dur (ns : Int) | int (n : Int) | bool (b : Bool)
  | float (t64 t32 : Str) | list (xs : List Str)

def decVal (s : String) : Option WVal :=
  match s.toList with
  | 's' :: r => (decStr (String.ofList r)).map .str
  | 'd' :: r => (String.ofList r).toInt?.map .dur
  | 'i' :: r => (String.ofList r).toInt?.map .int
  | ['b', '0'] => some (.bool false)
  | ['b', '1'] => some (.bool true)
  | 'f' :: r =>
    match (String.ofList r).splitOn "/" with
    | [a, b] => do pure (.float (← decStr a) (← decStr b))
    | _ => none
  | ['l', '-'] => some (.list [])
  | 'l' :: r => ((String.ofList r).splitOn ";").mapM decStr |>.map .list
  | _ => none

def encVal : WVal → String
  | .str s => "s" ++ encStr s
  | .dur n => "d" ++ toString n
  | .int n => "i" ++ toString n
  | .bool b => if b then "b1" else "b0"
  | .float a b => "f" ++ encStr a ++ "/" ++ encStr b
  | .list xs => if xs.isEmpty then "l-" else "l" ++ ";".intercalate (xs.map encStr)

/-- Canonical scalar text of a wire value (what ends in the flag variable, printed canonically). -/
def toVal : WVal → Val
  | .str s => .scalar s
  | .dur n => .scalar (durString n)
  | .int n => .scalar (renderInt n)
  | .bool b => .scalar (if b then "true".toList else "false".toList)
  | .float a _ => .scalar a
  | .list xs => .list xs

def showVal : Val → String
  | .scalar s => "s" ++ encStr s
  | .list xs => if xs.isEmpty then "l-" else "l" ++ ";".intercalate (xs.map encStr)

def optVal (s : String) : Option (Option WVal) :=
  if s = "-" then some none else (decVal s).map some

/-- go-toml prints integral floats with one decimal (`2.0`); the value read back prints as `2`. -/
def stripDotZero (t : Str) : Str :=
  match t.reverse with
  | '0' :: '.' :: r => r.reverse
  | _ => t

def toTVal : WVal → TVal
  | .str s => .str s
  | .dur n => .str (durString n)   -- MarshalTOML = Duration.String, written as a TOML string
  | .int n => .int n
  | .bool b => .bool b
  | .float _ t32 => .float t32
  | .list xs => .strs xs

/-- Canonical wire text of a value read back from the file for an option of wire shape `w`. -/
def backVal (w : WVal) (tv : TVal) : Option Val :=
  match w, tv with
  | .str _, .str s => some (.scalar s)
  | .dur _, .str s => (parseDur s).map (fun d => .scalar (durString d))   -- durationValue.Set = ParseDuration
  | .int _, .int n => some (.scalar (renderInt n))
  | .bool _, .bool b => some (.scalar (if b then "true".toList else "false".toList))
  | .float _ _, .float t => some (.scalar (stripDotZero t))
  | .float _ _, .int n => some (.scalar (renderInt n))
  | .list _, .strs xs => some (.list xs)
  | _, _ => none

def splitPath (p : String) : Str × Str :=
  match p.splitOn "." with
  | [t, k] => (t.toList, k.toList)
  | _ => ([], p.toList)

def strLt (a b : Str) : Bool := (String.ofList a) < (String.ofList b)

def insertSorted {α : Type} (key : α → Str) (x : α) : List α → List α
  | [] => [x]
  | y :: ys => if strLt (key x) (key y) then x :: y :: ys else y :: insertSorted key x ys

def sortBy {α : Type} (key : α → Str) (l : List α) : List α := l.foldl (fun acc x => insertSorted key x acc) []

/-- The document go-toml writes for a configuration: keys and tables in alphabetical order. -/
def mkDoc (cfg : List (String × WVal)) : Doc :=
  let split := cfg.map (fun p => (splitPath p.1, toTVal p.2))
  let top := sortBy (·.key) ((split.filter (fun p => p.1.1 = [])).map (fun p => (⟨p.1.2, p.2⟩ : Entry)))
  let names := sortBy id ((split.map (·.1.1)).filter (· ≠ [])).eraseDups
  let tables := names.map (fun n =>
    (n, sortBy (·.key) ((split.filter (fun p => p.1.1 = n)).map (fun p => (⟨p.1.2, p.2⟩ : Entry)))))
  ⟨top, tables⟩

def lookupDoc (d : Doc) (path : String) : Option TVal :=
  let (t, k) := splitPath path
  let es := if t = [] then d.top else ((d.tables.find? (·.1 = t)).map (·.2)).getD []
  (es.find? (·.key = k)).map (·.val)

def decCfg (s : String) : Option (List (String × WVal)) :=
  (s.splitOn ",").mapM (fun kv =>
    match kv.splitOn "=" with
    | [k, v] => (decVal v).map (fun w => (k, w))
    | _ => none)

def wSimple : WVal → Bool
  | .list xs => simpleList xs
  | _ => true

def classifyCfg (cfg : List (String × WVal)) : String :=
  if cfg.any (fun p => match p.2 with
      | .str s => !s.all charOK
      | .list xs => xs.any (fun x => !x.all charOK)
      | _ => false) then "toml-string-escape"
  else if cfg.any (fun p => match p.2 with | .int n => n ≥ 9223372036854775808 | _ => false) then "uint-above-int64"
  else if cfg.any (fun p => match p.2 with | .float a b => stripDotZero b ≠ a | _ => false) then "float-rendered-float32"
  else if cfg.any (fun p => !wSimple p.2) then "strslice-resplit"
  else ""

def renderParse (cfg : List (String × WVal)) : Ans :=
  -- every option of the regenerated table must be present exactly once
  let names := cfg.map (·.1)
  if !(Gen.flags.all (fun f => names.contains f.name)) || names.length ≠ Gen.flags.length then ans "bad-op"
  else
    let doc := mkDoc cfg
    let lines := renderDoc doc
    let text := joinLines lines ++ ['\n']
    let sorted := sortBy (fun p => p.1.toList) cfg
    let back : Option (List (String × Val)) :=
      match parseDoc (splitLines (joinLines lines)) with
      | none => none
      | some d => sorted.mapM (fun p =>
          match lookupDoc d p.1 with
          | none => none
          | some tv =>
            match backVal p.2 tv with
            | none => none
            | some v => (resolve ⟨none, none, some v, v⟩).map (fun r => (p.1, r)))
    let showCfg (l : List (String × Val)) := ",".intercalate (l.map (fun p => p.1 ++ "=" ++ showVal p.2))
    let m := "text=" ++ encStr text ++ " back=" ++ (match back with | none => "err" | some l => showCfg l)
    let sp := "text=" ++ encStr text ++ " back=" ++ showCfg (sorted.map (fun p => (p.1, toVal p.2)))
    ans2 m sp (classifyCfg cfg)

def step (_u : Unit) (ws : List String) : Unit × Ans :=
  let bad := ((), ans "bad-op")
  match ws with
  | ["prec", name, f, e, i, d] =>
    if !(Gen.flags.any (·.name = name)) then bad else
    match optVal f, optVal e, optVal i, decVal d with
    | some f, some e, some i, some d =>
      let s : Sources := ⟨f.map toVal, e.map toVal, i.map toVal, toVal d⟩
      let m := match resolve s with | some v => showVal v | none => "err"
      ((), ans2 m (showVal (Spec.expected s)) "strslice-resplit")
    | _, _, _, _ => bad
  | ["ds", n] =>
    match n.toInt? with
    | some d => ((), ans (encStr (durString d)))
    | none => bad
  | ["pd", t] =>
    match decStr t with
    | some s => ((), ans (match parseDur s with | some d => "ok " ++ toString d | none => "err"))
    | none => bad
  | ["rp", c] =>
    match decCfg c with
    | some cfg => ((), renderParse cfg)
    | none => bad
  | ["gen", c] =>
    match decCfg c with
    | some cfg => ((), renderParse cfg)
    | none => bad
  | _ => bad

def main : IO Unit := run () step
