/-
C31 property theorems.  Core Lean only.  PARTIAL BY NATURE: viper / pflag / go-toml are third-party;
their behaviour enters as the recorded assumptions of Model.lean (viperGet's lookup order, identity of
ToString+Set on canonical scalars, the go-toml writer/lexer rules transcribed in Part C) and is
validated differentially on every run by harness/cmd/c31.

Full-strength statements (the property):
  (P)  ∀ s, resolve s = some (Spec.expected s)                     -- every option, every subset of sources
  (R)  ∀ d, parseDoc (renderDoc d) = some d                        -- every configuration
The current code does not meet them on the inputs excluded below; each exclusion has a witness theorem
and a tag in known_findings.jsonl, and is replayed on the real code by the harness:
  (P)  a string-slice value taken from env/file/default with an element containing `,` (or being the
       single empty string) is re-split by `strings.Join` + pflag's CSV parsing   (`strslice-resplit`);
  (R)  strings containing U+001F or a rune above U+FFFF whose low 16 bits are < 0x1F (go-toml's escape
       test `uint16(rr) < 0x001F`)                                                (`toml-string-escape`);
       uint64 options above 2^63-1: rendered in full, refused by the TOML reader  (`uint-above-int64`);
       float64 options are rendered with float32 precision (`FormatFloat(.., 32)`): the float formatter
       is a parameter of the model (DESIGN section 9)                             (`float-rendered-float32`).
-/
import PV.C31.Model
import PV.C31.Spec
import PV.C31.Gen
import PV.C31.LemmasPrec
import PV.C31.LemmasToml
import PV.C31.LemmasDur
namespace PV.C31
open List

/-! ### the regenerated option table (the quantifier is the table) -/

/-- Every leaf field of server.Config carries toml tags, sits at most one table deep, has exactly one
flag, that flag is named like the toml path and has the same kind; every flag writes to a Config
field and its environment variable is PILOSA_ + upper(flag with '-' and '.' replaced by '_'); no two
flags share a name or an environment variable; no two fields share a toml path. -/
theorem C31_table : tableOK Gen.fields Gen.flags = true := by decide

/-- The statements of setAllConfig the model relies on are present in the source. -/
theorem C31_rule :
    Gen.envPrefix = "PILOSA" ∧ Gen.replacer = [("-", "_"), (".", "_")] ∧ Gen.bindPFlags = true ∧
    Gen.automaticEnv = true ∧ Gen.keyValidation = true ∧ Gen.sliceSpecialCase = true ∧
    Gen.changedShortCircuit = true := by decide

example : Gen.fields.length ≥ 40 ∧ Gen.flags.length = Gen.fields.length := by decide

/-! ### precedence -/

/-- For every option and every subset of {flag, env, file} supplying values, setAllConfig leaves the
highest-priority supplied value in the flag variable - provided the value that has to travel through
`Join` + `Set` (i.e. when no flag was given) is a scalar or a simple string list. -/
theorem C31_precedence_partial (s : Sources)
    (h : s.flag.isSome = true ∨ (viperGet s).simple = true) :
    resolve s = some (Spec.expected s) := by
  obtain ⟨fl, en, fi, d⟩ := s
  cases fl with
  | some v => simp [resolve, Spec.expected]
  | none =>
    have hs : (viperGet ⟨none, en, fi, d⟩).simple = true := by
      rcases h with h | h
      · simp at h
      · exact h
    have hv : viperGet ⟨none, en, fi, d⟩ = Spec.expected ⟨none, en, fi, d⟩ := by
      cases en <;> cases fi <;> rfl
    simp only [resolve]
    rw [← hv]
    generalize viperGet ⟨none, en, fi, d⟩ = v at hs
    cases v with
    | scalar x => rfl
    | list xs =>
      simp only [Val.simple] at hs
      simp [throughSet, readAsCSV_join xs hs]

/-- All eight subsets of sources are instances (non-vacuity): -/
example : ∀ (a b c : Option Val) (d : Val), (a.isSome ∨ (viperGet ⟨a, b, c, d⟩).simple) →
    resolve ⟨a, b, c, d⟩ = some (Spec.expected ⟨a, b, c, d⟩) :=
  fun a b c d h => C31_precedence_partial ⟨a, b, c, d⟩ h

example : (viperGet ⟨none, none, some (.list [['a'], [], ['b', ' ']]), .list []⟩).simple = true := by decide

/-- Witness: a file value `["a,b"]` (one host) arrives as two hosts; `[""]` arrives as `[]`. -/
theorem C31_strslice_resplit_witness :
    resolve ⟨none, none, some (.list [['a', ',', 'b']]), .list []⟩ = some (.list [['a'], ['b']]) ∧
    Spec.expected ⟨none, none, some (.list [['a', ',', 'b']]), .list []⟩ = .list [['a', ',', 'b']] ∧
    resolve ⟨none, none, some (.list [[]]), .list []⟩ = some (.list []) := by decide

/-! ### render / parse -/

/-- Rendering a document to text (lines joined by LF), splitting the text at LF and parsing the lines
gives the document back, for every document whose keys are bare keys (no blank, `[`, LF), whose table
names contain no `]` / LF, whose strings consist of `charOK` characters, whose integers fit int64 and
whose floats are decimal tokens (`docOK`). -/
theorem C31_render_parse_partial (d : Doc) (h : docOK d) :
    parseDoc (splitLines (joinLines (renderDoc d))) = Spec.readBack d :=
  parseText_renderText d h

/-- `docOK` is satisfiable by a document with every kind of value, a table, quotes, backslashes,
newlines, control characters, Unicode, negative and extreme integers, an empty list and a list with a
comma element. -/
example : docOK ⟨[⟨['d', '-', 'k'], .str ['a', '"', '\\', '\n', '\x01', 'é']⟩, ⟨['n'], .int (-9223372036854775808)⟩],
    [(['t', 'l', 's'], [⟨['b'], .bool true⟩, ⟨['f'], .float ['0', '.', '5']⟩,
      ⟨['l'], .strs [['a', ','], []]⟩, ⟨['m'], .int 9223372036854775807⟩, ⟨['e'], .strs []⟩])]⟩ := by
  refine ⟨?_, ?_⟩
  · intro e he
    simp only [mem_cons, not_mem_nil, or_false] at he
    rcases he with rfl | rfl
    · exact ⟨⟨by decide, by decide⟩, by intro c hc; revert c; decide⟩
    · exact ⟨⟨by decide, by decide⟩, by simp only [valOK]; omega⟩
  · intro t ht
    simp only [mem_singleton] at ht
    subst ht
    refine ⟨⟨by decide, by decide⟩, ?_⟩
    intro e he
    simp only [mem_cons, not_mem_nil, or_false] at he
    rcases he with rfl | rfl | rfl | rfl | rfl
    · exact ⟨⟨by decide, by decide⟩, trivial⟩
    · exact ⟨⟨by decide, by decide⟩, by simp only [valOK]; decide⟩
    · exact ⟨⟨by decide, by decide⟩, by intro x hx c hc; revert c; revert x; decide⟩
    · exact ⟨⟨by decide, by decide⟩, by simp only [valOK]; omega⟩
    · exact ⟨⟨by decide, by decide⟩, by intro x hx; cases hx⟩

/-! ### durations (full): `time.ParseDuration (time.Duration(d).String()) = d` for every int64 d

`durString` transcribes `Duration.format` / `fmtFrac` / `fmtInt` digit for digit, `parseDur` transcribes
`ParseDuration` (`leadingInt`, `leadingFraction` with its overflow rule, `unitMap`, the overflow checks);
the fraction product, float64 in Go, is computed in naturals (exact for every text `String` prints).
`toml.Duration.String/MarshalTOML` must be this function: the tie compares the rendered text. -/

theorem C31_duration (d : Int) (h1 : -(2 ^ 63 : Int) ≤ d) (h2 : d < (2 ^ 63 : Int)) :
    parseDur (durString d) = some d :=
  parseDur_durString d h1 h2

example : durString 600000000213 = "10m0.000000213s".toList ∧ durString 2000500000 = "2.0005s".toList ∧
    durString (-9223372036854775808) = "-2562047h47m16.854775808s".toList ∧ durString 1500 = "1.5µs".toList ∧
    durString 0 = "0s".toList := by decide

/-- Every string of quotes, backslashes, control characters (except U+001F), DEL, Latin-1, BMP and
astral characters with low 16 bits >= 0x1F is covered: -/
example : (['"', '\\', '\n', '\r', '\t', '\x00', '\x1e', '\x7f', 'é', '☃', Char.ofNat 0x1F600]).all charOK = true := by
  decide

/-- Witness: U+001F is written raw and refused by the lexer; U+1000A is written as `\u000A`. -/
theorem C31_toml_string_escape_witness :
    parseVal (renderVal (.str ['a', '\x1f'])) = none ∧
    parseVal (renderVal (.str [Char.ofNat 0x1000A])) = some (.str ['\n']) := by decide

/-- Witness: a uint64 option above 2^63-1 is rendered in full and refused on reading. -/
theorem C31_uint_above_int64_witness :
    renderVal (.int 9223372036854775808) = "9223372036854775808".toList ∧
    parseVal (renderVal (.int 9223372036854775808)) = none := by decide

/-- Witness (float formatter as a parameter): whenever the formatter shortens the token of a value -
as `strconv.FormatFloat(v, 'f', -1, 32)` does for 0.123456789012 -> 0.12345679, observed on every run -
the document read back differs from the configuration that was rendered. -/
theorem C31_float_rendered_float32_witness (fmt : Str → Str)
    (hobs : fmt "0.123456789012".toList = "0.12345679".toList) :
    parseVal (renderVal (.float (fmt "0.123456789012".toList))) ≠ some (.float "0.123456789012".toList) := by
  rw [hobs]; decide

end PV.C31
