/-
C17 property theorems (only).  Helper lemmas: Props0 (generic fold lemma, reducer laws), Lemmas.

Property C17: "the result is the same whichever node coordinates, however shards are grouped onto
nodes, and in whatever order shard results arrive …; the count returned with a Min or Max value
that several shards share is the total across those shards."

Model: `mapReduce f nil groups` (Model.lean) = every node folds its shard results from nil in
arrival order, the coordinator folds the node results from nil in arrival order.
-/
import PV.C17.Lemmas
namespace PV.C17
open List

/-- Generic statement of the property for a reducer satisfying `Laws` on the domain of shard
results: two executions over the same multiset of per-shard results (any grouping onto nodes,
any arrival orders) return the same value. -/
theorem C17_order_and_placement_free {α : Type} {D : α → Prop} {f : α → α → α} {e : α}
    (L : Laws D f e) (g₁ g₂ : List (List α)) (p : g₁.flatten.Perm g₂.flatten)
    (h : ∀ g ∈ g₁, ∀ x ∈ g, D x) : mapReduce f e g₁ = mapReduce f e g₂ :=
  C17_placement_order_free L g₁ g₂ p h

/-- Sum. -/
theorem C17_sum (g₁ g₂ : List (List ValCount)) (p : g₁.flatten.Perm g₂.flatten) :
    mapReduce ValCount.add .zero g₁ = mapReduce ValCount.add .zero g₂ :=
  C17_placement_order_free C17_add_laws g₁ g₂ p (fun _ _ _ _ => trivial)

/-- Min, Max: order/placement free on valid shard results. -/
theorem C17_min (g₁ g₂ : List (List ValCount)) (p : g₁.flatten.Perm g₂.flatten)
    (h : ∀ g ∈ g₁, ∀ x ∈ g, VCValid x) :
    mapReduce ValCount.smaller .zero g₁ = mapReduce ValCount.smaller .zero g₂ :=
  C17_placement_order_free C17_smaller_laws g₁ g₂ p h

theorem C17_max (g₁ g₂ : List (List ValCount)) (p : g₁.flatten.Perm g₂.flatten)
    (h : ∀ g ∈ g₁, ∀ x ∈ g, VCValid x) :
    mapReduce ValCount.larger .zero g₁ = mapReduce ValCount.larger .zero g₂ :=
  C17_placement_order_free C17_larger_laws g₁ g₂ p h

/-- MinRow / MaxRow / Count. -/
theorem C17_minRow (g₁ g₂ : List (List Pair)) (p : g₁.flatten.Perm g₂.flatten)
    (h : ∀ g ∈ g₁, ∀ x ∈ g, PairValid x) :
    mapReduce minRowReduce .zero g₁ = mapReduce minRowReduce .zero g₂ :=
  C17_placement_order_free C17_minRow_laws g₁ g₂ p h

theorem C17_maxRow (g₁ g₂ : List (List Pair)) (p : g₁.flatten.Perm g₂.flatten)
    (h : ∀ g ∈ g₁, ∀ x ∈ g, PairValid x) :
    mapReduce maxRowReduce .zero g₁ = mapReduce maxRowReduce .zero g₂ :=
  C17_placement_order_free C17_maxRow_laws g₁ g₂ p h

theorem C17_count (g₁ g₂ : List (List Nat)) (p : g₁.flatten.Perm g₂.flatten) :
    mapReduce (· + ·) 0 g₁ = mapReduce (· + ·) 0 g₂ :=
  C17_placement_order_free C17_count_laws g₁ g₂ p (fun _ _ _ _ => trivial)

/-- "The count returned with a Min value that several shards share is the total across those
shards": whatever the grouping and arrival order, Min returns the smallest value held by any
shard with at least one value, together with the SUM of the counts of the shards holding it. -/
theorem C17_min_total (groups : List (List ValCount)) (h : ∀ g ∈ groups, ∀ x ∈ g, VCValid x) :
    mapReduce ValCount.smaller .zero groups = Spec.min groups.flatten := by
  rw [C17_group C17_smaller_laws groups h]
  have hv : ∀ x ∈ groups.flatten, VCValid x := by
    intro x hx; rcases mem_flatten.mp hx with ⟨g, hg, hxg⟩; exact h g hg x hxg
  generalize groups.flatten = l at hv
  induction l with
  | nil => simp [reduceAll, Spec.min, Spec.live, Spec.minVal]
  | cons x xs ih =>
    have hx := hv x (by simp)
    have hxs : ∀ y ∈ xs, VCValid y := fun y hy => hv y (by simp [hy])
    rw [reduceAll_cons C17_smaller_laws x xs hx hxs, ih hxs, spec_min_cons x xs hx]

theorem C17_max_total (groups : List (List ValCount)) (h : ∀ g ∈ groups, ∀ x ∈ g, VCValid x) :
    mapReduce ValCount.larger .zero groups = Spec.max groups.flatten := by
  rw [C17_group C17_larger_laws groups h]
  have hv : ∀ x ∈ groups.flatten, VCValid x := by
    intro x hx; rcases mem_flatten.mp hx with ⟨g, hg, hxg⟩; exact h g hg x hxg
  generalize groups.flatten = l at hv
  induction l with
  | nil => simp [reduceAll, Spec.max, Spec.live, Spec.maxVal]
  | cons x xs ih =>
    have hx := hv x (by simp)
    have hxs : ∀ y ∈ xs, VCValid y := fun y hy => hv y (by simp [hy])
    rw [reduceAll_cons C17_larger_laws x xs hx hxs, ih hxs, spec_max_cons x xs hx]

/-! Non-vacuity: concrete shard results satisfy the hypotheses, with a shared extreme. -/
example : (∀ g ∈ [[(⟨5, 2⟩ : ValCount), ⟨7, 1⟩], [⟨5, 3⟩, ⟨0, 0⟩]], ∀ x ∈ g, VCValid x) ∧
    mapReduce ValCount.smaller .zero [[(⟨5, 2⟩ : ValCount), ⟨7, 1⟩], [⟨5, 3⟩, ⟨0, 0⟩]] = ⟨5, 5⟩ := by
  decide

/-- Regression witness for the defect repaired by "fix: Min/Max reduce sums the counts …":
the pre-fix reducer (ties keep the receiver) is not commutative, so the result depended on the
arrival order. -/
def smallerPreFix (vc other : ValCount) : ValCount :=
  if vc.count = 0 ∨ (other.val < vc.val ∧ other.count > 0) then other else ⟨vc.val, vc.count⟩

theorem C17_prefix_smaller_order_dependent_witness :
    smallerPreFix ⟨5, 2⟩ ⟨5, 3⟩ ≠ smallerPreFix ⟨5, 3⟩ ⟨5, 2⟩ := by decide

end PV.C17
