/-
C17 property theorems (only).  Helper lemmas: Props0 (generic fold lemma, reducer laws), Lemmas.

Property C17: "the result is the same whichever node coordinates, however shards are grouped onto
nodes, and in whatever order shard results arrive …; the count returned with a Min or Max value
that several shards share is the total across those shards."

Model: `mapReduce f nil groups` (Model.lean) = every node folds its shard results from nil in
arrival order, the coordinator folds the node results from nil in arrival order.
-/
import PV.C17.LemmasM
import PV.C17.LemmasF
import PV.C17.LemmasT
namespace PV.C17
open List K

/-- Generic statement of the property for a reducer satisfying `Laws` on the domain of shard
results: two executions over the same multiset of per-shard results (any grouping onto nodes,
any arrival orders) return the same value. -/
theorem C17_order_and_placement_free {α : Type} {D : α → Prop} {f : α → α → α} {e : α}
    (L : Laws D f e) (g₁ g₂ : List (List α)) (p : g₁.flatten.Perm g₂.flatten)
    (h : ∀ g ∈ g₁, ∀ x ∈ g, D x) : mapReduce f e g₁ = mapReduce f e g₂ :=
  C17_placement_order_free L g₁ g₂ p h

/-- Sum. -/
theorem C17_sum (g₁ g₂ : List (List ValCount)) (p : g₁.flatten.Perm g₂.flatten) :
    mapReduce ValCount.add .zero g₁ = mapReduce ValCount.add .zero g₂ :=
  C17_placement_order_free C17_add_laws g₁ g₂ p (fun _ _ _ _ => trivial)

/-- Min, Max: order/placement free on valid shard results. -/
theorem C17_min (g₁ g₂ : List (List ValCount)) (p : g₁.flatten.Perm g₂.flatten)
    (h : ∀ g ∈ g₁, ∀ x ∈ g, VCValid x) :
    mapReduce ValCount.smaller .zero g₁ = mapReduce ValCount.smaller .zero g₂ :=
  C17_placement_order_free C17_smaller_laws g₁ g₂ p h

theorem C17_max (g₁ g₂ : List (List ValCount)) (p : g₁.flatten.Perm g₂.flatten)
    (h : ∀ g ∈ g₁, ∀ x ∈ g, VCValid x) :
    mapReduce ValCount.larger .zero g₁ = mapReduce ValCount.larger .zero g₂ :=
  C17_placement_order_free C17_larger_laws g₁ g₂ p h

/-- MinRow / MaxRow / Count. -/
theorem C17_minRow (g₁ g₂ : List (List Pair)) (p : g₁.flatten.Perm g₂.flatten)
    (h : ∀ g ∈ g₁, ∀ x ∈ g, PairValid x) :
    mapReduce minRowReduce .zero g₁ = mapReduce minRowReduce .zero g₂ :=
  C17_placement_order_free C17_minRow_laws g₁ g₂ p h

theorem C17_maxRow (g₁ g₂ : List (List Pair)) (p : g₁.flatten.Perm g₂.flatten)
    (h : ∀ g ∈ g₁, ∀ x ∈ g, PairValid x) :
    mapReduce maxRowReduce .zero g₁ = mapReduce maxRowReduce .zero g₂ :=
  C17_placement_order_free C17_maxRow_laws g₁ g₂ p h

theorem C17_count (g₁ g₂ : List (List Nat)) (p : g₁.flatten.Perm g₂.flatten) :
    mapReduce (· + ·) 0 g₁ = mapReduce (· + ·) 0 g₂ :=
  C17_placement_order_free C17_count_laws g₁ g₂ p (fun _ _ _ _ => trivial)

/-- "The count returned with a Min value that several shards share is the total across those
shards": whatever the grouping and arrival order, Min returns the smallest value held by any
shard with at least one value, together with the SUM of the counts of the shards holding it. -/
theorem C17_min_total (groups : List (List ValCount)) (h : ∀ g ∈ groups, ∀ x ∈ g, VCValid x) :
    mapReduce ValCount.smaller .zero groups = Spec.min groups.flatten := by
  rw [C17_group C17_smaller_laws groups h]
  have hv : ∀ x ∈ groups.flatten, VCValid x := by
    intro x hx; rcases mem_flatten.mp hx with ⟨g, hg, hxg⟩; exact h g hg x hxg
  generalize groups.flatten = l at hv
  induction l with
  | nil => simp [reduceAll, Spec.min, Spec.live, Spec.minVal]
  | cons x xs ih =>
    have hx := hv x (by simp)
    have hxs : ∀ y ∈ xs, VCValid y := fun y hy => hv y (by simp [hy])
    rw [reduceAll_cons C17_smaller_laws x xs hx hxs, ih hxs, spec_min_cons x xs hx]

theorem C17_max_total (groups : List (List ValCount)) (h : ∀ g ∈ groups, ∀ x ∈ g, VCValid x) :
    mapReduce ValCount.larger .zero groups = Spec.max groups.flatten := by
  rw [C17_group C17_larger_laws groups h]
  have hv : ∀ x ∈ groups.flatten, VCValid x := by
    intro x hx; rcases mem_flatten.mp hx with ⟨g, hg, hxg⟩; exact h g hg x hxg
  generalize groups.flatten = l at hv
  induction l with
  | nil => simp [reduceAll, Spec.max, Spec.live, Spec.maxVal]
  | cons x xs ih =>
    have hx := hv x (by simp)
    have hxs : ∀ y ∈ xs, VCValid y := fun y hy => hv y (by simp [hy])
    rw [reduceAll_cons C17_larger_laws x xs hx hxs, ih hxs, spec_max_cons x xs hx]

/-! Non-vacuity: concrete shard results satisfy the hypotheses, with a shared extreme. -/
example : (∀ g ∈ [[(⟨5, 2⟩ : ValCount), ⟨7, 1⟩], [⟨5, 3⟩, ⟨0, 0⟩]], ∀ x ∈ g, VCValid x) ∧
    mapReduce ValCount.smaller .zero [[(⟨5, 2⟩ : ValCount), ⟨7, 1⟩], [⟨5, 3⟩, ⟨0, 0⟩]] = ⟨5, 5⟩ := by
  decide

/-- Regression witness for the defect repaired by "fix: Min/Max reduce sums the counts …":
the pre-fix reducer (ties keep the receiver) is not commutative, so the result depended on the
arrival order. -/
def smallerPreFix (vc other : ValCount) : ValCount :=
  if vc.count = 0 ∨ (other.val < vc.val ∧ other.count > 0) then other else ⟨vc.val, vc.count⟩

theorem C17_prefix_smaller_order_dependent_witness :
    smallerPreFix ⟨5, 2⟩ ⟨5, 3⟩ ≠ smallerPreFix ⟨5, 3⟩ ⟨5, 2⟩ := by decide


/-- MinRow: whatever the grouping and the arrival order, the result is the smallest row id some
shard reports with a positive count, with the TOTAL count over the shards reporting that row. -/
theorem C17_minRow_total (groups : List (List Pair)) (h : ∀ g ∈ groups, ∀ x ∈ g, PairValid x) :
    mapReduce minRowReduce .zero groups = Spec.minRow groups.flatten := by
  rw [C17_group C17_minRow_laws groups h]
  have hv : ∀ x ∈ groups.flatten, PairValid x := by
    intro x hx; rcases mem_flatten.mp hx with ⟨g, hg, hxg⟩; exact h g hg x hxg
  generalize groups.flatten = l at hv
  induction l with
  | nil => rfl
  | cons x xs ih =>
    have hxs : ∀ y ∈ xs, PairValid y := fun y hy => hv y (by simp [hy])
    rw [reduceAll_cons C17_minRow_laws x xs (hv x (by simp)) hxs, ih hxs, spec_minRow_cons]

theorem C17_maxRow_total (groups : List (List Pair)) (h : ∀ g ∈ groups, ∀ x ∈ g, PairValid x) :
    mapReduce maxRowReduce .zero groups = Spec.maxRow groups.flatten := by
  rw [C17_group C17_maxRow_laws groups h]
  have hv : ∀ x ∈ groups.flatten, PairValid x := by
    intro x hx; rcases mem_flatten.mp hx with ⟨g, hg, hxg⟩; exact h g hg x hxg
  generalize groups.flatten = l at hv
  induction l with
  | nil => rfl
  | cons x xs ih =>
    have hxs : ∀ y ∈ xs, PairValid y := fun y hy => hv y (by simp [hy])
    rw [reduceAll_cons C17_maxRow_laws x xs (hv x (by simp)) hxs, ih hxs, spec_maxRow_cons]

example : (∀ g ∈ [[(⟨3, 2⟩ : Pair), ⟨5, 1⟩], [⟨3, 5⟩, ⟨0, 0⟩]], ∀ x ∈ g, PairValid x) ∧
    mapReduce minRowReduce .zero [[(⟨3, 2⟩ : Pair), ⟨5, 1⟩], [⟨3, 5⟩, ⟨0, 0⟩]] = ⟨3, 7⟩ := by
  refine ⟨?_, by decide⟩
  simp [PairValid]

/-! ## Row.Merge — the reducer of every bitmap call (Row, Union, Intersect, Range, …)

`RowWF r` (LemmasM) unfolds to: `(r.map Seg.shard).Pairwise (· < ·)` (segments strictly ascending
by shard) and `∀ s ∈ r, s.cols.Pairwise (· < ·)` (columns strictly ascending): `C17_rowWF_iff`.
Per-shard rows produced by a fragment are one segment of ascending columns. -/

theorem C17_rowWF_iff (r : List Seg) :
    RowWF r ↔ (r.map Seg.shard).Pairwise (· < ·) ∧ ∀ s ∈ r, s.cols.Pairwise (· < ·) := Iff.rfl

/-- `Row.Merge` (as coded, with `mergeSegmentIterator.next` returning `(s1, nil)` for a lone
segment of the other row) is commutative, associative and has the empty row as identity on
well-formed rows. -/
theorem C17_rowMerge_laws : Laws RowWF rowMerge [] := rowMerge_laws

/-- Any two executions (groupings onto nodes, arrival orders) over the same multiset of
per-shard rows return the same `Row` value. -/
theorem C17_row (g₁ g₂ : List (List (List Seg))) (p : g₁.flatten.Perm g₂.flatten)
    (h : ∀ g ∈ g₁, ∀ r ∈ g, RowWF r) :
    mapReduce rowMerge [] g₁ = mapReduce rowMerge [] g₂ :=
  C17_placement_order_free rowMerge_laws g₁ g₂ p h

/-- The merged row is well formed, its bits are exactly the union of the bits of all per-shard
rows and its segments are exactly the shards some per-shard row has a segment for. -/
theorem C17_row_union (groups : List (List (List Seg))) (h : ∀ g ∈ groups, ∀ r ∈ g, RowWF r) :
    RowWF (mapReduce rowMerge [] groups) ∧
    (∀ sh c, (sh, c) ∈ rowBits (mapReduce rowMerge [] groups)
        ↔ ∃ g ∈ groups, ∃ r ∈ g, (sh, c) ∈ rowBits r) ∧
    (∀ sh, sh ∈ (mapReduce rowMerge [] groups).map Seg.shard
        ↔ ∃ g ∈ groups, ∃ r ∈ g, sh ∈ r.map Seg.shard) := by
  rw [C17_group rowMerge_laws groups h]
  have hv : ∀ r ∈ groups.flatten, RowWF r := by
    intro x hx; rcases mem_flatten.mp hx with ⟨g, hg, hxg⟩; exact h g hg x hxg
  have hex : ∀ (P : List Seg → Prop), (∃ g ∈ groups, ∃ r ∈ g, P r) ↔ ∃ r ∈ groups.flatten, P r := by
    intro P
    constructor
    · rintro ⟨g, hg, r, hr, hp⟩; exact ⟨r, mem_flatten.mpr ⟨g, hg, hr⟩, hp⟩
    · rintro ⟨r, hr, hp⟩; rcases mem_flatten.mp hr with ⟨g, hg, hrg⟩; exact ⟨g, hg, r, hrg, hp⟩
  simp only [hex]
  generalize groups.flatten = l at hv
  induction l with
  | nil => exact ⟨rowMerge_laws.dnil, by simp [reduceAll, rowBits], by simp [reduceAll]⟩
  | cons x xs ih =>
    have hx := hv x (by simp)
    have hxs : ∀ y ∈ xs, RowWF y := fun y hy => hv y (by simp [hy])
    obtain ⟨w, b, s⟩ := ih hxs
    rw [reduceAll_cons rowMerge_laws x xs hx hxs]
    refine ⟨rowMerge_laws.closed _ _ hx w, ?_, ?_⟩
    · intro sh c
      rw [mem_rowBits_rowMerge hx w, b]; simp
    · intro sh
      rw [mem_shards_rowMerge hx w, s]; simp

/-- Strictly sorted rows with the same segments' shards and the same bits are equal (so the
result is determined by the union alone). -/
theorem C17_row_ext (r₁ r₂ : List Seg) (h₁ : RowWF r₁) (h₂ : RowWF r₂)
    (hs : ∀ sh, sh ∈ r₁.map Seg.shard ↔ sh ∈ r₂.map Seg.shard)
    (hb : ∀ sh c, (sh, c) ∈ rowBits r₁ ↔ (sh, c) ∈ rowBits r₂) : r₁ = r₂ :=
  rowWF_ext r₁ r₂ h₁ h₂ hs hb

/-- Remote transport: a remote node's row travels as its column list, so segments without bits
are dropped on the way (`T`; any map that keeps rows well formed and keeps their bits). The bits
of the coordinator's result are still exactly the union of the bits of all per-shard rows,
whichever node results went through the transport. -/
theorem C17_row_bits_transport (T : List Seg → List Seg)
    (hT : ∀ r, RowWF r → RowWF (T r) ∧ ∀ sh c, (sh, c) ∈ rowBits (T r) ↔ (sh, c) ∈ rowBits r)
    (remote : List (List Seg) → Bool)
    (groups : List (List (List Seg))) (h : ∀ g ∈ groups, ∀ r ∈ g, RowWF r) :
    ∀ sh c, (sh, c) ∈ rowBits (reduceAll rowMerge []
        (groups.map (fun g => if remote g then T (reduceAll rowMerge [] g) else reduceAll rowMerge [] g)))
      ↔ ∃ g ∈ groups, ∃ r ∈ g, (sh, c) ∈ rowBits r := by
  intro sh c
  have one : ∀ l : List (List Seg), (∀ r ∈ l, RowWF r) →
      RowWF (reduceAll rowMerge [] l) ∧
      ((sh, c) ∈ rowBits (reduceAll rowMerge [] l) ↔ ∃ r ∈ l, (sh, c) ∈ rowBits r) := by
    intro l hl
    have := C17_row_union [l] (by intro g hg r hr; simp at hg; subst hg; exact hl r hr)
    have e : mapReduce rowMerge [] [l] = reduceAll rowMerge [] l := by
      rw [C17_group rowMerge_laws [l] (by intro g hg r hr; simp at hg; subst hg; exact hl r hr)]
      simp
    rw [e] at this
    refine ⟨this.1, ?_⟩
    rw [this.2.1 sh c]; simp
  let node := fun (g : List (List Seg)) =>
    if remote g then T (reduceAll rowMerge [] g) else reduceAll rowMerge [] g
  have hnode : ∀ g ∈ groups, RowWF (node g) ∧
      ((sh, c) ∈ rowBits (node g) ↔ ∃ r ∈ g, (sh, c) ∈ rowBits r) := by
    intro g hg
    have o := one g (h g hg)
    simp only [node]
    split
    · have t := hT _ o.1
      exact ⟨t.1, by rw [t.2 sh c]; exact o.2⟩
    · exact o
  have outer := one (groups.map node) (by
    intro r hr; rcases mem_map.mp hr with ⟨g, hg, rfl⟩; exact (hnode g hg).1)
  rw [outer.2]
  constructor
  · rintro ⟨r, hr, hb⟩
    rcases mem_map.mp hr with ⟨g, hg, rfl⟩
    rcases (hnode g hg).2.mp hb with ⟨r', hr', hb'⟩
    exact ⟨g, hg, r', hr', hb'⟩
  · rintro ⟨g, hg, r, hr, hb⟩
    exact ⟨node g, mem_map.mpr ⟨g, hg, rfl⟩, (hnode g hg).2.mpr ⟨r, hr, hb⟩⟩

/-- Dropping the segments without bits is such a transport map. -/
theorem C17_dropEmpty_transport (r : List Seg) (hr : RowWF r) :
    RowWF (r.filter (fun s => !s.cols.isEmpty)) ∧
    ∀ sh c, (sh, c) ∈ rowBits (r.filter (fun s => !s.cols.isEmpty)) ↔ (sh, c) ∈ rowBits r := by
  constructor
  · refine ⟨?_, fun s hs => hr.2 s (mem_filter.mp hs).1⟩
    have := hr.1
    unfold SortedK at *
    exact this.sublist ((filter_sublist).map _)
  · intro sh c
    unfold rowBits
    simp only [mem_flatMap, mem_map, mem_filter, Prod.mk.injEq]
    constructor
    · rintro ⟨s, ⟨hs, _⟩, x⟩; exact ⟨s, hs, x⟩
    · rintro ⟨s, hs, c', hc', e⟩
      refine ⟨s, ⟨hs, ?_⟩, c', hc', e⟩
      cases hcs : s.cols with
      | nil => rw [hcs] at hc'; cases hc'
      | cons _ _ => rfl

example : RowWF [⟨0, [1, 5]⟩, ⟨2, []⟩, ⟨3, [7]⟩] ∧
    mapReduce rowMerge [] [[[⟨3, [7]⟩], [⟨0, [5]⟩, ⟨3, [2, 9]⟩]], [[⟨0, [1, 5]⟩]]]
      = [⟨0, [1, 5]⟩, ⟨3, [2, 7, 9]⟩] := by
  refine ⟨?_, by decide⟩
  rw [C17_rowWF_iff]; decide

/-! ## Rows: RowIDs.merge with limit -/

/-- Rows: whatever the grouping and the arrival order, the result is the `lim` smallest distinct
row ids reported by any shard. -/
theorem C17_rowids (lim : Nat) (groups : List (List (List Nat)))
    (h : ∀ g ∈ groups, ∀ x ∈ g, x.Pairwise (· < ·)) :
    mapReduce (fun a b => rowIDsMerge a b lim) [] groups = Spec.rowIDs lim groups.flatten := by
  have hf : (fun a b => rowIDsMerge a b lim) = kmergeLim (α := Nat) id keepB lim := by
    funext a b; exact rowIDsMerge_eq lim a b
  have hm := mapReduce_kmergeLim (key := (id : Nat → Nat)) (comb := keepB) lim groups id id
    (fun _ _ _ _ => rfl)
  simp only [map_id] at hm
  have hid : groups.map (fun g => g) = groups := map_id' groups
  rw [hf]
  rw [show map (fun x => x) groups = groups from map_id' groups] at hm
  rw [hm]
  unfold Spec.rowIDs
  congr 1
  rw [C17_group nmerge_laws groups h]
  have hins : (fun (acc : List Nat) x => Spec.insertAsc x acc) = (fun acc e => nmerge acc [e]) := by
    funext acc x; exact insertAsc_eq x acc
  rw [hins]
  symm
  apply foldl_insert_flatten natStrictTotal keepB_laws
  intro l hl
  rcases mem_flatten.mp hl with ⟨g, hg, hlg⟩
  exact (asc_DL l).mp (h g hg l hlg)

theorem C17_rowids_order_free (lim : Nat) (g₁ g₂ : List (List (List Nat)))
    (p : g₁.flatten.Perm g₂.flatten) (h : ∀ g ∈ g₁, ∀ x ∈ g, x.Pairwise (· < ·)) :
    mapReduce (fun a b => rowIDsMerge a b lim) [] g₁
      = mapReduce (fun a b => rowIDsMerge a b lim) [] g₂ := by
  have h2 : ∀ g ∈ g₂, ∀ x ∈ g, x.Pairwise (· < ·) := by
    intro g hg x hx
    have : x ∈ g₁.flatten := p.mem_iff.mpr (mem_flatten.mpr ⟨g, hg, hx⟩)
    rcases mem_flatten.mp this with ⟨g', hg', hx'⟩
    exact h g' hg' x hx'
  rw [C17_rowids lim g₁ h, C17_rowids lim g₂ h2]
  unfold Spec.rowIDs
  congr 1
  have hins : (fun (acc : List Nat) x => Spec.insertAsc x acc) = (fun acc e => nmerge acc [e]) := by
    funext acc x; exact insertAsc_eq x acc
  have d1 : ∀ l ∈ g₁.flatten, DL (α := Nat) id (fun _ => True) l := by
    intro l hl; rcases mem_flatten.mp hl with ⟨g, hg, hlg⟩; exact (asc_DL l).mp (h g hg l hlg)
  have d2 : ∀ l ∈ g₂.flatten, DL (α := Nat) id (fun _ => True) l := by
    intro l hl; rcases mem_flatten.mp hl with ⟨g, hg, hlg⟩; exact (asc_DL l).mp (h2 g hg l hlg)
  rw [hins, foldl_insert_flatten natStrictTotal keepB_laws _ d1,
    foldl_insert_flatten natStrictTotal keepB_laws _ d2]
  exact C17_fold_perm (kmerge_laws natStrictTotal keepB_laws) p d1

example : (∀ g ∈ [[[1, 4, 6], [2, 4]], [[0, 6, 9]]], ∀ x ∈ g, x.Pairwise (· < ·)) ∧
    mapReduce (fun a b => rowIDsMerge a b 4) [] [[[1, 4, 6], [2, 4]], [[0, 6, 9]]] = [0, 1, 2, 4] := by
  decide

/-! ## GroupBy: mergeGroupCounts with limit

`GAsc x`: the shard result is strictly ascending by group (lexicographic order of the row ids);
`GLen n x`: every group has `n` row ids (one per child `Rows` call of the query). -/

theorem C17_GAsc_iff (x : List GroupCount) : GAsc x ↔ (x.map GroupCount.group).Pairwise (· < ·) := Iff.rfl

/-- GroupBy: whatever the grouping and the arrival order, the result is the first `lim` groups of
the per-group totals over all shard results. -/
theorem C17_groupcounts (n lim : Nat) (groups : List (List (List GroupCount)))
    (h : ∀ g ∈ groups, ∀ x ∈ g, GAsc x ∧ GLen n x) :
    mapReduce (fun a b => mergeGroupCounts a b lim) [] groups
      = Spec.groupCounts lim groups.flatten := by
  rw [mapReduce_congr (GLen n) (fun a b => mergeGroupCounts a b lim)
    (kmergeLim GroupCount.group addGC lim) [] (by intro x hx; cases hx)
    (GLen_kmergeLim n lim) (fun a b ha hb => mergeGroupCounts_eq n lim a b ha hb) groups
    (fun g hg x hx => (h g hg x hx).2)]
  have hm := mapReduce_kmergeLim (key := GroupCount.group) (comb := addGC) lim groups id id
    (fun _ _ _ _ => rfl)
  simp only [map_id] at hm
  rw [show map (fun x => x) groups = groups from map_id' groups] at hm
  rw [hm]
  unfold Spec.groupCounts
  congr 1
  have hd : ∀ g ∈ groups, ∀ x ∈ g, DL GroupCount.group (fun _ => True) x :=
    fun g hg x hx => ⟨(h g hg x hx).1, fun _ _ => trivial⟩
  rw [C17_group (kmerge_laws listNatStrictTotal addGC_laws) groups hd]
  have hins : (fun (acc : List GroupCount) x => Spec.insertGC x acc) = (fun acc e => gmerge acc [e]) := by
    funext acc x; exact insertGC_eq x acc
  rw [hins]
  symm
  apply foldl_insert_flatten listNatStrictTotal addGC_laws
  intro l hl
  rcases mem_flatten.mp hl with ⟨g, hg, hlg⟩
  exact hd g hg l hlg

/-- GroupBy with per-shard truncation: when every shard returns the first `lim` groups of its
full ascending list, the result is still the first `lim` groups of the totals over the FULL
shard lists — the counts of the groups returned are exact. -/
theorem C17_groupcounts_prefix (n lim : Nat) (full : List (List (List GroupCount)))
    (h : ∀ g ∈ full, ∀ x ∈ g, GAsc x ∧ GLen n x) :
    mapReduce (fun a b => mergeGroupCounts a b lim) [] (full.map (·.map (·.take lim)))
      = Spec.groupCounts lim full.flatten := by
  rw [mapReduce_congr (GLen n) (fun a b => mergeGroupCounts a b lim)
    (kmergeLim GroupCount.group addGC lim) [] (by intro x hx; cases hx)
    (GLen_kmergeLim n lim) (fun a b ha hb => mergeGroupCounts_eq n lim a b ha hb) _
    (by
      intro g hg x hx
      rcases mem_map.mp hg with ⟨g', hg', rfl⟩
      rcases mem_map.mp hx with ⟨x', hx', rfl⟩
      intro z hz
      exact (h g' hg' x' hx').2 z (mem_of_mem_take hz))]
  have hm := mapReduce_kmergeLim (key := GroupCount.group) (comb := addGC) lim full
    (fun x => x.take lim) id (by intro _ _ _ _; simp [take_take])
  simp only [map_id] at hm
  rw [show map (fun x => x) full = full from map_id' full] at hm
  rw [hm]
  unfold Spec.groupCounts
  congr 1
  have hd : ∀ g ∈ full, ∀ x ∈ g, DL GroupCount.group (fun _ => True) x :=
    fun g hg x hx => ⟨(h g hg x hx).1, fun _ _ => trivial⟩
  rw [C17_group (kmerge_laws listNatStrictTotal addGC_laws) full hd]
  have hins : (fun (acc : List GroupCount) x => Spec.insertGC x acc) = (fun acc e => gmerge acc [e]) := by
    funext acc x; exact insertGC_eq x acc
  rw [hins]
  symm
  apply foldl_insert_flatten listNatStrictTotal addGC_laws
  intro l hl
  rcases mem_flatten.mp hl with ⟨g, hg, hlg⟩
  exact hd g hg l hlg

theorem C17_groupcounts_order_free (n lim : Nat) (g₁ g₂ : List (List (List GroupCount)))
    (p : g₁.flatten.Perm g₂.flatten) (h : ∀ g ∈ g₁, ∀ x ∈ g, GAsc x ∧ GLen n x) :
    mapReduce (fun a b => mergeGroupCounts a b lim) [] g₁
      = mapReduce (fun a b => mergeGroupCounts a b lim) [] g₂ := by
  have h2 : ∀ g ∈ g₂, ∀ x ∈ g, GAsc x ∧ GLen n x := by
    intro g hg x hx
    have : x ∈ g₁.flatten := p.mem_iff.mpr (mem_flatten.mpr ⟨g, hg, hx⟩)
    rcases mem_flatten.mp this with ⟨g', hg', hx'⟩
    exact h g' hg' x hx'
  rw [C17_groupcounts n lim g₁ h, C17_groupcounts n lim g₂ h2]
  unfold Spec.groupCounts
  congr 1
  have hins : (fun (acc : List GroupCount) x => Spec.insertGC x acc) = (fun acc e => gmerge acc [e]) := by
    funext acc x; exact insertGC_eq x acc
  have d1 : ∀ l ∈ g₁.flatten, DL GroupCount.group (fun _ => True) l := by
    intro l hl; rcases mem_flatten.mp hl with ⟨g, hg, hlg⟩; exact ⟨(h g hg l hlg).1, fun _ _ => trivial⟩
  have d2 : ∀ l ∈ g₂.flatten, DL GroupCount.group (fun _ => True) l := by
    intro l hl; rcases mem_flatten.mp hl with ⟨g, hg, hlg⟩; exact ⟨(h2 g hg l hlg).1, fun _ _ => trivial⟩
  rw [hins, foldl_insert_flatten listNatStrictTotal addGC_laws _ d1,
    foldl_insert_flatten listNatStrictTotal addGC_laws _ d2]
  exact C17_fold_perm (kmerge_laws listNatStrictTotal addGC_laws) p d1

example : (∀ g ∈ [[[(⟨[0, 1], 2⟩ : GroupCount), ⟨[1, 0], 1⟩]], [[⟨[0, 1], 3⟩, ⟨[0, 2], 1⟩]]],
      ∀ x ∈ g, GAsc x ∧ GLen 2 x) ∧
    mapReduce (fun a b => mergeGroupCounts a b 2) []
      [[[(⟨[0, 1], 2⟩ : GroupCount), ⟨[1, 0], 1⟩]], [[⟨[0, 1], 3⟩, ⟨[0, 2], 1⟩]]]
      = [⟨[0, 1], 5⟩, ⟨[0, 2], 1⟩] := by
  refine ⟨?_, by decide⟩
  simp only [C17_GAsc_iff, GLen]
  decide

/-! ## TopN: Pairs.Add (result as a map; the order of the Go slice is map-iteration order) -/

/-- TopN merge: whatever the grouping and the arrival order, the merged map is the map of total
counts per id over all shard results. -/
theorem C17_pairs (groups : List (List (List Pair))) :
    mapReduce pairsAdd [] groups = Spec.pairs groups.flatten := by
  rw [mapReduce_pairsAdd, spec_pairs_eq]

theorem C17_pairs_order_free (g₁ g₂ : List (List (List Pair))) (p : g₁.flatten.Perm g₂.flatten) :
    mapReduce pairsAdd [] g₁ = mapReduce pairsAdd [] g₂ := by
  rw [mapReduce_pairsAdd, mapReduce_pairsAdd]
  congr 1
  have key : ∀ l : List (Nat × Nat), l.foldl ins []
      = reduceAll pmerge [] (l.map (fun x => [x])) := by
    intro l; unfold reduceAll; rw [foldl_map]; rfl
  rw [key, key]
  apply C17_fold_perm (kmerge_laws natStrictTotal addKV_laws) ((p.flatten.map toKV).map _)
  intro x hx
  rcases mem_map.mp hx with ⟨e, _, rfl⟩
  exact DL_singleton trivial

/-- The merged map holds exactly the ids some shard result lists, each once (ids strictly
ascending in the model), and sends every id to the SUM of the counts over all shard results. -/
theorem C17_pairs_sum (groups : List (List (List Pair))) :
    ((mapReduce pairsAdd [] groups).map (·.id)).Pairwise (· < ·) ∧
    (∀ k, k ∈ (mapReduce pairsAdd [] groups).map (·.id) ↔ ∃ p ∈ groups.flatten.flatten, p.id = k) ∧
    (∀ p ∈ mapReduce pairsAdd [] groups, p.count = Spec.pairTotal p.id groups.flatten.flatten) := by
  rw [mapReduce_pairsAdd]
  generalize groups.flatten.flatten = flat
  have hM := mapOK_foldl_ins [] (flat.map toKV) mapOK_nil
  have hL := fun k => look_foldl_ins (flat.map toKV) [] mapOK_nil k
  generalize (flat.map toKV).foldl ins [] = M at hM hL
  have hkt := fun k => kvTotal_map_toKV k flat
  refine ⟨?_, ?_, ?_⟩
  · have := hM.1
    unfold SortedK at this
    simpa [map_map, Function.comp_def, toPair] using this
  · intro k
    have h2 := (hL k).2
    simp only [look, Option.isSome_none, false_or, Bool.false_eq_true] at h2
    constructor
    · intro hk
      rcases mem_map.mp hk with ⟨p, hp, rfl⟩
      rcases mem_map.mp hp with ⟨e, he, rfl⟩
      have : (look (α := Nat × Nat) Prod.fst e.1 M).isSome := by
        rw [look_of_mem natStrictTotal hM.1 he]; rfl
      rcases h2.mp this with ⟨e', he', hk'⟩
      rcases mem_map.mp he' with ⟨p', hp', rfl⟩
      exact ⟨p', hp', hk'⟩
    · rintro ⟨p, hp, rfl⟩
      have := h2.mpr ⟨toKV p, mem_map.mpr ⟨p, hp, rfl⟩, rfl⟩
      cases hl : look (α := Nat × Nat) Prod.fst p.id M with
      | none => rw [hl] at this; cases this
      | some e =>
        have := look_some hl
        exact mem_map.mpr ⟨toPair e, mem_map.mpr ⟨e, this.1, rfl⟩, this.2⟩
  · intro p hp
    rcases mem_map.mp hp with ⟨e, he, rfl⟩
    have h1 := (hL e.1).1
    rw [look_of_mem natStrictTotal hM.1 he] at h1
    simp only [oval, Option.elim, look] at h1
    rw [← hkt]
    simpa [toPair] using h1

example : mapReduce pairsAdd [] [[[⟨1, 2⟩, ⟨3, 1⟩], [⟨3, 4⟩]], [[⟨0, 1⟩, ⟨1, 1⟩]]]
    = [⟨0, 1⟩, ⟨1, 3⟩, ⟨3, 5⟩] := by decide

/-! ## Failover: `executor.mapReduce` as a transition system over response events

`mapReduceFailover f e val nodes owners shards evs` (Model.lean): the first `mapper` call groups the
shards by their first owner among `nodes` (`shardsByNode`); every event lets ANY request in flight
answer, with its result or with an error; an error removes the node from `nodes` and regroups exactly
the failed request's shards onto the remaining nodes (`errShardUnavailable` = the query fails);
`shardN` accounting and the `shardN >= len(shards)` cut-off as coded.  `val s` is shard `s`'s
result, `D` the reducer's domain. -/

/-- Exactly once: in every reachable loop state the shards answered so far together with the shards
of the requests in flight are — as a multiset — exactly the shards of the query, `shardN` counts
the answered ones (and the loop has not reached the cut-off), and `result` is the reduce of the
answered shards' results: no shard result is reduced twice, none is lost. -/
theorem C17_failover_exactly_once {α : Type} {D : α → Prop} {f : α → α → α} {e : α} (L : Laws D f e)
    (val : Nat → α) (hval : ∀ s, D (val s)) (nodes : List Nat) (owners : Nat → List Nat)
    (shards : List Nat) (hne : shards ≠ []) (evs : List (Nat × Bool)) (s : MRState α)
    (h : mapReduceFailover f e val nodes owners shards evs = .running s) :
    ∃ answered : List Nat, (answered ++ s.pending.flatMap (·.shards)).Perm shards ∧
      s.shardN = answered.length ∧ s.shardN < shards.length ∧
      s.acc = reduceAll f e (answered.map val) := by
  have := mrRun_post L val hval owners shards evs _ (mrStart_post f e val nodes owners shards hne)
  unfold mapReduceFailover at h
  rw [h] at this
  exact this

/-- For every failure pattern and completion order after which the query still succeeds, the
result is the reduce over ALL shards, each exactly once — the order-free value. -/
theorem C17_failover_result {α : Type} {D : α → Prop} {f : α → α → α} {e : α} (L : Laws D f e)
    (val : Nat → α) (hval : ∀ s, D (val s)) (nodes : List Nat) (owners : Nat → List Nat)
    (shards : List Nat) (hne : shards ≠ []) (evs : List (Nat × Bool)) (a : α)
    (h : mapReduceFailover f e val nodes owners shards evs = .done a) :
    a = reduceAll f e (shards.map val) := by
  have := mrRun_post L val hval owners shards evs _ (mrStart_post f e val nodes owners shards hne)
  unfold mapReduceFailover at h
  rw [h] at this
  exact this

/-- … hence it equals the result of any failure-free execution (any grouping of the shards onto
nodes, any arrival orders). -/
theorem C17_failover_eq_no_failure {α : Type} {D : α → Prop} {f : α → α → α} {e : α} (L : Laws D f e)
    (val : Nat → α) (hval : ∀ s, D (val s)) (nodes : List Nat) (owners : Nat → List Nat)
    (shards : List Nat) (hne : shards ≠ []) (evs : List (Nat × Bool)) (a : α)
    (h : mapReduceFailover f e val nodes owners shards evs = .done a)
    (groups : List (List α)) (hg : groups.flatten.Perm (shards.map val)) :
    a = mapReduce f e groups := by
  rw [C17_failover_result L val hval nodes owners shards hne evs a h]
  have hD : ∀ x ∈ groups.flatten, D x := by
    intro x hx
    rcases mem_map.mp (hg.mem_iff.mp hx) with ⟨y, _, rfl⟩
    exact hval y
  rw [C17_group L groups (fun g hg' x hx => hD x (mem_flatten.mpr ⟨g, hg', hx⟩))]
  exact (C17_fold_perm L hg hD).symm

/-- The loop never waits with nothing in flight. -/
theorem C17_failover_never_hangs {α : Type} {D : α → Prop} {f : α → α → α} {e : α} (L : Laws D f e)
    (val : Nat → α) (hval : ∀ s, D (val s)) (nodes : List Nat) (owners : Nat → List Nat)
    (shards : List Nat) (hne : shards ≠ []) (evs : List (Nat × Bool)) :
    mapReduceFailover f e val nodes owners shards evs ≠ .hang := by
  intro h
  have := mrRun_post L val hval owners shards evs _ (mrStart_post f e val nodes owners shards hne)
  unfold mapReduceFailover at h
  rw [h] at this
  exact this

/-- Termination: after more than `|shards| · (2·|nodes| + 1)` response events — whatever their
completion order and whichever of them are errors — the loop has ended: either with the
order-free result over all shards or because some shard had no remaining owner. (Measure: every
shard in flight weighs twice the number of nodes left, one more when its node has already been
filtered out, plus one per request; every event decreases it.) So `C17_failover_result` needs no
hypothesis that the run ends. -/
theorem C17_failover_terminates {α : Type} {D : α → Prop} {f : α → α → α} {e : α} (L : Laws D f e)
    (val : Nat → α) (hval : ∀ s, D (val s)) (nodes : List Nat) (owners : Nat → List Nat)
    (shards : List Nat) (hne : shards ≠ []) (evs : List (Nat × Bool))
    (hlen : evs.length > shards.length * (2 * nodes.length + 1)) :
    mapReduceFailover f e val nodes owners shards evs = .done (reduceAll f e (shards.map val)) ∨
    mapReduceFailover f e val nodes owners shards evs = .unavailable := by
  cases hout : mapReduceFailover f e val nodes owners shards evs with
  | done a =>
    left
    rw [C17_failover_result L val hval nodes owners shards hne evs a hout]
  | unavailable => right; rfl
  | hang => exact absurd hout (C17_failover_never_hangs L val hval nodes owners shards hne evs)
  | running s' =>
    exfalso
    unfold mapReduceFailover mrStart at hout
    split at hout
    · cases evs <;> simp [mrRun] at hout
    · rename_i reqs hsome
      have hb := mrMeasure_start_le nodes owners shards reqs hsome
      exact mrRun_terminates f e val owners shards.length evs ⟨nodes, reqs, e, 0⟩ (by simp only; omega) s' hout

/-- The query fails only when some shard has no remaining owner: a response event turns a loop
state into `unavailable` only if it is an error response and some shard of the failed request has
no owner among the remaining nodes; and the first `mapper` call fails iff some shard has no owner
among the cluster's nodes. -/
theorem C17_failover_fails_only_without_owner {α : Type} {D : α → Prop} {f : α → α → α} {e : α}
    (L : Laws D f e) (val : Nat → α) (hval : ∀ s, D (val s)) (owners : Nat → List Nat)
    (shards : List Nat) (s : MRState α) (ev : Nat × Bool)
    (hinv : MRInv f e val shards s)
    (h : mrStep f e val owners shards.length s ev = .unavailable) :
    ev.2 = false ∧ ∃ req ∈ s.pending, ∃ sh ∈ req.shards,
      ∀ n ∈ owners sh, n ∉ s.nodes.filter (fun n => n ≠ req.node) := by
  have := mrStep_post L val hval owners shards s ev hinv
  rw [h] at this
  exact this

theorem C17_failover_start_unavailable_iff {α : Type} (e : α) (nodes : List Nat)
    (owners : Nat → List Nat) (shards : List Nat) :
    mrStart e nodes owners shards = .unavailable ↔ ∃ s ∈ shards, ∀ n ∈ owners s, n ∉ nodes := by
  unfold mrStart
  rw [← shardsByNode_none_iff nodes owners shards []]
  split <;> simp_all

/-- Regrouping succeeds whenever every failed shard still has an owner. -/
theorem C17_failover_regroup_available (nodes : List Nat) (owners : Nat → List Nat) (shards : List Nat)
    (h : ∀ s ∈ shards, ∃ n ∈ owners s, n ∈ nodes) :
    (shardsByNode nodes owners shards []).isSome := by
  cases hs : shardsByNode nodes owners shards [] with
  | some _ => rfl
  | none =>
    rcases (shardsByNode_none_iff nodes owners shards []).mp hs with ⟨s, hs', hno⟩
    rcases h s hs' with ⟨n, hn, hmem⟩
    exact absurd hmem (hno n hn)

/-- Non-vacuity: 3 nodes, 2 replicas, node 1 answers with an error; its shard is regrouped onto
node 2 and the Count is that of all three shards. -/
example : mapReduceFailover (· + ·) 0 (fun s => 10 ^ s) [0, 1, 2] (fun s => [s % 3, (s + 1) % 3])
    [0, 1, 2] [(0, true), (0, false), (0, true), (0, true)] = .done 111 := by decide

/-- The seeded change "re-map ALL shards of the query after a failure instead of the failed
request's shards" (`e.mapper(ctx, ch, nodes, index, shards, …)`), as a step function. -/
def mrStepRemapAll {α : Type} (f : α → α → α) (e : α) (val : Nat → α) (owners : Nat → List Nat)
    (allShards : List Nat) (s : MRState α) (ev : Nat × Bool) : MROut α :=
  if s.pending.isEmpty then .hang else
  let i := ev.1 % s.pending.length
  let req := s.pending.getD i default
  let pend := s.pending.eraseIdx i
  if ev.2 then
    let acc := f s.acc (nodeResult f e val req.shards)
    let n := s.shardN + req.shards.length
    if n ≥ allShards.length then .done acc else .running ⟨s.nodes, pend, acc, n⟩
  else
    let nodes := s.nodes.filter (fun n => n ≠ req.node)
    match shardsByNode nodes owners allShards [] with
    | none => .unavailable
    | some reqs => .running ⟨nodes, pend ++ reqs, s.acc, s.shardN⟩

def mrRunRemapAll {α : Type} (f : α → α → α) (e : α) (val : Nat → α) (owners : Nat → List Nat)
    (allShards : List Nat) : MROut α → List (Nat × Bool) → MROut α
  | .running s, ev :: evs =>
    mrRunRemapAll f e val owners allShards (mrStepRemapAll f e val owners allShards s ev) evs
  | o, _ => o

/-- Witness that the property is sensitive to that change: on the scenario of the example above
shard 0 is counted twice and shard 1 is dropped by the cut-off. -/
theorem C17_failover_remap_all_witness :
    mrRunRemapAll (· + ·) 0 (fun s => 10 ^ s) (fun s => [s % 3, (s + 1) % 3]) [0, 1, 2]
      (mrStart 0 [0, 1, 2] (fun s => [s % 3, (s + 1) % 3]) [0, 1, 2])
      [(0, true), (0, false), (0, true), (0, true)] = .done 102 := by decide

/-! ## TopN(n): the two-pass protocol of `executeTopN` (Model.lean `executeTopNModel`)

Pass 1 map-reduces the per-shard top lists (`Pairs.Add`; a remote node returns ALL it merged, sorted),
the keys of the merged list are the candidates, pass 2 fetches the exact counts of every candidate on
every shard, the result is sorted and trimmed to `n`. `remote` says which node results were sorted
on the way (the coordinator's own partial result is not). -/

/-- Selection guarantee of the code: whatever the grouping of shards onto nodes, the coordinator and
the arrival orders, the answer is `Spec.topN n` of the list of shards — the best `n` (by exact
total) of the ids that are among the best `n` of at least one SHARD. -/
theorem C17_topn_eq_spec (n : Nat) (remote : List (List Pair) → Bool) (groups : List (List (List Pair))) :
    executeTopNModel n remote groups = Spec.topN n groups.flatten := by
  simp only [executeTopNModel, Spec.topN, topNShards_eq]

theorem C17_spec_pairs_perm {l₁ l₂ : List (List Pair)} (p : l₁.Perm l₂) : Spec.pairs l₁ = Spec.pairs l₂ := by
  have := C17_pairs_order_free [l₁] [l₂] (by simpa using p)
  rw [C17_pairs, C17_pairs] at this
  simpa using this

/-- … hence it does not depend on which node coordinates, on the grouping or on arrival orders. -/
theorem C17_topn_order_free (n : Nat) (r₁ r₂ : List (List Pair) → Bool)
    (g₁ g₂ : List (List (List Pair))) (p : g₁.flatten.Perm g₂.flatten) :
    executeTopNModel n r₁ g₁ = executeTopNModel n r₂ g₂ := by
  rw [C17_topn_eq_spec, C17_topn_eq_spec]
  unfold Spec.topN
  have h1 : Spec.pairs (g₁.flatten.map (topShard n)) = Spec.pairs (g₂.flatten.map (topShard n)) :=
    C17_spec_pairs_perm (p.map _)
  rw [h1]
  have h2 : ∀ ids, Spec.pairs (g₁.flatten.map (topShardIds ids)) = Spec.pairs (g₂.flatten.map (topShardIds ids)) :=
    fun ids => C17_spec_pairs_perm (p.map _)
  simp only [h2]

/-- Pass 2 makes every reported count exact: each reported pair carries the TOTAL count of its id
over all shards; and every reported id is a candidate (among the best `n` of some shard). -/
theorem C17_topn_counts_exact (n : Nat) (remote : List (List Pair) → Bool)
    (groups : List (List (List Pair))) :
    ∀ p ∈ executeTopNModel n remote groups,
      p.count = Spec.pairTotal p.id groups.flatten.flatten ∧
      ∃ shard ∈ groups.flatten, ∃ q ∈ topShard n shard, q.id = p.id := by
  intro p hp
  rw [C17_topn_eq_spec] at hp
  generalize groups.flatten = shards at hp
  unfold Spec.topN at hp
  simp only at hp
  split at hp
  · rename_i he
    have : sortPairs (Spec.pairs (shards.map (topShard n))) = [] := by
      cases h : sortPairs (Spec.pairs (shards.map (topShard n))) with
      | nil => rfl
      | cons _ _ => rw [h] at he; cases he
    rw [this] at hp; cases hp
  · generalize hids : sortedKeys (sortPairs (Spec.pairs (shards.map (topShard n)))) = ids at hp
    have hp2 : p ∈ Spec.pairs (shards.map (topShardIds ids)) :=
      (sortPairs_perm _).mem_iff.mp (mem_trimN hp)
    have hs := C17_pairs_sum [shards.map (topShardIds ids)]
    rw [C17_pairs] at hs
    simp only [flatten_cons, flatten_nil, append_nil] at hs
    obtain ⟨_, hkeys, hcnt⟩ := hs
    have hc := hcnt p hp2
    rcases (hkeys p.id).mp (mem_map.mpr ⟨p, hp2, rfl⟩) with ⟨q, hq, hqid⟩
    have hfl : (shards.map (topShardIds ids)).flatten
        = shards.flatten.filter (fun p => p.count > 0 && ids.contains p.id) :=
      flatten_map_filter _ shards
    rw [hfl] at hq hc
    have hin : ids.contains p.id = true := by
      have := (mem_filter.mp hq).2
      simp only [Bool.and_eq_true] at this
      rw [← hqid]; exact this.2
    refine ⟨by rw [hc, pairTotal_topShardIds p.id ids hin], ?_⟩
    -- p.id is a key of the pass-1 merge, i.e. listed by some shard's top list
    have hmem : p.id ∈ (sortPairs (Spec.pairs (shards.map (topShard n)))).map (·.id) := by
      rw [← hids] at hin
      exact mem_sortedKeys.mp (by simpa using hin)
    rcases mem_map.mp hmem with ⟨c, hcmem, hcid⟩
    have hc1 : c ∈ Spec.pairs (shards.map (topShard n)) := (sortPairs_perm _).mem_iff.mp hcmem
    have hs1 := C17_pairs_sum [shards.map (topShard n)]
    rw [C17_pairs] at hs1
    simp only [flatten_cons, flatten_nil, append_nil] at hs1
    rcases (hs1.2.1 c.id).mp (mem_map.mpr ⟨c, hc1, rfl⟩) with ⟨q', hq', hq'id⟩
    rcases mem_flatten.mp hq' with ⟨l, hl, hq'l⟩
    rcases mem_map.mp hl with ⟨shard, hshard, rfl⟩
    exact ⟨shard, hshard, q', hq'l, by rw [hq'id, hcid]⟩

/-- Pass 1 is a heuristic (C12's business, not a dependence on placement): an id that is second in
every shard is no candidate for n = 1 although its total is the largest. -/
theorem C17_topn_pass1_heuristic_witness :
    Spec.topN 1 [[⟨2, 3⟩, ⟨1, 2⟩], [⟨3, 3⟩, ⟨1, 2⟩], [⟨4, 3⟩, ⟨1, 2⟩]] = [⟨2, 3⟩] ∧
    Spec.topNExact 1 [[⟨2, 3⟩, ⟨1, 2⟩], [⟨3, 3⟩, ⟨1, 2⟩], [⟨4, 3⟩, ⟨1, 2⟩]] = [⟨1, 6⟩] := by decide

/-- The seeded change "a remote node trims what it merged in pass 1 to its best n" as a model
(node 0 coordinates, the other groups are remote nodes). -/
def topNShardsRemoteTrim (n : Nat) (perShard : List Pair → List Pair) (trim : Bool)
    (groups : List (List (List Pair))) : List Pair :=
  sortPairs (reduceAll pairsAdd [] (groups.mapIdx (fun i g =>
    let r := reduceAll pairsAdd [] (g.map perShard)
    if i > 0 then (if trim then trimN n (sortPairs r) else sortPairs r) else r)))

def executeTopNRemoteTrim (n : Nat) (groups : List (List (List Pair))) : List Pair :=
  let pairs := topNShardsRemoteTrim n (topShard n) true groups
  if pairs.isEmpty then pairs
  else trimN n (topNShardsRemoteTrim n (topShardIds (sortedKeys pairs)) false groups)

/-- With that change the answer depends on the grouping of the same three shards onto two nodes,
which `C17_topn_order_free` excludes for the code as it is. -/
theorem C17_topn_remote_trim_witness :
    executeTopNRemoteTrim 2 [[[⟨6, 5⟩, ⟨7, 4⟩, ⟨5, 3⟩]], [[⟨5, 4⟩, ⟨1, 2⟩, ⟨6, 1⟩], [⟨7, 6⟩, ⟨1, 5⟩, ⟨5, 1⟩]]]
      = [⟨7, 10⟩, ⟨1, 7⟩] ∧
    executeTopNRemoteTrim 2 [[[⟨6, 5⟩, ⟨7, 4⟩, ⟨5, 3⟩], [⟨5, 4⟩, ⟨1, 2⟩, ⟨6, 1⟩]], [[⟨7, 6⟩, ⟨1, 5⟩, ⟨5, 1⟩]]]
      = [⟨7, 10⟩, ⟨5, 8⟩] := by decide

example : executeTopNModel 2 (fun _ => true)
    [[[⟨6, 5⟩, ⟨7, 4⟩, ⟨5, 3⟩]], [[⟨5, 4⟩, ⟨1, 2⟩, ⟨6, 1⟩], [⟨7, 6⟩, ⟨1, 5⟩, ⟨5, 1⟩]]] = [⟨7, 10⟩, ⟨5, 8⟩] := by
  decide

/-! ## bool reducer (ClearRow / Store return value) -/

theorem C17_bool_laws : Laws (fun _ : Option Bool => True) boolReduce none where
  closed := fun _ _ _ _ => trivial
  dnil := trivial
  comm := by intro a b _ _; rcases a with _ | _ | _ <;> rcases b with _ | _ | _ <;> rfl
  assoc := by
    intro a b c _ _ _
    rcases a with _ | _ | _ <;> rcases b with _ | _ | _ <;> rcases c with _ | _ | _ <;> rfl
  idl := by intro a _; rcases a with _ | _ | _ <;> rfl

theorem C17_bool (g₁ g₂ : List (List (Option Bool))) (p : g₁.flatten.Perm g₂.flatten) :
    mapReduce boolReduce none g₁ = mapReduce boolReduce none g₂ :=
  C17_placement_order_free C17_bool_laws g₁ g₂ p (fun _ _ _ _ => trivial)

/-- The bool result is true iff some shard reported true (nil without any result). -/
theorem C17_bool_spec (groups : List (List (Option Bool))) :
    mapReduce boolReduce none groups = Spec.boolOr groups.flatten := by
  rw [C17_group C17_bool_laws groups (fun _ _ _ _ => trivial)]
  generalize groups.flatten = l
  induction l with
  | nil => rfl
  | cons x xs ih =>
    rw [reduceAll_cons C17_bool_laws x xs trivial (fun _ _ => trivial), ih, boolOr_cons]

end PV.C17
