/-
Helper lemmas for C17: folds of lawful reducers, and the link between the fold of
ValCount.smaller / larger / add and the order-free specification.  Core Lean only.
-/
import PV.C17.Props0
namespace PV.C17
open List

theorem reduceAll_cons {α : Type} {D : α → Prop} {f : α → α → α} {e : α} (L : Laws D f e)
    (x : α) (xs : List α) (hx : D x) (hxs : ∀ y ∈ xs, D y) :
    reduceAll f e (x :: xs) = f x (reduceAll f e xs) := by
  unfold reduceAll
  simp only [foldl_cons]
  rw [L.idl x hx]
  exact foldl_acc L xs x hx hxs

theorem foldl_add_int (l : List Int) (a : Int) : l.foldl (· + ·) a = a + l.foldl (· + ·) 0 := by
  induction l generalizing a with
  | nil => simp
  | cons x xs ih => simp only [foldl_cons]; rw [ih (a + x), ih (0 + x)]; omega

namespace Spec

theorem minVal_none {l : List ValCount} : minVal l = none ↔ l = [] := by
  cases l with
  | nil => simp [minVal]
  | cons x xs => simp only [minVal]; split <;> simp

theorem minVal_le {l : List ValCount} {m : Int} (h : minVal l = some m) : ∀ y ∈ l, m ≤ y.val := by
  induction l generalizing m with
  | nil => simp
  | cons x xs ih =>
    simp only [minVal] at h
    split at h
    · rename_i hn
      have := minVal_none.mp hn; subst this
      simp at h ⊢; omega
    · rename_i m' hm'
      intro y hy
      simp at h
      rcases List.mem_cons.mp hy with rfl | hy
      · split at h <;> omega
      · have := ih hm' y hy
        split at h <;> omega

theorem countOf_cons (m : Int) (x : ValCount) (l : List ValCount) :
    countOf m (x :: l) = (if x.val = m then x.count else 0) + countOf m l := by
  unfold countOf
  simp only [List.filter_cons]
  split
  · rename_i h; simp at h
    simp only [List.map_cons, List.foldl_cons, Int.zero_add, h, if_true]
    exact foldl_add_int _ x.count
  · rename_i h; simp at h; simp [h]

theorem countOf_zero_of_lt (m : Int) (l : List ValCount) (h : ∀ y ∈ l, m < y.val) : countOf m l = 0 := by
  induction l with
  | nil => simp [countOf]
  | cons x xs ih =>
    rw [countOf_cons]
    have := h x (by simp)
    rw [ih (fun y hy => h y (by simp [hy]))]
    split <;> omega

theorem countOf_nonneg (m : Int) (l : List ValCount) (h : ∀ y ∈ l, y.count > 0) : countOf m l ≥ 0 := by
  induction l with
  | nil => simp [countOf]
  | cons x xs ih =>
    rw [countOf_cons]
    have := h x (by simp)
    have := ih (fun y hy => h y (by simp [hy]))
    split <;> omega

theorem countOf_minVal_pos {l : List ValCount} {m : Int} (hm : minVal l = some m)
    (h : ∀ y ∈ l, y.count > 0) : countOf m l > 0 := by
  induction l generalizing m with
  | nil => simp [minVal] at hm
  | cons x xs ih =>
    rw [countOf_cons]
    have hx := h x (by simp)
    have hxs : ∀ y ∈ xs, y.count > 0 := fun y hy => h y (by simp [hy])
    have hnn := countOf_nonneg m xs hxs
    simp only [minVal] at hm
    split at hm
    · simp at hm; simp [hm]; omega
    · rename_i m' hm'
      simp at hm
      have := ih hm' hxs
      by_cases hlt : x.val < m'
      · simp [hlt] at hm; simp [hm]; omega
      · simp [hlt] at hm; subst hm
        split <;> omega

end Spec

theorem spec_min_cons (x : ValCount) (xs : List ValCount) (hx : VCValid x) :
    Spec.min (x :: xs) = x.smaller (Spec.min xs) := by
  obtain ⟨v, c⟩ := x
  simp only [VCValid] at hx
  have hlive : ∀ y ∈ Spec.live xs, y.count > 0 := by
    intro y hy; simp [Spec.live] at hy; exact hy.2
  by_cases hc : c > 0
  · have hl : Spec.live (⟨v, c⟩ :: xs) = ⟨v, c⟩ :: Spec.live xs := by simp [Spec.live, hc]
    unfold Spec.min
    rw [hl]
    simp only [Spec.minVal]
    cases hm : Spec.minVal (Spec.live xs) with
    | none =>
      have := Spec.minVal_none.mp hm
      simp [this, Spec.countOf_cons, Spec.countOf, ValCount.smaller, ValCount.zero]
      omega
    | some m =>
      have hpos := Spec.countOf_minVal_pos hm hlive
      have hle := Spec.minVal_le hm
      simp only [ValCount.smaller]
      by_cases h1 : v < m
      · have : Spec.countOf v (Spec.live xs) = 0 :=
          Spec.countOf_zero_of_lt v _ (fun y hy => by have := hle y hy; omega)
        simp [h1, Spec.countOf_cons, this]
        have : ¬ (c = 0 ∨ m < v ∧ 0 < Spec.countOf m (Spec.live xs)) := by omega
        simp [this]
        intro _ h2; omega
      · by_cases h2 : v = m
        · subst h2
          simp [Spec.countOf_cons]
          have : ¬ (c = 0 ∨ v < v ∧ 0 < Spec.countOf v (Spec.live xs)) := by omega
          simp [this, hpos]
          omega
        · have h3 : m < v := by omega
          simp [h1, Spec.countOf_cons]
          have : (c = 0 ∨ m < v ∧ 0 < Spec.countOf m (Spec.live xs)) := Or.inr ⟨h3, hpos⟩
          simp [this, h2]
  · have hc0 : c = 0 := by omega
    subst hc0
    have hl : Spec.live (⟨v, 0⟩ :: xs) = Spec.live xs := by simp [Spec.live]
    unfold Spec.min
    rw [hl]
    simp [ValCount.smaller]


namespace Spec

theorem maxVal_none {l : List ValCount} : maxVal l = none ↔ l = [] := by
  cases l with
  | nil => simp [maxVal]
  | cons x xs => simp only [maxVal]; split <;> simp

theorem maxVal_le {l : List ValCount} {m : Int} (h : maxVal l = some m) : ∀ y ∈ l, y.val ≤ m := by
  induction l generalizing m with
  | nil => simp
  | cons x xs ih =>
    simp only [maxVal] at h
    split at h
    · rename_i hn
      have := maxVal_none.mp hn; subst this
      simp at h ⊢; omega
    · rename_i m' hm'
      intro y hy
      simp at h
      rcases List.mem_cons.mp hy with rfl | hy
      · split at h <;> omega
      · have := ih hm' y hy
        split at h <;> omega

theorem countOf_zero_of_gt (m : Int) (l : List ValCount) (h : ∀ y ∈ l, y.val < m) : countOf m l = 0 := by
  induction l with
  | nil => simp [countOf]
  | cons x xs ih =>
    rw [countOf_cons]
    have := h x (by simp)
    rw [ih (fun y hy => h y (by simp [hy]))]
    split <;> omega

theorem countOf_maxVal_pos {l : List ValCount} {m : Int} (hm : maxVal l = some m)
    (h : ∀ y ∈ l, y.count > 0) : countOf m l > 0 := by
  induction l generalizing m with
  | nil => simp [maxVal] at hm
  | cons x xs ih =>
    rw [countOf_cons]
    have hx := h x (by simp)
    have hxs : ∀ y ∈ xs, y.count > 0 := fun y hy => h y (by simp [hy])
    have hnn := countOf_nonneg m xs hxs
    simp only [maxVal] at hm
    split at hm
    · simp at hm; simp [hm]; omega
    · rename_i m' hm'
      simp at hm
      have := ih hm' hxs
      by_cases hlt : x.val > m'
      · simp [hlt] at hm; simp [hm]; omega
      · simp [hlt] at hm; subst hm
        split <;> omega

end Spec

theorem spec_max_cons (x : ValCount) (xs : List ValCount) (hx : VCValid x) :
    Spec.max (x :: xs) = x.larger (Spec.max xs) := by
  obtain ⟨v, c⟩ := x
  simp only [VCValid] at hx
  have hlive : ∀ y ∈ Spec.live xs, y.count > 0 := by
    intro y hy; simp [Spec.live] at hy; exact hy.2
  by_cases hc : c > 0
  · have hl : Spec.live (⟨v, c⟩ :: xs) = ⟨v, c⟩ :: Spec.live xs := by simp [Spec.live, hc]
    unfold Spec.max
    rw [hl]
    simp only [Spec.maxVal]
    cases hm : Spec.maxVal (Spec.live xs) with
    | none =>
      have := Spec.maxVal_none.mp hm
      simp [this, Spec.countOf_cons, Spec.countOf, ValCount.larger, ValCount.zero]
      omega
    | some m =>
      have hpos := Spec.countOf_maxVal_pos hm hlive
      have hle := Spec.maxVal_le hm
      simp only [ValCount.larger]
      by_cases h1 : v > m
      · have : Spec.countOf v (Spec.live xs) = 0 :=
          Spec.countOf_zero_of_gt v _ (fun y hy => by have := hle y hy; omega)
        simp [h1, Spec.countOf_cons, this]
        have : ¬ (c = 0 ∨ m > v ∧ 0 < Spec.countOf m (Spec.live xs)) := by omega
        simp [this]
        intro _ h2; omega
      · by_cases h2 : v = m
        · subst h2
          simp [Spec.countOf_cons]
          have : ¬ (c = 0 ∨ v > v ∧ 0 < Spec.countOf v (Spec.live xs)) := by omega
          simp [this, hpos]
          omega
        · have h3 : m > v := by omega
          simp [h1, Spec.countOf_cons]
          have : (c = 0 ∨ m > v ∧ 0 < Spec.countOf m (Spec.live xs)) := Or.inr ⟨h3, hpos⟩
          simp [this, h2]
  · have hc0 : c = 0 := by omega
    subst hc0
    have hl : Spec.live (⟨v, 0⟩ :: xs) = Spec.live xs := by simp [Spec.live]
    unfold Spec.max
    rw [hl]
    simp [ValCount.larger]


end PV.C17
