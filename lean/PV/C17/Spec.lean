/-
C17 spec: what a distributed read must return, stated over the multiset of per-shard results,
with no reference to arrival order or grouping.
-/
import PV.C17.Model
namespace PV.C17.Spec
open PV.C17

/-- Sum: add up values and counts. -/
def sum (l : List ValCount) : ValCount :=
  ⟨(l.map (·.val)).foldl (· + ·) 0, (l.map (·.count)).foldl (· + ·) 0⟩

/-- Values of the shards that hold at least one value. -/
def live (l : List ValCount) : List ValCount := l.filter (fun v => v.count > 0)

def minVal : List ValCount → Option Int
  | [] => none
  | v :: rest => match minVal rest with
      | none => some v.val
      | some m => some (if v.val < m then v.val else m)

def maxVal : List ValCount → Option Int
  | [] => none
  | v :: rest => match maxVal rest with
      | none => some v.val
      | some m => some (if v.val > m then v.val else m)

def countOf (m : Int) (l : List ValCount) : Int :=
  ((l.filter (fun v => v.val = m)).map (·.count)).foldl (· + ·) 0

/-- Min: the smallest value over live shards and the TOTAL count of the shards sharing it. -/
def min (l : List ValCount) : ValCount :=
  match minVal (live l) with
  | none => ValCount.zero
  | some m => ⟨m, countOf m (live l)⟩

def max (l : List ValCount) : ValCount :=
  match maxVal (live l) with
  | none => ValCount.zero
  | some m => ⟨m, countOf m (live l)⟩

/-- Ascending insertion into a duplicate-free ascending list. -/
def insertAsc (x : Nat) : List Nat → List Nat
  | [] => [x]
  | y :: ys => if x < y then x :: y :: ys else if x = y then y :: ys else y :: insertAsc x ys

/-- Rows: the `limit` smallest distinct row ids that any shard reported. -/
def rowIDs (limit : Nat) (l : List (List Nat)) : List Nat :=
  (l.flatten.foldl (fun acc x => insertAsc x acc) []).take limit

/-- MinRow: smallest row id reported with a positive count; count = total over the shards
reporting that row. -/
def minRow (l : List Pair) : Pair :=
  let live := l.filter (fun p => p.count > 0)
  match live.map (·.id) |>.min? with
  | none => Pair.zero
  | some m => ⟨m, ((live.filter (fun p => p.id = m)).map (·.count)).foldl (· + ·) 0⟩

def maxRow (l : List Pair) : Pair :=
  let live := l.filter (fun p => p.count > 0)
  match live.map (·.id) |>.max? with
  | none => Pair.zero
  | some m => ⟨m, ((live.filter (fun p => p.id = m)).map (·.count)).foldl (· + ·) 0⟩

/-- Insert one group count into a list ascending by group; groups are ordered
lexicographically by their row ids (core `List.lt` on `List Nat`). -/
def insertGC (x : GroupCount) : List GroupCount → List GroupCount
  | [] => [x]
  | y :: ys =>
    if x.group < y.group then x :: y :: ys
    else if x.group = y.group then ⟨y.group, y.count + x.count⟩ :: ys
    else y :: insertGC x ys

/-- GroupBy: total count per group over all shards, ascending, first `limit` groups.
(Each shard reports its own first `limit` groups, which contain every group among the global
first `limit`; the harness only generates shard results that are such prefixes.) -/
def groupCounts (limit : Nat) (l : List (List GroupCount)) : List GroupCount :=
  (l.flatten.foldl (fun acc x => insertGC x acc) []).take limit

/-- TopN merge: total count per id, ids ascending (order is unspecified in the code). -/
def pairs (l : List (List Pair)) : List Pair :=
  (l.flatten.foldl (fun m x => mapAdd m x.id x.count) []).map (fun kv => ⟨kv.1, kv.2⟩)

/-- Total count listed for id `k` in a list of pairs. -/
def pairTotal (k : Nat) (l : List Pair) : Nat := ((l.filter (fun p => p.id = k)).map (·.count)).sum

/-- Ascending duplicate-free insertion of a (shard, column) bit, lexicographic. -/
def insertBit (p : Nat × Nat) : List (Nat × Nat) → List (Nat × Nat)
  | [] => [p]
  | q :: qs =>
    if p.1 < q.1 ∨ (p.1 = q.1 ∧ p.2 < q.2) then p :: q :: qs
    else if p = q then q :: qs
    else q :: insertBit p qs

/-- Bitmap calls: the union of the bits of all per-shard rows. -/
def rowBits (rows : List (List Seg)) : List (Nat × Nat) :=
  (rows.flatMap PV.C17.rowBits).foldl (fun acc p => insertBit p acc) []

/-- bool calls: true iff some shard reported true; none without any result. -/
def boolOr (l : List (Option Bool)) : Option Bool :=
  match l.filterMap id with
  | [] => none
  | bs => some (bs.any id)

/-- TopN(n) as the code guarantees it, stated over the list of shards only: the candidates are the
ids that are among the best `n` of at least one SHARD; the answer is the best `n` candidates by
their exact total over all shards, with exact totals. (Whether the candidates contain the globally
best `n` ids is C12's business: pass 1 is a heuristic.) -/
def topN (n : Nat) (shards : List (List Pair)) : List Pair :=
  let cands := sortPairs (pairs (shards.map (topShard n)))
  if cands.isEmpty then cands
  else trimN n (sortPairs (pairs (shards.map (topShardIds (sortedKeys cands)))))

/-- The globally best `n` rows by exact total (what an exact TopN would return). -/
def topNExact (n : Nat) (shards : List (List Pair)) : List Pair :=
  trimN n (sortPairs ((pairs shards).filter (fun p => p.count > 0)))

end PV.C17.Spec
