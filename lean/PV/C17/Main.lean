/-
pm_c17: model driver for C17.  Ops (one per line):
  vc <add|smaller|larger> <groups>      groups = g1|g2|..., g = v:c;v:c;...   (arrival order)
  pair <minrow|maxrow> <groups>         g = id:count;...
  count <groups>                        g = n;n;...
  rowids <limit> <groups>               g = a,b,c;a,b   (each shard result ascending)
  groupcounts <limit> <groups>          g = r.r:c,r.r:c;...  (each shard result = list of group:count)
  pairs <groups>                        g = id:count,id:count;...
Output: the map-reduce result in canonical text; `#spec` carries the order-free specification
(Spec.*) evaluated on the same multiset.
-/
import PV.Common.Proto
import PV.C17.Model
import PV.C17.Spec
open PV.Proto PV.C17

def splitNE (s : String) (sep : String) : List String :=
  if s = "" || s = "-" then [] else s.splitOn sep

def parseVC (s : String) : Option ValCount :=
  match s.splitOn ":" with
  | [v, c] => do pure ⟨← v.toInt?, ← c.toInt?⟩
  | _ => none

def parsePair (s : String) : Option Pair :=
  match s.splitOn ":" with
  | [v, c] => do pure ⟨← v.toNat?, ← c.toNat?⟩
  | _ => none

def parseGroups {α : Type} (f : String → Option α) (s : String) : Option (List (List α)) :=
  (splitNE s "|").mapM (fun g => (splitNE g ";").mapM f)

def showVC (v : ValCount) : String := s!"{v.val}:{v.count}"
def showPair (p : Pair) : String := s!"{p.id}:{p.count}"

def parseGC (s : String) : Option GroupCount :=
  match s.splitOn ":" with
  | [g, c] => do pure ⟨← (splitNE g ".").mapM String.toNat?, ← c.toNat?⟩
  | _ => none

def showGC (g : GroupCount) : String :=
  ".".intercalate (g.group.map toString) ++ ":" ++ toString g.count

def step (u : Unit) (ws : List String) : Unit × Ans :=
  let bad := ((), ans "bad-op")
  match ws with
  | "e2e" :: rest => if rest.head? = some "e2e" then bad else step u rest
  | ["vc", op, gs] =>
    match parseGroups parseVC gs with
    | none => bad
    | some groups =>
      match op with
      | "add" => ((), ans2 (showVC (mapReduce ValCount.add .zero groups))
                          (showVC (Spec.sum groups.flatten)) "vc-add")
      | "smaller" => ((), ans2 (showVC (mapReduce ValCount.smaller .zero groups))
                          (showVC (Spec.min groups.flatten)) "vc-smaller")
      | "larger" => ((), ans2 (showVC (mapReduce ValCount.larger .zero groups))
                          (showVC (Spec.max groups.flatten)) "vc-larger")
      | _ => bad
  | ["pair", op, gs] =>
    match parseGroups parsePair gs with
    | none => bad
    | some groups =>
      match op with
      | "minrow" => ((), ans2 (showPair (mapReduce minRowReduce .zero groups))
                          (showPair (Spec.minRow groups.flatten)) "pair-minrow")
      | "maxrow" => ((), ans2 (showPair (mapReduce maxRowReduce .zero groups))
                          (showPair (Spec.maxRow groups.flatten)) "pair-maxrow")
      | _ => bad
  | ["count", gs] =>
    match parseGroups String.toNat? gs with
    | none => bad
    | some groups => ((), ans2 (toString (mapReduce (· + ·) 0 groups))
                          (toString (groups.flatten.foldl (· + ·) 0)) "count")
  | ["rowids", lim, gs] =>
    match lim.toNat?, parseGroups csvNats? gs with
    | some lim, some groups =>
      ((), ans2 (showNats (mapReduce (fun a b => rowIDsMerge a b lim) [] groups))
               (showNats (Spec.rowIDs lim groups.flatten)) "rowids")
    | _, _ => bad
  | ["groupcounts", lim, gs] =>
    match lim.toNat?, parseGroups (fun s => (splitNE s ",").mapM parseGC) gs with
    | some lim, some groups =>
      ((), ans2 (" ".intercalate ((mapReduce (fun a b => mergeGroupCounts a b lim) [] groups).map showGC))
               (" ".intercalate ((Spec.groupCounts lim groups.flatten).map showGC)) "groupcounts")
    | _, _ => bad
  | ["pairs", gs] =>
    match parseGroups (fun s => (splitNE s ",").mapM parsePair) gs with
    | some groups =>
      ((), ans2 (" ".intercalate ((mapReduce pairsAdd [] groups).map showPair))
               (" ".intercalate ((Spec.pairs groups.flatten).map showPair)) "pairs")
    | none => bad
  | _ => bad

def main : IO Unit := run () step
