/-
pm_c17: model driver for C17.  Ops (one per line):
  vc <add|smaller|larger> <groups>      groups = g1|g2|..., g = v:c;v:c;...   (arrival order)
  pair <minrow|maxrow> <groups>         g = id:count;...
  count <groups>                        g = n;n;...
  rowids <limit> <groups>               g = a,b,c;a,b   (each shard result ascending)
  groupcounts <limit> <groups>          g = r.r:c,r.r:c;...  (each shard result = list of group:count)
  pairs <groups>                        g = id:count,id:count;...
  topn <n> <groups>                     g = id:count,id:count;...  (each item = one shard's FULL row counts;
                                        TopN(f, n=<n>) through the two-pass protocol; result in count order)
  rows <groups>                         g = row;row;...  row = `_` (no segment) or seg+seg+...,
                                        seg = shard:c,c,c (columns relative to the shard, may be empty)
  bool <groups>                         g = t;f;...
A line may be prefixed by `e2e` (real executor, one node) or `cl <nodes> <replicas>` (real
cluster, every node as coordinator); the model answer is the same (that is the property).
`clf <nodes> <replicas> <failing node> …`: cluster with one node answering remote queries with an
error; the model answer is the outcome of the failover transition system (Model.lean mrStep).
`rowsu` = `rows` (the harness realises it with Union(Row, Row) instead of Row).
Output: the map-reduce result in canonical text; `#spec` carries the order-free specification
(Spec.*) evaluated on the same multiset.
-/
import PV.Common.Proto
import PV.C17.Model
import PV.C17.Spec
open PV.Proto PV.C17

def splitNE (s : String) (sep : String) : List String :=
  if s = "" || s = "-" then [] else s.splitOn sep

def parseVC (s : String) : Option ValCount :=
  match s.splitOn ":" with
  | [v, c] => do pure ⟨← v.toInt?, ← c.toInt?⟩
  | _ => none

def parsePair (s : String) : Option Pair :=
  match s.splitOn ":" with
  | [v, c] => do pure ⟨← v.toNat?, ← c.toNat?⟩
  | _ => none

def parseGroups {α : Type} (f : String → Option α) (s : String) : Option (List (List α)) :=
  (splitNE s "|").mapM (fun g => (splitNE g ";").mapM f)

def showVC (v : ValCount) : String := s!"{v.val}:{v.count}"
def showPair (p : Pair) : String := s!"{p.id}:{p.count}"

def parseGC (s : String) : Option GroupCount :=
  match s.splitOn ":" with
  | [g, c] => do pure ⟨← (splitNE g ".").mapM String.toNat?, ← c.toNat?⟩
  | _ => none

def showGC (g : GroupCount) : String :=
  ".".intercalate (g.group.map toString) ++ ":" ++ toString g.count

def parseSeg (s : String) : Option Seg :=
  match s.splitOn ":" with
  | [sh, cs] => do pure ⟨← sh.toNat?, ← csvNats? cs⟩
  | _ => none

def parseRow (s : String) : Option (List Seg) :=
  if s = "_" then some [] else (s.splitOn "+").mapM parseSeg

def showSeg (sh : Nat) (cols : List Nat) : String :=
  toString sh ++ ":" ++ ",".intercalate (cols.map toString)

def showRow (r : List Seg) : String :=
  if r.isEmpty then "_" else "+".intercalate (r.map (fun s => showSeg s.shard s.cols))

/-- The spec's bits grouped by shard; shards listed without any bit are shown empty so the text is
comparable with a row that holds empty segments. -/
def showBits (shards : List Nat) (bits : List (Nat × Nat)) : String :=
  if shards.isEmpty then "_" else
  "+".intercalate (shards.map (fun sh => showSeg sh ((bits.filter (fun b => b.1 = sh)).map (·.2))))

def parseBool (s : String) : Option (Option Bool) :=
  if s = "t" then some (some true) else if s = "f" then some (some false) else none

def showOB : Option Bool → String
  | none => "nil"
  | some true => "t"
  | some false => "f"

/-- The failover model run on a synthetic placement: `n` nodes, `r` replicas, shard `s` owned by
nodes `s % n, (s+1) % n, …`; every request to node `fail` answers with an error, the others with
their result; the request answering next varies with the step number. By C17_failover_result
the outcome does not depend on the placement, so it is comparable with the real cluster's. -/
def synthOwners (n r : Nat) (s : Nat) : List Nat := (List.range r).map (fun k => (s + k) % n)

def driveFailover {α : Type} (f : α → α → α) (e : α) (val : Nat → α) (owners : Nat → List Nat)
    (total fail : Nat) : Nat → MROut α → MROut α
  | 0, o => o
  | fuel+1, .running s =>
    let i := fuel % (if s.pending.length = 0 then 1 else s.pending.length)
    let ok := (s.pending.getD i default).node != fail
    driveFailover f e val owners total fail fuel (mrStep f e val owners total s (i, ok))
  | _, o => o

def failoverOutcome (n r fail : Nat) {α : Type} (f : α → α → α) (e : α) (items : List α) : MROut α :=
  let shards := List.range items.length
  driveFailover f e (fun s => items.getD s e) (synthOwners n r) items.length fail (4 * items.length + 8)
    (mrStart e (List.range n) (synthOwners n r) shards)

def failoverEngine (n r fail : Nat) {α : Type} (f : α → α → α) (e : α) (groups : List (List α)) : α :=
  match failoverOutcome n r fail f e groups.flatten with
  | .done a => a
  | _ => e

def stepCoreWith (eng : {α : Type} → (α → α → α) → α → List (List α) → α) (ws : List String) :
    Unit × Ans :=
  let bad := ((), ans "bad-op")
  match ws with
  | ["vc", op, gs] =>
    match parseGroups parseVC gs with
    | none => bad
    | some groups =>
      match op with
      | "add" => ((), ans2 (showVC (eng ValCount.add .zero groups))
                          (showVC (Spec.sum groups.flatten)) "vc-add")
      | "smaller" => ((), ans2 (showVC (eng ValCount.smaller .zero groups))
                          (showVC (Spec.min groups.flatten)) "vc-smaller")
      | "larger" => ((), ans2 (showVC (eng ValCount.larger .zero groups))
                          (showVC (Spec.max groups.flatten)) "vc-larger")
      | _ => bad
  | ["pair", op, gs] =>
    match parseGroups parsePair gs with
    | none => bad
    | some groups =>
      match op with
      | "minrow" => ((), ans2 (showPair (eng minRowReduce .zero groups))
                          (showPair (Spec.minRow groups.flatten)) "pair-minrow")
      | "maxrow" => ((), ans2 (showPair (eng maxRowReduce .zero groups))
                          (showPair (Spec.maxRow groups.flatten)) "pair-maxrow")
      | _ => bad
  | ["count", gs] =>
    match parseGroups String.toNat? gs with
    | none => bad
    | some groups => ((), ans2 (toString (eng (· + ·) 0 groups))
                          (toString (groups.flatten.foldl (· + ·) 0)) "count")
  | ["rowids", lim, gs] =>
    match lim.toNat?, parseGroups csvNats? gs with
    | some lim, some groups =>
      ((), ans2 (showNats (eng (fun a b => rowIDsMerge a b lim) [] groups))
               (showNats (Spec.rowIDs lim groups.flatten)) "rowids")
    | _, _ => bad
  | ["groupcounts", lim, gs] =>
    match lim.toNat?, parseGroups (fun s => (splitNE s ",").mapM parseGC) gs with
    | some lim, some groups =>
      ((), ans2 (" ".intercalate ((eng (fun a b => mergeGroupCounts a b lim) [] groups).map showGC))
               (" ".intercalate ((Spec.groupCounts lim groups.flatten).map showGC)) "groupcounts")
    | _, _ => bad
  | ["pairs", gs] =>
    match parseGroups (fun s => (splitNE s ",").mapM parsePair) gs with
    | some groups =>
      ((), ans2 (" ".intercalate ((eng pairsAdd [] groups).map showPair))
               (" ".intercalate ((Spec.pairs groups.flatten).map showPair)) "pairs")
    | none => bad
  | ["topn", n, gs] =>
    -- TopN(f, n=N): every item is the FULL list id:count of one shard; two-pass protocol as coded
    match n.toNat?, parseGroups (fun s => (splitNE s ",").mapM parsePair) gs with
    | some n, some groups =>
      ((), ans2 (" ".intercalate ((executeTopNModel n (fun _ => true) groups).map showPair))
               (" ".intercalate ((Spec.topN n groups.flatten).map showPair)) "topn")
    | _, _ => bad
  | ["rows", gs] =>
    match parseGroups parseRow gs with
    | some groups =>
      let shards := (groups.flatten.flatten.map (·.shard)).foldl (fun acc x => Spec.insertAsc x acc) []
      ((), ans2 (showRow (eng rowMerge [] groups))
               (showBits shards (Spec.rowBits groups.flatten)) "rows")
    | none => bad
  | ["rowscols", gs] =>
    -- executor lines: the result is observed as `Row.Columns()` grouped by shard; empty segments
    -- (kept by a local reduce, dropped by the protobuf transport of a remote node's result) are
    -- not part of any API encoding of a row and are not printed
    match parseGroups parseRow gs with
    | some groups =>
      let res := (eng rowMerge [] groups).filter (fun s => !s.cols.isEmpty)
      let bits := Spec.rowBits groups.flatten
      let shards := (bits.map (·.1)).foldl (fun acc x => Spec.insertAsc x acc) []
      ((), ans2 (showRow res) (showBits shards bits) "rows")
    | none => bad
  | ["bool", gs] =>
    match parseGroups parseBool gs with
    | some groups =>
      ((), ans2 (showOB (eng boolReduce none groups)) (showOB (Spec.boolOr groups.flatten)) "bool")
    | none => bad
  | _ => bad


def stepCore (ws : List String) : Unit × Ans := stepCoreWith (fun f e g => mapReduce f e g) ws

def isPrefixTok (ws : List String) : Bool :=
  ws.head? = some "e2e" || ws.head? = some "cl" || ws.head? = some "clf"

def step (_ : Unit) (ws : List String) : Unit × Ans :=
  let bad := ((), ans "bad-op")
  let alias (ws : List String) : List String :=
    match ws with
    | ["rowsu", gs] => ["rows", gs]
    | ["rowscols", _] => ["bad-op"]
    | _ => ws
  let aliasX (ws : List String) : List String :=
    match ws with
    | ["rowsu", gs] => ["rowscols", gs]
    | ["rows", gs] => ["rowscols", gs]
    | ["rowscols", _] => ["bad-op"]
    | _ => ws
  match ws with
  | "e2e" :: rest => if isPrefixTok rest then bad else stepCore (aliasX rest)
  | "cl" :: n :: r :: rest =>
    -- a real n-node cluster with r replicas: by C17_* the answer does not depend on the placement
    match n.toNat?, r.toNat? with
    | some n, some r =>
      if n < 1 || n > 5 || r < 1 || r > n || rest.isEmpty || isPrefixTok rest then bad
      else stepCore (aliasX rest)
    | _, _ => bad
  | "clf" :: n :: r :: fl :: rest =>
    -- real n-node cluster, r >= 2 replicas, node `fl` answers every remote query with an error:
    -- the model answer is computed by the failover transition system (mrStep)
    match n.toNat?, r.toNat?, fl.toNat? with
    | some n, some r, some fl =>
      if n < 2 || n > 5 || r < 2 || r > n || fl < 1 || fl ≥ n || rest.isEmpty || isPrefixTok rest
          || rest.head? = some "bool" then bad
      else stepCoreWith (fun f e g => failoverEngine n r fl f e g) (aliasX rest)
    | _, _, _ => bad
  | _ => stepCore (alias ws)

def main : IO Unit := run () step
