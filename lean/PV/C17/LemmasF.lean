/-
Helper lemmas for C17: the failover transition system of executor.mapReduce (Model.lean: mrStep).
Invariant: the shards answered so far together with the shards of the requests in flight are, as a
multiset, exactly the shards of the query; `shardN` counts the answered ones; `result` is the
reduce of the answered ones.  Core Lean only.
-/
import PV.C17.Lemmas
namespace PV.C17
open List

def reqShards (l : List Req) : List Nat := l.flatMap (·.shards)

theorem reqShards_cons (r : Req) (l : List Req) : reqShards (r :: l) = r.shards ++ reqShards l := by
  simp [reqShards]

theorem reqShards_append (a b : List Req) : reqShards (a ++ b) = reqShards a ++ reqShards b := by
  simp [reqShards]

theorem addShard_perm (m : List Req) (n s : Nat) :
    (reqShards (addShard m n s)).Perm (reqShards m ++ [s]) := by
  induction m with
  | nil => simp [addShard, reqShards]
  | cons r rest ih =>
    simp only [addShard]
    split
    · simp only [reqShards_cons, append_assoc]
      exact Perm.append_left _ perm_append_comm
    · simp only [reqShards_cons, append_assoc]
      exact Perm.append_left _ ih

theorem shardsByNode_perm (nodes : List Nat) (owners : Nat → List Nat) (shards : List Nat) :
    ∀ (m reqs : List Req), shardsByNode nodes owners shards m = some reqs →
      (reqShards reqs).Perm (reqShards m ++ shards) := by
  induction shards with
  | nil => intro m reqs h; simp [shardsByNode] at h; subst h; simp
  | cons s rest ih =>
    intro m reqs h
    simp only [shardsByNode] at h
    split at h
    · cases h
    · rename_i n _
      have := ih _ _ h
      refine this.trans ?_
      have h2 := (addShard_perm m n s).append_right rest
      refine h2.trans ?_
      simp

theorem shardsByNode_none_iff (nodes : List Nat) (owners : Nat → List Nat) (shards : List Nat) :
    ∀ (m : List Req), shardsByNode nodes owners shards m = none ↔
      ∃ s ∈ shards, ∀ n ∈ owners s, n ∉ nodes := by
  induction shards with
  | nil => intro m; simp [shardsByNode]
  | cons s rest ih =>
    intro m
    simp only [shardsByNode]
    split
    · rename_i hnone
      simp only [true_iff]
      refine ⟨s, by simp, ?_⟩
      intro n hn hmem
      have := find?_eq_none.mp hnone n hn
      simp [hmem] at this
    · rename_i n hsome
      rw [ih]
      have hfound := find?_some hsome
      have hmem : n ∈ owners s := mem_of_find?_eq_some hsome
      constructor
      · rintro ⟨s', hs', h⟩; exact ⟨s', by simp [hs'], h⟩
      · rintro ⟨s', hs', h⟩
        rcases mem_cons.mp hs' with rfl | hs'
        · exfalso
          have := h n hmem
          simp at hfound
          exact this hfound
        · exact ⟨s', hs', h⟩

theorem reqShards_eraseIdx (l : List Req) (i : Nat) (h : i < l.length) :
    (reqShards l).Perm ((l.getD i default).shards ++ reqShards (l.eraseIdx i)) := by
  induction l generalizing i with
  | nil => simp at h
  | cons r rest ih =>
    cases i with
    | zero => simp [reqShards_cons]
    | succ i =>
      simp only [length_cons, Nat.add_lt_add_iff_right] at h
      have := ih i h
      simp only [getD_cons_succ, eraseIdx_cons_succ, reqShards_cons]
      refine (Perm.append_left r.shards this).trans ?_
      rw [← append_assoc, ← append_assoc]
      exact Perm.append_right _ perm_append_comm

theorem mem_getD_of_lt (l : List Req) (i : Nat) (h : i < l.length) : l.getD i default ∈ l := by
  induction l generalizing i with
  | nil => simp at h
  | cons r rest ih =>
    cases i with
    | zero => simp
    | succ i =>
      simp only [length_cons, Nat.add_lt_add_iff_right] at h
      simp only [getD_cons_succ]
      exact mem_cons_of_mem _ (ih i h)

/-- The loop invariant of `mapReduce`. -/
def MRInv {α : Type} (f : α → α → α) (e : α) (val : Nat → α) (shards : List Nat) (s : MRState α) : Prop :=
  ∃ answered : List Nat, (answered ++ reqShards s.pending).Perm shards ∧
    s.shardN = answered.length ∧ s.shardN < shards.length ∧
    s.acc = reduceAll f e (answered.map val)

theorem reduceAll_append {α : Type} {D : α → Prop} {f : α → α → α} {e : α} (L : Laws D f e)
    (a b : List α) (ha : ∀ x ∈ a, D x) (hb : ∀ x ∈ b, D x) :
    reduceAll f e (a ++ b) = f (reduceAll f e a) (reduceAll f e b) := by
  unfold reduceAll
  rw [foldl_append]
  exact foldl_acc L b _ (foldl_closed L a e L.dnil ha) hb

/-- What one response event does to a state satisfying the invariant. -/
def StepPost {α : Type} (f : α → α → α) (e : α) (val : Nat → α) (owners : Nat → List Nat)
    (shards : List Nat) (s : MRState α) (ev : Nat × Bool) : MROut α → Prop
  | .running s' => MRInv f e val shards s'
  | .done a => a = reduceAll f e (shards.map val)
  | .unavailable => ev.2 = false ∧ ∃ req ∈ s.pending, ∃ sh ∈ req.shards,
      ∀ n ∈ owners sh, n ∉ s.nodes.filter (fun n => n ≠ req.node)
  | .hang => False

theorem mrStep_post {α : Type} {D : α → Prop} {f : α → α → α} {e : α} (L : Laws D f e)
    (val : Nat → α) (hval : ∀ s, D (val s)) (owners : Nat → List Nat) (shards : List Nat)
    (s : MRState α) (ev : Nat × Bool) (hinv : MRInv f e val shards s) :
    StepPost f e val owners shards s ev (mrStep f e val owners shards.length s ev) := by
  obtain ⟨answered, hperm, hN, hlt, hacc⟩ := hinv
  have hlen := hperm.length_eq
  simp only [length_append] at hlen
  have hne : s.pending ≠ [] := by
    intro h0
    rw [h0] at hlen
    simp [reqShards] at hlen
    omega
  have hpos : 0 < s.pending.length := length_pos_iff.mpr hne
  have hi : ev.1 % s.pending.length < s.pending.length := Nat.mod_lt _ hpos
  have hsplit := reqShards_eraseIdx s.pending _ hi
  have hmemreq := mem_getD_of_lt s.pending _ hi
  unfold mrStep
  have hemp : s.pending.isEmpty = false := by
    cases h : s.pending with
    | nil => exact absurd h hne
    | cons _ _ => rfl
  simp only [hemp, Bool.false_eq_true, if_false]
  generalize hreq : s.pending.getD (ev.1 % s.pending.length) default = req at hsplit hmemreq
  generalize hpend : s.pending.eraseIdx (ev.1 % s.pending.length) = pend at hsplit
  have hperm2 : ((answered ++ req.shards) ++ reqShards pend).Perm shards := by
    refine Perm.trans ?_ hperm
    rw [append_assoc]
    exact Perm.append_left _ hsplit.symm
  by_cases hok : ev.2 = true
  · simp only [hok, if_true]
    have hacc' : f s.acc (nodeResult f e val req.shards)
        = reduceAll f e ((answered ++ req.shards).map val) := by
      rw [map_append, reduceAll_append L _ _ (by intro x hx; rcases mem_map.mp hx with ⟨y, _, rfl⟩; exact hval y)
        (by intro x hx; rcases mem_map.mp hx with ⟨y, _, rfl⟩; exact hval y), hacc]
      rfl
    split
    · rename_i hge
      simp only [StepPost]
      rw [hacc']
      have hl2 := hperm2.length_eq
      simp only [length_append] at hl2
      have hz : (reqShards pend).length = 0 := by omega
      have hnil : reqShards pend = [] := length_eq_zero_iff.mp hz
      rw [hnil, append_nil] at hperm2
      exact C17_fold_perm L (hperm2.map val)
        (by intro x hx; rcases mem_map.mp hx with ⟨y, _, rfl⟩; exact hval y)
    · rename_i hge
      simp only [StepPost]
      refine ⟨answered ++ req.shards, hperm2, by simp [hN], ?_, hacc'⟩
      show s.shardN + req.shards.length < shards.length
      omega
  · have hf : ev.2 = false := by cases h : ev.2 <;> simp_all
    simp only [hf, Bool.false_eq_true, if_false]
    split
    · rename_i hnone
      simp only [StepPost]
      rcases (shardsByNode_none_iff _ owners req.shards []).mp hnone with ⟨sh, hsh, hno⟩
      exact ⟨hf, req, hmemreq, sh, hsh, hno⟩
    · rename_i reqs hsome
      simp only [StepPost]
      have hp := shardsByNode_perm _ owners req.shards [] reqs hsome
      simp only [reqShards, flatMap_nil, nil_append] at hp
      refine ⟨answered, ?_, hN, hlt, hacc⟩
      rw [reqShards_append]
      refine Perm.trans ?_ hperm2
      rw [append_assoc]
      refine Perm.append_left _ ?_
      refine (Perm.append_left _ hp).trans perm_append_comm

/-- What a whole run can end in. -/
def RunPost {α : Type} (f : α → α → α) (e : α) (val : Nat → α) (shards : List Nat) : MROut α → Prop
  | .running s' => MRInv f e val shards s'
  | .done a => a = reduceAll f e (shards.map val)
  | .unavailable => True
  | .hang => False

theorem mrRun_post {α : Type} {D : α → Prop} {f : α → α → α} {e : α} (L : Laws D f e)
    (val : Nat → α) (hval : ∀ s, D (val s)) (owners : Nat → List Nat) (shards : List Nat)
    (evs : List (Nat × Bool)) (o : MROut α) (ho : RunPost f e val shards o) :
    RunPost f e val shards (mrRun f e val owners shards.length o evs) := by
  induction evs generalizing o with
  | nil => cases o <;> simpa [mrRun] using ho
  | cons ev evs ih =>
    cases o with
    | running s =>
      simp only [mrRun]
      apply ih
      have := mrStep_post L val hval owners shards s ev ho
      cases h : mrStep f e val owners shards.length s ev with
      | running s' => rw [h] at this; exact this
      | done a => rw [h] at this; exact this
      | unavailable => trivial
      | hang => rw [h] at this; exact this
    | done a => simpa [mrRun] using ho
    | unavailable => trivial
    | hang => exact ho

theorem mrStart_post {α : Type} (f : α → α → α) (e : α) (val : Nat → α) (nodes : List Nat)
    (owners : Nat → List Nat) (shards : List Nat) (hne : shards ≠ []) :
    RunPost f e val shards (mrStart e nodes owners shards) := by
  unfold mrStart
  split
  · trivial
  · rename_i reqs hsome
    have hp := shardsByNode_perm nodes owners shards [] reqs hsome
    simp only [reqShards, flatMap_nil, nil_append] at hp
    refine ⟨[], by simpa [reqShards] using hp, rfl, length_pos_iff.mpr hne, rfl⟩

/-! ### Termination of the failover loop -/

def reqW (nodes : List Nat) (r : Req) : Nat :=
  if nodes.contains r.node then 2 * nodes.length else 2 * nodes.length + 1

def reqTerm (nodes : List Nat) (r : Req) : Nat := r.shards.length * reqW nodes r + 1

/-- Termination measure of the failover loop. -/
def mrMeasure (nodes : List Nat) (pending : List Req) : Nat := (pending.map (reqTerm nodes)).sum

theorem sum_eraseIdx (f : Req → Nat) (l : List Req) (i : Nat) (h : i < l.length) :
    ((l.eraseIdx i).map f).sum + f (l.getD i default) = (l.map f).sum := by
  induction l generalizing i with
  | nil => simp at h
  | cons r rest ih =>
    cases i with
    | zero => simp; omega
    | succ i =>
      simp only [length_cons, Nat.add_lt_add_iff_right] at h
      have := ih i h
      simp only [eraseIdx_cons_succ, getD_cons_succ, map_cons, sum_cons]
      omega

theorem sum_le_sum (f g : Req → Nat) (l : List Req) (h : ∀ q ∈ l, f q ≤ g q) :
    (l.map f).sum ≤ (l.map g).sum := by
  induction l with
  | nil => simp
  | cons r rest ih =>
    simp only [map_cons, sum_cons]
    have := h r (by simp)
    have := ih (fun q hq => h q (by simp [hq]))
    omega

theorem addShard_nodes (m : List Req) (n s : Nat) (q : Req) (hq : q ∈ addShard m n s) :
    q.node = n ∨ ∃ q' ∈ m, q'.node = q.node := by
  induction m with
  | nil => simp [addShard] at hq; left; rw [hq]
  | cons r rest ih =>
    simp only [addShard] at hq
    split at hq
    · rename_i hn
      rcases mem_cons.mp hq with rfl | hq
      · left; rfl
      · right; exact ⟨q, by simp [hq], rfl⟩
    · rcases mem_cons.mp hq with rfl | hq
      · right; exact ⟨q, by simp, rfl⟩
      · rcases ih hq with h | ⟨q', hq', e⟩
        · left; exact h
        · right; exact ⟨q', by simp [hq'], e⟩

theorem addShard_length (m : List Req) (n s : Nat) : (addShard m n s).length ≤ m.length + 1 := by
  induction m with
  | nil => simp [addShard]
  | cons r rest ih =>
    simp only [addShard]
    split <;> simp only [length_cons] <;> omega

theorem shardsByNode_facts (nodes : List Nat) (owners : Nat → List Nat) (shards : List Nat) :
    ∀ (m reqs : List Req), shardsByNode nodes owners shards m = some reqs →
      reqs.length ≤ m.length + shards.length ∧
      ∀ q ∈ reqs, nodes.contains q.node = true ∨ ∃ q' ∈ m, q'.node = q.node := by
  induction shards with
  | nil =>
    intro m reqs h
    simp [shardsByNode] at h; subst h
    exact ⟨by simp, fun q hq => Or.inr ⟨q, hq, rfl⟩⟩
  | cons s rest ih =>
    intro m reqs h
    simp only [shardsByNode] at h
    split at h
    · cases h
    · rename_i n hsome
      have hlive : nodes.contains n = true := by
        have := find?_some hsome; simpa using this
      have ⟨h1, h2⟩ := ih _ _ h
      have hl := addShard_length m n s
      refine ⟨by simp only [length_cons]; omega, ?_⟩
      intro q hq
      rcases h2 q hq with h | ⟨q', hq', e⟩
      · exact Or.inl h
      · rcases addShard_nodes m n s q' hq' with h | ⟨q'', hq'', e'⟩
        · left; rw [← e, h]; exact hlive
        · right; exact ⟨q'', hq'', e'.trans e⟩

theorem reqShards_length (l : List Req) : (reqShards l).length = (l.map (·.shards.length)).sum := by
  induction l with
  | nil => rfl
  | cons r rest ih => simp [reqShards_cons, ih]

theorem length_filter_ne_lt (nodes : List Nat) (x : Nat) (h : nodes.contains x = true) :
    (nodes.filter (fun n => n ≠ x)).length < nodes.length := by
  have hx : x ∈ nodes := by simpa using h
  clear h
  induction nodes with
  | nil => cases hx
  | cons a as ih =>
    have hle := length_filter_le (fun n => decide (n ≠ x)) as
    simp only [filter_cons]
    split
    · rename_i hc
      have e : a ≠ x := by simpa using hc
      have hx' : x ∈ as := by
        rcases mem_cons.mp hx with h | h
        · exact absurd h.symm e
        · exact h
      have := ih hx'
      simp only [length_cons]
      omega
    · simp only [length_cons]
      omega
/-- Every response event that leaves the loop running decreases the measure. -/
theorem mrStep_measure {α : Type} (f : α → α → α) (e : α) (val : Nat → α) (owners : Nat → List Nat)
    (total : Nat) (s : MRState α) (ev : Nat × Bool) (s' : MRState α)
    (h : mrStep f e val owners total s ev = .running s') :
    mrMeasure s'.nodes s'.pending < mrMeasure s.nodes s.pending := by
  unfold mrStep at h
  split at h
  · cases h
  · rename_i hemp
    have hne : s.pending ≠ [] := by
      intro h0; rw [h0] at hemp; simp at hemp
    have hpos : 0 < s.pending.length := length_pos_iff.mpr hne
    have hi : ev.1 % s.pending.length < s.pending.length := Nat.mod_lt _ hpos
    simp only at h
    generalize hreq : s.pending.getD (ev.1 % s.pending.length) default = req at h
    have hsum := sum_eraseIdx (reqTerm s.nodes) s.pending _ hi
    rw [hreq] at hsum
    split at h
    · split at h
      · cases h
      · cases h
        simp only [mrMeasure]
        have : reqTerm s.nodes req ≥ 1 := by unfold reqTerm; omega
        omega
    · split at h
      · cases h
      · rename_i reqs hsome
        cases h
        simp only [mrMeasure, map_append, sum_append]
        have ⟨hlen, hlive⟩ := shardsByNode_facts _ owners req.shards [] reqs hsome
        have hp := (shardsByNode_perm _ owners req.shards [] reqs hsome).length_eq
        simp only [reqShards, flatMap_nil, nil_append] at hp
        have hp' : (reqs.map (·.shards.length)).sum = req.shards.length := by
          rw [← reqShards_length]; exact hp
        simp only [length_nil, Nat.zero_add] at hlen
        have hfl := fun (h2 : s.nodes.contains req.node = true) => length_filter_ne_lt s.nodes req.node h2
        have hn'le : (s.nodes.filter (fun n => n ≠ req.node)).length ≤ s.nodes.length := length_filter_le _ _
        generalize hn' : s.nodes.filter (fun n => n ≠ req.node) = nodes' at *
        have hsub : ∀ x, nodes'.contains x = true → s.nodes.contains x = true ∧ x ≠ req.node := by
          intro x hx
          rw [← hn'] at hx
          have := mem_filter.mp (by simpa using hx : x ∈ s.nodes.filter (fun n => n ≠ req.node))
          exact ⟨by simpa using this.1, by simpa using this.2⟩
        have hsup : ∀ x, s.nodes.contains x = true → x ≠ req.node → nodes'.contains x = true := by
          intro x hx hne'
          rw [← hn']
          have hm : x ∈ s.nodes := by simpa using hx
          have : x ∈ s.nodes.filter (fun n => n ≠ req.node) := mem_filter.mpr ⟨hm, by simpa using hne'⟩
          simpa using this
        have hmono : ∀ q, reqW nodes' q ≤ reqW s.nodes q := by
          intro q
          unfold reqW
          by_cases h1 : nodes'.contains q.node = true
          · have := (hsub _ h1).1
            rw [if_pos h1, if_pos this]; omega
          · by_cases h2 : s.nodes.contains q.node = true
            · have hq : q.node = req.node := by
                apply Classical.byContradiction
                intro hne'; exact h1 (hsup _ h2 hne')
              have := hfl (hq ▸ h2)
              rw [if_neg h1, if_pos h2]; omega
            · rw [if_neg h1, if_neg h2]; omega
        have hreqW : reqW s.nodes req ≥ 2 * nodes'.length + 1 := by
          unfold reqW
          by_cases h2 : s.nodes.contains req.node = true
          · have := hfl h2
            rw [if_pos h2]; omega
          · rw [if_neg h2]; omega
        have hnew : (reqs.map (reqTerm nodes')).sum = req.shards.length * (2 * nodes'.length) + reqs.length := by
          have hq1 : ∀ q ∈ reqs, reqTerm nodes' q = q.shards.length * (2 * nodes'.length) + 1 := by
            intro q hq
            rcases hlive q hq with h | ⟨q', hq', _⟩
            · unfold reqTerm reqW; rw [if_pos h]
            · cases hq'
          rw [← hp']
          clear hp' hlen hlive hsome hp
          induction reqs with
          | nil => simp
          | cons q qs ih =>
            simp only [map_cons, sum_cons, length_cons]
            rw [hq1 q (by simp), ih (fun q' hq' => hq1 q' (by simp [hq']))]
            rw [Nat.add_mul]; omega
        have hold := sum_le_sum (reqTerm nodes') (reqTerm s.nodes)
          (s.pending.eraseIdx (ev.1 % s.pending.length))
          (fun q _ => by unfold reqTerm; exact Nat.add_le_add_right (Nat.mul_le_mul_left _ (hmono q)) 1)
        have hterm : reqTerm s.nodes req ≥ req.shards.length * (2 * nodes'.length + 1) + 1 := by
          unfold reqTerm
          exact Nat.add_le_add_right (Nat.mul_le_mul_left _ hreqW) 1
        rw [hnew]
        rw [Nat.mul_add, Nat.mul_one] at hterm
        omega

/-- After more response events than the measure of a loop state, the loop is no longer running. -/
theorem mrRun_terminates {α : Type} (f : α → α → α) (e : α) (val : Nat → α) (owners : Nat → List Nat)
    (total : Nat) (evs : List (Nat × Bool)) :
    ∀ (s : MRState α), mrMeasure s.nodes s.pending < evs.length →
      ∀ s', mrRun f e val owners total (.running s) evs ≠ .running s' := by
  induction evs with
  | nil => intro s h; simp at h
  | cons ev evs ih =>
    intro s h s'
    simp only [mrRun]
    cases hstep : mrStep f e val owners total s ev with
    | running s1 =>
      have := mrStep_measure f e val owners total s ev s1 hstep
      simp only [length_cons] at h
      exact ih s1 (by omega) s'
    | done a => cases evs <;> simp [mrRun]
    | unavailable => cases evs <;> simp [mrRun]
    | hang => cases evs <;> simp [mrRun]


theorem sum_reqTerm_live (nodes : List Nat) (reqs : List Req)
    (hlive : ∀ q ∈ reqs, nodes.contains q.node = true) :
    (reqs.map (reqTerm nodes)).sum
      = (reqs.map (·.shards.length)).sum * (2 * nodes.length) + reqs.length := by
  induction reqs with
  | nil => simp
  | cons q qs ih =>
    simp only [map_cons, sum_cons, length_cons]
    rw [ih (fun q' hq' => hlive q' (by simp [hq']))]
    have : reqTerm nodes q = q.shards.length * (2 * nodes.length) + 1 := by
      unfold reqTerm reqW; rw [if_pos (hlive q (by simp))]
    rw [this, Nat.add_mul]; omega

/-- The measure of the state after the first `mapper` call. -/
theorem mrMeasure_start_le (nodes : List Nat) (owners : Nat → List Nat) (shards : List Nat)
    (reqs : List Req) (h : shardsByNode nodes owners shards [] = some reqs) :
    mrMeasure nodes reqs ≤ shards.length * (2 * nodes.length + 1) := by
  have ⟨hlen, hlive⟩ := shardsByNode_facts nodes owners shards [] reqs h
  have hp := (shardsByNode_perm nodes owners shards [] reqs h).length_eq
  simp only [reqShards, flatMap_nil, nil_append] at hp
  have hp' : (reqs.map (·.shards.length)).sum = shards.length := by
    rw [← reqShards_length]; exact hp
  simp only [length_nil, Nat.zero_add] at hlen
  unfold mrMeasure
  rw [sum_reqTerm_live nodes reqs (fun q hq => by
    rcases hlive q hq with h | ⟨q', hq', _⟩
    · exact h
    · cases hq'), hp', Nat.mul_add, Nat.mul_one]
  omega

end PV.C17
