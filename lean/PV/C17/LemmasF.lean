/-
Helper lemmas for C17: the failover transition system of executor.mapReduce (Model.lean: mrStep).
Invariant: the shards answered so far together with the shards of the requests in flight are, as a
multiset, exactly the shards of the query; `shardN` counts the answered ones; `result` is the
reduce of the answered ones.  Core Lean only.
-/
import PV.C17.Lemmas
namespace PV.C17
open List

def reqShards (l : List Req) : List Nat := l.flatMap (·.shards)

theorem reqShards_cons (r : Req) (l : List Req) : reqShards (r :: l) = r.shards ++ reqShards l := by
  simp [reqShards]

theorem reqShards_append (a b : List Req) : reqShards (a ++ b) = reqShards a ++ reqShards b := by
  simp [reqShards]

theorem addShard_perm (m : List Req) (n s : Nat) :
    (reqShards (addShard m n s)).Perm (reqShards m ++ [s]) := by
  induction m with
  | nil => simp [addShard, reqShards]
  | cons r rest ih =>
    simp only [addShard]
    split
    · simp only [reqShards_cons, append_assoc]
      exact Perm.append_left _ perm_append_comm
    · simp only [reqShards_cons, append_assoc]
      exact Perm.append_left _ ih

theorem shardsByNode_perm (nodes : List Nat) (owners : Nat → List Nat) (shards : List Nat) :
    ∀ (m reqs : List Req), shardsByNode nodes owners shards m = some reqs →
      (reqShards reqs).Perm (reqShards m ++ shards) := by
  induction shards with
  | nil => intro m reqs h; simp [shardsByNode] at h; subst h; simp
  | cons s rest ih =>
    intro m reqs h
    simp only [shardsByNode] at h
    split at h
    · cases h
    · rename_i n _
      have := ih _ _ h
      refine this.trans ?_
      have h2 := (addShard_perm m n s).append_right rest
      refine h2.trans ?_
      simp

theorem shardsByNode_none_iff (nodes : List Nat) (owners : Nat → List Nat) (shards : List Nat) :
    ∀ (m : List Req), shardsByNode nodes owners shards m = none ↔
      ∃ s ∈ shards, ∀ n ∈ owners s, n ∉ nodes := by
  induction shards with
  | nil => intro m; simp [shardsByNode]
  | cons s rest ih =>
    intro m
    simp only [shardsByNode]
    split
    · rename_i hnone
      simp only [true_iff]
      refine ⟨s, by simp, ?_⟩
      intro n hn hmem
      have := find?_eq_none.mp hnone n hn
      simp [hmem] at this
    · rename_i n hsome
      rw [ih]
      have hfound := find?_some hsome
      have hmem : n ∈ owners s := mem_of_find?_eq_some hsome
      constructor
      · rintro ⟨s', hs', h⟩; exact ⟨s', by simp [hs'], h⟩
      · rintro ⟨s', hs', h⟩
        rcases mem_cons.mp hs' with rfl | hs'
        · exfalso
          have := h n hmem
          simp at hfound
          exact this hfound
        · exact ⟨s', hs', h⟩

theorem reqShards_eraseIdx (l : List Req) (i : Nat) (h : i < l.length) :
    (reqShards l).Perm ((l.getD i default).shards ++ reqShards (l.eraseIdx i)) := by
  induction l generalizing i with
  | nil => simp at h
  | cons r rest ih =>
    cases i with
    | zero => simp [reqShards_cons]
    | succ i =>
      simp only [length_cons, Nat.add_lt_add_iff_right] at h
      have := ih i h
      simp only [getD_cons_succ, eraseIdx_cons_succ, reqShards_cons]
      refine (Perm.append_left r.shards this).trans ?_
      rw [← append_assoc, ← append_assoc]
      exact Perm.append_right _ perm_append_comm

theorem mem_getD_of_lt (l : List Req) (i : Nat) (h : i < l.length) : l.getD i default ∈ l := by
  induction l generalizing i with
  | nil => simp at h
  | cons r rest ih =>
    cases i with
    | zero => simp
    | succ i =>
      simp only [length_cons, Nat.add_lt_add_iff_right] at h
      simp only [getD_cons_succ]
      exact mem_cons_of_mem _ (ih i h)

/-- The loop invariant of `mapReduce`. -/
def MRInv {α : Type} (f : α → α → α) (e : α) (val : Nat → α) (shards : List Nat) (s : MRState α) : Prop :=
  ∃ answered : List Nat, (answered ++ reqShards s.pending).Perm shards ∧
    s.shardN = answered.length ∧ s.shardN < shards.length ∧
    s.acc = reduceAll f e (answered.map val)

theorem reduceAll_append {α : Type} {D : α → Prop} {f : α → α → α} {e : α} (L : Laws D f e)
    (a b : List α) (ha : ∀ x ∈ a, D x) (hb : ∀ x ∈ b, D x) :
    reduceAll f e (a ++ b) = f (reduceAll f e a) (reduceAll f e b) := by
  unfold reduceAll
  rw [foldl_append]
  exact foldl_acc L b _ (foldl_closed L a e L.dnil ha) hb

/-- What one response event does to a state satisfying the invariant. -/
def StepPost {α : Type} (f : α → α → α) (e : α) (val : Nat → α) (owners : Nat → List Nat)
    (shards : List Nat) (s : MRState α) (ev : Nat × Bool) : MROut α → Prop
  | .running s' => MRInv f e val shards s'
  | .done a => a = reduceAll f e (shards.map val)
  | .unavailable => ev.2 = false ∧ ∃ req ∈ s.pending, ∃ sh ∈ req.shards,
      ∀ n ∈ owners sh, n ∉ s.nodes.filter (fun n => n ≠ req.node)
  | .hang => False

theorem mrStep_post {α : Type} {D : α → Prop} {f : α → α → α} {e : α} (L : Laws D f e)
    (val : Nat → α) (hval : ∀ s, D (val s)) (owners : Nat → List Nat) (shards : List Nat)
    (s : MRState α) (ev : Nat × Bool) (hinv : MRInv f e val shards s) :
    StepPost f e val owners shards s ev (mrStep f e val owners shards.length s ev) := by
  obtain ⟨answered, hperm, hN, hlt, hacc⟩ := hinv
  have hlen := hperm.length_eq
  simp only [length_append] at hlen
  have hne : s.pending ≠ [] := by
    intro h0
    rw [h0] at hlen
    simp [reqShards] at hlen
    omega
  have hpos : 0 < s.pending.length := length_pos_iff.mpr hne
  have hi : ev.1 % s.pending.length < s.pending.length := Nat.mod_lt _ hpos
  have hsplit := reqShards_eraseIdx s.pending _ hi
  have hmemreq := mem_getD_of_lt s.pending _ hi
  unfold mrStep
  have hemp : s.pending.isEmpty = false := by
    cases h : s.pending with
    | nil => exact absurd h hne
    | cons _ _ => rfl
  simp only [hemp, Bool.false_eq_true, if_false]
  generalize hreq : s.pending.getD (ev.1 % s.pending.length) default = req at hsplit hmemreq
  generalize hpend : s.pending.eraseIdx (ev.1 % s.pending.length) = pend at hsplit
  have hperm2 : ((answered ++ req.shards) ++ reqShards pend).Perm shards := by
    refine Perm.trans ?_ hperm
    rw [append_assoc]
    exact Perm.append_left _ hsplit.symm
  by_cases hok : ev.2 = true
  · simp only [hok, if_true]
    have hacc' : f s.acc (nodeResult f e val req.shards)
        = reduceAll f e ((answered ++ req.shards).map val) := by
      rw [map_append, reduceAll_append L _ _ (by intro x hx; rcases mem_map.mp hx with ⟨y, _, rfl⟩; exact hval y)
        (by intro x hx; rcases mem_map.mp hx with ⟨y, _, rfl⟩; exact hval y), hacc]
      rfl
    split
    · rename_i hge
      simp only [StepPost]
      rw [hacc']
      have hl2 := hperm2.length_eq
      simp only [length_append] at hl2
      have hz : (reqShards pend).length = 0 := by omega
      have hnil : reqShards pend = [] := length_eq_zero_iff.mp hz
      rw [hnil, append_nil] at hperm2
      exact C17_fold_perm L (hperm2.map val)
        (by intro x hx; rcases mem_map.mp hx with ⟨y, _, rfl⟩; exact hval y)
    · rename_i hge
      simp only [StepPost]
      refine ⟨answered ++ req.shards, hperm2, by simp [hN], ?_, hacc'⟩
      show s.shardN + req.shards.length < shards.length
      omega
  · have hf : ev.2 = false := by cases h : ev.2 <;> simp_all
    simp only [hf, Bool.false_eq_true, if_false]
    split
    · rename_i hnone
      simp only [StepPost]
      rcases (shardsByNode_none_iff _ owners req.shards []).mp hnone with ⟨sh, hsh, hno⟩
      exact ⟨hf, req, hmemreq, sh, hsh, hno⟩
    · rename_i reqs hsome
      simp only [StepPost]
      have hp := shardsByNode_perm _ owners req.shards [] reqs hsome
      simp only [reqShards, flatMap_nil, nil_append] at hp
      refine ⟨answered, ?_, hN, hlt, hacc⟩
      rw [reqShards_append]
      refine Perm.trans ?_ hperm2
      rw [append_assoc]
      refine Perm.append_left _ ?_
      refine (Perm.append_left _ hp).trans perm_append_comm

/-- What a whole run can end in. -/
def RunPost {α : Type} (f : α → α → α) (e : α) (val : Nat → α) (shards : List Nat) : MROut α → Prop
  | .running s' => MRInv f e val shards s'
  | .done a => a = reduceAll f e (shards.map val)
  | .unavailable => True
  | .hang => False

theorem mrRun_post {α : Type} {D : α → Prop} {f : α → α → α} {e : α} (L : Laws D f e)
    (val : Nat → α) (hval : ∀ s, D (val s)) (owners : Nat → List Nat) (shards : List Nat)
    (evs : List (Nat × Bool)) (o : MROut α) (ho : RunPost f e val shards o) :
    RunPost f e val shards (mrRun f e val owners shards.length o evs) := by
  induction evs generalizing o with
  | nil => cases o <;> simpa [mrRun] using ho
  | cons ev evs ih =>
    cases o with
    | running s =>
      simp only [mrRun]
      apply ih
      have := mrStep_post L val hval owners shards s ev ho
      cases h : mrStep f e val owners shards.length s ev with
      | running s' => rw [h] at this; exact this
      | done a => rw [h] at this; exact this
      | unavailable => trivial
      | hang => rw [h] at this; exact this
    | done a => simpa [mrRun] using ho
    | unavailable => trivial
    | hang => exact ho

theorem mrStart_post {α : Type} (f : α → α → α) (e : α) (val : Nat → α) (nodes : List Nat)
    (owners : Nat → List Nat) (shards : List Nat) (hne : shards ≠ []) :
    RunPost f e val shards (mrStart e nodes owners shards) := by
  unfold mrStart
  split
  · trivial
  · rename_i reqs hsome
    have hp := shardsByNode_perm nodes owners shards [] reqs hsome
    simp only [reqShards, flatMap_nil, nil_append] at hp
    refine ⟨[], by simpa [reqShards] using hp, rfl, length_pos_iff.mpr hne, rfl⟩

end PV.C17
