/-
Helper lemmas for C17: the list-valued reducers of the model are instances of the generic keyed
merge of LemmasK.lean.  Core Lean only.
-/
import PV.C17.LemmasK
namespace PV.C17
open List K

/-! ### Ascending duplicate-free lists of naturals (row ids, columns) -/

/-- `RowIDs.merge` keeps `bv` on equal ids. -/
def keepB (_ b : Nat) : Nat := b

abbrev nmerge := kmerge (α := Nat) id keepB

theorem keepB_laws : CombLaws (α := Nat) id keepB (fun _ => True) where
  key_comb := by intro x y h; simp only [id] at h; simp [keepB, h]
  closed := fun _ _ _ _ _ => trivial
  comm := by intro x y _ _ h; simp only [id] at h; simp [keepB, h]
  assoc := by intro x y z _ _ _ _ _; rfl

def Asc (l : List Nat) : Prop := l.Pairwise (· < ·)

theorem asc_iff_sortedK (l : List Nat) : Asc l ↔ SortedK (α := Nat) id l := by
  simp [Asc, SortedK]

theorem asc_DL (l : List Nat) : Asc l ↔ DL (α := Nat) id (fun _ => True) l := by
  simp [DL, asc_iff_sortedK]

theorem nmerge_laws : Laws Asc nmerge [] := by
  have := kmerge_laws natStrictTotal keepB_laws
  have e : Asc = DL (α := Nat) id (fun _ => True) := funext (fun l => propext (asc_DL l))
  rw [e]; exact this

theorem rowIDsMergeAux_eq (a b : List Nat) : ∀ (fuel lim : Nat), a.length + b.length < fuel →
    rowIDsMergeAux fuel a b lim = (nmerge a b).take lim := by
  unfold nmerge
  fun_induction kmerge (α := Nat) id keepB a b with
  | case1 b =>
    intro fuel lim h
    cases fuel with
    | zero => omega
    | succ fuel => cases lim <;> cases b <;> simp [rowIDsMergeAux]
  | case2 a hne =>
    intro fuel lim h
    cases fuel with
    | zero => omega
    | succ fuel =>
      cases lim with
      | zero => simp [rowIDsMergeAux]
      | succ lim =>
        cases a with
        | nil => exact absurd rfl hne
        | cons x xs => simp [rowIDsMergeAux]
  | case3 x as y bs hlt ih =>
    intro fuel lim h
    simp only [id] at hlt
    cases fuel with
    | zero => omega
    | succ fuel =>
      cases lim with
      | zero => simp [rowIDsMergeAux]
      | succ lim =>
        simp only [length_cons] at h
        simp only [rowIDsMergeAux, if_pos hlt, take_succ_cons]
        rw [ih fuel lim (by simp only [length_cons]; omega)]
  | case4 x as y bs h1 h2 ih =>
    intro fuel lim h
    simp only [id] at h1 h2
    cases fuel with
    | zero => omega
    | succ fuel =>
      cases lim with
      | zero => simp [rowIDsMergeAux]
      | succ lim =>
        simp only [length_cons] at h
        have h2' : x > y := h2
        simp only [rowIDsMergeAux, if_neg h1, if_pos h2', take_succ_cons]
        rw [ih fuel lim (by simp only [length_cons]; omega)]
  | case5 x as y bs h1 h2 ih =>
    intro fuel lim h
    simp only [id] at h1 h2
    cases fuel with
    | zero => omega
    | succ fuel =>
      cases lim with
      | zero => simp [rowIDsMergeAux]
      | succ lim =>
        simp only [length_cons] at h
        have h2' : ¬ x > y := h2
        simp only [rowIDsMergeAux, if_neg h1, if_neg h2', take_succ_cons, keepB]
        rw [ih fuel lim (by omega)]

theorem rowIDsMerge_eq (lim : Nat) (a b : List Nat) :
    rowIDsMerge a b lim = kmergeLim (α := Nat) id keepB lim a b := by
  unfold rowIDsMerge kmergeLim
  exact rowIDsMergeAux_eq a b _ lim (by omega)

/-- Ascending insertion is the merge with a singleton. -/
theorem insertAsc_eq (x : Nat) (l : List Nat) : Spec.insertAsc x l = nmerge l [x] := by
  unfold nmerge
  induction l with
  | nil => simp [Spec.insertAsc]
  | cons y ys ih =>
    rw [kmerge]
    simp only [Spec.insertAsc, id]
    by_cases h1 : x < y
    · have : ¬ y < x := by omega
      simp [h1, this]
    · by_cases h2 : x = y
      · subst h2; simp [keepB]
      · have : y < x := by omega
        simp [h1, h2, this, ih]

theorem insertCol_eq (x : Nat) (l : List Nat) : insertCol x l = nmerge l [x] := by
  rw [← insertAsc_eq]
  induction l with
  | nil => rfl
  | cons y ys ih => simp only [insertCol, Spec.insertAsc, ih]

theorem mem_nmerge {a b : List Nat} (ha : Asc a) (hb : Asc b) (c : Nat) :
    c ∈ nmerge a b ↔ c ∈ a ∨ c ∈ b := by
  have sa := (asc_iff_sortedK a).mp ha
  have sb := (asc_iff_sortedK b).mp hb
  have sm : SortedK (α := Nat) id (nmerge a b) := kmerge_sorted natStrictTotal keepB_laws.key_comb a b sa sb
  have hl := look_kmerge (comb := keepB) natStrictTotal keepB_laws.key_comb c a b sa sb
  constructor
  · intro h
    rcases mem_kmerge natStrictTotal a b c h with h | h | ⟨x, _, y, hy, _, rfl⟩
    · exact Or.inl h
    · exact Or.inr h
    · exact Or.inr hy
  · intro h
    have : look (α := Nat) id c (nmerge a b) = some c := by
      unfold nmerge; rw [hl]
      rcases h with h | h
      · have h1 := look_of_mem (key := id) natStrictTotal sa h
        simp only [id] at h1
        rw [h1]
        cases h2 : look (α := Nat) id c b with
        | none => rfl
        | some v => have := (look_some h2).2; simp only [id] at this; simp [oc, keepB, this]
      · have h1 := look_of_mem (key := id) natStrictTotal sb h
        simp only [id] at h1
        rw [h1]
        cases h2 : look (α := Nat) id c a <;> simp [oc, keepB]
    exact (look_some this).1

/-! ### Row.Merge -/

def SegValid (s : Seg) : Prop := Asc s.cols

/-- Well-formed row: segments strictly ascending by shard, each segment's columns strictly
ascending. -/
def RowWF (r : List Seg) : Prop := DL Seg.shard SegValid r

theorem segMerge_eq (s o : Seg) (hs : SegValid s) (ho : SegValid o) :
    segMerge s o = ⟨s.shard, nmerge s.cols o.cols⟩ := by
  unfold segMerge
  congr 1
  have h1 : (fun acc v => insertCol v acc) = (fun (acc : List Nat) v => nmerge acc [v]) := by
    funext acc v; exact insertCol_eq v acc
  rw [h1]
  exact foldl_insert_eq_kmerge natStrictTotal keepB_laws s.cols o.cols ((asc_DL _).mp hs) ((asc_DL _).mp ho)

theorem segMerge_laws : CombLaws Seg.shard segMerge SegValid where
  key_comb := fun _ _ _ => rfl
  closed := by
    intro x y hx hy _
    rw [segMerge_eq x y hx hy]
    exact nmerge_laws.closed _ _ hx hy
  comm := by
    intro x y hx hy h
    rw [segMerge_eq x y hx hy, segMerge_eq y x hy hx, nmerge_laws.comm _ _ hx hy, h]
  assoc := by
    intro x y z hx hy hz _ _
    have hxy : SegValid (segMerge x y) := by
      rw [segMerge_eq x y hx hy]; exact nmerge_laws.closed _ _ hx hy
    have hyz : SegValid (segMerge y z) := by
      rw [segMerge_eq y z hy hz]; exact nmerge_laws.closed _ _ hy hz
    rw [segMerge_eq _ z hxy hz, segMerge_eq x _ hx hyz, segMerge_eq x y hx hy, segMerge_eq y z hy hz]
    simp only
    rw [nmerge_laws.assoc _ _ _ hx hy hz]

abbrev smerge := kmerge Seg.shard segMerge

theorem rowMergeLoop_eq (a b : List Seg) : ∀ fuel, a.length + b.length < fuel →
    rowMergeLoop fuel a b = smerge a b := by
  unfold smerge
  fun_induction kmerge Seg.shard segMerge a b with
  | case1 b =>
    intro fuel h
    cases fuel with
    | zero => omega
    | succ fuel =>
      induction b generalizing fuel with
      | nil => simp [rowMergeLoop, mergeSegNext]
      | cons y ys ih =>
        simp only [length_cons] at h
        simp only [rowMergeLoop, mergeSegNext]
        cases fuel with
        | zero => omega
        | succ fuel => rw [ih fuel (by simp only [length_nil] at *; omega)]
  | case2 a hne =>
    intro fuel h
    cases fuel with
    | zero => omega
    | succ fuel =>
      induction a generalizing fuel with
      | nil => exact absurd rfl hne
      | cons x xs ih =>
        simp only [length_cons] at h
        simp only [rowMergeLoop, mergeSegNext]
        cases fuel with
        | zero => omega
        | succ fuel =>
          cases xs with
          | nil => simp [rowMergeLoop, mergeSegNext]
          | cons x' xs' => rw [ih (by simp) fuel (by simp only [length_cons, length_nil] at *; omega)]
  | case3 x as y bs hlt ih =>
    intro fuel h
    cases fuel with
    | zero => omega
    | succ fuel =>
      simp only [length_cons] at h
      simp only [rowMergeLoop, mergeSegNext, if_pos hlt]
      rw [ih fuel (by simp only [length_cons]; omega)]
  | case4 x as y bs h1 h2 ih =>
    intro fuel h
    cases fuel with
    | zero => omega
    | succ fuel =>
      simp only [length_cons] at h
      have h2' : x.shard > y.shard := h2
      simp only [rowMergeLoop, mergeSegNext, if_neg h1, if_pos h2']
      rw [ih fuel (by simp only [length_cons]; omega)]
  | case5 x as y bs h1 h2 ih =>
    intro fuel h
    cases fuel with
    | zero => omega
    | succ fuel =>
      simp only [length_cons] at h
      have h2' : ¬ x.shard > y.shard := h2
      simp only [rowMergeLoop, mergeSegNext, if_neg h1, if_neg h2']
      rw [ih fuel (by omega)]

theorem rowMerge_eq : rowMerge = smerge := by
  funext a b
  exact rowMergeLoop_eq a b _ (by omega)

theorem rowMerge_laws : Laws RowWF rowMerge [] := by
  rw [rowMerge_eq]
  exact kmerge_laws natStrictTotal segMerge_laws

/-- Bits of a well-formed row through `look`. -/
theorem mem_rowBits_iff {r : List Seg} (hr : RowWF r) (sh c : Nat) :
    (sh, c) ∈ rowBits r ↔ ∃ s, look Seg.shard sh r = some s ∧ c ∈ s.cols := by
  unfold rowBits
  simp only [mem_flatMap, mem_map, Prod.mk.injEq]
  constructor
  · rintro ⟨s, hs, c', hc', rfl, rfl⟩
    exact ⟨s, look_of_mem natStrictTotal hr.1 hs, hc'⟩
  · rintro ⟨s, hs, hc⟩
    have := look_some hs
    exact ⟨s, this.1, c, hc, this.2, rfl⟩

theorem mem_rowBits_rowMerge {a b : List Seg} (ha : RowWF a) (hb : RowWF b) (sh c : Nat) :
    (sh, c) ∈ rowBits (rowMerge a b) ↔ (sh, c) ∈ rowBits a ∨ (sh, c) ∈ rowBits b := by
  have hab := rowMerge_laws.closed a b ha hb
  rw [mem_rowBits_iff hab, mem_rowBits_iff ha, mem_rowBits_iff hb, rowMerge_eq]
  unfold smerge
  rw [look_kmerge natStrictTotal segMerge_laws.key_comb sh a b ha.1 hb.1]
  cases h1 : look Seg.shard sh a with
  | none => simp [oc]
  | some x =>
    cases h2 : look Seg.shard sh b with
    | none => simp [oc]
    | some y =>
      have hx := ha.2 x (look_some h1).1
      have hy := hb.2 y (look_some h2).1
      simp only [oc, Option.some.injEq, exists_eq_left']
      rw [segMerge_eq x y hx hy]
      exact mem_nmerge hx hy c

theorem mem_shards_rowMerge {a b : List Seg} (ha : RowWF a) (hb : RowWF b) (sh : Nat) :
    sh ∈ (rowMerge a b).map Seg.shard ↔ sh ∈ a.map Seg.shard ∨ sh ∈ b.map Seg.shard := by
  have hab := rowMerge_laws.closed a b ha hb
  have key : ∀ {r : List Seg}, RowWF r → (sh ∈ r.map Seg.shard ↔ (look Seg.shard sh r).isSome) := by
    intro r hr
    constructor
    · intro h
      rcases mem_map.mp h with ⟨s, hs, rfl⟩
      rw [look_of_mem natStrictTotal hr.1 hs]; rfl
    · intro h
      cases h' : look Seg.shard sh r with
      | none => rw [h'] at h; cases h
      | some s => have := look_some h'; exact mem_map.mpr ⟨s, this.1, this.2⟩
  rw [key hab, key ha, key hb, rowMerge_eq]
  unfold smerge
  rw [look_kmerge natStrictTotal segMerge_laws.key_comb sh a b ha.1 hb.1]
  cases look Seg.shard sh a <;> cases look Seg.shard sh b <;> simp [oc]

/-! ### mergeGroupCounts -/

theorem listNatStrictTotal : StrictTotal (List Nat) where
  irrefl := fun a => List.lt_irrefl a
  trans := fun _ _ _ => List.lt_trans
  tri := fun a b => by
    by_cases h : a < b
    · exact Or.inl h
    · by_cases h2 : b < a
      · exact Or.inr (Or.inr h2)
      · exact Or.inr (Or.inl (List.le_antisymm (List.not_lt.mp h2) (List.not_lt.mp h)))

/-- `GroupCount.Compare` is the lexicographic comparison on groups of equal length. -/
theorem groupCompare_spec (g o : List Nat) (h : g.length = o.length) :
    (groupCompare g o = -1 ↔ g < o) ∧ (groupCompare g o = 0 ↔ g = o) := by
  induction g generalizing o with
  | nil =>
    cases o with
    | nil => simp [groupCompare]
    | cons _ _ => simp at h
  | cons a as ih =>
    cases o with
    | nil => simp at h
    | cons b bs =>
      simp only [length_cons, Nat.add_right_cancel_iff] at h
      have := ih bs h
      simp only [groupCompare, cons_lt_cons_iff, cons.injEq]
      by_cases h1 : a < b
      · have : a ≠ b := by omega
        simp [h1, this]
      · by_cases h2 : a > b
        · have : a ≠ b := by omega
          simp [h1, h2, this]
        · have e : a = b := by omega
          subst e
          simp [this]

def addGC (a b : GroupCount) : GroupCount := ⟨a.group, a.count + b.count⟩

abbrev gmerge := kmerge GroupCount.group addGC

theorem addGC_laws : CombLaws GroupCount.group addGC (fun _ => True) where
  key_comb := fun _ _ _ => rfl
  closed := fun _ _ _ _ _ => trivial
  comm := by intro x y _ _ h; simp [addGC, h, Nat.add_comm]
  assoc := by intro x y z _ _ _ _ _; simp [addGC, Nat.add_assoc]

/-- Shard results for one GroupBy query: every group has one row id per child `Rows` call. -/
def GLen (n : Nat) (l : List GroupCount) : Prop := ∀ x ∈ l, x.group.length = n

def GAsc (l : List GroupCount) : Prop := SortedK GroupCount.group l

theorem mergeGroupCountsAux_eq (n : Nat) (a b : List GroupCount) : ∀ (fuel lim : Nat),
    GLen n a → GLen n b → a.length + b.length < fuel →
    mergeGroupCountsAux fuel a b lim = (gmerge a b).take lim := by
  unfold gmerge
  fun_induction kmerge GroupCount.group addGC a b with
  | case1 b =>
    intro fuel lim _ _ h
    cases fuel with
    | zero => omega
    | succ fuel => cases lim <;> cases b <;> simp [mergeGroupCountsAux]
  | case2 a hne =>
    intro fuel lim _ _ h
    cases fuel with
    | zero => omega
    | succ fuel =>
      cases lim with
      | zero => simp [mergeGroupCountsAux]
      | succ lim =>
        cases a with
        | nil => exact absurd rfl hne
        | cons x xs => simp [mergeGroupCountsAux]
  | case3 x as y bs hlt ih =>
    intro fuel lim ha hb h
    have hsp := groupCompare_spec x.group y.group ((ha x (by simp)).trans (hb y (by simp)).symm)
    cases fuel with
    | zero => omega
    | succ fuel =>
      cases lim with
      | zero => simp [mergeGroupCountsAux]
      | succ lim =>
        simp only [length_cons] at h
        have c1 : groupCompare x.group y.group = -1 := hsp.1.mpr hlt
        simp only [mergeGroupCountsAux, c1, if_true, take_succ_cons]
        rw [ih fuel lim (fun z hz => ha z (by simp [hz])) hb (by simp only [length_cons]; omega)]
  | case4 x as y bs h1 h2 ih =>
    intro fuel lim ha hb h
    have hsp := groupCompare_spec x.group y.group ((ha x (by simp)).trans (hb y (by simp)).symm)
    cases fuel with
    | zero => omega
    | succ fuel =>
      cases lim with
      | zero => simp [mergeGroupCountsAux]
      | succ lim =>
        simp only [length_cons] at h
        have c1 : ¬ groupCompare x.group y.group = -1 := fun e => h1 (hsp.1.mp e)
        have c2 : ¬ groupCompare x.group y.group = 0 := fun e => by
          have := hsp.2.mp e
          rw [this] at h2
          exact listNatStrictTotal.irrefl _ h2
        simp only [mergeGroupCountsAux, if_neg c1, if_neg c2, take_succ_cons]
        rw [ih fuel lim ha (fun z hz => hb z (by simp [hz])) (by simp only [length_cons]; omega)]
  | case5 x as y bs h1 h2 ih =>
    intro fuel lim ha hb h
    have hsp := groupCompare_spec x.group y.group ((ha x (by simp)).trans (hb y (by simp)).symm)
    have hxy : x.group = y.group := by
      rcases listNatStrictTotal.tri x.group y.group with h | h | h
      · exact absurd h h1
      · exact h
      · exact absurd h h2
    cases fuel with
    | zero => omega
    | succ fuel =>
      cases lim with
      | zero => simp [mergeGroupCountsAux]
      | succ lim =>
        simp only [length_cons] at h
        have c1 : ¬ groupCompare x.group y.group = -1 := fun e => h1 (hsp.1.mp e)
        have c2 : groupCompare x.group y.group = 0 := hsp.2.mpr hxy
        simp only [mergeGroupCountsAux, c2, take_succ_cons, addGC]
        rw [ih fuel lim (fun z hz => ha z (by simp [hz])) (fun z hz => hb z (by simp [hz])) (by omega)]
        simp

theorem mergeGroupCounts_eq (n lim : Nat) (a b : List GroupCount) (ha : GLen n a) (hb : GLen n b) :
    mergeGroupCounts a b lim = kmergeLim GroupCount.group addGC lim a b := by
  unfold mergeGroupCounts kmergeLim
  simp only
  rw [mergeGroupCountsAux_eq n a b _ _ ha hb (by omega)]
  have hl := length_kmerge_le (key := GroupCount.group) (comb := addGC) a b
  split
  · rw [take_of_length_le hl, take_of_length_le (by omega)]
  · rfl

theorem GLen_kmergeLim (n lim : Nat) (a b : List GroupCount) (ha : GLen n a) (hb : GLen n b) :
    GLen n (kmergeLim GroupCount.group addGC lim a b) := by
  intro z hz
  unfold kmergeLim at hz
  rcases mem_kmerge listNatStrictTotal a b z (mem_of_mem_take hz) with h | h | ⟨x, hx, y, _, _, rfl⟩
  · exact ha z h
  · exact hb z h
  · exact ha x hx

theorem insertGC_eq (x : GroupCount) (l : List GroupCount) : Spec.insertGC x l = gmerge l [x] := by
  unfold gmerge
  induction l with
  | nil => simp [Spec.insertGC]
  | cons y ys ih =>
    rw [kmerge]
    simp only [Spec.insertGC]
    by_cases h1 : x.group < y.group
    · have : ¬ y.group < x.group := fun h => listNatStrictTotal.irrefl _ (listNatStrictTotal.trans _ _ _ h h1)
      simp [h1, this]
    · by_cases h2 : x.group = y.group
      · have : ¬ y.group < x.group := by rw [h2]; exact listNatStrictTotal.irrefl _
        rw [if_neg h1, if_pos h2, if_neg this, if_neg h1]
        simp [addGC]
      · have : y.group < x.group := by
          rcases listNatStrictTotal.tri x.group y.group with h | h | h
          · exact absurd h h1
          · exact absurd h h2
          · exact h
        simp [h1, h2, this, ih]

/-! ### Pairs.Add as a map -/

def addKV (a b : Nat × Nat) : Nat × Nat := (a.1, a.2 + b.2)

abbrev pmerge := kmerge (α := Nat × Nat) Prod.fst addKV

theorem addKV_laws : CombLaws (α := Nat × Nat) Prod.fst addKV (fun _ => True) where
  key_comb := fun _ _ _ => rfl
  closed := fun _ _ _ _ _ => trivial
  comm := by intro x y _ _ h; simp [addKV, h, Nat.add_comm]
  assoc := by intro x y z _ _ _ _ _; simp [addKV, Nat.add_assoc]

def toKV (p : Pair) : Nat × Nat := (p.id, p.count)
def toPair (kv : Nat × Nat) : Pair := ⟨kv.1, kv.2⟩

theorem toKV_toPair (kv : Nat × Nat) : toKV (toPair kv) = kv := rfl
theorem toPair_toKV (p : Pair) : toPair (toKV p) = p := rfl

/-- Insert one (id, count) into the map. -/
def ins (acc : List (Nat × Nat)) (e : Nat × Nat) : List (Nat × Nat) := pmerge acc [e]

def MapOK (m : List (Nat × Nat)) : Prop := DL (α := Nat × Nat) Prod.fst (fun _ => True) m

theorem mapOK_nil : MapOK [] := (kmerge_laws natStrictTotal addKV_laws).dnil

theorem mapAdd_eq (m : List (Nat × Nat)) (k v : Nat) : mapAdd m k v = ins m (k, v) := by
  unfold ins pmerge
  induction m with
  | nil => simp [mapAdd]
  | cons y ys ih =>
    obtain ⟨k', v'⟩ := y
    rw [kmerge]
    simp only [mapAdd]
    by_cases h1 : k < k'
    · have : ¬ k' < k := by omega
      simp [h1, this]
    · by_cases h2 : k = k'
      · subst h2; simp [addKV]
      · have : k' < k := by omega
        simp [h1, h2, this, ih]

theorem mapSet_last (acc : List (Nat × Nat)) (k v : Nat) (h : ∀ e ∈ acc, e.1 < k) :
    mapSet acc k v = acc ++ [(k, v)] := by
  induction acc with
  | nil => rfl
  | cons y ys ih =>
    obtain ⟨k', v'⟩ := y
    have h1 : k' < k := h (k', v') (by simp)
    have : ¬ k < k' := by omega
    have : ¬ k = k' := by omega
    simp only [mapSet, *, if_false, cons_append]
    rw [ih (fun e he => h e (by simp [he]))]

theorem foldl_mapSet_sorted (m acc : List (Nat × Nat))
    (h : SortedK (α := Nat × Nat) Prod.fst (acc ++ m)) :
    (m.map toPair).foldl (fun m x => mapSet m x.id x.count) acc = acc ++ m := by
  induction m generalizing acc with
  | nil => simp
  | cons e m ih =>
    simp only [map_cons, foldl_cons]
    have hlt : ∀ e' ∈ acc, e'.1 < e.1 := by
      unfold SortedK at h
      rw [map_append, pairwise_append] at h
      intro e' he'
      exact h.2.2 e'.1 (mem_map.mpr ⟨e', he', rfl⟩) e.1 (by simp)
    have : mapSet acc (toPair e).id (toPair e).count = acc ++ [e] := by
      show mapSet acc e.1 e.2 = acc ++ [e]
      rw [mapSet_last acc _ _ hlt]
    rw [this, ih (acc ++ [e]) (by simpa using h)]
    simp

theorem pairsAdd_eq (m : List (Nat × Nat)) (hm : MapOK m) (other : List Pair) :
    pairsAdd (m.map toPair) other = ((other.map toKV).foldl ins m).map toPair := by
  unfold pairsAdd
  simp only
  rw [foldl_mapSet_sorted m [] (by simpa using hm.1), nil_append, foldl_map]
  have : (fun (m : List (Nat × Nat)) (x : Pair) => mapAdd m x.id x.count) = (fun m x => ins m (toKV x)) := by
    funext m x; exact mapAdd_eq m x.id x.count
  rw [this]
  rfl

theorem mapOK_foldl_ins (m l : List (Nat × Nat)) (hm : MapOK m) : MapOK (l.foldl ins m) :=
  DL_foldl_insert natStrictTotal addKV_laws m l hm (fun _ _ => trivial)

theorem reduceAll_pairsAdd (g : List (List Pair)) (m : List (Nat × Nat)) (hm : MapOK m) :
    g.foldl pairsAdd (m.map toPair) = ((g.flatten.map toKV).foldl ins m).map toPair := by
  induction g generalizing m with
  | nil => rfl
  | cons x xs ih =>
    simp only [foldl_cons, flatten_cons, map_append, foldl_append]
    rw [pairsAdd_eq m hm x]
    exact ih _ (mapOK_foldl_ins m _ hm)

theorem mapReduce_pairsAdd (groups : List (List (List Pair))) :
    mapReduce pairsAdd [] groups = ((groups.flatten.flatten.map toKV).foldl ins []).map toPair := by
  unfold mapReduce reduceAll
  suffices H : ∀ m, MapOK m →
      (groups.map (fun g => g.foldl pairsAdd [])).foldl pairsAdd (m.map toPair)
        = ((groups.flatten.flatten.map toKV).foldl ins m).map toPair from H [] mapOK_nil
  induction groups with
  | nil => intro m _; rfl
  | cons g gs ih =>
    intro m hm
    simp only [map_cons, foldl_cons, flatten_cons, flatten_append, map_append, foldl_append]
    have hg := reduceAll_pairsAdd g [] mapOK_nil
    simp only [map_nil] at hg
    rw [hg]
    have hMg := mapOK_foldl_ins [] (g.flatten.map toKV) mapOK_nil
    rw [pairsAdd_eq m hm, map_map]
    have hid : (toKV ∘ toPair) = id := by funext kv; rfl
    rw [hid, map_id]
    have e1 : ((g.flatten.map toKV).foldl ins []).foldl ins m
        = pmerge m ((g.flatten.map toKV).foldl ins []) :=
      foldl_insert_eq_kmerge natStrictTotal addKV_laws m _ hm hMg
    have e2 : (g.flatten.map toKV).foldl ins m = pmerge m ((g.flatten.map toKV).foldl ins []) :=
      foldl_insert_acc natStrictTotal addKV_laws m _ hm (fun _ _ => trivial)
    rw [e1, ← e2]
    exact ih _ (mapOK_foldl_ins m _ hm)

theorem spec_pairs_eq (l : List (List Pair)) :
    Spec.pairs l = ((l.flatten.map toKV).foldl ins []).map toPair := by
  unfold Spec.pairs
  rw [foldl_map]
  have : (fun (m : List (Nat × Nat)) (x : Pair) => mapAdd m x.id x.count) = (fun m x => ins m (toKV x)) := by
    funext m x; exact mapAdd_eq m x.id x.count
  rw [this]
  rfl

/-- Total count listed for id `k`. -/
def kvTotal (k : Nat) (l : List (Nat × Nat)) : Nat := ((l.filter (fun e => e.1 = k)).map (·.2)).sum

def oval (o : Option (Nat × Nat)) : Nat := o.elim 0 (·.2)

theorem look_ins (m : List (Nat × Nat)) (hm : MapOK m) (e : Nat × Nat) (k : Nat) :
    look (α := Nat × Nat) Prod.fst k (ins m e)
      = oc addKV (look (α := Nat × Nat) Prod.fst k m) (if e.1 = k then some e else none) := by
  unfold ins pmerge
  rw [look_kmerge natStrictTotal addKV_laws.key_comb k m [e] hm.1 (by simp [SortedK])]
  simp [look]

theorem look_foldl_ins (l m : List (Nat × Nat)) (hm : MapOK m) (k : Nat) :
    oval (look (α := Nat × Nat) Prod.fst k (l.foldl ins m))
        = oval (look (α := Nat × Nat) Prod.fst k m) + kvTotal k l ∧
    ((look (α := Nat × Nat) Prod.fst k (l.foldl ins m)).isSome
        ↔ (look (α := Nat × Nat) Prod.fst k m).isSome ∨ ∃ e ∈ l, e.1 = k) := by
  induction l generalizing m with
  | nil => simp [kvTotal]
  | cons e l ih =>
    simp only [foldl_cons]
    have hm' : MapOK (ins m e) := mapOK_foldl_ins m [e] hm
    have := ih (ins m e) hm'
    rw [look_ins m hm e k] at this
    rw [this.1, this.2]
    by_cases hk : e.1 = k
    · have kt : kvTotal k (e :: l) = e.2 + kvTotal k l := by simp [kvTotal, hk]
      rw [kt]
      cases h : look (α := Nat × Nat) Prod.fst k m with
      | none => simp [oc, oval, hk]
      | some x =>
        simp only [hk, if_true, oc, oval, Option.elim, addKV, Option.isSome_some, true_or, and_true]
        omega
    · have kt : kvTotal k (e :: l) = kvTotal k l := by simp [kvTotal, hk]
      rw [kt]
      cases h : look (α := Nat × Nat) Prod.fst k m <;> simp [oc, hk]


theorem kvTotal_map_toKV (k : Nat) (flat : List Pair) :
    kvTotal k (flat.map toKV) = Spec.pairTotal k flat := by
  unfold kvTotal Spec.pairTotal
  induction flat with
  | nil => rfl
  | cons x xs ih =>
    simp only [map_cons, filter_cons, toKV]
    split <;> simp_all [toKV]

theorem asc_ext (a b : List Nat) (ha : Asc a) (hb : Asc b) (h : ∀ c, c ∈ a ↔ c ∈ b) : a = b := by
  have sa := (asc_iff_sortedK a).mp ha
  have sb := (asc_iff_sortedK b).mp hb
  apply ext natStrictTotal a b sa sb
  intro k
  have key : ∀ {l : List Nat}, SortedK (α := Nat) id l →
      look (α := Nat) id k l = if k ∈ l then some k else none := by
    intro l hl
    split
    · rename_i hk; exact look_of_mem (key := id) natStrictTotal hl hk
    · rename_i hk
      apply look_none
      intro z hz e
      simp only [id] at e
      exact hk (e ▸ hz)
  rw [key sa, key sb]
  simp only [h k]

theorem rowWF_ext (r₁ r₂ : List Seg) (h₁ : RowWF r₁) (h₂ : RowWF r₂)
    (hs : ∀ sh, sh ∈ r₁.map Seg.shard ↔ sh ∈ r₂.map Seg.shard)
    (hb : ∀ sh c, (sh, c) ∈ rowBits r₁ ↔ (sh, c) ∈ rowBits r₂) : r₁ = r₂ := by
  apply ext natStrictTotal r₁ r₂ h₁.1 h₂.1
  intro sh
  have half : ∀ (a b : List Seg), RowWF a → RowWF b →
      (∀ sh, sh ∈ a.map Seg.shard → sh ∈ b.map Seg.shard) →
      (∀ sh c, (sh, c) ∈ rowBits a ↔ (sh, c) ∈ rowBits b) →
      ∀ s, look Seg.shard sh a = some s → look Seg.shard sh b = some s := by
    intro a b ha hb' hsub hbits s hl
    have hsa := look_some hl
    have : sh ∈ b.map Seg.shard := hsub sh (mem_map.mpr ⟨s, hsa.1, hsa.2⟩)
    rcases mem_map.mp this with ⟨t, ht, hts⟩
    have hlt : look Seg.shard sh b = some t := hts ▸ look_of_mem natStrictTotal hb'.1 ht
    rw [hlt]
    congr 1
    obtain ⟨ssh, scols⟩ := s
    obtain ⟨tsh, tcols⟩ := t
    simp only at hts hsa
    have e1 : ssh = sh := hsa.2
    subst e1; subst hts
    congr 1
    apply asc_ext _ _ (hb'.2 _ ht) (ha.2 _ hsa.1)
    intro c
    have b1 := mem_rowBits_iff ha tsh c
    have b2 := mem_rowBits_iff hb' tsh c
    rw [hl] at b1; rw [hlt] at b2
    simp only [Option.some.injEq, exists_eq_left'] at b1 b2
    rw [← b1, ← b2, hbits]
  cases h1 : look Seg.shard sh r₁ with
  | some s => exact (half r₁ r₂ h₁ h₂ (fun sh h => (hs sh).mp h) hb s h1).symm
  | none =>
    cases h2 : look Seg.shard sh r₂ with
    | none => rfl
    | some t =>
      have := half r₂ r₁ h₂ h₁ (fun sh h => (hs sh).mpr h) (fun sh c => (hb sh c).symm) t h2
      rw [h1] at this; cases this

theorem boolOr_cons (x : Option Bool) (l : List (Option Bool)) :
    Spec.boolOr (x :: l) = boolReduce x (Spec.boolOr l) := by
  unfold Spec.boolOr
  cases x with
  | none =>
    simp only [filterMap_cons, id]
    cases h : filterMap id l <;> simp [boolReduce]
  | some b =>
    simp only [filterMap_cons, id]
    cases h : filterMap id l with
    | nil => cases b <;> simp [boolReduce]
    | cons y ys => cases b <;> simp [boolReduce, Bool.or_comm]

/-! ### MinRow / MaxRow against the order-free spec -/

def liveP (l : List Pair) : List Pair := l.filter (fun p => p.count > 0)
def cntId (m : Nat) (l : List Pair) : Nat := ((l.filter (fun p => p.id = m)).map (·.count)).foldl (· + ·) 0

theorem foldl_add_nat (l : List Nat) (a : Nat) : l.foldl (· + ·) a = a + l.foldl (· + ·) 0 := by
  induction l generalizing a with
  | nil => simp
  | cons x xs ih => simp only [foldl_cons]; rw [ih (a + x), ih (0 + x)]; omega

theorem cntId_cons (m : Nat) (x : Pair) (l : List Pair) :
    cntId m (x :: l) = (if x.id = m then x.count else 0) + cntId m l := by
  unfold cntId
  simp only [filter_cons]
  split
  · rename_i h; simp at h
    simp only [map_cons, foldl_cons, Nat.zero_add, h, if_true]
    exact foldl_add_nat _ x.count
  · rename_i h; simp at h; simp [h]

theorem cntId_zero (m : Nat) (l : List Pair) (h : ∀ y ∈ l, y.id ≠ m) : cntId m l = 0 := by
  induction l with
  | nil => rfl
  | cons x xs ih =>
    rw [cntId_cons, ih (fun y hy => h y (by simp [hy])), if_neg (h x (by simp))]

theorem cntId_pos (m : Nat) (l : List Pair) (hm : ∃ y ∈ l, y.id = m) (h : ∀ y ∈ l, y.count > 0) :
    cntId m l > 0 := by
  induction l with
  | nil => rcases hm with ⟨y, hy, _⟩; cases hy
  | cons x xs ih =>
    rw [cntId_cons]
    have hx := h x (by simp)
    by_cases e : x.id = m
    · simp [e]; omega
    · rcases hm with ⟨y, hy, hym⟩
      rcases mem_cons.mp hy with rfl | hy
      · exact absurd hym e
      · have := ih ⟨y, hy, hym⟩ (fun z hz => h z (by simp [hz]))
        omega

theorem specMinRow_unfold (l : List Pair) :
    Spec.minRow l = match ((liveP l).map (·.id)).min? with
      | none => Pair.zero
      | some m => ⟨m, cntId m (liveP l)⟩ := rfl

theorem spec_minRow_cons (x : Pair) (xs : List Pair) :
    Spec.minRow (x :: xs) = minRowReduce x (Spec.minRow xs) := by
  rw [specMinRow_unfold, specMinRow_unfold]
  have hlive : ∀ y ∈ liveP xs, y.count > 0 := by
    intro y hy; simp [liveP] at hy; exact hy.2
  by_cases hc : x.count > 0
  · have hl : liveP (x :: xs) = x :: liveP xs := by simp [liveP, hc]
    rw [hl, map_cons, min?_cons]
    cases hm : ((liveP xs).map (·.id)).min? with
    | none =>
      have : liveP xs = [] := by
        cases h : liveP xs with
        | nil => rfl
        | cons a as => rw [h] at hm; simp [min?_cons] at hm
      simp [this, cntId, minRowReduce, Pair.zero, hc]
    | some m =>
      have hmin := (min?_eq_some_iff.mp hm)
      have hmem : ∃ y ∈ liveP xs, y.id = m := by
        rcases mem_map.mp hmin.1 with ⟨y, hy, e⟩; exact ⟨y, hy, e⟩
      have hle : ∀ y ∈ liveP xs, m ≤ y.id := fun y hy => hmin.2 y.id (mem_map.mpr ⟨y, hy, rfl⟩)
      have hpos := cntId_pos m _ hmem hlive
      simp only [Option.elim, minRowReduce, hc, hpos, and_self, if_true, cntId_cons]
      by_cases h1 : x.id < m
      · have hz : cntId x.id (liveP xs) = 0 :=
          cntId_zero _ _ (fun y hy => by have := hle y hy; omega)
        have : ¬ x.id = m := by omega
        simp [this, h1, hz, Nat.le_of_lt h1]
      · by_cases h2 : x.id = m
        · simp [h2, Nat.add_comm]
        · have h3 : ¬ x.id ≤ m := by omega
          simp [Nat.min_def, h1, h2, h3]
  · have hc0 : x.count = 0 := by omega
    have hl : liveP (x :: xs) = liveP xs := by simp [liveP, hc0]
    rw [hl]
    simp [minRowReduce, hc0]
theorem specMaxRow_unfold (l : List Pair) :
    Spec.maxRow l = match ((liveP l).map (·.id)).max? with
      | none => Pair.zero
      | some m => ⟨m, cntId m (liveP l)⟩ := rfl

theorem spec_maxRow_cons (x : Pair) (xs : List Pair) :
    Spec.maxRow (x :: xs) = maxRowReduce x (Spec.maxRow xs) := by
  rw [specMaxRow_unfold, specMaxRow_unfold]
  have hlive : ∀ y ∈ liveP xs, y.count > 0 := by
    intro y hy; simp [liveP] at hy; exact hy.2
  by_cases hc : x.count > 0
  · have hl : liveP (x :: xs) = x :: liveP xs := by simp [liveP, hc]
    rw [hl, map_cons, max?_cons]
    cases hm : ((liveP xs).map (·.id)).max? with
    | none =>
      have : liveP xs = [] := by
        cases h : liveP xs with
        | nil => rfl
        | cons a as => rw [h] at hm; simp [max?_cons] at hm
      simp [this, cntId, maxRowReduce, Pair.zero, hc]
    | some m =>
      have hmin := (max?_eq_some_iff.mp hm)
      have hmem : ∃ y ∈ liveP xs, y.id = m := by
        rcases mem_map.mp hmin.1 with ⟨y, hy, e⟩; exact ⟨y, hy, e⟩
      have hle : ∀ y ∈ liveP xs, y.id ≤ m := fun y hy => hmin.2 y.id (mem_map.mpr ⟨y, hy, rfl⟩)
      have hpos := cntId_pos m _ hmem hlive
      simp only [Option.elim, maxRowReduce, hc, hpos, and_self, if_true, cntId_cons]
      by_cases h1 : x.id > m
      · have hz : cntId x.id (liveP xs) = 0 :=
          cntId_zero _ _ (fun y hy => by have := hle y hy; omega)
        have : ¬ x.id = m := by omega
        simp [this, h1, hz, Nat.le_of_lt h1]
      · by_cases h2 : x.id = m
        · simp [h2, Nat.add_comm]
        · have h3 : x.id ≤ m := by omega
          simp [h1, h2, h3]
  · have hc0 : x.count = 0 := by omega
    have hl : liveP (x :: xs) = liveP xs := by simp [liveP, hc0]
    rw [hl]
    simp [maxRowReduce, hc0]
end PV.C17
