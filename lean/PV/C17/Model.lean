/-
C17 model: the reduce functions of executor.go / cache.go and map-reduce as a fold.
Follows the Go code statement by statement; core Lean only.

  ValCount.add / smaller / larger        executor.go  (type ValCount)
  MinRow / MaxRow pair reducers          executor.go  executeMinRow / executeMaxRow reduceFn
  RowIDs.merge                           executor.go
  mergeGroupCounts, GroupCount.Compare   executor.go
  Pairs.Add                              cache.go     (result compared as a map: order unspecified)
  Count reducer (uint64 +)               executor.go  executeCount
  Row.Merge, rowSegment.Merge,
  mergeSegmentIterator.next              row.go       (reducer of every bitmap call, executeBitmapCall)
  bool OR reducer                        executor.go  executeClearRow / executeSetRow
  mapReduce with failover, shardsByNode  executor.go  transition system over response events (mrStep)
  executeTopN / executeTopNShards        executor.go  two-pass TopN protocol (executeTopNModel)
  mapReduce / mapperLocal                executor.go  result = fold of reduceFn over arrival order,
                                                       starting from nil (= zero value)
int64 / uint64 are modelled as Int / Nat (no wrap-around: counts are bounded by 2^20 per shard
times the number of shards; sums of int64 values are the caller's responsibility as in Go).
-/
namespace PV.C17

structure ValCount where
  val : Int
  count : Int
deriving DecidableEq, Repr, Inhabited

def ValCount.zero : ValCount := ⟨0, 0⟩

def ValCount.add (vc other : ValCount) : ValCount :=
  ⟨vc.val + other.val, vc.count + other.count⟩

/-- `ValCount.smaller` as coded (after the fix: equal values accumulate their counts). -/
def ValCount.smaller (vc other : ValCount) : ValCount :=
  if vc.count = 0 ∨ (other.val < vc.val ∧ other.count > 0) then other
  else if other.count > 0 ∧ other.val = vc.val then ⟨vc.val, vc.count + other.count⟩
  else ⟨vc.val, vc.count⟩

def ValCount.larger (vc other : ValCount) : ValCount :=
  if vc.count = 0 ∨ (other.val > vc.val ∧ other.count > 0) then other
  else if other.count > 0 ∧ other.val = vc.val then ⟨vc.val, vc.count + other.count⟩
  else ⟨vc.val, vc.count⟩

/-- A `Pair` of cache.go restricted to the fields reducers look at. -/
structure Pair where
  id : Nat
  count : Nat
deriving DecidableEq, Repr, Inhabited

def Pair.zero : Pair := ⟨0, 0⟩

def minRowReduce (prev v : Pair) : Pair :=
  if prev.count > 0 ∧ v.count > 0 then
    (if prev.id = v.id then ⟨v.id, v.count + prev.count⟩ else if prev.id < v.id then prev else v)
  else if prev.count > 0 then prev else v

def maxRowReduce (prev v : Pair) : Pair :=
  if prev.count > 0 ∧ v.count > 0 then
    (if prev.id = v.id then ⟨v.id, v.count + prev.count⟩ else if prev.id > v.id then prev else v)
  else if prev.count > 0 then prev else v

/-- `RowIDs.merge` : the three loops of the Go function, fuel = total length. -/
def rowIDsMergeAux : Nat → List Nat → List Nat → Nat → List Nat
  | 0, _, _, _ => []
  | _, _, _, 0 => []
  | fuel+1, a :: as, b :: bs, lim+1 =>
      if a < b then a :: rowIDsMergeAux fuel as (b :: bs) lim
      else if a > b then b :: rowIDsMergeAux fuel (a :: as) bs lim
      else b :: rowIDsMergeAux fuel as bs lim
  | _, a :: as, [], lim+1 => (a :: as).take (lim+1)
  | _, [], bs, lim+1 => bs.take (lim+1)

def rowIDsMerge (r other : List Nat) (limit : Nat) : List Nat :=
  rowIDsMergeAux (r.length + other.length + 1) r other limit

/-- A `GroupCount`: row ids of the group (field names are fixed within one query) and a count. -/
structure GroupCount where
  group : List Nat
  count : Nat
deriving DecidableEq, Repr, Inhabited

/-- `GroupCount.Compare`: ranges over the receiver's group, indexes the other at the same i. -/
def groupCompare : List Nat → List Nat → Int
  | [], _ => 0
  | _ :: _, [] => 0     -- Go would panic (index out of range); unreachable for equal lengths
  | g :: gs, o :: os => if g < o then -1 else if g > o then 1 else groupCompare gs os

def mergeGroupCountsAux : Nat → List GroupCount → List GroupCount → Nat → List GroupCount
  | 0, _, _, _ => []
  | _, _, _, 0 => []
  | fuel+1, a :: as, b :: bs, lim+1 =>
      let c := groupCompare a.group b.group
      if c = -1 then a :: mergeGroupCountsAux fuel as (b :: bs) lim
      else if c = 0 then ⟨a.group, a.count + b.count⟩ :: mergeGroupCountsAux fuel as bs lim
      else b :: mergeGroupCountsAux fuel (a :: as) bs lim
  | _, a :: as, [], lim+1 => (a :: as).take (lim+1)
  | _, [], bs, lim+1 => bs.take (lim+1)

def mergeGroupCounts (a b : List GroupCount) (limit : Nat) : List GroupCount :=
  let limit := if limit > a.length + b.length then a.length + b.length else limit
  mergeGroupCountsAux (a.length + b.length + 1) a b limit

/-- `Pairs.Add` seen as a map: `m[id] = count` for p (last wins), `m[id] += count` for other.
The Go result order is map-iteration order, i.e. unspecified; the model keeps ids ascending. -/
def mapSet (m : List (Nat × Nat)) (k v : Nat) : List (Nat × Nat) :=
  match m with
  | [] => [(k, v)]
  | (k', v') :: rest =>
      if k < k' then (k, v) :: (k', v') :: rest
      else if k = k' then (k, v) :: rest
      else (k', v') :: mapSet rest k v

def mapAdd (m : List (Nat × Nat)) (k v : Nat) : List (Nat × Nat) :=
  match m with
  | [] => [(k, v)]
  | (k', v') :: rest =>
      if k < k' then (k, v) :: (k', v') :: rest
      else if k = k' then (k, v' + v) :: rest
      else (k', v') :: mapAdd rest k v

def mapGet (m : List (Nat × Nat)) (k : Nat) : Nat :=
  match m with
  | [] => 0
  | (k', v') :: rest => if k = k' then v' else mapGet rest k

def pairsAdd (p other : List Pair) : List Pair :=
  let m := p.foldl (fun m x => mapSet m x.id x.count) []
  let m := other.foldl (fun m x => mapAdd m x.id x.count) m
  m.map (fun kv => ⟨kv.1, kv.2⟩)


/-! ### Row.Merge (row.go): the reducer of every bitmap call (`executeBitmapCall`). -/

/-- A `rowSegment`: the shard it belongs to and the columns of its bitmap (ascending,
duplicate free: the abstract value of a roaring bitmap, see C01). -/
structure Seg where
  shard : Nat
  cols : List Nat
deriving DecidableEq, Repr, Inhabited

/-- `rowSegment.SetBit` = `roaring.Bitmap.Add` on the abstract value. -/
def insertCol (x : Nat) : List Nat → List Nat
  | [] => [x]
  | y :: ys => if x < y then x :: y :: ys else if x = y then y :: ys else y :: insertCol x ys

/-- `rowSegment.Merge`: iterate over the other segment's bits and `SetBit` each of them. -/
def segMerge (s other : Seg) : Seg :=
  ⟨s.shard, other.cols.foldl (fun acc v => insertCol v acc) s.cols⟩

/-- `mergeSegmentIterator.next` as coded: returns `(s0, s1)` and the advanced iterator `(a0, a1)`.
When `s0.shard > s1.shard` the Go code returns `(s1, nil)` — the OTHER row's segment in the first
position (for `Row.Merge` this is harmless: a lone segment is appended whichever side it is on). -/
def mergeSegNext : List Seg → List Seg → Option Seg × Option Seg × List Seg × List Seg
  | [], [] => (none, none, [], [])
  | [], s1 :: r1 => (none, some s1, [], r1)
  | s0 :: r0, [] => (some s0, none, r0, [])
  | s0 :: r0, s1 :: r1 =>
    if s0.shard < s1.shard then (some s0, none, r0, s1 :: r1)
    else if s0.shard > s1.shard then (some s1, none, s0 :: r0, r1)
    else (some s0, some s1, r0, r1)

/-- The loop of `Row.Merge`; fuel = number of segments + 1. -/
def rowMergeLoop : Nat → List Seg → List Seg → List Seg
  | 0, _, _ => []
  | fuel+1, a0, a1 =>
    match mergeSegNext a0 a1 with
    | (none, none, _, _) => []
    | (none, some s1, a0', a1') => s1 :: rowMergeLoop fuel a0' a1'
    | (some s0, none, a0', a1') => s0 :: rowMergeLoop fuel a0' a1'
    | (some s0, some s1, a0', a1') => segMerge s0 s1 :: rowMergeLoop fuel a0' a1'

/-- `Row.Merge` (value of `r.segments` afterwards). `nil` of the reducer = `NewRow()` = `[]`. -/
def rowMerge (r other : List Seg) : List Seg :=
  rowMergeLoop (r.length + other.length + 1) r other

/-- The bits of a row as (shard, column) pairs in `Row.Columns()` order. -/
def rowBits (r : List Seg) : List (Nat × Nat) :=
  r.flatMap (fun s => s.cols.map (fun c => (s.shard, c)))

/-! ### bool reducer of executeClearRow / executeSetRow: `prev == nil ? v : v || prev`. -/
def boolReduce (prev v : Option Bool) : Option Bool :=
  match v, prev with
  | none, p => p              -- not reachable in Go: a shard / node result is always a bool
  | some v, none => some v
  | some v, some p => some (v || p)

/-- `mapperLocal` / the coordinator loop of `mapReduce`: reduce in arrival order from nil. -/
def reduceAll {α : Type} (f : α → α → α) (nil : α) (arrivals : List α) : α :=
  arrivals.foldl f nil

/-- Map-reduce with shards grouped onto nodes: every node reduces its own arrivals from nil and
the coordinator reduces node results, again from nil, in their arrival order. -/
def mapReduce {α : Type} (f : α → α → α) (nil : α) (groups : List (List α)) : α :=
  reduceAll f nil (groups.map (reduceAll f nil))

/-! ### `executor.mapReduce` with failover, as a transition system over response events.

```go
nodes = clone(cluster nodes);  mapper(nodes, shards)        // one request per node of shardsByNode
result, shardN := nil, 0
for resp := range ch {
    if resp.err != nil {
        nodes = nodes.Filter(resp.node)
        err := mapper(nodes, resp.shards)                  // regroup exactly the failed shards
        if err == errShardUnavailable { return nil, resp.err }
        continue
    }
    result = reduceFn(result, resp.result)
    shardN += len(resp.shards)
    if shardN >= len(shards) { return result }
}
```
Nodes and shards are numbers; `owners s` is `Cluster.ShardNodes(index, s)` in replica order. -/

/-- One request in flight: the goroutine `mapper` started for `node` with `shards`. -/
structure Req where
  node : Nat
  shards : List Nat
deriving DecidableEq, Repr, Inhabited

/-- `m[node] = append(m[node], shard)`. -/
def addShard (m : List Req) (n s : Nat) : List Req :=
  match m with
  | [] => [⟨n, [s]⟩]
  | r :: rest => if r.node = n then ⟨n, r.shards ++ [s]⟩ :: rest else r :: addShard rest n s

/-- `shardsByNode`: every shard goes to its first owner that is still in `nodes`;
`none` = `errShardUnavailable` (nothing is started then). -/
def shardsByNode (nodes : List Nat) (owners : Nat → List Nat) : List Nat → List Req → Option (List Req)
  | [], m => some m
  | s :: rest, m =>
    match (owners s).find? (fun n => nodes.contains n) with
    | none => none
    | some n => shardsByNode nodes owners rest (addShard m n s)

/-- The loop state of `mapReduce`. -/
structure MRState (α : Type) where
  nodes : List Nat      -- nodes not yet filtered out
  pending : List Req    -- requests started by `mapper` that have not answered yet
  acc : α               -- `result`
  shardN : Nat
deriving DecidableEq, Repr

inductive MROut (α : Type) where
  | running (s : MRState α)
  | done (a : α)
  | unavailable         -- `mapper` returned errShardUnavailable: the query fails
  | hang                -- waits on the channel with nothing in flight (until the context is cancelled)
deriving DecidableEq, Repr

/-- What a node answers for its shards: `mapperLocal` folds the shard results from nil. -/
def nodeResult {α : Type} (f : α → α → α) (e : α) (val : Nat → α) (shards : List Nat) : α :=
  reduceAll f e (shards.map val)

/-- The first `mapper` call. -/
def mrStart {α : Type} (e : α) (nodes : List Nat) (owners : Nat → List Nat) (shards : List Nat) : MROut α :=
  match shardsByNode nodes owners shards [] with
  | none => .unavailable
  | some reqs => .running ⟨nodes, reqs, e, 0⟩

/-- One response event: `ev.1` picks which request in flight answers next (any completion
order), `ev.2 = true` = it answers with its result, `false` = it answers with an error. -/
def mrStep {α : Type} (f : α → α → α) (e : α) (val : Nat → α) (owners : Nat → List Nat) (total : Nat)
    (s : MRState α) (ev : Nat × Bool) : MROut α :=
  if s.pending.isEmpty then .hang else
  let i := ev.1 % s.pending.length
  let req := s.pending.getD i default
  let pend := s.pending.eraseIdx i
  if ev.2 then
    let acc := f s.acc (nodeResult f e val req.shards)
    let n := s.shardN + req.shards.length
    if n ≥ total then .done acc else .running ⟨s.nodes, pend, acc, n⟩
  else
    let nodes := s.nodes.filter (fun n => n ≠ req.node)
    match shardsByNode nodes owners req.shards [] with
    | none => .unavailable
    | some reqs => .running ⟨nodes, pend ++ reqs, s.acc, s.shardN⟩

def mrRun {α : Type} (f : α → α → α) (e : α) (val : Nat → α) (owners : Nat → List Nat) (total : Nat) :
    MROut α → List (Nat × Bool) → MROut α
  | .running s, ev :: evs => mrRun f e val owners total (mrStep f e val owners total s ev) evs
  | o, _ => o

/-- A whole query: shards, cluster nodes, ownership, response events. -/
def mapReduceFailover {α : Type} (f : α → α → α) (e : α) (val : Nat → α) (nodes : List Nat)
    (owners : Nat → List Nat) (shards : List Nat) (evs : List (Nat × Bool)) : MROut α :=
  mrRun f e val owners shards.length (mrStart e nodes owners shards) evs

/-! ### `executeTopN`: the two-pass TopN protocol.

```go
pairs := executeTopNShards(c, shards)              // pass 1: map-reduce of per-shard top lists, Pairs.Add, sort
if len(pairs) == 0 || len(idsArg) > 0 || opt.Remote { return pairs }   // a remote node returns ALL it merged
other.Args["ids"] = sorted keys of pairs           // every candidate id
trimmed := executeTopNShards(other, shards)        // pass 2: exact counts of the candidates on every shard
if n != 0 && n < len(trimmed) { trimmed = trimmed[0:n] }
```
A shard is given by its full list of (row id, count). `fragment.top` without ids is abstracted to
"the best `n` rows of the shard's ranking" (`topShard`; n = 0: all), with ids to "the exact counts
of those ids, untruncated" (`topShardIds`). `sort.Sort(Pairs)` orders by count only; the order among
equal counts is unspecified in Go, the model breaks ties by ascending id. -/

def pairBefore (a b : Pair) : Bool :=
  a.count > b.count || (a.count == b.count && a.id ≤ b.id)

def insertDesc (p : Pair) : List Pair → List Pair
  | [] => [p]
  | q :: qs => if pairBefore p q then p :: q :: qs else q :: insertDesc p qs

/-- `sort.Sort(Pairs(..))`. -/
def sortPairs (l : List Pair) : List Pair := l.foldr insertDesc []

def trimN (n : Nat) (l : List Pair) : List Pair := if n ≠ 0 ∧ n < l.length then l.take n else l

def topShard (n : Nat) (data : List Pair) : List Pair :=
  trimN n (sortPairs (data.filter (fun p => p.count > 0)))

def topShardIds (ids : List Nat) (data : List Pair) : List Pair :=
  data.filter (fun p => p.count > 0 && ids.contains p.id)

/-- `executeTopNShards`: every node reduces its shards' lists from nil; a remote node sorts what it
merged before returning it (`remote g`), the local node's partial result is used as it is; the
coordinator reduces the node results from nil and sorts. -/
def topNShards (perShard : List Pair → List Pair) (remote : List (List Pair) → Bool)
    (groups : List (List (List Pair))) : List Pair :=
  sortPairs (reduceAll pairsAdd [] (groups.map (fun g =>
    let r := reduceAll pairsAdd [] (g.map perShard)
    if remote (g.map perShard) then sortPairs r else r)))

def sortedKeys (l : List Pair) : List Nat :=
  (l.map (·.id)).foldl (fun acc x => insertCol x acc) []

def executeTopNModel (n : Nat) (remote : List (List Pair) → Bool) (groups : List (List (List Pair))) :
    List Pair :=
  let pairs := topNShards (topShard n) remote groups
  if pairs.isEmpty then pairs
  else trimN n (topNShards (topShardIds (sortedKeys pairs)) remote groups)

end PV.C17
