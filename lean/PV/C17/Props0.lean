/-
C17: generic fold lemma and reducer laws (imported by Lemmas and Props).  Core Lean only (List.Perm is in core).
Full-strength statement: the map-reduce result is independent of the grouping of shards onto
nodes and of the arrival order of results, for every reducer; and Min/Max carry the TOTAL count.
-/
import PV.C17.Model
import PV.C17.Spec
namespace PV.C17
open List

/-! ### Generic lemma: a commutative, associative reducer with identity on a closed domain. -/

structure Laws {α : Type} (D : α → Prop) (f : α → α → α) (e : α) : Prop where
  closed : ∀ a b, D a → D b → D (f a b)
  dnil : D e
  comm : ∀ a b, D a → D b → f a b = f b a
  assoc : ∀ a b c, D a → D b → D c → f (f a b) c = f a (f b c)
  idl : ∀ a, D a → f e a = a

theorem Laws.idr {α : Type} {D : α → Prop} {f : α → α → α} {e : α} (L : Laws D f e)
    (a : α) (ha : D a) : f a e = a := by
  rw [L.comm a e ha L.dnil]; exact L.idl a ha

theorem foldl_closed {α : Type} {D : α → Prop} {f : α → α → α} {e : α} (L : Laws D f e)
    (l : List α) (a : α) (ha : D a) (hl : ∀ x ∈ l, D x) : D (l.foldl f a) := by
  induction l generalizing a with
  | nil => simpa
  | cons x xs ih =>
    simp only [foldl_cons]
    exact ih _ (L.closed _ _ ha (hl x (by simp))) (fun y hy => hl y (by simp [hy]))

/-- Pull the accumulator out of a fold. -/
theorem foldl_acc {α : Type} {D : α → Prop} {f : α → α → α} {e : α} (L : Laws D f e)
    (l : List α) (a : α) (ha : D a) (hl : ∀ x ∈ l, D x) :
    l.foldl f a = f a (l.foldl f e) := by
  induction l generalizing a with
  | nil => simp [L.idr a ha]
  | cons x xs ih =>
    have hx : D x := hl x (by simp)
    have hxs : ∀ y ∈ xs, D y := fun y hy => hl y (by simp [hy])
    simp only [foldl_cons]
    rw [ih (f a x) (L.closed _ _ ha hx) hxs, ih (f e x) (L.closed _ _ L.dnil hx) hxs]
    rw [L.idl x hx, L.assoc a x _ ha hx (foldl_closed L xs e L.dnil hxs)]

/-- Arrival order does not matter. -/
theorem C17_fold_perm {α : Type} {D : α → Prop} {f : α → α → α} {e : α} (L : Laws D f e)
    {l₁ l₂ : List α} (p : l₁.Perm l₂) (h : ∀ x ∈ l₁, D x) :
    reduceAll f e l₁ = reduceAll f e l₂ := by
  unfold reduceAll
  suffices H : ∀ a, D a → l₁.foldl f a = l₂.foldl f a from H e L.dnil
  induction p with
  | nil => intro a _; rfl
  | cons x _ ih =>
    intro a ha
    simp only [foldl_cons]
    exact ih (fun y hy => h y (by simp [hy])) _ (L.closed _ _ ha (h x (by simp)))
  | swap x y l =>
    intro a ha
    simp only [foldl_cons]
    have hx : D x := h x (by simp)
    have hy : D y := h y (by simp)
    rw [L.assoc a y x ha hy hx, L.comm y x hy hx, ← L.assoc a x y ha hx hy]
  | trans p₁ _ ih₁ ih₂ =>
    intro a ha
    rw [ih₁ h a ha, ih₂ (fun y hy => h y (p₁.mem_iff.mpr hy)) a ha]

/-- Grouping shards onto nodes does not matter. -/
theorem C17_group {α : Type} {D : α → Prop} {f : α → α → α} {e : α} (L : Laws D f e)
    (groups : List (List α)) (h : ∀ g ∈ groups, ∀ x ∈ g, D x) :
    mapReduce f e groups = reduceAll f e groups.flatten := by
  unfold mapReduce reduceAll
  suffices H : ∀ a, D a →
      (groups.map (fun g => g.foldl f e)).foldl f a = groups.flatten.foldl f a from H e L.dnil
  induction groups with
  | nil => intro a _; rfl
  | cons g gs ih =>
    intro a ha
    have hg : ∀ x ∈ g, D x := h g (by simp)
    simp only [map_cons, foldl_cons, flatten_cons, foldl_append]
    rw [← foldl_acc L g a ha hg]
    exact ih (fun g' hg' => h g' (by simp [hg'])) _ (foldl_closed L g a ha hg)

/-- The property for one reducer: any two executions (groupings + arrival orders) over the same
multiset of per-shard results agree. -/
theorem C17_placement_order_free {α : Type} {D : α → Prop} {f : α → α → α} {e : α}
    (L : Laws D f e) (g₁ g₂ : List (List α)) (p : g₁.flatten.Perm g₂.flatten)
    (h : ∀ g ∈ g₁, ∀ x ∈ g, D x) : mapReduce f e g₁ = mapReduce f e g₂ := by
  have h1 : ∀ x ∈ g₁.flatten, D x := by
    intro x hx; rcases mem_flatten.mp hx with ⟨g, hg, hxg⟩; exact h g hg x hxg
  have h2 : ∀ g ∈ g₂, ∀ x ∈ g, D x := by
    intro g hg x hx
    exact h1 x (p.mem_iff.mpr (mem_flatten.mpr ⟨g, hg, hx⟩))
  rw [C17_group L g₁ h, C17_group L g₂ h2]
  exact C17_fold_perm L p h1

/-! ### Sum -/

theorem C17_add_laws : Laws (fun _ => True) ValCount.add ValCount.zero where
  closed := fun _ _ _ _ => trivial
  dnil := trivial
  comm := by intro a b _ _; simp [ValCount.add, Int.add_comm]
  assoc := by intro a b c _ _ _; simp [ValCount.add, Int.add_assoc]
  idl := by intro a _; cases a; simp [ValCount.add, ValCount.zero]

/-! ### Min / Max.  Domain: what a shard can return (`count ≥ 0`, and the zero value when empty). -/

def VCValid (v : ValCount) : Prop := v.count ≥ 0 ∧ (v.count = 0 → v.val = 0)

instance (v : ValCount) : Decidable (VCValid v) := by unfold VCValid; exact inferInstance

theorem C17_smaller_laws : Laws VCValid ValCount.smaller ValCount.zero where
  closed := by
    intro a b ha hb; cases a; cases b
    simp only [VCValid, ValCount.smaller] at *; grind
  dnil := by simp [VCValid, ValCount.zero]
  comm := by
    intro a b ha hb; cases a; cases b
    simp only [VCValid, ValCount.smaller] at *; grind
  assoc := by
    intro a b c ha hb hc; cases a; cases b; cases c
    simp only [VCValid, ValCount.smaller] at *; grind
  idl := by intro a _; simp [ValCount.smaller, ValCount.zero]

theorem C17_larger_laws : Laws VCValid ValCount.larger ValCount.zero where
  closed := by
    intro a b ha hb; cases a; cases b
    simp only [VCValid, ValCount.larger] at *; grind
  dnil := by simp [VCValid, ValCount.zero]
  comm := by
    intro a b ha hb; cases a; cases b
    simp only [VCValid, ValCount.larger] at *; grind
  assoc := by
    intro a b c ha hb hc; cases a; cases b; cases c
    simp only [VCValid, ValCount.larger] at *; grind
  idl := by intro a _; simp [ValCount.larger, ValCount.zero]

/-! ### MinRow / MaxRow pair reducers.  Domain: `count = 0 → id = 0` (the zero Pair). -/

def PairValid (p : Pair) : Prop := p.count = 0 → p.id = 0

theorem C17_minRow_laws : Laws PairValid minRowReduce Pair.zero where
  closed := by
    intro a b ha hb; cases a; cases b
    simp only [PairValid, minRowReduce] at *; grind
  dnil := by simp [PairValid, Pair.zero]
  comm := by
    intro a b ha hb; cases a; cases b
    simp only [PairValid, minRowReduce] at *; grind
  assoc := by
    intro a b c ha hb hc; cases a; cases b; cases c
    simp only [PairValid, minRowReduce] at *; grind
  idl := by intro a _; simp [minRowReduce, Pair.zero]

theorem C17_maxRow_laws : Laws PairValid maxRowReduce Pair.zero where
  closed := by
    intro a b ha hb; cases a; cases b
    simp only [PairValid, maxRowReduce] at *; grind
  dnil := by simp [PairValid, Pair.zero]
  comm := by
    intro a b ha hb; cases a; cases b
    simp only [PairValid, maxRowReduce] at *; grind
  assoc := by
    intro a b c ha hb hc; cases a; cases b; cases c
    simp only [PairValid, maxRowReduce] at *; grind
  idl := by intro a _; simp [maxRowReduce, Pair.zero]

/-! ### Count (uint64 +) -/
theorem C17_count_laws : Laws (fun _ : Nat => True) (· + ·) 0 where
  closed := fun _ _ _ _ => trivial
  dnil := trivial
  comm := fun a b _ _ => Nat.add_comm a b
  assoc := fun a b c _ _ _ => Nat.add_assoc a b c
  idl := fun a _ => Nat.zero_add a

end PV.C17
