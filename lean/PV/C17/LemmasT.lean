/-
Helper lemmas for C17: the two-pass TopN protocol (Model.lean executeTopNModel).  Core Lean only.
-/
import PV.C17.LemmasM
namespace PV.C17
open List K

theorem insertDesc_perm (p : Pair) (l : List Pair) : (insertDesc p l).Perm (p :: l) := by
  induction l with
  | nil => exact Perm.refl _
  | cons q qs ih =>
    simp only [insertDesc]
    split
    · exact Perm.refl _
    · exact ((Perm.cons q ih).trans (Perm.swap p q qs))

theorem sortPairs_perm (l : List Pair) : (sortPairs l).Perm l := by
  unfold sortPairs
  induction l with
  | nil => exact Perm.refl _
  | cons p ps ih =>
    simp only [foldr_cons]
    exact (insertDesc_perm p _).trans (Perm.cons p ih)

theorem foldl_ins_perm (m : List (Nat × Nat)) (hm : MapOK m) {l l' : List (Nat × Nat)} (h : l.Perm l') :
    l.foldl ins m = l'.foldl ins m := by
  have L := kmerge_laws natStrictTotal addKV_laws
  have key : ∀ x : List (Nat × Nat), x.foldl ins m = (x.map (fun e => [e])).foldl pmerge m := by
    intro x; rw [foldl_map]; rfl
  have hD : ∀ x : List (Nat × Nat), ∀ y ∈ x.map (fun e => [e]), DL (α := Nat × Nat) Prod.fst (fun _ => True) y := by
    intro x y hy; rcases mem_map.mp hy with ⟨e, _, rfl⟩; exact DL_singleton trivial
  rw [key, key, foldl_acc L _ m hm (hD l), foldl_acc L _ m hm (hD l')]
  congr 1
  exact C17_fold_perm L (h.map _) (hD l)

/-- `Pairs.Add` does not depend on the order of its argument. -/
theorem pairsAdd_perm_right (m : List (Nat × Nat)) (hm : MapOK m) {o o' : List Pair} (h : o.Perm o') :
    pairsAdd (m.map toPair) o = pairsAdd (m.map toPair) o' := by
  rw [pairsAdd_eq m hm, pairsAdd_eq m hm, foldl_ins_perm m hm (h.map toKV)]

theorem foldl_pairsAdd_congr {ι : Type} (l : List ι) (u v : ι → List Pair)
    (h : ∀ i ∈ l, (u i).Perm (v i)) (m : List (Nat × Nat)) (hm : MapOK m) :
    (l.map u).foldl pairsAdd (m.map toPair) = (l.map v).foldl pairsAdd (m.map toPair) := by
  induction l generalizing m with
  | nil => rfl
  | cons i l ih =>
    simp only [map_cons, foldl_cons]
    rw [pairsAdd_perm_right m hm (h i (by simp)), pairsAdd_eq m hm]
    exact ih (fun j hj => h j (by simp [hj])) _ (mapOK_foldl_ins m _ hm)

theorem C17_pairs_aux (groups : List (List (List Pair))) :
    mapReduce pairsAdd [] groups = Spec.pairs groups.flatten := by
  rw [mapReduce_pairsAdd, spec_pairs_eq]

/-- `executeTopNShards` = sort of the order-free merge of all per-shard lists, whichever node
results were sorted on the way. -/
theorem topNShards_eq (perShard : List Pair → List Pair) (remote : List (List Pair) → Bool)
    (groups : List (List (List Pair))) :
    topNShards perShard remote groups = sortPairs (Spec.pairs (groups.flatten.map perShard)) := by
  unfold topNShards
  congr 1
  have h := foldl_pairsAdd_congr groups
    (fun g => if remote (g.map perShard) then sortPairs (reduceAll pairsAdd [] (g.map perShard))
      else reduceAll pairsAdd [] (g.map perShard))
    (fun g => reduceAll pairsAdd [] (g.map perShard))
    (by intro g _; split
        · exact sortPairs_perm _
        · exact Perm.refl _) [] mapOK_nil
  simp only [map_nil] at h
  unfold reduceAll at *
  rw [h]
  have := C17_pairs_aux (groups.map (·.map perShard))
  unfold mapReduce reduceAll at this
  simp only [map_map] at this
  rw [show (fun g : List (List Pair) => foldl pairsAdd [] (map perShard g))
      = ((fun g => foldl pairsAdd [] g) ∘ fun x => map perShard x) from rfl, this, map_flatten]

theorem mem_trimN {n : Nat} {l : List Pair} {p : Pair} (h : p ∈ trimN n l) : p ∈ l := by
  unfold trimN at h
  split at h
  · exact mem_of_mem_take h
  · exact h

theorem sum_filter_sub (A B : Pair → Bool) (h1 : ∀ x, B x = true → A x = true)
    (h2 : ∀ x, A x = true → B x = false → x.count = 0) (l : List Pair) :
    ((l.filter B).map (·.count)).sum = ((l.filter A).map (·.count)).sum := by
  induction l with
  | nil => rfl
  | cons x xs ih =>
    simp only [filter_cons]
    cases hA : A x <;> cases hB : B x
    · simpa using ih
    · have := h1 x hB; rw [hA] at this; cases this
    · have := h2 x hA hB; simp [this, ih]
    · simp [ih]

theorem pairTotal_topShardIds (k : Nat) (ids : List Nat) (hk : ids.contains k = true) (flat : List Pair) :
    Spec.pairTotal k (flat.filter (fun p => p.count > 0 && ids.contains p.id)) = Spec.pairTotal k flat := by
  unfold Spec.pairTotal
  rw [filter_filter]
  apply sum_filter_sub
  · intro x hx; simp only [Bool.and_eq_true] at hx; exact hx.1
  · intro x hA hB
    have hid : x.id = k := by simpa using hA
    cases hc : decide (x.count > 0) with
    | false => simpa using hc
    | true =>
      exfalso
      have : (decide (x.id = k) && (decide (x.count > 0) && ids.contains x.id)) = true := by
        have hk' : k ∈ ids := by simpa using hk
        rw [hc, hid]; simp [hk']
      rw [this] at hB; cases hB

theorem flatten_map_filter (P : Pair → Bool) (shards : List (List Pair)) :
    (shards.map (fun d => d.filter P)).flatten = shards.flatten.filter P := by
  induction shards with
  | nil => rfl
  | cons d ds ih => simp only [map_cons, flatten_cons, filter_append, ih]

theorem mem_insertCol (x y : Nat) (l : List Nat) : y ∈ insertCol x l ↔ y = x ∨ y ∈ l := by
  induction l with
  | nil => simp [insertCol]
  | cons z zs ih =>
    simp only [insertCol]
    split
    · simp
    · split
      · rename_i h; subst h; simp
      · simp [ih]; constructor
        · rintro (h | h | h) <;> simp [h]
        · rintro (h | h | h) <;> simp [h]

theorem mem_sortedKeys {k : Nat} {l : List Pair} : k ∈ sortedKeys l ↔ k ∈ l.map (·.id) := by
  unfold sortedKeys
  suffices H : ∀ (xs acc : List Nat), k ∈ xs.foldl (fun acc x => insertCol x acc) acc ↔ k ∈ acc ∨ k ∈ xs by
    simpa using H (l.map (·.id)) []
  intro xs
  induction xs with
  | nil => intro acc; simp
  | cons x xs ih =>
    intro acc
    simp only [foldl_cons, ih, mem_insertCol, mem_cons]
    constructor
    · rintro ((h | h) | h) <;> simp [h]
    · rintro (h | h | h) <;> simp [h]
end PV.C17
