/-
Helper lemmas for C17: a generic *keyed merge* of two key-ascending lists and its theory.
Every list-valued reducer of the executor is an instance (see LemmasM.lean):

  RowIDs.merge            elements = row ids,      key = id,            equal keys: keep one
  Row.Merge               elements = segments,     key = shard,         equal keys: rowSegment.Merge
  rowSegment.Merge        elements = columns,      key = id
  mergeGroupCounts        elements = GroupCount,   key = group row ids, equal keys: add counts
  Pairs.Add (as a map)    elements = (id, count),  key = id,            equal keys: add counts

A key-ascending list is a canonical representation of a finite map key -> element (`look`), the
merge is the pointwise combination (`look_kmerge`), two ascending lists with the same `look` are
equal (`ext`), hence the merge inherits commutativity / associativity from the combination
(`kmerge_laws`), and truncation to the first `lim` entries commutes with merging
(`take_kmerge_take`).  Core Lean only.
-/
import PV.C17.Lemmas
namespace PV.C17.K
open List
set_option linter.unusedSectionVars false

/-- A strict total order on keys. -/
structure StrictTotal (κ : Type) [LT κ] : Prop where
  irrefl : ∀ a : κ, ¬ a < a
  trans : ∀ a b c : κ, a < b → b < c → a < c
  tri : ∀ a b : κ, a < b ∨ a = b ∨ b < a

theorem natStrictTotal : StrictTotal Nat where
  irrefl := fun a => Nat.lt_irrefl a
  trans := fun _ _ _ => Nat.lt_trans
  tri := fun a b => by omega

section
variable {α κ : Type} [LT κ] [DecidableLT κ] [DecidableEq κ]

/-- Merge of two key-ascending lists; elements with equal keys are combined. -/
def kmerge (key : α → κ) (comb : α → α → α) : List α → List α → List α
  | [], b => b
  | a, [] => a
  | x :: as, y :: bs =>
    if key x < key y then x :: kmerge key comb as (y :: bs)
    else if key y < key x then y :: kmerge key comb (x :: as) bs
    else comb x y :: kmerge key comb as bs
termination_by a b => a.length + b.length

def SortedK (key : α → κ) (l : List α) : Prop := (l.map key).Pairwise (· < ·)

/-- The element stored under key `k`. -/
def look (key : α → κ) (k : κ) : List α → Option α
  | [] => none
  | x :: xs => if key x = k then some x else look key k xs

/-- Pointwise combination of two optional elements. -/
def oc (comb : α → α → α) : Option α → Option α → Option α
  | some x, some y => some (comb x y)
  | some x, none => some x
  | none, y => y

/-- What the combination of two elements with the same key must satisfy (on valid elements). -/
structure CombLaws (key : α → κ) (comb : α → α → α) (DV : α → Prop) : Prop where
  key_comb : ∀ x y, key x = key y → key (comb x y) = key x
  closed : ∀ x y, DV x → DV y → key x = key y → DV (comb x y)
  comm : ∀ x y, DV x → DV y → key x = key y → comb x y = comb y x
  assoc : ∀ x y z, DV x → DV y → DV z → key x = key y → key y = key z →
    comb (comb x y) z = comb x (comb y z)

variable {key : α → κ} {comb : α → α → α}

@[simp] theorem kmerge_nil_left (b : List α) : kmerge key comb [] b = b := by
  rw [kmerge]

@[simp] theorem kmerge_nil_right (a : List α) : kmerge key comb a [] = a := by
  cases a <;> rw [kmerge]
  intro h; cases h

theorem sortedK_cons {x : α} {l : List α} :
    SortedK key (x :: l) ↔ (∀ z ∈ l, key x < key z) ∧ SortedK key l := by
  unfold SortedK
  simp only [map_cons, pairwise_cons, mem_map, forall_exists_index, and_imp]
  constructor
  · rintro ⟨h1, h2⟩; exact ⟨fun z hz => h1 _ z hz rfl, h2⟩
  · rintro ⟨h1, h2⟩; exact ⟨fun k z hz hk => hk ▸ h1 z hz, h2⟩

theorem sortedK_nil : SortedK key ([] : List α) := by simp [SortedK]

theorem sortedK_take {l : List α} (n : Nat) (h : SortedK key l) : SortedK key (l.take n) := by
  unfold SortedK at *
  rw [map_take]
  exact h.sublist (take_sublist _ _)

theorem mem_kmerge (ord : StrictTotal κ) (a b : List α) (z : α) :
    z ∈ kmerge key comb a b →
    z ∈ a ∨ z ∈ b ∨ ∃ x ∈ a, ∃ y ∈ b, key x = key y ∧ z = comb x y := by
  fun_induction kmerge key comb a b with
  | case1 b => intro h; exact Or.inr (Or.inl h)
  | case2 a _ => intro h; exact Or.inl h
  | case3 x as y bs hlt ih =>
    intro h
    rcases mem_cons.mp h with rfl | h
    · simp
    · rcases ih h with h | h | ⟨x', hx', y', hy', hk, rfl⟩
      · left; simp [h]
      · right; left; exact h
      · right; right; exact ⟨x', by simp [hx'], y', hy', hk, rfl⟩
  | case4 x as y bs h1 h2 ih =>
    intro h
    rcases mem_cons.mp h with rfl | h
    · simp
    · rcases ih h with h | h | ⟨x', hx', y', hy', hk, rfl⟩
      · left; exact h
      · right; left; simp [h]
      · right; right; exact ⟨x', hx', y', by simp [hy'], hk, rfl⟩
  | case5 x as y bs h1 h2 ih =>
    intro h
    have hxy : key x = key y := by
      rcases ord.tri (key x) (key y) with h | h | h
      · exact absurd h h1
      · exact h
      · exact absurd h h2
    rcases mem_cons.mp h with rfl | h
    · right; right; exact ⟨x, by simp, y, by simp, hxy, rfl⟩
    · rcases ih h with h | h | ⟨x', hx', y', hy', hk, rfl⟩
      · left; simp [h]
      · right; left; simp [h]
      · right; right; exact ⟨x', by simp [hx'], y', by simp [hy'], hk, rfl⟩

theorem key_mem_kmerge (ord : StrictTotal κ) (hk : ∀ x y, key x = key y → key (comb x y) = key x)
    (a b : List α) (z : α) (h : z ∈ kmerge key comb a b) :
    (∃ x ∈ a, key x = key z) ∨ (∃ y ∈ b, key y = key z) := by
  rcases mem_kmerge ord a b z h with h | h | ⟨x, hx, y, _, hxy, rfl⟩
  · exact Or.inl ⟨z, h, rfl⟩
  · exact Or.inr ⟨z, h, rfl⟩
  · exact Or.inl ⟨x, hx, (hk x y hxy).symm⟩

theorem kmerge_sorted (ord : StrictTotal κ) (hk : ∀ x y, key x = key y → key (comb x y) = key x)
    (a b : List α) : SortedK key a → SortedK key b → SortedK key (kmerge key comb a b) := by
  fun_induction kmerge key comb a b with
  | case1 b => intro _ h; exact h
  | case2 a _ => intro h _; exact h
  | case3 x as y bs hlt ih =>
    intro ha hb
    have ha' := sortedK_cons.mp ha
    have hb' := sortedK_cons.mp hb
    refine sortedK_cons.mpr ⟨?_, ih ha'.2 hb⟩
    intro z hz
    rcases key_mem_kmerge ord hk _ _ z hz with ⟨x', hx', e⟩ | ⟨y', hy', e⟩
    · rw [← e]; exact ha'.1 x' hx'
    · rw [← e]
      rcases mem_cons.mp hy' with rfl | hy'
      · exact hlt
      · exact ord.trans _ _ _ hlt (hb'.1 y' hy')
  | case4 x as y bs h1 h2 ih =>
    intro ha hb
    have ha' := sortedK_cons.mp ha
    have hb' := sortedK_cons.mp hb
    refine sortedK_cons.mpr ⟨?_, ih ha hb'.2⟩
    intro z hz
    rcases key_mem_kmerge ord hk _ _ z hz with ⟨x', hx', e⟩ | ⟨y', hy', e⟩
    · rw [← e]
      rcases mem_cons.mp hx' with rfl | hx'
      · exact h2
      · exact ord.trans _ _ _ h2 (ha'.1 x' hx')
    · rw [← e]; exact hb'.1 y' hy'
  | case5 x as y bs h1 h2 ih =>
    intro ha hb
    have hxy : key x = key y := by
      rcases ord.tri (key x) (key y) with h | h | h
      · exact absurd h h1
      · exact h
      · exact absurd h h2
    have ha' := sortedK_cons.mp ha
    have hb' := sortedK_cons.mp hb
    refine sortedK_cons.mpr ⟨?_, ih ha'.2 hb'.2⟩
    intro z hz
    rw [hk x y hxy]
    rcases key_mem_kmerge ord hk _ _ z hz with ⟨x', hx', e⟩ | ⟨y', hy', e⟩
    · rw [← e]; exact ha'.1 x' hx'
    · rw [← e, hxy]; exact hb'.1 y' hy'

/-! ### `look` -/

theorem look_none {k : κ} {l : List α} (h : ∀ z ∈ l, key z ≠ k) : look key k l = none := by
  induction l with
  | nil => rfl
  | cons x xs ih =>
    simp only [look]
    rw [if_neg (h x (by simp))]
    exact ih (fun z hz => h z (by simp [hz]))

theorem look_some {k : κ} {l : List α} {v : α} (h : look key k l = some v) : v ∈ l ∧ key v = k := by
  induction l with
  | nil => simp [look] at h
  | cons x xs ih =>
    simp only [look] at h
    split at h
    · rename_i e; cases h; exact ⟨by simp, e⟩
    · have := ih h; exact ⟨by simp [this.1], this.2⟩

theorem look_of_mem (ord : StrictTotal κ) {l : List α} (hs : SortedK key l) {v : α} (hv : v ∈ l) :
    look key (key v) l = some v := by
  induction l with
  | nil => cases hv
  | cons x xs ih =>
    have hs' := sortedK_cons.mp hs
    simp only [look]
    rcases mem_cons.mp hv with rfl | hv
    · simp
    · have := hs'.1 v hv
      have hne : key x ≠ key v := fun e => ord.irrefl _ (e ▸ this)
      rw [if_neg hne]
      exact ih hs'.2 hv

theorem ne_of_lt (ord : StrictTotal κ) {a b : κ} (h : a < b) : b ≠ a :=
  fun e => ord.irrefl _ (e ▸ h)

theorem look_kmerge (ord : StrictTotal κ) (hk : ∀ x y, key x = key y → key (comb x y) = key x)
    (k : κ) (a b : List α) : SortedK key a → SortedK key b →
    look key k (kmerge key comb a b) = oc comb (look key k a) (look key k b) := by
  fun_induction kmerge key comb a b with
  | case1 b => intro _ _; simp [look, oc]
  | case2 a _ =>
    intro _ _
    simp only [look]
    cases look key k a <;> rfl
  | case3 x as y bs hlt ih =>
    intro ha hb
    have ha' := sortedK_cons.mp ha
    have hb' := sortedK_cons.mp hb
    by_cases hkx : key x = k
    · have hnone : look key k (y :: bs) = none := by
        apply look_none
        intro z hz
        rw [← hkx]
        rcases mem_cons.mp hz with rfl | hz
        · exact ne_of_lt ord hlt
        · exact ne_of_lt ord (ord.trans _ _ _ hlt (hb'.1 z hz))
      rw [hnone]
      simp [look, hkx, oc]
    · have := ih ha'.2 hb
      simp only [look, if_neg hkx] at this ⊢
      exact this
  | case4 x as y bs h1 h2 ih =>
    intro ha hb
    have ha' := sortedK_cons.mp ha
    have hb' := sortedK_cons.mp hb
    by_cases hky : key y = k
    · have hnone : look key k (x :: as) = none := by
        apply look_none
        intro z hz
        rw [← hky]
        rcases mem_cons.mp hz with rfl | hz
        · exact ne_of_lt ord h2
        · exact ne_of_lt ord (ord.trans _ _ _ h2 (ha'.1 z hz))
      rw [hnone]
      simp [look, hky, oc]
    · have := ih ha hb'.2
      simp only [look, if_neg hky] at this ⊢
      exact this
  | case5 x as y bs h1 h2 ih =>
    intro ha hb
    have hxy : key x = key y := by
      rcases ord.tri (key x) (key y) with h | h | h
      · exact absurd h h1
      · exact h
      · exact absurd h h2
    have ha' := sortedK_cons.mp ha
    have hb' := sortedK_cons.mp hb
    by_cases hkx : key x = k
    · have hky : key y = k := hxy ▸ hkx
      have hkc : key (comb x y) = k := (hk x y hxy).trans hkx
      simp [look, hkx, hky, hkc, oc]
    · have hky : ¬ key y = k := fun e => hkx (hxy.trans e)
      have hkc : ¬ key (comb x y) = k := fun e => hkx ((hk x y hxy).symm.trans e)
      have := ih ha'.2 hb'.2
      simp only [look, if_neg hkx, if_neg hky, if_neg hkc] at this ⊢
      exact this

/-- Two key-ascending lists holding the same element under every key are equal. -/
theorem ext (ord : StrictTotal κ) (a b : List α) (ha : SortedK key a) (hb : SortedK key b)
    (h : ∀ k, look key k a = look key k b) : a = b := by
  induction a generalizing b with
  | nil =>
    cases b with
    | nil => rfl
    | cons y bs =>
      have := h (key y)
      simp [look] at this
  | cons x as ih =>
    cases b with
    | nil =>
      have := h (key x)
      simp [look] at this
    | cons y bs =>
      have ha' := sortedK_cons.mp ha
      have hb' := sortedK_cons.mp hb
      have hx := h (key x)
      have hy := h (key y)
      simp only [look, if_true] at hx hy
      have hxy : key x = key y := by
        rcases ord.tri (key x) (key y) with hlt | e | hlt
        · exfalso
          rw [if_neg (ne_of_lt ord hlt)] at hx
          have hn : look key (key x) bs = none :=
            look_none (fun z hz => ne_of_lt ord (ord.trans _ _ _ hlt (hb'.1 z hz)))
          rw [hn] at hx; cases hx
        · exact e
        · exfalso
          rw [if_neg (ne_of_lt ord hlt)] at hy
          have hn : look key (key y) as = none :=
            look_none (fun z hz => ne_of_lt ord (ord.trans _ _ _ hlt (ha'.1 z hz)))
          rw [hn] at hy; cases hy
      rw [if_pos hxy.symm] at hx
      cases hx
      congr 1
      apply ih bs ha'.2 hb'.2
      intro k
      have hk := h k
      simp only [look] at hk
      by_cases e : key x = k
      · have h1 : look key k as = none :=
          look_none (fun z hz => e ▸ ne_of_lt ord (ha'.1 z hz))
        have h2 : look key k bs = none :=
          look_none (fun z hz => e ▸ ne_of_lt ord (hb'.1 z hz))
        rw [h1, h2]
      · simp only [if_neg e] at hk; exact hk

/-! ### The merge as a lawful reducer -/

/-- Domain of the merge: key-ascending lists of valid elements. -/
def DL (key : α → κ) (DV : α → Prop) (l : List α) : Prop := SortedK key l ∧ ∀ x ∈ l, DV x

theorem kmerge_laws (ord : StrictTotal κ) {DV : α → Prop} (C : CombLaws key comb DV) :
    Laws (DL key DV) (kmerge key comb) [] where
  closed := by
    intro a b ⟨sa, va⟩ ⟨sb, vb⟩
    refine ⟨kmerge_sorted ord C.key_comb a b sa sb, ?_⟩
    intro z hz
    rcases mem_kmerge ord a b z hz with h | h | ⟨x, hx, y, hy, hxy, rfl⟩
    · exact va z h
    · exact vb z h
    · exact C.closed x y (va x hx) (vb y hy) hxy
  dnil := ⟨sortedK_nil, by simp⟩
  comm := by
    intro a b ⟨sa, va⟩ ⟨sb, vb⟩
    apply ext ord _ _ (kmerge_sorted ord C.key_comb a b sa sb) (kmerge_sorted ord C.key_comb b a sb sa)
    intro k
    rw [look_kmerge ord C.key_comb k a b sa sb, look_kmerge ord C.key_comb k b a sb sa]
    cases h1 : look key k a <;> cases h2 : look key k b <;> simp only [oc]
    have := look_some h1; have := look_some h2
    rw [C.comm _ _ (va _ ‹_ ∧ _›.1) (vb _ ‹_ ∧ _›.1) (by simp [*])]
  assoc := by
    intro a b c ⟨sa, va⟩ ⟨sb, vb⟩ ⟨sc, vc⟩
    have sab := kmerge_sorted ord C.key_comb a b sa sb
    have sbc := kmerge_sorted ord C.key_comb b c sb sc
    apply ext ord _ _ (kmerge_sorted ord C.key_comb _ c sab sc) (kmerge_sorted ord C.key_comb a _ sa sbc)
    intro k
    rw [look_kmerge ord C.key_comb k _ c sab sc, look_kmerge ord C.key_comb k a b sa sb,
      look_kmerge ord C.key_comb k a _ sa sbc, look_kmerge ord C.key_comb k b c sb sc]
    cases h1 : look key k a <;> cases h2 : look key k b <;> cases h3 : look key k c <;>
      simp only [oc]
    have e1 := look_some h1; have e2 := look_some h2; have e3 := look_some h3
    rw [C.assoc _ _ _ (va _ e1.1) (vb _ e2.1) (vc _ e3.1) (e1.2.trans e2.2.symm) (e2.2.trans e3.2.symm)]
  idl := by intro a _; simp

/-! ### Truncation -/

theorem take_kmerge_take_left (a b : List α) : ∀ (n m : Nat), n ≤ m →
    (kmerge key comb (a.take m) b).take n = (kmerge key comb a b).take n := by
  fun_induction kmerge key comb a b with
  | case1 b => intro n m _; simp
  | case2 a _ =>
    intro n m h
    simp only [kmerge_nil_right]
    rw [take_take]; congr 1; omega
  | case3 x as y bs hlt ih =>
    intro n m h
    cases n with
    | zero => simp
    | succ n =>
      obtain ⟨m, rfl⟩ : ∃ m', m = m' + 1 := ⟨m - 1, by omega⟩
      rw [take_succ_cons, kmerge, if_pos hlt, take_succ_cons, take_succ_cons, ih n m (by omega)]
  | case4 x as y bs h1 h2 ih =>
    intro n m h
    cases n with
    | zero => simp
    | succ n =>
      obtain ⟨m, rfl⟩ : ∃ m', m = m' + 1 := ⟨m - 1, by omega⟩
      have := ih n (m + 1) (by omega)
      rw [take_succ_cons] at this ⊢
      rw [kmerge, if_neg h1, if_pos h2, take_succ_cons, take_succ_cons, this]
  | case5 x as y bs h1 h2 ih =>
    intro n m h
    cases n with
    | zero => simp
    | succ n =>
      obtain ⟨m, rfl⟩ : ∃ m', m = m' + 1 := ⟨m - 1, by omega⟩
      rw [take_succ_cons, kmerge, if_neg h1, if_neg h2, take_succ_cons, take_succ_cons, ih n m (by omega)]

theorem take_kmerge_take_right (a b : List α) : ∀ (n m : Nat), n ≤ m →
    (kmerge key comb a (b.take m)).take n = (kmerge key comb a b).take n := by
  fun_induction kmerge key comb a b with
  | case1 b =>
    intro n m h
    simp only [kmerge_nil_left]
    rw [take_take]; congr 1; omega
  | case2 a _ => intro n m _; simp
  | case3 x as y bs hlt ih =>
    intro n m h
    cases n with
    | zero => simp
    | succ n =>
      obtain ⟨m, rfl⟩ : ∃ m', m = m' + 1 := ⟨m - 1, by omega⟩
      have := ih n (m + 1) (by omega)
      rw [take_succ_cons] at this ⊢
      rw [kmerge, if_pos hlt, take_succ_cons, take_succ_cons, this]
  | case4 x as y bs h1 h2 ih =>
    intro n m h
    cases n with
    | zero => simp
    | succ n =>
      obtain ⟨m, rfl⟩ : ∃ m', m = m' + 1 := ⟨m - 1, by omega⟩
      rw [take_succ_cons, kmerge, if_neg h1, if_pos h2, take_succ_cons, take_succ_cons, ih n m (by omega)]
  | case5 x as y bs h1 h2 ih =>
    intro n m h
    cases n with
    | zero => simp
    | succ n =>
      obtain ⟨m, rfl⟩ : ∃ m', m = m' + 1 := ⟨m - 1, by omega⟩
      rw [take_succ_cons, kmerge, if_neg h1, if_neg h2, take_succ_cons, take_succ_cons, ih n m (by omega)]

/-- Merge-with-limit: what `RowIDs.merge` / `mergeGroupCounts` compute. -/
def kmergeLim (key : α → κ) (comb : α → α → α) (lim : Nat) (a b : List α) : List α :=
  (kmerge key comb a b).take lim

/-- Truncated operands give the same first `lim` entries. -/
theorem take_kmergeLim (lim : Nat) {a a' b b' : List α} (ha : a.take lim = a'.take lim)
    (hb : b.take lim = b'.take lim) :
    (kmergeLim key comb lim a b).take lim = (kmerge key comb a' b').take lim := by
  unfold kmergeLim
  rw [take_take, Nat.min_self]
  rw [← take_kmerge_take_left a b lim lim (Nat.le_refl _),
    ← take_kmerge_take_right _ b lim lim (Nat.le_refl _), ha, hb,
    take_kmerge_take_right _ b' lim lim (Nat.le_refl _),
    take_kmerge_take_left a' b' lim lim (Nat.le_refl _)]

theorem foldl_kmergeLim (lim : Nat) {ι : Type} (l : List ι) (u v : ι → List α)
    (h : ∀ i ∈ l, (u i).take lim = (v i).take lim) (A A' : List α)
    (hA : A.take lim = A'.take lim) :
    ((l.map u).foldl (kmergeLim key comb lim) A).take lim
      = ((l.map v).foldl (kmerge key comb) A').take lim := by
  induction l generalizing A A' with
  | nil => simpa
  | cons i l ih =>
    simp only [map_cons, foldl_cons]
    apply ih (fun j hj => h j (by simp [hj]))
    exact take_kmergeLim lim hA (h i (by simp))

/-- The result of a limited fold is already truncated. -/
theorem length_foldl_kmergeLim (lim : Nat) (l : List (List α)) (A : List α) (hA : A.length ≤ lim) :
    (l.foldl (kmergeLim key comb lim) A).length ≤ lim := by
  induction l generalizing A with
  | nil => simpa
  | cons x xs ih =>
    simp only [foldl_cons]
    apply ih
    simp [kmergeLim, length_take]; omega

/-- Map-reduce with the limited merge over (possibly truncated) shard results `u i` equals the
first `lim` entries of the unlimited map-reduce over the full shard results `v i`. -/
theorem mapReduce_kmergeLim (lim : Nat) {ι : Type} (groups : List (List ι)) (u v : ι → List α)
    (h : ∀ g ∈ groups, ∀ i ∈ g, (u i).take lim = (v i).take lim) :
    mapReduce (kmergeLim key comb lim) [] (groups.map (·.map u))
      = (mapReduce (kmerge key comb) [] (groups.map (·.map v))).take lim := by
  unfold mapReduce reduceAll
  have hlen := length_foldl_kmergeLim (key := key) (comb := comb) lim
    ((groups.map (·.map u)).map (fun g => g.foldl (kmergeLim key comb lim) [])) [] (by simp)
  rw [← take_of_length_le hlen]
  simp only [map_map]
  have := foldl_kmergeLim (key := key) (comb := comb) lim groups
    (fun g => (g.map u).foldl (kmergeLim key comb lim) [])
    (fun g => (g.map v).foldl (kmerge key comb) []) ?_ [] [] rfl
  · simpa [Function.comp_def] using this
  · intro g hg
    have hl := length_foldl_kmergeLim (key := key) (comb := comb) lim (g.map u) [] (by simp)
    have := foldl_kmergeLim (key := key) (comb := comb) lim g u v (h g hg) [] [] rfl
    exact this

/-! ### Inserting elements one by one = merging with singletons -/

theorem DL_singleton {DV : α → Prop} {x : α} (h : DV x) : DL key DV [x] :=
  ⟨by simp [SortedK], by simpa⟩

theorem kmerge_singleton_cons (x : α) (l : List α) (h : SortedK key (x :: l)) :
    kmerge key comb [x] l = x :: l := by
  cases l with
  | nil => simp
  | cons y ys =>
    have := (sortedK_cons.mp h).1 y (by simp)
    rw [kmerge, if_pos this]; simp

/-- Folding the singletons of an ascending list rebuilds it. -/
theorem fold_singletons (ord : StrictTotal κ) {DV : α → Prop} (C : CombLaws key comb DV)
    (l : List α) (hl : DL key DV l) :
    reduceAll (kmerge key comb) [] (l.map (fun x => [x])) = l := by
  induction l with
  | nil => rfl
  | cons x xs ih =>
    have hs := sortedK_cons.mp hl.1
    have hxs : DL key DV xs := ⟨hs.2, fun y hy => hl.2 y (by simp [hy])⟩
    rw [map_cons, reduceAll_cons (kmerge_laws ord C) [x] _ (DL_singleton (hl.2 x (by simp)))
      (by intro y hy; rcases mem_map.mp hy with ⟨z, hz, rfl⟩; exact DL_singleton (hxs.2 z hz)),
      ih hxs, kmerge_singleton_cons x xs hl.1]

/-- Inserting the elements of `l` one by one into `A` = merging `A` with `l`. -/
theorem foldl_insert_eq_kmerge (ord : StrictTotal κ) {DV : α → Prop} (C : CombLaws key comb DV)
    (A l : List α) (hA : DL key DV A) (hl : DL key DV l) :
    l.foldl (fun acc e => kmerge key comb acc [e]) A = kmerge key comb A l := by
  have h1 : l.foldl (fun acc e => kmerge key comb acc [e]) A
      = (l.map (fun x => [x])).foldl (kmerge key comb) A := by rw [foldl_map]
  rw [h1, foldl_acc (kmerge_laws ord C) _ A hA
    (by intro y hy; rcases mem_map.mp hy with ⟨z, hz, rfl⟩; exact DL_singleton (hl.2 z hz))]
  have := fold_singletons ord C l hl
  unfold reduceAll at this
  rw [this]

/-- Inserting all elements of all lists one by one from nil = reducing the lists. -/
theorem foldl_insert_flatten (ord : StrictTotal κ) {DV : α → Prop} (C : CombLaws key comb DV)
    (L : List (List α)) (hL : ∀ l ∈ L, DL key DV l) :
    L.flatten.foldl (fun acc e => kmerge key comb acc [e]) [] = reduceAll (kmerge key comb) [] L := by
  have hnil : DL key DV ([] : List α) := (kmerge_laws ord C).dnil
  unfold reduceAll
  suffices H : ∀ A, DL key DV A →
      L.flatten.foldl (fun acc e => kmerge key comb acc [e]) A = L.foldl (kmerge key comb) A from H [] hnil
  induction L with
  | nil => intro A _; rfl
  | cons l L ih =>
    intro A hA
    have hl := hL l (by simp)
    rw [flatten_cons, foldl_append, foldl_cons, foldl_insert_eq_kmerge ord C A l hA hl]
    exact ih (fun l' h' => hL l' (by simp [h'])) _ ((kmerge_laws ord C).closed A l hA hl)

/-- Inserting arbitrary valid elements one by one into `A` = merging `A` with what they build
from nil. -/
theorem foldl_insert_acc (ord : StrictTotal κ) {DV : α → Prop} (C : CombLaws key comb DV)
    (A l : List α) (hA : DL key DV A) (hl : ∀ e ∈ l, DV e) :
    l.foldl (fun acc e => kmerge key comb acc [e]) A
      = kmerge key comb A (l.foldl (fun acc e => kmerge key comb acc [e]) []) := by
  have h1 : ∀ B, l.foldl (fun acc e => kmerge key comb acc [e]) B
      = (l.map (fun x => [x])).foldl (kmerge key comb) B := by intro B; rw [foldl_map]
  rw [h1, h1, foldl_acc (kmerge_laws ord C) _ A hA
    (by intro y hy; rcases mem_map.mp hy with ⟨z, hz, rfl⟩; exact DL_singleton (hl z hz))]

theorem DL_foldl_insert (ord : StrictTotal κ) {DV : α → Prop} (C : CombLaws key comb DV)
    (A l : List α) (hA : DL key DV A) (hl : ∀ e ∈ l, DV e) :
    DL key DV (l.foldl (fun acc e => kmerge key comb acc [e]) A) := by
  have h1 : l.foldl (fun acc e => kmerge key comb acc [e]) A
      = (l.map (fun x => [x])).foldl (kmerge key comb) A := by rw [foldl_map]
  rw [h1]
  exact foldl_closed (kmerge_laws ord C) _ A hA
    (by intro y hy; rcases mem_map.mp hy with ⟨z, hz, rfl⟩; exact DL_singleton (hl z hz))

theorem length_kmerge_le (a b : List α) : (kmerge key comb a b).length ≤ a.length + b.length := by
  fun_induction kmerge key comb a b with
  | case1 b => simp
  | case2 a _ => simp
  | case3 x as y bs hlt ih => simp only [length_cons] at *; omega
  | case4 x as y bs h1 h2 ih => simp only [length_cons] at *; omega
  | case5 x as y bs h1 h2 ih => simp only [length_cons] at *; omega

end

/-- Two reducers that agree on a closed domain give the same map-reduce result on it. -/
theorem mapReduce_congr {α : Type} (P : α → Prop) (f g : α → α → α) (e : α) (he : P e)
    (hclosed : ∀ a b, P a → P b → P (g a b)) (heq : ∀ a b, P a → P b → f a b = g a b)
    (groups : List (List α)) (h : ∀ gr ∈ groups, ∀ x ∈ gr, P x) :
    mapReduce f e groups = mapReduce g e groups := by
  have fold : ∀ (l : List α) (a : α), P a → (∀ x ∈ l, P x) →
      l.foldl f a = l.foldl g a ∧ P (l.foldl g a) := by
    intro l
    induction l with
    | nil => intro a ha _; exact ⟨rfl, ha⟩
    | cons x xs ih =>
      intro a ha hl
      simp only [foldl_cons]
      have hx := hl x (by simp)
      rw [heq a x ha hx]
      exact ih _ (hclosed a x ha hx) (fun y hy => hl y (by simp [hy]))
  unfold mapReduce reduceAll
  have h1 : groups.map (fun l => l.foldl f e) = groups.map (fun l => l.foldl g e) := by
    apply map_congr_left
    intro l hl
    exact (fold l e he (h l hl)).1
  rw [h1]
  apply (fold _ e he _).1
  intro x hx
  rcases mem_map.mp hx with ⟨l, hl, rfl⟩
  exact (fold l e he (h l hl)).2

end PV.C17.K
