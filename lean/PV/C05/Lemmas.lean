/-
C05 helper lemmas: little-endian round trip, op encode/decode round trip.
-/
import PV.C05.Model
namespace PV.C05
open List PV.C02

theorem length_le (n x : Nat) : (le n x).length = n := by
  induction n generalizing x with
  | zero => rfl
  | succ n ih => simp [le, ih]

theorem unle_le (n x : Nat) (hx : x < 256 ^ n) : unle (le n x) = x := by
  induction n generalizing x with
  | zero => simp at hx; subst hx; rfl
  | succ n ih =>
    simp only [le, unle]
    have : x / 256 < 256 ^ n := by
      rw [Nat.div_lt_iff_lt_mul (by omega)]
      rw [Nat.pow_succ] at hx; omega
    rw [ih _ this]; omega

theorem fnvStep_lt (h b : Nat) : fnvStep h b < 4294967296 := by
  unfold fnvStep; exact Nat.mod_lt _ (by omega)

theorem fnv32a_lt (bs : Bytes) : fnv32a bs < 2 ^ 32 := by
  unfold fnv32a
  suffices h : ∀ (bs : Bytes) (h0 : Nat), h0 < 4294967296 → bs.foldl fnvStep h0 < 4294967296 by
    have := h bs 2166136261 (by omega); omega
  intro bs
  induction bs with
  | nil => intro h0 h; simpa
  | cons b t ih => intro h0 _; simp only [foldl_cons]; exact ih _ (fnvStep_lt _ _)

theorem take_append_len {α : Type} (a b : List α) (n : Nat) (h : a.length = n) : (a ++ b).take n = a := by
  subst h; simp

theorem drop_append_len {α : Type} (a b : List α) (n : Nat) (h : a.length = n) : (a ++ b).drop n = b := by
  subst h; simp

theorem unchunk_flatMap (vs : List Nat) (rest : Bytes) (hv : ∀ v ∈ vs, v < 2 ^ 64) :
    unchunk vs.length (vs.flatMap (le 8) ++ rest) = vs := by
  induction vs with
  | nil => rfl
  | cons v t ih =>
    simp only [length_cons, flatMap_cons, unchunk, append_assoc]
    rw [take_append_len _ _ 8 (length_le 8 v), drop_append_len _ _ 8 (length_le 8 v)]
    rw [unle_le 8 v (by have := hv v (by simp); omega), ih (fun w hw => hv w (by simp [hw]))]

theorem length_flatMap_le8 (vs : List Nat) : (vs.flatMap (le 8)).length = vs.length * 8 := by
  induction vs with
  | nil => rfl
  | cons v t ih => simp only [flatMap_cons, length_append, length_le, ih, length_cons]; omega

/-- Sizes and values an op can carry on the wire. -/
def OpWF : LOp → Prop
  | .add v => v < 2 ^ 64
  | .remove v => v < 2 ^ 64
  | .addBatch vs => (∀ v ∈ vs, v < 2 ^ 64) ∧ vs.length ≤ 2 ^ 59
  | .removeBatch vs => (∀ v ∈ vs, v < 2 ^ 64) ∧ vs.length ≤ 2 ^ 59
  | .addRoaring pl n => pl.length < 2 ^ 64 ∧ n < 2 ^ 32
  | .removeRoaring pl n => pl.length < 2 ^ 64 ∧ n < 2 ^ 32

theorem length_frame (H : Bytes → Nat) (typ val : Nat) (tail extra : Bytes) :
    (frame H typ val tail extra).length = 13 + tail.length := by
  simp [frame, length_le]; omega

theorem length_encode (H : Bytes → Nat) (o : LOp) : (encode H o).length = o.size := by
  cases o <;> simp only [encode, LOp.size, length_frame, length_flatMap_le8, length_le, length_append,
    length_nil] <;> omega

/-- The parts `decode` reads out of `frame ... ++ more`. -/
theorem frame_parts (H : Bytes → Nat) (typ val : Nat) (tail extra more : Bytes)
    (hval : val < 2 ^ 64) (hH : ∀ bs, H bs < 2 ^ 32) :
    let data := frame H typ val tail extra ++ more
    data.headD 0 = typ ∧ unle ((data.drop 1).take 8) = val ∧
    unle ((data.drop 9).take 4) = H ((typ :: le 8 val) ++ tail ++ extra) ∧
    data.take 9 = typ :: le 8 val ∧ data.drop 13 = tail ++ more := by
  simp only [frame]
  have h8 := length_le 8 val
  have h4 := length_le 4 (H ((typ :: le 8 val) ++ tail ++ extra))
  refine ⟨rfl, ?_, ?_, ?_, ?_⟩
  · simp only [cons_append, drop_succ_cons, drop_zero, append_assoc]
    rw [take_append_len _ _ 8 h8, unle_le 8 val (by omega)]
  · have : (typ :: le 8 val).length = 9 := by simp only [length_cons, h8]
    rw [append_assoc, append_assoc, drop_append_len _ _ 9 this, take_append_len _ _ 4 h4,
      unle_le 4 _ (by have := hH ((typ :: le 8 val) ++ tail ++ extra); omega)]
  · have : (typ :: le 8 val).length = 9 := by simp only [length_cons, h8]
    rw [append_assoc, append_assoc, take_append_len _ _ 9 this]
  · have : ((typ :: le 8 val) ++ le 4 (H ((typ :: le 8 val) ++ tail ++ extra))).length = 13 := by
      simp only [length_append, length_cons, h8, h4]
    rw [append_assoc, drop_append_len _ _ 13 this]

theorem decode_encode (H : Bytes → Nat) (hH : ∀ bs, H bs < 2 ^ 32) (o : LOp) (hwf : OpWF o) (more : Bytes) :
    decode H (encode H o ++ more) = some (o, o.size) := by
  have hlen : (encode H o ++ more).length = o.size + more.length := by rw [length_append, length_encode]
  have h13 : ¬ (encode H o ++ more).length < 13 := by
    rw [hlen]; cases o <;> simp only [LOp.size] <;> omega
  unfold decode
  rw [if_neg h13, hlen]
  cases o with
  | add v =>
    obtain ⟨p1, p2, p3, p4, p5⟩ := frame_parts H 0 v [] [] more hwf hH
    simp only [encode]
    rw [p1, p2, p3, p4, p5]
    simp [decodeParts, LOp.size]
  | remove v =>
    obtain ⟨p1, p2, p3, p4, p5⟩ := frame_parts H 1 v [] [] more hwf hH
    simp only [encode]
    rw [p1, p2, p3, p4, p5]
    simp [decodeParts, LOp.size]
  | addBatch vs =>
    obtain ⟨hv, hn⟩ := hwf
    obtain ⟨p1, p2, p3, p4, p5⟩ := frame_parts H 2 vs.length (vs.flatMap (le 8)) [] more (by omega) hH
    simp only [encode]
    rw [p1, p2, p3, p4, p5]
    have h2 : ¬ vs.length > 2 ^ 59 := by omega
    have hbody : (vs.flatMap (le 8) ++ more).take (vs.length * 8) = vs.flatMap (le 8) :=
      take_append_len _ _ _ (length_flatMap_le8 vs)
    have hun : unchunk vs.length (vs.flatMap (le 8)) = vs := by
      have := unchunk_flatMap vs [] hv; simpa using this
    simp only [decodeParts, LOp.size]
    rw [hbody, hun]
    simp [h2]
  | removeBatch vs =>
    obtain ⟨hv, hn⟩ := hwf
    obtain ⟨p1, p2, p3, p4, p5⟩ := frame_parts H 3 vs.length (vs.flatMap (le 8)) [] more (by omega) hH
    simp only [encode]
    rw [p1, p2, p3, p4, p5]
    have h2 : ¬ vs.length > 2 ^ 59 := by omega
    have hbody : (vs.flatMap (le 8) ++ more).take (vs.length * 8) = vs.flatMap (le 8) :=
      take_append_len _ _ _ (length_flatMap_le8 vs)
    have hun : unchunk vs.length (vs.flatMap (le 8)) = vs := by
      have := unchunk_flatMap vs [] hv; simpa using this
    simp only [decodeParts, LOp.size]
    rw [hbody, hun]
    simp [h2]
  | addRoaring pl n =>
    obtain ⟨hp, hn⟩ := hwf
    obtain ⟨p1, p2, p3, p4, p5⟩ := frame_parts H 4 pl.length (le 4 n) pl (pl ++ more) hp hH
    simp only [encode, append_assoc]
    rw [p1, p2, p3, p4, p5]
    have hopn : unle ((le 4 n ++ (pl ++ more)).take 4) = n := by
      rw [take_append_len _ _ 4 (length_le 4 n), unle_le 4 n (by omega)]
    have hbody : (le 4 n ++ (pl ++ more)).take (4 + pl.length) = le 4 n ++ pl := by
      rw [← append_assoc]; exact take_append_len _ _ _ (by simp only [length_append, length_le])
    have hpl : ((le 4 n ++ (pl ++ more)).drop 4).take pl.length = pl := by
      rw [drop_append_len _ _ 4 (length_le 4 n)]; exact take_append_len _ _ _ rfl
    simp only [decodeParts, LOp.size]
    rw [hopn, hbody, hpl]
    simp
  | removeRoaring pl n =>
    obtain ⟨hp, hn⟩ := hwf
    obtain ⟨p1, p2, p3, p4, p5⟩ := frame_parts H 5 pl.length (le 4 n) pl (pl ++ more) hp hH
    simp only [encode, append_assoc]
    rw [p1, p2, p3, p4, p5]
    have hopn : unle ((le 4 n ++ (pl ++ more)).take 4) = n := by
      rw [take_append_len _ _ 4 (length_le 4 n), unle_le 4 n (by omega)]
    have hbody : (le 4 n ++ (pl ++ more)).take (4 + pl.length) = le 4 n ++ pl := by
      rw [← append_assoc]; exact take_append_len _ _ _ (by simp only [length_append, length_le])
    have hpl : ((le 4 n ++ (pl ++ more)).drop 4).take pl.length = pl := by
      rw [drop_append_len _ _ 4 (length_le 4 n)]; exact take_append_len _ _ _ rfl
    simp only [decodeParts, LOp.size]
    rw [hopn, hbody, hpl]
    simp

end PV.C05
