/-
C05 helper lemmas: the replay loop over a concatenation of encoded ops; ops refine the set
semantics; the logged mutation paths extend the log consistently.
-/
import PV.C05.Lemmas
import PV.C02.LemmasReads
import PV.C02.LemmasSpecCount
namespace PV.C05
open List PV.C02

variable {σ : Type}

def encodeAll (H : Bytes → Nat) (ol : List LOp) : Bytes := ol.flatMap (encode H)

/-- What the replay loop computes for a list of ops. -/
def foldOps (C : Coll σ) (p : Policy) (dec : Bytes → Option (List (Nat × Cell)))
    (st : BM σ × Nat × Nat) (ol : List LOp) : BM σ × Nat × Nat :=
  ol.foldl (fun st o => (applyOp C p dec st.1 o, st.2.1 + 1, st.2.2 + o.count)) st

theorem size_pos (o : LOp) : 13 ≤ o.size := by cases o <;> simp only [LOp.size] <;> omega

theorem replay_encodeAll (C : Coll σ) (p : Policy) (dec : Bytes → Option (List (Nat × Cell)))
    (H : Bytes → Nat) (hH : ∀ bs, H bs < 2 ^ 32) (ol : List LOp) (hwf : ∀ o ∈ ol, OpWF o) :
    ∀ (fuel : Nat) (st : BM σ × Nat × Nat), (encodeAll H ol).length ≤ fuel →
    replay C p dec H fuel st (encodeAll H ol) = some (foldOps C p dec st ol) := by
  induction ol with
  | nil =>
    intro fuel st _
    cases fuel <;> simp [encodeAll, replay, foldOps]
  | cons o t ih =>
    intro fuel st hf
    have henc : encodeAll H (o :: t) = encode H o ++ encodeAll H t := by
      unfold encodeAll; rw [flatMap_cons]
    rw [henc] at hf ⊢
    have hlen := length_encode H o
    have hpos := size_pos o
    rw [length_append, hlen] at hf
    cases fuel with
    | zero => omega
    | succ f =>
      have hne : (encode H o ++ encodeAll H t).isEmpty = false := by
        cases h : encode H o ++ encodeAll H t with
        | nil => have := congrArg length h; rw [length_append, hlen] at this; simp at this; omega
        | cons _ _ => rfl
      unfold replay
      rw [hne]
      simp only [Bool.false_eq_true, ↓reduceIte]
      rw [decode_encode H hH o (hwf o (by simp)) (encodeAll H t)]
      simp only
      rw [drop_append_len _ _ _ hlen]
      rw [ih (fun o' ho' => hwf o' (by simp [ho'])) f _ (by omega)]
      rfl

/-- Ops whose effect on the set is defined: values are uint64, payloads decode to well-formed data. -/
def OpValid (dec : Bytes → Option (List (Nat × Cell))) : LOp → Prop
  | .add v => v < 2 ^ 64
  | .remove v => v < 2 ^ 64
  | .addBatch vs => ∀ v ∈ vs, v < 2 ^ 64
  | .removeBatch vs => ∀ v ∈ vs, v < 2 ^ 64
  | .addRoaring pl _ => ∀ gs, dec pl = some gs → GroupsOK gs
  | .removeRoaring pl _ => ∀ gs, dec pl = some gs → GroupsOK gs

theorem applyOp_refines (C : Coll σ) (ok : CollOK C) (p : Policy) (dec : Bytes → Option (List (Nat × Cell)))
    (b : BM σ) (o : LOp) (hg : Good C ok b) (hv : OpValid dec o) :
    Good C ok (applyOp C p dec b o) ∧ slice C (applyOp C p dec b o) = specApply dec (slice C b) o := by
  cases o with
  | add v => obtain ⟨h1, h2, _⟩ := directAdd_spec ok p b v hg hv; exact ⟨h1, h2⟩
  | remove v => obtain ⟨h1, h2, _⟩ := bmRemove_spec ok p b v hg hv; exact ⟨h1, h2⟩
  | addBatch vs => obtain ⟨h1, h2, _⟩ := directAddN_spec ok p b vs hg hv; exact ⟨h1, h2⟩
  | removeBatch vs => obtain ⟨h1, h2, _⟩ := directRemoveN_spec ok p b vs hg hv; exact ⟨h1, h2⟩
  | addRoaring pl n =>
    simp only [applyOp, specApply]
    cases hd : dec pl with
    | none => exact ⟨hg, rfl⟩
    | some gs =>
      obtain ⟨h1, h2, _⟩ := importSet_fold ok p gs b.c b.h 0 hg (hv gs hd)
      exact ⟨h1, h2⟩
  | removeRoaring pl n =>
    simp only [applyOp, specApply]
    cases hd : dec pl with
    | none => exact ⟨hg, rfl⟩
    | some gs =>
      obtain ⟨h1, h2, _⟩ := importClear_fold ok p gs b.c b.h 0 hg (hv gs hd)
      exact ⟨h1, h2⟩

theorem foldOps_refines (C : Coll σ) (ok : CollOK C) (p : Policy) (dec : Bytes → Option (List (Nat × Cell)))
    (ol : List LOp) (hv : ∀ o ∈ ol, OpValid dec o) :
    ∀ (b : BM σ) (n m : Nat), Good C ok b →
    Good C ok (foldOps C p dec (b, n, m) ol).1 ∧
    slice C (foldOps C p dec (b, n, m) ol).1 = ol.foldl (specApply dec) (slice C b) ∧
    (foldOps C p dec (b, n, m) ol).2.1 = n + ol.length ∧
    (foldOps C p dec (b, n, m) ol).2.2 = m + (ol.map LOp.count).sum := by
  induction ol with
  | nil => intro b n m hg; exact ⟨hg, rfl, rfl, rfl⟩
  | cons o t ih =>
    intro b n m hg
    obtain ⟨a1, a2⟩ := applyOp_refines C ok p dec b o hg (hv o (by simp))
    obtain ⟨i1, i2, i3, i4⟩ := ih (fun o' ho' => hv o' (by simp [ho'])) _ (n + 1) (m + o.count) a1
    unfold foldOps at *
    simp only [foldl_cons, map_cons, sum_cons, length_cons]
    refine ⟨i1, ?_, ?_, ?_⟩
    · rw [i2, a2]
    · rw [i3]; omega
    · rw [i4]; omega

/-! ### Set-level facts about what the batch ops log -/

theorem addAll_newly (s : Spec.S) (hs : Asc s) (vs : List Nat) :
    Spec.addAll s (Spec.newly s vs) = Spec.addAll s vs := by
  obtain ⟨_, n2, _⟩ := Spec.newly_spec s hs vs
  apply asc_ext (Spec.asc_addAll hs) (Spec.asc_addAll hs)
  intro v
  rw [Spec.mem_addAll, Spec.mem_addAll, n2 v]
  constructor
  · rintro (h | ⟨h, _⟩)
    · exact Or.inl h
    · exact Or.inr h
  · rintro (h | h)
    · exact Or.inl h
    · by_cases hm : v ∈ s
      · exact Or.inl hm
      · exact Or.inr ⟨h, hm⟩

theorem removeAll_gone (s : Spec.S) (hs : Asc s) (vs : List Nat) :
    Spec.removeAll s (Spec.gone s vs) = Spec.removeAll s vs := by
  obtain ⟨_, n2, _⟩ := Spec.gone_spec s hs vs
  apply asc_ext (Spec.asc_removeAll hs) (Spec.asc_removeAll hs)
  intro v
  rw [Spec.mem_removeAll, Spec.mem_removeAll, n2 v]
  constructor
  · rintro ⟨h1, h2⟩; exact ⟨h1, fun h => h2 ⟨h, h1⟩⟩
  · rintro ⟨h1, h2⟩; exact ⟨h1, fun h => h2 h.1⟩

theorem length_newly_le (s : Spec.S) (vs : List Nat) : (Spec.newly s vs).length ≤ vs.length := by
  induction vs generalizing s with
  | nil => simp [Spec.newly]
  | cons x t ih =>
    rw [Spec.newly_cons]
    split
    · have := ih s; simp only [length_cons]; omega
    · have := ih (insertAsc x s); simp only [length_cons]; omega

theorem length_gone_le (s : Spec.S) (vs : List Nat) : (Spec.gone s vs).length ≤ vs.length := by
  induction vs generalizing s with
  | nil => simp [Spec.gone]
  | cons x t ih =>
    rw [Spec.gone_cons]
    split
    · have := ih (eraseAsc x s); simp only [length_cons]; omega
    · have := ih s; simp only [length_cons]; omega

/-! ### The log invariant -/

/-- The live logged bitmap `st` with snapshot set `snap` is explained by the op list `ghost`. -/
structure LInvG (C : Coll σ) (ok : CollOK C) (H : Bytes → Nat) (dec : Bytes → Option (List (Nat × Cell)))
    (snap : Spec.S) (st : LB σ) (ghost : List LOp) : Prop where
  good : Good C ok st.bm
  log : st.log = encodeAll H ghost
  wf : ∀ o ∈ ghost, OpWF o ∧ OpValid dec o
  set : slice C st.bm = ghost.foldl (specApply dec) snap
  ops : st.ops = ghost.length
  opN : st.opN = (ghost.map LOp.count).sum

/-- Appending one op whose set effect is what the bitmap did. -/
theorem linv_write (C : Coll σ) (ok : CollOK C) (H : Bytes → Nat) (dec : Bytes → Option (List (Nat × Cell)))
    (snap : Spec.S) (st : LB σ) (ghost : List LOp) (o : LOp) (bm' : BM σ)
    (hi : LInvG C ok H dec snap st ghost) (hwf : OpWF o) (hv : OpValid dec o)
    (hg : Good C ok bm') (hs : slice C bm' = specApply dec (slice C st.bm) o) :
    LInvG C ok H dec snap { (writeOp H st o) with bm := bm' } (ghost ++ [o]) where
  good := hg
  log := by
    show st.log ++ encode H o = _
    rw [hi.log]; unfold encodeAll; rw [flatMap_append]; simp
  wf := by
    intro o' ho'
    rcases mem_append.mp ho' with h | h
    · exact hi.wf o' h
    · simp at h; subst h; exact ⟨hwf, hv⟩
  set := by
    show slice C bm' = _
    rw [foldl_append, hs, hi.set]; rfl
  ops := by show st.ops + 1 = _; rw [hi.ops]; simp
  opN := by show st.opN + o.count = _; rw [hi.opN]; simp

end PV.C05
