/-
pm_c05: model driver for C05.  One case = one logged bitmap history.  Lines:

  kind slice|btree               collection of the live bitmap (first line)                 → ok
  add v ... / remove v ...       Bitmap.Add / Remove with an OpWriter                       → b=<changed> log=<hex> ops=<n> opN=<n>
  addn v ... / removen v ...     AddN / RemoveN                                             → n=<changed> a=[..] log=<hex> ops=<n> opN=<n>
  import set|clear v,v,.. <hex>  ImportRoaringBits(payload=<hex>, clear, log=true); the
                                 payload decodes to exactly the listed values               → n=<changed> log=<hex> ops=<n> opN=<n>
  snap                           re-encode: snapshot := WriteTo(live); log := empty;
                                 SetOps(0,0)                                                → ops=0 opN=0
  check slice|btree              UnmarshalBinary(snapshot ++ log) into a fresh bitmap       → dec=[set] <ops> <opN> | live=[set] <ops> <opN>
  reopen slice|btree             same, and the decoded bitmap becomes the live one
                                 (its OpWriter keeps appending to the same log)             → same as check

`log=<hex>` are the bytes the line appended to the OpWriter (model: `encode fnv32a`).  `#spec`
is computed from the abstract set: the decoded state must equal the live set, `ops` = number of
operations logged since the snapshot, `opN` = the sum of their documented change counts.
-/
import PV.Common.Proto
import PV.C02.Model
import PV.C02.Spec
import PV.C05.Model
open PV.Proto PV.C02 PV.C05

def pol : Policy :=
  ⟨fun _ _ => false, fun _ _ => false, fun _ _ => false, fun _ => false, fun _ => false, fun _ _ => false⟩

def hexDigit (n : Nat) : Char := if n < 10 then Char.ofNat (48 + n) else Char.ofNat (87 + n)
def hex (bs : Bytes) : String :=
  if bs.isEmpty then "-" else String.ofList (bs.flatMap (fun b => [hexDigit (b / 16), hexDigit (b % 16)]))

def unhexDigit (c : Char) : Option Nat :=
  if '0' ≤ c ∧ c ≤ '9' then some (c.toNat - 48)
  else if 'a' ≤ c ∧ c ≤ 'f' then some (c.toNat - 87) else none

def unhexAux : List Char → Option Bytes
  | [] => some []
  | [_] => none
  | a :: b :: r => do
    let x ← unhexDigit a
    let y ← unhexDigit b
    let t ← unhexAux r
    pure ((x * 16 + y) :: t)

def unhex (s : String) : Option Bytes := if s = "-" then some [] else unhexAux s.toList

abbrev Tbl := List (Bytes × List (Nat × Cell))

def decTbl (t : Tbl) (pl : Bytes) : Option (List (Nat × Cell)) := t.lookup pl

structure D (σ : Type) where
  live : LB σ
  snap : Spec.S
  s : Spec.S
  sops : Nat
  sopN : Nat
  tbl : Tbl

inductive St where
  | none
  | bt (d : D BT)
  | sc (d : D SC)

def freshD {σ : Type} (C : Coll σ) : D σ := ⟨⟨BM.init C, [], 0, 0⟩, [], [], 0, 0, []⟩

/-- A bitmap of collection `C` holding exactly the snapshot's set (the result of decoding the
snapshot part of the file; ops = opN = 0). -/
def loadSet {σ : Type} (C : Coll σ) (s : Spec.S) : BM σ := (importBits C pol false (BM.init C) (groupVals s)).1

def counters (ops opN : Nat) : String := s!"ops={ops} opN={opN}"

def logged {σ : Type} (old : LB σ) (new : LB σ) : String := hex (new.log.drop old.log.length)

def stateStr (set : List Nat) (ops opN : Nat) : String := s!"{showNats set} {ops} {opN}"

/-- Decode snapshot ++ log into a fresh bitmap of collection `C'`. -/
def decodeInto {σ σ' : Type} (C : Coll σ) (C' : Coll σ') (d : D σ) : Option (BM σ' × Nat × Nat) :=
  let _ := C
  replay C' pol (decTbl d.tbl) fnv32a (d.live.log.length + 1) (loadSet C' d.snap, 0, 0) d.live.log

def checkStr {σ σ' : Type} (C : Coll σ) (C' : Coll σ') (d : D σ) : Ans :=
  let liveM := stateStr (slice C d.live.bm) d.live.ops d.live.opN
  let liveS := stateStr d.s d.sops d.sopN
  match decodeInto C C' d with
  | none => ans2 s!"dec=err | live={liveM}" s!"dec={liveS} | live={liveS}" "c05-check"
  | some r => ans2 s!"dec={stateStr (slice C' r.1) r.2.1 r.2.2} | live={liveM}" s!"dec={liveS} | live={liveS}" "c05-check"

def stepD {σ : Type} (C : Coll σ) (d : D σ) (ws : List String) : D σ × Ans :=
  let bad := (d, ans "bad-op")
  match ws with
  | "add" :: vs => match natList? vs with
    | some vs =>
      let r := lAdd C pol fnv32a d.live vs
      let sr := Spec.step d.s (.add vs)
      let d' : D σ := { d with live := r.1, s := sr.1, sops := d.sops + vs.length, sopN := d.sopN + vs.length }
      let lg := logged d.live r.1
      (d', ans2 s!"b={showBool r.2} log={lg} {counters r.1.ops r.1.opN}"
              s!"b={showBool (vs.any fun v => !d.s.contains v)} log={lg} {counters d'.sops d'.sopN}" "c05-add")
    | none => bad
  | "remove" :: vs => match natList? vs with
    | some vs =>
      let r := lRemove C pol fnv32a d.live vs
      let sr := Spec.step d.s (.remove vs)
      let d' : D σ := { d with live := r.1, s := sr.1, sops := d.sops + vs.length, sopN := d.sopN + vs.length }
      let lg := logged d.live r.1
      (d', ans2 s!"b={showBool r.2} log={lg} {counters r.1.ops r.1.opN}"
              s!"b={showBool (vs.any fun v => d.s.contains v)} log={lg} {counters d'.sops d'.sopN}" "c05-remove")
    | none => bad
  | "addn" :: vs => match natList? vs with
    | some vs =>
      let r := lAddN C pol fnv32a d.live vs
      let pre := Spec.newly d.s vs
      let d' : D σ := { d with live := r.1, s := Spec.addAll d.s vs,
                               sops := if vs.isEmpty then d.sops else d.sops + 1, sopN := d.sopN + pre.length }
      let lg := logged d.live r.1
      (d', ans2 s!"n={r.2.length} a={showNats (r.2 ++ vs.drop r.2.length)} log={lg} {counters r.1.ops r.1.opN}"
              s!"n={pre.length} a={showNats (pre ++ vs.drop pre.length)} log={lg} {counters d'.sops d'.sopN}" "c05-addn")
    | none => bad
  | "removen" :: vs => match natList? vs with
    | some vs =>
      let r := lRemoveN C pol fnv32a d.live vs
      let pre := Spec.gone d.s vs
      let d' : D σ := { d with live := r.1, s := Spec.removeAll d.s vs,
                               sops := if vs.isEmpty then d.sops else d.sops + 1, sopN := d.sopN + pre.length }
      let lg := logged d.live r.1
      (d', ans2 s!"n={r.2.length} a={showNats (r.2 ++ vs.drop r.2.length)} log={lg} {counters r.1.ops r.1.opN}"
              s!"n={pre.length} a={showNats (pre ++ vs.drop pre.length)} log={lg} {counters d'.sops d'.sopN}" "c05-removen")
    | none => bad
  | ["import", mode, csv, hx] =>
    match csvNats? csv, unhex hx with
    | some vs, some pl =>
      if mode ≠ "set" ∧ mode ≠ "clear" then bad else
      let clear := mode = "clear"
      let gs := groupVals vs
      let r := lImport C pol fnv32a d.live clear pl gs
      let sr := Spec.step d.s (if clear then .importClear gs else .importSet gs)
      let n := match sr.2 with | .imported n => n | _ => 0
      let d' : D σ := { d with live := r.1, s := sr.1, sops := d.sops + 1, sopN := d.sopN + n,
                               tbl := (pl, gs) :: d.tbl }
      let lg := logged d.live r.1
      (d', ans2 s!"n={r.2} log={lg} {counters r.1.ops r.1.opN}"
              s!"n={n} log={lg} {counters d'.sops d'.sopN}" "c05-import")
    | _, _ => bad
  | ["snap"] =>
    let d' : D σ := { d with live := { d.live with log := [], ops := 0, opN := 0 }, snap := d.s, sops := 0, sopN := 0 }
    (d', ans2 (counters 0 0) (counters 0 0) "c05-snap")
  | _ => bad

def stepSt (st : St) (ws : List String) : St × Ans :=
  match ws with
  | ["kind", "btree"] => (.bt (freshD btColl), ans "ok")
  | ["kind", "slice"] => (.sc (freshD scColl), ans "ok")
  | [op, kind] =>
    if (op = "check" ∨ op = "reopen") ∧ (kind = "btree" ∨ kind = "slice") then
      match st with
      | .none => (st, ans "bad-op:no-kind")
      | .bt d =>
        if kind = "btree" then
          let a := checkStr btColl btColl d
          if op = "check" then (st, a) else
          match decodeInto btColl btColl d with
          | some r => (.bt { d with live := ⟨r.1, d.live.log, r.2.1, r.2.2⟩ }, a)
          | none => (st, a)
        else
          let a := checkStr btColl scColl d
          if op = "check" then (st, a) else
          match decodeInto btColl scColl d with
          | some r => (.sc ⟨⟨r.1, d.live.log, r.2.1, r.2.2⟩, d.snap, d.s, d.sops, d.sopN, d.tbl⟩, a)
          | none => (st, a)
      | .sc d =>
        if kind = "slice" then
          let a := checkStr scColl scColl d
          if op = "check" then (st, a) else
          match decodeInto scColl scColl d with
          | some r => (.sc { d with live := ⟨r.1, d.live.log, r.2.1, r.2.2⟩ }, a)
          | none => (st, a)
        else
          let a := checkStr scColl btColl d
          if op = "check" then (st, a) else
          match decodeInto scColl btColl d with
          | some r => (.bt ⟨⟨r.1, d.live.log, r.2.1, r.2.2⟩, d.snap, d.s, d.sops, d.sopN, d.tbl⟩, a)
          | none => (st, a)
    else
      match st with
      | .none => (st, ans "bad-op:no-kind")
      | .bt d => let r := stepD btColl d ws; (.bt r.1, r.2)
      | .sc d => let r := stepD scColl d ws; (.sc r.1, r.2)
  | _ =>
    match st with
    | .none => (st, ans "bad-op:no-kind")
    | .bt d => let r := stepD btColl d ws; (.bt r.1, r.2)
    | .sc d => let r := stepD scColl d ws; (.sc r.1, r.2)

def main : IO Unit := run St.none stepSt
