/-
pm_c05: model driver for C05.  One case = one logged bitmap history.  Lines:

  kind slice|btree               collection of the live bitmap (first line)                 → ok
  failat j k                     arm the OpWriter: its j-th next Write (0 = the next one) returns
                                 an error after taking k bytes (k = 0: clean failure)       → ok
  add v ... / remove v ...       Bitmap.Add / Remove with an OpWriter                       → b=<changed> log=<hex> ops=<n> opN=<n>
  addn v ... / removen v ...     AddN / RemoveN                                             → n=<changed> a=[..] log=<hex> ops=<n> opN=<n>
  import set|clear v,v,.. <hex>  ImportRoaringBits(payload=<hex>, clear, log=true); the
                                 payload decodes to exactly the listed values               → n=<changed> log=<hex> ops=<n> opN=<n>
  snap                           re-encode: snapshot := WriteTo(live); log := empty;
                                 SetOps(0,0)                                                → ops=0 opN=0
  check slice|btree              UnmarshalBinary(snapshot ++ log) into a fresh bitmap       → dec=[set] <ops> <opN> | live=[set] <ops> <opN>
  reopen slice|btree             same, and the decoded bitmap becomes the live one
                                 (its OpWriter keeps appending to the same log)             → same as check

Every mutation line ends with `live=[set]` (the live bitmap read back) and carries `err=write`
when the call returned an error.  Tags `c05-import-write-fails` (an import whose write failed:
applied but not logged) and `c05-short-write` (bytes of a torn op left in the log) mark the known
deviations from "a failed write changes nothing"; they stick to the rest of the case.
`log=<hex>` are the bytes the line appended to the OpWriter (model: `encode fnv32a`).  `#spec`
is computed from the abstract set: the decoded state must equal the live set, `ops` = number of
operations logged since the snapshot, `opN` = the sum of their documented change counts.
-/
import PV.Common.Proto
import PV.C02.Model
import PV.C02.Spec
import PV.C05.Model
open PV.Proto PV.C02 PV.C05

def pol : Policy :=
  ⟨fun _ _ => false, fun _ _ => false, fun _ _ => false, fun _ => false, fun _ => false, fun _ _ => false⟩

def hexDigit (n : Nat) : Char := if n < 10 then Char.ofNat (48 + n) else Char.ofNat (87 + n)
def hex (bs : Bytes) : String :=
  if bs.isEmpty then "-" else String.ofList (bs.flatMap (fun b => [hexDigit (b / 16), hexDigit (b % 16)]))

def unhexDigit (c : Char) : Option Nat :=
  if '0' ≤ c ∧ c ≤ '9' then some (c.toNat - 48)
  else if 'a' ≤ c ∧ c ≤ 'f' then some (c.toNat - 87) else none

def unhexAux : List Char → Option Bytes
  | [] => some []
  | [_] => none
  | a :: b :: r => do
    let x ← unhexDigit a
    let y ← unhexDigit b
    let t ← unhexAux r
    pure ((x * 16 + y) :: t)

def unhex (s : String) : Option Bytes := if s = "-" then some [] else unhexAux s.toList

abbrev Tbl := List (Bytes × List (Nat × Cell))

def decTbl (t : Tbl) (pl : Bytes) : Option (List (Nat × Cell)) := t.lookup pl

structure D (σ : Type) where
  live : LB σ
  snap : Spec.S
  s : Spec.S
  sops : Nat
  sopN : Nat
  tbl : Tbl
  /-- armed writer failure: the `j`-th next Write fails after `k` bytes -/
  pend : Option (Nat × Nat) := none
  /-- tag of a known deviation this case has run into (sticky) -/
  poison : String := ""

inductive St where
  | none
  | bt (d : D BT)
  | sc (d : D SC)

def freshD {σ : Type} (C : Coll σ) : D σ := { live := ⟨BM.init C, [], 0, 0⟩, snap := [], s := [], sops := 0, sopN := 0, tbl := [] }

/-- Outcomes of the next `n` Write calls and what stays armed afterwards. -/
def outsFor (pend : Option (Nat × Nat)) (n : Nat) : List WOut × Option (Nat × Nat) × Option (Nat × Nat) :=
  match pend with
  | none => ([], none, none)
  | some (j, k) => if j < n then (List.replicate j .ok ++ [.fail k], none, some (j, k)) else ([], some (j - n, k), none)

def tagOf {σ : Type} (d : D σ) (t : String) : String := if d.poison = "" then t else d.poison

def errS (e : Bool) : String := if e then " err=write" else ""


/-- A bitmap of collection `C` holding exactly the snapshot's set (the result of decoding the
snapshot part of the file; ops = opN = 0). -/
def loadSet {σ : Type} (C : Coll σ) (s : Spec.S) : BM σ := (importBits C pol false (BM.init C) (groupVals s)).1

def counters (ops opN : Nat) : String := s!"ops={ops} opN={opN}"

def logged {σ : Type} (old : LB σ) (new : LB σ) : String := hex (new.log.drop old.log.length)

def stateStr (set : List Nat) (ops opN : Nat) : String := s!"{showNats set} {ops} {opN}"

/-- Decode snapshot ++ log into a fresh bitmap of collection `C'`. -/
def decodeInto {σ σ' : Type} (C : Coll σ) (C' : Coll σ') (d : D σ) : Option (BM σ' × Nat × Nat) :=
  let _ := C
  replay C' pol (decTbl d.tbl) fnv32a (d.live.log.length + 1) (loadSet C' d.snap, 0, 0) d.live.log

def checkStr {σ σ' : Type} (C : Coll σ) (C' : Coll σ') (d : D σ) : Ans :=
  let liveM := stateStr (slice C d.live.bm) d.live.ops d.live.opN
  let liveS := stateStr d.s d.sops d.sopN
  match decodeInto C C' d with
  | none => ans2 s!"dec=err | live={liveM}" s!"dec={liveS} | live={liveS}" (tagOf d "c05-check")
  | some r => ans2 s!"dec={stateStr (slice C' r.1) r.2.1 r.2.2} | live={liveM}" s!"dec={liveS} | live={liveS}" (tagOf d "c05-check")

def stepD {σ : Type} (C : Coll σ) (d : D σ) (ws : List String) : D σ × Ans :=
  let bad := (d, ans "bad-op")
  match ws with
  | ["failat", j, k] => match j.toNat?, k.toNat? with
    | some j, some k => ({ d with pend := some (j, k) }, ans "ok")
    | _, _ => bad
  | "add" :: vs => match natList? vs with
    | some vs =>
      let o := outsFor d.pend vs.length
      let r := lAddW C pol fnv32a d.live false vs o.1
      -- what the specification allows: the values before the failing write, logged and applied
      let nOk := match o.2.2 with | some (j, _) => j | none => vs.length
      let clean := lAddW C pol fnv32a d.live false vs (o.1.map (fun w => match w with | .fail _ => .fail 0 | x => x))
      let short : Bool := match o.2.2 with | some (_, k) => decide (k > 0) | none => false
      let d' : D σ := { d with live := r.1, s := Spec.addAll d.s (vs.take nOk), sops := d.sops + nOk, sopN := d.sopN + nOk,
                               pend := o.2.1, poison := if d.poison = "" ∧ short = true then "c05-short-write" else d.poison }
      let sb := if o.2.2.isSome then false else (vs.any fun v => !d.s.contains v)
      (d', ans2 s!"b={showBool r.2.1}{errS r.2.2} log={logged d.live r.1} {counters r.1.ops r.1.opN} live={showNats (slice C r.1.bm)}"
              s!"b={showBool sb}{errS o.2.2.isSome} log={logged d.live clean.1} {counters d'.sops d'.sopN} live={showNats d'.s}" (tagOf d' "c05-add"))
    | none => bad
  | "remove" :: vs => match natList? vs with
    | some vs =>
      let o := outsFor d.pend vs.length
      let r := lRemoveW C pol fnv32a d.live false vs o.1
      let nOk := match o.2.2 with | some (j, _) => j | none => vs.length
      let clean := lRemoveW C pol fnv32a d.live false vs (o.1.map (fun w => match w with | .fail _ => .fail 0 | x => x))
      let short : Bool := match o.2.2 with | some (_, k) => decide (k > 0) | none => false
      let d' : D σ := { d with live := r.1, s := Spec.removeAll d.s (vs.take nOk), sops := d.sops + nOk, sopN := d.sopN + nOk,
                               pend := o.2.1, poison := if d.poison = "" ∧ short = true then "c05-short-write" else d.poison }
      let sb := if o.2.2.isSome then false else (vs.any fun v => d.s.contains v)
      (d', ans2 s!"b={showBool r.2.1}{errS r.2.2} log={logged d.live r.1} {counters r.1.ops r.1.opN} live={showNats (slice C r.1.bm)}"
              s!"b={showBool sb}{errS o.2.2.isSome} log={logged d.live clean.1} {counters d'.sops d'.sopN} live={showNats d'.s}" (tagOf d' "c05-remove"))
    | none => bad
  | "addn" :: vs => match natList? vs with
    | some vs =>
      let o := outsFor d.pend (if vs.isEmpty then 0 else 1)
      let out := o.1.headD .ok
      let r := lAddNW C pol fnv32a d.live vs out
      let failed := o.2.2.isSome
      let short : Bool := match o.2.2 with | some (_, k) => decide (k > 0) | none => false
      let pre := Spec.newly d.s vs
      let d' : D σ := if failed then { d with live := r.1, pend := o.2.1,
                                              poison := if d.poison = "" ∧ short = true then "c05-short-write" else d.poison }
        else { d with live := r.1, s := Spec.addAll d.s vs, pend := o.2.1,
                      sops := if vs.isEmpty then d.sops else d.sops + 1, sopN := d.sopN + pre.length }
      let slog := if failed then "-" else logged d.live r.1
      (d', ans2 s!"n={r.2.2.1}{errS r.2.2.2} a={showNats r.2.1} log={logged d.live r.1} {counters r.1.ops r.1.opN} live={showNats (slice C r.1.bm)}"
              s!"n={if failed then 0 else pre.length}{errS failed} a={showNats (pre ++ vs.drop pre.length)} log={slog} {counters d'.sops d'.sopN} live={showNats d'.s}" (tagOf d' "c05-addn"))
    | none => bad
  | "removen" :: vs => match natList? vs with
    | some vs =>
      let o := outsFor d.pend (if vs.isEmpty then 0 else 1)
      let out := o.1.headD .ok
      let r := lRemoveNW C pol fnv32a d.live vs out
      let failed := o.2.2.isSome
      let short : Bool := match o.2.2 with | some (_, k) => decide (k > 0) | none => false
      let pre := Spec.gone d.s vs
      let d' : D σ := if failed then { d with live := r.1, pend := o.2.1,
                                              poison := if d.poison = "" ∧ short = true then "c05-short-write" else d.poison }
        else { d with live := r.1, s := Spec.removeAll d.s vs, pend := o.2.1,
                      sops := if vs.isEmpty then d.sops else d.sops + 1, sopN := d.sopN + pre.length }
      let slog := if failed then "-" else logged d.live r.1
      (d', ans2 s!"n={r.2.2.1}{errS r.2.2.2} a={showNats r.2.1} log={logged d.live r.1} {counters r.1.ops r.1.opN} live={showNats (slice C r.1.bm)}"
              s!"n={if failed then 0 else pre.length}{errS failed} a={showNats (pre ++ vs.drop pre.length)} log={slog} {counters d'.sops d'.sopN} live={showNats d'.s}" (tagOf d' "c05-removen"))
    | none => bad
  | ["import", mode, csv, hx] =>
    match csvNats? csv, unhex hx with
    | some vs, some pl =>
      if mode ≠ "set" ∧ mode ≠ "clear" then bad else
      let clear := mode = "clear"
      let gs := groupVals vs
      let o := outsFor d.pend 1
      let out := o.1.headD .ok
      let r := lImportW C pol fnv32a d.live clear pl gs out
      let failed := o.2.2.isSome
      let sr := Spec.step d.s (if clear then .importClear gs else .importSet gs)
      let n := match sr.2 with | .imported n => n | _ => 0
      -- a failed write must leave everything as it was (the code does not: known finding)
      let d' : D σ := if failed then { d with live := r.1, pend := o.2.1, tbl := (pl, gs) :: d.tbl,
                                              poison := if d.poison = "" then "c05-import-write-fails" else d.poison }
        else { d with live := r.1, s := sr.1, sops := d.sops + 1, sopN := d.sopN + n, tbl := (pl, gs) :: d.tbl, pend := o.2.1 }
      let slog := if failed then "-" else logged d.live r.1
      (d', ans2 s!"n={r.2.1}{errS r.2.2} log={logged d.live r.1} {counters r.1.ops r.1.opN} live={showNats (slice C r.1.bm)}"
              s!"n={n}{errS failed} log={slog} {counters d'.sops d'.sopN} live={showNats d'.s}" (tagOf d' "c05-import"))
    | _, _ => bad
  | ["snap"] =>
    let d' : D σ := { d with live := { d.live with log := [], ops := 0, opN := 0 }, snap := d.s, sops := 0, sopN := 0 }
    (d', ans2 (counters 0 0) (counters 0 0) (tagOf d "c05-snap"))
  | _ => bad

def stepSt (st : St) (ws : List String) : St × Ans :=
  match ws with
  | ["kind", "btree"] => (.bt (freshD btColl), ans "ok")
  | ["kind", "slice"] => (.sc (freshD scColl), ans "ok")
  | [op, kind] =>
    if (op = "check" ∨ op = "reopen") ∧ (kind = "btree" ∨ kind = "slice") then
      match st with
      | .none => (st, ans "bad-op:no-kind")
      | .bt d =>
        if kind = "btree" then
          let a := checkStr btColl btColl d
          if op = "check" then (st, a) else
          match decodeInto btColl btColl d with
          | some r => (.bt { d with live := ⟨r.1, d.live.log, r.2.1, r.2.2⟩ }, a)
          | none => (st, a)
        else
          let a := checkStr btColl scColl d
          if op = "check" then (st, a) else
          match decodeInto btColl scColl d with
          | some r => (.sc { live := ⟨r.1, d.live.log, r.2.1, r.2.2⟩, snap := d.snap, s := d.s, sops := d.sops,
                             sopN := d.sopN, tbl := d.tbl, pend := d.pend, poison := d.poison }, a)
          | none => (st, a)
      | .sc d =>
        if kind = "slice" then
          let a := checkStr scColl scColl d
          if op = "check" then (st, a) else
          match decodeInto scColl scColl d with
          | some r => (.sc { d with live := ⟨r.1, d.live.log, r.2.1, r.2.2⟩ }, a)
          | none => (st, a)
        else
          let a := checkStr scColl btColl d
          if op = "check" then (st, a) else
          match decodeInto scColl btColl d with
          | some r => (.bt { live := ⟨r.1, d.live.log, r.2.1, r.2.2⟩, snap := d.snap, s := d.s, sops := d.sops,
                             sopN := d.sopN, tbl := d.tbl, pend := d.pend, poison := d.poison }, a)
          | none => (st, a)
    else
      match st with
      | .none => (st, ans "bad-op:no-kind")
      | .bt d => let r := stepD btColl d ws; (.bt r.1, r.2)
      | .sc d => let r := stepD scColl d ws; (.sc r.1, r.2)
  | _ =>
    match st with
    | .none => (st, ans "bad-op:no-kind")
    | .bt d => let r := stepD btColl d ws; (.bt r.1, r.2)
    | .sc d => let r := stepD scColl d ws; (.sc r.1, r.2)

def main : IO Unit := run St.none stepSt
