/-
C05 property theorems: replaying the operation log reproduces the in-memory bitmap.

Full-strength statement (proved below): for every history of logged mutations (Add / Remove one op
per value, logged before applying; AddN / RemoveN logging `a[:changed]` after applying;
ImportRoaringBits set / clear logging payload + changed count; re-encoding; reopening from
snapshot ++ log) on either container collection, decoding the bytes the OpWriter received on top
of the snapshot's set yields a bitmap with exactly the live set, and the decoded `(ops, opN)`
equal the live counters — whatever collection the decoding bitmap uses and whatever aliasing
policy the kernels follow.

Parameters (trusted base, see design/C05.md): the checksum `H` is any function into uint32 (the
driver uses FNV-1a 32); `dec` is the roaring payload decoder of property C04, `load` the snapshot
decoder of C04 (a bitmap holding exactly the snapshot's set).
-/
import PV.C05.LemmasLogged
import PV.C05.LemmasFail
import PV.C02.LemmasBT
import PV.C02.LemmasSC
namespace PV.C05
open List PV.C02

variable {σ : Type}

/-- **Op round trip**: what `op.WriteTo` writes, followed by anything, decodes to the op and to
its size; the size is the number of bytes written. -/
theorem C05_op_roundtrip (H : Bytes → Nat) (hH : ∀ bs, H bs < 2 ^ 32) (o : LOp) (hwf : OpWF o) (more : Bytes) :
    decode H (encode H o ++ more) = some (o, o.size) ∧ (encode H o).length = o.size :=
  ⟨decode_encode H hH o hwf more, length_encode H o⟩

/-- The real checksum is a function into uint32. -/
theorem C05_fnv32a_range (bs : Bytes) : fnv32a bs < 2 ^ 32 := fnv32a_lt bs

/-- **Replay.** Under the invariant, decoding the log on top of ANY well-formed bitmap that holds
the snapshot's set (any collection `C'`, any policy) succeeds, yields exactly the live set, and
counts exactly the live `(ops, opN)`. -/
theorem C05_replay (C : Coll σ) (ok : CollOK C) (H : Bytes → Nat) (hH : ∀ bs, H bs < 2 ^ 32)
    (dec : Bytes → Option (List (Nat × Cell))) (st : LB σ × Spec.S) (hi : LInv C ok H dec st)
    {σ' : Type} (C' : Coll σ') (ok' : CollOK C') (p' : Policy) (b0 : BM σ')
    (hg0 : Good C' ok' b0) (hs0 : slice C' b0 = st.2) :
    ∃ r, replay C' p' dec H (st.1.log.length + 1) (b0, 0, 0) st.1.log = some r ∧
      Good C' ok' r.1 ∧ slice C' r.1 = slice C st.1.bm ∧ r.2.1 = st.1.ops ∧ r.2.2 = st.1.opN := by
  obtain ⟨ghost, hg⟩ := hi
  have hrep := replay_encodeAll C' p' dec H hH ghost (fun o ho => (hg.wf o ho).1)
    (st.1.log.length + 1) (b0, 0, 0) (by rw [hg.log]; omega)
  obtain ⟨f1, f2, f3, f4⟩ := foldOps_refines C' ok' p' dec ghost (fun o ho => (hg.wf o ho).2) b0 0 0 hg0
  refine ⟨_, by rw [hg.log] at hrep ⊢; exact hrep, f1, ?_, ?_, ?_⟩
  · rw [f2, hs0, hg.set]
  · rw [f3, hg.ops]; omega
  · rw [f4, hg.opN]; omega

/-- **Every logged step keeps the invariant** (hence `C05_replay` holds after it). `load` is the
snapshot decoder: a well-formed bitmap holding exactly the given set. -/
theorem C05_logged_step (C : Coll σ) (ok : CollOK C) (p : Policy) (H : Bytes → Nat) (hH : ∀ bs, H bs < 2 ^ 32)
    (dec : Bytes → Option (List (Nat × Cell))) (load : Spec.S → BM σ)
    (hload : ∀ s, Good C ok (load s) ∧ slice C (load s) = s)
    (st : LB σ × Spec.S) (cmd : LCmd) (hi : LInv C ok H dec st) (hc : CmdOK dec cmd) :
    LInv C ok H dec (lstep C p H dec load st cmd) := by
  obtain ⟨ghost, hg⟩ := hi
  cases cmd with
  | add vs => exact lAdd_inv C ok p H dec st.2 vs st.1 false ghost hg hc
  | remove vs => exact lRemove_inv C ok p H dec st.2 vs st.1 false ghost hg hc
  | addN vs =>
    show ∃ ghost', LInvG C ok H dec st.2 (lAddN C p H st.1 vs).1 ghost'
    unfold lAddN
    by_cases he : vs.isEmpty = true
    · simp only [he, ↓reduceIte]; exact ⟨ghost, hg⟩
    · simp only [he, Bool.false_eq_true, ↓reduceIte]
      obtain ⟨d1, d2, d3⟩ := directAddN_spec ok p st.1.bm vs hg.good hc.1
      obtain ⟨_, n2, _⟩ := Spec.newly_spec (slice C st.1.bm) (asc_slice hg.good) vs
      refine ⟨ghost ++ [.addBatch (directAddN C p st.1.bm vs).2], ?_⟩
      apply linv_write C ok H dec st.2 st.1 ghost _ _ hg
      · rw [d3]
        exact ⟨fun v hv => hc.1 v ((n2 v).mp hv).1, Nat.le_trans (length_newly_le _ _) hc.2⟩
      · rw [d3]; exact fun v hv => hc.1 v ((n2 v).mp hv).1
      · exact d1
      · rw [d2, d3]; exact (addAll_newly _ (asc_slice hg.good) vs).symm
  | removeN vs =>
    show ∃ ghost', LInvG C ok H dec st.2 (lRemoveN C p H st.1 vs).1 ghost'
    unfold lRemoveN
    by_cases he : vs.isEmpty = true
    · simp only [he, ↓reduceIte]; exact ⟨ghost, hg⟩
    · simp only [he, Bool.false_eq_true, ↓reduceIte]
      obtain ⟨d1, d2, d3⟩ := directRemoveN_spec ok p st.1.bm vs hg.good hc.1
      obtain ⟨_, n2, _⟩ := Spec.gone_spec (slice C st.1.bm) (asc_slice hg.good) vs
      refine ⟨ghost ++ [.removeBatch (directRemoveN C p st.1.bm vs).2], ?_⟩
      apply linv_write C ok H dec st.2 st.1 ghost _ _ hg
      · rw [d3]
        exact ⟨fun v hv => hc.1 v ((n2 v).mp hv).1, Nat.le_trans (length_gone_le _ _) hc.2⟩
      · rw [d3]; exact fun v hv => hc.1 v ((n2 v).mp hv).1
      · exact d1
      · rw [d2, d3]; exact (removeAll_gone _ (asc_slice hg.good) vs).symm
  | importR clear pl gs =>
    obtain ⟨hd, hgs, hpl, hn⟩ := hc
    show ∃ ghost', LInvG C ok H dec st.2 (lImport C p H st.1 clear pl gs).1 ghost'
    unfold lImport
    cases clear with
    | false =>
      obtain ⟨i1, i2, i3⟩ := importSet_fold ok p gs st.1.bm.c st.1.bm.h 0 hg.good hgs
      have hcnt : (importBits C p false st.1.bm gs).2 < 2 ^ 32 := by
        have i3' : (importBits C p false st.1.bm gs).2
            = 0 + ((Spec.groupValues gs).filter (fun v => !(slice C st.1.bm).contains v)).length := i3
        rw [i3']
        have := length_filter_le (fun v => !(slice C st.1.bm).contains v) (Spec.groupValues gs)
        omega
      refine ⟨ghost ++ [.addRoaring pl (importBits C p false st.1.bm gs).2], ?_⟩
      apply linv_write C ok H dec st.2 st.1 ghost _ _ hg
      · exact ⟨hpl, hcnt⟩
      · intro gs' hd'; rw [hd] at hd'; cases hd'; exact hgs
      · exact i1
      · show _ = specApply dec _ (.addRoaring pl _)
        simp only [specApply, hd]; exact i2
    | true =>
      obtain ⟨i1, i2, i3⟩ := importClear_fold ok p gs st.1.bm.c st.1.bm.h 0 hg.good hgs
      have hcnt : (importBits C p true st.1.bm gs).2 < 2 ^ 32 := by
        have i3' : (importBits C p true st.1.bm gs).2
            = 0 + ((Spec.groupValues gs).filter (fun v => (slice C st.1.bm).contains v)).length := i3
        rw [i3']
        have := length_filter_le (fun v => (slice C st.1.bm).contains v) (Spec.groupValues gs)
        omega
      refine ⟨ghost ++ [.removeRoaring pl (importBits C p true st.1.bm gs).2], ?_⟩
      apply linv_write C ok H dec st.2 st.1 ghost _ _ hg
      · exact ⟨hpl, hcnt⟩
      · intro gs' hd'; rw [hd] at hd'; cases hd'; exact hgs
      · exact i1
      · show _ = specApply dec _ (.removeRoaring pl _)
        simp only [specApply, hd]; exact i2
  | snap =>
    obtain ⟨o1, o2⟩ := optimize_spec ok p st.1.bm hg.good
    exact ⟨[], ⟨o1, rfl, fun _ h => absurd h (by simp), o2, rfl, rfl⟩⟩
  | reopen =>
    obtain ⟨hl1, hl2⟩ := hload st.2
    obtain ⟨r, hr, r1, r2, r3, r4⟩ := C05_replay C ok H hH dec st ⟨ghost, hg⟩ C ok p (load st.2) hl1 hl2
    show LInv C ok H dec (match replay C p dec H (st.1.log.length + 1) (load st.2, 0, 0) st.1.log with
      | some r => (⟨r.1, st.1.log, r.2.1, r.2.2⟩, st.2)
      | none => st)
    rw [hr]
    show LInv C ok H dec (⟨r.1, st.1.log, r.2.1, r.2.2⟩, st.2)
    exact ⟨ghost, ⟨r1, hg.log, hg.wf, by show slice C r.1 = _; rw [r2]; exact hg.set,
      by show r.2.1 = _; rw [r3]; exact hg.ops, by show r.2.2 = _; rw [r4]; exact hg.opN⟩⟩

/-- **Every history of logged mutations**, from the empty bitmap: the invariant holds at the end,
so (by `C05_replay`) snapshot ++ log decodes to the live set with the live counters. -/
theorem C05_history (C : Coll σ) (ok : CollOK C) (p : Policy) (H : Bytes → Nat) (hH : ∀ bs, H bs < 2 ^ 32)
    (dec : Bytes → Option (List (Nat × Cell))) (load : Spec.S → BM σ)
    (hload : ∀ s, Good C ok (load s) ∧ slice C (load s) = s)
    (cmds : List LCmd) (hc : ∀ c ∈ cmds, CmdOK dec c) :
    LInv C ok H dec (cmds.foldl (lstep C p H dec load) (linit C)) := by
  suffices h : ∀ st, LInv C ok H dec st → LInv C ok H dec (cmds.foldl (lstep C p H dec load) st) from
    h _ (linv_init C ok H dec)
  induction cmds with
  | nil => intro st hi; exact hi
  | cons c t ih =>
    intro st hi
    simp only [foldl_cons]
    exact ih (fun c' hc' => hc c' (by simp [hc'])) _
      (C05_logged_step C ok p H hH dec load hload st c hi (hc c (by simp)))

/-- The property, end to end, for the real checksum: after any history, decoding on a B-tree or a
slice bitmap gives the live set and counters. -/
theorem C05_history_replay (C : Coll σ) (ok : CollOK C) (p : Policy)
    (dec : Bytes → Option (List (Nat × Cell))) (load : Spec.S → BM σ)
    (hload : ∀ s, Good C ok (load s) ∧ slice C (load s) = s)
    (cmds : List LCmd) (hc : ∀ c ∈ cmds, CmdOK dec c)
    {σ' : Type} (C' : Coll σ') (ok' : CollOK C') (p' : Policy) (b0 : BM σ') (hg0 : Good C' ok' b0)
    (hs0 : slice C' b0 = (cmds.foldl (lstep C p fnv32a dec load) (linit C)).2) :
    ∃ r, replay C' p' dec fnv32a ((cmds.foldl (lstep C p fnv32a dec load) (linit C)).1.log.length + 1) (b0, 0, 0)
        (cmds.foldl (lstep C p fnv32a dec load) (linit C)).1.log = some r ∧
      slice C' r.1 = slice C (cmds.foldl (lstep C p fnv32a dec load) (linit C)).1.bm ∧
      r.2.1 = (cmds.foldl (lstep C p fnv32a dec load) (linit C)).1.ops ∧
      r.2.2 = (cmds.foldl (lstep C p fnv32a dec load) (linit C)).1.opN := by
  have hi := C05_history C ok p fnv32a fnv32a_lt dec load hload cmds hc
  obtain ⟨r, h1, _, h3, h4, h5⟩ := C05_replay C ok fnv32a fnv32a_lt dec _ hi C' ok' p' b0 hg0 hs0
  exact ⟨r, h1, h3, h4, h5⟩

/-! ### Writer failures

`WOut` = what one `Write` on the OpWriter does (`Model.lean`): `ok`, or an error after `k` bytes.

Full-strength statement one would like (NOT true of the code, see the two witnesses below):
  *every logged mutation whose write fails leaves the set, `ops`, `opN` and the log exactly as
  they were, and reports the error.*
What the code guarantees, and what is proved:
  * `C05_failed_write_unchanged`: AddN / RemoveN whose write fails — after any number of bytes —
    roll the bitmap back to exactly the set it held, count nothing and report `(0, err)`; the only
    trace is the `k` bytes the writer took.
  * `C05_failing_step_partial`: under clean failures (`k = 0`) Add / Remove / AddN / RemoveN keep
    the log invariant, so `C05_replay` still holds after them (for Add / Remove: the values before
    the failing write are logged and applied, the failing one and the later ones are neither).
Excluded, with witnesses: (a) `ImportRoaringBits(log=true)` applies the import, then logs it, and
on a failed write returns the error without undoing anything (`C05_import_failed_write_witness`);
(b) a short write (`k > 0`) leaves a torn op in the log, which the replay loop refuses
(`C05_short_write_witness`). -/

/-- **A failed write leaves AddN / RemoveN without effect.** -/
theorem C05_failed_write_unchanged (C : Coll σ) (ok : CollOK C) (p : Policy) (H : Bytes → Nat) (st : LB σ)
    (vs : List Nat) (k : Nat) (hg : Good C ok st.bm) (hvs : ∀ v ∈ vs, v < 2 ^ 64) (hne : vs.isEmpty = false) :
    (Good C ok (lAddNW C p H st vs (.fail k)).1.bm ∧
     slice C (lAddNW C p H st vs (.fail k)).1.bm = slice C st.bm ∧
     (lAddNW C p H st vs (.fail k)).1.ops = st.ops ∧ (lAddNW C p H st vs (.fail k)).1.opN = st.opN ∧
     (lAddNW C p H st vs (.fail k)).1.log
       = st.log ++ (encode H (.addBatch (Spec.newly (slice C st.bm) vs))).take k ∧
     (lAddNW C p H st vs (.fail k)).2.2.1 = 0 ∧ (lAddNW C p H st vs (.fail k)).2.2.2 = true) ∧
    (Good C ok (lRemoveNW C p H st vs (.fail k)).1.bm ∧
     slice C (lRemoveNW C p H st vs (.fail k)).1.bm = slice C st.bm ∧
     (lRemoveNW C p H st vs (.fail k)).1.ops = st.ops ∧ (lRemoveNW C p H st vs (.fail k)).1.opN = st.opN ∧
     (lRemoveNW C p H st vs (.fail k)).1.log
       = st.log ++ (encode H (.removeBatch (Spec.gone (slice C st.bm) vs))).take k ∧
     (lRemoveNW C p H st vs (.fail k)).2.2.1 = 0 ∧ (lRemoveNW C p H st vs (.fail k)).2.2.2 = true) :=
  ⟨lAddNW_fail C ok p H st vs k hg hvs hne, lRemoveNW_fail C ok p H st vs k hg hvs hne⟩

/-- **Clean write failures keep the log invariant** for Add / Remove / AddN / RemoveN (and a
successful import is the old case). -/
theorem C05_failing_step_partial (C : Coll σ) (ok : CollOK C) (p : Policy) (H : Bytes → Nat) (hH : ∀ bs, H bs < 2 ^ 32)
    (dec : Bytes → Option (List (Nat × Cell))) (load : Spec.S → BM σ)
    (hload : ∀ s, Good C ok (load s) ∧ slice C (load s) = s)
    (st : LB σ × Spec.S) (hi : LInv C ok H dec st) :
    (∀ vs outs c0, (∀ v ∈ vs, v < 2 ^ 64) → (∀ o ∈ outs, CleanOut o) →
        LInv C ok H dec ((lAddW C p H st.1 c0 vs outs).1, st.2)) ∧
    (∀ vs outs c0, (∀ v ∈ vs, v < 2 ^ 64) → (∀ o ∈ outs, CleanOut o) →
        LInv C ok H dec ((lRemoveW C p H st.1 c0 vs outs).1, st.2)) ∧
    (∀ vs out, CmdOK dec (.addN vs) → CleanOut out → LInv C ok H dec ((lAddNW C p H st.1 vs out).1, st.2)) ∧
    (∀ vs out, CmdOK dec (.removeN vs) → CleanOut out → LInv C ok H dec ((lRemoveNW C p H st.1 vs out).1, st.2)) ∧
    (∀ clear pl gs, CmdOK dec (.importR clear pl gs) →
        LInv C ok H dec ((lImportW C p H st.1 clear pl gs .ok).1, st.2)) := by
  obtain ⟨ghost, hg⟩ := hi
  refine ⟨?_, ?_, ?_, ?_, ?_⟩
  · intro vs outs c0 hv ho; exact lAddW_inv C ok p H dec st.2 vs st.1 c0 outs ghost hg hv ho
  · intro vs outs c0 hv ho; exact lRemoveW_inv C ok p H dec st.2 vs st.1 c0 outs ghost hg hv ho
  · intro vs out hc ho
    rcases ho with e | e
    · have := C05_logged_step C ok p H hH dec load hload st (.addN vs) ⟨ghost, hg⟩ hc
      have heq : (lAddNW C p H st.1 vs .ok).1 = (lAddN C p H st.1 vs).1 := by
        unfold lAddNW lAddN; split <;> rfl
      rw [e, heq]; exact this
    · rw [e]
      by_cases hne : vs.isEmpty = true
      · have : (lAddNW C p H st.1 vs (.fail 0)).1 = st.1 := by unfold lAddNW; simp [hne]
        rw [this]; exact ⟨ghost, hg⟩
      · have hne' : vs.isEmpty = false := by simpa using hne
        obtain ⟨f1, f2, f3, f4, f5, _, _⟩ := lAddNW_fail C ok p H st.1 vs 0 hg.good hc.1 hne'
        exact ⟨ghost, ⟨f1, by rw [f5]; simp [hg.log], hg.wf, by rw [f2]; exact hg.set,
          by rw [f3]; exact hg.ops, by rw [f4]; exact hg.opN⟩⟩
  · intro vs out hc ho
    rcases ho with e | e
    · have := C05_logged_step C ok p H hH dec load hload st (.removeN vs) ⟨ghost, hg⟩ hc
      have heq : (lRemoveNW C p H st.1 vs .ok).1 = (lRemoveN C p H st.1 vs).1 := by
        unfold lRemoveNW lRemoveN; split <;> rfl
      rw [e, heq]; exact this
    · rw [e]
      by_cases hne : vs.isEmpty = true
      · have : (lRemoveNW C p H st.1 vs (.fail 0)).1 = st.1 := by unfold lRemoveNW; simp [hne]
        rw [this]; exact ⟨ghost, hg⟩
      · have hne' : vs.isEmpty = false := by simpa using hne
        obtain ⟨f1, f2, f3, f4, f5, _, _⟩ := lRemoveNW_fail C ok p H st.1 vs 0 hg.good hc.1 hne'
        exact ⟨ghost, ⟨f1, by rw [f5]; simp [hg.log], hg.wf, by rw [f2]; exact hg.set,
          by rw [f3]; exact hg.ops, by rw [f4]; exact hg.opN⟩⟩
  · intro clear pl gs hc
    have := C05_logged_step C ok p H hH dec load hload st (.importR clear pl gs) ⟨ghost, hg⟩ hc
    exact this

def polA : Policy :=
  ⟨fun _ _ => false, fun _ _ => false, fun _ _ => false, fun _ => false, fun _ => false, fun _ _ => false⟩

/-- Witness (a): a set-import of `{7}` whose write fails cleanly — the bitmap now holds 7, the log
is empty and nothing was counted: snapshot ++ log decodes to the empty set, not to the live one. -/
theorem C05_import_failed_write_witness :
    slice btColl (lImportW btColl polA fnv32a (linit btColl).1 false [1, 2, 3] [(0, [7])] (.fail 0)).1.bm = [7] ∧
    (lImportW btColl polA fnv32a (linit btColl).1 false [1, 2, 3] [(0, [7])] (.fail 0)).1.log = [] ∧
    (lImportW btColl polA fnv32a (linit btColl).1 false [1, 2, 3] [(0, [7])] (.fail 0)).1.ops = 0 ∧
    (lImportW btColl polA fnv32a (linit btColl).1 false [1, 2, 3] [(0, [7])] (.fail 0)).2.2 = true := by
  decide

/-- Witness (b): `AddN(7)` whose write returns an error after 5 bytes — the bitmap is rolled back,
but the 5 bytes stay in the log and the replay loop cannot decode them any more. -/
theorem C05_short_write_witness :
    slice btColl (lAddNW btColl polA fnv32a (linit btColl).1 [7] (.fail 5)).1.bm = [] ∧
    (lAddNW btColl polA fnv32a (linit btColl).1 [7] (.fail 5)).1.log.length = 5 ∧
    decode fnv32a (lAddNW btColl polA fnv32a (linit btColl).1 [7] (.fail 5)).1.log = none := by
  decide

/-! ### Non-vacuity -/

/-- A concrete op survives the round trip with the real checksum (batch with a duplicate). -/
example : decode fnv32a (encode fnv32a (.addBatch [7, 65536, 7]) ++ [1, 2, 3]) = some (.addBatch [7, 65536, 7], 37) := by
  decide

example : OpWF (.addBatch [7, 65536, 7]) := by simp [OpWF]

example : CmdOK (fun _ => some [(0, [7, 9])]) (.importR false [60, 48] [(0, [7, 9])]) := by
  simp [CmdOK, GroupsOK, KeysAsc, Asc, CellOK, INVALID, W, Spec.groupValues]

end PV.C05
