/-
C05 model: the operation log of `roaring.Bitmap` (roaring.go: `op`, `op.WriteTo`,
`op.UnmarshalBinary`, `op.apply`, `op.size`, `op.count`, `Bitmap.writeOp`, the logged mutation
paths `Add` / `Remove` / `AddN` / `RemoveN` / `ImportRoaringBits(log=true)`, and the op-replay
loop at the end of `unmarshalPilosaRoaring`), on top of the C02 bitmap model.

Bytes are naturals `< 256`.  The checksum function is a parameter `H` of encode / decode (the
driver instantiates it with the real FNV-1a 32 below).  The roaring payload of an import op is an
opaque byte string; its decoder `dec` (property C04) is a parameter: `dec payload = some groups`.
The snapshot (the roaring file written by `WriteTo`, also C04) is represented by the set it
decodes to.
-/
import PV.C02.Model
import PV.C02.Spec
namespace PV.C05
open PV.C02

abbrev Bytes := List Nat

/-- Little-endian encoding of `x` in `n` bytes (`binary.LittleEndian.PutUintNN`). -/
def le : Nat → Nat → Bytes
  | 0, _ => []
  | n + 1, x => (x % 256) :: le n (x / 256)

/-- `binary.LittleEndian.UintNN`. -/
def unle : Bytes → Nat
  | [] => 0
  | b :: bs => b + 256 * unle bs

def fnvStep (h b : Nat) : Nat := ((h ^^^ b) * 16777619) % 4294967296
/-- `hash/fnv` New32a. -/
def fnv32a (bs : Bytes) : Nat := bs.foldl fnvStep 2166136261

/-- An operation of the log (`op` in roaring.go). -/
inductive LOp where
  | add (v : Nat)
  | remove (v : Nat)
  | addBatch (vs : List Nat)
  | removeBatch (vs : List Nat)
  | addRoaring (payload : Bytes) (opN : Nat)
  | removeRoaring (payload : Bytes) (opN : Nat)
deriving DecidableEq, Repr

def LOp.typ : LOp → Nat
  | .add _ => 0 | .remove _ => 1 | .addBatch _ => 2 | .removeBatch _ => 3
  | .addRoaring _ _ => 4 | .removeRoaring _ _ => 5

/-- `op.count()`: the number of bits the operation is accounted with. -/
def LOp.count : LOp → Nat
  | .add _ => 1 | .remove _ => 1
  | .addBatch vs => vs.length | .removeBatch vs => vs.length
  | .addRoaring _ n => n | .removeRoaring _ n => n

/-- `op.size()`. -/
def LOp.size : LOp → Nat
  | .add _ => 13 | .remove _ => 13
  | .addBatch vs => 13 + vs.length * 8 | .removeBatch vs => 13 + vs.length * 8
  | .addRoaring pl _ => 17 + pl.length | .removeRoaring pl _ => 17 + pl.length

/-- type byte, 8-byte value / length, 4-byte checksum over (first 9 bytes ++ tail ++ extra), tail. -/
def frame (H : Bytes → Nat) (typ val : Nat) (tail extra : Bytes) : Bytes :=
  (typ :: le 8 val) ++ le 4 (H ((typ :: le 8 val) ++ tail ++ extra)) ++ tail

/-- `op.WriteTo`: everything written to the OpWriter for one op (roaring ops: two writes). -/
def encode (H : Bytes → Nat) : LOp → Bytes
  | .add v => frame H 0 v [] []
  | .remove v => frame H 1 v [] []
  | .addBatch vs => frame H 2 vs.length (vs.flatMap (le 8)) []
  | .removeBatch vs => frame H 3 vs.length (vs.flatMap (le 8)) []
  | .addRoaring pl n => frame H 4 pl.length (le 4 n) pl ++ pl
  | .removeRoaring pl n => frame H 5 pl.length (le 4 n) pl ++ pl

/-- `n` little-endian uint64 values. -/
def unchunk : Nat → Bytes → List Nat
  | 0, _ => []
  | n + 1, bs => unle (bs.take 8) :: unchunk n (bs.drop 8)

/-- The body of `op.UnmarshalBinary` once the fixed fields are read: `len` = len(data),
`typ` = data[0], `val` = uint64 at [1:9], `chk` = uint32 at [9:13], `pre` = data[0:9],
`rest` = data[13:]. -/
def decodeParts (H : Bytes → Nat) (len typ val chk : Nat) (pre rest : Bytes) : Option (LOp × Nat) :=
  if typ = 0 then (if chk = H pre then some (.add val, 13) else none)
  else if typ = 1 then (if chk = H pre then some (.remove val, 13) else none)
  else if typ = 2 ∨ typ = 3 then
    if val > 2 ^ 59 then none
    else if len < 13 + val * 8 then none
    else
      if chk = H (pre ++ rest.take (val * 8)) then
        some (if typ = 2 then .addBatch (unchunk val (rest.take (val * 8)))
              else .removeBatch (unchunk val (rest.take (val * 8))), 13 + val * 8)
      else none
  else if typ = 4 ∨ typ = 5 then
    if len < 17 + val then none
    else
      if chk = H (pre ++ rest.take (4 + val)) then
        some (if typ = 4 then .addRoaring ((rest.drop 4).take val) (unle (rest.take 4))
              else .removeRoaring ((rest.drop 4).take val) (unle (rest.take 4)), 17 + val)
      else none
  else none

/-- `op.UnmarshalBinary` (+ `op.size()` of the decoded op); `none` = any of its errors. -/
def decode (H : Bytes → Nat) (data : Bytes) : Option (LOp × Nat) :=
  if data.length < 13 then none
  else decodeParts H data.length (data.headD 0) (unle ((data.drop 1).take 8)) (unle ((data.drop 9).take 4))
    (data.take 9) (data.drop 13)

section bitmap
variable {σ : Type} (C : Coll σ) (p : Policy) (dec : Bytes → Option (List (Nat × Cell)))

/-- `op.apply` (errors of a replayed import are ignored, as in the code). -/
def applyOp (b : BM σ) : LOp → BM σ
  | .add v => (directAdd C p b v).1
  | .remove v => (bmRemove C p b v).1
  | .addBatch vs => (directAddN C p b vs).1
  | .removeBatch vs => (directRemoveN C p b vs).1
  | .addRoaring pl _ => match dec pl with
    | some gs => (importBits C p false b gs).1
    | none => b
  | .removeRoaring pl _ => match dec pl with
    | some gs => (importBits C p true b gs).1
    | none => b

/-- The op-replay loop of `unmarshalPilosaRoaring` (fuel = number of bytes: every op consumes
at least 13). `none` = the decode error the loop returns. -/
def replay (H : Bytes → Nat) : Nat → BM σ × Nat × Nat → Bytes → Option (BM σ × Nat × Nat)
  | 0, st, buf => if buf.isEmpty then some st else none
  | fuel + 1, st, buf =>
    if buf.isEmpty then some st
    else match decode H buf with
      | none => none
      | some (o, sz) => replay H fuel (applyOp C p dec st.1 o, st.2.1 + 1, st.2.2 + o.count) (buf.drop sz)

/-- A bitmap with an OpWriter. -/
structure LB (σ : Type) where
  bm : BM σ
  log : Bytes
  ops : Nat
  opN : Nat

/-- `writeOp`: append to the writer, then count. -/
def writeOp (H : Bytes → Nat) (st : LB σ) (o : LOp) : LB σ :=
  { st with log := st.log ++ encode H o, ops := st.ops + 1, opN := st.opN + o.count }

/-- `Add(vs...)` with a writer: per value, log first, then apply. -/
def lAdd (H : Bytes → Nat) (st : LB σ) (vs : List Nat) : LB σ × Bool :=
  vs.foldl (fun acc v =>
    let s1 := writeOp H acc.1 (.add v)
    let r := directAdd C p s1.bm v
    ({ s1 with bm := r.1 }, acc.2 || r.2)) (st, false)

def lRemove (H : Bytes → Nat) (st : LB σ) (vs : List Nat) : LB σ × Bool :=
  vs.foldl (fun acc v =>
    let s1 := writeOp H acc.1 (.remove v)
    let r := bmRemove C p s1.bm v
    ({ s1 with bm := r.1 }, acc.2 || r.2)) (st, false)

/-- `AddN`: apply, then log `a[:changed]` (nothing at all for an empty argument list). -/
def lAddN (H : Bytes → Nat) (st : LB σ) (vs : List Nat) : LB σ × List Nat :=
  if vs.isEmpty then (st, [])
  else
    let r := directAddN C p st.bm vs
    (writeOp H { st with bm := r.1 } (.addBatch r.2), r.2)

def lRemoveN (H : Bytes → Nat) (st : LB σ) (vs : List Nat) : LB σ × List Nat :=
  if vs.isEmpty then (st, [])
  else
    let r := directRemoveN C p st.bm vs
    (writeOp H { st with bm := r.1 } (.removeBatch r.2), r.2)

/-- `ImportRoaringBits(data, clear, log=true, 0)` for a payload that decodes to `gs`. -/
def lImport (H : Bytes → Nat) (st : LB σ) (clear : Bool) (pl : Bytes) (gs : List (Nat × Cell)) : LB σ × Nat :=
  let r := importBits C p clear st.bm gs
  (writeOp H { st with bm := r.1 } (if clear then .removeRoaring pl r.2 else .addRoaring pl r.2), r.2)

/-! #### A writer that may fail

`WOut` is what one `Write` call on the OpWriter does: it takes everything, or it returns an error
after `k` bytes (`k = 0`: a clean failure; `k > 0`: a short write, the bytes stay in the log).
`writeOp` counts the op only when `op.WriteTo` returned no error. -/

inductive WOut where
  | ok
  | fail (k : Nat)
deriving DecidableEq, Repr

/-- `writeOp` with a given outcome of the `Write` call; the flag is "an error was returned". -/
def writeOpW (H : Bytes → Nat) (st : LB σ) (o : LOp) : WOut → LB σ × Bool
  | .ok => (writeOp H st o, false)
  | .fail k => ({ st with log := st.log ++ (encode H o).take k }, true)

/-- `Add(vs...)`: one write per value (`outs` = their outcomes, missing ones succeed); the first
failing write makes the call return `(false, err)` with the remaining values untouched. -/
def lAddW (H : Bytes → Nat) : LB σ → Bool → List Nat → List WOut → LB σ × Bool × Bool
  | st, c, [], _ => (st, c, false)
  | st, c, v :: vs, outs =>
    let w := writeOpW H st (.add v) (outs.headD .ok)
    if w.2 then (w.1, false, true)
    else
      let r := directAdd C p w.1.bm v
      lAddW H { w.1 with bm := r.1 } (c || r.2) vs outs.tail

def lRemoveW (H : Bytes → Nat) : LB σ → Bool → List Nat → List WOut → LB σ × Bool × Bool
  | st, c, [], _ => (st, c, false)
  | st, c, v :: vs, outs =>
    let w := writeOpW H st (.remove v) (outs.headD .ok)
    if w.2 then (w.1, false, true)
    else
      let r := bmRemove C p w.1.bm v
      lRemoveW H { w.1 with bm := r.1 } (c || r.2) vs outs.tail

/-- `AddN`: apply, log `a[:changed]`; on a write error `DirectRemoveN(op.values...)` and return
`(0, err)`.  Result: state, the caller's slice afterwards, the reported count, the error flag. -/
def lAddNW (H : Bytes → Nat) (st : LB σ) (vs : List Nat) (out : WOut) : LB σ × List Nat × Nat × Bool :=
  if vs.isEmpty then (st, [], 0, false)
  else
    let r := directAddN C p st.bm vs
    let w := writeOpW H { st with bm := r.1 } (.addBatch r.2) out
    let a := r.2 ++ vs.drop r.2.length
    if w.2 then
      let back := directRemoveN C p w.1.bm r.2
      ({ w.1 with bm := back.1 }, back.2 ++ a.drop back.2.length, 0, true)
    else (w.1, a, r.2.length, false)

def lRemoveNW (H : Bytes → Nat) (st : LB σ) (vs : List Nat) (out : WOut) : LB σ × List Nat × Nat × Bool :=
  if vs.isEmpty then (st, [], 0, false)
  else
    let r := directRemoveN C p st.bm vs
    let w := writeOpW H { st with bm := r.1 } (.removeBatch r.2) out
    let a := r.2 ++ vs.drop r.2.length
    if w.2 then
      let back := directAddN C p w.1.bm r.2
      ({ w.1 with bm := back.1 }, back.2 ++ a.drop back.2.length, 0, true)
    else (w.1, a, r.2.length, false)

/-- `ImportRoaringBits(…, log=true)`: the import is applied, then logged; when the write fails
the error is returned together with the change count and **nothing is rolled back** (as coded). -/
def lImportW (H : Bytes → Nat) (st : LB σ) (clear : Bool) (pl : Bytes) (gs : List (Nat × Cell)) (out : WOut) :
    LB σ × Nat × Bool :=
  let r := importBits C p clear st.bm gs
  let w := writeOpW H { st with bm := r.1 } (if clear then .removeRoaring pl r.2 else .addRoaring pl r.2) out
  (w.1, r.2, w.2)

end bitmap

/-! ### Spec: what the log means for the set -/

def specApply (dec : Bytes → Option (List (Nat × Cell))) (s : Spec.S) : LOp → Spec.S
  | .add v => insertAsc v s
  | .remove v => eraseAsc v s
  | .addBatch vs => Spec.addAll s vs
  | .removeBatch vs => Spec.removeAll s vs
  | .addRoaring pl _ => match dec pl with
    | some gs => Spec.addAll s (Spec.groupValues gs)
    | none => s
  | .removeRoaring pl _ => match dec pl with
    | some gs => Spec.removeAll s (Spec.groupValues gs)
    | none => s

end PV.C05
