/-
C05 helper lemmas: logged mutations whose write to the OpWriter fails.
-/
import PV.C05.LemmasLogged
namespace PV.C05
open List PV.C02

variable {σ : Type}

/-- A write that succeeds or fails without leaving bytes behind. -/
def CleanOut (o : WOut) : Prop := o = .ok ∨ o = .fail 0

theorem removeAll_addAll_newly (s : Spec.S) (hs : Asc s) (vs : List Nat) :
    Spec.removeAll (Spec.addAll s vs) (Spec.newly s vs) = s := by
  obtain ⟨_, n2, _⟩ := Spec.newly_spec s hs vs
  apply asc_ext (Spec.asc_removeAll (Spec.asc_addAll hs)) hs
  intro v
  rw [Spec.mem_removeAll, Spec.mem_addAll, n2 v]
  constructor
  · rintro ⟨h1 | h1, h2⟩
    · exact h1
    · by_cases hm : v ∈ s
      · exact hm
      · exact absurd ⟨h1, hm⟩ h2
  · intro h; exact ⟨Or.inl h, fun h2 => h2.2 h⟩

theorem addAll_removeAll_gone (s : Spec.S) (hs : Asc s) (vs : List Nat) :
    Spec.addAll (Spec.removeAll s vs) (Spec.gone s vs) = s := by
  obtain ⟨_, n2, _⟩ := Spec.gone_spec s hs vs
  apply asc_ext (Spec.asc_addAll (Spec.asc_removeAll hs)) hs
  intro v
  rw [Spec.mem_addAll, Spec.mem_removeAll, n2 v]
  constructor
  · rintro (⟨h1, _⟩ | ⟨_, h2⟩)
    · exact h1
    · exact h2
  · intro h
    by_cases hv : v ∈ vs
    · exact Or.inr ⟨hv, h⟩
    · exact Or.inl ⟨h, hv⟩

/-- `AddN` whose write fails (after `k` bytes): the bitmap is rolled back to exactly the set it
held, nothing is counted, `(0, err)` is reported; only the `k` bytes stay in the log. -/
theorem lAddNW_fail (C : Coll σ) (ok : CollOK C) (p : Policy) (H : Bytes → Nat) (st : LB σ) (vs : List Nat)
    (k : Nat) (hg : Good C ok st.bm) (hvs : ∀ v ∈ vs, v < 2 ^ 64) (hne : vs.isEmpty = false) :
    Good C ok (lAddNW C p H st vs (.fail k)).1.bm ∧
    slice C (lAddNW C p H st vs (.fail k)).1.bm = slice C st.bm ∧
    (lAddNW C p H st vs (.fail k)).1.ops = st.ops ∧ (lAddNW C p H st vs (.fail k)).1.opN = st.opN ∧
    (lAddNW C p H st vs (.fail k)).1.log
      = st.log ++ (encode H (.addBatch (Spec.newly (slice C st.bm) vs))).take k ∧
    (lAddNW C p H st vs (.fail k)).2.2.1 = 0 ∧ (lAddNW C p H st vs (.fail k)).2.2.2 = true := by
  obtain ⟨d1, d2, d3⟩ := directAddN_spec ok p st.bm vs hg hvs
  obtain ⟨_, n2, _⟩ := Spec.newly_spec (slice C st.bm) (asc_slice hg) vs
  have hpre : ∀ v ∈ (directAddN C p st.bm vs).2, v < 2 ^ 64 := by
    rw [d3]; exact fun v hv => hvs v ((n2 v).mp hv).1
  obtain ⟨r1, r2, _⟩ := directRemoveN_spec ok p (directAddN C p st.bm vs).1 (directAddN C p st.bm vs).2 d1 hpre
  unfold lAddNW
  simp only [hne, Bool.false_eq_true, ↓reduceIte, writeOpW]
  refine ⟨r1, ?_, by first | rfl | trivial, by first | rfl | trivial, ?_, by first | rfl | trivial, by first | rfl | trivial⟩
  · show slice C (directRemoveN C p (directAddN C p st.bm vs).1 (directAddN C p st.bm vs).2).1 = _
    rw [r2, d2, d3]; exact removeAll_addAll_newly _ (asc_slice hg) vs
  · show st.log ++ _ = _
    rw [d3]

theorem lRemoveNW_fail (C : Coll σ) (ok : CollOK C) (p : Policy) (H : Bytes → Nat) (st : LB σ) (vs : List Nat)
    (k : Nat) (hg : Good C ok st.bm) (hvs : ∀ v ∈ vs, v < 2 ^ 64) (hne : vs.isEmpty = false) :
    Good C ok (lRemoveNW C p H st vs (.fail k)).1.bm ∧
    slice C (lRemoveNW C p H st vs (.fail k)).1.bm = slice C st.bm ∧
    (lRemoveNW C p H st vs (.fail k)).1.ops = st.ops ∧ (lRemoveNW C p H st vs (.fail k)).1.opN = st.opN ∧
    (lRemoveNW C p H st vs (.fail k)).1.log
      = st.log ++ (encode H (.removeBatch (Spec.gone (slice C st.bm) vs))).take k ∧
    (lRemoveNW C p H st vs (.fail k)).2.2.1 = 0 ∧ (lRemoveNW C p H st vs (.fail k)).2.2.2 = true := by
  obtain ⟨d1, d2, d3⟩ := directRemoveN_spec ok p st.bm vs hg hvs
  obtain ⟨_, n2, _⟩ := Spec.gone_spec (slice C st.bm) (asc_slice hg) vs
  have hpre : ∀ v ∈ (directRemoveN C p st.bm vs).2, v < 2 ^ 64 := by
    rw [d3]; exact fun v hv => hvs v ((n2 v).mp hv).1
  obtain ⟨r1, r2, _⟩ := directAddN_spec ok p (directRemoveN C p st.bm vs).1 (directRemoveN C p st.bm vs).2 d1 hpre
  unfold lRemoveNW
  simp only [hne, Bool.false_eq_true, ↓reduceIte, writeOpW]
  refine ⟨r1, ?_, by first | rfl | trivial, by first | rfl | trivial, ?_, by first | rfl | trivial, by first | rfl | trivial⟩
  · show slice C (directAddN C p (directRemoveN C p st.bm vs).1 (directRemoveN C p st.bm vs).2).1 = _
    rw [r2, d2, d3]; exact addAll_removeAll_gone _ (asc_slice hg) vs
  · show st.log ++ _ = _
    rw [d3]

theorem lb_log_nil (st : LB σ) : ({ st with log := st.log ++ [] } : LB σ) = st := by
  cases st; simp

/-- `Add(vs...)` under clean write failures keeps the log invariant: the values before the failing
write are logged and applied, the failing one and the rest are neither. -/
theorem lAddW_inv (C : Coll σ) (ok : CollOK C) (p : Policy) (H : Bytes → Nat)
    (dec : Bytes → Option (List (Nat × Cell))) (snap : Spec.S) (vs : List Nat) :
    ∀ (st : LB σ) (c0 : Bool) (outs : List WOut) (ghost : List LOp), LInvG C ok H dec snap st ghost →
    (∀ v ∈ vs, v < 2 ^ 64) → (∀ o ∈ outs, CleanOut o) →
    ∃ ghost', LInvG C ok H dec snap (lAddW C p H st c0 vs outs).1 ghost' := by
  induction vs with
  | nil => intro st c0 outs ghost hi _ _; exact ⟨ghost, hi⟩
  | cons v t ih =>
    intro st c0 outs ghost hi hv ho
    have hvv := hv v (by simp)
    have hhead : CleanOut (outs.headD .ok) := by
      cases outs with
      | nil => exact Or.inl rfl
      | cons o _ => exact ho o (by simp)
    unfold lAddW
    rcases hhead with e | e
    · rw [e]
      simp only [writeOpW, Bool.false_eq_true, ↓reduceIte]
      obtain ⟨d1, d2, _⟩ := directAdd_spec ok p st.bm v hi.good hvv
      have := linv_write C ok H dec snap st ghost (.add v) (directAdd C p st.bm v).1 hi hvv hvv d1 d2
      exact ih _ _ _ _ this (fun w hw => hv w (by simp [hw]))
        (fun o ho' => ho o (by cases outs with | nil => simp at ho' | cons _ _ => simp at ho' ⊢; exact Or.inr ho'))
    · rw [e]
      simp only [writeOpW, ↓reduceIte, take_zero, lb_log_nil]
      exact ⟨ghost, hi⟩

theorem lRemoveW_inv (C : Coll σ) (ok : CollOK C) (p : Policy) (H : Bytes → Nat)
    (dec : Bytes → Option (List (Nat × Cell))) (snap : Spec.S) (vs : List Nat) :
    ∀ (st : LB σ) (c0 : Bool) (outs : List WOut) (ghost : List LOp), LInvG C ok H dec snap st ghost →
    (∀ v ∈ vs, v < 2 ^ 64) → (∀ o ∈ outs, CleanOut o) →
    ∃ ghost', LInvG C ok H dec snap (lRemoveW C p H st c0 vs outs).1 ghost' := by
  induction vs with
  | nil => intro st c0 outs ghost hi _ _; exact ⟨ghost, hi⟩
  | cons v t ih =>
    intro st c0 outs ghost hi hv ho
    have hvv := hv v (by simp)
    have hhead : CleanOut (outs.headD .ok) := by
      cases outs with
      | nil => exact Or.inl rfl
      | cons o _ => exact ho o (by simp)
    unfold lRemoveW
    rcases hhead with e | e
    · rw [e]
      simp only [writeOpW, Bool.false_eq_true, ↓reduceIte]
      obtain ⟨d1, d2, _⟩ := bmRemove_spec ok p st.bm v hi.good hvv
      have := linv_write C ok H dec snap st ghost (.remove v) (bmRemove C p st.bm v).1 hi hvv hvv d1 d2
      exact ih _ _ _ _ this (fun w hw => hv w (by simp [hw]))
        (fun o ho' => ho o (by cases outs with | nil => simp at ho' | cons _ _ => simp at ho' ⊢; exact Or.inr ho'))
    · rw [e]
      simp only [writeOpW, ↓reduceIte, take_zero, lb_log_nil]
      exact ⟨ghost, hi⟩

end PV.C05
