/-
C05 definitions and helper lemmas for the statements in Props.lean: logged commands, the step
function of a logged bitmap, the log invariant, Add / Remove folds.
-/
import PV.C05.LemmasReplay
namespace PV.C05
open List PV.C02

variable {σ : Type}

/-- Logged commands on a bitmap with an OpWriter. -/
inductive LCmd where
  | add (vs : List Nat)
  | remove (vs : List Nat)
  | addN (vs : List Nat)
  | removeN (vs : List Nat)
  /-- `ImportRoaringBits(pl, clear, log=true)`; `gs` = the containers `pl` decodes to -/
  | importR (clear : Bool) (pl : Bytes) (gs : List (Nat × Cell))
  /-- re-encode: the snapshot becomes the current set (WriteTo optimizes), the log restarts -/
  | snap
  /-- reopen: the live bitmap is replaced by the one decoded from snapshot ++ log -/
  | reopen

def CmdOK (dec : Bytes → Option (List (Nat × Cell))) : LCmd → Prop
  | .add vs => ∀ v ∈ vs, v < 2 ^ 64
  | .remove vs => ∀ v ∈ vs, v < 2 ^ 64
  | .addN vs => (∀ v ∈ vs, v < 2 ^ 64) ∧ vs.length ≤ 2 ^ 59
  | .removeN vs => (∀ v ∈ vs, v < 2 ^ 64) ∧ vs.length ≤ 2 ^ 59
  | .importR _ pl gs => dec pl = some gs ∧ GroupsOK gs ∧ pl.length < 2 ^ 64 ∧ (Spec.groupValues gs).length < 2 ^ 32
  | .snap => True
  | .reopen => True

/-- State: the logged bitmap and the set held by the current snapshot. -/
def lstep (C : Coll σ) (p : Policy) (H : Bytes → Nat) (dec : Bytes → Option (List (Nat × Cell)))
    (load : Spec.S → BM σ) (st : LB σ × Spec.S) : LCmd → LB σ × Spec.S
  | .add vs => ((lAdd C p H st.1 vs).1, st.2)
  | .remove vs => ((lRemove C p H st.1 vs).1, st.2)
  | .addN vs => ((lAddN C p H st.1 vs).1, st.2)
  | .removeN vs => ((lRemoveN C p H st.1 vs).1, st.2)
  | .importR clear pl gs => ((lImport C p H st.1 clear pl gs).1, st.2)
  | .snap => (⟨optimize C p st.1.bm, [], 0, 0⟩, slice C st.1.bm)
  | .reopen =>
    match replay C p dec H (st.1.log.length + 1) (load st.2, 0, 0) st.1.log with
    | some r => (⟨r.1, st.1.log, r.2.1, r.2.2⟩, st.2)
    | none => st

/-- The invariant: the log is the encoding of a list of ops that explains the live bitmap. -/
def LInv (C : Coll σ) (ok : CollOK C) (H : Bytes → Nat) (dec : Bytes → Option (List (Nat × Cell)))
    (st : LB σ × Spec.S) : Prop :=
  ∃ ghost, LInvG C ok H dec st.2 st.1 ghost

/-- The start: an empty bitmap, an empty snapshot, an empty log. -/
def linit (C : Coll σ) : LB σ × Spec.S := (⟨BM.init C, [], 0, 0⟩, [])

theorem lAdd_inv (C : Coll σ) (ok : CollOK C) (p : Policy) (H : Bytes → Nat)
    (dec : Bytes → Option (List (Nat × Cell))) (snap : Spec.S) (vs : List Nat) :
    ∀ (st : LB σ) (c0 : Bool) (ghost : List LOp), LInvG C ok H dec snap st ghost → (∀ v ∈ vs, v < 2 ^ 64) →
    ∃ ghost', LInvG C ok H dec snap (vs.foldl (fun acc v =>
        ({ (writeOp H acc.1 (.add v)) with bm := (directAdd C p (writeOp H acc.1 (.add v)).bm v).1 },
          acc.2 || (directAdd C p (writeOp H acc.1 (.add v)).bm v).2)) (st, c0)).1 ghost' := by
  induction vs with
  | nil => intro st c0 ghost hi _; exact ⟨ghost, hi⟩
  | cons v t ih =>
    intro st c0 ghost hi hv
    have hvv := hv v (by simp)
    obtain ⟨d1, d2, _⟩ := directAdd_spec ok p st.bm v hi.good hvv
    have := linv_write C ok H dec snap st ghost (.add v) (directAdd C p st.bm v).1 hi hvv hvv d1 d2
    simp only [foldl_cons]
    exact ih _ _ _ this (fun w hw => hv w (by simp [hw]))

theorem lRemove_inv (C : Coll σ) (ok : CollOK C) (p : Policy) (H : Bytes → Nat)
    (dec : Bytes → Option (List (Nat × Cell))) (snap : Spec.S) (vs : List Nat) :
    ∀ (st : LB σ) (c0 : Bool) (ghost : List LOp), LInvG C ok H dec snap st ghost → (∀ v ∈ vs, v < 2 ^ 64) →
    ∃ ghost', LInvG C ok H dec snap (vs.foldl (fun acc v =>
        ({ (writeOp H acc.1 (.remove v)) with bm := (bmRemove C p (writeOp H acc.1 (.remove v)).bm v).1 },
          acc.2 || (bmRemove C p (writeOp H acc.1 (.remove v)).bm v).2)) (st, c0)).1 ghost' := by
  induction vs with
  | nil => intro st c0 ghost hi _; exact ⟨ghost, hi⟩
  | cons v t ih =>
    intro st c0 ghost hi hv
    have hvv := hv v (by simp)
    obtain ⟨d1, d2, _⟩ := bmRemove_spec ok p st.bm v hi.good hvv
    have := linv_write C ok H dec snap st ghost (.remove v) (bmRemove C p st.bm v).1 hi hvv hvv d1 d2
    simp only [foldl_cons]
    exact ih _ _ _ this (fun w hw => hv w (by simp [hw]))

theorem good_init' (C : Coll σ) (ok : CollOK C) : Good C ok (BM.init C) := by
  have hl : ∀ k, lk C C.init k = none := by intro k; unfold lk; rw [ok.init_ents]; rfl
  refine ⟨ok.init, ⟨?_, ?_, ?_⟩⟩
  · intro k i h; rw [show (BM.init C).c = C.init from rfl, hl] at h; cases h
  · intro k i h; rw [show (BM.init C).c = C.init from rfl, hl] at h; cases h
  · intro k k' i h; rw [show (BM.init C).c = C.init from rfl, hl] at h; cases h

theorem linv_init (C : Coll σ) (ok : CollOK C) (H : Bytes → Nat) (dec : Bytes → Option (List (Nat × Cell))) :
    LInv C ok H dec (linit C) := by
  refine ⟨[], ⟨good_init' C ok, rfl, fun _ h => absurd h (by simp), ?_, rfl, rfl⟩⟩
  show slice C (BM.init C) = []
  unfold slice iterEnts
  rw [show (BM.init C).c = C.init from rfl, ok.init_ents]; rfl

end PV.C05
