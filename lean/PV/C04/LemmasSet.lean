/-
Helper lemmas for C04: ascending lists (union / difference by merging), value-level bitmaps
(VMap), and the algebra of ImportRoaringBits.  Core Lean only.
-/
import PV.C04.Model
namespace PV.C04

/-! ### ascending lists: union / difference -/

abbrev Asc (l : List Nat) : Prop := l.Pairwise (· < ·)

theorem mem_unionAsc (xs ys : List Nat) (a : Nat) : a ∈ unionAsc xs ys ↔ a ∈ xs ∨ a ∈ ys := by
  induction xs, ys using unionAsc.induct with
  | case1 ys => simp [unionAsc]
  | case2 xs h => simp [unionAsc]
  | case3 x xs y ys hlt ih => rw [unionAsc, if_pos hlt]; simp only [List.mem_cons, ih]; grind
  | case4 x xs y ys h1 h2 ih => rw [unionAsc, if_neg h1, if_pos h2]; simp only [List.mem_cons, ih]; grind
  | case5 x xs y ys h1 h2 ih =>
    rw [unionAsc, if_neg h1, if_neg h2]; simp only [List.mem_cons, ih]
    have : x = y := by omega
    subst this; grind

theorem asc_unionAsc (xs ys : List Nat) (hx : Asc xs) (hy : Asc ys) : Asc (unionAsc xs ys) := by
  induction xs, ys using unionAsc.induct with
  | case1 ys => simpa [unionAsc] using hy
  | case2 xs h => simpa [unionAsc] using hx
  | case3 x xs y ys hlt ih =>
    rw [unionAsc, if_pos hlt]
    have hx' := List.pairwise_cons.mp hx
    have hy' := List.pairwise_cons.mp hy
    refine List.pairwise_cons.mpr ⟨?_, ih hx'.2 hy⟩
    intro a ha
    rcases (mem_unionAsc _ _ a).mp ha with h | h
    · exact hx'.1 a h
    · rcases List.mem_cons.mp h with h | h
      · omega
      · have := hy'.1 a h; omega
  | case4 x xs y ys h1 h2 ih =>
    rw [unionAsc, if_neg h1, if_pos h2]
    have hx' := List.pairwise_cons.mp hx
    have hy' := List.pairwise_cons.mp hy
    refine List.pairwise_cons.mpr ⟨?_, ih hx hy'.2⟩
    intro a ha
    rcases (mem_unionAsc _ _ a).mp ha with h | h
    · rcases List.mem_cons.mp h with h | h
      · omega
      · have := hx'.1 a h; omega
    · exact hy'.1 a h
  | case5 x xs y ys h1 h2 ih =>
    rw [unionAsc, if_neg h1, if_neg h2]
    have hx' := List.pairwise_cons.mp hx
    have hy' := List.pairwise_cons.mp hy
    refine List.pairwise_cons.mpr ⟨?_, ih hx'.2 hy'.2⟩
    intro a ha
    rcases (mem_unionAsc _ _ a).mp ha with h | h
    · exact hx'.1 a h
    · have := hy'.1 a h; omega

theorem length_unionAsc_ge (xs ys : List Nat) : xs.length ≤ (unionAsc xs ys).length := by
  induction xs, ys using unionAsc.induct with
  | case1 ys => simp [unionAsc]
  | case2 xs h => simp [unionAsc]
  | case3 x xs y ys hlt ih => rw [unionAsc, if_pos hlt]; simp only [List.length_cons]; omega
  | case4 x xs y ys h1 h2 ih => rw [unionAsc, if_neg h1, if_pos h2]; simp only [List.length_cons] at *; omega
  | case5 x xs y ys h1 h2 ih => rw [unionAsc, if_neg h1, if_neg h2]; simp only [List.length_cons]; omega

theorem unionAsc_eq_left_of_length (xs ys : List Nat) (h : (unionAsc xs ys).length = xs.length) :
    unionAsc xs ys = xs := by
  induction xs, ys using unionAsc.induct with
  | case1 ys => simp [unionAsc] at h ⊢; exact h
  | case2 xs h' => simp [unionAsc]
  | case3 x xs y ys hlt ih =>
    rw [unionAsc, if_pos hlt] at h ⊢; simp only [List.length_cons] at h; rw [ih (by omega)]
  | case4 x xs y ys h1 h2 ih =>
    rw [unionAsc, if_neg h1, if_pos h2] at h
    have := length_unionAsc_ge (x :: xs) ys
    simp only [List.length_cons] at h this; omega
  | case5 x xs y ys h1 h2 ih =>
    rw [unionAsc, if_neg h1, if_neg h2] at h ⊢; simp only [List.length_cons] at h; rw [ih (by omega)]

theorem unionAsc_nil_left (ys : List Nat) : unionAsc [] ys = ys := by simp [unionAsc]

theorem mem_diffAsc (xs ys : List Nat) (hx : Asc xs) (hy : Asc ys) (a : Nat) :
    a ∈ diffAsc xs ys ↔ a ∈ xs ∧ a ∉ ys := by
  induction xs, ys using diffAsc.induct with
  | case1 ys => simp [diffAsc]
  | case2 xs h => simp [diffAsc]
  | case3 x xs y ys hlt ih =>
    rw [diffAsc, if_pos hlt]
    have hx' := List.pairwise_cons.mp hx
    have hy' := List.pairwise_cons.mp hy
    simp only [List.mem_cons, ih hx'.2 hy]
    constructor
    · rintro (h | h)
      · subst h; refine ⟨Or.inl rfl, ?_⟩
        rintro (h | h)
        · omega
        · have := hy'.1 a h; omega
      · exact ⟨Or.inr h.1, h.2⟩
    · rintro ⟨h | h, hn⟩
      · exact Or.inl h
      · exact Or.inr ⟨h, hn⟩
  | case4 x xs y ys h1 h2 ih =>
    rw [diffAsc, if_neg h1, if_pos h2]
    have hx' := List.pairwise_cons.mp hx
    have hy' := List.pairwise_cons.mp hy
    rw [ih hx hy'.2]
    simp only [List.mem_cons]
    constructor
    · rintro ⟨h, hn⟩
      refine ⟨h, ?_⟩
      rintro (h' | h')
      · subst h'
        rcases h with h | h
        · omega
        · have := hx'.1 a h; omega
      · exact hn h'
    · rintro ⟨h, hn⟩
      exact ⟨h, fun h' => hn (Or.inr h')⟩
  | case5 x xs y ys h1 h2 ih =>
    rw [diffAsc, if_neg h1, if_neg h2]
    have hxy : x = y := by omega
    subst hxy
    have hx' := List.pairwise_cons.mp hx
    have hy' := List.pairwise_cons.mp hy
    rw [ih hx'.2 hy'.2]
    simp only [List.mem_cons]
    constructor
    · rintro ⟨h, hn⟩
      refine ⟨Or.inr h, ?_⟩
      rintro (h' | h')
      · subst h'; have := hx'.1 a h; omega
      · exact hn h'
    · rintro ⟨h | h, hn⟩
      · exact absurd (Or.inl h) hn
      · exact ⟨h, fun h' => hn (Or.inr h')⟩

theorem diffAsc_sublist (xs ys : List Nat) : (diffAsc xs ys).Sublist xs := by
  induction xs, ys using diffAsc.induct with
  | case1 ys => simp [diffAsc]
  | case2 xs h => simp [diffAsc]
  | case3 x xs y ys hlt ih => rw [diffAsc, if_pos hlt]; exact ih.cons_cons x
  | case4 x xs y ys h1 h2 ih => rw [diffAsc, if_neg h1, if_pos h2]; exact ih
  | case5 x xs y ys h1 h2 ih => rw [diffAsc, if_neg h1, if_neg h2]; exact ih.cons x

theorem asc_diffAsc (xs ys : List Nat) (hx : Asc xs) : Asc (diffAsc xs ys) :=
  hx.sublist (diffAsc_sublist xs ys)

theorem length_diffAsc_le (xs ys : List Nat) : (diffAsc xs ys).length ≤ xs.length :=
  (diffAsc_sublist xs ys).length_le

theorem diffAsc_eq_left_of_length (xs ys : List Nat) (h : (diffAsc xs ys).length = xs.length) :
    diffAsc xs ys = xs :=
  (diffAsc_sublist xs ys).eq_of_length h

/-- Two ascending lists with the same members are equal. -/
theorem asc_ext (xs ys : List Nat) (hx : Asc xs) (hy : Asc ys) (h : ∀ a, a ∈ xs ↔ a ∈ ys) : xs = ys := by
  induction xs generalizing ys with
  | nil =>
    cases ys with
    | nil => rfl
    | cons y ys => have := (h y).mpr (by simp); simp at this
  | cons x xs ih =>
    cases ys with
    | nil => have := (h x).mp (by simp); simp at this
    | cons y ys =>
      have hx' := List.pairwise_cons.mp hx
      have hy' := List.pairwise_cons.mp hy
      have hxy : x = y := by
        have h1 := (h x).mp (by simp)
        have h2 := (h y).mpr (by simp)
        rcases List.mem_cons.mp h1 with e | e
        · exact e
        · rcases List.mem_cons.mp h2 with e' | e'
          · exact e'.symm
          · have := hx'.1 y e'; have := hy'.1 x e; omega
      subst hxy
      congr 1
      apply ih ys hx'.2 hy'.2
      intro a
      constructor
      · intro ha
        have := (h a).mp (List.mem_cons_of_mem _ ha)
        rcases List.mem_cons.mp this with e | e
        · subst e; have := hx'.1 a ha; omega
        · exact e
      · intro ha
        have := (h a).mpr (List.mem_cons_of_mem _ ha)
        rcases List.mem_cons.mp this with e | e
        · subst e; have := hy'.1 a ha; omega
        · exact e

/-! ### value-level bitmaps -/

structure VMapOk (m : VMap) : Prop where
  keys : m.Pairwise (fun a b => a.1 < b.1)
  vals : ∀ kv ∈ m, Asc kv.2 ∧ ∀ v ∈ kv.2, v < 65536

theorem VMapOk.tail {kv : Nat × List Nat} {r : VMap} (h : VMapOk (kv :: r)) : VMapOk r :=
  ⟨(List.pairwise_cons.mp h.keys).2, fun x hx => h.vals x (List.mem_cons_of_mem _ hx)⟩

theorem get?_cons (kv : Nat × List Nat) (r : VMap) (k : Nat) :
    VMap.get? (kv :: r) k = if kv.1 = k then some kv.2 else VMap.get? r k := by
  unfold VMap.get?
  simp only [List.find?_cons]
  by_cases h : kv.1 = k <;> simp [h]

theorem get?_none_of_lt (m : VMap) (k : Nat) (h : ∀ kv ∈ m, k < kv.1) : VMap.get? m k = none := by
  induction m with
  | nil => rfl
  | cons kv r ih =>
    rw [get?_cons, if_neg (by have := h kv (by simp); omega)]
    exact ih (fun x hx => h x (List.mem_cons_of_mem _ hx))

theorem get?_put_same (m : VMap) (k : Nat) (vs : List Nat) :
    VMap.get? (VMap.put k vs m) k = some vs := by
  induction m with
  | nil => simp [VMap.put, get?_cons]
  | cons kv r ih =>
    simp only [VMap.put]
    split
    · simp [get?_cons]
    · split
      · simp [get?_cons]
      · rw [get?_cons, if_neg (by omega)]; exact ih

theorem get?_put_ne (m : VMap) (hm : VMapOk m) (k k' : Nat) (vs : List Nat) (hne : k' ≠ k) :
    VMap.get? (VMap.put k vs m) k' = VMap.get? m k' := by
  induction m with
  | nil => simp [VMap.put, get?_cons, VMap.get?]; intro h; exact absurd h.symm hne
  | cons kv r ih =>
    simp only [VMap.put]
    split
    · rw [get?_cons, if_neg (by simpa using fun h => hne h.symm)]
    · split
      · next h1 h2 => rw [get?_cons, get?_cons, if_neg (by simpa using fun h => hne h.symm), if_neg (by omega)]
      · rw [get?_cons, get?_cons]; split
        · rfl
        · exact ih hm.tail

theorem put_ok (m : VMap) (hm : VMapOk m) (k : Nat) (vs : List Nat) (ha : Asc vs) (hb : ∀ v ∈ vs, v < 65536) :
    VMapOk (VMap.put k vs m) ∧ ∀ kv ∈ VMap.put k vs m, kv.1 = k ∨ kv ∈ m := by
  induction m with
  | nil =>
    refine ⟨⟨by simp [VMap.put], ?_⟩, ?_⟩
    · intro kv hkv; simp [VMap.put] at hkv; subst hkv; exact ⟨ha, hb⟩
    · intro kv hkv; simp [VMap.put] at hkv; subst hkv; exact Or.inl rfl
  | cons x r ih =>
    have hk := List.pairwise_cons.mp hm.keys
    simp only [VMap.put]
    split
    · next hlt =>
      refine ⟨⟨List.pairwise_cons.mpr ⟨?_, hm.keys⟩, ?_⟩, ?_⟩
      · intro y hy
        rcases List.mem_cons.mp hy with e | e
        · subst e; exact hlt
        · have := hk.1 y e; show k < y.1; omega
      · intro kv hkv
        rcases List.mem_cons.mp hkv with e | e
        · subst e; exact ⟨ha, hb⟩
        · exact hm.vals kv e
      · intro kv hkv
        rcases List.mem_cons.mp hkv with e | e
        · subst e; exact Or.inl rfl
        · exact Or.inr e
    · split
      · next h1 h2 =>
        refine ⟨⟨List.pairwise_cons.mpr ⟨?_, hk.2⟩, ?_⟩, ?_⟩
        · intro y hy; have := hk.1 y hy; show k < y.1; omega
        · intro kv hkv
          rcases List.mem_cons.mp hkv with e | e
          · subst e; exact ⟨ha, hb⟩
          · exact hm.vals kv (List.mem_cons_of_mem _ e)
        · intro kv hkv
          rcases List.mem_cons.mp hkv with e | e
          · subst e; exact Or.inl rfl
          · exact Or.inr (List.mem_cons_of_mem _ e)
      · next h1 h2 =>
        obtain ⟨ih1, ih2⟩ := ih hm.tail
        refine ⟨⟨List.pairwise_cons.mpr ⟨?_, ih1.keys⟩, ?_⟩, ?_⟩
        · intro y hy
          rcases ih2 y hy with e | e
          · show x.1 < y.1; omega
          · exact hk.1 y e
        · intro kv hkv
          rcases List.mem_cons.mp hkv with e | e
          · subst e; exact hm.vals _ (by simp)
          · exact ih1.vals kv e
        · intro kv hkv
          rcases List.mem_cons.mp hkv with e | e
          · subst e; exact Or.inr (by simp)
          · rcases ih2 kv e with e' | e'
            · exact Or.inl e'
            · exact Or.inr (List.mem_cons_of_mem _ e')

theorem values_cons (kv : Nat × List Nat) (r : VMap) :
    VMap.values (kv :: r) = kv.2.map (kv.1 * 65536 + ·) ++ VMap.values r := by
  simp [VMap.values]

/-- Membership in the value list of a well-formed map, through `get?`. -/
theorem mem_values_iff (m : VMap) (hm : VMapOk m) (x : Nat) :
    x ∈ m.values ↔ ∃ vs, m.get? (x / 65536) = some vs ∧ x % 65536 ∈ vs := by
  induction m with
  | nil => simp [VMap.values, VMap.get?]
  | cons kv r ih =>
    have hk := List.pairwise_cons.mp hm.keys
    have hv := hm.vals kv (by simp)
    rw [values_cons, List.mem_append, get?_cons, ih hm.tail]
    constructor
    · rintro (h | h)
      · obtain ⟨v, hv1, hv2⟩ := List.mem_map.mp h
        have := hv.2 v hv1
        have e1 : x / 65536 = kv.1 := by omega
        have e2 : x % 65536 = v := by omega
        rw [if_pos e1.symm]
        exact ⟨kv.2, rfl, e2 ▸ hv1⟩
      · obtain ⟨vs, h1, h2⟩ := h
        have hne : kv.1 ≠ x / 65536 := by
          intro e
          rw [get?_none_of_lt r (x / 65536) (fun y hy => by have := hk.1 y hy; omega)] at h1
          exact absurd h1 (by simp)
        rw [if_neg hne]
        exact ⟨vs, h1, h2⟩
    · rintro ⟨vs, h1, h2⟩
      split at h1
      · next e =>
        left
        simp only [Option.some.injEq] at h1
        subst h1
        refine List.mem_map.mpr ⟨x % 65536, h2, ?_⟩
        have := Nat.div_add_mod x 65536
        omega
      · right; exact ⟨vs, h1, h2⟩

theorem values_length_put (m : VMap) (hm : VMapOk m) (k : Nat) (vs : List Nat) :
    (VMap.put k vs m).values.length + ((m.get? k).getD []).length = m.values.length + vs.length := by
  induction m with
  | nil => simp [VMap.put, VMap.values, VMap.get?]
  | cons kv r ih =>
    have hk := List.pairwise_cons.mp hm.keys
    simp only [VMap.put]
    split
    · next hlt =>
      rw [get?_none_of_lt (kv :: r) k (by
        intro y hy
        rcases List.mem_cons.mp hy with e | e
        · subst e; exact hlt
        · have := hk.1 y e; omega)]
      simp only [values_cons, List.length_append, List.length_map, Option.getD_none, List.length_nil]
      omega
    · split
      · next h1 h2 =>
        rw [get?_cons, if_pos h2.symm]
        simp only [values_cons, List.length_append, List.length_map, Option.getD_some]
        omega
      · next h1 h2 =>
        rw [get?_cons, if_neg (by omega)]
        have := ih hm.tail
        simp only [values_cons, List.length_append, List.length_map]
        omega

/-! ### ImportRoaringBits, per item -/

theorem asc_bounded_length (l : List Nat) (lo hi : Nat) (ha : Asc l) (hb : ∀ v ∈ l, lo ≤ v ∧ v < hi) :
    l.length + lo ≤ max hi lo := by
  induction l generalizing lo with
  | nil => simp; omega
  | cons a r ih =>
    have ha' := List.pairwise_cons.mp ha
    have h1 := hb a (by simp)
    have := ih (a + 1) ha'.2 (fun v hv => ⟨by have := ha'.1 v hv; omega, (hb v (by simp [hv])).2⟩)
    simp only [List.length_cons]; omega

theorem asc_length_le (l : List Nat) (ha : Asc l) (hb : ∀ v ∈ l, v < 65536) : l.length ≤ 65536 := by
  have := asc_bounded_length l 0 65536 ha (fun v hv => ⟨Nat.zero_le _, hb v hv⟩)
  omega

theorem put_same (m : VMap) (hm : VMapOk m) (k : Nat) (old : List Nat) (h : m.get? k = some old) :
    VMap.put k old m = m := by
  induction m with
  | nil => simp [VMap.get?] at h
  | cons kv r ih =>
    have hk := List.pairwise_cons.mp hm.keys
    rw [get?_cons] at h
    simp only [VMap.put]
    split
    · next hlt =>
      split at h
      · omega
      · rw [get?_none_of_lt r k (fun y hy => by have := hk.1 y hy; omega)] at h; simp at h
    · split
      · next h1 h2 =>
        rw [if_pos h2.symm] at h
        simp only [Option.some.injEq] at h
        subst h; subst h2; rfl
      · next h1 h2 =>
        rw [if_neg (by omega)] at h
        rw [ih hm.tail h]

def oldOf (m : VMap) (k : Nat) : List Nat := (m.get? k).getD []

structure ItemOk (it : Item) : Prop where
  asc : Asc it.c.values
  bound : ∀ v ∈ it.c.values, v < 65536
  n : it.n = it.c.values.length

theorem oldOf_ok (m : VMap) (hm : VMapOk m) (k : Nat) : Asc (oldOf m k) ∧ ∀ v ∈ oldOf m k, v < 65536 := by
  unfold oldOf
  cases h : m.get? k with
  | none => simp
  | some old =>
    simp only [Option.getD_some]
    unfold VMap.get? at h
    obtain ⟨kv, hkv, rfl⟩ := Option.map_eq_some_iff.mp h
    exact hm.vals kv (List.mem_of_find?_eq_some hkv)

theorem importSetItem_eq (m : VMap) (hm : VMapOk m) (it : Item) (hit : ItemOk it) :
    importSetItem m it =
      (VMap.put it.key (unionAsc (oldOf m it.key) it.c.values) m,
       (unionAsc (oldOf m it.key) it.c.values).length - (oldOf m it.key).length) := by
  have hold := oldOf_ok m hm it.key
  unfold importSetItem
  unfold oldOf at *
  cases h : m.get? it.key with
  | none => simp [unionAsc_nil_left, hit.n]
  | some old =>
    rw [h] at hold
    simp only [Option.getD_some] at hold ⊢
    have hnw := asc_unionAsc old it.c.values hold.1 hit.asc
    have hnwb : ∀ v ∈ unionAsc old it.c.values, v < 65536 := by
      intro v hv
      rcases (mem_unionAsc _ _ v).mp hv with e | e
      · exact hold.2 v e
      · exact hit.bound v e
    have hge := length_unionAsc_ge old it.c.values
    split
    · next h65 =>
      have hle := asc_length_le _ hnw hnwb
      have := unionAsc_eq_left_of_length old it.c.values (by omega)
      rw [this, put_same m hm _ _ h]; simp
    · split
      · next h65 h0 =>
        have : old = [] := List.length_eq_zero_iff.mp h0
        subst this
        simp [unionAsc_nil_left, hit.n]
      · split
        · rfl
        · next hne =>
          have hne' : (unionAsc old it.c.values).length = old.length := by
            simpa using hne
          have := unionAsc_eq_left_of_length old it.c.values hne'
          rw [this, put_same m hm _ _ h]; simp

theorem importClearItem_eq (m : VMap) (hm : VMapOk m) (it : Item) :
    importClearItem m it =
      (if (m.get? it.key).isSome then VMap.put it.key (diffAsc (oldOf m it.key) it.c.values) m else m,
       (oldOf m it.key).length - (diffAsc (oldOf m it.key) it.c.values).length) := by
  unfold importClearItem oldOf
  cases h : m.get? it.key with
  | none => simp [diffAsc]
  | some old =>
    simp only [Option.getD_some, Option.isSome_some, ↓reduceIte]
    split
    · next h0 =>
      have : old = [] := List.length_eq_zero_iff.mp h0
      subst this
      simp [diffAsc, put_same m hm _ _ h]
    · split
      · rfl
      · next hne =>
        have hne' : (diffAsc old it.c.values).length = old.length := by simpa using hne
        have := diffAsc_eq_left_of_length old it.c.values hne'
        rw [this, put_same m hm _ _ h]; simp

/-! ### ImportRoaringBits, set level -/

theorem values_asc (m : VMap) (hm : VMapOk m) : Asc m.values := by
  induction m with
  | nil => simp [VMap.values]
  | cons kv r ih =>
    have hk := List.pairwise_cons.mp hm.keys
    have hv := hm.vals kv (by simp)
    rw [values_cons]
    refine List.pairwise_append.mpr ⟨?_, ih hm.tail, ?_⟩
    · exact List.Pairwise.map _ (fun a b hab => by omega) hv.1
    · intro a ha b hb
      obtain ⟨v, hv1, rfl⟩ := List.mem_map.mp ha
      have hvb := hv.2 v hv1
      obtain ⟨ws, h1, h2⟩ := (mem_values_iff r hm.tail b).mp hb
      unfold VMap.get? at h1
      obtain ⟨kv', hkv', rfl⟩ := Option.map_eq_some_iff.mp h1
      have hmem := List.mem_of_find?_eq_some hkv'
      have hkey : kv'.1 = b / 65536 := by simpa using List.find?_some hkv'
      have := hk.1 kv' hmem
      have := Nat.div_add_mod b 65536
      omega

/-- Global values of an item. -/
def Item.gvalues (it : Item) : List Nat := it.c.values.map (it.key * 65536 + ·)

theorem mem_gvalues (it : Item) (hit : ItemOk it) (x : Nat) :
    x ∈ it.gvalues ↔ x / 65536 = it.key ∧ x % 65536 ∈ it.c.values := by
  unfold Item.gvalues
  constructor
  · intro h
    obtain ⟨v, hv1, rfl⟩ := List.mem_map.mp h
    have := hit.bound v hv1
    refine ⟨by omega, ?_⟩
    have : (it.key * 65536 + v) % 65536 = v := by omega
    rw [this]; exact hv1
  · rintro ⟨h1, h2⟩
    refine List.mem_map.mpr ⟨x % 65536, h2, ?_⟩
    have := Nat.div_add_mod x 65536
    omega

theorem mem_oldOf (m : VMap) (hm : VMapOk m) (x : Nat) : x ∈ m.values ↔ x % 65536 ∈ oldOf m (x / 65536) := by
  rw [mem_values_iff m hm]
  unfold oldOf
  cases h : m.get? (x / 65536) with
  | none => simp
  | some old => simp

theorem mem_put (m : VMap) (hm : VMapOk m) (k : Nat) (vs : List Nat) (ha : Asc vs) (hb : ∀ v ∈ vs, v < 65536)
    (x : Nat) :
    x ∈ (VMap.put k vs m).values ↔ (x / 65536 = k ∧ x % 65536 ∈ vs) ∨ (x / 65536 ≠ k ∧ x ∈ m.values) := by
  have hok := (put_ok m hm k vs ha hb).1
  rw [mem_values_iff _ hok, mem_values_iff m hm]
  by_cases hk : x / 65536 = k
  · rw [hk, get?_put_same]; simp
  · rw [get?_put_ne m hm k _ vs hk]; simp [hk]

theorem importSetItem_spec (m : VMap) (hm : VMapOk m) (it : Item) (hit : ItemOk it) :
    VMapOk (importSetItem m it).1
    ∧ (∀ x, x ∈ (importSetItem m it).1.values ↔ x ∈ m.values ∨ x ∈ it.gvalues)
    ∧ (importSetItem m it).2 + m.values.length = (importSetItem m it).1.values.length := by
  rw [importSetItem_eq m hm it hit]
  have hold := oldOf_ok m hm it.key
  have hnw := asc_unionAsc _ it.c.values hold.1 hit.asc
  have hnwb : ∀ v ∈ unionAsc (oldOf m it.key) it.c.values, v < 65536 := by
    intro v hv
    rcases (mem_unionAsc _ _ v).mp hv with e | e
    · exact hold.2 v e
    · exact hit.bound v e
  refine ⟨(put_ok m hm _ _ hnw hnwb).1, ?_, ?_⟩
  · intro x
    simp only []
    rw [mem_put m hm _ _ hnw hnwb, mem_unionAsc, mem_gvalues it hit, mem_oldOf m hm]
    by_cases hk : x / 65536 = it.key
    · rw [hk]; simp
    · simp [hk]
  · have h1 := values_length_put m hm it.key (unionAsc (oldOf m it.key) it.c.values)
    have h2 := length_unionAsc_ge (oldOf m it.key) it.c.values
    unfold oldOf at *
    simp only []
    omega

theorem importClearItem_spec (m : VMap) (hm : VMapOk m) (it : Item) (hit : ItemOk it) :
    VMapOk (importClearItem m it).1
    ∧ (∀ x, x ∈ (importClearItem m it).1.values ↔ x ∈ m.values ∧ x ∉ it.gvalues)
    ∧ (importClearItem m it).2 + (importClearItem m it).1.values.length = m.values.length := by
  rw [importClearItem_eq m hm it]
  have hold := oldOf_ok m hm it.key
  have hnw := asc_diffAsc (oldOf m it.key) it.c.values hold.1
  have hnwb : ∀ v ∈ diffAsc (oldOf m it.key) it.c.values, v < 65536 := by
    intro v hv
    exact hold.2 v ((diffAsc_sublist _ _).subset hv)
  cases h : m.get? it.key with
  | none =>
    simp only [Option.isSome_none, Bool.false_eq_true, ↓reduceIte]
    have ho : oldOf m it.key = [] := by simp [oldOf, h]
    refine ⟨hm, ?_, by simp [ho, diffAsc]⟩
    intro x
    rw [mem_gvalues it hit, mem_oldOf m hm]
    constructor
    · intro hx
      refine ⟨hx, ?_⟩
      rintro ⟨h1, _⟩
      rw [h1, ho] at hx; simp at hx
    · exact fun hx => hx.1
  | some old =>
    simp only [Option.isSome_some, ↓reduceIte]
    refine ⟨(put_ok m hm _ _ hnw hnwb).1, ?_, ?_⟩
    · intro x
      rw [mem_put m hm _ _ hnw hnwb, mem_diffAsc _ _ hold.1 hit.asc, mem_gvalues it hit, mem_oldOf m hm]
      by_cases hk : x / 65536 = it.key
      · rw [hk]; simp
      · simp [hk]
    · have h1 := values_length_put m hm it.key (diffAsc (oldOf m it.key) it.c.values)
      have h2 := length_diffAsc_le (oldOf m it.key) it.c.values
      unfold oldOf at *
      omega

/-- All global values a list of items carries. -/
def itemsValues (items : List Item) : List Nat := items.flatMap Item.gvalues

theorem importItems_set_spec (items : List Item) (m : VMap) (hm : VMapOk m)
    (hit : ∀ it ∈ items, ItemOk it) :
    VMapOk (importItems false m items).1
    ∧ (∀ x, x ∈ (importItems false m items).1.values ↔ x ∈ m.values ∨ x ∈ itemsValues items)
    ∧ (importItems false m items).2 + m.values.length = (importItems false m items).1.values.length := by
  induction items generalizing m with
  | nil => simp [importItems, itemsValues, hm]
  | cons it r ih =>
    obtain ⟨h1, h2, h3⟩ := importSetItem_spec m hm it (hit it (by simp))
    obtain ⟨i1, i2, i3⟩ := ih (importSetItem m it).1 h1 (fun x hx => hit x (by simp [hx]))
    simp only [importItems, Bool.false_eq_true, ↓reduceIte]
    refine ⟨i1, ?_, ?_⟩
    · intro x
      rw [i2 x, h2 x]
      simp only [itemsValues, List.flatMap_cons, List.mem_append]
      exact or_assoc
    · omega

theorem importItems_clear_spec (items : List Item) (m : VMap) (hm : VMapOk m)
    (hit : ∀ it ∈ items, ItemOk it) :
    VMapOk (importItems true m items).1
    ∧ (∀ x, x ∈ (importItems true m items).1.values ↔ x ∈ m.values ∧ x ∉ itemsValues items)
    ∧ (importItems true m items).2 + (importItems true m items).1.values.length = m.values.length := by
  induction items generalizing m with
  | nil => simp [importItems, itemsValues, hm]
  | cons it r ih =>
    obtain ⟨h1, h2, h3⟩ := importClearItem_spec m hm it (hit it (by simp))
    obtain ⟨i1, i2, i3⟩ := ih (importClearItem m it).1 h1 (fun x hx => hit x (by simp [hx]))
    simp only [importItems, ↓reduceIte]
    refine ⟨i1, ?_, ?_⟩
    · intro x
      rw [i2 x, h2 x]
      simp only [itemsValues, List.flatMap_cons, List.mem_append, not_or]
      exact and_assoc
    · omega

end PV.C04
