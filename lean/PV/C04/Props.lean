/-
C04 property theorems.  Core Lean only.

Property: decoding the encoding of any bitmap yields the same set and flags; decoding valid
official-format bytes yields the set the format describes and leaves the input unmodified, so
decoding twice gives the same set; importing encoded bytes in set (clear) mode = union with
(difference from) the decoded set, and `changed` = the number of bits that changed.

The model (Model.lean) follows roaring/roaring.go on branch verif/a03, i.e. after the `fix:`
commits listed in design/C04.md.  `Res.panic` is the outcome of any out-of-bounds access.
-/
import PV.C04.LemmasOfficialIter
namespace PV.C04

/-! ### Pilosa format -/

/-- `UnmarshalBinary(WriteTo(b))` succeeds, leaves the bytes alone, yields the same set and the
same flags, and finds no op log.  `BitmapWf`: containers as the kernels keep them (ascending
arrays, 8192-byte bitmaps, ordered disjoint runs; cardinality field = number of values; empty
containers allowed), ascending keys < 2^48 (keys are value >> 16).  The size hypothesis: offsets are uint32. -/
theorem C04_roundtrip (b : Bitmap) (hb : BitmapWf b) (hsize : (encodeP b).length < 2 ^ 32) :
    ∃ r, unmarshal (encodeP b) = .ok (r, encodeP b)
      ∧ r.vals.values = b.values ∧ r.flags = b.flags % 256 ∧ r.ops = 0 ∧ r.opN = 0 := by
  refine ⟨_, unmarshal_encodeP b hb hsize, ?_, rfl, rfl, rfl⟩
  show VMap.values (entriesToVMap b.optimize.cs) = b.values
  rw [values_entriesToVMap]
  exact (unmarshalPilosa_encodeP b hb hsize).2

/-- The same without the Optimize pass (`writeToUnoptimized`): every container comes back in
the encoding it was written in. -/
theorem C04_roundtrip_unoptimized (b : Bitmap)
    (hcs : ∀ e ∈ b.cs.filter (fun e => e.n > 0), EntryEnc e)
    (hasc : (b.cs.filter (fun e => e.n > 0)).Pairwise (fun a b => a.key < b.key))
    (hsize : (writeUnopt b).length < 2 ^ 32) :
    unmarshalPilosa (writeUnopt b) =
      .ok { flags := b.flags % 256, cs := b.cs.filter (fun e => e.n > 0),
            vals := entriesToVMap (b.cs.filter (fun e => e.n > 0)), ops := 0, opN := 0 } :=
  unmarshalPilosa_writeUnopt b hcs hasc hsize

/-! ### official format -/

/-- Decoding what the reference encoder of the official format (`Spec.encodeOfficial`, written
from the RoaringFormatSpec: cookie 12346 / 12347 + container count, is-run bitmap, key and
cardinality-1 per container, offset header unless there are run containers and fewer than four
containers, arrays up to and including 4096 values, runs as start/length-1) wrote for the set
grouped as `g`, in each of its three modes (no runs / runs where smaller / all runs), yields
exactly that set, with flags 0 and no op log, and leaves the bytes alone.  `GroupOk`: key
< 65536, non-empty ascending values < 65536 — every set of 32-bit values has such a grouping;
up to all 65536 containers and full containers (65536 values) included.  The size hypothesis:
offsets are uint32. -/
theorem C04_official (mode : Nat) (g : VMap) (hg : ∀ kv ∈ g, GroupOk kv)
    (hk : g.Pairwise (fun a b => a.1 < b.1)) (hsize : (Spec.encodeOfficial mode g).length < 2 ^ 32) :
    ∃ r, unmarshal (Spec.encodeOfficial mode g) = .ok (r, Spec.encodeOfficial mode g)
      ∧ r.vals.values = VMap.values g ∧ r.flags = 0 ∧ r.ops = 0 ∧ r.opN = 0 :=
  ⟨_, unmarshal_encodeOfficial mode g hg hk hsize, values_gentry mode g hg, rfl, rfl, rfl⟩

/-! ### the input buffer -/

/-- Decoding never changes the caller's bytes (any input, either format). -/
theorem C04_input_unmodified (d d' : Bytes) (r : Decoded) (h : unmarshal d = .ok (r, d')) : d' = d := by
  unfold unmarshal at h
  split at h
  · simp at h
  · cases h1 : rd "unmarshal.magic" d 0 2 with
    | ok magic =>
      rw [h1] at h
      simp only [Res.ok_bind] at h
      split at h
      · cases h2 : unmarshalPilosa d with
        | ok r' => rw [h2] at h; simp only [Res.ok_bind, Res.pure_eq, Res.ok.injEq, Prod.mk.injEq] at h; exact h.2.symm
        | err e => rw [h2] at h; simp at h
        | panic s => rw [h2] at h; simp at h
      · cases h2 : unmarshalOfficial d with
        | ok r' => rw [h2] at h; simp only [Res.ok_bind, Res.pure_eq, Res.ok.injEq, Prod.mk.injEq] at h; exact h.2.symm
        | err e => rw [h2] at h; simp at h
        | panic s => rw [h2] at h; simp at h
    | err e => rw [h1] at h; simp at h
    | panic s => rw [h1] at h; simp at h

/-- Decoding the same slice a second time gives the same result. -/
theorem C04_decode_twice (d d' : Bytes) (r : Decoded) (h : unmarshal d = .ok (r, d')) :
    unmarshal d' = .ok (r, d') := by
  have := C04_input_unmodified d d' r h
  subst this
  exact h

/-- Regression witness for the defect fixed by
`fix: official-format run containers are decoded without rewriting the caller's buffer`: the
pre-fix `readWithRuns` step (kept in Model.lean as `oldReadWithRuns1`) rewrote the buffer for a
container of three runs — DESIGN section 8 #3; the same bytes are `corpus/C04/official-3runs.ops`. -/
theorem C04_old_readWithRuns_witness :
    let d : Bytes := [59, 48, 0, 0, 1, 0, 0, 8, 0, 3, 0, 1, 0, 2, 0, 10, 0, 2, 0, 20, 0, 2, 0]
    (oldReadWithRuns1 d 9).map (·.2) ≠ some d ∧
    (unmarshal d).isPanic = false ∧ (match unmarshal d with | .ok (_, d') => d' == d | _ => false) = true := by
  decide

/-! ### ImportRoaringBits -/

/-- The specification's union / difference are characterised by membership. -/
theorem C04_spec_union_mem (a b : List Nat) (x : Nat) : x ∈ Spec.union a b ↔ x ∈ a ∨ x ∈ b :=
  mem_unionAsc a b x

theorem C04_spec_diff_mem (a b : List Nat) (ha : Asc a) (hb : Asc b) (x : Nat) :
    x ∈ Spec.diff a b ↔ x ∈ a ∧ x ∉ b :=
  mem_diffAsc a b ha hb x

/-- Any payload (either format) that `ImportRoaringBits` accepts — its walk ends in io.EOF and
every container is consistent with its header (`walkVerdict w = none`) — is merged exactly like
the set `S` it carries: set mode = union, clear mode = difference, `changed` = number of bits by
which the bitmap changed.  `m`: the target, any well-formed value-level bitmap (either collection
kind: the model is the key ↦ values map). -/
theorem C04_import (m : VMap) (hm : VMapOk m) (d : Bytes) (clear : Bool) (w : Walk)
    (hw : iterate d = .ok w) (hv : walkVerdict w = none)
    (S : List Nat) (hS : Asc S) (hmem : ∀ x, x ∈ S ↔ x ∈ itemsValues w.items) :
    ∃ m' ch, importBits m d clear = .ok (m', ch)
      ∧ m'.values = (if clear then Spec.diff m.values S else Spec.union m.values S)
      ∧ ch = Spec.delta m.values m'.values := by
  obtain ⟨m', ch, h1, _, h3, h4⟩ := importBits_spec m hm d clear w hw hv S hS hmem
  exact ⟨m', ch, h1, h3, h4⟩

/-- Importing the Pilosa encoding of `b` in set mode = union with `b`'s set. -/
theorem C04_import_set (m : VMap) (hm : VMapOk m) (b : Bitmap) (hb : BitmapWf b)
    (hsize : (encodeP b).length < 2 ^ 32) :
    ∃ m' ch, importBits m (encodeP b) false = .ok (m', ch)
      ∧ m'.values = Spec.union m.values b.values
      ∧ ch = m'.values.length - m.values.length := by
  obtain ⟨h1, _, h3⟩ := iterate_encodeP b hb hsize
  obtain ⟨m', ch, i1, i2, i3, i4⟩ := importBits_spec m hm (encodeP b) false _ h1 (walkVerdict_encodeP b hb)
    b.values (bitmap_values_asc b hb) (fun x => by rw [h3])
  refine ⟨m', ch, i1, by simpa using i3, ?_⟩
  rw [i4]
  simp only [Bool.false_eq_true, ↓reduceIte] at i3
  have := length_unionAsc_ge m.values b.values
  unfold Spec.delta
  rw [i3]; unfold Spec.union
  split <;> omega

/-- Importing the Pilosa encoding of `b` in clear mode = difference from `b`'s set. -/
theorem C04_import_clear (m : VMap) (hm : VMapOk m) (b : Bitmap) (hb : BitmapWf b)
    (hsize : (encodeP b).length < 2 ^ 32) :
    ∃ m' ch, importBits m (encodeP b) true = .ok (m', ch)
      ∧ m'.values = Spec.diff m.values b.values
      ∧ ch = m.values.length - m'.values.length := by
  obtain ⟨h1, _, h3⟩ := iterate_encodeP b hb hsize
  obtain ⟨m', ch, i1, i2, i3, i4⟩ := importBits_spec m hm (encodeP b) true _ h1 (walkVerdict_encodeP b hb)
    b.values (bitmap_values_asc b hb) (fun x => by rw [h3])
  refine ⟨m', ch, i1, by simpa using i3, ?_⟩
  rw [i4]
  simp only [↓reduceIte] at i3
  have := length_diffAsc_le m.values b.values
  unfold Spec.delta
  rw [i3]; unfold Spec.diff
  split <;> omega

/-- `rowSet` is exact: for an accepted payload and every row (`rowSize` containers per row, as
fragment.importRoaring passes it; 0 = a single row), the entry ImportRoaringBits reports is the
number of bits set in that row (clear mode: minus the number cleared); rows without an entry did
not change. -/
theorem C04_import_rowset (m : VMap) (hm : VMapOk m) (d : Bytes) (clear : Bool) (rowSize : Nat) (w : Walk)
    (hw : iterate d = .ok w) (hv : walkVerdict w = none) (r : Nat) :
    ∃ m' ch, importBits m d clear = .ok (m', ch)
      ∧ rowDelta (importRowSet m d clear rowSize) r
          = (rowCount rowSize m' r : Int) - (rowCount rowSize m r : Int) := by
  obtain ⟨_, hit⟩ := walkVerdict_none w hv
  refine ⟨_, _, importBits_eq m d clear w hw hv, ?_⟩
  unfold importRowSet
  rw [hw]
  simp only [hv]
  exact importRows_spec clear rowSize w.items m hm hit r

/-! ### the import iterators on encoded payloads -/

/-- The Pilosa-format iterator (`newPilosaRoaringIterator` + `Next`, as ImportRoaringBits uses it)
over `WriteTo(b)` yields exactly b's (optimized, non-empty) containers, in key order, then io.EOF;
each is consistent with its header and together they carry b's set. -/
theorem C04_iterate_pilosa (b : Bitmap) (hb : BitmapWf b) (hsize : (encodeP b).length < 2 ^ 32) :
    iterate (encodeP b) = .ok ⟨b.optimize.cs.map itemOf, none⟩
    ∧ walkVerdict ⟨b.optimize.cs.map itemOf, none⟩ = none
    ∧ itemsValues (b.optimize.cs.map itemOf) = b.values :=
  ⟨(iterate_encodeP b hb hsize).1, walkVerdict_encodeP b hb, (iterate_encodeP b hb hsize).2.2⟩

/-- The official-format iterator (`newOfficialRoaringIterator` + `Next`) over what the reference
encoder wrote yields exactly the groups of `g`: one item per group, in order, with the container
the encoder chose (array up to 4096 values, bitmap above, run containers converted from
start/length-1 to start/last in a copy), for all three encoder modes, with the offset header
skipped when the run cookie comes with four or more containers; then io.EOF. -/
theorem C04_iterate_official (mode : Nat) (g : VMap) (hg : ∀ kv ∈ g, GroupOk kv)
    (hk : g.Pairwise (fun a b => a.1 < b.1)) (hsize : (Spec.encodeOfficial mode g).length < 2 ^ 32) :
    iterate (Spec.encodeOfficial mode g) = .ok ⟨g.map (gitem mode), none⟩
    ∧ (∀ kv ∈ g, (gitem mode kv).key = kv.1 ∧ (gitem mode kv).n = kv.2.length ∧ (gitem mode kv).c.values = kv.2)
    ∧ walkVerdict ⟨g.map (gitem mode), none⟩ = none
    ∧ itemsValues (g.map (gitem mode)) = VMap.values g :=
  ⟨iterate_encodeOfficial mode g hg hk hsize,
   fun kv hkv => ⟨rfl, rfl, ocont_values mode kv.2 (hg kv hkv).asc (hg kv hkv).bound⟩,
   walkVerdict_official mode g hg, itemsValues_gitem mode g hg⟩

/-- Importing the official encoding of the set grouped as `g` (any of the three encoder modes)
into any well-formed bitmap: set mode = union with that set, clear mode = difference from it,
and `changed` = the number of bits by which the bitmap changed. -/
theorem C04_import_official (m : VMap) (hm : VMapOk m) (mode : Nat) (g : VMap) (clear : Bool)
    (hg : ∀ kv ∈ g, GroupOk kv) (hk : g.Pairwise (fun a b => a.1 < b.1))
    (hsize : (Spec.encodeOfficial mode g).length < 2 ^ 32) :
    ∃ m' ch, importBits m (Spec.encodeOfficial mode g) clear = .ok (m', ch)
      ∧ m'.values = (if clear then Spec.diff m.values (VMap.values g) else Spec.union m.values (VMap.values g))
      ∧ ch = Spec.delta m.values m'.values
      ∧ ch = (if clear then m.values.length - m'.values.length else m'.values.length - m.values.length) := by
  obtain ⟨m', ch, i1, _, i3, i4⟩ := importBits_spec m hm (Spec.encodeOfficial mode g) clear _
    (iterate_encodeOfficial mode g hg hk hsize) (walkVerdict_official mode g hg) (VMap.values g)
    (values_asc g (groups_vmapOk g hg hk)) (fun x => by rw [itemsValues_gitem mode g hg])
  refine ⟨m', ch, i1, i3, i4, ?_⟩
  rw [i4]
  cases clear with
  | false =>
    simp only [Bool.false_eq_true, ↓reduceIte] at i3 ⊢
    have := length_unionAsc_ge m.values (VMap.values g)
    unfold Spec.delta
    rw [i3]; unfold Spec.union
    split <;> omega
  | true =>
    simp only [↓reduceIte] at i3 ⊢
    have := length_diffAsc_le m.values (VMap.values g)
    unfold Spec.delta
    rw [i3]; unfold Spec.diff
    split <;> omega

/-! ### non-vacuity -/

/-- A bitmap with an array, a bitmap-encoded, a run and an empty container satisfies the
hypotheses of `C04_roundtrip`. -/
example : BitmapWf ⟨5, [⟨0, 3, .array [1, 2, 9]⟩, ⟨2, 0, .array []⟩, ⟨7, 4, .run [(0, 1), (10, 11)]⟩]⟩ :=
  ⟨by
    intro e he
    simp only [List.mem_cons, List.mem_nil_iff, or_false] at he
    rcases he with rfl | rfl | rfl
    · exact ⟨⟨by simp, by simp, rfl⟩, by decide⟩
    · exact ⟨⟨by simp, by simp, rfl⟩, by decide⟩
    · exact ⟨⟨⟨by simp, by simp⟩, by decide⟩, by decide⟩,
   by simp⟩

/-- Groups for `C04_official`: a short run, a single value at the top key, a full container. -/
example : ∀ kv ∈ ([(0, [1, 2, 3]), (65535, [65535])] : VMap), GroupOk kv := by
  intro kv hkv
  simp only [List.mem_cons, List.mem_nil_iff, or_false] at hkv
  rcases hkv with rfl | rfl
  · exact ⟨by decide, by simp, by simp, by simp⟩
  · exact ⟨by decide, by simp, by simp, by simp⟩

example : VMapOk [(0, [1, 5]), (3, [])] :=
  ⟨by simp, by
    intro kv hkv
    simp only [List.mem_cons, List.mem_nil_iff, or_false] at hkv
    rcases hkv with rfl | rfl <;> simp⟩

end PV.C04
