/-
Helper lemmas for C04: ImportRoaringBits on encoded payloads.  Core Lean only.
-/
import PV.C04.LemmasCont
import PV.C04.Spec
namespace PV.C04

theorem entriesToVMap_ok (cs : List Entry) (hw : ∀ e ∈ cs, EntryWf e)
    (hk : cs.Pairwise (fun a b => a.key < b.key)) : VMapOk (entriesToVMap cs) := by
  constructor
  · unfold entriesToVMap
    exact List.Pairwise.map _ (fun a b h => h) hk
  · intro kv hkv
    unfold entriesToVMap at hkv
    obtain ⟨e, he, rfl⟩ := List.mem_map.mp hkv
    obtain ⟨h1, h2, _⟩ := (hw e he).c.values_ok
    exact ⟨h1, h2⟩

theorem bitmap_values_asc (b : Bitmap) (hb : BitmapWf b) : Asc b.values := by
  have := values_asc _ (entriesToVMap_ok b.cs hb.entries hb.keys)
  rw [values_entriesToVMap] at this
  exact this

theorem itemsValues_itemOf (cs : List Entry) : itemsValues (cs.map itemOf) = cs.flatMap Entry.values := by
  induction cs with
  | nil => rfl
  | cons e t ih =>
    simp only [itemsValues, List.map_cons, List.flatMap_cons] at ih ⊢
    rw [ih]; rfl

/-- The general statement: a payload whose walk ends in EOF and whose containers are
well-formed is merged exactly like the set it carries. -/
theorem importBits_spec (m : VMap) (hm : VMapOk m) (d : Bytes) (clear : Bool) (w : Walk)
    (hw : iterate d = .ok w) (he : w.err = none) (hit : ∀ it ∈ w.items, ItemOk it)
    (S : List Nat) (hS : Asc S) (hmem : ∀ x, x ∈ S ↔ x ∈ itemsValues w.items) :
    ∃ m' ch, importBits m d clear = .ok (m', ch) ∧ VMapOk m'
      ∧ m'.values = (if clear then Spec.diff m.values S else Spec.union m.values S)
      ∧ ch = Spec.delta m.values m'.values := by
  unfold importBits
  rw [hw]
  simp only [he]
  refine ⟨_, _, rfl, ?_⟩
  cases clear with
  | false =>
    obtain ⟨h1, h2, h3⟩ := importItems_set_spec w.items m hm hit
    refine ⟨h1, ?_, ?_⟩
    · simp only [Bool.false_eq_true, ↓reduceIte, Spec.union]
      apply asc_ext _ _ (values_asc _ h1) (asc_unionAsc _ _ (values_asc _ hm) hS)
      intro x
      rw [h2 x, mem_unionAsc, hmem x]
    · unfold Spec.delta
      split <;> omega
  | true =>
    obtain ⟨h1, h2, h3⟩ := importItems_clear_spec w.items m hm hit
    refine ⟨h1, ?_, ?_⟩
    · simp only [↓reduceIte, Spec.diff]
      apply asc_ext _ _ (values_asc _ h1) (asc_diffAsc _ _ (values_asc _ hm))
      intro x
      rw [h2 x, mem_diffAsc _ _ (values_asc _ hm) hS, hmem x]
    · unfold Spec.delta
      split <;> omega

theorem iterate_encodeP (b : Bitmap) (hb : BitmapWf b) (hsize : (encodeP b).length < 2 ^ 32) :
    iterate (encodeP b) = .ok ⟨b.optimize.cs.map itemOf, none⟩
    ∧ (∀ it ∈ b.optimize.cs.map itemOf, ItemOk it)
    ∧ itemsValues (b.optimize.cs.map itemOf) = b.values := by
  obtain ⟨h1, h2, h3, h4⟩ := optimize_cs b.cs hb.entries hb.keys
  have hf : b.optimize.cs.filter (fun e => e.n > 0) = b.optimize.cs :=
    filter_npos_eq _ (fun e he => (h1 e he).2)
  have := iterate_writeUnopt b.optimize (by rw [hf]; exact fun e he => (h1 e he).1) hsize
  rw [hf] at this
  refine ⟨this, ?_, ?_⟩
  · intro it hit
    obtain ⟨e', he', rfl⟩ := List.mem_map.mp hit
    obtain ⟨e, he, _, hn, hv⟩ := h4 e' he'
    obtain ⟨a1, a2, a3⟩ := (hb.entries e he).c.values_ok
    exact ⟨by show Asc e'.c.values; rw [hv]; exact a1, by show ∀ v ∈ e'.c.values, v < 65536; rw [hv]; exact a2,
      by show e'.n = e'.c.values.length; rw [hv, hn, a3]⟩
  · rw [itemsValues_itemOf]; exact h3

end PV.C04
