/-
Helper lemmas for C04: ImportRoaringBits on encoded payloads.  Core Lean only.
-/
import PV.C04.LemmasCont
import PV.C04.Spec
namespace PV.C04

theorem entriesToVMap_ok (cs : List Entry) (hw : ∀ e ∈ cs, EntryWf e)
    (hk : cs.Pairwise (fun a b => a.key < b.key)) : VMapOk (entriesToVMap cs) := by
  constructor
  · unfold entriesToVMap
    exact List.Pairwise.map _ (fun a b h => h) hk
  · intro kv hkv
    unfold entriesToVMap at hkv
    obtain ⟨e, he, rfl⟩ := List.mem_map.mp hkv
    obtain ⟨h1, h2, _⟩ := (hw e he).c.values_ok
    exact ⟨h1, h2⟩

theorem bitmap_values_asc (b : Bitmap) (hb : BitmapWf b) : Asc b.values := by
  have := values_asc _ (entriesToVMap_ok b.cs hb.entries hb.keys)
  rw [values_entriesToVMap] at this
  exact this

theorem itemsValues_itemOf (cs : List Entry) : itemsValues (cs.map itemOf) = cs.flatMap Entry.values := by
  induction cs with
  | nil => rfl
  | cons e t ih =>
    simp only [itemsValues, List.map_cons, List.flatMap_cons] at ih ⊢
    rw [ih]; rfl

theorem importBits_eq (m : VMap) (d : Bytes) (clear : Bool) (w : Walk)
    (hw : iterate d = .ok w) (hv : walkVerdict w = none) :
    importBits m d clear = .ok (importItems clear m w.items) := by
  unfold importBits importBitsSt
  rw [hw]
  simp only [hv]

/-- The general statement: a payload that `ImportRoaringBits` accepts (its walk ends in EOF over
consistent containers) is merged exactly like the set it carries. -/
theorem importBits_spec (m : VMap) (hm : VMapOk m) (d : Bytes) (clear : Bool) (w : Walk)
    (hw : iterate d = .ok w) (hv : walkVerdict w = none)
    (S : List Nat) (hS : Asc S) (hmem : ∀ x, x ∈ S ↔ x ∈ itemsValues w.items) :
    ∃ m' ch, importBits m d clear = .ok (m', ch) ∧ VMapOk m'
      ∧ m'.values = (if clear then Spec.diff m.values S else Spec.union m.values S)
      ∧ ch = Spec.delta m.values m'.values := by
  obtain ⟨_, hit⟩ := walkVerdict_none w hv
  rw [importBits_eq m d clear w hw hv]
  refine ⟨_, _, rfl, ?_⟩
  cases clear with
  | false =>
    obtain ⟨h1, h2, h3⟩ := importItems_set_spec w.items m hm hit
    refine ⟨h1, ?_, ?_⟩
    · simp only [Bool.false_eq_true, ↓reduceIte, Spec.union]
      apply asc_ext _ _ (values_asc _ h1) (asc_unionAsc _ _ (values_asc _ hm) hS)
      intro x
      rw [h2 x, mem_unionAsc, hmem x]
    · unfold Spec.delta
      split <;> omega
  | true =>
    obtain ⟨h1, h2, h3⟩ := importItems_clear_spec w.items m hm hit
    refine ⟨h1, ?_, ?_⟩
    · simp only [↓reduceIte, Spec.diff]
      apply asc_ext _ _ (values_asc _ h1) (asc_diffAsc _ _ (values_asc _ hm))
      intro x
      rw [h2 x, mem_diffAsc _ _ (values_asc _ hm) hS, hmem x]
    · unfold Spec.delta
      split <;> omega

theorem iterate_encodeP (b : Bitmap) (hb : BitmapWf b) (hsize : (encodeP b).length < 2 ^ 32) :
    iterate (encodeP b) = .ok ⟨b.optimize.cs.map itemOf, none⟩
    ∧ (∀ it ∈ b.optimize.cs.map itemOf, ItemOk it)
    ∧ itemsValues (b.optimize.cs.map itemOf) = b.values := by
  obtain ⟨h1, h2, h3, h4⟩ := optimize_cs b.cs hb.entries hb.keys
  have hf : b.optimize.cs.filter (fun e => e.n > 0) = b.optimize.cs :=
    filter_npos_eq _ (fun e he => (h1 e he).2)
  have := iterate_writeUnopt b.optimize (by rw [hf]; exact fun e he => (h1 e he).1) hsize
  rw [hf] at this
  refine ⟨this, ?_, ?_⟩
  · intro it hit
    obtain ⟨e', he', rfl⟩ := List.mem_map.mp hit
    obtain ⟨e, he, _, hn, hv⟩ := h4 e' he'
    obtain ⟨a1, a2, a3⟩ := (hb.entries e he).c.values_ok
    exact ⟨by show Asc e'.c.values; rw [hv]; exact a1, by show ∀ v ∈ e'.c.values, v < 65536; rw [hv]; exact a2,
      by show e'.n = e'.c.values.length; rw [hv, hn, a3]⟩
  · rw [itemsValues_itemOf]; exact h3

theorem ofValues_contWf (t : Nat) (vs : List Nat) (ha : Asc vs) (hb : ∀ v ∈ vs, v < 65536) :
    ContWf vs.length (Cont.ofValues t vs) := by
  unfold Cont.ofValues
  split
  · exact ⟨toRuns_ok vs ha hb, by rw [toRuns_values vs ha]⟩
  · split
    · exact ⟨ha, hb, rfl⟩
    · refine ⟨packFrom_length _ _ _, ?_⟩
      rw [bitmapValuesFrom_packFrom bitmapBytes 0 vs ha (fun v hv => ⟨Nat.zero_le _, by
        have := hb v hv; simp only [bitmapBytes]; omega⟩)]

theorem optimize_contWf (e e' : Entry) (he : EntryWf e) (h : e.optimize = some e') : ContWf e'.n e'.c := by
  obtain ⟨hasc, hbound, hlen⟩ := he.c.values_ok
  unfold Entry.optimize at h
  split at h
  · cases h
  · simp only [] at h
    split at h
    · simp only [Option.some.injEq] at h; subst h; exact he.c
    · simp only [Option.some.injEq] at h; subst h
      simp only []
      rw [← hlen]
      exact ofValues_contWf _ _ hasc hbound

theorem asc_strictAsc (l : List Nat) (h : Asc l) : strictAsc l = true := by
  induction l with
  | nil => rfl
  | cons a r ih =>
    cases r with
    | nil => rfl
    | cons b r' =>
      have h' := List.pairwise_cons.mp h
      simp only [strictAsc, Bool.and_eq_true, decide_eq_true_eq]
      exact ⟨h'.1 b (by simp), ih h'.2⟩

theorem runsOk_of (rs : List (Nat × Nat)) (h : RunsOk rs) : runsOk rs = true := by
  induction rs with
  | nil => rfl
  | cons a r ih =>
    have hs := List.pairwise_cons.mp h.sep
    have ih' := ih ⟨hs.2, fun x hx => h.each x (by simp [hx])⟩
    cases r with
    | nil => simp only [runsOk, decide_eq_true_eq]; exact (h.each a (by simp)).1
    | cons b r' =>
      simp only [runsOk, Bool.and_eq_true, decide_eq_true_eq]
      exact ⟨⟨(h.each a (by simp)).1, hs.1 b (by simp)⟩, ih'⟩

theorem contWf_wf (n : Nat) (c : Cont) (h : ContWf n c) (hn : 0 < n) : c.wf n = true := by
  cases c with
  | array vs =>
    simp only [Cont.wf, Bool.and_eq_true, beq_iff_eq, List.all_eq_true, decide_eq_true_eq]
    exact ⟨⟨asc_strictAsc vs h.1, h.2.2⟩, h.2.1⟩
  | bitmap bs =>
    simp only [Cont.wf, Bool.and_eq_true, beq_iff_eq]
    exact h
  | run rs =>
    simp only [Cont.wf, Bool.and_eq_true, beq_iff_eq, List.all_eq_true, decide_eq_true_eq, bne_iff_ne, ne_eq]
    refine ⟨⟨⟨?_, runsOk_of rs h.1⟩, h.2⟩, fun r hr => (h.1.each r hr).2⟩
    intro e
    subst e
    have := h.2
    simp [runValues] at this
    omega

theorem walkVerdict_encodeP (b : Bitmap) (hb : BitmapWf b) :
    walkVerdict ⟨b.optimize.cs.map itemOf, none⟩ = none := by
  unfold walkVerdict
  rw [if_pos]
  apply List.all_eq_true.mpr
  intro it hit
  obtain ⟨e', he', rfl⟩ := List.mem_map.mp hit
  obtain ⟨e, he, heo⟩ := List.mem_filterMap.mp he'
  have hw := optimize_contWf e e' (hb.entries e he) heo
  obtain ⟨h1, _, _, _⟩ := optimize_cs b.cs hb.entries hb.keys
  exact contWf_wf _ _ hw (h1 e' he').2

/-! ### rowSet -/

theorem rowDelta_addRow (row : Nat) (d : Int) (rows : List (Nat × Int)) (r : Nat) :
    rowDelta (addRow row d rows) r = rowDelta rows r + (if row = r then d else 0) := by
  induction rows with
  | nil =>
    simp only [addRow, rowDelta, List.filter_cons, List.filter_nil]
    by_cases h : row = r <;> simp [h]
  | cons x t ih =>
    simp only [addRow]
    split
    · simp only [rowDelta, List.filter_cons]
      by_cases h : row = r <;> simp [h] <;> omega
    · split
      · next h1 h2 =>
        simp only [rowDelta, List.filter_cons]
        by_cases h : x.1 = r
        · have : row = r := by omega
          simp [h, this]; omega
        · have : ¬ row = r := by omega
          simp [h, this]
      · simp only [rowDelta, List.filter_cons] at ih ⊢
        by_cases h : x.1 = r
        · simp only [h, decide_true, ↓reduceIte, List.map_cons, List.sum_cons]
          rw [ih]; omega
        · simp only [h, decide_false, Bool.false_eq_true, ↓reduceIte]
          exact ih

theorem rowCount_cons (rowSize : Nat) (kv : Nat × List Nat) (t : VMap) (r : Nat) :
    rowCount rowSize (kv :: t) r = (if rowOf rowSize kv.1 = r then kv.2.length else 0) + rowCount rowSize t r := by
  simp only [rowCount, List.filter_cons]
  by_cases h : rowOf rowSize kv.1 = r <;> simp [h]

theorem rowCount_put (m : VMap) (hm : VMapOk m) (rowSize k : Nat) (vs : List Nat) (r : Nat) :
    rowCount rowSize (VMap.put k vs m) r + (if rowOf rowSize k = r then (oldOf m k).length else 0)
      = rowCount rowSize m r + (if rowOf rowSize k = r then vs.length else 0) := by
  unfold oldOf
  induction m with
  | nil =>
    simp only [VMap.put, rowCount_cons]
    simp [rowCount, VMap.get?]
  | cons kv t ih =>
    have hk := List.pairwise_cons.mp hm.keys
    simp only [VMap.put]
    split
    · next hlt =>
      rw [get?_none_of_lt (kv :: t) k (by
        intro y hy
        rcases List.mem_cons.mp hy with e | e
        · subst e; exact hlt
        · have := hk.1 y e; omega)]
      simp only [rowCount_cons, Option.getD_none, List.length_nil]
      split <;> omega
    · split
      · next h1 h2 =>
        rw [get?_cons, if_pos (show kv.1 = k from h2.symm)]
        subst h2
        simp only [rowCount_cons, Option.getD_some]
        split <;> omega
      · next h1 h2 =>
        rw [get?_cons, if_neg (show ¬ kv.1 = k by omega)]
        have := ih hm.tail
        simp only [rowCount_cons]
        omega

theorem importSetItem_rows (m : VMap) (hm : VMapOk m) (it : Item) (hit : ItemOk it) (rowSize r : Nat) :
    (rowCount rowSize (importSetItem m it).1 r : Int)
      = rowCount rowSize m r + (if rowOf rowSize it.key = r then ((importSetItem m it).2 : Int) else 0) := by
  rw [importSetItem_eq m hm it hit]
  have h1 := rowCount_put m hm rowSize it.key (unionAsc (oldOf m it.key) it.c.values) r
  have h2 := length_unionAsc_ge (oldOf m it.key) it.c.values
  simp only []
  split at h1 <;> simp [*] <;> omega

theorem importClearItem_rows (m : VMap) (hm : VMapOk m) (it : Item) (rowSize r : Nat) :
    (rowCount rowSize (importClearItem m it).1 r : Int)
      = rowCount rowSize m r - (if rowOf rowSize it.key = r then ((importClearItem m it).2 : Int) else 0) := by
  rw [importClearItem_eq m hm it]
  have h2 := length_diffAsc_le (oldOf m it.key) it.c.values
  cases h : m.get? it.key with
  | none =>
    have ho : oldOf m it.key = [] := by simp [oldOf, h]
    simp [ho, diffAsc]
  | some old =>
    have h1 := rowCount_put m hm rowSize it.key (diffAsc (oldOf m it.key) it.c.values) r
    simp only [Option.isSome_some, ↓reduceIte]
    split at h1 <;> simp [*] <;> omega

/-- `rowSet` is exact: for every row, its entry is the number of bits the import set (minus: cleared)
in that row. -/
theorem importRows_spec (clear : Bool) (rowSize : Nat) (items : List Item) (m : VMap) (hm : VMapOk m)
    (hit : ∀ it ∈ items, ItemOk it) (r : Nat) :
    rowDelta (importRows clear rowSize m items) r
      = (rowCount rowSize (importItems clear m items).1 r : Int) - rowCount rowSize m r := by
  induction items generalizing m with
  | nil => simp [importRows, importItems, rowDelta]
  | cons it t ih =>
    have hi := hit it (by simp)
    cases clear with
    | false =>
      obtain ⟨h1, _, _⟩ := importSetItem_spec m hm it hi
      have hr := importSetItem_rows m hm it hi rowSize r
      have := ih (importSetItem m it).1 h1 (fun x hx => hit x (by simp [hx]))
      simp only [importRows, importItems, Bool.false_eq_true, ↓reduceIte] at this ⊢
      split
      · next h0 => rw [this, hr, h0]; simp
      · rw [rowDelta_addRow, this, hr]
        split <;> omega
    | true =>
      obtain ⟨h1, _, _⟩ := importClearItem_spec m hm it hi
      have hr := importClearItem_rows m hm it rowSize r
      have := ih (importClearItem m it).1 h1 (fun x hx => hit x (by simp [hx]))
      simp only [importRows, importItems, ↓reduceIte] at this ⊢
      split
      · next h0 => rw [this, hr, h0]; simp
      · rw [rowDelta_addRow, this, hr]
        split <;> omega

end PV.C04
