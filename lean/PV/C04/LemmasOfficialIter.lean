/-
Helper lemmas for C04: the official-format import ITERATOR (newOfficialRoaringIterator + Next, as
used by ImportRoaringBits) over what the reference encoder wrote, and the import corollaries.
Core Lean only.
-/
import PV.C04.LemmasOfficial
namespace PV.C04
open Spec

def gitem (mode : Nat) (kv : Nat × List Nat) : Item :=
  { key := kv.1, typ := (ocont mode kv.2).typ, n := kv.2.length, c := ocont mode kv.2 }

/-- `officialRoaringIterator.Next` body on one container written by the reference encoder. -/
theorem nextBody_official_ok (d rest : Bytes) (mode : Nat) (kv : Nat × List Nat) (hk : GroupOk kv) (off : Nat)
    (h : d.drop off = payload mode kv.2 ++ rest) (hoff : off ≤ d.length) (h8 : 8 ≤ off) :
    nextBody true d kv.1 (ocont mode kv.2).typ kv.2.length off
      = .ok (gitem mode kv, off + (payload mode kv.2).length) := by
  obtain ⟨hl1, hl2⟩ := hk.len
  have hl : (d.drop off).length = (payload mode kv.2).length + rest.length := by rw [h]; simp
  rw [List.length_drop] at hl
  unfold nextBody gitem ocont
  rw [payload_eq] at h hl ⊢
  by_cases hu : useRun mode kv.2 = true
  · simp only [hu, ↓reduceIte, Cont.typ, cRun] at h hl ⊢
    have hrl := toRuns_length_lt kv.2 hk.asc hk.bound
    have hne := toRuns_ne_nil kv.2 hk.ne
    have hpos' : 0 < (toRuns kv.2).length := List.length_pos_iff.mpr hne
    have hok := toRuns_ok kv.2 hk.asc hk.bound
    rw [List.length_append, leBytes_length, flatMap_encRunO_length] at hl
    rw [if_neg (by omega)]
    have h1 : d.drop off = leBytes 2 (toRuns kv.2).length ++ ((toRuns kv.2).flatMap encRunO ++ rest) := by
      rw [h]; simp
    rw [rd_of_drop "iter.runCount" d _ off 2 _ h1 hoff (by simpa using hrl)]
    simp only [Res.ok_bind, Res.pure_eq]
    rw [if_neg (by omega)]
    obtain ⟨b, hb⟩ := at1_lt "iter.pointer" d (off + 2) (by omega)
    rw [hb]
    simp only [Res.ok_bind, cArray, cBitmap, Nat.reduceEqDiff, ↓reduceIte]
    rw [if_neg (by omega)]
    have h2 : d.drop (off + 2) = (toRuns kv.2).flatMap encRunO ++ rest := by
      have := congrArg (List.drop 2) h1
      rw [List.drop_drop] at this
      rw [this]; exact List.drop_left' (leBytes_length 2 _)
    have hv := view_of_drop "iter.runs" d _ rest (off + 2) h2 (by omega)
    rw [flatMap_encRunO_length] at hv
    have e2 : (toRuns kv.2).length * 4 = 4 * (toRuns kv.2).length := by omega
    rw [e2, hv]
    simp only [Res.ok_bind, Res.pure_eq, ↓reduceIte]
    rw [runsO_flatMap _ (fun r hr => hok.each r hr)]
    rw [List.length_append, leBytes_length, flatMap_encRunO_length]
    congr 2
    omega
  · have hu' : useRun mode kv.2 = false := by simpa using hu
    simp only [hu', Bool.false_eq_true, ↓reduceIte] at h hl ⊢
    by_cases h4 : kv.2.length ≤ 4096
    · simp only [h4, ↓reduceIte, Cont.typ, cArray, cRun, Nat.reduceEqDiff, Res.pure_eq, Res.ok_bind] at h hl ⊢
      rw [flatMap_leBytes2_length] at hl
      rw [if_neg (by omega)]
      obtain ⟨b, hb⟩ := at1_lt "iter.pointer" d off (by omega)
      rw [hb]
      simp only [Res.ok_bind]
      rw [if_neg (by omega)]
      have hv := view_of_drop "iter.array" d _ rest off h (by omega)
      rw [flatMap_leBytes2_length] at hv
      have e2 : kv.2.length * 2 = 2 * kv.2.length := by omega
      rw [e2, hv]
      simp only [Res.ok_bind, Res.pure_eq]
      rw [u16s_flatMap kv.2 hk.bound, flatMap_leBytes2_length]
    · simp only [h4, ↓reduceIte, Cont.typ, cArray, cRun, cBitmap, Nat.reduceEqDiff, Res.pure_eq, Res.ok_bind] at h hl ⊢
      have hpl : (packFrom 8192 0 kv.2).length = 8192 := packFrom_length _ _ _
      rw [hpl] at hl
      rw [if_neg (by omega)]
      obtain ⟨b, hb⟩ := at1_lt "iter.pointer" d off (by omega)
      rw [hb]
      simp only [Res.ok_bind]
      rw [if_neg (by simp only [bitmapBytes]; omega)]
      have hv := view_of_drop "iter.bitmap" d _ rest off h (by omega)
      rw [hpl] at hv
      simp only [bitmapBytes]
      rw [hv]
      simp only [Res.ok_bind, Res.pure_eq, hpl]

/-- With run containers: the iterator tracks the data position itself. -/
theorem officialWalk_run_ok (d : Bytes) (h : OffHeader) (hr : h.haveRuns = true) (mode : Nat)
    (todo : VMap) (i : Nat) (hrest : Bytes) (offs : Bytes) (cur : Nat)
    (hg : ∀ kv ∈ todo, GroupOk kv)
    (htyp : ∀ j kv, todo[j]? = some kv → officialType h (i + j) kv.2.length = .ok (ocont mode kv.2).typ)
    (hdrop : d.drop cur = (todo.map (fun kv => payload mode kv.2)).flatten)
    (hcur : cur ≤ d.length) (h8 : 8 ≤ cur) :
    officialWalk d h todo.length i (todo.flatMap gdesc ++ hrest) offs cur
      = .ok ⟨todo.map (gitem mode), none⟩ := by
  induction todo generalizing i cur with
  | nil => simp [officialWalk]
  | cons kv t ih =>
    have hk := hg kv (by simp)
    obtain ⟨hl1, hl2⟩ := hk.len
    have hdrop' : d.drop cur = payload mode kv.2 ++ (t.map (fun kv => payload mode kv.2)).flatten := by
      rw [hdrop]; simp
    have hl : (d.drop cur).length = (payload mode kv.2).length + ((t.map (fun kv => payload mode kv.2)).flatten).length := by
      rw [hdrop']; simp
    rw [List.length_drop] at hl
    have hbuf : (kv :: t).flatMap gdesc ++ hrest
        = leBytes 2 kv.1 ++ (leBytes 2 (kv.2.length - 1) ++ (t.flatMap gdesc ++ hrest)) := by
      simp [List.flatMap_cons, gdesc, List.append_assoc]
    rw [hbuf]
    generalize hB : leBytes 2 kv.1 ++ (leBytes 2 (kv.2.length - 1) ++ (t.flatMap gdesc ++ hrest)) = buf
    have hlen : 4 ≤ buf.length := by rw [← hB]; simp [leBytes_length]; omega
    have d0 : buf.drop 0 = leBytes 2 kv.1 ++ (leBytes 2 (kv.2.length - 1) ++ (t.flatMap gdesc ++ hrest)) := by
      rw [← hB]; rfl
    have d2 : buf.drop 2 = leBytes 2 (kv.2.length - 1) ++ (t.flatMap gdesc ++ hrest) := by
      rw [← hB]; exact List.drop_left' (leBytes_length 2 _)
    have d4 : buf.drop 4 = t.flatMap gdesc ++ hrest := by
      have := congrArg (List.drop 2) d2
      rw [List.drop_drop] at this
      rw [this]; exact List.drop_left' (leBytes_length 2 _)
    simp only [List.length_cons, officialWalk]
    rw [rd_of_drop _ buf _ 0 2 kv.1 d0 (by omega) hk.key]
    rw [rd_of_drop _ buf _ 2 2 (kv.2.length - 1) d2 (by omega) (by show kv.2.length - 1 < 65536; omega)]
    simp only [Res.ok_bind]
    have hn : kv.2.length - 1 + 1 = kv.2.length := by omega
    rw [hn]
    have ht := htyp 0 kv (by simp)
    simp only [Nat.add_zero] at ht
    rw [ht]
    simp only [Res.ok_bind, hr, ↓reduceIte, Res.pure_eq]
    rw [nextBody_official_ok d _ mode kv hk cur hdrop' hcur h8]
    simp only []
    rw [sub_tail _ buf 4 hlen, d4]
    simp only [Res.ok_bind]
    have hdrop2 : d.drop (cur + (payload mode kv.2).length) = (t.map (fun kv => payload mode kv.2)).flatten := by
      have := congrArg (List.drop (payload mode kv.2).length) hdrop'
      rw [List.drop_drop] at this
      rw [this]; exact List.drop_left' rfl
    rw [ih (i + 1) (cur + (payload mode kv.2).length) (fun x hx => hg x (by simp [hx]))
      (fun j kv' hj => by
        have := htyp (j + 1) kv' (by simpa using hj)
        rw [← this]; congr 1; omega) hdrop2 (by omega) (by omega)]
    simp

/-- Without run containers: the iterator reads each container's offset. -/
theorem officialWalk_off_ok (d : Bytes) (h : OffHeader) (hr : h.haveRuns = false) (mode : Nat)
    (todo : VMap) (i : Nat) (hrest orest : Bytes) (off : Nat) (cur : Nat)
    (hg : ∀ kv ∈ todo, GroupOk kv)
    (htyp : ∀ j kv, todo[j]? = some kv → officialType h (i + j) kv.2.length = .ok (ocont mode kv.2).typ)
    (hdrop : d.drop off = (todo.map (fun kv => payload mode kv.2)).flatten)
    (hoff : off ≤ d.length) (h8 : 8 ≤ off) (hd : d.length < 2 ^ 32) :
    officialWalk d h todo.length i (todo.flatMap gdesc ++ hrest)
        (offsetsFrom off (todo.map (fun kv => payload mode kv.2)) ++ orest) cur
      = .ok ⟨todo.map (gitem mode), none⟩ := by
  induction todo generalizing i off cur with
  | nil => simp [officialWalk]
  | cons kv t ih =>
    have hk := hg kv (by simp)
    obtain ⟨hl1, hl2⟩ := hk.len
    have hdrop' : d.drop off = payload mode kv.2 ++ (t.map (fun kv => payload mode kv.2)).flatten := by
      rw [hdrop]; simp
    have hl : (d.drop off).length = (payload mode kv.2).length + ((t.map (fun kv => payload mode kv.2)).flatten).length := by
      rw [hdrop']; simp
    rw [List.length_drop] at hl
    have hbuf : (kv :: t).flatMap gdesc ++ hrest
        = leBytes 2 kv.1 ++ (leBytes 2 (kv.2.length - 1) ++ (t.flatMap gdesc ++ hrest)) := by
      simp [List.flatMap_cons, gdesc, List.append_assoc]
    rw [hbuf]
    generalize hB : leBytes 2 kv.1 ++ (leBytes 2 (kv.2.length - 1) ++ (t.flatMap gdesc ++ hrest)) = buf
    have hlen : 4 ≤ buf.length := by rw [← hB]; simp [leBytes_length]; omega
    have d0 : buf.drop 0 = leBytes 2 kv.1 ++ (leBytes 2 (kv.2.length - 1) ++ (t.flatMap gdesc ++ hrest)) := by
      rw [← hB]; rfl
    have d2 : buf.drop 2 = leBytes 2 (kv.2.length - 1) ++ (t.flatMap gdesc ++ hrest) := by
      rw [← hB]; exact List.drop_left' (leBytes_length 2 _)
    have d4 : buf.drop 4 = t.flatMap gdesc ++ hrest := by
      have := congrArg (List.drop 2) d2
      rw [List.drop_drop] at this
      rw [this]; exact List.drop_left' (leBytes_length 2 _)
    simp only [List.map_cons, offsetsFrom, List.append_assoc]
    generalize hO : leBytes 4 off ++ (offsetsFrom (off + (payload mode kv.2).length) (t.map (fun kv => payload mode kv.2)) ++ orest) = obuf
    have o0 : obuf.drop 0 = leBytes 4 off ++ (offsetsFrom (off + (payload mode kv.2).length) (t.map (fun kv => payload mode kv.2)) ++ orest) := by
      rw [← hO]; rfl
    have o4 : obuf.drop 4 = offsetsFrom (off + (payload mode kv.2).length) (t.map (fun kv => payload mode kv.2)) ++ orest := by
      rw [← hO]; exact List.drop_left' (leBytes_length 4 _)
    have holen : 4 ≤ obuf.length := by rw [← hO]; simp [leBytes_length]
    simp only [List.length_cons, officialWalk]
    rw [rd_of_drop _ buf _ 0 2 kv.1 d0 (by omega) hk.key]
    rw [rd_of_drop _ buf _ 2 2 (kv.2.length - 1) d2 (by omega) (by show kv.2.length - 1 < 65536; omega)]
    simp only [Res.ok_bind]
    have hn : kv.2.length - 1 + 1 = kv.2.length := by omega
    rw [hn]
    have ht := htyp 0 kv (by simp)
    simp only [Nat.add_zero] at ht
    rw [ht]
    simp only [Res.ok_bind, hr, Bool.false_eq_true, ↓reduceIte]
    rw [rd_of_drop _ obuf _ 0 4 off o0 (by omega) (by show off < 4294967296; omega)]
    simp only [Res.ok_bind]
    rw [nextBody_official_ok d _ mode kv hk off hdrop' hoff h8]
    simp only []
    rw [sub_tail _ buf 4 hlen, d4, sub_tail _ obuf 4 holen, o4]
    simp only [Res.ok_bind]
    have hdrop2 : d.drop (off + (payload mode kv.2).length) = (t.map (fun kv => payload mode kv.2)).flatten := by
      have := congrArg (List.drop (payload mode kv.2).length) hdrop'
      rw [List.drop_drop] at this
      rw [this]; exact List.drop_left' rfl
    rw [ih (i + 1) (off + (payload mode kv.2).length) (off + (payload mode kv.2).length) (fun x hx => hg x (by simp [hx]))
      (fun j kv' hj => by
        have := htyp (j + 1) kv' (by simpa using hj)
        rw [← this]; congr 1; omega) hdrop2 (by omega) (by omega)]
    simp

/-- The iterator walk, no run containers. -/
theorem iterate_official_noRun (mode : Nat) (g : VMap) (hg : ∀ kv ∈ g, GroupOk kv)
    (hk : g.Pairwise (fun a b => a.1 < b.1))
    (hu : ∀ kv ∈ g, useRun mode kv.2 = false)
    (d : Bytes)
    (hd : d = (leBytes 4 cookieNoRun ++ leBytes 4 g.length) ++ (g.flatMap gdesc
        ++ (offsetsFrom (8 + 4 * g.length + 4 * g.length) (g.map (fun kv => payload mode kv.2))
          ++ (g.map (fun kv => payload mode kv.2)).flatten)))
    (hsize : d.length < 2 ^ 32) :
    iterate d = .ok ⟨g.map (gitem mode), none⟩ := by
  have hn := groups_length_le g hg hk
  generalize hPL : (g.map (fun kv => payload mode kv.2)).flatten = PL at hd
  have hH : (leBytes 4 cookieNoRun ++ leBytes 4 g.length).length = 8 := by simp [leBytes_length]
  have hlen : d.length = 8 + 4 * g.length + 4 * g.length + PL.length := by
    rw [hd]; simp only [List.length_append, hH, flatMap_gdesc_length, offsetsFrom_length, List.length_map]; omega
  have hplpos : 0 < g.length → 2 ≤ PL.length := fun h => by rw [← hPL]; exact flatten_payload_pos mode g hg h
  have d0 : d.drop 0 = leBytes 4 cookieNoRun ++ (leBytes 4 g.length ++ (g.flatMap gdesc
        ++ (offsetsFrom (8 + 4 * g.length + 4 * g.length) (g.map (fun kv => payload mode kv.2)) ++ PL))) := by
    rw [hd]; simp
  have d4 : d.drop 4 = leBytes 4 g.length ++ (g.flatMap gdesc
        ++ (offsetsFrom (8 + 4 * g.length + 4 * g.length) (g.map (fun kv => payload mode kv.2)) ++ PL)) := by
    have := congrArg (List.drop 4) d0
    rw [List.drop_drop] at this
    rw [this]; exact List.drop_left' (leBytes_length 4 _)
  have d8 : d.drop 8 = g.flatMap gdesc
        ++ (offsetsFrom (8 + 4 * g.length + 4 * g.length) (g.map (fun kv => payload mode kv.2)) ++ PL) := by
    have := congrArg (List.drop 4) d4
    rw [List.drop_drop] at this
    rw [this]; exact List.drop_left' (leBytes_length 4 _)
  have d8' : d.drop (8 + 4 * g.length) =
      offsetsFrom (8 + 4 * g.length + 4 * g.length) (g.map (fun kv => payload mode kv.2)) ++ PL := by
    have := congrArg (List.drop (4 * g.length)) d8
    rw [List.drop_drop] at this
    rw [this]; exact List.drop_left' (flatMap_gdesc_length g)
  have d8'' : d.drop (8 + 4 * g.length + 4 * g.length) = PL := by
    have := congrArg (List.drop (4 * g.length)) d8'
    rw [List.drop_drop] at this
    rw [this]; exact List.drop_left' (by rw [offsetsFrom_length, List.length_map])
  -- the header
  have hhdr : readOfficialHeader d = .ok (⟨g.length, false, [], 8, 8 + 4 * g.length⟩ : OffHeader) := by
    unfold readOfficialHeader
    rw [if_neg (by omega)]
    rw [rd_of_drop _ d _ 0 4 cookieNoRun d0 (by omega) (by decide)]
    simp only [Res.ok_bind, ↓reduceIte]
    rw [rd_of_drop _ d _ 4 4 g.length d4 (by omega) (by show g.length < 4294967296; omega)]
    simp only [Res.ok_bind, Res.pure_eq]
    rw [if_neg (by omega)]
    rw [if_neg (by
      intro h
      rcases h with h | ⟨h1, h2⟩
      · omega
      · have := hplpos h1; omega)]
  unfold iterate
  rw [if_neg (by omega)]
  have hm : rd "iter.magic" d 0 2 = .ok cookieNoRun := by
    rw [hd, leBytes4_split cookieNoRun]
    simp only [List.append_assoc]
    exact rd_prefix _ 2 cookieNoRun _ (by decide)
  rw [hm]
  simp only [Res.ok_bind, cookieNoRun, cookieRun, Nat.reduceEqDiff, or_true, ↓reduceIte]
  rw [hhdr]
  simp only []
  by_cases hz : g.length = 0
  · rw [if_pos hz]
    have : g = [] := List.length_eq_zero_iff.mp hz
    subst this; rfl
  · rw [if_neg hz]
    have s1 : sub "oiter.headers" d 8 (8 + 4 * g.length) = .ok (g.flatMap gdesc) := by
      have := sub_of_drop "oiter.headers" d (g.flatMap gdesc) _ 8 d8 (by omega)
      rw [flatMap_gdesc_length] at this
      exact this
    rw [s1]
    simp only [Res.ok_bind, Bool.false_eq_true, ↓reduceIte]
    rw [if_neg (by omega)]
    have s2 : sub "oiter.offsets" d (8 + 4 * g.length) (8 + 4 * g.length + g.length * 4)
        = .ok (offsetsFrom (8 + 4 * g.length + 4 * g.length) (g.map (fun kv => payload mode kv.2))) := by
      have := sub_of_drop "oiter.offsets" d (offsetsFrom (8 + 4 * g.length + 4 * g.length) (g.map (fun kv => payload mode kv.2))) _
        (8 + 4 * g.length) d8' (by omega)
      rw [offsetsFrom_length, List.length_map] at this
      have e : 8 + 4 * g.length + 4 * g.length = 8 + 4 * g.length + g.length * 4 := by omega
      rw [e] at this ⊢
      exact this
    rw [s2]
    simp only [Res.ok_bind]
    have hW := officialWalk_off_ok d (⟨g.length, false, [], 8, 8 + 4 * g.length⟩ : OffHeader) rfl mode g 0 [] []
      (8 + 4 * g.length + 4 * g.length) 0 hg
      (fun j kv hj => by
        have hmem : kv ∈ g := List.mem_of_getElem? hj
        have huk := hu kv hmem
        simp only [officialType, Bool.false_eq_true, ↓reduceIte, Res.pure_eq, ocont, huk, arrayMaxSize]
        split <;> simp [*, Cont.typ])
      (by rw [d8'', hPL]) (by omega) (by omega) hsize
    simpa using hW

/-- The iterator walk, with run containers. -/
theorem iterate_official_run (mode : Nat) (g : VMap) (hg : ∀ kv ∈ g, GroupOk kv)
    (hk : g.Pairwise (fun a b => a.1 < b.1)) (hn1 : 1 ≤ g.length)
    (d : Bytes) (offs : Bytes)
    (hoffs : offs.length = if g.length ≥ 4 then 4 * g.length else 0)
    (hd : d = (leBytes 2 cookieRun ++ (leBytes 2 (g.length - 1) ++ packBits (g.map (fun kv => useRun mode kv.2))))
        ++ (g.flatMap gdesc ++ (offs ++ (g.map (fun kv => payload mode kv.2)).flatten))) :
    iterate d = .ok ⟨g.map (gitem mode), none⟩ := by
  have hn := groups_length_le g hg hk
  generalize hPL : (g.map (fun kv => payload mode kv.2)).flatten = PL at hd
  generalize hIR : g.map (fun kv => useRun mode kv.2) = isRun at hd
  have hirl : isRun.length = g.length := by rw [← hIR]; simp
  have hbl : (packBits isRun).length = (g.length + 7) / 8 := by rw [packBits_length, hirl]
  have hplpos : 2 ≤ PL.length := by rw [← hPL]; exact flatten_payload_pos mode g hg (by omega)
  have hlen : d.length = 4 + (g.length + 7) / 8 + 4 * g.length + offs.length + PL.length := by
    rw [hd]; simp only [List.length_append, leBytes_length, hbl, flatMap_gdesc_length]; omega
  have d0 : d.drop 0 = (leBytes 2 cookieRun ++ leBytes 2 (g.length - 1)) ++ (packBits isRun
      ++ (g.flatMap gdesc ++ (offs ++ PL))) := by
    rw [hd]; simp
  have d4 : d.drop 4 = packBits isRun ++ (g.flatMap gdesc ++ (offs ++ PL)) := by
    have := congrArg (List.drop 4) d0
    rw [List.drop_drop] at this
    rw [this]; exact List.drop_left' (by simp [leBytes_length])
  have dh : d.drop (4 + (g.length + 7) / 8) = g.flatMap gdesc ++ (offs ++ PL) := by
    have := congrArg (List.drop ((g.length + 7) / 8)) d4
    rw [List.drop_drop] at this
    rw [this]; exact List.drop_left' hbl
  have dp : d.drop (4 + (g.length + 7) / 8 + 4 * g.length) = offs ++ PL := by
    have := congrArg (List.drop (4 * g.length)) dh
    rw [List.drop_drop] at this
    rw [this]; exact List.drop_left' (flatMap_gdesc_length g)
  have dpl : d.drop (4 + (g.length + 7) / 8 + 4 * g.length + offs.length) = PL := by
    have := congrArg (List.drop offs.length) dp
    rw [List.drop_drop] at this
    rw [this]; exact List.drop_left' rfl
  -- the cookie
  have hcookie : rd "ohdr.cookie" d 0 4 = .ok (cookieRun + 65536 * (g.length - 1)) := by
    unfold rd
    have := sub_of_drop "ohdr.cookie" d (leBytes 2 cookieRun ++ leBytes 2 (g.length - 1)) _ 0 d0 (by omega)
    simp only [List.length_append, leBytes_length] at this
    rw [this]
    simp only [Res.ok_bind, Res.pure_eq]
    rw [leVal_append, leVal_leBytes_lt 2 cookieRun (by decide), leVal_leBytes_lt 2 (g.length - 1) (by show g.length - 1 < 65536; omega),
      leBytes_length]
  have hhdr : readOfficialHeader d = .ok (⟨g.length, true, packBits isRun, 4 + (g.length + 7) / 8,
      4 + (g.length + 7) / 8 + 4 * g.length⟩ : OffHeader) := by
    unfold readOfficialHeader
    rw [if_neg (by omega), hcookie]
    simp only [Res.ok_bind]
    have c1 : cookieRun + 65536 * (g.length - 1) ≠ cookieNoRun := by simp only [cookieRun, cookieNoRun]; omega
    have c2 : (cookieRun + 65536 * (g.length - 1)) % 65536 = cookieRun := by simp only [cookieRun]; omega
    have c3 : (cookieRun + 65536 * (g.length - 1)) / 65536 % 65536 + 1 = g.length := by simp only [cookieRun]; omega
    rw [if_neg c1, if_pos c2, c3]
    rw [if_neg (by omega)]
    have := sub_of_drop "ohdr.isRun" d (packBits isRun) _ 4 d4 (by omega)
    rw [hbl] at this
    rw [this]
    simp only [Res.ok_bind, Res.pure_eq]
    rw [if_neg (by omega)]
    rw [if_neg (by
      intro h
      rcases h with h | ⟨_, h2⟩ <;> omega)]
  unfold iterate
  rw [if_neg (by omega)]
  have hm : rd "iter.magic" d 0 2 = .ok cookieRun := by
    rw [hd, List.append_assoc]
    exact rd_prefix _ 2 cookieRun _ (by decide)
  rw [hm]
  simp only [Res.ok_bind, cookieRun, cookieNoRun, Nat.reduceEqDiff, true_or, ↓reduceIte]
  rw [hhdr]
  simp only []
  rw [if_neg (by omega)]
  have s1 : sub "oiter.headers" d (4 + (g.length + 7) / 8) (4 + (g.length + 7) / 8 + 4 * g.length) = .ok (g.flatMap gdesc) := by
    have := sub_of_drop "oiter.headers" d (g.flatMap gdesc) _ (4 + (g.length + 7) / 8) dh (by omega)
    rw [flatMap_gdesc_length] at this
    exact this
  rw [s1]
  simp only [Res.ok_bind, ↓reduceIte]
  have hstart : (if g.length ≥ noOffsetThreshold then 4 + (g.length + 7) / 8 + 4 * g.length + g.length * 4
      else 4 + (g.length + 7) / 8 + 4 * g.length) = 4 + (g.length + 7) / 8 + 4 * g.length + offs.length := by
    by_cases h4 : g.length ≥ 4
    · rw [if_pos h4] at hoffs
      rw [if_pos (by simpa [noOffsetThreshold] using h4)]; omega
    · rw [if_neg h4] at hoffs
      rw [if_neg (by simpa [noOffsetThreshold] using h4)]; omega
  rw [hstart]
  have hW := officialWalk_run_ok d (⟨g.length, true, packBits isRun, 4 + (g.length + 7) / 8,
      4 + (g.length + 7) / 8 + 4 * g.length⟩ : OffHeader) rfl mode g 0 [] []
    (4 + (g.length + 7) / 8 + 4 * g.length + offs.length) hg
    (fun j kv hj => by
      have hjl : j < isRun.length := by
        rw [hirl]
        exact (List.getElem?_eq_some_iff.mp hj).1
      obtain ⟨B, hB, hbit⟩ := packBits_bit isRun j hjl
      have hgd : isRun.getD j false = useRun mode kv.2 := by rw [← hIR]; exact getD_map_useRun mode g j kv hj
      simp only [officialType, ↓reduceIte, Nat.zero_add]
      rw [hB]
      simp only [Res.ok_bind, Res.pure_eq]
      unfold ocont
      by_cases hu : useRun mode kv.2 = true
      · have hc : B >>> (j % 8) % 2 = 1 := by rw [hbit, hgd]; exact hu
        rw [if_pos hc]
        simp [hu, Cont.typ]
      · have hu' : useRun mode kv.2 = false := by simpa using hu
        have hc : ¬ (B >>> (j % 8) % 2 = 1) := by rw [hbit, hgd, hu']; simp
        rw [if_neg hc]
        simp only [hu', Bool.false_eq_true, ↓reduceIte, arrayMaxSize]
        split <;> simp [*, Cont.typ])
    (by rw [dpl, hPL]) (by omega) (by omega)
  simpa using hW


/-- `newOfficialRoaringIterator` + `Next` to the end, over what the reference encoder wrote: one
item per group, in order, with the container the encoder chose, and io.EOF. -/
theorem iterate_encodeOfficial (mode : Nat) (g : VMap) (hg : ∀ kv ∈ g, GroupOk kv)
    (hk : g.Pairwise (fun a b => a.1 < b.1)) (hsize : (encodeOfficial mode g).length < 2 ^ 32) :
    iterate (encodeOfficial mode g) = .ok ⟨g.map (gitem mode), none⟩ := by
  by_cases hany : (g.map (fun kv => useRun mode kv.2)).any id = true
  · obtain ⟨offs, hoffs, henc⟩ := encodeOfficial_run mode g hany
    have hn1 : 1 ≤ g.length := by
      cases g with
      | nil => simp at hany
      | cons _ _ => simp
    exact iterate_official_run mode g hg hk hn1 _ offs hoffs henc
  · have hany' : (g.map (fun kv => useRun mode kv.2)).any id = false := by simpa using hany
    have henc := encodeOfficial_noRun mode g hany'
    have hu : ∀ kv ∈ g, useRun mode kv.2 = false := by
      intro kv hkv
      have := List.any_eq_false.mp hany' (useRun mode kv.2) (List.mem_map.mpr ⟨kv, hkv, rfl⟩)
      simpa using this
    exact iterate_official_noRun mode g hg hk hu _ henc hsize

theorem ocont_contWf (mode : Nat) (vs : List Nat) (ha : Asc vs) (hb : ∀ v ∈ vs, v < 65536) :
    ContWf vs.length (ocont mode vs) := by
  unfold ocont
  split
  · exact ⟨toRuns_ok vs ha hb, by rw [toRuns_values vs ha]⟩
  · split
    · exact ⟨ha, hb, rfl⟩
    · refine ⟨packFrom_length _ _ _, ?_⟩
      rw [bitmapValuesFrom_packFrom bitmapBytes 0 vs ha (fun v hv => ⟨Nat.zero_le _, by
        have := hb v hv; simp only [bitmapBytes]; omega⟩)]

theorem walkVerdict_official (mode : Nat) (g : VMap) (hg : ∀ kv ∈ g, GroupOk kv) :
    walkVerdict ⟨g.map (gitem mode), none⟩ = none := by
  unfold walkVerdict
  rw [if_pos]
  apply List.all_eq_true.mpr
  intro it hit
  obtain ⟨kv, hkv, rfl⟩ := List.mem_map.mp hit
  have hk := hg kv hkv
  exact contWf_wf _ _ (ocont_contWf mode kv.2 hk.asc hk.bound) hk.len.1

theorem itemsValues_gitem (mode : Nat) (g : VMap) (hg : ∀ kv ∈ g, GroupOk kv) :
    itemsValues (g.map (gitem mode)) = VMap.values g := by
  induction g with
  | nil => rfl
  | cons kv t ih =>
    have hk := hg kv (by simp)
    simp only [itemsValues, List.map_cons, List.flatMap_cons, VMap.values] at ih ⊢
    rw [ih (fun x hx => hg x (by simp [hx]))]
    simp only [Item.gvalues, gitem]
    rw [ocont_values mode kv.2 hk.asc hk.bound]

theorem groups_vmapOk (g : VMap) (hg : ∀ kv ∈ g, GroupOk kv) (hk : g.Pairwise (fun a b => a.1 < b.1)) :
    VMapOk g :=
  ⟨hk, fun kv hkv => ⟨(hg kv hkv).asc, (hg kv hkv).bound⟩⟩

end PV.C04
