/-
Helper lemmas for C04/C06: wire layer (little-endian round trip, checked slicing on appended
byte strings), payload parsers, Pilosa-format round trip at the representation level.
Core Lean only.
-/
import PV.C04.Model
namespace PV.C04

/-! ### wire -/

theorem leBytes_length (k n : Nat) : (leBytes k n).length = k := by
  induction k generalizing n with
  | zero => rfl
  | succ k ih => simp [leBytes, ih]

theorem leVal_leBytes (k n : Nat) : leVal (leBytes k n) = n % 256 ^ k := by
  induction k generalizing n with
  | zero => simp [leBytes, leVal, Nat.mod_one]
  | succ k ih =>
    simp only [leBytes, leVal, ih]
    rw [Nat.pow_succ, Nat.mul_comm (256 ^ k) 256, Nat.mod_mul]

theorem leVal_leBytes_lt (k n : Nat) (h : n < 256 ^ k) : leVal (leBytes k n) = n := by
  rw [leVal_leBytes, Nat.mod_eq_of_lt h]

theorem leBytes_ok (k n : Nat) : bytesOk (leBytes k n) := by
  induction k generalizing n with
  | zero => intro b hb; simp [leBytes] at hb
  | succ k ih =>
    intro b hb
    simp only [leBytes, List.mem_cons] at hb
    rcases hb with h | h
    · subst h; exact Nat.mod_lt _ (by decide)
    · exact ih _ b h

/-- `d[off:off+len(pl)]` when `pl` is what follows position `off`. -/
theorem sub_of_drop (site : String) (d pl rest : Bytes) (off : Nat)
    (h : d.drop off = pl ++ rest) (hoff : off ≤ d.length) :
    sub site d off (off + pl.length) = .ok pl := by
  have hl : (d.drop off).length = pl.length + rest.length := by rw [h]; simp
  rw [List.length_drop] at hl
  unfold sub
  rw [if_pos (by omega)]
  simp [h]

theorem rd_of_drop (site : String) (d rest : Bytes) (off k n : Nat)
    (h : d.drop off = leBytes k n ++ rest) (hoff : off ≤ d.length) (hn : n < 256 ^ k) :
    rd site d off k = .ok n := by
  unfold rd
  have := sub_of_drop site d (leBytes k n) rest off h hoff
  rw [leBytes_length] at this
  rw [this]
  show Res.ok (leVal (leBytes k n)) = _
  rw [leVal_leBytes_lt k n hn]

theorem view_of_drop (site : String) (d pl rest : Bytes) (off : Nat)
    (h : d.drop off = pl ++ rest) (hoff : off < d.length) :
    view site d off pl.length = .ok pl := by
  have hl : (d.drop off).length = pl.length + rest.length := by rw [h]; simp
  rw [List.length_drop] at hl
  unfold view
  rw [if_pos (by omega)]
  simp [h]

theorem sub_tail (site : String) (d : Bytes) (k : Nat) (hk : k ≤ d.length) :
    sub site d k d.length = .ok (d.drop k) := by
  unfold sub
  rw [if_pos (by omega)]
  rw [List.take_of_length_le (by simp)]

theorem at1_of_drop (site : String) (d rest : Bytes) (off b : Nat)
    (h : d.drop off = b :: rest) : at1 site d off = .ok b := by
  unfold at1
  have : d[off]? = some b := by
    have := congrArg (fun l => l[0]?) h
    simpa using this
  rw [this]

/-! ### payload parsers -/

theorem leBytes2_eq (v : Nat) : leBytes 2 v = [v % 256, v / 256 % 256] := rfl

theorem u16s_flatMap (vs : List Nat) (h : ∀ v ∈ vs, v < 65536) :
    u16s (vs.flatMap (leBytes 2)) = vs := by
  induction vs with
  | nil => rfl
  | cons v vs ih =>
    have hv : v < 65536 := h v (by simp)
    rw [List.flatMap_cons, leBytes2_eq]
    simp only [List.cons_append, List.nil_append, u16s]
    rw [ih (fun w hw => h w (by simp [hw]))]
    congr 1
    omega

theorem encRun_eq (r : Nat × Nat) :
    encRun r = [r.1 % 256, r.1 / 256 % 256, r.2 % 256, r.2 / 256 % 256] := rfl

theorem runsP_flatMap (rs : List (Nat × Nat)) (h : ∀ r ∈ rs, r.1 < 65536 ∧ r.2 < 65536) :
    runsP (rs.flatMap encRun) = rs := by
  induction rs with
  | nil => rfl
  | cons r rs ih =>
    have hr := h r (by simp)
    rw [List.flatMap_cons, encRun_eq]
    simp only [List.cons_append, List.nil_append, runsP]
    rw [ih (fun w hw => h w (by simp [hw]))]
    congr 1
    apply Prod.ext <;> simp <;> omega

theorem flatMap_leBytes2_length (vs : List Nat) : (vs.flatMap (leBytes 2)).length = 2 * vs.length := by
  induction vs with
  | nil => rfl
  | cons v vs ih => rw [List.flatMap_cons, List.length_append, ih, leBytes_length, List.length_cons]; omega

theorem flatMap_encRun_length (rs : List (Nat × Nat)) : (rs.flatMap encRun).length = 4 * rs.length := by
  induction rs with
  | nil => rfl
  | cons v vs ih =>
    rw [List.flatMap_cons, List.length_append, ih, encRun_eq, List.length_cons]
    simp only [List.length_cons, List.length_nil]; omega

theorem payload_length (c : Cont) : c.payload.length = c.size := by
  cases c with
  | array vs => exact flatMap_leBytes2_length vs
  | bitmap bs => rfl
  | run rs =>
    show (leBytes 2 rs.length ++ rs.flatMap encRun).length = 4 * rs.length + 2
    rw [List.length_append, leBytes_length, flatMap_encRun_length]; omega

/-! ### Pilosa format: decode of writeToUnoptimized -/

@[simp] theorem Res.ok_bind {α β : Type} (a : α) (f : α → Res β) : (Res.ok a >>= f) = f a := rfl
@[simp] theorem Res.err_bind {α β : Type} (e : Err) (f : α → Res β) : (Res.err e >>= f) = Res.err e := rfl
@[simp] theorem Res.panic_bind {α β : Type} (s : String) (f : α → Res β) : (Res.panic s >>= f) = Res.panic s := rfl
@[simp] theorem Res.pure_eq {α : Type} (a : α) : (pure a : Res α) = Res.ok a := rfl

/-- What the byte format can carry of a container. -/
def contEnc : Cont → Prop
  | .array vs => ∀ v ∈ vs, v < 65536
  | .bitmap bs => bs.length = bitmapBytes
  | .run rs => rs ≠ [] ∧ rs.length < 65536 ∧ ∀ r ∈ rs, r.1 < 65536 ∧ r.2 < 65536

structure EntryEnc (e : Entry) : Prop where
  c : contEnc e.c
  npos : 1 ≤ e.n
  nle : e.n ≤ 65536
  key : e.key < 2 ^ 64
  arr : ∀ vs, e.c = .array vs → vs.length = e.n

theorem pAttach_ok (d rest : Bytes) (e : Entry) (off : Nat) (he : EntryEnc e)
    (h : d.drop off = e.c.payload ++ rest) (hoff : off ≤ d.length) :
    pAttach d e.c.typ e.n off = .ok (e.c, off + e.c.size) := by
  have hl : (d.drop off).length = e.c.payload.length + rest.length := by rw [h]; simp
  rw [List.length_drop, payload_length] at hl
  obtain ⟨hc, hn1, hn2, hk, harr⟩ := he
  cases hcase : e.c with
  | array vs =>
    rw [hcase] at h hl hc
    have hlen : vs.length = e.n := harr vs hcase
    simp only [Cont.size] at hl
    unfold pAttach
    simp only [Cont.typ, cArray, cRun, cBitmap, Nat.reduceEqDiff, ↓reduceIte]
    rw [if_neg (by omega)]
    have hv := view_of_drop "pilosa.array.view" d (vs.flatMap (leBytes 2)) rest off h (by omega)
    rw [flatMap_leBytes2_length] at hv
    have e2 : e.n * 2 = 2 * vs.length := by omega
    rw [e2, hv]
    simp only [Res.ok_bind, Res.pure_eq, Cont.size]
    rw [u16s_flatMap vs hc]
  | bitmap bs =>
    rw [hcase] at h hl hc
    simp only [Cont.size] at hl
    simp only [contEnc] at hc
    unfold pAttach
    simp only [Cont.typ, cArray, cRun, cBitmap, Nat.reduceEqDiff, ↓reduceIte]
    rw [if_neg (by simp only [bitmapBytes] at *; omega)]
    have hv := view_of_drop "pilosa.bitmap.view" d bs rest off h (by simp only [bitmapBytes] at *; omega)
    rw [hc] at hv
    rw [hv]
    simp only [Res.ok_bind, Res.pure_eq, Cont.size, hc]
  | run rs =>
    rw [hcase] at h hl hc
    simp only [Cont.size] at hl
    obtain ⟨hne, hlt, hr⟩ := hc
    have hpos : 0 < rs.length := List.length_pos_iff.mpr hne
    unfold pAttach
    simp only [Cont.typ, cRun, ↓reduceIte]
    rw [if_neg (by omega)]
    have h1 : d.drop off = leBytes 2 rs.length ++ (rs.flatMap encRun ++ rest) := by
      rw [h]; simp [Cont.payload]
    rw [rd_of_drop "pilosa.run.count" d _ off 2 rs.length h1 hoff (by simpa using hlt)]
    simp only [Res.ok_bind]
    rw [if_neg (by omega)]
    have h2 : d.drop (off + 2) = rs.flatMap encRun ++ rest := by
      have := congrArg (List.drop 2) h1
      rw [List.drop_drop] at this
      rw [this, List.drop_append]
      simp [leBytes_length]
    have hv := view_of_drop "pilosa.run.view" d (rs.flatMap encRun) rest (off + 2) h2 (by omega)
    rw [flatMap_encRun_length] at hv
    have e2 : rs.length * 4 = 4 * rs.length := by omega
    rw [e2, hv]
    simp only [Res.ok_bind, Res.pure_eq, Cont.size]
    rw [runsP_flatMap rs hr]
    congr 2
    omega

def slotOf (e : Entry) : Slot := { key := e.key, typ := e.c.typ, n := e.n, c := none }
def slotDone (e : Entry) : Slot := { key := e.key, typ := e.c.typ, n := e.n, c := some e.c }

theorem putCVd_cons (key typ n : Nat) (slots : List Slot) (h : ∀ s ∈ slots.head?, s.key < key) :
    putCVd key typ n slots = { key, typ, n } :: slots := by
  cases slots with
  | nil => rfl
  | cons s r => simp only [putCVd]; rw [if_pos (h s (by simp))]

theorem typ_cases (c : Cont) : c.typ = 1 ∨ c.typ = 2 ∨ c.typ = 3 := by
  cases c <;> simp [Cont.typ, cArray, cBitmap, cRun]

theorem encHeader_length (e : Entry) : (encHeader e).length = 12 := by
  simp [encHeader, leBytes_length]

theorem flatMap_encHeader_length (cs : List Entry) : (cs.flatMap encHeader).length = 12 * cs.length := by
  induction cs with
  | nil => rfl
  | cons v vs ih => rw [List.flatMap_cons, List.length_append, ih, encHeader_length, List.length_cons]; omega

theorem encOffsets_length (off : Nat) (cs : List Entry) : (encOffsets off cs).length = 4 * cs.length := by
  induction cs generalizing off with
  | nil => rfl
  | cons v vs ih => simp only [encOffsets, List.length_append, leBytes_length, ih, List.length_cons]; omega

theorem pHdrLoop_ok (cs : List Entry) (acc : List Entry) (rest : Bytes)
    (hcs : ∀ e ∈ cs, EntryEnc e) (hasc : (acc ++ cs).Pairwise (fun a b => a.key < b.key)) :
    pHdrLoop cs.length (cs.flatMap encHeader ++ rest) (acc.map slotOf).reverse
      = .ok ((acc ++ cs).map slotOf) := by
  induction cs generalizing acc with
  | nil => simp [pHdrLoop]
  | cons e t ih =>
    have he := hcs e (by simp)
    have hbuf : (e :: t).flatMap encHeader ++ rest
        = leBytes 8 e.key ++ (leBytes 2 e.c.typ ++ (leBytes 2 (e.n - 1) ++ (t.flatMap encHeader ++ rest))) := by
      simp [List.flatMap_cons, encHeader, List.append_assoc]
    rw [hbuf]
    generalize hB : leBytes 8 e.key ++ (leBytes 2 e.c.typ ++ (leBytes 2 (e.n - 1) ++ (t.flatMap encHeader ++ rest))) = buf
    have hlen : 12 ≤ buf.length := by rw [← hB]; simp [leBytes_length]; omega
    have d0 : buf.drop 0 = leBytes 8 e.key ++ (leBytes 2 e.c.typ ++ (leBytes 2 (e.n - 1) ++ (t.flatMap encHeader ++ rest))) := by
      rw [← hB]; rfl
    have d8 : buf.drop 8 = leBytes 2 e.c.typ ++ (leBytes 2 (e.n - 1) ++ (t.flatMap encHeader ++ rest)) := by
      rw [← hB]; exact List.drop_left' (leBytes_length 8 _)
    have d10 : buf.drop 10 = leBytes 2 (e.n - 1) ++ (t.flatMap encHeader ++ rest) := by
      have := congrArg (List.drop 2) d8
      rw [List.drop_drop] at this
      rw [this]; exact List.drop_left' (leBytes_length 2 _)
    have d12 : buf.drop 12 = t.flatMap encHeader ++ rest := by
      have := congrArg (List.drop 2) d10
      rw [List.drop_drop] at this
      rw [this]; exact List.drop_left' (leBytes_length 2 _)
    have htyp := typ_cases e.c
    simp only [List.length_cons, pHdrLoop]
    rw [rd_of_drop _ buf _ 0 8 e.key d0 (by omega) he.key]
    rw [rd_of_drop _ buf _ 8 2 e.c.typ d8 (by omega) (by show e.c.typ < 65536; omega)]
    rw [rd_of_drop _ buf _ 10 2 (e.n - 1) d10 (by omega) (by have := he.nle; show e.n - 1 < 65536; omega)]
    simp only [Res.ok_bind]
    have hmod : e.c.typ % 256 = e.c.typ := by rcases htyp with h | h | h <;> rw [h]
    rw [hmod]
    rw [if_neg (by simp only [cArray, cBitmap, cRun]; omega)]
    rw [sub_tail _ buf 12 hlen, d12]
    simp only [Res.ok_bind]
    have hn : e.n - 1 + 1 = e.n := by have := he.npos; omega
    have hhead : ∀ s ∈ ((acc.map slotOf).reverse).head?, s.key < e.key := by
      intro s hs
      rw [List.head?_reverse] at hs
      have hmem : s ∈ acc.map slotOf := List.mem_of_getLast? hs
      obtain ⟨a, ha, rfl⟩ := List.mem_map.mp hmem
      have := (List.pairwise_append.mp hasc).2.2 a ha e (by simp)
      exact this
    rw [hn, putCVd_cons _ _ _ _ hhead]
    have := ih (acc ++ [e]) (fun x hx => hcs x (by simp [hx])) (by simpa using hasc)
    simp only [List.map_append, List.map_cons, List.map_nil, List.reverse_append, List.reverse_cons,
      List.reverse_nil, List.nil_append, List.cons_append, List.append_assoc] at this ⊢
    exact this

theorem payload_pos (e : Entry) (he : EntryEnc e) : 0 < e.c.payload.length := by
  rw [payload_length]
  obtain ⟨hc, hn1, _, _, harr⟩ := he
  cases hcase : e.c with
  | array vs => have := harr vs hcase; simp only [Cont.size]; omega
  | bitmap bs => rw [hcase] at hc; simp only [contEnc, bitmapBytes] at hc; simp only [Cont.size]; omega
  | run rs => simp only [Cont.size]; omega

theorem pOffLoop_ok (d : Bytes) (todo done : List Entry) (off oo : Nat) (rest : Bytes)
    (hcs : ∀ e ∈ todo, EntryEnc e)
    (hdrop : d.drop off = todo.flatMap (fun e => e.c.payload))
    (hoff : off ≤ d.length) (hd : d.length < 2 ^ 32) :
    pOffLoop d todo.length (encOffsets off todo ++ rest) (done.map slotDone).reverse
        (todo.map slotOf) oo
      = .ok ((done ++ todo).map slotDone, if todo = [] then oo else d.length) := by
  induction todo generalizing done off oo with
  | nil => simp [pOffLoop]
  | cons e t ih =>
    have he := hcs e (by simp)
    have hpl := payload_pos e he
    have hdrop' : d.drop off = e.c.payload ++ t.flatMap (fun e => e.c.payload) := by
      rw [hdrop, List.flatMap_cons]
    have hl : (d.drop off).length = e.c.payload.length + (t.flatMap (fun e => e.c.payload)).length := by
      rw [hdrop']; simp
    rw [List.length_drop] at hl
    have hlt : off < d.length := by omega
    simp only [List.length_cons, pOffLoop, encOffsets, List.append_assoc, List.map_cons]
    generalize hB : leBytes 4 off ++ (encOffsets (off + e.c.size) t ++ rest) = buf
    have d0 : buf.drop 0 = leBytes 4 off ++ (encOffsets (off + e.c.size) t ++ rest) := by rw [← hB]; rfl
    have d4 : buf.drop 4 = encOffsets (off + e.c.size) t ++ rest := by
      rw [← hB]; exact List.drop_left' (leBytes_length 4 _)
    have hlen : 4 ≤ buf.length := by rw [← hB]; simp [leBytes_length]
    rw [rd_of_drop _ buf _ 0 4 off d0 (by omega) (by show off < 4294967296; omega)]
    simp only [Res.ok_bind]
    rw [if_neg (by omega)]
    simp only [slotOf]
    rw [pAttach_ok d _ e off he hdrop' hoff]
    simp only [Res.ok_bind]
    rw [sub_tail _ buf 4 hlen, d4]
    simp only [Res.ok_bind]
    have hdrop2 : d.drop (off + e.c.size) = t.flatMap (fun e => e.c.payload) := by
      have := congrArg (List.drop e.c.size) hdrop'
      rw [List.drop_drop] at this
      rw [this]; exact List.drop_left' (payload_length e.c)
    rw [payload_length] at hl
    cases t with
    | nil =>
      simp only [List.map_nil, List.length_nil, pOffLoop, Res.pure_eq, Slot.attach, List.reverse_reverse]
      simp only [List.flatMap_nil, List.length_nil] at hl
      have : off + e.c.size = d.length := by omega
      simp [slotDone, this]
    | cons e2 t2 =>
      simp only [List.map_cons]
      have := ih (done ++ [e]) (off + e.c.size) (off + e.c.size) (fun x hx => hcs x (by simp [hx])) hdrop2 (by omega)
      simp only [List.map_append, List.map_cons, List.map_nil, List.reverse_append, List.reverse_cons,
        List.reverse_nil, List.nil_append, List.cons_append, List.length_cons, slotOf, slotDone,
        List.append_assoc] at this
      simp only [Slot.attach, List.length_cons, slotOf]
      rw [this]
      simp [slotDone]

theorem slotsToEntries_done (cs : List Entry) : slotsToEntries (cs.map slotDone) = cs := by
  induction cs with
  | nil => rfl
  | cons e t ih => simp [slotsToEntries, slotDone, ih]

theorem writeUnopt_eq (b : Bitmap) :
    writeUnopt b =
      ([60, 48, 0, b.flags % 256] ++ leBytes 4 (b.cs.filter (fun e => e.n > 0)).length)
        ++ ((b.cs.filter (fun e => e.n > 0)).flatMap encHeader
          ++ (encOffsets (8 + (b.cs.filter (fun e => e.n > 0)).length * 16) (b.cs.filter (fun e => e.n > 0))
            ++ (b.cs.filter (fun e => e.n > 0)).flatMap (fun e => e.c.payload))) := by
  simp [writeUnopt, magicPilosa, leBytes, List.append_assoc]

theorem unmarshalPilosa_writeUnopt (b : Bitmap)
    (hcs : ∀ e ∈ b.cs.filter (fun e => e.n > 0), EntryEnc e)
    (hasc : (b.cs.filter (fun e => e.n > 0)).Pairwise (fun a b => a.key < b.key))
    (hsize : (writeUnopt b).length < 2 ^ 32) :
    unmarshalPilosa (writeUnopt b) =
      .ok { flags := b.flags % 256, cs := b.cs.filter (fun e => e.n > 0),
            vals := entriesToVMap (b.cs.filter (fun e => e.n > 0)), ops := 0, opN := 0 } := by
  rw [writeUnopt_eq] at hsize ⊢
  generalize b.cs.filter (fun e => e.n > 0) = cs at *
  generalize hPL : cs.flatMap (fun e => e.c.payload) = PL at *
  generalize hd : ([60, 48, 0, b.flags % 256] ++ leBytes 4 cs.length)
        ++ (cs.flatMap encHeader ++ (encOffsets (8 + cs.length * 16) cs ++ PL)) = d at *
  have hH : ([60, 48, 0, b.flags % 256] ++ leBytes 4 cs.length).length = 8 := by simp [leBytes_length]
  have hlen : d.length = 8 + 12 * cs.length + 4 * cs.length + PL.length := by
    rw [← hd]; simp only [List.length_append, hH, flatMap_encHeader_length, encOffsets_length]; omega
  have d0 : d.drop 0 = leBytes 2 12348 ++ ([0, b.flags % 256] ++ leBytes 4 cs.length ++ (cs.flatMap encHeader ++ (encOffsets (8 + cs.length * 16) cs ++ PL))) := by
    rw [← hd]; simp [leBytes]
  have d2 : d.drop 2 = 0 :: ([b.flags % 256] ++ leBytes 4 cs.length ++ (cs.flatMap encHeader ++ (encOffsets (8 + cs.length * 16) cs ++ PL))) := by
    rw [← hd]; simp
  have d3 : d.drop 3 = (b.flags % 256) :: (leBytes 4 cs.length ++ (cs.flatMap encHeader ++ (encOffsets (8 + cs.length * 16) cs ++ PL))) := by
    rw [← hd]; simp
  have d4 : d.drop 4 = leBytes 4 cs.length ++ (cs.flatMap encHeader ++ (encOffsets (8 + cs.length * 16) cs ++ PL)) := by
    rw [← hd]; simp
  have d8 : d.drop 8 = cs.flatMap encHeader ++ (encOffsets (8 + cs.length * 16) cs ++ PL) := by
    rw [← hd]; exact List.drop_left' hH
  have d8' : d.drop (8 + cs.length * 12) = encOffsets (8 + cs.length * 16) cs ++ PL := by
    have := congrArg (List.drop (cs.length * 12)) d8
    rw [List.drop_drop] at this
    rw [this]; exact List.drop_left' (by rw [flatMap_encHeader_length]; omega)
  have d8'' : d.drop (8 + cs.length * 16) = PL := by
    have := congrArg (List.drop (cs.length * 4)) d8'
    rw [List.drop_drop] at this
    have e : 8 + cs.length * 12 + cs.length * 4 = 8 + cs.length * 16 := by omega
    rw [e] at this
    rw [this]; exact List.drop_left' (by rw [encOffsets_length]; omega)
  unfold unmarshalPilosa loadPilosa
  rw [if_neg (by omega)]
  rw [rd_of_drop _ d _ 0 2 12348 d0 (by omega) (by decide)]
  rw [at1_of_drop _ d _ 2 0 d2, at1_of_drop _ d _ 3 _ d3]
  simp only [Res.ok_bind, magicPilosa]
  rw [if_neg (by decide), if_neg (by decide)]
  rw [rd_of_drop _ d _ 4 4 cs.length d4 (by omega) (by show cs.length < 4294967296; omega)]
  simp only [Res.ok_bind]
  rw [if_neg (by omega), if_neg (by omega)]
  rw [sub_tail _ d 8 (by omega), d8]
  simp only [Res.ok_bind]
  have hH0 := pHdrLoop_ok cs [] (encOffsets (8 + cs.length * 16) cs ++ PL) hcs (by simpa using hasc)
  simp only [List.map_nil, List.reverse_nil, List.nil_append] at hH0
  rw [hH0]
  simp only [Res.ok_bind]
  rw [sub_tail _ d (8 + cs.length * 12) (by omega), d8']
  simp only [Res.ok_bind]
  have := pOffLoop_ok d cs [] (8 + cs.length * 16) (8 + cs.length * 12) PL hcs (by rw [d8'', hPL]) (by omega) hsize
  simp only [List.map_nil, List.nil_append, List.reverse_nil] at this
  rw [this]
  simp only [Res.ok_bind, Res.pure_eq, slotsToEntries_done]
  have hoo : (if cs = [] then 8 + cs.length * 12 else d.length) = d.length := by
    split
    · next h => subst h; simp at hPL; subst hPL; simp at hlen; simp [hlen]
    · rfl
  rw [hoo, sub_tail _ d d.length (Nat.le_refl _)]
  simp [opsLoop]

def itemOf (e : Entry) : Item := { key := e.key, typ := e.c.typ, n := e.n, c := e.c }

theorem at1_lt (site : String) (d : Bytes) (i : Nat) (h : i < d.length) : ∃ b, at1 site d i = .ok b := by
  unfold at1
  rw [List.getElem?_eq_getElem h]
  exact ⟨_, rfl⟩

theorem nextBody_pilosa_ok (d rest : Bytes) (e : Entry) (off : Nat) (he : EntryEnc e)
    (h : d.drop off = e.c.payload ++ rest) (hoff : off ≤ d.length) (h8 : 8 ≤ off) :
    nextBody false d e.key e.c.typ e.n off = .ok (itemOf e, off + e.c.size) := by
  have hl : (d.drop off).length = e.c.payload.length + rest.length := by rw [h]; simp
  rw [List.length_drop, payload_length] at hl
  obtain ⟨hc, hn1, hn2, hk, harr⟩ := he
  cases hcase : e.c with
  | array vs =>
    rw [hcase] at h hl hc
    have hlen : vs.length = e.n := harr vs hcase
    simp only [Cont.size] at hl
    unfold nextBody
    simp only [Cont.typ, cArray, cRun, cBitmap, Nat.reduceEqDiff, ↓reduceIte, Res.pure_eq, Res.ok_bind]
    rw [if_neg (by omega)]
    obtain ⟨b, hb⟩ := at1_lt "iter.pointer" d off (by omega)
    rw [hb]
    simp only [Res.ok_bind]
    rw [if_neg (by omega)]
    have hv := view_of_drop "iter.array" d (vs.flatMap (leBytes 2)) rest off h (by omega)
    rw [flatMap_leBytes2_length] at hv
    have e2 : e.n * 2 = 2 * vs.length := by omega
    rw [e2, hv]
    simp only [Res.ok_bind, Res.pure_eq, Cont.size, itemOf, hcase, Cont.typ, cArray]
    rw [u16s_flatMap vs hc]
  | bitmap bs =>
    rw [hcase] at h hl hc
    simp only [Cont.size] at hl
    simp only [contEnc] at hc
    unfold nextBody
    simp only [Cont.typ, cArray, cRun, cBitmap, Nat.reduceEqDiff, ↓reduceIte, Res.pure_eq, Res.ok_bind]
    rw [if_neg (by simp only [bitmapBytes] at *; omega)]
    obtain ⟨b, hb⟩ := at1_lt "iter.pointer" d off (by simp only [bitmapBytes] at *; omega)
    rw [hb]
    simp only [Res.ok_bind]
    rw [if_neg (by simp only [bitmapBytes] at *; omega)]
    have hv := view_of_drop "iter.bitmap" d bs rest off h (by simp only [bitmapBytes] at *; omega)
    rw [hc] at hv
    rw [hv]
    simp only [Res.ok_bind, Res.pure_eq, Cont.size, hc, itemOf, hcase, Cont.typ, cBitmap]
  | run rs =>
    rw [hcase] at h hl hc
    simp only [Cont.size] at hl
    obtain ⟨hne, hlt, hr⟩ := hc
    have hpos : 0 < rs.length := List.length_pos_iff.mpr hne
    have h1 : d.drop off = leBytes 2 rs.length ++ (rs.flatMap encRun ++ rest) := by
      rw [h]; simp [Cont.payload]
    have h2 : d.drop (off + 2) = rs.flatMap encRun ++ rest := by
      have := congrArg (List.drop 2) h1
      rw [List.drop_drop] at this
      rw [this, List.drop_append]
      simp [leBytes_length]
    unfold nextBody
    simp only [Cont.typ, cRun, ↓reduceIte]
    rw [if_neg (by omega)]
    rw [rd_of_drop "iter.runCount" d _ off 2 rs.length h1 hoff (by simpa using hlt)]
    simp only [Res.ok_bind, Res.pure_eq]
    rw [if_neg (by omega)]
    obtain ⟨b, hb⟩ := at1_lt "iter.pointer" d (off + 2) (by omega)
    rw [hb]
    simp only [Res.ok_bind, cArray, cBitmap, Nat.reduceEqDiff, ↓reduceIte]
    rw [if_neg (by omega)]
    have hv := view_of_drop "iter.runs" d (rs.flatMap encRun) rest (off + 2) h2 (by omega)
    rw [flatMap_encRun_length] at hv
    have e2 : rs.length * 4 = 4 * rs.length := by omega
    rw [e2, hv]
    simp only [Res.ok_bind, Res.pure_eq, Cont.size, itemOf, hcase, Cont.typ, cRun]
    rw [runsP_flatMap rs hr]
    congr 2
    omega

theorem pilosaWalk_ok (d : Bytes) (todo : List Entry) (off : Nat) (hrest orest : Bytes)
    (hcs : ∀ e ∈ todo, EntryEnc e)
    (hdrop : d.drop off = todo.flatMap (fun e => e.c.payload))
    (hoff : off ≤ d.length) (h8 : 8 ≤ off) (hd : d.length < 2 ^ 32) :
    pilosaWalk d todo.length (todo.flatMap encHeader ++ hrest) (encOffsets off todo ++ orest)
      = .ok ⟨todo.map itemOf, none⟩ := by
  induction todo generalizing off with
  | nil => simp [pilosaWalk]
  | cons e t ih =>
    have he := hcs e (by simp)
    have hpl := payload_pos e he
    have hdrop' : d.drop off = e.c.payload ++ t.flatMap (fun e => e.c.payload) := by
      rw [hdrop, List.flatMap_cons]
    have hl : (d.drop off).length = e.c.payload.length + (t.flatMap (fun e => e.c.payload)).length := by
      rw [hdrop']; simp
    rw [List.length_drop, payload_length] at hl
    have hbuf : (e :: t).flatMap encHeader ++ hrest
        = leBytes 8 e.key ++ (leBytes 2 e.c.typ ++ (leBytes 2 (e.n - 1) ++ (t.flatMap encHeader ++ hrest))) := by
      simp [List.flatMap_cons, encHeader, List.append_assoc]
    rw [hbuf]
    generalize hB : leBytes 8 e.key ++ (leBytes 2 e.c.typ ++ (leBytes 2 (e.n - 1) ++ (t.flatMap encHeader ++ hrest))) = buf
    have hlen : 12 ≤ buf.length := by rw [← hB]; simp [leBytes_length]; omega
    have d0 : buf.drop 0 = leBytes 8 e.key ++ (leBytes 2 e.c.typ ++ (leBytes 2 (e.n - 1) ++ (t.flatMap encHeader ++ hrest))) := by
      rw [← hB]; rfl
    have d8 : buf.drop 8 = leBytes 2 e.c.typ ++ (leBytes 2 (e.n - 1) ++ (t.flatMap encHeader ++ hrest)) := by
      rw [← hB]; exact List.drop_left' (leBytes_length 8 _)
    have d10 : buf.drop 10 = leBytes 2 (e.n - 1) ++ (t.flatMap encHeader ++ hrest) := by
      have := congrArg (List.drop 2) d8
      rw [List.drop_drop] at this
      rw [this]; exact List.drop_left' (leBytes_length 2 _)
    have d12 : buf.drop 12 = t.flatMap encHeader ++ hrest := by
      have := congrArg (List.drop 2) d10
      rw [List.drop_drop] at this
      rw [this]; exact List.drop_left' (leBytes_length 2 _)
    simp only [encOffsets, List.append_assoc]
    generalize hO : leBytes 4 off ++ (encOffsets (off + e.c.size) t ++ orest) = obuf
    have o0 : obuf.drop 0 = leBytes 4 off ++ (encOffsets (off + e.c.size) t ++ orest) := by rw [← hO]; rfl
    have o4 : obuf.drop 4 = encOffsets (off + e.c.size) t ++ orest := by
      rw [← hO]; exact List.drop_left' (leBytes_length 4 _)
    have holen : 4 ≤ obuf.length := by rw [← hO]; simp [leBytes_length]
    have htyp := typ_cases e.c
    simp only [List.length_cons, pilosaWalk]
    rw [rd_of_drop _ buf _ 0 8 e.key d0 (by omega) he.key]
    rw [rd_of_drop _ buf _ 8 2 e.c.typ d8 (by omega) (by show e.c.typ < 65536; omega)]
    rw [rd_of_drop _ buf _ 10 2 (e.n - 1) d10 (by omega) (by have := he.nle; show e.n - 1 < 65536; omega)]
    rw [rd_of_drop _ obuf _ 0 4 off o0 (by omega) (by show off < 4294967296; omega)]
    simp only [Res.ok_bind]
    have hmod : e.c.typ % 256 = e.c.typ := by rcases htyp with h | h | h <;> rw [h]
    have hn : e.n - 1 + 1 = e.n := by have := he.npos; omega
    rw [hmod, hn, nextBody_pilosa_ok d _ e off he hdrop' hoff h8]
    simp only []
    rw [sub_tail _ buf 12 hlen, d12, sub_tail _ obuf 4 holen, o4]
    simp only [Res.ok_bind]
    have hdrop2 : d.drop (off + e.c.size) = t.flatMap (fun e => e.c.payload) := by
      have := congrArg (List.drop e.c.size) hdrop'
      rw [List.drop_drop] at this
      rw [this]; exact List.drop_left' (payload_length e.c)
    rw [ih (off + e.c.size) (fun x hx => hcs x (by simp [hx])) hdrop2 (by omega) (by omega)]
    simp

theorem iterate_writeUnopt (b : Bitmap)
    (hcs : ∀ e ∈ b.cs.filter (fun e => e.n > 0), EntryEnc e)
    (hsize : (writeUnopt b).length < 2 ^ 32) :
    iterate (writeUnopt b) = .ok ⟨(b.cs.filter (fun e => e.n > 0)).map itemOf, none⟩ := by
  rw [writeUnopt_eq] at hsize ⊢
  generalize b.cs.filter (fun e => e.n > 0) = cs at *
  generalize hPL : cs.flatMap (fun e => e.c.payload) = PL at *
  generalize hd : ([60, 48, 0, b.flags % 256] ++ leBytes 4 cs.length)
        ++ (cs.flatMap encHeader ++ (encOffsets (8 + cs.length * 16) cs ++ PL)) = d at *
  have hH : ([60, 48, 0, b.flags % 256] ++ leBytes 4 cs.length).length = 8 := by simp [leBytes_length]
  have hlen : d.length = 8 + 12 * cs.length + 4 * cs.length + PL.length := by
    rw [← hd]; simp only [List.length_append, hH, flatMap_encHeader_length, encOffsets_length]; omega
  have d0 : d.drop 0 = leBytes 2 12348 ++ ([0, b.flags % 256] ++ leBytes 4 cs.length ++ (cs.flatMap encHeader ++ (encOffsets (8 + cs.length * 16) cs ++ PL))) := by
    rw [← hd]; simp [leBytes]
  have d2 : d.drop 2 = 0 :: ([b.flags % 256] ++ leBytes 4 cs.length ++ (cs.flatMap encHeader ++ (encOffsets (8 + cs.length * 16) cs ++ PL))) := by
    rw [← hd]; simp
  have d4 : d.drop 4 = leBytes 4 cs.length ++ (cs.flatMap encHeader ++ (encOffsets (8 + cs.length * 16) cs ++ PL)) := by
    rw [← hd]; simp
  have d8 : d.drop 8 = cs.flatMap encHeader ++ (encOffsets (8 + cs.length * 16) cs ++ PL) := by
    rw [← hd]; exact List.drop_left' hH
  have d8' : d.drop (8 + cs.length * 12) = encOffsets (8 + cs.length * 16) cs ++ PL := by
    have := congrArg (List.drop (cs.length * 12)) d8
    rw [List.drop_drop] at this
    rw [this]; exact List.drop_left' (by rw [flatMap_encHeader_length]; omega)
  have d8'' : d.drop (8 + cs.length * 16) = PL := by
    have := congrArg (List.drop (cs.length * 4)) d8'
    rw [List.drop_drop] at this
    have e : 8 + cs.length * 12 + cs.length * 4 = 8 + cs.length * 16 := by omega
    rw [e] at this
    rw [this]; exact List.drop_left' (by rw [encOffsets_length]; omega)
  unfold iterate
  rw [if_neg (by omega)]
  rw [rd_of_drop _ d _ 0 2 12348 d0 (by omega) (by decide)]
  simp only [Res.ok_bind, cookieRun, cookieNoRun, magicPilosa, Nat.reduceEqDiff, or_self, ↓reduceIte]
  rw [at1_of_drop _ d _ 2 0 d2]
  simp only [Res.ok_bind, ne_eq, not_true_eq_false, ↓reduceIte]
  rw [rd_of_drop _ d _ 4 4 cs.length d4 (by omega) (by show cs.length < 4294967296; omega)]
  simp only [Res.ok_bind]
  by_cases hk : cs.length = 0
  · rw [if_pos hk]
    have : cs = [] := List.length_eq_zero_iff.mp hk
    subst this; rfl
  · rw [if_neg hk, if_neg (by omega)]
    have s1 : sub "piter.headers" d 8 (8 + cs.length * 12) = .ok (cs.flatMap encHeader) := by
      have := sub_of_drop "piter.headers" d (cs.flatMap encHeader) _ 8 d8 (by omega)
      rw [flatMap_encHeader_length] at this
      have e : 8 + 12 * cs.length = 8 + cs.length * 12 := by omega
      rw [e] at this; exact this
    have s2 : sub "piter.offsets" d (8 + cs.length * 12) (8 + cs.length * 16) = .ok (encOffsets (8 + cs.length * 16) cs) := by
      have := sub_of_drop "piter.offsets" d (encOffsets (8 + cs.length * 16) cs) _ (8 + cs.length * 12) d8' (by omega)
      rw [encOffsets_length] at this
      have e : 8 + cs.length * 12 + 4 * cs.length = 8 + cs.length * 16 := by omega
      rw [e] at this; exact this
    rw [s1, s2]
    simp only [Res.ok_bind]
    have := pilosaWalk_ok d cs (8 + cs.length * 16) [] [] hcs (by rw [d8'', hPL]) (by omega) (by omega) hsize
    simpa using this

end PV.C04
