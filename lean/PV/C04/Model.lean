/-
Executable model of the roaring byte formats of roaring/roaring.go (tree: branch verif/a03, i.e.
with the `fix:` commits listed in design/C04.md and design/C06.md).  Core Lean only.

  encodeP          Bitmap.WriteTo = Optimize + writeToUnoptimized (Pilosa format)
  unmarshal        Bitmap.UnmarshalBinary: unmarshalPilosaRoaring (headers, offsets, containers,
                   op log) / readOfficialHeader + readOffsets / readWithRuns
  iterate          newRoaringIterator + pilosaRoaringIterator.Next / officialRoaringIterator.Next
  importBits       Bitmap.ImportRoaringBits (validation walk, then the set / clear updaters)

Every Go slice / index / unchecked-view expression is a checked access (`sub`, `rd`, `at1`,
`view`): leaving the buffer is the explicit outcome `Res.panic <site>`.  `uint16/32/64`
quantities are `Nat`; where the Go code wraps (`uint16(start+len)`, `byte(uint16)`, the cookie)
the model reduces explicitly.  Containers are held at the representation level (array values,
bitmap bytes, run list) as decoded; the container *kernels* (union, difference, add, remove,
the Optimize conversions) are modelled at the value level.
-/
import PV.C04.Wire
namespace PV.C04

def cArray : Nat := 1
def cBitmap : Nat := 2
def cRun : Nat := 3
def magicPilosa : Nat := 12348
def cookieNoRun : Nat := 12346
def cookieRun : Nat := 12347
def arrayMaxSize : Nat := 4096
def runMaxSize : Nat := 2048
def bitmapBytes : Nat := 8192
def noOffsetThreshold : Nat := 4

/-! ### containers -/

inductive Cont
  | array (vs : List Nat)
  | bitmap (bs : Bytes)            -- 1024 little-endian uint64 words = 8192 bytes, bit v = byte v/8, bit v%8
  | run (rs : List (Nat × Nat))    -- (start, last)
  deriving Repr, DecidableEq, Inhabited

def Cont.typ : Cont → Nat
  | .array _ => cArray
  | .bitmap _ => cBitmap
  | .run _ => cRun

/-- Values whose bit is set in byte `b` holding bits `base .. base+7`. -/
def bitsOfByte (base b : Nat) : List Nat :=
  if b = 0 then []
  else (List.range 8).filterMap (fun t => if (b >>> t) % 2 = 1 then some (base + t) else none)

def bitmapValuesFrom : Nat → Bytes → List Nat
  | _, [] => []
  | base, b :: r => bitsOfByte base b ++ bitmapValuesFrom (base + 8) r

def runValues (rs : List (Nat × Nat)) : List Nat :=
  rs.flatMap (fun r => List.range' r.1 (r.2 + 1 - r.1))

/-- The values of a container in iteration order (ascending for a well-formed container). -/
def Cont.values : Cont → List Nat
  | .array vs => vs
  | .bitmap bs => bitmapValuesFrom 0 bs
  | .run rs => runValues rs

/-- `len(c.array())*2`, `len(c.runs())*4+2`, `len(c.bitmap())*8`. -/
def Cont.size : Cont → Nat
  | .array vs => 2 * vs.length
  | .bitmap bs => bs.length
  | .run rs => 4 * rs.length + 2

def encRun (r : Nat × Nat) : Bytes := leBytes 2 r.1 ++ leBytes 2 r.2

/-- `Container.WriteTo`. -/
def Cont.payload : Cont → Bytes
  | .array vs => vs.flatMap (leBytes 2)
  | .bitmap bs => bs
  | .run rs => leBytes 2 rs.length ++ rs.flatMap encRun

def u16s : Bytes → List Nat
  | a :: b :: r => (a + 256 * b) :: u16s r
  | _ => []

/-- Pilosa run payload: start, last. -/
def runsP : Bytes → List (Nat × Nat)
  | a :: b :: c :: d :: r => (a + 256 * b, c + 256 * d) :: runsP r
  | _ => []

/-- Official run payload: start, length-1; converted to start, last in uint16 arithmetic. -/
def runsO : Bytes → List (Nat × Nat)
  | a :: b :: c :: d :: r => (a + 256 * b, (a + 256 * b + (c + 256 * d)) % 65536) :: runsO r
  | _ => []

def strictAsc : List Nat → Bool
  | a :: b :: r => a < b && strictAsc (b :: r)
  | _ => true

def runsOk : List (Nat × Nat) → Bool
  | [] => true
  | [r] => r.1 ≤ r.2
  | r :: s :: t => r.1 ≤ r.2 && r.2 < s.1 && runsOk (s :: t)

/-- A container whose contents are consistent with its header cardinality `n` (what the
kernels assume): strictly ascending array of `n` values, `n` bits set, ordered disjoint
non-empty runs covering `n` values. -/
def Cont.wf (n : Nat) : Cont → Bool
  | .array vs => strictAsc vs && vs.length == n && vs.all (· < 65536)
  | .bitmap bs => bs.length == bitmapBytes && (bitmapValuesFrom 0 bs).length == n
  | .run rs => rs != [] && runsOk rs && (runValues rs).length == n && rs.all (·.2 < 65536)

structure Entry where
  key : Nat
  n : Nat          -- c.N()
  c : Cont
  deriving Repr, DecidableEq, Inhabited

structure Bitmap where
  flags : Nat
  cs : List Entry
  deriving Repr, DecidableEq, Inhabited

def Entry.values (e : Entry) : List Nat := e.c.values.map (e.key * 65536 + ·)

def Bitmap.values (b : Bitmap) : List Nat := b.cs.flatMap Entry.values

/-! ### Optimize (value level) -/

/-- Number of maximal runs of consecutive values in an ascending list. -/
def countRunsV : List Nat → Nat
  | [] => 0
  | [_] => 1
  | a :: b :: r => (if a + 1 = b then 0 else 1) + countRunsV (b :: r)

/-- Maximal runs of an ascending list: `toRunsAcc s l vs` with the open run `(s, l)`. -/
def toRunsAcc : Nat → Nat → List Nat → List (Nat × Nat)
  | s, l, [] => [(s, l)]
  | s, l, v :: r => if l + 1 = v then toRunsAcc s v r else (s, l) :: toRunsAcc v v r

def toRuns : List Nat → List (Nat × Nat)
  | [] => []
  | v :: r => toRunsAcc v v r

/-- The byte holding bits `base .. base+7` of the values `here`. -/
def byteOf (base : Nat) (here : List Nat) : Nat :=
  ((List.range 8).map (fun t => if here.contains (base + t) then 2 ^ t else 0)).sum

/-- Bitmap bytes `base/8 ..` (k bytes) of an ascending value list. -/
def packFrom : Nat → Nat → List Nat → Bytes
  | 0, _, _ => []
  | k + 1, base, vs =>
    let here := vs.takeWhile (· < base + 8)
    let rest := vs.dropWhile (· < base + 8)
    byteOf base here :: packFrom k (base + 8) rest

def Cont.ofValues (t : Nat) (vs : List Nat) : Cont :=
  if t = cRun then .run (toRuns vs)
  else if t = cArray then .array vs
  else .bitmap (packFrom bitmapBytes 0 vs)

/-- `countRuns`: recounted from the contents for arrays and bitmaps, `len(runs)` for runs. -/
def Cont.countRuns : Cont → Nat
  | .run rs => rs.length
  | c => countRunsV c.values

/-- The type `Container.optimize` chooses. -/
def optType (n runs : Nat) : Nat :=
  if runs ≤ runMaxSize ∧ runs ≤ n / 2 then cRun
  else if n < arrayMaxSize then cArray
  else cBitmap

/-- `Container.optimize`: `none` for an empty container (it is dropped). -/
def Entry.optimize (e : Entry) : Option Entry :=
  if e.n = 0 then none
  else
    let t := optType e.n e.c.countRuns
    if t = e.c.typ then some e else some { e with c := Cont.ofValues t e.c.values }

def Bitmap.optimize (b : Bitmap) : Bitmap := { b with cs := b.cs.filterMap Entry.optimize }

/-! ### Pilosa format: writeToUnoptimized -/

def encHeader (e : Entry) : Bytes :=
  leBytes 8 e.key ++ leBytes 2 e.c.typ ++ leBytes 2 (e.n - 1)

def encOffsets : Nat → List Entry → Bytes
  | _, [] => []
  | off, e :: r => leBytes 4 off ++ encOffsets (off + e.c.size) r

def writeUnopt (b : Bitmap) : Bytes :=
  let cs := b.cs.filter (fun e => e.n > 0)
  leBytes 2 magicPilosa ++ [0, b.flags % 256] ++ leBytes 4 cs.length
    ++ cs.flatMap encHeader
    ++ encOffsets (8 + cs.length * 16) cs
    ++ cs.flatMap (fun e => e.c.payload)

/-- `Bitmap.WriteTo`. -/
def encodeP (b : Bitmap) : Bytes := writeUnopt b.optimize

/-! ### container slots while decoding (`Containers.PutContainerValues`, then data attached) -/

structure Slot where
  key : Nat
  typ : Nat
  n : Nat
  c : Option Cont := none
  deriving Repr, DecidableEq, Inhabited

/-- `PutContainerValues` (insert at the key's position, or overwrite type and n of an existing
key) on the slots kept in DESCENDING key order: a header with ascending keys costs one step per
container. `pHdrLoop`/`oHdrLoop` reverse the list when the header has been read. -/
def putCVd (key typ n : Nat) : List Slot → List Slot
  | [] => [{ key, typ, n }]
  | s :: r =>
    if s.key < key then { key, typ, n } :: s :: r
    else if key = s.key then { s with typ := typ, n := n } :: r
    else s :: putCVd key typ n r

def Slot.attach (s : Slot) (c : Cont) : Slot := { s with c := some c }

def slotsToEntries : List Slot → List Entry
  | [] => []
  | s :: r =>
    match s.c with
    | some c => { key := s.key, n := s.n, c := c } :: slotsToEntries r
    | none => { key := s.key, n := s.n, c := .array [] } :: slotsToEntries r

/-! ### value-level bitmap (for the op log and ImportRoaringBits) -/

/-- key ↦ ascending low values; keys ascending; an entry may be empty (an empty container). -/
abbrev VMap := List (Nat × List Nat)

def VMap.values (m : VMap) : List Nat := m.flatMap (fun kv => kv.2.map (kv.1 * 65536 + ·))

def VMap.get? (m : VMap) (key : Nat) : Option (List Nat) := (m.find? (·.1 = key)).map (·.2)

def VMap.put (key : Nat) (vs : List Nat) : VMap → VMap
  | [] => [(key, vs)]
  | kv :: r =>
    if key < kv.1 then (key, vs) :: kv :: r
    else if key = kv.1 then (key, vs) :: r
    else kv :: VMap.put key vs r

def insertAsc (v : Nat) : List Nat → List Nat
  | [] => [v]
  | a :: r => if v < a then v :: a :: r else if v = a then a :: r else a :: insertAsc v r

def unionAsc : List Nat → List Nat → List Nat
  | [], ys => ys
  | xs, [] => xs
  | x :: xs, y :: ys =>
    if x < y then x :: unionAsc xs (y :: ys)
    else if y < x then y :: unionAsc (x :: xs) ys
    else x :: unionAsc xs ys
termination_by xs ys => xs.length + ys.length

def diffAsc : List Nat → List Nat → List Nat
  | [], _ => []
  | xs, [] => xs
  | x :: xs, y :: ys =>
    if x < y then x :: diffAsc xs (y :: ys)
    else if y < x then diffAsc (x :: xs) ys
    else diffAsc xs ys
termination_by xs ys => xs.length + ys.length

def VMap.add (m : VMap) (v : Nat) : VMap :=
  let key := v / 65536
  VMap.put key (insertAsc (v % 65536) ((m.get? key).getD [])) m

def VMap.remove (m : VMap) (v : Nat) : VMap :=
  let key := v / 65536
  match m.get? key with
  | none => m
  | some vs => VMap.put key (vs.filter (· ≠ v % 65536)) m

def entriesToVMap (es : List Entry) : VMap := es.map (fun e => (e.key, e.c.values))

/-! ### the import iterators -/

/-- What `Next` hands to ImportRoaringBits: key, type, header cardinality, contents. -/
structure Item where
  key : Nat
  typ : Nat
  n : Nat
  c : Cont
  deriving Repr, DecidableEq, Inhabited

/-- Result of walking an iterator to its end: the items before the end, and the error that
ended the walk (`none` = io.EOF). -/
structure Walk where
  items : List Item
  err : Option Err
  deriving Repr

/-- Body shared by both `Next` functions once key, type, n and the data offset are known.
`official` selects the run conversion. Returns the item and the offset behind its data. -/
def nextBody (official : Bool) (d : Bytes) (key typ n off : Nat) : Res (Item × Nat) := do
  -- a run container keeps its data after an initial 2 byte length header
  let (runCount, off) ←
    if typ = cRun then
      if off + 2 > d.length then (Res.err .iterOffset : Res (Nat × Nat))
      else do
        let rc ← rd "iter.runCount" d off 2
        pure (rc, off + 2)
    else pure (0, off)
  if off ≥ d.length ∨ off < 8 then .err .iterOffset
  else do
    let _ ← at1 "iter.pointer" d off
    if typ = cArray then
      let size := n * 2
      if off + size > d.length then .err .iterSize
      else do
        let pl ← view "iter.array" d off size
        pure ({ key, typ, n, c := .array (u16s pl) }, off + size)
    else if typ = cBitmap then
      if off + bitmapBytes > d.length then .err .iterSize
      else do
        let pl ← view "iter.bitmap" d off bitmapBytes
        pure ({ key, typ, n, c := .bitmap pl }, off + bitmapBytes)
    else if typ = cRun then
      let size := runCount * 4
      if off + size > d.length then .err .iterSize
      else do
        let pl ← view "iter.runs" d off size
        pure ({ key, typ, n, c := .run (if official then runsO pl else runsP pl) }, off + size)
    else .err .badType

/-- pilosaRoaringIterator: `i` counts the containers still to come; `hdr`/`offs` are the
remaining header and offset sections. -/
def pilosaWalk (d : Bytes) : Nat → Bytes → Bytes → Res Walk
  | 0, _, _ => .ok ⟨[], none⟩
  | k + 1, hdr, offs => do
    let key ← rd "piter.key" hdr 0 8
    let t ← rd "piter.typ" hdr 8 2
    let n1 ← rd "piter.n" hdr 10 2
    let off ← rd "piter.off" offs 0 4
    match nextBody false d key (t % 256) (n1 + 1) off with
    | .panic s => .panic s
    | .err e => .ok ⟨[], some e⟩
    | .ok (it, _) => do
      let hdr' ← sub "piter.hdr.next" hdr 12 hdr.length
      let offs' ← sub "piter.off.next" offs 4 offs.length
      let w ← pilosaWalk d k hdr' offs'
      pure ⟨it :: w.items, w.err⟩

/-- `readOfficialHeader`: (size, haveRuns, isRunBitmap, header position, position behind the
key/cardinality section). -/
structure OffHeader where
  size : Nat
  haveRuns : Bool
  isRun : Bytes
  header : Nat
  pos : Nat
  deriving Repr

def readOfficialHeader (d : Bytes) : Res OffHeader := do
  if d.length < 8 then .err .tooSmall
  else do
    let cookie ← rd "ohdr.cookie" d 0 4
    let (size, haveRuns, isRun, pos) ←
      if cookie = cookieNoRun then do
        let sz ← rd "ohdr.size" d 4 4
        pure (sz, false, ([] : Bytes), 8)
      else if cookie % 65536 = cookieRun then
        let sz := (cookie / 65536) % 65536 + 1
        let bsz := (sz + 7) / 8
        if 4 + bsz > d.length then (Res.err .isRunOverrun : Res (Nat × Bool × Bytes × Nat))
        else do
          let bm ← sub "ohdr.isRun" d 4 (4 + bsz)
          pure (sz, true, bm, 4 + bsz)
      else .err .badCookie
    if size > 65536 then .err .tooMany
    else
      let e := pos + 4 * size
      if e > d.length ∨ (size > 0 ∧ e = d.length) then .err .hdrOverrun
      else pure { size, haveRuns, isRun, header := pos, pos := e }

/-- The official container typer. -/
def officialType (h : OffHeader) (i card : Nat) : Res Nat :=
  if h.haveRuns then do
    let b ← at1 "otyper.isRun" h.isRun (i / 8)
    if (b >>> (i % 8)) % 2 = 1 then pure cRun
    else pure (if card ≤ arrayMaxSize then cArray else cBitmap)
  else pure (if card ≤ arrayMaxSize then cArray else cBitmap)

/-- officialRoaringIterator: `i` = index of the next container, `k` = containers to come,
`cur` = the tracked data offset (used with runs). -/
def officialWalk (d : Bytes) (h : OffHeader) : Nat → Nat → Bytes → Bytes → Nat → Res Walk
  | 0, _, _, _, _ => .ok ⟨[], none⟩
  | k + 1, i, hdr, offs, cur => do
    let key ← rd "oiter.key" hdr 0 2
    let n1 ← rd "oiter.n" hdr 2 2
    let typ ← officialType h i (n1 + 1)
    let off ← if h.haveRuns then pure cur else rd "oiter.off" offs 0 4
    match nextBody true d key typ (n1 + 1) off with
    | .panic s => .panic s
    | .err e => .ok ⟨[], some e⟩
    | .ok (it, next) => do
      let hdr' ← sub "oiter.hdr.next" hdr 4 hdr.length
      let offs' ← if h.haveRuns then pure offs else sub "oiter.off.next" offs 4 offs.length
      let w ← officialWalk d h k (i + 1) hdr' offs' next
      pure ⟨it :: w.items, w.err⟩

/-- `newRoaringIterator` followed by `Next` until it reports an error or io.EOF.  An error of
the constructor is `Res.err`; an error of `Next` is `Walk.err`. -/
def iterate (d : Bytes) : Res Walk := do
  if d.length < 8 then .err .tooSmall
  else do
    let magic ← rd "iter.magic" d 0 2
    if magic = cookieRun ∨ magic = cookieNoRun then
      match readOfficialHeader d with
      | .panic s => .panic s
      | .err e => .err e
      | .ok h =>
        if h.size = 0 then pure ⟨[], none⟩
        else do
          let hdr ← sub "oiter.headers" d h.header h.pos
          if h.haveRuns then
            let cur := if h.size ≥ noOffsetThreshold then h.pos + h.size * 4 else h.pos
            officialWalk d h h.size 0 hdr [] cur
          else if h.pos + h.size * 4 > d.length then .err .offsOverrun
          else do
            let offs ← sub "oiter.offsets" d h.pos (h.pos + h.size * 4)
            officialWalk d h h.size 0 hdr offs 0
    else if magic = magicPilosa then do
      let ver ← at1 "piter.version" d 2
      if ver ≠ 0 then .err .badVersion
      else do
        let keys ← rd "piter.keys" d 4 4
        if keys = 0 then pure ⟨[], none⟩
        else if d.length < 8 + keys * 16 then .err .hdrOverrun
        else do
          let hdr ← sub "piter.headers" d 8 (8 + keys * 12)
          let offs ← sub "piter.offsets" d (8 + keys * 12) (8 + keys * 16)
          pilosaWalk d keys hdr offs
    else .err .badMagic

/-! ### ImportRoaringBits -/

/-- The set updater (`importUpdater`, clear = false) for one item; returns the map and the
number of changed bits. -/
def importSetItem (m : VMap) (it : Item) : VMap × Nat :=
  let vs := it.c.values
  match m.get? it.key with
  | none => (VMap.put it.key vs m, it.n)                    -- oldC == nil: existN == 0, clone
  | some old =>
    let existN := old.length
    if existN = 65536 then (m, 0)
    else if existN = 0 then (VMap.put it.key vs m, it.n)
    else
      let nw := unionAsc old vs
      if nw.length ≠ existN then (VMap.put it.key nw m, nw.length - existN) else (m, 0)

/-- The clear updater. -/
def importClearItem (m : VMap) (it : Item) : VMap × Nat :=
  match m.get? it.key with
  | none => (m, 0)
  | some old =>
    let existN := old.length
    if existN = 0 then (m, 0)
    else
      let nw := diffAsc old it.c.values
      if nw.length ≠ existN then (VMap.put it.key nw m, existN - nw.length) else (m, 0)

def importItems (clear : Bool) : VMap → List Item → VMap × Nat
  | m, [] => (m, 0)
  | m, it :: r =>
    let (m1, c1) := if clear then importClearItem m it else importSetItem m it
    let (m2, c2) := importItems clear m1 r
    (m2, c1 + c2)

/-- The row a container key belongs to (`rowSize` containers per row; a single row when 0). -/
def rowOf (rowSize key : Nat) : Nat := if rowSize = 0 then 0 else key / rowSize

/-- `rowSet[row] += delta` on the row ↦ net change map (kept sorted by row). -/
def addRow (row : Nat) (delta : Int) : List (Nat × Int) → List (Nat × Int)
  | [] => [(row, delta)]
  | rd :: r =>
    if row < rd.1 then (row, delta) :: rd :: r
    else if row = rd.1 then (rd.1, rd.2 + delta) :: r
    else rd :: addRow row delta r

/-- The `rowSet` result of ImportRoaringBits: for every row (`rowSize` containers; everything is
row 0 when `rowSize = 0`) the net number of bits set (cleared: negative). An entry exists only for
rows in which some container changed. -/
def importRows (clear : Bool) (rowSize : Nat) : VMap → List Item → List (Nat × Int)
  | _, [] => []
  | m, it :: r =>
    let step := if clear then importClearItem m it else importSetItem m it
    let rows := importRows clear rowSize step.1 r
    if step.2 = 0 then rows
    else addRow (rowOf rowSize it.key) (if clear then -(step.2 : Int) else (step.2 : Int)) rows

/-- Number of values a value-level bitmap holds in row `r`. -/
def rowCount (rowSize : Nat) (m : VMap) (r : Nat) : Nat :=
  ((m.filter (fun kv => rowOf rowSize kv.1 = r)).map (·.2.length)).sum

/-- The entry of row `r` (0 when there is none). -/
def rowDelta (rows : List (Nat × Int)) (r : Nat) : Int := ((rows.filter (·.1 = r)).map (·.2)).sum

/-- Outcome of the validation walk of `ImportRoaringBits`: every container `Next` yields is
checked against its header (`importedContainerIsConsistent`) before the next call, so the first
inconsistent container wins over a later structural error. -/
def walkVerdict (w : Walk) : Option Err :=
  if w.items.all (fun it => it.c.wf it.n) then w.err else some .illFormed

/-- `ImportRoaringBits(data, clear, log=false, 0)` as a state transformer: the bitmap after the
call and the call's result (`changed`).  The payload is walked once for validation; only a walk
that ends in io.EOF over consistent containers is applied. -/
def importBitsSt (m : VMap) (d : Bytes) (clear : Bool) : VMap × Res Nat :=
  match iterate d with
  | .panic s => (m, .panic s)
  | .err e => (m, .err e)
  | .ok w =>
    match walkVerdict w with
    | some e => (m, .err e)
    | none => let r := importItems clear m w.items; (r.1, .ok r.2)

def importBits (m : VMap) (d : Bytes) (clear : Bool) : Res (VMap × Nat) :=
  match importBitsSt m d clear with
  | (m', .ok ch) => .ok (m', ch)
  | (_, .err e) => .err e
  | (_, .panic s) => .panic s

/-- The `rowSet` ImportRoaringBits returns for row size `rowSize` (empty when the call fails). -/
def importRowSet (m : VMap) (d : Bytes) (clear : Bool) (rowSize : Nat) : List (Nat × Int) :=
  match iterate d with
  | .ok w =>
    match walkVerdict w with
    | none => importRows clear rowSize m w.items
    | some _ => []
  | _ => []

/-- The import loop BEFORE `fix: ImportRoaringBits validates the whole payload before changing
the bitmap`: containers were merged while the payload was being walked, so the containers in
front of a malformed one stayed applied when the call returned its error (regression witness in
PV.C06.Props). -/
def importBitsStOld (m : VMap) (d : Bytes) (clear : Bool) : VMap × Res Nat :=
  match iterate d with
  | .panic s => (m, .panic s)
  | .err e => (m, .err e)
  | .ok w =>
    let r := importItems clear m w.items
    match w.err with
    | some e => (r.1, .err e)
    | none => (r.1, .ok r.2)

/-! ### the op log -/

inductive Op
  | add (v : Nat) | remove (v : Nat)
  | addBatch (vs : List Nat) | removeBatch (vs : List Nat)
  | addRoaring (d : Bytes) (opN : Nat) | removeRoaring (d : Bytes) (opN : Nat)
  deriving Repr

def u64s : Bytes → List Nat
  | a :: b :: c :: d :: e :: f :: g :: h :: r =>
    leVal [a, b, c, d, e, f, g, h] :: u64s r
  | _ => []

/-- `op.UnmarshalBinary`: the op and its encoded size. -/
def parseOp (buf : Bytes) : Res (Op × Nat) := do
  if buf.length < 13 then .err .opShort
  else do
    let typ ← at1 "op.typ" buf 0
    let value ← rd "op.value" buf 1 8
    let h0 ← sub "op.hash0" buf 0 9
    let chk ← rd "op.chk" buf 9 4
    if typ = 0 ∨ typ = 1 then
      if chk ≠ fnv32a h0 then .err .opChecksum
      else pure (if typ = 0 then .add value else .remove value, 13)
    else if typ = 2 ∨ typ = 3 then
      if value > 2 ^ 59 then .err .opBatchTooBig
      else if buf.length < 13 + value * 8 then .err .opTruncated
      else do
        let pl ← sub "op.batch" buf 13 (13 + value * 8)
        if chk ≠ fnv32aFrom (fnv32a h0) pl then .err .opChecksum
        else pure (if typ = 2 then .addBatch (u64s pl) else .removeBatch (u64s pl), 13 + value * 8)
    else if typ = 4 ∨ typ = 5 then
      if value > buf.length ∨ buf.length < 17 + value then .err .opTruncated
      else do
        let opN ← rd "op.opN" buf 13 4
        let ro ← sub "op.roaring" buf 17 (17 + value)
        let hd ← sub "op.hash1" buf 13 (17 + value)
        if chk ≠ fnv32aFrom (fnv32a h0) hd then .err .opChecksum
        else pure (if typ = 4 then .addRoaring ro opN else .removeRoaring ro opN, 17 + value)
    else .err .opUnknown

def Op.count : Op → Nat
  | .add _ | .remove _ => 1
  | .addBatch vs | .removeBatch vs => vs.length
  | .addRoaring _ n | .removeRoaring _ n => n

/-- `op.apply`: errors of a replayed roaring op are ignored (the bitmap is then unchanged). -/
def Op.apply (m : VMap) : Op → Res VMap
  | .add v => pure (m.add v)
  | .remove v => pure (m.remove v)
  | .addBatch vs => pure (vs.foldl VMap.add m)
  | .removeBatch vs => pure (vs.foldl VMap.remove m)
  | .addRoaring d _ =>
    match importBits m d false with
    | .ok (m', _) => pure m'
    | .err _ => pure m
    | .panic s => .panic s
  | .removeRoaring d _ =>
    match importBits m d true with
    | .ok (m', _) => pure m'
    | .err _ => pure m
    | .panic s => .panic s

structure Decoded where
  flags : Nat
  cs : List Entry          -- the containers as loaded (before the op log)
  vals : VMap              -- after the op log
  ops : Nat
  opN : Nat
  deriving Repr

/-- The op-log loop; fuel = remaining bytes (every op consumes at least 13). -/
def opsLoop : Nat → Bytes → VMap → Nat → Nat → Res (VMap × Nat × Nat)
  | 0, buf, m, ops, opN => if buf.length = 0 then pure (m, ops, opN) else .panic "ops.fuel"
  | fuel + 1, buf, m, ops, opN =>
    if buf.length = 0 then pure (m, ops, opN)
    else do
      let (op, size) ← parseOp buf
      let m' ← op.apply m
      let rest ← sub "ops.next" buf size buf.length
      opsLoop fuel rest m' (ops + 1) (opN + op.count)

/-! ### UnmarshalBinary, Pilosa format -/

def pHdrLoop : Nat → Bytes → List Slot → Res (List Slot)
  | 0, _, slotsDesc => pure slotsDesc.reverse
  | k + 1, buf, slotsDesc => do
    let key ← rd "pilosa.hdr.key" buf 0 8
    let t ← rd "pilosa.hdr.typ" buf 8 2
    let n1 ← rd "pilosa.hdr.n" buf 10 2
    let typ := t % 256
    if typ ≠ cArray ∧ typ ≠ cBitmap ∧ typ ≠ cRun then .err .badType
    else do
      let rest ← sub "pilosa.hdr.next" buf 12 buf.length
      pHdrLoop k rest (putCVd key typ (n1 + 1) slotsDesc)

/-- Attach the data at `off` to a slot of type/n; returns the container and the new opsOffset. -/
def pAttach (d : Bytes) (typ n off : Nat) : Res (Cont × Nat) :=
  if typ = cRun then
    if off + 2 ≥ d.length then .err .contOOB
    else do
      let rc ← rd "pilosa.run.count" d off 2
      if off + 2 + rc * 4 > d.length then .err .contOOB
      else do
        let pl ← view "pilosa.run.view" d (off + 2) (rc * 4)
        pure (.run (runsP pl), off + 2 + rc * 4)
  else if typ = cArray then
    if off + n * 2 > d.length then .err .contOOB
    else do
      let pl ← view "pilosa.array.view" d off (n * 2)
      pure (.array (u16s pl), off + n * 2)
  else if typ = cBitmap then
    if off + bitmapBytes > d.length then .err .contOOB
    else do
      let pl ← view "pilosa.bitmap.view" d off bitmapBytes
      pure (.bitmap pl, off + bitmapBytes)
  else .err .badType

/-- The offsets loop. `citer.Next(); citer.Value()` walks the containers in key order and stays
on the last one once it is exhausted (repeated keys in the header leave fewer containers than
offsets): `done` (reversed) are the containers the iterator has left, `rem` the one it is on
and those to come. -/
def pOffLoop (d : Bytes) : Nat → Bytes → List Slot → List Slot → Nat → Res (List Slot × Nat)
  | 0, _, done, rem, oo => pure (done.reverse ++ rem, oo)
  | k + 1, buf, done, rem, oo => do
    let off ← rd "pilosa.off" buf 0 4
    if off ≥ d.length then .err .offsetOOB
    else
      match rem with
      | [] => do                                             -- c == nil: continue
        let rest ← sub "pilosa.off.next" buf 4 buf.length
        pOffLoop d k rest done [] oo
      | s :: r => do
        let (c, o) ← pAttach d s.typ s.n off
        let rest ← sub "pilosa.off.next" buf 4 buf.length
        match r with
        | [] => pOffLoop d k rest done [s.attach c] o
        | _ :: _ => pOffLoop d k rest (s.attach c :: done) r o

/-- The first part of `unmarshalPilosaRoaring`: flags, the containers with their data attached,
and the position at which the op log starts. -/
def loadPilosa (d : Bytes) : Res (Nat × List Entry × Nat) := do
  if d.length < 8 then .err .tooSmall
  else do
    let magic ← rd "pilosa.magic" d 0 2
    let ver ← at1 "pilosa.version" d 2
    let flags ← at1 "pilosa.flags" d 3
    if magic ≠ magicPilosa then .err .badMagic
    else if ver ≠ 0 then .err .badVersion
    else do
      let keyN ← rd "pilosa.keyN" d 4 4
      if d.length < 8 + keyN * 12 then .err .hdrOverrun
      else if d.length < 8 + keyN * 16 then .err .offsOverrun
      else do
        let hbuf ← sub "pilosa.headers" d 8 d.length
        let slots ← pHdrLoop keyN hbuf []
        let obuf ← sub "pilosa.offsets" d (8 + keyN * 12) d.length
        let (slots, oo) ← pOffLoop d keyN obuf [] slots (8 + keyN * 12)
        pure (flags, slotsToEntries slots, oo)

def unmarshalPilosa (d : Bytes) : Res Decoded := do
  let (flags, cs, oo) ← loadPilosa d
  let lbuf ← sub "pilosa.ops" d oo d.length
  let (m, ops, opN) ← opsLoop lbuf.length lbuf (entriesToVMap cs) 0 0
  pure { flags, cs, vals := m, ops, opN }

/-! ### UnmarshalBinary, official format -/

def oHdrLoop (h : OffHeader) : Nat → Nat → Bytes → List Slot → Res (List Slot)
  | 0, _, _, slotsDesc => pure slotsDesc.reverse
  | k + 1, i, buf, slotsDesc => do
    let n1 ← rd "official.hdr.n" buf 2 2
    let key ← rd "official.hdr.key" buf 0 2
    let typ ← officialType h i (n1 + 1)
    let rest ← sub "official.hdr.next" buf 4 buf.length
    oHdrLoop h k (i + 1) rest (putCVd key typ (n1 + 1) slotsDesc)

/-- One container of `readOffsets` at `off`. -/
def oOffAttach (d : Bytes) (typ n off : Nat) : Res Cont :=
  if typ = cArray then
    if off + n * 2 > d.length then .err .contOOB
    else do
      let pl ← view "official.array.view" d off (n * 2)
      pure (.array (u16s pl))
  else if typ = cBitmap then
    if off + bitmapBytes > d.length then .err .contOOB
    else do
      let pl ← view "official.bitmap.view" d off bitmapBytes
      pure (.bitmap pl)
  else .err .badType

/-- `readOffsets` (container iterator as in `pOffLoop`). -/
def oOffLoop (d : Bytes) : Nat → Bytes → List Slot → List Slot → Res (List Slot)
  | 0, _, done, rem => pure (done.reverse ++ rem)
  | k + 1, buf, done, rem => do
    if buf.length < 4 then .err .offsIncomplete
    else do
      let off ← rd "official.off" buf 0 4
      if off ≥ d.length then .err .offsetOOB
      else
        match rem with
        | [] => .panic "official.citer.nil"
        | s :: r => do
          let c ← oOffAttach d s.typ s.n off
          let rest ← sub "official.off.next" buf 4 buf.length
          match r with
          | [] => oOffLoop d k rest done [s.attach c]
          | _ :: _ => oOffLoop d k rest (s.attach c :: done) r

/-- One container of `readWithRuns` at `pos`: contents and the position behind it. -/
def oRunAttach (d : Bytes) (typ n pos : Nat) : Res (Option Cont × Nat) :=
  if typ = cRun then
    if pos + 2 ≥ d.length then .err .contOOB
    else do
      let rc ← rd "official.run.count" d pos 2
      if pos + 2 + rc * 4 > d.length then .err .contOOB
      else do
        let pl ← view "official.run.view" d (pos + 2) (rc * 4)
        pure (some (.run (runsO pl)), pos + rc * 4 + 2)
  else if typ = cArray then
    if pos + n * 2 > d.length then .err .contOOB
    else do
      let pl ← view "official.array.view" d pos (n * 2)
      pure (some (.array (u16s pl)), pos + n * 2)
  else if typ = cBitmap then
    if pos + bitmapBytes > d.length then .err .contOOB
    else do
      let pl ← view "official.bitmap.view" d pos bitmapBytes
      pure (some (.bitmap pl), pos + bitmapBytes)
  else pure (none, pos)

/-- `readWithRuns` (containers are read sequentially from `pos`). -/
def oRunLoop (d : Bytes) : Nat → List Slot → List Slot → Nat → Res (List Slot)
  | 0, done, rem, _ => pure (done.reverse ++ rem)
  | k + 1, done, rem, pos =>
    match rem with
    | [] => .panic "official.citer.nil"
    | s :: r => do
      let (c, pos') ← oRunAttach d s.typ s.n pos
      let s' := match c with
        | some c => s.attach c
        | none => s
      match r with
      | [] => oRunLoop d k done [s'] pos'
      | _ :: _ => oRunLoop d k (s' :: done) r pos'

/-- Attach the container data: `readWithRuns` / `readOffsets`. -/
def oAttachAll (d : Bytes) (h : OffHeader) (slots : List Slot) : Res (List Slot) :=
  if h.haveRuns then
    if d.length < h.pos + 2 then .err .offsIncomplete
    else oRunLoop d h.size [] slots (if h.size ≥ noOffsetThreshold then h.pos + h.size * 4 else h.pos)
  else do
    let obuf ← sub "official.offsets" d h.pos d.length
    oOffLoop d h.size obuf [] slots

def unmarshalOfficial (d : Bytes) : Res Decoded := do
  let h ← readOfficialHeader d
  let hbuf ← sub "official.headers" d h.header d.length
  let slots ← oHdrLoop h h.size 0 hbuf []
  let slots ← oAttachAll d h slots
  let cs := slotsToEntries slots
  pure { flags := 0, cs, vals := entriesToVMap cs, ops := 0, opN := 0 }

/-- `Bitmap.UnmarshalBinary` on a non-nil slice, into a fresh bitmap.  The model never writes
to `d`: the second component is the caller's buffer after the call. -/
def unmarshal (d : Bytes) : Res (Decoded × Bytes) := do
  if d.length < 8 then .err .tooSmall
  else do
    let magic ← rd "unmarshal.magic" d 0 2
    let r ← if magic = magicPilosa then unmarshalPilosa d else unmarshalOfficial d
    pure (r, d)

/-! ### the pre-fix `readWithRuns` (kept for the regression witness in Props)

Before `fix: official-format run containers are decoded without rewriting the caller's buffer`
the converted `last = start + length` was stored into the input for containers of more than two
runs (up to two runs are copied into the container's inline storage first). -/

def writeBack (d : Bytes) (off : Nat) (rs : List (Nat × Nat)) : Bytes :=
  d.take off ++ rs.flatMap encRun ++ d.drop (off + 4 * rs.length)

def oldReadWithRuns1 (d : Bytes) (pos : Nat) : Option (Cont × Bytes) :=
  match rd "old" d pos 2 with
  | .ok rc =>
    match view "old" d (pos + 2) (rc * 4) with
    | .ok pl =>
      let rs := runsO pl
      some (.run rs, if rc ≤ 2 then d else writeBack d (pos + 2) rs)
    | _ => none
  | _ => none

end PV.C04
