/-
Shared text layer of the pm_c04 / pm_c06 drivers: container specs, hex, canonical rendering of
decode / iterate / import results.  Core Lean only.

Container spec (one token):  `-` (no containers) or entries separated by `;`
   entry  = key ":" type ":" ranges        key may be `K<lo>..<hi>` (one entry per key)
   type   = a | b | r                       source encoding: array / bitmap / run (maximal runs)
   ranges = "-" | r{,r}   r = v | lo-hi     ascending low values
-/
import PV.Common.Proto
import PV.C04.Model
import PV.C04.Spec
namespace PV.C04.Driver
open PV.Proto PV.C04

def parseRange? (s : String) : Option (List Nat) :=
  match s.splitOn "-" with
  | [a] => do let x ← a.toNat?; pure [x]
  | [a, b] => do
    let x ← a.toNat?
    let y ← b.toNat?
    pure (List.range' x (y + 1 - x))
  | _ => none

def parseRanges? (s : String) : Option (List Nat) :=
  if s = "-" || s = "" then some []
  else do
    let parts ← (s.splitOn ",").mapM parseRange?
    pure parts.flatten

def parseKeys? (s : String) : Option (List Nat) :=
  if s.startsWith "K" then
    match (s.drop 1).toString.splitOn ".." with
    | [a, b] => do
      let x ← a.toNat?
      let y ← b.toNat?
      pure (List.range' x (y + 1 - x))
    | _ => none
  else do let k ← s.toNat?; pure [k]

def contOfSpec (t : String) (vs : List Nat) : Option Cont :=
  if t = "a" then some (.array vs)
  else if t = "r" then some (.run (toRuns vs))
  else if t = "b" then some (.bitmap (packFrom bitmapBytes 0 vs))
  else none

def parseEntry? (s : String) : Option (List Entry) :=
  match s.splitOn ":" with
  | [k, t, r] => do
    let keys ← parseKeys? k
    let vs ← parseRanges? r
    let c ← contOfSpec t vs
    pure (keys.map (fun key => { key, n := vs.length, c }))
  | _ => none

def parseSpec? (s : String) : Option (List Entry) :=
  if s = "-" then some []
  else do
    let es ← (s.splitOn ";").mapM parseEntry?
    pure es.flatten

/-- `a-b,c` rendering of a list (consecutive values are joined). -/
def rangesAcc : Nat → Nat → List Nat → List String
  | s, l, [] => [if s = l then toString s else s!"{s}-{l}"]
  | s, l, v :: r =>
    if l + 1 = v then rangesAcc s v r
    else (if s = l then toString s else s!"{s}-{l}") :: rangesAcc v v r

def showRanges : List Nat → String
  | [] => "-"
  | v :: r => ",".intercalate (rangesAcc v v r)

/-- Values as the Go API reports them: `key<<16 | low` in uint64 (a key of 2^48 or more, possible
only in malformed input, wraps). -/
def showValues (vs : List Nat) : String := showRanges (vs.map (· % 18446744073709551616))

def typLetter (t : Nat) : String :=
  if t = cArray then "a" else if t = cBitmap then "b" else if t = cRun then "r" else s!"t{t}"

def showEntries (es : List Entry) : String :=
  "[" ++ " ".intercalate (es.map (fun e => s!"{e.key}:{typLetter e.c.typ}:{e.n}")) ++ "]"

def showErr {α : Type} : Res α → String
  | .ok _ => "ok"
  | .err e => "err:" ++ e.name
  | .panic s => "panic:" ++ s


/-- The part of a decode result the harness can also observe. `withTypes`: list the containers. -/
def showDecodedCore (withTypes : Bool) (r : Decoded) : String :=
  s!"f={r.flags}" ++ (if withTypes then " c=" ++ showEntries r.cs else "")
    ++ " v=" ++ showValues r.vals.values ++ s!" ops={r.ops},{r.opN}"

/-- Decode `d`, then decode the buffer the first call left behind once more.  Second
component: the container listing of the first decode (`?` when it failed). -/
def showUnmarshal2 (withTypes : Bool) (d : Bytes) : String × String :=
  match unmarshal d with
  | .err e => ("err:" ++ e.name, "?")
  | .panic s => ("panic:" ++ s, "?")
  | .ok (r, d') =>
    let first := showDecodedCore withTypes r
    let second := match unmarshal d' with
      | .ok (r2, _) => showDecodedCore withTypes r2
      | other => showErr other
    ("ok " ++ first ++ s!" unmod={showBool (d' == d)} twice={showBool (second == first)}", showEntries r.cs)

def showUnmarshal (withTypes : Bool) (d : Bytes) : String := (showUnmarshal2 withTypes d).1

def encTag (d : Bytes) : String := s!"enc={d.length}:{fnv32a d}"

def vmapOfEntries (es : List Entry) : VMap := es.map (fun e => (e.key, e.c.values))

/-- Groups for the official reference encoder: empty groups dropped. -/
def groupsOfEntries (es : List Entry) : VMap :=
  (vmapOfEntries es).filter (fun kv => kv.2 != [])

end PV.C04.Driver
