/-
Helper lemmas for C04: the official Roaring format — decoding what the reference encoder
(Spec.encodeOfficial) wrote.  Core Lean only.
-/
import PV.C04.LemmasImport
namespace PV.C04
open Spec

/-! ### isRun bitmap -/

theorem packBits_length (bs : List Bool) : (packBits bs).length = (bs.length + 7) / 8 := by
  simp [packBits]

theorem bit_of_byte : ∀ b0 b1 b2 b3 b4 b5 b6 b7 : Bool, ∀ t, t < 8 →
    ((((if b0 then 1 else 0) + 2 * (if b1 then 1 else 0) + 4 * (if b2 then 1 else 0) + 8 * (if b3 then 1 else 0)
      + 16 * (if b4 then 1 else 0) + 32 * (if b5 then 1 else 0) + 64 * (if b6 then 1 else 0)
      + 128 * (if b7 then 1 else 0)) >>> t) % 2 = 1)
      = ([b0, b1, b2, b3, b4, b5, b6, b7].getD t false = true) := by
  decide

theorem packBits_bit (bs : List Bool) (i : Nat) (hi : i < bs.length) :
    ∃ B, at1 "otyper.isRun" (packBits bs) (i / 8) = .ok B ∧
      (((B >>> (i % 8)) % 2 = 1) = (bs.getD i false = true)) := by
  have hj : i / 8 < (bs.length + 7) / 8 := by omega
  unfold at1 packBits
  rw [List.getElem?_map, List.getElem?_range hj]
  simp only [Option.map_some]
  refine ⟨_, rfl, ?_⟩
  have hm : i % 8 < 8 := Nat.mod_lt _ (by decide)
  have := bit_of_byte (bs.getD (8 * (i / 8)) false) (bs.getD (8 * (i / 8) + 1) false) (bs.getD (8 * (i / 8) + 2) false)
    (bs.getD (8 * (i / 8) + 3) false) (bs.getD (8 * (i / 8) + 4) false) (bs.getD (8 * (i / 8) + 5) false)
    (bs.getD (8 * (i / 8) + 6) false) (bs.getD (8 * (i / 8) + 7) false) (i % 8) hm
  simp only [bitAt]
  rw [this]
  have hi8 : bs.getD i false = bs.getD (8 * (i / 8) + i % 8) false := by
    congr 1; omega
  rw [hi8]
  generalize i / 8 = q
  generalize i % 8 = r at hm ⊢
  have : r = 0 ∨ r = 1 ∨ r = 2 ∨ r = 3 ∨ r = 4 ∨ r = 5 ∨ r = 6 ∨ r = 7 := by omega
  rcases this with h | h | h | h | h | h | h | h <;> subst h <;> simp

/-- The container the reference encoder writes for a group. -/
def ocont (mode : Nat) (vs : List Nat) : Cont :=
  if useRun mode vs then .run (toRuns vs)
  else if vs.length ≤ 4096 then .array vs
  else .bitmap (packFrom bitmapBytes 0 vs)

structure GroupOk (kv : Nat × List Nat) : Prop where
  key : kv.1 < 65536
  ne : kv.2 ≠ []
  asc : Asc kv.2
  bound : ∀ v ∈ kv.2, v < 65536

theorem GroupOk.len {kv : Nat × List Nat} (h : GroupOk kv) : 1 ≤ kv.2.length ∧ kv.2.length ≤ 65536 :=
  ⟨List.length_pos_iff.mpr h.ne, asc_length_le _ h.asc h.bound⟩

theorem ocont_values (mode : Nat) (vs : List Nat) (ha : Asc vs) (hb : ∀ v ∈ vs, v < 65536) :
    (ocont mode vs).values = vs := by
  unfold ocont
  split
  · exact toRuns_values vs ha
  · split
    · rfl
    · exact bitmapValuesFrom_packFrom bitmapBytes 0 vs ha (fun v hv => ⟨Nat.zero_le _, by
        have := hb v hv; simp only [bitmapBytes]; omega⟩)

/-- Maximal runs start at least two apart, so there are at most 32768 of them. -/
theorem toRunsAcc_length_le (vs : List Nat) : ∀ s l M, s ≤ l → Asc (l :: vs) → (∀ x ∈ l :: vs, x ≤ M) →
    (toRunsAcc s l vs).length * 2 ≤ M - s + 2 := by
  induction vs with
  | nil => intro s l M hsl _ hM; have := hM l (by simp); simp [toRunsAcc]
  | cons v r ih =>
    intro s l M hsl ha hM
    have ha' := List.pairwise_cons.mp ha
    have hlv : l < v := ha'.1 v (by simp)
    have hvM := hM v (by simp)
    simp only [toRunsAcc]
    split
    · have := ih s v M (by omega) ha'.2 (fun x hx => hM x (by simp [hx]))
      exact this
    · have := ih v v M (Nat.le_refl _) ha'.2 (fun x hx => hM x (by simp [hx]))
      simp only [List.length_cons]
      omega

theorem toRuns_length_lt (vs : List Nat) (ha : Asc vs) (hb : ∀ v ∈ vs, v < 65536) :
    (toRuns vs).length < 65536 := by
  cases vs with
  | nil => simp [toRuns]
  | cons v r =>
    have := toRunsAcc_length_le r v v 65535 (Nat.le_refl _) ha (fun x hx => by have := hb x hx; omega)
    simp only [toRuns]
    omega

def encRunO (r : Nat × Nat) : Bytes := leBytes 2 r.1 ++ leBytes 2 (r.2 - r.1)

theorem runsO_flatMap (rs : List (Nat × Nat)) (h : ∀ r ∈ rs, r.1 ≤ r.2 ∧ r.2 < 65536) :
    runsO (rs.flatMap encRunO) = rs := by
  induction rs with
  | nil => rfl
  | cons r rs ih =>
    have hr := h r (by simp)
    rw [List.flatMap_cons]
    have : encRunO r = [r.1 % 256, r.1 / 256 % 256, (r.2 - r.1) % 256, (r.2 - r.1) / 256 % 256] := rfl
    rw [this]
    simp only [List.cons_append, List.nil_append, runsO]
    rw [ih (fun w hw => h w (by simp [hw]))]
    congr 1
    apply Prod.ext <;> simp <;> omega

theorem flatMap_encRunO_length (rs : List (Nat × Nat)) : (rs.flatMap encRunO).length = 4 * rs.length := by
  induction rs with
  | nil => rfl
  | cons v vs ih =>
    rw [List.flatMap_cons, List.length_append, ih]
    have : (encRunO v).length = 4 := by simp [encRunO, leBytes_length]
    rw [this, List.length_cons]; omega

theorem payload_eq (mode : Nat) (vs : List Nat) :
    payload mode vs =
      (if useRun mode vs then leBytes 2 (toRuns vs).length ++ (toRuns vs).flatMap encRunO
       else if vs.length ≤ 4096 then vs.flatMap (leBytes 2) else packFrom 8192 0 vs) := rfl

/-- `readWithRuns`, one container written by the reference encoder. -/
theorem oRunAttach_ok (d rest : Bytes) (mode : Nat) (kv : Nat × List Nat) (hk : GroupOk kv) (pos : Nat)
    (h : d.drop pos = payload mode kv.2 ++ rest) (hpos : pos ≤ d.length) :
    oRunAttach d (ocont mode kv.2).typ kv.2.length pos
      = .ok (some (ocont mode kv.2), pos + (payload mode kv.2).length) := by
  obtain ⟨hl1, hl2⟩ := hk.len
  have hl : (d.drop pos).length = (payload mode kv.2).length + rest.length := by rw [h]; simp
  rw [List.length_drop] at hl
  unfold oRunAttach ocont
  rw [payload_eq] at h hl ⊢
  by_cases hu : useRun mode kv.2 = true
  · simp only [hu, ↓reduceIte, Cont.typ, cRun] at h hl ⊢
    have hrl := toRuns_length_lt kv.2 hk.asc hk.bound
    have hne := toRuns_ne_nil kv.2 hk.ne
    have hpos' : 0 < (toRuns kv.2).length := List.length_pos_iff.mpr hne
    have hok := toRuns_ok kv.2 hk.asc hk.bound
    rw [List.length_append, leBytes_length, flatMap_encRunO_length] at hl
    rw [if_neg (by omega)]
    have h1 : d.drop pos = leBytes 2 (toRuns kv.2).length ++ ((toRuns kv.2).flatMap encRunO ++ rest) := by
      rw [h]; simp
    rw [rd_of_drop "official.run.count" d _ pos 2 _ h1 hpos (by simpa using hrl)]
    simp only [Res.ok_bind]
    rw [if_neg (by omega)]
    have h2 : d.drop (pos + 2) = (toRuns kv.2).flatMap encRunO ++ rest := by
      have := congrArg (List.drop 2) h1
      rw [List.drop_drop] at this
      rw [this]; exact List.drop_left' (leBytes_length 2 _)
    have hv := view_of_drop "official.run.view" d _ rest (pos + 2) h2 (by omega)
    rw [flatMap_encRunO_length] at hv
    have e2 : (toRuns kv.2).length * 4 = 4 * (toRuns kv.2).length := by omega
    rw [e2, hv]
    simp only [Res.ok_bind, Res.pure_eq]
    rw [runsO_flatMap _ (fun r hr => hok.each r hr)]
    rw [List.length_append, leBytes_length, flatMap_encRunO_length]
    congr 2
    omega
  · have hu' : useRun mode kv.2 = false := by simpa using hu
    simp only [hu', Bool.false_eq_true, ↓reduceIte] at h hl ⊢
    by_cases h4 : kv.2.length ≤ 4096
    · simp only [h4, ↓reduceIte, Cont.typ, cArray, cRun, Nat.reduceEqDiff] at h hl ⊢
      rw [flatMap_leBytes2_length] at hl
      rw [if_neg (by omega)]
      have hv := view_of_drop "official.array.view" d _ rest pos h (by omega)
      rw [flatMap_leBytes2_length] at hv
      have e2 : kv.2.length * 2 = 2 * kv.2.length := by omega
      rw [e2, hv]
      simp only [Res.ok_bind, Res.pure_eq]
      rw [u16s_flatMap kv.2 hk.bound, flatMap_leBytes2_length]
    · simp only [h4, ↓reduceIte, Cont.typ, cArray, cRun, cBitmap, Nat.reduceEqDiff] at h hl ⊢
      have hpl : (packFrom 8192 0 kv.2).length = 8192 := packFrom_length _ _ _
      rw [hpl] at hl
      rw [if_neg (by simp only [bitmapBytes]; omega)]
      have hv := view_of_drop "official.bitmap.view" d _ rest pos h (by omega)
      rw [hpl] at hv
      simp only [bitmapBytes]
      rw [hv]
      simp only [Res.ok_bind, Res.pure_eq, hpl]

/-- `readOffsets`, one (non-run) container written by the reference encoder. -/
theorem oOffAttach_ok (d rest : Bytes) (mode : Nat) (kv : Nat × List Nat) (hk : GroupOk kv) (off : Nat)
    (hu : useRun mode kv.2 = false)
    (h : d.drop off = payload mode kv.2 ++ rest) (hoff : off ≤ d.length) :
    oOffAttach d (ocont mode kv.2).typ kv.2.length off = .ok (ocont mode kv.2) := by
  obtain ⟨hl1, hl2⟩ := hk.len
  have hl : (d.drop off).length = (payload mode kv.2).length + rest.length := by rw [h]; simp
  rw [List.length_drop] at hl
  unfold oOffAttach ocont
  rw [payload_eq] at h hl
  simp only [hu, Bool.false_eq_true, ↓reduceIte] at h hl ⊢
  by_cases h4 : kv.2.length ≤ 4096
  · simp only [h4, ↓reduceIte, Cont.typ, cArray] at h hl ⊢
    rw [flatMap_leBytes2_length] at hl
    rw [if_neg (by omega)]
    have hv := view_of_drop "official.array.view" d _ rest off h (by omega)
    rw [flatMap_leBytes2_length] at hv
    have e2 : kv.2.length * 2 = 2 * kv.2.length := by omega
    rw [e2, hv]
    simp only [Res.ok_bind, Res.pure_eq]
    rw [u16s_flatMap kv.2 hk.bound]
  · simp only [h4, ↓reduceIte, Cont.typ, cArray, cBitmap, Nat.reduceEqDiff] at h hl ⊢
    have hpl : (packFrom 8192 0 kv.2).length = 8192 := packFrom_length _ _ _
    rw [hpl] at hl
    rw [if_neg (by simp only [bitmapBytes]; omega)]
    have hv := view_of_drop "official.bitmap.view" d _ rest off h (by omega)
    rw [hpl] at hv
    simp only [bitmapBytes]
    rw [hv]
    simp only [Res.ok_bind, Res.pure_eq]

def gslot (mode : Nat) (kv : Nat × List Nat) : Slot :=
  { key := kv.1, typ := (ocont mode kv.2).typ, n := kv.2.length, c := none }
def gdone (mode : Nat) (kv : Nat × List Nat) : Slot :=
  { key := kv.1, typ := (ocont mode kv.2).typ, n := kv.2.length, c := some (ocont mode kv.2) }
def gentry (mode : Nat) (kv : Nat × List Nat) : Entry := ⟨kv.1, kv.2.length, ocont mode kv.2⟩
def gdesc (kv : Nat × List Nat) : Bytes := leBytes 2 kv.1 ++ leBytes 2 (kv.2.length - 1)

theorem gdesc_length (kv : Nat × List Nat) : (gdesc kv).length = 4 := by simp [gdesc, leBytes_length]

theorem flatMap_gdesc_length (g : VMap) : (g.flatMap gdesc).length = 4 * g.length := by
  induction g with
  | nil => rfl
  | cons v vs ih => rw [List.flatMap_cons, List.length_append, ih, gdesc_length, List.length_cons]; omega

theorem oHdrLoop_ok (h : OffHeader) (mode : Nat) (todo acc : VMap) (rest : Bytes)
    (hg : ∀ kv ∈ todo, GroupOk kv) (hasc : (acc ++ todo).Pairwise (fun a b => a.1 < b.1))
    (htyp : ∀ j kv, todo[j]? = some kv → officialType h (acc.length + j) kv.2.length = .ok (ocont mode kv.2).typ) :
    oHdrLoop h todo.length acc.length (todo.flatMap gdesc ++ rest) (acc.map (gslot mode)).reverse
      = .ok ((acc ++ todo).map (gslot mode)) := by
  induction todo generalizing acc with
  | nil => simp [oHdrLoop]
  | cons kv t ih =>
    have hk := hg kv (by simp)
    obtain ⟨hl1, hl2⟩ := hk.len
    have hbuf : (kv :: t).flatMap gdesc ++ rest
        = leBytes 2 kv.1 ++ (leBytes 2 (kv.2.length - 1) ++ (t.flatMap gdesc ++ rest)) := by
      simp [List.flatMap_cons, gdesc, List.append_assoc]
    rw [hbuf]
    generalize hB : leBytes 2 kv.1 ++ (leBytes 2 (kv.2.length - 1) ++ (t.flatMap gdesc ++ rest)) = buf
    have hlen : 4 ≤ buf.length := by rw [← hB]; simp [leBytes_length]; omega
    have d0 : buf.drop 0 = leBytes 2 kv.1 ++ (leBytes 2 (kv.2.length - 1) ++ (t.flatMap gdesc ++ rest)) := by
      rw [← hB]; rfl
    have d2 : buf.drop 2 = leBytes 2 (kv.2.length - 1) ++ (t.flatMap gdesc ++ rest) := by
      rw [← hB]; exact List.drop_left' (leBytes_length 2 _)
    have d4 : buf.drop 4 = t.flatMap gdesc ++ rest := by
      have := congrArg (List.drop 2) d2
      rw [List.drop_drop] at this
      rw [this]; exact List.drop_left' (leBytes_length 2 _)
    simp only [List.length_cons, oHdrLoop]
    rw [rd_of_drop _ buf _ 2 2 (kv.2.length - 1) d2 (by omega) (by show kv.2.length - 1 < 65536; omega)]
    rw [rd_of_drop _ buf _ 0 2 kv.1 d0 (by omega) (by have := hk.key; exact this)]
    simp only [Res.ok_bind]
    have hn : kv.2.length - 1 + 1 = kv.2.length := by omega
    rw [hn]
    have := htyp 0 kv (by simp)
    simp only [Nat.add_zero] at this
    rw [this]
    simp only [Res.ok_bind]
    rw [sub_tail _ buf 4 hlen, d4]
    simp only [Res.ok_bind]
    have hhead : ∀ s ∈ ((acc.map (gslot mode)).reverse).head?, s.key < kv.1 := by
      intro s hs
      rw [List.head?_reverse] at hs
      have hmem : s ∈ acc.map (gslot mode) := List.mem_of_getLast? hs
      obtain ⟨a, ha, rfl⟩ := List.mem_map.mp hmem
      exact (List.pairwise_append.mp hasc).2.2 a ha kv (by simp)
    rw [putCVd_cons _ _ _ _ hhead]
    have := ih (acc ++ [kv]) (fun x hx => hg x (by simp [hx])) (by simpa using hasc)
      (fun j kv' hj => by
        have := htyp (j + 1) kv' (by simpa using hj)
        simp only [List.length_append, List.length_cons, List.length_nil]
        rw [← this]; congr 1; omega)
    simp only [List.map_append, List.map_cons, List.map_nil, List.reverse_append, List.reverse_cons,
      List.reverse_nil, List.nil_append, List.cons_append, List.append_assoc, List.length_append,
      List.length_cons, List.length_nil, gslot] at this ⊢
    exact this

end PV.C04
