/-
Helper lemmas for C04: the official Roaring format — decoding what the reference encoder
(Spec.encodeOfficial) wrote.  Core Lean only.
-/
import PV.C04.LemmasImport
namespace PV.C04
open Spec

/-! ### isRun bitmap -/

theorem packBits_length (bs : List Bool) : (packBits bs).length = (bs.length + 7) / 8 := by
  simp [packBits]

theorem bit_of_byte : ∀ b0 b1 b2 b3 b4 b5 b6 b7 : Bool, ∀ t, t < 8 →
    ((((if b0 then 1 else 0) + 2 * (if b1 then 1 else 0) + 4 * (if b2 then 1 else 0) + 8 * (if b3 then 1 else 0)
      + 16 * (if b4 then 1 else 0) + 32 * (if b5 then 1 else 0) + 64 * (if b6 then 1 else 0)
      + 128 * (if b7 then 1 else 0)) >>> t) % 2 = 1)
      = ([b0, b1, b2, b3, b4, b5, b6, b7].getD t false = true) := by
  decide

theorem packBits_bit (bs : List Bool) (i : Nat) (hi : i < bs.length) :
    ∃ B, at1 "otyper.isRun" (packBits bs) (i / 8) = .ok B ∧
      (((B >>> (i % 8)) % 2 = 1) = (bs.getD i false = true)) := by
  have hj : i / 8 < (bs.length + 7) / 8 := by omega
  unfold at1 packBits
  rw [List.getElem?_map, List.getElem?_range hj]
  simp only [Option.map_some]
  refine ⟨_, rfl, ?_⟩
  have hm : i % 8 < 8 := Nat.mod_lt _ (by decide)
  have := bit_of_byte (bs.getD (8 * (i / 8)) false) (bs.getD (8 * (i / 8) + 1) false) (bs.getD (8 * (i / 8) + 2) false)
    (bs.getD (8 * (i / 8) + 3) false) (bs.getD (8 * (i / 8) + 4) false) (bs.getD (8 * (i / 8) + 5) false)
    (bs.getD (8 * (i / 8) + 6) false) (bs.getD (8 * (i / 8) + 7) false) (i % 8) hm
  simp only [bitAt]
  rw [this]
  have hi8 : bs.getD i false = bs.getD (8 * (i / 8) + i % 8) false := by
    congr 1; omega
  rw [hi8]
  generalize i / 8 = q
  generalize i % 8 = r at hm ⊢
  have : r = 0 ∨ r = 1 ∨ r = 2 ∨ r = 3 ∨ r = 4 ∨ r = 5 ∨ r = 6 ∨ r = 7 := by omega
  rcases this with h | h | h | h | h | h | h | h <;> subst h <;> simp

/-- The container the reference encoder writes for a group. -/
def ocont (mode : Nat) (vs : List Nat) : Cont :=
  if useRun mode vs then .run (toRuns vs)
  else if vs.length ≤ 4096 then .array vs
  else .bitmap (packFrom bitmapBytes 0 vs)

structure GroupOk (kv : Nat × List Nat) : Prop where
  key : kv.1 < 65536
  ne : kv.2 ≠ []
  asc : Asc kv.2
  bound : ∀ v ∈ kv.2, v < 65536

theorem GroupOk.len {kv : Nat × List Nat} (h : GroupOk kv) : 1 ≤ kv.2.length ∧ kv.2.length ≤ 65536 :=
  ⟨List.length_pos_iff.mpr h.ne, asc_length_le _ h.asc h.bound⟩

theorem ocont_values (mode : Nat) (vs : List Nat) (ha : Asc vs) (hb : ∀ v ∈ vs, v < 65536) :
    (ocont mode vs).values = vs := by
  unfold ocont
  split
  · exact toRuns_values vs ha
  · split
    · rfl
    · exact bitmapValuesFrom_packFrom bitmapBytes 0 vs ha (fun v hv => ⟨Nat.zero_le _, by
        have := hb v hv; simp only [bitmapBytes]; omega⟩)

/-- Maximal runs start at least two apart, so there are at most 32768 of them. -/
theorem toRunsAcc_length_le (vs : List Nat) : ∀ s l M, s ≤ l → Asc (l :: vs) → (∀ x ∈ l :: vs, x ≤ M) →
    (toRunsAcc s l vs).length * 2 ≤ M - s + 2 := by
  induction vs with
  | nil => intro s l M hsl _ hM; have := hM l (by simp); simp [toRunsAcc]
  | cons v r ih =>
    intro s l M hsl ha hM
    have ha' := List.pairwise_cons.mp ha
    have hlv : l < v := ha'.1 v (by simp)
    have hvM := hM v (by simp)
    simp only [toRunsAcc]
    split
    · have := ih s v M (by omega) ha'.2 (fun x hx => hM x (by simp [hx]))
      exact this
    · have := ih v v M (Nat.le_refl _) ha'.2 (fun x hx => hM x (by simp [hx]))
      simp only [List.length_cons]
      omega

theorem toRuns_length_lt (vs : List Nat) (ha : Asc vs) (hb : ∀ v ∈ vs, v < 65536) :
    (toRuns vs).length < 65536 := by
  cases vs with
  | nil => simp [toRuns]
  | cons v r =>
    have := toRunsAcc_length_le r v v 65535 (Nat.le_refl _) ha (fun x hx => by have := hb x hx; omega)
    simp only [toRuns]
    omega

def encRunO (r : Nat × Nat) : Bytes := leBytes 2 r.1 ++ leBytes 2 (r.2 - r.1)

theorem runsO_flatMap (rs : List (Nat × Nat)) (h : ∀ r ∈ rs, r.1 ≤ r.2 ∧ r.2 < 65536) :
    runsO (rs.flatMap encRunO) = rs := by
  induction rs with
  | nil => rfl
  | cons r rs ih =>
    have hr := h r (by simp)
    rw [List.flatMap_cons]
    have : encRunO r = [r.1 % 256, r.1 / 256 % 256, (r.2 - r.1) % 256, (r.2 - r.1) / 256 % 256] := rfl
    rw [this]
    simp only [List.cons_append, List.nil_append, runsO]
    rw [ih (fun w hw => h w (by simp [hw]))]
    congr 1
    apply Prod.ext <;> simp <;> omega

theorem flatMap_encRunO_length (rs : List (Nat × Nat)) : (rs.flatMap encRunO).length = 4 * rs.length := by
  induction rs with
  | nil => rfl
  | cons v vs ih =>
    rw [List.flatMap_cons, List.length_append, ih]
    have : (encRunO v).length = 4 := by simp [encRunO, leBytes_length]
    rw [this, List.length_cons]; omega

theorem payload_eq (mode : Nat) (vs : List Nat) :
    payload mode vs =
      (if useRun mode vs then leBytes 2 (toRuns vs).length ++ (toRuns vs).flatMap encRunO
       else if vs.length ≤ 4096 then vs.flatMap (leBytes 2) else packFrom 8192 0 vs) := rfl

/-- `readWithRuns`, one container written by the reference encoder. -/
theorem oRunAttach_ok (d rest : Bytes) (mode : Nat) (kv : Nat × List Nat) (hk : GroupOk kv) (pos : Nat)
    (h : d.drop pos = payload mode kv.2 ++ rest) (hpos : pos ≤ d.length) :
    oRunAttach d (ocont mode kv.2).typ kv.2.length pos
      = .ok (some (ocont mode kv.2), pos + (payload mode kv.2).length) := by
  obtain ⟨hl1, hl2⟩ := hk.len
  have hl : (d.drop pos).length = (payload mode kv.2).length + rest.length := by rw [h]; simp
  rw [List.length_drop] at hl
  unfold oRunAttach ocont
  rw [payload_eq] at h hl ⊢
  by_cases hu : useRun mode kv.2 = true
  · simp only [hu, ↓reduceIte, Cont.typ, cRun] at h hl ⊢
    have hrl := toRuns_length_lt kv.2 hk.asc hk.bound
    have hne := toRuns_ne_nil kv.2 hk.ne
    have hpos' : 0 < (toRuns kv.2).length := List.length_pos_iff.mpr hne
    have hok := toRuns_ok kv.2 hk.asc hk.bound
    rw [List.length_append, leBytes_length, flatMap_encRunO_length] at hl
    rw [if_neg (by omega)]
    have h1 : d.drop pos = leBytes 2 (toRuns kv.2).length ++ ((toRuns kv.2).flatMap encRunO ++ rest) := by
      rw [h]; simp
    rw [rd_of_drop "official.run.count" d _ pos 2 _ h1 hpos (by simpa using hrl)]
    simp only [Res.ok_bind]
    rw [if_neg (by omega)]
    have h2 : d.drop (pos + 2) = (toRuns kv.2).flatMap encRunO ++ rest := by
      have := congrArg (List.drop 2) h1
      rw [List.drop_drop] at this
      rw [this]; exact List.drop_left' (leBytes_length 2 _)
    have hv := view_of_drop "official.run.view" d _ rest (pos + 2) h2 (by omega)
    rw [flatMap_encRunO_length] at hv
    have e2 : (toRuns kv.2).length * 4 = 4 * (toRuns kv.2).length := by omega
    rw [e2, hv]
    simp only [Res.ok_bind, Res.pure_eq]
    rw [runsO_flatMap _ (fun r hr => hok.each r hr)]
    rw [List.length_append, leBytes_length, flatMap_encRunO_length]
    congr 2
    omega
  · have hu' : useRun mode kv.2 = false := by simpa using hu
    simp only [hu', Bool.false_eq_true, ↓reduceIte] at h hl ⊢
    by_cases h4 : kv.2.length ≤ 4096
    · simp only [h4, ↓reduceIte, Cont.typ, cArray, cRun, Nat.reduceEqDiff] at h hl ⊢
      rw [flatMap_leBytes2_length] at hl
      rw [if_neg (by omega)]
      have hv := view_of_drop "official.array.view" d _ rest pos h (by omega)
      rw [flatMap_leBytes2_length] at hv
      have e2 : kv.2.length * 2 = 2 * kv.2.length := by omega
      rw [e2, hv]
      simp only [Res.ok_bind, Res.pure_eq]
      rw [u16s_flatMap kv.2 hk.bound, flatMap_leBytes2_length]
    · simp only [h4, ↓reduceIte, Cont.typ, cArray, cRun, cBitmap, Nat.reduceEqDiff] at h hl ⊢
      have hpl : (packFrom 8192 0 kv.2).length = 8192 := packFrom_length _ _ _
      rw [hpl] at hl
      rw [if_neg (by simp only [bitmapBytes]; omega)]
      have hv := view_of_drop "official.bitmap.view" d _ rest pos h (by omega)
      rw [hpl] at hv
      simp only [bitmapBytes]
      rw [hv]
      simp only [Res.ok_bind, Res.pure_eq, hpl]

/-- `readOffsets`, one (non-run) container written by the reference encoder. -/
theorem oOffAttach_ok (d rest : Bytes) (mode : Nat) (kv : Nat × List Nat) (hk : GroupOk kv) (off : Nat)
    (hu : useRun mode kv.2 = false)
    (h : d.drop off = payload mode kv.2 ++ rest) (hoff : off ≤ d.length) :
    oOffAttach d (ocont mode kv.2).typ kv.2.length off = .ok (ocont mode kv.2) := by
  obtain ⟨hl1, hl2⟩ := hk.len
  have hl : (d.drop off).length = (payload mode kv.2).length + rest.length := by rw [h]; simp
  rw [List.length_drop] at hl
  unfold oOffAttach ocont
  rw [payload_eq] at h hl
  simp only [hu, Bool.false_eq_true, ↓reduceIte] at h hl ⊢
  by_cases h4 : kv.2.length ≤ 4096
  · simp only [h4, ↓reduceIte, Cont.typ, cArray] at h hl ⊢
    rw [flatMap_leBytes2_length] at hl
    rw [if_neg (by omega)]
    have hv := view_of_drop "official.array.view" d _ rest off h (by omega)
    rw [flatMap_leBytes2_length] at hv
    have e2 : kv.2.length * 2 = 2 * kv.2.length := by omega
    rw [e2, hv]
    simp only [Res.ok_bind, Res.pure_eq]
    rw [u16s_flatMap kv.2 hk.bound]
  · simp only [h4, ↓reduceIte, Cont.typ, cArray, cBitmap, Nat.reduceEqDiff] at h hl ⊢
    have hpl : (packFrom 8192 0 kv.2).length = 8192 := packFrom_length _ _ _
    rw [hpl] at hl
    rw [if_neg (by simp only [bitmapBytes]; omega)]
    have hv := view_of_drop "official.bitmap.view" d _ rest off h (by omega)
    rw [hpl] at hv
    simp only [bitmapBytes]
    rw [hv]
    simp only [Res.ok_bind, Res.pure_eq]

def gslot (mode : Nat) (kv : Nat × List Nat) : Slot :=
  { key := kv.1, typ := (ocont mode kv.2).typ, n := kv.2.length, c := none }
def gdone (mode : Nat) (kv : Nat × List Nat) : Slot :=
  { key := kv.1, typ := (ocont mode kv.2).typ, n := kv.2.length, c := some (ocont mode kv.2) }
def gentry (mode : Nat) (kv : Nat × List Nat) : Entry := ⟨kv.1, kv.2.length, ocont mode kv.2⟩
def gdesc (kv : Nat × List Nat) : Bytes := leBytes 2 kv.1 ++ leBytes 2 (kv.2.length - 1)

theorem gdesc_length (kv : Nat × List Nat) : (gdesc kv).length = 4 := by simp [gdesc, leBytes_length]

theorem flatMap_gdesc_length (g : VMap) : (g.flatMap gdesc).length = 4 * g.length := by
  induction g with
  | nil => rfl
  | cons v vs ih => rw [List.flatMap_cons, List.length_append, ih, gdesc_length, List.length_cons]; omega

theorem oHdrLoop_ok (h : OffHeader) (mode : Nat) (todo acc : VMap) (rest : Bytes)
    (hg : ∀ kv ∈ todo, GroupOk kv) (hasc : (acc ++ todo).Pairwise (fun a b => a.1 < b.1))
    (htyp : ∀ j kv, todo[j]? = some kv → officialType h (acc.length + j) kv.2.length = .ok (ocont mode kv.2).typ) :
    oHdrLoop h todo.length acc.length (todo.flatMap gdesc ++ rest) (acc.map (gslot mode)).reverse
      = .ok ((acc ++ todo).map (gslot mode)) := by
  induction todo generalizing acc with
  | nil => simp [oHdrLoop]
  | cons kv t ih =>
    have hk := hg kv (by simp)
    obtain ⟨hl1, hl2⟩ := hk.len
    have hbuf : (kv :: t).flatMap gdesc ++ rest
        = leBytes 2 kv.1 ++ (leBytes 2 (kv.2.length - 1) ++ (t.flatMap gdesc ++ rest)) := by
      simp [List.flatMap_cons, gdesc, List.append_assoc]
    rw [hbuf]
    generalize hB : leBytes 2 kv.1 ++ (leBytes 2 (kv.2.length - 1) ++ (t.flatMap gdesc ++ rest)) = buf
    have hlen : 4 ≤ buf.length := by rw [← hB]; simp [leBytes_length]; omega
    have d0 : buf.drop 0 = leBytes 2 kv.1 ++ (leBytes 2 (kv.2.length - 1) ++ (t.flatMap gdesc ++ rest)) := by
      rw [← hB]; rfl
    have d2 : buf.drop 2 = leBytes 2 (kv.2.length - 1) ++ (t.flatMap gdesc ++ rest) := by
      rw [← hB]; exact List.drop_left' (leBytes_length 2 _)
    have d4 : buf.drop 4 = t.flatMap gdesc ++ rest := by
      have := congrArg (List.drop 2) d2
      rw [List.drop_drop] at this
      rw [this]; exact List.drop_left' (leBytes_length 2 _)
    simp only [List.length_cons, oHdrLoop]
    rw [rd_of_drop _ buf _ 2 2 (kv.2.length - 1) d2 (by omega) (by show kv.2.length - 1 < 65536; omega)]
    rw [rd_of_drop _ buf _ 0 2 kv.1 d0 (by omega) (by have := hk.key; exact this)]
    simp only [Res.ok_bind]
    have hn : kv.2.length - 1 + 1 = kv.2.length := by omega
    rw [hn]
    have := htyp 0 kv (by simp)
    simp only [Nat.add_zero] at this
    rw [this]
    simp only [Res.ok_bind]
    rw [sub_tail _ buf 4 hlen, d4]
    simp only [Res.ok_bind]
    have hhead : ∀ s ∈ ((acc.map (gslot mode)).reverse).head?, s.key < kv.1 := by
      intro s hs
      rw [List.head?_reverse] at hs
      have hmem : s ∈ acc.map (gslot mode) := List.mem_of_getLast? hs
      obtain ⟨a, ha, rfl⟩ := List.mem_map.mp hmem
      exact (List.pairwise_append.mp hasc).2.2 a ha kv (by simp)
    rw [putCVd_cons _ _ _ _ hhead]
    have := ih (acc ++ [kv]) (fun x hx => hg x (by simp [hx])) (by simpa using hasc)
      (fun j kv' hj => by
        have := htyp (j + 1) kv' (by simpa using hj)
        simp only [List.length_append, List.length_cons, List.length_nil]
        rw [← this]; congr 1; omega)
    simp only [List.map_append, List.map_cons, List.map_nil, List.reverse_append, List.reverse_cons,
      List.reverse_nil, List.nil_append, List.cons_append, List.append_assoc, List.length_append,
      List.length_cons, List.length_nil, gslot] at this ⊢
    exact this

theorem payload_pos' (mode : Nat) (kv : Nat × List Nat) (hk : GroupOk kv) : 0 < (payload mode kv.2).length := by
  obtain ⟨hl1, hl2⟩ := hk.len
  rw [payload_eq]
  split
  · rw [List.length_append, leBytes_length]; omega
  · split
    · rw [flatMap_leBytes2_length]; omega
    · rw [packFrom_length]; omega

theorem offsetsFrom_length (off : Nat) (pls : List Bytes) : (offsetsFrom off pls).length = 4 * pls.length := by
  induction pls generalizing off with
  | nil => rfl
  | cons p r ih => simp only [offsetsFrom, List.length_append, leBytes_length, ih, List.length_cons]; omega

/-- `readOffsets` over what the reference encoder wrote (no run containers). -/
theorem oOffLoop_ok (d : Bytes) (mode : Nat) (todo done : VMap) (off : Nat) (rest : Bytes)
    (hg : ∀ kv ∈ todo, GroupOk kv) (hu : ∀ kv ∈ todo, useRun mode kv.2 = false)
    (hdrop : d.drop off = (todo.map (fun kv => payload mode kv.2)).flatten)
    (hoff : off ≤ d.length) (hd : d.length < 2 ^ 32) :
    oOffLoop d todo.length (offsetsFrom off (todo.map (fun kv => payload mode kv.2)) ++ rest)
        (done.map (gdone mode)).reverse (todo.map (gslot mode))
      = .ok ((done ++ todo).map (gdone mode)) := by
  induction todo generalizing done off with
  | nil => simp [oOffLoop]
  | cons kv t ih =>
    have hk := hg kv (by simp)
    have hpl := payload_pos' mode kv hk
    have hdrop' : d.drop off = payload mode kv.2 ++ (t.map (fun kv => payload mode kv.2)).flatten := by
      rw [hdrop]; simp
    have hl : (d.drop off).length = (payload mode kv.2).length + ((t.map (fun kv => payload mode kv.2)).flatten).length := by
      rw [hdrop']; simp
    rw [List.length_drop] at hl
    simp only [List.length_cons, oOffLoop, List.map_cons, offsetsFrom, List.append_assoc]
    generalize hB : leBytes 4 off ++ (offsetsFrom (off + (payload mode kv.2).length) (t.map (fun kv => payload mode kv.2)) ++ rest) = buf
    have d0 : buf.drop 0 = leBytes 4 off ++ (offsetsFrom (off + (payload mode kv.2).length) (t.map (fun kv => payload mode kv.2)) ++ rest) := by
      rw [← hB]; rfl
    have d4 : buf.drop 4 = offsetsFrom (off + (payload mode kv.2).length) (t.map (fun kv => payload mode kv.2)) ++ rest := by
      rw [← hB]; exact List.drop_left' (leBytes_length 4 _)
    have hlen : 4 ≤ buf.length := by rw [← hB]; simp [leBytes_length]
    rw [if_neg (by omega)]
    rw [rd_of_drop _ buf _ 0 4 off d0 (by omega) (by show off < 4294967296; omega)]
    simp only [Res.ok_bind]
    rw [if_neg (by omega)]
    simp only [gslot]
    rw [oOffAttach_ok d _ mode kv hk off (hu kv (by simp)) hdrop' hoff]
    simp only [Res.ok_bind]
    rw [sub_tail _ buf 4 hlen, d4]
    simp only [Res.ok_bind]
    have hdrop2 : d.drop (off + (payload mode kv.2).length) = (t.map (fun kv => payload mode kv.2)).flatten := by
      have := congrArg (List.drop (payload mode kv.2).length) hdrop'
      rw [List.drop_drop] at this
      rw [this]; exact List.drop_left' rfl
    cases t with
    | nil =>
      simp only [List.map_nil, List.length_nil, oOffLoop, Res.pure_eq, Slot.attach, List.reverse_reverse]
      simp [gdone]
    | cons kv2 t2 =>
      simp only [List.map_cons]
      have := ih (done ++ [kv]) (off + (payload mode kv.2).length) (fun x hx => hg x (by simp [hx]))
        (fun x hx => hu x (by simp [hx])) hdrop2 (by omega)
      simp only [List.map_append, List.map_cons, List.map_nil, List.reverse_append, List.reverse_cons,
        List.reverse_nil, List.nil_append, List.cons_append, List.length_cons, gslot, gdone,
        List.append_assoc] at this
      simp only [Slot.attach, List.length_cons, gslot]
      rw [this]
      simp [gdone]

/-- `readWithRuns` over what the reference encoder wrote. -/
theorem oRunLoop_ok (d : Bytes) (mode : Nat) (todo done : VMap) (pos : Nat)
    (hg : ∀ kv ∈ todo, GroupOk kv)
    (hdrop : d.drop pos = (todo.map (fun kv => payload mode kv.2)).flatten)
    (hpos : pos ≤ d.length) :
    oRunLoop d todo.length (done.map (gdone mode)).reverse (todo.map (gslot mode)) pos
      = .ok ((done ++ todo).map (gdone mode)) := by
  induction todo generalizing done pos with
  | nil => simp [oRunLoop]
  | cons kv t ih =>
    have hk := hg kv (by simp)
    have hdrop' : d.drop pos = payload mode kv.2 ++ (t.map (fun kv => payload mode kv.2)).flatten := by
      rw [hdrop]; simp
    have hl : (d.drop pos).length = (payload mode kv.2).length + ((t.map (fun kv => payload mode kv.2)).flatten).length := by
      rw [hdrop']; simp
    rw [List.length_drop] at hl
    simp only [List.length_cons, oRunLoop, List.map_cons]
    simp only [gslot]
    rw [oRunAttach_ok d _ mode kv hk pos hdrop' hpos]
    simp only [Res.ok_bind]
    have hdrop2 : d.drop (pos + (payload mode kv.2).length) = (t.map (fun kv => payload mode kv.2)).flatten := by
      have := congrArg (List.drop (payload mode kv.2).length) hdrop'
      rw [List.drop_drop] at this
      rw [this]; exact List.drop_left' rfl
    cases t with
    | nil =>
      simp only [List.map_nil, List.length_nil, oRunLoop, Res.pure_eq, Slot.attach, List.reverse_reverse]
      simp [gdone]
    | cons kv2 t2 =>
      simp only [List.map_cons]
      have := ih (done ++ [kv]) (pos + (payload mode kv.2).length) (fun x hx => hg x (by simp [hx])) hdrop2 (by omega)
      simp only [List.map_append, List.map_cons, List.map_nil, List.reverse_append, List.reverse_cons,
        List.reverse_nil, List.nil_append, List.cons_append, List.length_cons, gslot, gdone,
        List.append_assoc] at this
      simp only [Slot.attach, List.length_cons, gslot]
      rw [this]
      simp [gdone]

theorem slotsToEntries_gdone (mode : Nat) (g : VMap) : slotsToEntries (g.map (gdone mode)) = g.map (gentry mode) := by
  induction g with
  | nil => rfl
  | cons e t ih => simp [slotsToEntries, gdone, gentry, ih]

theorem groups_length_le (g : VMap) (hg : ∀ kv ∈ g, GroupOk kv) (hk : g.Pairwise (fun a b => a.1 < b.1)) :
    g.length ≤ 65536 := by
  have h1 : Asc (g.map (·.1)) := List.Pairwise.map _ (fun a b h => h) hk
  have h2 : ∀ v ∈ g.map (·.1), v < 65536 := by
    intro v hv
    obtain ⟨kv, hkv, rfl⟩ := List.mem_map.mp hv
    exact (hg kv hkv).key
  have := asc_length_le _ h1 h2
  simpa using this

theorem flatten_payload_pos (mode : Nat) (g : VMap) (hg : ∀ kv ∈ g, GroupOk kv) (hn : 0 < g.length) :
    2 ≤ ((g.map (fun kv => payload mode kv.2)).flatten).length := by
  cases g with
  | nil => simp at hn
  | cons kv t =>
    have hk := hg kv (by simp)
    obtain ⟨hl1, _⟩ := hk.len
    simp only [List.map_cons, List.flatten_cons, List.length_append]
    have : 2 ≤ (payload mode kv.2).length := by
      rw [payload_eq]
      split
      · rw [List.length_append, leBytes_length]; omega
      · split
        · rw [flatMap_leBytes2_length]; omega
        · rw [packFrom_length]; omega
    omega

theorem values_gentry (mode : Nat) (g : VMap) (hg : ∀ kv ∈ g, GroupOk kv) :
    VMap.values (entriesToVMap (g.map (gentry mode))) = VMap.values g := by
  induction g with
  | nil => rfl
  | cons kv t ih =>
    have hk := hg kv (by simp)
    simp only [List.map_cons, entriesToVMap, VMap.values, List.flatMap_cons] at ih ⊢
    rw [ih (fun x hx => hg x (by simp [hx]))]
    simp only [gentry]
    rw [ocont_values mode kv.2 hk.asc hk.bound]

/-- No run containers: cookie 12346. -/
theorem unmarshalOfficial_noRun (mode : Nat) (g : VMap) (hg : ∀ kv ∈ g, GroupOk kv)
    (hk : g.Pairwise (fun a b => a.1 < b.1))
    (hu : ∀ kv ∈ g, useRun mode kv.2 = false)
    (d : Bytes)
    (hd : d = (leBytes 4 cookieNoRun ++ leBytes 4 g.length) ++ (g.flatMap gdesc
        ++ (offsetsFrom (8 + 4 * g.length + 4 * g.length) (g.map (fun kv => payload mode kv.2))
          ++ (g.map (fun kv => payload mode kv.2)).flatten)))
    (hsize : d.length < 2 ^ 32) :
    unmarshalOfficial d = .ok (⟨0, g.map (gentry mode), entriesToVMap (g.map (gentry mode)), 0, 0⟩ : Decoded) := by
  have hn := groups_length_le g hg hk
  generalize hPL : (g.map (fun kv => payload mode kv.2)).flatten = PL at hd
  have hH : (leBytes 4 cookieNoRun ++ leBytes 4 g.length).length = 8 := by simp [leBytes_length]
  have hlen : d.length = 8 + 4 * g.length + 4 * g.length + PL.length := by
    rw [hd]; simp only [List.length_append, hH, flatMap_gdesc_length, offsetsFrom_length, List.length_map]; omega
  have hplpos : 0 < g.length → 2 ≤ PL.length := fun h => by rw [← hPL]; exact flatten_payload_pos mode g hg h
  have d0 : d.drop 0 = leBytes 4 cookieNoRun ++ (leBytes 4 g.length ++ (g.flatMap gdesc
        ++ (offsetsFrom (8 + 4 * g.length + 4 * g.length) (g.map (fun kv => payload mode kv.2)) ++ PL))) := by
    rw [hd]; simp
  have d4 : d.drop 4 = leBytes 4 g.length ++ (g.flatMap gdesc
        ++ (offsetsFrom (8 + 4 * g.length + 4 * g.length) (g.map (fun kv => payload mode kv.2)) ++ PL)) := by
    have := congrArg (List.drop 4) d0
    rw [List.drop_drop] at this
    rw [this]; exact List.drop_left' (leBytes_length 4 _)
  have d8 : d.drop 8 = g.flatMap gdesc
        ++ (offsetsFrom (8 + 4 * g.length + 4 * g.length) (g.map (fun kv => payload mode kv.2)) ++ PL) := by
    have := congrArg (List.drop 4) d4
    rw [List.drop_drop] at this
    rw [this]; exact List.drop_left' (leBytes_length 4 _)
  have d8' : d.drop (8 + 4 * g.length) =
      offsetsFrom (8 + 4 * g.length + 4 * g.length) (g.map (fun kv => payload mode kv.2)) ++ PL := by
    have := congrArg (List.drop (4 * g.length)) d8
    rw [List.drop_drop] at this
    rw [this]; exact List.drop_left' (flatMap_gdesc_length g)
  have d8'' : d.drop (8 + 4 * g.length + 4 * g.length) = PL := by
    have := congrArg (List.drop (4 * g.length)) d8'
    rw [List.drop_drop] at this
    rw [this]; exact List.drop_left' (by rw [offsetsFrom_length, List.length_map])
  -- the header
  have hhdr : readOfficialHeader d = .ok (⟨g.length, false, [], 8, 8 + 4 * g.length⟩ : OffHeader) := by
    unfold readOfficialHeader
    rw [if_neg (by omega)]
    rw [rd_of_drop _ d _ 0 4 cookieNoRun d0 (by omega) (by decide)]
    simp only [Res.ok_bind, ↓reduceIte]
    rw [rd_of_drop _ d _ 4 4 g.length d4 (by omega) (by show g.length < 4294967296; omega)]
    simp only [Res.ok_bind, Res.pure_eq]
    rw [if_neg (by omega)]
    rw [if_neg (by
      intro h
      rcases h with h | ⟨h1, h2⟩
      · omega
      · have := hplpos h1; omega)]
  unfold unmarshalOfficial
  rw [hhdr]
  simp only [Res.ok_bind]
  rw [sub_tail _ d 8 (by omega), d8]
  simp only [Res.ok_bind]
  have hH0 := oHdrLoop_ok (⟨g.length, false, [], 8, 8 + 4 * g.length⟩ : OffHeader)
    mode g [] (offsetsFrom (8 + 4 * g.length + 4 * g.length) (g.map (fun kv => payload mode kv.2)) ++ PL) hg
    (by simpa using hk)
    (fun j kv hj => by
      have hmem : kv ∈ g := List.mem_of_getElem? hj
      have huk := hu kv hmem
      simp only [officialType, Bool.false_eq_true, ↓reduceIte, Res.pure_eq, ocont, huk, arrayMaxSize]
      split <;> simp [*, Cont.typ])
  simp only [List.map_nil, List.reverse_nil, List.nil_append, List.length_nil] at hH0
  rw [hH0]
  simp only [Res.ok_bind]
  unfold oAttachAll
  simp only [Bool.false_eq_true, ↓reduceIte]
  rw [sub_tail _ d (8 + 4 * g.length) (by omega), d8']
  simp only [Res.ok_bind]
  have hO := oOffLoop_ok d mode g [] (8 + 4 * g.length + 4 * g.length) PL hg hu (by rw [d8'', hPL]) (by omega) hsize
  simp only [List.map_nil, List.reverse_nil, List.nil_append] at hO
  rw [hO]
  simp only [Res.ok_bind, Res.pure_eq, slotsToEntries_gdone]

theorem leVal_append (a b : Bytes) : leVal (a ++ b) = leVal a + 256 ^ a.length * leVal b := by
  induction a with
  | nil => simp [leVal]
  | cons x r ih =>
    simp only [List.cons_append, leVal, ih, List.length_cons, Nat.pow_succ]
    rw [Nat.mul_add, ← Nat.mul_assoc, Nat.mul_comm 256 (256 ^ r.length), Nat.add_assoc]

theorem getD_map_useRun (mode : Nat) (g : VMap) (j : Nat) (kv : Nat × List Nat) (h : g[j]? = some kv) :
    (g.map (fun kv => useRun mode kv.2)).getD j false = useRun mode kv.2 := by
  simp [List.getD, List.getElem?_map, h]

/-- With run containers: cookie 12347. -/
theorem unmarshalOfficial_run (mode : Nat) (g : VMap) (hg : ∀ kv ∈ g, GroupOk kv)
    (hk : g.Pairwise (fun a b => a.1 < b.1)) (hn1 : 1 ≤ g.length)
    (d : Bytes) (offs : Bytes)
    (hoffs : offs.length = if g.length ≥ 4 then 4 * g.length else 0)
    (hd : d = (leBytes 2 cookieRun ++ (leBytes 2 (g.length - 1) ++ packBits (g.map (fun kv => useRun mode kv.2))))
        ++ (g.flatMap gdesc ++ (offs ++ (g.map (fun kv => payload mode kv.2)).flatten))) :
    unmarshalOfficial d = .ok (⟨0, g.map (gentry mode), entriesToVMap (g.map (gentry mode)), 0, 0⟩ : Decoded) := by
  have hn := groups_length_le g hg hk
  generalize hPL : (g.map (fun kv => payload mode kv.2)).flatten = PL at hd
  generalize hIR : g.map (fun kv => useRun mode kv.2) = isRun at hd
  have hirl : isRun.length = g.length := by rw [← hIR]; simp
  have hbl : (packBits isRun).length = (g.length + 7) / 8 := by rw [packBits_length, hirl]
  have hplpos : 2 ≤ PL.length := by rw [← hPL]; exact flatten_payload_pos mode g hg (by omega)
  have hlen : d.length = 4 + (g.length + 7) / 8 + 4 * g.length + offs.length + PL.length := by
    rw [hd]; simp only [List.length_append, leBytes_length, hbl, flatMap_gdesc_length]; omega
  have d0 : d.drop 0 = (leBytes 2 cookieRun ++ leBytes 2 (g.length - 1)) ++ (packBits isRun
      ++ (g.flatMap gdesc ++ (offs ++ PL))) := by
    rw [hd]; simp
  have d4 : d.drop 4 = packBits isRun ++ (g.flatMap gdesc ++ (offs ++ PL)) := by
    have := congrArg (List.drop 4) d0
    rw [List.drop_drop] at this
    rw [this]; exact List.drop_left' (by simp [leBytes_length])
  have dh : d.drop (4 + (g.length + 7) / 8) = g.flatMap gdesc ++ (offs ++ PL) := by
    have := congrArg (List.drop ((g.length + 7) / 8)) d4
    rw [List.drop_drop] at this
    rw [this]; exact List.drop_left' hbl
  have dp : d.drop (4 + (g.length + 7) / 8 + 4 * g.length) = offs ++ PL := by
    have := congrArg (List.drop (4 * g.length)) dh
    rw [List.drop_drop] at this
    rw [this]; exact List.drop_left' (flatMap_gdesc_length g)
  have dpl : d.drop (4 + (g.length + 7) / 8 + 4 * g.length + offs.length) = PL := by
    have := congrArg (List.drop offs.length) dp
    rw [List.drop_drop] at this
    rw [this]; exact List.drop_left' rfl
  -- the cookie
  have hcookie : rd "ohdr.cookie" d 0 4 = .ok (cookieRun + 65536 * (g.length - 1)) := by
    unfold rd
    have := sub_of_drop "ohdr.cookie" d (leBytes 2 cookieRun ++ leBytes 2 (g.length - 1)) _ 0 d0 (by omega)
    simp only [List.length_append, leBytes_length] at this
    rw [this]
    simp only [Res.ok_bind, Res.pure_eq]
    rw [leVal_append, leVal_leBytes_lt 2 cookieRun (by decide), leVal_leBytes_lt 2 (g.length - 1) (by show g.length - 1 < 65536; omega),
      leBytes_length]
  have hhdr : readOfficialHeader d = .ok (⟨g.length, true, packBits isRun, 4 + (g.length + 7) / 8,
      4 + (g.length + 7) / 8 + 4 * g.length⟩ : OffHeader) := by
    unfold readOfficialHeader
    rw [if_neg (by omega), hcookie]
    simp only [Res.ok_bind]
    have c1 : cookieRun + 65536 * (g.length - 1) ≠ cookieNoRun := by simp only [cookieRun, cookieNoRun]; omega
    have c2 : (cookieRun + 65536 * (g.length - 1)) % 65536 = cookieRun := by simp only [cookieRun]; omega
    have c3 : (cookieRun + 65536 * (g.length - 1)) / 65536 % 65536 + 1 = g.length := by simp only [cookieRun]; omega
    rw [if_neg c1, if_pos c2, c3]
    rw [if_neg (by omega)]
    have := sub_of_drop "ohdr.isRun" d (packBits isRun) _ 4 d4 (by omega)
    rw [hbl] at this
    rw [this]
    simp only [Res.ok_bind, Res.pure_eq]
    rw [if_neg (by omega)]
    rw [if_neg (by
      intro h
      rcases h with h | ⟨_, h2⟩ <;> omega)]
  unfold unmarshalOfficial
  rw [hhdr]
  simp only [Res.ok_bind]
  rw [sub_tail _ d (4 + (g.length + 7) / 8) (by omega), dh]
  simp only [Res.ok_bind]
  have hH0 := oHdrLoop_ok (⟨g.length, true, packBits isRun, 4 + (g.length + 7) / 8,
      4 + (g.length + 7) / 8 + 4 * g.length⟩ : OffHeader) mode g [] (offs ++ PL) hg (by simpa using hk)
    (fun j kv hj => by
      have hjl : j < isRun.length := by
        rw [hirl]
        exact (List.getElem?_eq_some_iff.mp hj).1
      obtain ⟨B, hB, hbit⟩ := packBits_bit isRun j hjl
      have hgd : isRun.getD j false = useRun mode kv.2 := by rw [← hIR]; exact getD_map_useRun mode g j kv hj
      simp only [officialType, ↓reduceIte, List.length_nil, Nat.zero_add]
      rw [hB]
      simp only [Res.ok_bind, Res.pure_eq]
      unfold ocont
      by_cases hu : useRun mode kv.2 = true
      · have hc : B >>> (j % 8) % 2 = 1 := by rw [hbit, hgd]; exact hu
        rw [if_pos hc]
        simp [hu, Cont.typ]
      · have hu' : useRun mode kv.2 = false := by simpa using hu
        have hc : ¬ (B >>> (j % 8) % 2 = 1) := by rw [hbit, hgd, hu']; simp
        rw [if_neg hc]
        simp only [hu', Bool.false_eq_true, ↓reduceIte, arrayMaxSize]
        split <;> simp [*, Cont.typ])
  simp only [List.map_nil, List.reverse_nil, List.nil_append, List.length_nil] at hH0
  rw [hH0]
  simp only [Res.ok_bind]
  unfold oAttachAll
  simp only [↓reduceIte]
  rw [if_neg (by omega)]
  have hstart : (if g.length ≥ noOffsetThreshold then 4 + (g.length + 7) / 8 + 4 * g.length + g.length * 4
      else 4 + (g.length + 7) / 8 + 4 * g.length) = 4 + (g.length + 7) / 8 + 4 * g.length + offs.length := by
    by_cases h4 : g.length ≥ 4
    · rw [if_pos h4] at hoffs
      rw [if_pos (by simpa [noOffsetThreshold] using h4)]; omega
    · rw [if_neg h4] at hoffs
      rw [if_neg (by simpa [noOffsetThreshold] using h4)]; omega
  rw [hstart]
  have hR := oRunLoop_ok d mode g [] (4 + (g.length + 7) / 8 + 4 * g.length + offs.length) hg
    (by rw [dpl, hPL]) (by omega)
  simp only [List.map_nil, List.reverse_nil, List.nil_append] at hR
  rw [hR]
  simp only [Res.ok_bind, Res.pure_eq, slotsToEntries_gdone]

theorem encodeOfficial_noRun (mode : Nat) (g : VMap)
    (h : (g.map (fun kv => useRun mode kv.2)).any id = false) :
    encodeOfficial mode g = (leBytes 4 cookieNoRun ++ leBytes 4 g.length) ++ (g.flatMap gdesc
        ++ (offsetsFrom (8 + 4 * g.length + 4 * g.length) (g.map (fun kv => payload mode kv.2))
          ++ (g.map (fun kv => payload mode kv.2)).flatten)) := by
  unfold encodeOfficial
  simp only [h, Bool.false_eq_true, ↓reduceIte, Bool.not_false, Bool.true_or, List.length_append,
    leBytes_length, List.append_assoc]
  have : (g.flatMap (fun kv => leBytes 2 kv.1 ++ leBytes 2 (kv.2.length - 1))) = g.flatMap gdesc := rfl
  rw [this, flatMap_gdesc_length]

theorem encodeOfficial_run (mode : Nat) (g : VMap)
    (h : (g.map (fun kv => useRun mode kv.2)).any id = true) :
    ∃ offs : Bytes, (offs.length = if g.length ≥ 4 then 4 * g.length else 0) ∧
      encodeOfficial mode g = (leBytes 2 cookieRun ++ (leBytes 2 (g.length - 1) ++ packBits (g.map (fun kv => useRun mode kv.2))))
        ++ (g.flatMap gdesc ++ (offs ++ (g.map (fun kv => payload mode kv.2)).flatten)) := by
  unfold encodeOfficial
  simp only [h, ↓reduceIte, Bool.not_true, Bool.false_or, List.append_assoc]
  have hd : (g.flatMap (fun kv => leBytes 2 kv.1 ++ leBytes 2 (kv.2.length - 1))) = g.flatMap gdesc := rfl
  rw [hd]
  refine ⟨_, ?_, rfl⟩
  by_cases h4 : g.length ≥ 4
  · simp only [h4, decide_true, ↓reduceIte]
    rw [offsetsFrom_length, List.length_map]
  · simp only [h4, decide_false, Bool.false_eq_true, ↓reduceIte, List.length_nil]


theorem leBytes4_split (x : Nat) : leBytes 4 x = leBytes 2 x ++ leBytes 2 (x / 65536) := by
  simp only [leBytes, List.cons_append, List.nil_append, List.cons.injEq, and_true]
  refine ⟨trivial, trivial, ?_, ?_⟩ <;> omega

theorem rd_prefix (site : String) (k n : Nat) (rest : Bytes) (hn : n < 256 ^ k) :
    rd site (leBytes k n ++ rest) 0 k = .ok n :=
  rd_of_drop site _ rest 0 k n rfl (Nat.zero_le _) hn

/-- `UnmarshalBinary` of what the reference encoder wrote. -/
theorem unmarshal_encodeOfficial (mode : Nat) (g : VMap) (hg : ∀ kv ∈ g, GroupOk kv)
    (hk : g.Pairwise (fun a b => a.1 < b.1)) (hsize : (encodeOfficial mode g).length < 2 ^ 32) :
    unmarshal (encodeOfficial mode g) =
      .ok ((⟨0, g.map (gentry mode), entriesToVMap (g.map (gentry mode)), 0, 0⟩ : Decoded), encodeOfficial mode g) := by
  by_cases hany : (g.map (fun kv => useRun mode kv.2)).any id = true
  · obtain ⟨offs, hoffs, henc⟩ := encodeOfficial_run mode g hany
    have hn1 : 1 ≤ g.length := by
      cases g with
      | nil => simp at hany
      | cons _ _ => simp
    have hU := unmarshalOfficial_run mode g hg hk hn1 _ offs hoffs henc
    have hlen : 8 ≤ (encodeOfficial mode g).length := by
      rw [henc]
      have := flatten_payload_pos mode g hg (by omega)
      simp only [List.length_append, leBytes_length, flatMap_gdesc_length]
      omega
    rw [unmarshal_eq _ hlen]
    have hm : rd "unmarshal.magic" (encodeOfficial mode g) 0 2 = .ok cookieRun := by
      rw [henc, List.append_assoc]
      exact rd_prefix _ 2 cookieRun _ (by decide)
    rw [hm]
    simp only [Res.ok_bind, cookieRun, magicPilosa, Nat.reduceEqDiff, ↓reduceIte]
    rw [hU]
    rfl
  · have hany' : (g.map (fun kv => useRun mode kv.2)).any id = false := by simpa using hany
    have henc := encodeOfficial_noRun mode g hany'
    have hu : ∀ kv ∈ g, useRun mode kv.2 = false := by
      intro kv hkv
      have := List.any_eq_false.mp hany' (useRun mode kv.2) (List.mem_map.mpr ⟨kv, hkv, rfl⟩)
      simpa using this
    have hU := unmarshalOfficial_noRun mode g hg hk hu _ henc hsize
    have hlen : 8 ≤ (encodeOfficial mode g).length := by
      rw [henc]; simp only [List.length_append, leBytes_length]; omega
    rw [unmarshal_eq _ hlen]
    have hm : rd "unmarshal.magic" (encodeOfficial mode g) 0 2 = .ok cookieNoRun := by
      rw [henc, leBytes4_split cookieNoRun]
      simp only [List.append_assoc]
      exact rd_prefix _ 2 cookieNoRun _ (by decide)
    rw [hm]
    simp only [Res.ok_bind, cookieNoRun, magicPilosa, Nat.reduceEqDiff, ↓reduceIte]
    rw [hU]
    rfl

end PV.C04
