/-
pm_c04: model driver for C04.  Ops (one per line; `coll` = s|b selects slice / B-tree containers
on the real side and is ignored by the model; container specs: see Driver.lean):

  rt  <coll> <flags> <spec>         WriteTo (Optimize + write), then UnmarshalBinary twice
  un  <coll> <flags> <spec>         writeToUnoptimized, then UnmarshalBinary twice
  off <coll> <mode> <spec>          Spec.encodeOfficial mode (values of spec), then UnmarshalBinary twice
  raw <coll> <hex>                  UnmarshalBinary twice on the given bytes
  imp <coll> <clear> <target-spec> <fmt> <payload>
                                    fmt = p (WriteTo of spec) | u (unoptimized) | o0 o1 o2 (official) | x (hex)
Answers:
  rt/un/off: `enc=<len>:<fnv32a> ok f=<flags> c=[key:type:n ...] v=<ranges> ops=<ops>,<opN> unmod=<b> twice=<b>`
  raw:       the same without `enc=`
  imp:       `ok changed=<n> v=<ranges> rows=[row:delta ...]` (rowSet for rowSize 16) | `err:<class> v=<ranges of the unchanged target>`
`#spec`: the abstract statement — same flags and set as the source, input unmodified, second decode
equal; import = union / difference with the decoded set and changed = number of differing bits.
-/
import PV.Common.Proto
import PV.C04.Driver
open PV.Proto PV.C04 PV.C04.Driver

def specDecode (enc : Bytes) (flags : Nat) (cpart : String) (vs : List Nat) : String :=
  encTag enc ++ s!" ok f={flags} c=" ++ cpart ++ " v=" ++ showRanges vs ++ " ops=0,0 unmod=true twice=true"

def payloadBytes? (fmt pl : String) : Option Bytes :=
  if fmt = "x" then parseHex? pl
  else do
    let es ← parseSpec? pl
    if fmt = "p" then pure (encodeP ⟨0, es⟩)
    else if fmt = "u" then pure (writeUnopt ⟨0, es⟩)
    else if fmt = "o0" then pure (Spec.encodeOfficial 0 (groupsOfEntries es))
    else if fmt = "o1" then pure (Spec.encodeOfficial 1 (groupsOfEntries es))
    else if fmt = "o2" then pure (Spec.encodeOfficial 2 (groupsOfEntries es))
    else none

def step (_u : Unit) (ws : List String) : Unit × Ans :=
  let bad := ((), ans "bad-op")
  match ws with
  | [op, _, fl, sp] =>
    if op = "rt" ∨ op = "un" then
      match fl.toNat?, parseSpec? sp with
      | some flags, some es =>
        let b : Bitmap := ⟨flags, es⟩
        let enc := if op = "rt" then encodeP b else writeUnopt b
        let (m, types) := showUnmarshal2 true enc
        ((), ans2 (encTag enc ++ " " ++ m) (specDecode enc (flags % 256) types b.values) op)
      | _, _ => bad
    else if op = "off" then
      match fl.toNat?, parseSpec? sp with
      | some mode, some es =>
        let g := groupsOfEntries es
        let enc := Spec.encodeOfficial mode g
        let (m, types) := showUnmarshal2 true enc
        ((), ans2 (encTag enc ++ " " ++ m) (specDecode enc 0 types (VMap.values g)) "off")
      | _, _ => bad
    else bad
  | ["raw", _, hx] =>
    match parseHex? hx with
    | some d => ((), ans (showUnmarshal true d))
    | none => bad
  | ["imp", _, cl, tsp, fmt, pl] =>
    match parseSpec? tsp, payloadBytes? fmt pl with
    | some tes, some d =>
      let clear := cl = "1"
      let m := vmapOfEntries tes
      let showRows (rows : List (Nat × Int)) : String :=
        "[" ++ " ".intercalate (rows.map (fun rd => s!"{rd.1}:{rd.2}")) ++ "]"
      let model :=
        match importBits m d clear with
        | .ok (m', ch) => s!"ok changed={ch} v=" ++ showValues m'.values
            ++ " rows=" ++ showRows (importRowSet m d clear 16)
        | .err e => "err:" ++ e.name ++ " v=" ++ showValues m.values
        | .panic s => "panic:" ++ s
      let spec :=
        match unmarshal d with
        | .ok (r, _) =>
          let s := r.vals.values
          let t := m.values
          let res := if clear then Spec.diff t s else Spec.union t s
          -- per row (2^20 values = 16 containers): how many bits the row gained (lost: negative)
          let rowsOf (vs : List Nat) : List Nat := (vs.map (· / 1048576)).eraseDups
          let cnt (vs : List Nat) (r : Nat) : Int := ((vs.filter (· / 1048576 = r)).length : Int)
          let rs := ((rowsOf t ++ rowsOf res).eraseDups.mergeSort (· ≤ ·)).filterMap (fun r =>
            let dl := cnt res r - cnt t r
            if dl = 0 then none else some (r, dl))
          s!"ok changed={Spec.delta t res} v=" ++ showRanges res ++ " rows=" ++ showRows rs
        | _ => model
      ((), ans2 model spec "imp")
    | _, _ => bad
  | _ => bad

def main : IO Unit := run () step
