/-
L0 wire layer for C04/C06: byte strings, little-endian integers, checked slicing with an
explicit `panic <site>` outcome, fnv32a.  Core Lean only (linked into pm_c04 / pm_c06).

A Go `[]byte` is a `List Nat` whose elements are < 256 (`bytesOk`).  The harness hands the real
code buffers with `cap == len` that end at an unmapped page, so every Go slice expression
`d[lo:hi]` with `hi > len(d)` and every unchecked view past the end faults; the model's `sub`
/ `view` therefore panic exactly when the access leaves `[0, len)`.
-/
namespace PV.C04

abbrev Bytes := List Nat

def bytesOk (d : Bytes) : Prop := ∀ b ∈ d, b < 256

/-- `k` little-endian bytes of `n` (the low `8k` bits: Go's `PutUintXX` of a wrapped value). -/
def leBytes : Nat → Nat → Bytes
  | 0, _ => []
  | k + 1, n => n % 256 :: leBytes k (n / 256)

/-- Little-endian value of a byte string. -/
def leVal : Bytes → Nat
  | [] => 0
  | b :: bs => b + 256 * leVal bs

/-- Error classes of the decoders (the harness maps the Go error texts to the same names). -/
inductive Err
  | tooSmall | badMagic | badVersion | hdrOverrun | offsOverrun | offsetOOB | contOOB | badType
  | isRunOverrun | tooMany | offsIncomplete | badCookie
  | opShort | opBatchTooBig | opTruncated | opUnknown | opChecksum
  | iterOffset | iterSize | noData | illFormed
  deriving DecidableEq, Repr, Inhabited

def Err.name : Err → String
  | .tooSmall => "too-small" | .badMagic => "bad-magic" | .badVersion => "bad-version"
  | .hdrOverrun => "hdr-overrun" | .offsOverrun => "offs-overrun" | .offsetOOB => "offset-oob"
  | .contOOB => "cont-oob" | .badType => "bad-type" | .isRunOverrun => "isrun-overrun"
  | .tooMany => "too-many" | .offsIncomplete => "offs-incomplete" | .badCookie => "bad-cookie"
  | .opShort => "op-short" | .opBatchTooBig => "op-batch-too-big" | .opTruncated => "op-truncated"
  | .opUnknown => "op-unknown" | .opChecksum => "op-checksum"
  | .iterOffset => "iter-offset" | .iterSize => "iter-size" | .noData => "no-data"
  | .illFormed => "ill-formed"

/-- Outcome of a decoder: a value, a Go `error`, or a Go panic / out-of-bounds read at a named
site.  Never a default value. -/
inductive Res (α : Type)
  | ok (a : α)
  | err (e : Err)
  | panic (site : String)
  deriving Repr, DecidableEq

namespace Res
def bind {α β : Type} (r : Res α) (f : α → Res β) : Res β :=
  match r with
  | ok a => f a
  | err e => err e
  | panic s => panic s

instance : Monad Res where
  pure := ok
  bind := bind

def isPanic {α : Type} : Res α → Bool
  | panic _ => true
  | _ => false
end Res

/-- Go `d[lo:hi]` on a slice with `cap == len`. -/
def sub (site : String) (d : Bytes) (lo hi : Nat) : Res Bytes :=
  if lo ≤ hi ∧ hi ≤ d.length then .ok ((d.drop lo).take (hi - lo)) else .panic site

/-- Go `d[i]`. -/
def at1 (site : String) (d : Bytes) (i : Nat) : Res Nat :=
  match d[i]? with
  | some b => .ok b
  | none => .panic site

/-- `binary.LittleEndian.UintXX(d[lo:lo+k])`. -/
def rd (site : String) (d : Bytes) (lo k : Nat) : Res Nat := do
  let s ← sub site d lo (lo + k)
  pure (leVal s)

/-- An unchecked view `(*[N]T)(unsafe.Pointer(&d[off]))[:n:n]` of `nbytes` bytes: `&d[off]`
panics when `off ≥ len`, and reading the view past the end of the buffer is an out-of-bounds
read (reported as a panic at `site`). -/
def view (site : String) (d : Bytes) (off nbytes : Nat) : Res Bytes :=
  if off < d.length ∧ off + nbytes ≤ d.length then .ok ((d.drop off).take nbytes)
  else .panic site

/-- fnv32a over a byte string, starting from hash state `h`. -/
def fnvStep (h b : Nat) : Nat := ((h ^^^ b) * 16777619) % 4294967296
def fnv32aFrom (h : Nat) (d : Bytes) : Nat := d.foldl fnvStep h
def fnvInit : Nat := 2166136261
def fnv32a (d : Bytes) : Nat := fnv32aFrom fnvInit d

/-! ### hex -/

def hexDigit? (c : Char) : Option Nat :=
  if '0' ≤ c ∧ c ≤ '9' then some (c.toNat - '0'.toNat)
  else if 'a' ≤ c ∧ c ≤ 'f' then some (c.toNat - 'a'.toNat + 10)
  else if 'A' ≤ c ∧ c ≤ 'F' then some (c.toNat - 'A'.toNat + 10)
  else none

def hexList? : List Char → Option Bytes
  | [] => some []
  | [_] => none
  | a :: b :: rest => do
    let x ← hexDigit? a
    let y ← hexDigit? b
    let r ← hexList? rest
    pure ((x * 16 + y) :: r)

/-- `-` is the empty string. -/
def parseHex? (s : String) : Option Bytes :=
  if s = "-" then some [] else hexList? s.toList

end PV.C04
