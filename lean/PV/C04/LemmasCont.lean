/-
Helper lemmas for C04: container contents (bitmap bytes <-> values, runs <-> values), and
`Container.optimize` at the value level.  Core Lean only.
-/
import PV.C04.LemmasSet
import PV.C04.Lemmas
namespace PV.C04

/-! ### bitmap bytes -/

theorem bits_bools : ∀ b0 b1 b2 b3 b4 b5 b6 b7 : Bool,
    bitsOfByte 0 ((if b0 then 1 else 0) + ((if b1 then 2 else 0) + ((if b2 then 4 else 0) + ((if b3 then 8 else 0)
      + ((if b4 then 16 else 0) + ((if b5 then 32 else 0) + ((if b6 then 64 else 0) + ((if b7 then 128 else 0) + 0))))))))
    = [(b0, 0), (b1, 1), (b2, 2), (b3, 3), (b4, 4), (b5, 5), (b6, 6), (b7, 7)].filterMap
        (fun p => if p.1 then some p.2 else none) := by
  decide

theorem bitsOfByte_shift (base b : Nat) : bitsOfByte base b = (bitsOfByte 0 b).map (base + ·) := by
  unfold bitsOfByte
  split
  · rfl
  · rw [List.map_filterMap]
    congr 1
    funext t
    split <;> simp

theorem bitsOfByte_byteOf (base : Nat) (here : List Nat) :
    bitsOfByte base (byteOf base here) = (List.range' base 8).filter (fun v => here.contains v) := by
  rw [bitsOfByte_shift]
  unfold byteOf
  have hr : List.range 8 = [0, 1, 2, 3, 4, 5, 6, 7] := by decide
  have hr' : List.range' base 8 = [base, base+1, base+2, base+3, base+4, base+5, base+6, base+7] := by
    simp [List.range']
  rw [hr, hr']
  simp only [List.map_cons, List.map_nil, List.sum_cons, List.sum_nil]
  have := bits_bools (here.contains (base + 0)) (here.contains (base + 1)) (here.contains (base + 2))
    (here.contains (base + 3)) (here.contains (base + 4)) (here.contains (base + 5))
    (here.contains (base + 6)) (here.contains (base + 7))
  simp only [Nat.pow_zero, Nat.pow_one, Nat.reducePow] at *
  rw [this]
  simp only [List.filterMap_cons, List.filterMap_nil, List.filter_cons, List.filter_nil, Nat.add_zero]
  cases here.contains base <;> cases here.contains (base + 1) <;> cases here.contains (base + 2) <;>
  cases here.contains (base + 3) <;> cases here.contains (base + 4) <;> cases here.contains (base + 5) <;>
  cases here.contains (base + 6) <;> cases here.contains (base + 7) <;> rfl

theorem filter_false_eq_nil (l : List Nat) : l.filter (fun v => ([] : List Nat).contains v) = [] := by
  induction l with
  | nil => rfl
  | cons a r ih => simp

theorem filter_range'_contains (n : Nat) : ∀ (l : List Nat) (base : Nat), Asc l →
    (∀ v ∈ l, base ≤ v ∧ v < base + n) →
    (List.range' base n).filter (fun v => l.contains v) = l := by
  induction n with
  | zero =>
    intro l base _ hb
    cases l with
    | nil => rfl
    | cons a r => have := hb a (by simp); omega
  | succ n ih =>
    intro l base ha hb
    rw [List.range'_succ, List.filter_cons]
    cases l with
    | nil => simp
    | cons a r =>
      have ha' := List.pairwise_cons.mp ha
      have hba := hb a (by simp)
      by_cases hab : a = base
      · subst hab
        rw [if_pos (by simp)]
        congr 1
        have hcongr : (List.range' (a + 1) n).filter (fun v => (a :: r).contains v)
            = (List.range' (a + 1) n).filter (fun v => r.contains v) := by
          apply List.filter_congr
          intro v hv
          have := (List.mem_range'_1.mp hv).1
          simp only [List.contains_cons]
          have : (v == a) = false := by simp; omega
          rw [this]; simp
        rw [hcongr]
        apply ih r (a + 1) ha'.2
        intro v hv
        have := ha'.1 v hv
        have := (hb v (by simp [hv])).2
        omega
      · have hlt : base < a := by omega
        rw [if_neg (by
          simp only [List.contains_eq_mem, decide_eq_true_eq]
          intro hmem
          rcases List.mem_cons.mp hmem with e | e
          · omega
          · have := ha'.1 base e; omega)]
        apply ih (a :: r) (base + 1) ha
        intro v hv
        have h1 := hb v hv
        rcases List.mem_cons.mp hv with e | e
        · subst e; omega
        · have := ha'.1 v e; omega

theorem takeWhile_lt (c : Nat) (vs : List Nat) : ∀ v ∈ vs.takeWhile (· < c), v < c := by
  induction vs with
  | nil => simp
  | cons a r ih =>
    rw [List.takeWhile_cons]
    split
    · next h =>
      intro v hv
      rcases List.mem_cons.mp hv with e | e
      · subst e; simpa using h
      · exact ih v e
    · simp

theorem dropWhile_ge (c : Nat) (vs : List Nat) (ha : Asc vs) : ∀ v ∈ vs.dropWhile (· < c), c ≤ v := by
  induction vs with
  | nil => simp
  | cons a r ih =>
    have ha' := List.pairwise_cons.mp ha
    rw [List.dropWhile_cons]
    split
    · exact ih ha'.2
    · next h =>
      intro v hv
      have hca : c ≤ a := by simpa using h
      rcases List.mem_cons.mp hv with e | e
      · omega
      · have := ha'.1 v e; omega

theorem packFrom_length (k base : Nat) (vs : List Nat) : (packFrom k base vs).length = k := by
  induction k generalizing base vs with
  | zero => rfl
  | succ k ih => simp [packFrom, ih]

theorem bitmapValuesFrom_packFrom (k : Nat) : ∀ (base : Nat) (vs : List Nat), Asc vs →
    (∀ v ∈ vs, base ≤ v ∧ v < base + 8 * k) →
    bitmapValuesFrom base (packFrom k base vs) = vs := by
  induction k with
  | zero =>
    intro base vs _ hb
    cases vs with
    | nil => rfl
    | cons a r => have := hb a (by simp); omega
  | succ k ih =>
    intro base vs ha hb
    simp only [packFrom, bitmapValuesFrom]
    rw [bitsOfByte_byteOf]
    have hhere : (List.range' base 8).filter (fun v => (vs.takeWhile (· < base + 8)).contains v)
        = vs.takeWhile (· < base + 8) := by
      apply filter_range'_contains 8 _ base (ha.sublist (List.takeWhile_sublist _))
      intro v hv
      have h1 := takeWhile_lt (base + 8) vs v hv
      have h2 := hb v ((List.takeWhile_sublist _).subset hv)
      omega
    rw [hhere]
    rw [ih (base + 8) (vs.dropWhile (· < base + 8)) (ha.sublist (List.dropWhile_sublist _))]
    · exact List.takeWhile_append_dropWhile
    · intro v hv
      have h1 := dropWhile_ge (base + 8) vs ha v hv
      have h2 := hb v ((List.dropWhile_sublist _).subset hv)
      omega

theorem bitsOfByte_ok (base b : Nat) :
    Asc (bitsOfByte base b) ∧ ∀ v ∈ bitsOfByte base b, base ≤ v ∧ v < base + 8 := by
  unfold bitsOfByte
  split
  · simp
  · constructor
    · apply List.Pairwise.filterMap (R := (· < ·)) _ _ List.pairwise_lt_range
      intro a a' haa' b hb b' hb'
      split at hb <;> split at hb' <;> simp at hb hb'
      omega
    · intro v hv
      obtain ⟨t, ht, hv⟩ := List.mem_filterMap.mp hv
      have := List.mem_range.mp ht
      split at hv <;> simp at hv
      omega

theorem bitmapValuesFrom_ok (bs : Bytes) : ∀ base,
    Asc (bitmapValuesFrom base bs) ∧ ∀ v ∈ bitmapValuesFrom base bs, base ≤ v ∧ v < base + 8 * bs.length := by
  induction bs with
  | nil => intro base; simp [bitmapValuesFrom]
  | cons b r ih =>
    intro base
    have h1 := bitsOfByte_ok base b
    have h2 := ih (base + 8)
    simp only [bitmapValuesFrom]
    constructor
    · refine List.pairwise_append.mpr ⟨h1.1, h2.1, ?_⟩
      intro a ha c hc
      have := h1.2 a ha; have := h2.2 c hc; omega
    · intro v hv
      simp only [List.length_cons]
      rcases List.mem_append.mp hv with e | e
      · have := h1.2 v e; omega
      · have := h2.2 v e; omega

/-! ### runs -/

structure RunsOk (rs : List (Nat × Nat)) : Prop where
  sep : rs.Pairwise (fun a b => a.2 < b.1)
  each : ∀ r ∈ rs, r.1 ≤ r.2 ∧ r.2 < 65536

theorem mem_runValues (rs : List (Nat × Nat)) (x : Nat) :
    x ∈ runValues rs ↔ ∃ r ∈ rs, r.1 ≤ x ∧ x ≤ r.2 := by
  unfold runValues
  simp only [List.mem_flatMap, List.mem_range'_1]
  constructor
  · rintro ⟨r, hr, h1, h2⟩; exact ⟨r, hr, h1, by omega⟩
  · rintro ⟨r, hr, h1, h2⟩; exact ⟨r, hr, h1, by omega⟩

theorem runValues_cons (r : Nat × Nat) (t : List (Nat × Nat)) :
    runValues (r :: t) = List.range' r.1 (r.2 + 1 - r.1) ++ runValues t := by
  simp [runValues]

theorem runValues_ok (rs : List (Nat × Nat)) (h : RunsOk rs) :
    Asc (runValues rs) ∧ ∀ v ∈ runValues rs, v < 65536 := by
  constructor
  · induction rs with
    | nil => simp [runValues]
    | cons r t ih =>
      have hs := List.pairwise_cons.mp h.sep
      rw [runValues_cons]
      refine List.pairwise_append.mpr ⟨List.pairwise_lt_range', ih ⟨hs.2, fun x hx => h.each x (by simp [hx])⟩, ?_⟩
      intro a ha b hb
      have ha' := List.mem_range'_1.mp ha
      obtain ⟨r', hr', h1, h2⟩ := (mem_runValues t b).mp hb
      have := hs.1 r' hr'
      have := h.each r (by simp)
      omega
  · intro v hv
    obtain ⟨r, hr, h1, h2⟩ := (mem_runValues rs v).mp hv
    have := h.each r hr
    omega

theorem toRunsAcc_values (vs : List Nat) : ∀ s l, s ≤ l → Asc (l :: vs) →
    runValues (toRunsAcc s l vs) = List.range' s (l + 1 - s) ++ vs := by
  induction vs with
  | nil => intro s l _ _; simp [toRunsAcc, runValues]
  | cons v r ih =>
    intro s l hsl ha
    have ha' := List.pairwise_cons.mp ha
    have hlv : l < v := ha'.1 v (by simp)
    simp only [toRunsAcc]
    split
    · next h =>
      rw [ih s v (by omega) ha'.2]
      have : v + 1 - s = (l + 1 - s) + 1 := by omega
      rw [this, List.range'_concat]
      simp only [List.append_assoc, List.cons_append, List.nil_append, Nat.one_mul]
      congr 2
      omega
    · next h =>
      rw [runValues_cons, ih v v (Nat.le_refl _) ha'.2]
      simp

theorem toRuns_values (vs : List Nat) (ha : Asc vs) : runValues (toRuns vs) = vs := by
  cases vs with
  | nil => rfl
  | cons v r =>
    simp only [toRuns]
    rw [toRunsAcc_values r v v (Nat.le_refl _) ha]
    simp

theorem toRunsAcc_start (vs : List Nat) : ∀ s l, s ≤ l → Asc (l :: vs) →
    ∀ b ∈ toRunsAcc s l vs, s ≤ b.1 ∧ b.1 ≤ b.2 ∧ (∀ v ∈ l :: vs, b.2 ≤ v ∨ v ≤ b.2) ∧ (b.2 = l ∨ b.2 ∈ vs) := by
  induction vs with
  | nil =>
    intro s l hsl _ b hb
    simp [toRunsAcc] at hb; subst hb
    exact ⟨Nat.le_refl _, hsl, fun v _ => by omega, Or.inl rfl⟩
  | cons v r ih =>
    intro s l hsl ha b hb
    have ha' := List.pairwise_cons.mp ha
    have hlv : l < v := ha'.1 v (by simp)
    simp only [toRunsAcc] at hb
    split at hb
    · obtain ⟨h1, h2, _, h4⟩ := ih s v (by omega) ha'.2 b hb
      refine ⟨h1, h2, fun w _ => by omega, ?_⟩
      rcases h4 with e | e
      · exact Or.inr (by simp [e])
      · exact Or.inr (by simp [e])
    · rcases List.mem_cons.mp hb with e | e
      · subst e; exact ⟨Nat.le_refl _, hsl, fun w _ => by omega, Or.inl rfl⟩
      · obtain ⟨h1, h2, _, h4⟩ := ih v v (Nat.le_refl _) ha'.2 b e
        refine ⟨by omega, h2, fun w _ => by omega, ?_⟩
        rcases h4 with e' | e'
        · exact Or.inr (by simp [e'])
        · exact Or.inr (by simp [e'])

theorem toRunsAcc_ok (vs : List Nat) : ∀ s l, s ≤ l → Asc (l :: vs) → (∀ v ∈ l :: vs, v < 65536) →
    RunsOk (toRunsAcc s l vs) := by
  induction vs with
  | nil =>
    intro s l hsl _ hb
    exact ⟨by simp [toRunsAcc], fun r hr => by simp [toRunsAcc] at hr; subst hr; exact ⟨hsl, hb l (by simp)⟩⟩
  | cons v r ih =>
    intro s l hsl ha hb
    have ha' := List.pairwise_cons.mp ha
    have hlv : l < v := ha'.1 v (by simp)
    simp only [toRunsAcc]
    split
    · exact ih s v (by omega) ha'.2 (fun w hw => hb w (by simp [hw]))
    · next hne =>
      have ih' := ih v v (Nat.le_refl _) ha'.2 (fun w hw => hb w (by simp [hw]))
      refine ⟨List.pairwise_cons.mpr ⟨?_, ih'.sep⟩, ?_⟩
      · intro b hb'
        have := (toRunsAcc_start r v v (Nat.le_refl _) ha'.2 b hb').1
        show l < b.1; omega
      · intro b hb'
        rcases List.mem_cons.mp hb' with e | e
        · subst e; exact ⟨hsl, hb l (by simp)⟩
        · exact ih'.each b e

theorem toRunsAcc_length (vs : List Nat) : ∀ s l, (toRunsAcc s l vs).length = countRunsV (l :: vs) := by
  induction vs with
  | nil => intro s l; rfl
  | cons v r ih =>
    intro s l
    simp only [toRunsAcc, countRunsV]
    split
    · rw [ih]; omega
    · rw [List.length_cons, ih]; omega

theorem toRuns_length (vs : List Nat) : (toRuns vs).length = countRunsV vs := by
  cases vs with
  | nil => rfl
  | cons v r => exact toRunsAcc_length r v v

theorem toRuns_ok (vs : List Nat) (ha : Asc vs) (hb : ∀ v ∈ vs, v < 65536) : RunsOk (toRuns vs) := by
  cases vs with
  | nil => exact ⟨by simp [toRuns], by simp [toRuns]⟩
  | cons v r => exact toRunsAcc_ok r v v (Nat.le_refl _) ha hb

theorem toRunsAcc_ne_nil (vs : List Nat) : ∀ s l, toRunsAcc s l vs ≠ [] := by
  induction vs with
  | nil => intro s l; simp [toRunsAcc]
  | cons v r ih =>
    intro s l
    simp only [toRunsAcc]
    split
    · exact ih s v
    · simp

theorem toRuns_ne_nil (vs : List Nat) (h : vs ≠ []) : toRuns vs ≠ [] := by
  cases vs with
  | nil => exact absurd rfl h
  | cons v r => exact toRunsAcc_ne_nil r v v

/-! ### well-formed source containers and Optimize -/

/-- A container as the kernels keep it, with cardinality `n`. -/
def ContWf (n : Nat) : Cont → Prop
  | .array vs => Asc vs ∧ (∀ v ∈ vs, v < 65536) ∧ vs.length = n
  | .bitmap bs => bs.length = bitmapBytes ∧ (bitmapValuesFrom 0 bs).length = n
  | .run rs => RunsOk rs ∧ (runValues rs).length = n

/-- `key`: container keys are `value >> 16` of a uint64 value. -/
structure EntryWf (e : Entry) : Prop where
  c : ContWf e.n e.c
  key : e.key < 2 ^ 48

theorem EntryWf.key64 {e : Entry} (h : EntryWf e) : e.key < 2 ^ 64 :=
  Nat.lt_trans h.key (by decide)

theorem ContWf.values_ok {n : Nat} {c : Cont} (h : ContWf n c) :
    Asc c.values ∧ (∀ v ∈ c.values, v < 65536) ∧ c.values.length = n := by
  cases c with
  | array vs => exact h
  | bitmap bs =>
    have := bitmapValuesFrom_ok bs 0
    refine ⟨this.1, fun v hv => ?_, h.2⟩
    have h2 := (this.2 v hv).2
    have : bs.length = 8192 := h.1
    omega
  | run rs =>
    have := runValues_ok rs h.1
    exact ⟨this.1, this.2, h.2⟩

theorem optType_run (n r : Nat) (h : optType n r = cRun) : r ≤ 2048 := by
  unfold optType at h
  by_cases h1 : r ≤ runMaxSize ∧ r ≤ n / 2
  · exact h1.1
  · rw [if_neg h1] at h
    by_cases h2 : n < arrayMaxSize
    · rw [if_pos h2] at h; simp [cRun, cArray] at h
    · rw [if_neg h2] at h; simp [cRun, cBitmap] at h

theorem optimize_spec (e : Entry) (he : EntryWf e) (hn : 0 < e.n) :
    ∃ e', e.optimize = some e' ∧ e'.key = e.key ∧ e'.n = e.n ∧ e'.c.values = e.c.values ∧ EntryEnc e' := by
  obtain ⟨hasc, hbound, hlen⟩ := he.c.values_ok
  have hn16 : e.n ≤ 65536 := by rw [← hlen]; exact asc_length_le _ hasc hbound
  have hne : e.c.values ≠ [] := by intro h; rw [h] at hlen; simp at hlen; omega
  unfold Entry.optimize
  rw [if_neg (by omega)]
  simp only []
  split
  · next ht =>
    -- unchanged
    refine ⟨e, rfl, rfl, rfl, rfl, ?_⟩
    refine ⟨?_, hn, hn16, he.key64, ?_⟩
    · cases hc : e.c with
      | array vs => have := he.c; rw [hc] at this; exact this.2.1
      | bitmap bs => have := he.c; rw [hc] at this; exact this.1
      | run rs =>
        have hw := he.c; rw [hc] at hw
        rw [hc] at ht hne
        have := optType_run _ _ ht
        simp only [Cont.countRuns] at this
        refine ⟨?_, by omega, fun r hr => ?_⟩
        · intro h; subst h; exact hne rfl
        · have := hw.1.each r hr; omega
    · intro vs hc; have := he.c; rw [hc] at this; exact this.2.2
  · next ht =>
    refine ⟨_, rfl, rfl, rfl, ?_, ?_⟩
    · -- values preserved
      simp only [Cont.ofValues]
      split
      · exact toRuns_values _ hasc
      · split
        · rfl
        · exact bitmapValuesFrom_packFrom bitmapBytes 0 _ hasc (fun v hv => ⟨Nat.zero_le _, by
            have := hbound v hv; simp only [bitmapBytes]; omega⟩)
    · refine ⟨?_, hn, hn16, he.key64, ?_⟩
      · simp only [Cont.ofValues]
        split
        · next h3 =>
          -- converted to run: the source is an array or a bitmap, runs were recounted
          have hrun : e.c.countRuns = countRunsV e.c.values := by
            cases hc : e.c with
            | array vs => rfl
            | bitmap bs => rfl
            | run rs => rw [hc] at ht h3; simp [Cont.typ] at ht; exact absurd h3 ht
          have hok := toRuns_ok _ hasc hbound
          refine ⟨toRuns_ne_nil _ hne, ?_, fun r hr => ?_⟩
          · rw [toRuns_length, ← hrun]
            have := optType_run _ _ h3
            omega
          · have := hok.each r hr; omega
        · split
          · exact hbound
          · exact packFrom_length _ _ _
      · intro vs hc
        simp only [Cont.ofValues] at hc
        split at hc
        · simp at hc
        · split at hc
          · simp only [Cont.array.injEq] at hc; rw [← hc]; exact hlen
          · simp at hc

theorem optimize_none (e : Entry) (he : EntryWf e) (hn : e.n = 0) :
    e.optimize = none ∧ e.values = [] := by
  obtain ⟨_, _, hlen⟩ := he.c.values_ok
  constructor
  · unfold Entry.optimize; rw [if_pos hn]
  · unfold Entry.values
    have : e.c.values = [] := List.length_eq_zero_iff.mp (by omega)
    rw [this]; rfl

structure BitmapWf (b : Bitmap) : Prop where
  entries : ∀ e ∈ b.cs, EntryWf e
  keys : b.cs.Pairwise (fun a b => a.key < b.key)

theorem optimize_cs (cs : List Entry) (hw : ∀ e ∈ cs, EntryWf e) (hk : cs.Pairwise (fun a b => a.key < b.key)) :
    (∀ e' ∈ cs.filterMap Entry.optimize, EntryEnc e' ∧ 0 < e'.n)
    ∧ (cs.filterMap Entry.optimize).Pairwise (fun a b => a.key < b.key)
    ∧ (cs.filterMap Entry.optimize).flatMap Entry.values = cs.flatMap Entry.values
    ∧ (∀ e' ∈ cs.filterMap Entry.optimize, ∃ e ∈ cs, e'.key = e.key ∧ e'.n = e.n ∧ e'.c.values = e.c.values) := by
  induction cs with
  | nil => simp
  | cons e t ih =>
    have hk' := List.pairwise_cons.mp hk
    obtain ⟨i1, i2, i3, i4⟩ := ih (fun x hx => hw x (by simp [hx])) hk'.2
    by_cases hn : e.n = 0
    · obtain ⟨h1, h2⟩ := optimize_none e (hw e (by simp)) hn
      rw [List.filterMap_cons, h1]
      refine ⟨i1, i2, ?_, ?_⟩
      · rw [i3, List.flatMap_cons, h2]; rfl
      · intro e' he'
        obtain ⟨x, hx, hxe⟩ := i4 e' he'
        exact ⟨x, by simp [hx], hxe⟩
    · obtain ⟨e', h1, h2, h3, h4, h5⟩ := optimize_spec e (hw e (by simp)) (by omega)
      rw [List.filterMap_cons, h1]
      refine ⟨?_, ?_, ?_, ?_⟩
      · intro x hx
        rcases List.mem_cons.mp hx with e1 | e1
        · subst e1; exact ⟨h5, by omega⟩
        · exact i1 x e1
      · refine List.pairwise_cons.mpr ⟨?_, i2⟩
        intro x hx
        obtain ⟨y, hy, hxy, _⟩ := i4 x hx
        have := hk'.1 y hy
        show e'.key < x.key
        omega
      · rw [List.flatMap_cons, List.flatMap_cons, i3]
        have : e'.values = e.values := by unfold Entry.values; rw [h4, h2]
        rw [this]
      · intro x hx
        rcases List.mem_cons.mp hx with e1 | e1
        · subst e1; exact ⟨e, by simp, h2, h3, h4⟩
        · obtain ⟨y, hy, hxy⟩ := i4 x e1
          exact ⟨y, by simp [hy], hxy⟩

theorem values_entriesToVMap (cs : List Entry) : VMap.values (entriesToVMap cs) = cs.flatMap Entry.values := by
  induction cs with
  | nil => rfl
  | cons e t ih =>
    simp only [entriesToVMap, List.map_cons, VMap.values, List.flatMap_cons] at ih ⊢
    rw [ih]; rfl

theorem filter_npos_eq (cs : List Entry) (h : ∀ e ∈ cs, 0 < e.n) : cs.filter (fun e => e.n > 0) = cs := by
  apply List.filter_eq_self.mpr
  intro e he
  simpa using h e he

/-- Round trip of `Bitmap.WriteTo` through `unmarshalPilosa`, at the representation level. -/
theorem unmarshalPilosa_encodeP (b : Bitmap) (hb : BitmapWf b) (hsize : (encodeP b).length < 2 ^ 32) :
    unmarshalPilosa (encodeP b) =
      .ok { flags := b.flags % 256, cs := b.optimize.cs, vals := entriesToVMap b.optimize.cs, ops := 0, opN := 0 }
    ∧ b.optimize.cs.flatMap Entry.values = b.values := by
  obtain ⟨h1, h2, h3, _⟩ := optimize_cs b.cs hb.entries hb.keys
  have hf : b.optimize.cs.filter (fun e => e.n > 0) = b.optimize.cs :=
    filter_npos_eq _ (fun e he => (h1 e he).2)
  have := unmarshalPilosa_writeUnopt b.optimize
    (by rw [hf]; exact fun e he => (h1 e he).1) (by rw [hf]; exact h2) hsize
  rw [hf] at this
  exact ⟨this, h3⟩

theorem unmarshal_eq (d : Bytes) (h8 : 8 ≤ d.length) :
    unmarshal d = (do
      let magic ← rd "unmarshal.magic" d 0 2
      let r ← if magic = magicPilosa then unmarshalPilosa d else unmarshalOfficial d
      pure (r, d)) := by
  unfold unmarshal
  rw [if_neg (by omega)]

theorem encodeP_head (b : Bitmap) :
    ∃ rest, encodeP b = leBytes 2 12348 ++ rest ∧ 8 ≤ (encodeP b).length := by
  unfold encodeP
  rw [writeUnopt_eq]
  refine ⟨[0, b.optimize.flags % 256] ++ leBytes 4 (List.filter (fun e => decide (e.n > 0)) b.optimize.cs).length ++
        (List.flatMap encHeader (List.filter (fun e => decide (e.n > 0)) b.optimize.cs) ++
          (encOffsets (8 + (List.filter (fun e => decide (e.n > 0)) b.optimize.cs).length * 16)
              (List.filter (fun e => decide (e.n > 0)) b.optimize.cs) ++
            List.flatMap (fun e => e.c.payload) (List.filter (fun e => decide (e.n > 0)) b.optimize.cs))), ?_, ?_⟩
  · simp [leBytes]
  · simp [leBytes_length]

/-- `UnmarshalBinary(WriteTo(b))`. -/
theorem unmarshal_encodeP (b : Bitmap) (hb : BitmapWf b) (hsize : (encodeP b).length < 2 ^ 32) :
    unmarshal (encodeP b) =
      .ok ({ flags := b.flags % 256, cs := b.optimize.cs, vals := entriesToVMap b.optimize.cs, ops := 0, opN := 0 },
           encodeP b) := by
  obtain ⟨rest, hrest, h8⟩ := encodeP_head b
  rw [unmarshal_eq _ h8]
  have : rd "unmarshal.magic" (encodeP b) 0 2 = .ok 12348 :=
    rd_of_drop _ _ rest 0 2 12348 (by rw [hrest]; rfl) (by omega) (by decide)
  rw [this]
  simp only [Res.ok_bind, magicPilosa, ↓reduceIte]
  rw [(unmarshalPilosa_encodeP b hb hsize).1]
  rfl

theorem itemOf_ok (e : Entry) (he : EntryWf e) : ItemOk (itemOf e) := by
  obtain ⟨h1, h2, h3⟩ := he.c.values_ok
  exact ⟨h1, h2, h3.symm⟩

theorem strictAsc_asc (l : List Nat) (h : strictAsc l = true) : Asc l := by
  induction l with
  | nil => simp
  | cons a r ih =>
    cases r with
    | nil => simp
    | cons b r' =>
      simp only [strictAsc, Bool.and_eq_true, decide_eq_true_eq] at h
      have ih' := ih h.2
      refine List.pairwise_cons.mpr ⟨?_, ih'⟩
      intro x hx
      rcases List.mem_cons.mp hx with e | e
      · omega
      · have := (List.pairwise_cons.mp ih').1 x e; omega

theorem runsOk_sep (rs : List (Nat × Nat)) (h : runsOk rs = true) :
    rs.Pairwise (fun a b => a.2 < b.1) ∧ ∀ r ∈ rs, r.1 ≤ r.2 := by
  induction rs with
  | nil => simp
  | cons a r ih =>
    cases r with
    | nil =>
      simp only [runsOk, decide_eq_true_eq] at h
      exact ⟨by simp, fun x hx => by simp at hx; subst hx; exact h⟩
    | cons b r' =>
      simp only [runsOk, Bool.and_eq_true, decide_eq_true_eq] at h
      obtain ⟨i1, i2⟩ := ih h.2
      refine ⟨List.pairwise_cons.mpr ⟨?_, i1⟩, ?_⟩
      · intro x hx
        rcases List.mem_cons.mp hx with e | e
        · subst e; exact h.1.2
        · have h1 := (List.pairwise_cons.mp i1).1 x e
          have h2 := i2 b (by simp)
          have := h.1.2
          show a.2 < x.1; omega
      · intro x hx
        rcases List.mem_cons.mp hx with e | e
        · subst e; exact h.1.1
        · exact i2 x e

theorem wf_contWf (n : Nat) (c : Cont) (h : c.wf n = true) : ContWf n c := by
  cases c with
  | array vs =>
    simp only [Cont.wf, Bool.and_eq_true, beq_iff_eq, List.all_eq_true, decide_eq_true_eq] at h
    exact ⟨strictAsc_asc vs h.1.1, h.2, h.1.2⟩
  | bitmap bs =>
    simp only [Cont.wf, Bool.and_eq_true, beq_iff_eq] at h
    exact ⟨h.1, h.2⟩
  | run rs =>
    simp only [Cont.wf, Bool.and_eq_true, beq_iff_eq, List.all_eq_true, decide_eq_true_eq, bne_iff_ne, ne_eq] at h
    obtain ⟨s1, s2⟩ := runsOk_sep rs h.1.1.2
    exact ⟨⟨s1, fun r hr => ⟨s2 r hr, h.2 r hr⟩⟩, h.1.2⟩

theorem wf_itemOk (it : Item) (h : it.c.wf it.n = true) : ItemOk it := by
  obtain ⟨h1, h2, h3⟩ := (wf_contWf it.n it.c h).values_ok
  exact ⟨h1, h2, h3.symm⟩

theorem walkVerdict_none (w : Walk) (h : walkVerdict w = none) :
    w.err = none ∧ ∀ it ∈ w.items, ItemOk it := by
  unfold walkVerdict at h
  split at h
  · next hall =>
    refine ⟨h, fun it hit => wf_itemOk it ?_⟩
    exact List.all_eq_true.mp hall it hit
  · cases h

end PV.C04
