/-
Abstract specification for C04: sets of naturals as strictly ascending lists, union /
difference, and a reference encoder for the OFFICIAL Roaring format
(https://github.com/RoaringBitmap/RoaringFormatSpec), written from the format description and
independent of Pilosa's decoder.  Core Lean only.
-/
import PV.C04.Model
namespace PV.C04.Spec
open PV.C04

/-- Sets are strictly ascending lists. -/
abbrev Set := List Nat

def union (a b : Set) : Set := unionAsc a b
def diff (a b : Set) : Set := diffAsc a b
/-- Number of elements in which two sets differ when one contains the other. -/
def delta (a b : Set) : Nat := if a.length ≤ b.length then b.length - a.length else a.length - b.length

/-! ### reference encoder for the official format

Input: the set grouped by its high 16 bits: `(key, ascending low values)` with ascending keys
and non-empty value lists (`groupsOk`).  `mode` chooses the container encodings, all of them
valid in the format: 0 = arrays/bitmaps only (cookie 12346); 1 = run containers where the run
encoding is smaller (what `runOptimize` does); 2 = every container as a run container. -/

def useRun (mode : Nat) (vs : List Nat) : Bool :=
  mode = 2 || (mode = 1 && 2 + 4 * (toRuns vs).length < min (2 * vs.length) 8192)

/-- Payload of one container. Arrays hold up to and including 4096 values. -/
def payload (mode : Nat) (vs : List Nat) : Bytes :=
  if useRun mode vs then
    leBytes 2 (toRuns vs).length ++ (toRuns vs).flatMap (fun r => leBytes 2 r.1 ++ leBytes 2 (r.2 - r.1))
  else if vs.length ≤ 4096 then vs.flatMap (leBytes 2)
  else packFrom 8192 0 vs

/-- Bit `i` of a bit list (0 past its end). -/
def bitAt (bs : List Bool) (i : Nat) : Nat := if bs.getD i false then 1 else 0

/-- Bits packed eight to a byte, least significant first: byte `j` holds bits `8j .. 8j+7`. -/
def packBits (bs : List Bool) : Bytes :=
  (List.range ((bs.length + 7) / 8)).map (fun j =>
    bitAt bs (8 * j) + 2 * bitAt bs (8 * j + 1) + 4 * bitAt bs (8 * j + 2) + 8 * bitAt bs (8 * j + 3)
      + 16 * bitAt bs (8 * j + 4) + 32 * bitAt bs (8 * j + 5) + 64 * bitAt bs (8 * j + 6) + 128 * bitAt bs (8 * j + 7))

def offsetsFrom : Nat → List Bytes → Bytes
  | _, [] => []
  | off, p :: r => leBytes 4 off ++ offsetsFrom (off + p.length) r

def encodeOfficial (mode : Nat) (g : VMap) : Bytes :=
  let n := g.length
  let isRun := g.map (fun kv => useRun mode kv.2)
  let anyRun := isRun.any id
  let cookie := if anyRun then leBytes 2 cookieRun ++ leBytes 2 (n - 1) ++ packBits isRun
                else leBytes 4 cookieNoRun ++ leBytes 4 n
  let desc := g.flatMap (fun kv => leBytes 2 kv.1 ++ leBytes 2 (kv.2.length - 1))
  let pls := g.map (fun kv => payload mode kv.2)
  let hasOffsets := !anyRun || n ≥ 4
  let base := cookie.length + desc.length + (if hasOffsets then 4 * n else 0)
  cookie ++ desc ++ (if hasOffsets then offsetsFrom base pls else []) ++ pls.flatten

/-- Well-formed grouping: ascending keys < 65536, each group ascending, non-empty, < 65536. -/
def groupsOk (g : VMap) : Bool :=
  strictAsc (g.map (·.1)) && g.all (fun kv => kv.1 < 65536 && kv.2 != [] && strictAsc kv.2 && kv.2.all (· < 65536))

end PV.C04.Spec
