/-
C20 specification layer (executable, core only).

The abstract state of a cluster is the *set* of node ids that are currently members (kept as a
duplicate-free list in arbitrary order: join order is deliberately forgotten only at `members`,
which sorts).  The owners of a partition are a function of that set, the replica count and the
partition alone:

  owners = the first min(max(replicas,1), |set|) ids, going round the id-sorted ring, starting at
           the primary chosen by the jump hash of the partition number.

The helper predicates are stated directly on that owner list.
-/
import PV.C20.Model
namespace PV.C20.Spec
open PV.C20

/-- set insert / erase -/
def join (s : List Id) (id : Id) : List Id := if s.contains id then s else id :: s
def leave (s : List Id) (id : Id) : List Id := s.filter (· ≠ id)

/-- The canonical ring: members sorted by id (core merge sort, independent of the model's sort). -/
def members (s : List Id) : List Id := s.mergeSort (fun a b => !idLt b a)

def rotate (l : List Id) (k : Nat) : List Id := l.drop k ++ l.take k

/-- The owners of partition `p`; `none` only when the jump hash diverges (excluded by the
assumption on `next`). -/
def owners (next : Nat → BitVec 64 → Nat) (s : List Id) (replicaN p : Nat) : Option (List Id) :=
  let ring := members s
  let n := ring.length
  if n = 0 then some [] else
  match hash next (BitVec.ofNat 64 p) n with
  | none => none
  | some h => some ((rotate ring (h.toNat % n)).take (min (max replicaN 1) n))

def shardOwners (next : Nat → BitVec 64 → Nat) (s : List Id) (replicaN partitionN : Nat)
    (index : List Nat) (shard : Nat) : Option (List Id) :=
  owners next s replicaN (partition partitionN index shard)

/-- A node owns a shard exactly when it is in the owner list. -/
def owns (next : Nat → BitVec 64 → Nat) (s : List Id) (replicaN partitionN : Nat) (id : Id)
    (index : List Nat) (shard : Nat) : Option Bool :=
  (shardOwners next s replicaN partitionN index shard).map (·.contains id)

/-- The shards (of the given ones) a node holds: filter by `owns`. -/
def contained (next : Nat → BitVec 64 → Nat) (s : List Id) (replicaN partitionN : Nat) (id : Id)
    (index : List Nat) (shards : List Nat) : Option (List Nat) :=
  shards.foldr (fun sh acc => do
      let rest ← acc
      let o ← owns next s replicaN partitionN id index sh
      pure (if o then sh :: rest else rest)) (some [])

/-- Each shard goes to its first owner that is still available; `none` inside = unavailable. -/
def assign (next : Nat → BitVec 64 → Nat) (s : List Id) (replicaN partitionN : Nat) (avail : List Id)
    (index : List Nat) (shards : List Nat) : Option (Option (List (Id × Nat))) :=
  shards.foldr (fun sh acc => do
      let rest ← acc
      let os ← shardOwners next s replicaN partitionN index sh
      pure (match rest, os.find? (avail.contains ·) with
        | some r, some n => some ((n, sh) :: r)
        | _, _ => none)) (some (some []))

end PV.C20.Spec
