/-
C20 model: shard placement in cluster.go (+ executor.go shardsByNode, api.go validateShardOwnership).
Follows the Go code statement by statement; core Lean only.

  addNodeBasicSorted / removeNodeBasicSorted   node list = list of node ids, sorted by Go string `<`
  cluster.partition                            fnv64a(index bytes ++ big-endian shard) mod partitionN
  jmphasher.Hash                               the Go loop; the float expression is the parameter `next`
  partitionNodes                               replica clamp + ring walk (after the fix of the clamp order)
  shardNodes / ownsShard / containsShards      cluster.go
  shardsByNode                                 executor.go
  validateShardOwnership                       api.go

A node id is the list of its bytes (`Id = List Nat`); `idLt` is Go's string comparison (bytewise
lexicographic).  Only ids matter for placement: URI / State / IsCoordinator of a node are updated in
place by addNodeBasicSorted and never move a node, so they are not part of the model.
uint64 arithmetic inside fnv and the jump-hash key update is `BitVec 64` (wrap-around matters there);
everything else is `Nat` / `Int`.
-/
namespace PV.C20

abbrev Id := List Nat

/-- Go `a < b` on strings: bytewise lexicographic. -/
def idLt : Id → Id → Bool
  | [], [] => false
  | [], _ :: _ => true
  | _ :: _, [] => false
  | a :: as, b :: bs => if a < b then true else if b < a then false else idLt as bs

/-- Result of a Go function that may panic. -/
inductive Out (α : Type) where
  | ok (a : α)
  | panic (site : String)
deriving Repr, DecidableEq

/-! ### node list -/

/-- `sort.Sort(byID(nodes))` applied to a list: insertion sort by `idLt` (any correct sort gives the
same list when ids are distinct; `sort.Sort` itself is in the trusted base). -/
def insertSorted (x : Id) : List Id → List Id
  | [] => [x]
  | y :: ys => if idLt y x then y :: insertSorted x ys else x :: y :: ys

def sortIds : List Id → List Id
  | [] => []
  | x :: xs => insertSorted x (sortIds xs)

/-- `addNodeBasicSorted`: a known id is updated in place (list of ids unchanged), a new one is
appended and the slice is sorted by id. -/
def addNode (nodes : List Id) (id : Id) : List Id :=
  if id ∈ nodes then nodes else sortIds (nodes ++ [id])

/-- `nodePositionByID` + the copy/truncate of `removeNodeBasicSorted`: removes the first node with
that id. -/
def removeNode : List Id → Id → List Id
  | [], _ => []
  | y :: ys, id => if y = id then ys else y :: removeNode ys id

/-- A membership event. -/
inductive Ev where
  | join (id : Id)
  | leave (id : Id)
deriving Repr, DecidableEq

def applyEv (nodes : List Id) : Ev → List Id
  | .join id => addNode nodes id
  | .leave id => removeNode nodes id

/-- The node list of a cluster value that started empty and saw the events in this order. -/
def run (evs : List Ev) : List Id := evs.foldl applyEv []

/-! ### partition -/

def fnvOffset : BitVec 64 := 14695981039346656037#64
def fnvPrime : BitVec 64 := 1099511628211#64

/-- `hash/fnv` New64a + Write + Sum64. -/
def fnv64a (bytes : List Nat) : BitVec 64 :=
  bytes.foldl (fun h b => (h ^^^ BitVec.ofNat 64 b) * fnvPrime) fnvOffset

/-- `binary.BigEndian.PutUint64`. -/
def be64 (v : Nat) : List Nat :=
  [v / 2^56 % 256, v / 2^48 % 256, v / 2^40 % 256, v / 2^32 % 256,
   v / 2^24 % 256, v / 2^16 % 256, v / 2^8 % 256, v % 256]

/-- `cluster.partition`: `partitionN` is `defaultPartitionN = 256` in every cluster the server builds. -/
def partition (partitionN : Nat) (index : List Nat) (shard : Nat) : Nat :=
  (fnv64a (index ++ be64 shard)).toNat % partitionN

/-! ### jump hash -/

def jmpMul : BitVec 64 := 2862933555777941757#64

/-- The loop of `jmphasher.Hash`.  `next b key` stands for
`int64(float64(b+1) * (float64(int64(1)<<31) / float64((key>>33)+1)))`.
State: `b` (Int, starts at -1), `j`, `key`.  `none` = fuel exhausted while `j < n` (the Go loop would
still be running; impossible when `next b key > b`, see `C20_hash_range`). -/
def hashLoop (next : Nat → BitVec 64 → Nat) (n : Nat) : Nat → Int → Nat → BitVec 64 → Option Int
  | 0, b, j, _ => if j < n then none else some b
  | fuel + 1, b, j, key =>
    if j < n then
      let key' := key * jmpMul + 1#64
      hashLoop next n fuel (j : Int) (next j key') key'
    else some b

/-- `jmphasher.Hash(key, n)` (`n ≤ 0` gives -1 as in Go). -/
def hash (next : Nat → BitVec 64 → Nat) (key : BitVec 64) (n : Nat) : Option Int :=
  hashLoop next n n (-1) 0 key

/-! ### owners -/

/-- The replica clamp of `partitionNodes` (after the fix: default first, then cap by the node count). -/
def clampReplicas (replicaN n : Nat) : Nat :=
  let r := if replicaN = 0 then 1 else replicaN
  if r > n then n else r

/-- `c.nodes[(nodeIndex+i)%len(c.nodes)]`. -/
def ringAt (nodes : List Id) (h : Int) (i : Nat) : Out Id :=
  if nodes.length = 0 then .panic "partitionNodes:divide-by-zero"
  else
    let idx := (h + (i : Int)).tmod (nodes.length : Int)
    if idx < 0 then .panic "partitionNodes:index"
    else match nodes[idx.toNat]? with
      | some x => .ok x
      | none => .panic "partitionNodes:index"

/-- `for i := 0; i < replicaN; i++ { nodes[i] = ... }`: `cnt` remaining iterations starting at `i`. -/
def ringWalk (nodes : List Id) (h : Int) : Nat → Nat → Out (List Id)
  | 0, _ => .ok []
  | cnt + 1, i =>
    match ringAt nodes h i with
    | .panic s => .panic s
    | .ok x =>
      match ringWalk nodes h cnt (i + 1) with
      | .panic s => .panic s
      | .ok xs => .ok (x :: xs)

/-- A cluster value as far as placement is concerned. -/
structure Cluster where
  nodes : List Id
  replicaN : Nat
  partitionN : Nat := 256
deriving Repr

/-- `cluster.partitionNodes`. -/
def partitionNodes (next : Nat → BitVec 64 → Nat) (c : Cluster) (p : Nat) : Out (List Id) :=
  let replicaN := clampReplicas c.replicaN c.nodes.length
  match hash next (BitVec.ofNat 64 p) c.nodes.length with
  | none => .panic "jmphasher:diverges"
  | some h => ringWalk c.nodes h replicaN 0

/-- `cluster.shardNodes` / `ShardNodes`. -/
def shardNodes (next : Nat → BitVec 64 → Nat) (c : Cluster) (index : List Nat) (shard : Nat) : Out (List Id) :=
  partitionNodes next c (partition c.partitionN index shard)

/-- `Nodes.ContainsID`. -/
def containsID : List Id → Id → Bool
  | [], _ => false
  | n :: ns, id => if n = id then true else containsID ns id

/-- `cluster.ownsShard`. -/
def ownsShard (next : Nat → BitVec 64 → Nat) (c : Cluster) (id : Id) (index : List Nat) (shard : Nat) : Out Bool :=
  match shardNodes next c index shard with
  | .panic s => .panic s
  | .ok ns => .ok (containsID ns id)

/-- inner loop of `containsShards`: `for _, n := range nodes { if n.ID == node.ID { append } }`. -/
def appendPerMatch (owners : List Id) (id : Id) (shard : Nat) : List Nat :=
  match owners with
  | [] => []
  | n :: ns => if n = id then shard :: appendPerMatch ns id shard else appendPerMatch ns id shard

/-- `cluster.containsShards` over the ascending shard list of `availableShards.ForEach`. -/
def containsShards (next : Nat → BitVec 64 → Nat) (c : Cluster) (index : List Nat) : List Nat → Id → Out (List Nat)
  | [], _ => .ok []
  | s :: ss, id =>
    match partitionNodes next c (partition c.partitionN index s) with
    | .panic e => .panic e
    | .ok owners =>
      match containsShards next c index ss id with
      | .panic e => .panic e
      | .ok rest => .ok (appendPerMatch owners id s ++ rest)

/-- first owner of the shard that is in the list of still-available nodes
(`for _, node := range ShardNodes { if Nodes(nodes).Contains(node) ... continue loop }`). -/
def firstAvail (owners avail : List Id) : Option Id :=
  match owners with
  | [] => none
  | n :: ns => if containsID avail n then some n else firstAvail ns avail

/-- `m[k] = append(m[k], v)` on an association list kept in first-insertion order (a Go map keyed by
node id; iteration order is never relied on). -/
def assocAppend {β : Type} (m : List (Id × List β)) (k : Id) (v : β) : List (Id × List β) :=
  match m with
  | [] => [(k, [v])]
  | (k', vs) :: rest => if k' = k then (k', vs ++ [v]) :: rest else (k', vs) :: assocAppend rest k v

inductive SBN where
  | ok (m : List (Id × List Nat))
  | unavailable            -- errShardUnavailable
  | panic (site : String)
deriving Repr, DecidableEq

/-- `executor.shardsByNode`. -/
def shardsByNodeAux (next : Nat → BitVec 64 → Nat) (c : Cluster) (avail : List Id) (index : List Nat) :
    List Nat → List (Id × List Nat) → SBN
  | [], m => .ok m
  | s :: ss, m =>
    match shardNodes next c index s with
    | .panic e => .panic e
    | .ok owners =>
      match firstAvail owners avail with
      | none => .unavailable
      | some n => shardsByNodeAux next c avail index ss (assocAppend m n s)

def shardsByNode (next : Nat → BitVec 64 → Nat) (c : Cluster) (avail : List Id) (index : List Nat)
    (shards : List Nat) : SBN :=
  shardsByNodeAux next c avail index shards []

/-- `API.validateShardOwnership` for the local node `self`: `true` = nil error,
`false` = ErrClusterDoesNotOwnShard. -/
def validateShardOwnership (next : Nat → BitVec 64 → Nat) (c : Cluster) (self : Id) (index : List Nat)
    (shard : Nat) : Out Bool :=
  ownsShard next c self index shard

/-! ### total wrappers (used by the C21 model)

`C20_shardNodes_total` proves that `shardNodes` never takes the `panic` branch when the float step
satisfies its assumption, so the resize-plan model (C21) works with the plain owner list. -/

def ownersOf (next : Nat → BitVec 64 → Nat) (c : Cluster) (index : List Nat) (shard : Nat) : List Id :=
  match shardNodes next c index shard with
  | .ok l => l
  | .panic _ => []

def containedShards (next : Nat → BitVec 64 → Nat) (c : Cluster) (index : List Nat) (shards : List Nat)
    (id : Id) : List Nat :=
  match containsShards next c index shards id with
  | .ok l => l
  | .panic _ => []

end PV.C20
