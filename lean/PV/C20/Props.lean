/-
C20 property theorems (core Lean only).

Property: for any set of nodes, replica count and (index, shard), the shard's owners are
min(max(replicas,1), nodes) distinct members; they depend only on the node ids, not on join order
or on which node computes them; a node treats itself as an owner (writes: validateShardOwnership,
anti-entropy/cleanup: containsShards, queries: shardsByNode) exactly when it is in that set.

All theorems hold for arbitrary node lists / membership histories, every replica count >= 0, every
partition, with the float step of the jump hash as a parameter `next` whose only assumption is
`hnext : forall b key, b < next b key`.  Nothing is `_partial`: after the fix of the replica clamp
(`fix: partitionNodes returns no owners for an empty cluster with ReplicaN 0`) the model has no
reachable panic and the count formula also holds for the empty cluster.
-/
import PV.C20.Model
import PV.C20.Spec
import PV.C20.Lemmas
namespace PV.C20
open List

/-- A concrete `next` satisfying the assumption (used by the non-vacuity examples). -/
def nextSucc (b : Nat) (_ : BitVec 64) : Nat := b + 1
theorem nextSucc_ok : ∀ b k, b < nextSucc b k := fun b _ => Nat.lt_succ_self b

/-! ### jump hash and partition are in range -/

theorem C20_hash_range {next : Nat → BitVec 64 → Nat} (hnext : ∀ b k, b < next b k)
    (key : BitVec 64) {n : Nat} (hn : 0 < n) :
    ∃ r : Int, hash next key n = some r ∧ 0 ≤ r ∧ r < n :=
  hash_range hnext key hn

example : hash nextSucc 5#64 3 = some 2 := by decide

theorem C20_partition_range (partitionN : Nat) (hp : 0 < partitionN) (index : List Nat) (shard : Nat) :
    partition partitionN index shard < partitionN :=
  Nat.mod_lt _ hp

/-! ### count, distinctness, membership -/

/-- `partitionNodes` never panics and returns exactly min(max(replicas,1), nodes) owners
(also for the empty cluster: no owners). -/
theorem C20_count {next : Nat → BitVec 64 → Nat} (hnext : ∀ b k, b < next b k) (c : Cluster) (p : Nat) :
    ∃ l, partitionNodes next c p = .ok l ∧ l.length = min (max c.replicaN 1) c.nodes.length := by
  obtain ⟨l, _, hl, hlen, _⟩ := partitionNodes_ok hnext c p
  exact ⟨l, hl, hlen⟩

example : partitionNodes nextSucc { nodes := [[1], [2], [3]], replicaN := 2 } 7 = .ok [[3], [1]] := by decide
example : partitionNodes nextSucc { nodes := [], replicaN := 0 } 7 = .ok [] := by decide

/-- The owners are pairwise distinct members of the cluster whenever the node list has no duplicate
id (which `C20_nodes_sorted` gives for every membership history). -/
theorem C20_distinct {next : Nat → BitVec 64 → Nat} (hnext : ∀ b k, b < next b k) (c : Cluster) (p : Nat)
    (hnd : c.nodes.Nodup) {l : List Id} (hl : partitionNodes next c p = .ok l) :
    l.Nodup ∧ ∀ x ∈ l, x ∈ c.nodes := by
  obtain ⟨l', H, hl', hlen, _, hget⟩ := partitionNodes_ok hnext c p
  rw [hl] at hl'
  have e : l = l' := Out.ok.inj hl'
  subst e
  exact ⟨ring_nodup hnd (by rw [hlen]; exact Nat.min_le_right _ _) hget, ring_subset hget⟩

/-- Whatever joins and leaves a cluster value has seen, its node list is strictly ascending by id
(hence duplicate free). -/
theorem C20_nodes_sorted (evs : List Ev) : Sorted (run evs) ∧ (run evs).Nodup :=
  ⟨run_sorted evs, (run_sorted evs).nodup⟩

example : run [.join [2], .join [1, 0], .join [1], .join [2], .leave [1, 0]] = [[1], [2]] := by decide

/-! ### independence of join order and of the computing node -/

/-- Two cluster values (two nodes, or one node at two times) whose membership histories end in the
same member set hold the same node list. -/
theorem C20_history_free (h₁ h₂ : List Ev) (hset : ∀ x, x ∈ run h₁ ↔ x ∈ run h₂) : run h₁ = run h₂ :=
  sorted_unique (run_sorted h₁) (run_sorted h₂) hset

/-- Any two join orders (with repetitions) of the same id set give the same node list and therefore
the same owners for every replica count, index and shard, on every node. -/
theorem C20_order_free (next : Nat → BitVec 64 → Nat) (o₁ o₂ : List Id) (hset : ∀ x, x ∈ o₁ ↔ x ∈ o₂)
    (replicaN partitionN : Nat) (index : List Nat) (shard : Nat) :
    run (o₁.map Ev.join) = run (o₂.map Ev.join) ∧
    shardNodes next { nodes := run (o₁.map Ev.join), replicaN := replicaN, partitionN := partitionN } index shard =
    shardNodes next { nodes := run (o₂.map Ev.join), replicaN := replicaN, partitionN := partitionN } index shard := by
  have h : run (o₁.map Ev.join) = run (o₂.map Ev.join) :=
    C20_history_free _ _ (fun x => by rw [mem_run_joins, mem_run_joins]; exact hset x)
  exact ⟨h, by rw [h]⟩

example : run ([[2], [1], [3]].map Ev.join) = run ([[3], [2], [2], [1]].map Ev.join) := by decide

/-- The node list is the member set in ascending id order: exactly the ring of the specification. -/
theorem C20_members (ids : List Id) (x : Id) : x ∈ run (ids.map Ev.join) ↔ x ∈ ids :=
  mem_run_joins ids x

/-! ### the model computes the order-free specification -/

/-- After any membership history the node list is the specification's ring: the member *set* in
ascending id order (`specApply` forgets the order of events). -/
theorem C20_refines_spec (evs : List Ev) : run evs = Spec.members (evs.foldl specApply []) :=
  run_eq_members evs

/-- On that ring `partitionNodes` returns exactly the specification's owner list: the first
min(max(replicas,1), n) ids of the ring rotated to the jump-hash primary. -/
theorem C20_owners_spec {next : Nat → BitVec 64 → Nat} (hnext : ∀ b k, b < next b k)
    (s : List Id) (r pn p : Nat) :
    ∃ l, partitionNodes next { nodes := Spec.members s, replicaN := r, partitionN := pn } p = .ok l ∧
      Spec.owners next s r p = some l :=
  partitionNodes_eq_spec hnext s r pn p

example : ∃ l, Spec.owners nextSucc [[3], [1], [2]] 2 7 = some l :=
  let ⟨l, _, h⟩ := C20_owners_spec nextSucc_ok [[3], [1], [2]] 2 256 7; ⟨l, h⟩

/-! ### the ownership helpers agree with the owner list -/

/-- `shardNodes` is total; `ownersOf` names its result. -/
theorem C20_shardNodes_total {next : Nat → BitVec 64 → Nat} (hnext : ∀ b k, b < next b k) (c : Cluster)
    (index : List Nat) (shard : Nat) :
    shardNodes next c index shard = .ok (ownersOf next c index shard) :=
  shardNodes_total hnext c index shard

/-- `ownsShard` and `validateShardOwnership` say yes exactly for the members of the owner list. -/
theorem C20_owns_iff {next : Nat → BitVec 64 → Nat} (hnext : ∀ b k, b < next b k) (c : Cluster)
    (id : Id) (index : List Nat) (shard : Nat) :
    ∃ b, ownsShard next c id index shard = .ok b ∧ validateShardOwnership next c id index shard = .ok b ∧
      (b = true ↔ id ∈ ownersOf next c index shard) := by
  refine ⟨containsID (ownersOf next c index shard) id, ?_, ?_, containsID_iff⟩
  · simp only [ownsShard, shardNodes_total hnext]
  · simp only [validateShardOwnership, ownsShard, shardNodes_total hnext]

/-- `containsShards` (holder cleanup, anti-entropy) is the filter of the shards by ownership. -/
theorem C20_contains_eq_filter {next : Nat → BitVec 64 → Nat} (hnext : ∀ b k, b < next b k) (c : Cluster)
    (hnd : c.nodes.Nodup) (index : List Nat) (id : Id) (shards : List Nat) :
    containsShards next c index shards id =
      .ok (shards.filter (fun s => decide (id ∈ ownersOf next c index s))) :=
  containsShards_eq hnext c hnd index id shards

/-- `shardsByNode` never panics; it fails exactly when some shard has no owner among the available
nodes, and otherwise assigns every shard to exactly one node: its first available owner. -/
theorem C20_shardsByNode {next : Nat → BitVec 64 → Nat} (hnext : ∀ b k, b < next b k) (c : Cluster)
    (avail : List Id) (index : List Nat) (shards : List Nat) :
    (∃ m, shardsByNode next c avail index shards = .ok m ∧
        (∀ s ∈ shards, ∃ n, n ∈ ownersOf next c index s ∧ n ∈ avail) ∧
        ∀ n s, (n, s) ∈ pairsOf m ↔ (s ∈ shards ∧ firstAvail (ownersOf next c index s) avail = some n)) ∨
    (shardsByNode next c avail index shards = .unavailable ∧
        ∃ s ∈ shards, ∀ n ∈ ownersOf next c index s, n ∉ avail) := by
  rcases shardsByNodeAux_spec hnext c avail index shards [] with ⟨m, hm, hall, hiff⟩ | ⟨hu, s, hs, hn⟩
  · refine Or.inl ⟨m, hm, ?_, ?_⟩
    · intro s hs
      cases hf : firstAvail (ownersOf next c index s) avail with
      | none => exact absurd hf (hall s hs)
      | some n => exact ⟨n, firstAvail_some hf⟩
    · intro n s
      rw [hiff]
      simp [pairsOf]
  · exact Or.inr ⟨hu, s, hs, firstAvail_none.mp hn⟩

/-- every assignment made by `shardsByNode` is to an owner of the shard that is still available -/
theorem C20_shardsByNode_sound {next : Nat → BitVec 64 → Nat} (hnext : ∀ b k, b < next b k) (c : Cluster)
    (avail : List Id) (index : List Nat) (shards : List Nat) {m : List (Id × List Nat)}
    (hm : shardsByNode next c avail index shards = .ok m) {n : Id} {s : Nat} (h : (n, s) ∈ pairsOf m) :
    s ∈ shards ∧ n ∈ ownersOf next c index s ∧ n ∈ avail := by
  rcases C20_shardsByNode hnext c avail index shards with ⟨m', hm', _, hiff⟩ | ⟨hu, _⟩
  · rw [hm] at hm'
    have e : m = m' := SBN.ok.inj hm'
    subst e
    have := (hiff n s).mp h
    exact ⟨this.1, firstAvail_some this.2⟩
  · rw [hm] at hu; cases hu

example : shardsByNode nextSucc { nodes := [[1], [2], [3]], replicaN := 2 } [[1], [2]] [105] [0, 1]
    = .ok [([1], [0, 1])] := by decide
example : shardsByNode nextSucc { nodes := [[1], [2], [3]], replicaN := 2 } [[2]] [105] [0, 1]
    = .unavailable := by decide

end PV.C20
