/-
Driver-side instantiation of the jump-hash float step (core only, no theorem depends on this file).
The model and the theorems take the step as a parameter `next`; the drivers pm_c20 / pm_c21 use the
same IEEE-754 double expression as the Go code and re-check, for every key they evaluate, the one
assumption the theorems make (`next b key > b`).
-/
import PV.C20.Model
namespace PV.C20.Drv
open PV.C20

/-- `int64(float64(b+1) * (float64(int64(1)<<31) / float64((key>>33)+1)))`. -/
def nextF (b : Nat) (key : BitVec 64) : Nat :=
  (Float.ofNat (b + 1) * (Float.ofNat (2 ^ 31) / Float.ofNat ((key >>> 33).toNat + 1))).toUInt64.toNat

/-- Re-walk the jump-hash loop and check `next b key > b` at every step taken. -/
def assumeOK (n : Nat) : Nat → Nat → BitVec 64 → Bool
  | 0, _, _ => true
  | fuel + 1, j, key =>
    if j < n then
      let key' := key * jmpMul + 1#64
      let j' := nextF j key'
      j' > j && assumeOK n fuel j' key'
    else true

def toId (s : String) : Id := s.toUTF8.toList.map UInt8.toNat
def ofId (i : Id) : String :=
  match String.fromUTF8? (ByteArray.mk (i.map UInt8.ofNat).toArray) with
  | some s => s
  | none => "?"

end PV.C20.Drv
