/-
pm_c20: model driver for C20.  State of a case: the node list of one cluster value and its replica
count (model) and the member set (spec).  Ops (one per line; ids and index names are ASCII tokens):

  r <replicas>                         set ReplicaN                       -> ok
  join <id> | leave <id>               addNodeBasicSorted / removeNodeBasicSorted -> node ids in slice order
  nodes                                                                    -> node ids in slice order
  jh <key> <n>                         jmphasher.Hash                     -> integer
  part <index> <shard>                 cluster.partition                  -> partition
  pnodes <p>                           partitionNodes                     -> [ids] | panic:<kind>
  snodes <index> <shard>               ShardNodes                         -> [ids] | panic:<kind>
  owns <id> <index> <shard>            ownsShard                          -> true|false
  contains <id> <index> <shards csv>   containsShards                     -> [shards]
  sbn <avail ids csv> <index> <shards csv>  executor.shardsByNode        -> id:s,s;id:s | err:unavailable
  validate <self> <index> <shard>      API.validateShardOwnership         -> ok | err:not-owner

`#spec` carries the order-free specification (Spec.*) evaluated on the member *set*.
The float step of the jump hash is the parameter `next` of the model; here it is instantiated with
the same IEEE-754 double expression as the Go code (`nextF`) and every use re-checks the only
assumption the theorems make about it (`next b key > b`): a violation prints `assume-violated:next`.
-/
import PV.Common.Proto
import PV.C20.Model
import PV.C20.Spec
import PV.C20.Float
open PV.Proto PV.C20

namespace PV.C20.Drv

def showIds (l : List Id) : String := "[" ++ " ".intercalate (l.map ofId) ++ "]"

def csvIds (s : String) : List Id :=
  if s = "-" || s = "" then [] else (s.splitOn ",").map toId

def showOut (f : α → String) : Out α → String
  | .ok a => f a
  | .panic s => "panic:" ++ ((s.splitOn ":").getLast?.getD s)

def showOpt (f : α → String) : Option α → String
  | some a => f a
  | none => "assume-violated:next"

structure St where
  nodes : List Id := []
  replicaN : Nat := 1
  members : List Id := []

def St.cluster (s : St) : Cluster := { nodes := s.nodes, replicaN := s.replicaN }

/-- insertion sort of (id, shards) by id for printing -/
def insAssoc (x : Id × List Nat) : List (Id × List Nat) → List (Id × List Nat)
  | [] => [x]
  | y :: ys => if idLt y.1 x.1 then y :: insAssoc x ys else x :: y :: ys

def showAssoc (m : List (Id × List Nat)) : String :=
  if m.isEmpty then "-" else
  ";".intercalate ((m.foldr insAssoc []).map fun (k, vs) => ofId k ++ ":" ++ ",".intercalate (vs.map toString))

def groupPairs (ps : List (Id × Nat)) : List (Id × List Nat) :=
  ps.foldl (fun m (k, v) => assocAppend m k v) []

/-- guard every answer that runs the jump hash with the assumption check for this node count -/
def guarded (s : St) (keys : List Nat) (a : Ans) : Ans :=
  let n := s.nodes.length
  if keys.all (fun p => assumeOK n n 0 (BitVec.ofNat 64 p)) then a else ans "assume-violated:next"

def step (s : St) (ws : List String) : St × Ans :=
  let bad := (s, ans "bad-op")
  let c := s.cluster
  match ws with
  | ["r", r] =>
    match r.toNat? with
    | some r => ({ s with replicaN := r }, ans "ok")
    | none => bad
  | ["join", id] =>
    let s' := { s with nodes := addNode s.nodes (toId id), members := Spec.join s.members (toId id) }
    (s', ans2 (showIds s'.nodes) (showIds (Spec.members s'.members)) "join")
  | ["leave", id] =>
    let s' := { s with nodes := removeNode s.nodes (toId id), members := Spec.leave s.members (toId id) }
    (s', ans2 (showIds s'.nodes) (showIds (Spec.members s'.members)) "leave")
  | ["nodes"] => (s, ans2 (showIds s.nodes) (showIds (Spec.members s.members)) "nodes")
  | ["jh", key, n] =>
    match key.toNat?, n.toNat? with
    | some key, some n =>
      if assumeOK n n 0 (BitVec.ofNat 64 key) then
        (s, ans (showOpt toString (hash nextF (BitVec.ofNat 64 key) n)))
      else (s, ans "assume-violated:next")
    | _, _ => bad
  | ["part", index, shard] =>
    match shard.toNat? with
    | some shard => (s, ans (toString (partition c.partitionN (toId index) shard)))
    | none => bad
  | ["pnodes", p] =>
    match p.toNat? with
    | some p =>
      (s, guarded s [p] (ans2 (showOut showIds (partitionNodes nextF c p))
          (showOpt showIds (Spec.owners nextF s.members s.replicaN p)) "pnodes"))
    | none => bad
  | ["snodes", index, shard] =>
    match shard.toNat? with
    | some shard =>
      let ix := toId index
      (s, guarded s [partition c.partitionN ix shard] (ans2 (showOut showIds (shardNodes nextF c ix shard))
          (showOpt showIds (Spec.shardOwners nextF s.members s.replicaN c.partitionN ix shard)) "snodes"))
    | none => bad
  | ["owns", id, index, shard] =>
    match shard.toNat? with
    | some shard =>
      let ix := toId index
      (s, guarded s [partition c.partitionN ix shard] (ans2 (showOut showBool (ownsShard nextF c (toId id) ix shard))
          (showOpt showBool (Spec.owns nextF s.members s.replicaN c.partitionN (toId id) ix shard)) "owns"))
    | none => bad
  | ["validate", id, index, shard] =>
    match shard.toNat? with
    | some shard =>
      let ix := toId index
      let sh := fun (b : Bool) => if b then "ok" else "err:not-owner"
      (s, guarded s [partition c.partitionN ix shard] (ans2 (showOut sh (validateShardOwnership nextF c (toId id) ix shard))
          (showOpt sh (Spec.owns nextF s.members s.replicaN c.partitionN (toId id) ix shard)) "validate"))
    | none => bad
  | ["contains", id, index, shards] =>
    match csvNats? shards with
    | some shards =>
      let ix := toId index
      (s, guarded s (shards.map (partition c.partitionN ix)) (ans2 (showOut showNats (containsShards nextF c ix shards (toId id)))
          (showOpt showNats (Spec.contained nextF s.members s.replicaN c.partitionN (toId id) ix shards)) "contains"))
    | none => bad
  | ["sbn", avail, index, shards] =>
    match csvNats? shards with
    | some shards =>
      let ix := toId index
      let m := match shardsByNode nextF c (csvIds avail) ix shards with
        | .ok m => showAssoc m
        | .unavailable => "err:unavailable"
        | .panic e => "panic:" ++ ((e.splitOn ":").getLast?.getD e)
      let sp := match Spec.assign nextF s.members s.replicaN c.partitionN (csvIds avail) ix shards with
        | none => "assume-violated:next"
        | some none => "err:unavailable"
        | some (some ps) => showAssoc (groupPairs ps)
      (s, guarded s (shards.map (partition c.partitionN ix)) (ans2 m sp "sbn"))
    | none => bad
  | _ => bad

end PV.C20.Drv

def main : IO Unit := PV.Proto.run ({} : PV.C20.Drv.St) PV.C20.Drv.step
