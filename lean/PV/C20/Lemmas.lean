/-
Helper lemmas for C20 (core Lean only).
-/
import PV.C20.Model
import PV.C20.Spec
namespace PV.C20
open List

/-! ### `idLt` is a strict total order -/

theorem idLt_irrefl : ∀ a : Id, idLt a a = false
  | [] => rfl
  | a :: as => by simp [idLt, idLt_irrefl as]

theorem idLt_trans : ∀ {a b c : Id}, idLt a b = true → idLt b c = true → idLt a c = true
  | [], [], _, h, _ => by simp [idLt] at h
  | [], _ :: _, [], _, h => by simp [idLt] at h
  | [], _ :: _, _ :: _, _, _ => by simp [idLt]
  | _ :: _, [], _, h, _ => by simp [idLt] at h
  | _ :: _, _ :: _, [], _, h => by simp [idLt] at h
  | a :: as, b :: bs, c :: cs, h₁, h₂ => by
    simp only [idLt] at h₁ h₂ ⊢
    by_cases hab : a < b
    · by_cases hbc : b < c
      · have : a < c := Nat.lt_trans hab hbc
        simp [this]
      · simp only [hbc, if_false] at h₂
        by_cases hcb : c < b
        · simp [hcb] at h₂
        · have : b = c := by omega
          subst this; simp [hab]
    · simp only [hab, if_false] at h₁
      by_cases hba : b < a
      · simp [hba] at h₁
      · have : a = b := by omega
        subst this
        simp only [hba, if_false] at h₁
        by_cases hac : a < c
        · simp [hac]
        · simp only [hac, if_false] at h₂ ⊢
          by_cases hca : c < a
          · simp [hca] at h₂
          · simp only [hca, if_false] at h₂ ⊢
            exact idLt_trans h₁ h₂

theorem idLt_tri : ∀ {a b : Id}, idLt a b = false → idLt b a = false → a = b
  | [], [], _, _ => rfl
  | [], _ :: _, h, _ => by simp [idLt] at h
  | _ :: _, [], _, h => by simp [idLt] at h
  | a :: as, b :: bs, h₁, h₂ => by
    simp only [idLt] at h₁ h₂
    by_cases hab : a < b
    · simp [hab] at h₁
    · by_cases hba : b < a
      · simp [hba] at h₂
      · simp only [hab, hba, if_false] at h₁ h₂
        have : a = b := by omega
        subst this
        rw [idLt_tri h₁ h₂]

theorem idLt_asymm {a b : Id} (h : idLt a b = true) : idLt b a = false := by
  cases hba : idLt b a with
  | false => rfl
  | true => have := idLt_trans h hba; simp [idLt_irrefl] at this

theorem idLt_ne {a b : Id} (h : idLt a b = true) : a ≠ b := by
  intro e; subst e; simp [idLt_irrefl] at h

/-! ### sorted node lists -/

/-- Strictly ascending by id. -/
def Sorted (l : List Id) : Prop := l.Pairwise (fun a b => idLt a b = true)

theorem Sorted.nodup {l : List Id} (h : Sorted l) : l.Nodup :=
  h.imp (fun hab => idLt_ne hab)

theorem mem_insertSorted {x y : Id} : ∀ {l : List Id}, y ∈ insertSorted x l ↔ y = x ∨ y ∈ l
  | [] => by simp [insertSorted]
  | z :: zs => by
    simp only [insertSorted]
    split
    · simp only [mem_cons, mem_insertSorted (l := zs)]
      constructor
      · rintro (h | h | h) <;> simp [h]
      · rintro (h | h | h) <;> simp [h]
    · simp [mem_cons]

theorem insertSorted_sorted {x : Id} : ∀ {l : List Id}, Sorted l → x ∉ l → Sorted (insertSorted x l)
  | [], _, _ => by simp [insertSorted, Sorted]
  | z :: zs, hs, hx => by
    have hz : Sorted zs := (pairwise_cons.mp hs).2
    have hzall : ∀ w ∈ zs, idLt z w = true := (pairwise_cons.mp hs).1
    simp only [insertSorted]
    split
    · rename_i hzx
      refine pairwise_cons.mpr ⟨?_, insertSorted_sorted hz (fun h => hx (mem_cons_of_mem _ h))⟩
      intro w hw
      rcases mem_insertSorted.mp hw with rfl | hw
      · exact hzx
      · exact hzall w hw
    · rename_i hzx
      have hzx' : idLt z x = false := by simpa using hzx
      have hxz : idLt x z = true := by
        cases h : idLt x z with
        | true => rfl
        | false => exact absurd (idLt_tri h hzx') (fun e => hx (by simp [e]))
      refine pairwise_cons.mpr ⟨?_, hs⟩
      intro w hw
      rcases mem_cons.mp hw with rfl | hw
      · exact hxz
      · exact idLt_trans hxz (hzall w hw)

theorem mem_sortIds {y : Id} : ∀ {l : List Id}, y ∈ sortIds l ↔ y ∈ l
  | [] => by simp [sortIds]
  | x :: xs => by simp [sortIds, mem_insertSorted, mem_sortIds (l := xs)]

theorem sortIds_sorted : ∀ {l : List Id}, l.Nodup → Sorted (sortIds l)
  | [], _ => by simp [sortIds, Sorted]
  | x :: xs, h => by
    have hx : x ∉ xs := (nodup_cons.mp h).1
    exact insertSorted_sorted (sortIds_sorted (nodup_cons.mp h).2) (fun h' => hx (mem_sortIds.mp h'))

/-- A strictly ascending list is determined by its set of members. -/
theorem sorted_unique : ∀ {l₁ l₂ : List Id}, Sorted l₁ → Sorted l₂ → (∀ x, x ∈ l₁ ↔ x ∈ l₂) → l₁ = l₂
  | [], [], _, _, _ => rfl
  | [], y :: _, _, _, h => by have := (h y).mpr (by simp); simp at this
  | x :: _, [], _, _, h => by have := (h x).mp (by simp); simp at this
  | x :: xs, y :: ys, h₁, h₂, h => by
    have hx := pairwise_cons.mp h₁
    have hy := pairwise_cons.mp h₂
    have hxy : x = y := by
      have hx' : x ∈ y :: ys := (h x).mp (by simp)
      have hy' : y ∈ x :: xs := (h y).mpr (by simp)
      rcases mem_cons.mp hx' with e | hxin
      · exact e
      · rcases mem_cons.mp hy' with e | hyin
        · exact e.symm
        · have a := hy.1 x hxin
          have b := hx.1 y hyin
          have := idLt_trans a b
          simp [idLt_irrefl] at this
    subst hxy
    have : xs = ys := by
      apply sorted_unique hx.2 hy.2
      intro z
      constructor
      · intro hz
        have := (h z).mp (mem_cons_of_mem _ hz)
        rcases mem_cons.mp this with e | h'
        · subst e; exact absurd (hx.1 z hz) (by simp [idLt_irrefl])
        · exact h'
      · intro hz
        have := (h z).mpr (mem_cons_of_mem _ hz)
        rcases mem_cons.mp this with e | h'
        · subst e; exact absurd (hy.1 z hz) (by simp [idLt_irrefl])
        · exact h'
    rw [this]

theorem addNode_sorted {l : List Id} {id : Id} (h : Sorted l) : Sorted (addNode l id) := by
  unfold addNode
  split
  · exact h
  · rename_i hid
    apply sortIds_sorted
    have := h.nodup
    simp only [List.nodup_append, this, true_and]
    simp only [nodup_cons, not_mem_nil, not_false_eq_true, nodup_nil, and_self, mem_cons, or_false,
      true_and]
    intro a ha b hb
    subst hb
    intro e; subst e; exact hid ha

theorem mem_addNode {l : List Id} {id x : Id} : x ∈ addNode l id ↔ x = id ∨ x ∈ l := by
  unfold addNode
  split
  · rename_i h
    constructor
    · exact Or.inr
    · rintro (rfl | h') <;> assumption
  · simp [mem_sortIds, or_comm]

theorem removeNode_sublist : ∀ (l : List Id) (id : Id), (removeNode l id).Sublist l
  | [], _ => by simp [removeNode]
  | y :: ys, id => by
    simp only [removeNode]
    split
    · exact sublist_cons_self _ _
    · exact (removeNode_sublist ys id).cons_cons _

theorem removeNode_sorted {l : List Id} {id : Id} (h : Sorted l) : Sorted (removeNode l id) :=
  Pairwise.sublist (removeNode_sublist l id) h

theorem mem_removeNode : ∀ {l : List Id} {id x : Id}, l.Nodup → (x ∈ removeNode l id ↔ x ∈ l ∧ x ≠ id)
  | [], _, _, _ => by simp [removeNode]
  | y :: ys, id, x, h => by
    have hy := nodup_cons.mp h
    simp only [removeNode]
    split
    · rename_i e
      subst e
      constructor
      · intro hx
        exact ⟨mem_cons_of_mem _ hx, fun e => hy.1 (e ▸ hx)⟩
      · rintro ⟨hx, hne⟩
        rcases mem_cons.mp hx with e | hx
        · exact absurd e hne
        · exact hx
    · rename_i hne
      simp only [mem_cons, mem_removeNode (l := ys) (id := id) (x := x) hy.2]
      constructor
      · rintro (e | ⟨hx, hn⟩)
        · subst e; exact ⟨Or.inl rfl, hne⟩
        · exact ⟨Or.inr hx, hn⟩
      · rintro ⟨e | hx, hn⟩
        · exact Or.inl e
        · exact Or.inr ⟨hx, hn⟩

theorem applyEv_sorted {l : List Id} (h : Sorted l) (e : Ev) : Sorted (applyEv l e) := by
  cases e with
  | join id => exact addNode_sorted h
  | leave id => exact removeNode_sorted h

theorem foldl_applyEv_sorted : ∀ (evs : List Ev) {l : List Id}, Sorted l → Sorted (evs.foldl applyEv l)
  | [], _, h => h
  | e :: es, _, h => foldl_applyEv_sorted es (applyEv_sorted h e)

theorem run_sorted (evs : List Ev) : Sorted (run evs) :=
  foldl_applyEv_sorted evs (by simp [Sorted])

/-! ### jump hash -/

theorem hashLoop_range {next : Nat → BitVec 64 → Nat} (hnext : ∀ b k, b < next b k) {n : Nat} :
    ∀ (fuel : Nat) (b : Int) (j : Nat) (key : BitVec 64), n ≤ j + fuel →
      ((b = -1 ∧ j = 0 ∧ 0 < n) ∨ (0 ≤ b ∧ b < n)) →
      ∃ r : Int, hashLoop next n fuel b j key = some r ∧ 0 ≤ r ∧ r < n
  | 0, b, j, key, hf, hinv => by
    have : ¬ j < n := by omega
    simp only [hashLoop, this, if_false]
    rcases hinv with ⟨_, h0, hn⟩ | h
    · omega
    · exact ⟨b, rfl, h⟩
  | fuel + 1, b, j, key, hf, hinv => by
    simp only [hashLoop]
    split
    · rename_i hj
      have := hnext j (key * jmpMul + 1#64)
      apply hashLoop_range hnext fuel
      · omega
      · right; omega
    · rename_i hj
      rcases hinv with ⟨_, h0, hn⟩ | h
      · omega
      · exact ⟨b, rfl, h⟩

theorem hash_range {next : Nat → BitVec 64 → Nat} (hnext : ∀ b k, b < next b k) (key : BitVec 64)
    {n : Nat} (hn : 0 < n) : ∃ r : Int, hash next key n = some r ∧ 0 ≤ r ∧ r < n :=
  hashLoop_range hnext n (-1) 0 key (by omega) (Or.inl ⟨rfl, rfl, hn⟩)

theorem hash_zero (next : Nat → BitVec 64 → Nat) (key : BitVec 64) : hash next key 0 = some (-1) := by
  simp [hash, hashLoop]

/-! ### ring walk -/

theorem ringAt_ok {nodes : List Id} {h : Int} (hn : 0 < nodes.length) (h0 : 0 ≤ h) (i : Nat) :
    ∃ x, ringAt nodes h i = .ok x ∧ nodes[(h.toNat + i) % nodes.length]? = some x := by
  have hlt : (h.toNat + i) % nodes.length < nodes.length := Nat.mod_lt _ hn
  have hidx : (h + (i : Int)).tmod (nodes.length : Int) = (((h.toNat + i) % nodes.length : Nat) : Int) := by
    have : h + (i : Int) = ((h.toNat + i : Nat) : Int) := by omega
    rw [this, Int.tmod_eq_emod_of_nonneg (by omega)]
    simp
  refine ⟨nodes[(h.toNat + i) % nodes.length], ?_, by simp [hlt]⟩
  unfold ringAt
  have hne : ¬ nodes.length = 0 := by omega
  have hnn : ¬ (((h.toNat + i) % nodes.length : Nat) : Int) < 0 := by omega
  rw [if_neg hne]
  simp only [hidx]
  rw [if_neg hnn, Int.toNat_natCast, List.getElem?_eq_getElem hlt]

theorem ringWalk_ok {nodes : List Id} {h : Int} (hn : 0 < nodes.length) (h0 : 0 ≤ h) :
    ∀ (cnt i : Nat), ∃ l, ringWalk nodes h cnt i = .ok l ∧ l.length = cnt ∧
      ∀ k, k < cnt → l[k]? = nodes[(h.toNat + (i + k)) % nodes.length]?
  | 0, i => ⟨[], rfl, rfl, fun k hk => by omega⟩
  | cnt + 1, i => by
    obtain ⟨x, hx, hxe⟩ := ringAt_ok hn h0 i
    obtain ⟨xs, hxs, hlen, hget⟩ := ringWalk_ok hn h0 cnt (i + 1)
    refine ⟨x :: xs, ?_, by simp [hlen], ?_⟩
    · simp only [ringWalk, hx, hxs]
    · intro k hk
      cases k with
      | zero => simp [hxe]
      | succ k =>
        have := hget k (by omega)
        simp only [List.getElem?_cons_succ, this]
        congr 2; omega

theorem clampReplicas_eq (r n : Nat) : clampReplicas r n = min (max r 1) n := by
  unfold clampReplicas
  by_cases h : r = 0
  · subst h; simp only [if_true]; split <;> omega
  · simp only [h, if_false]; split <;> omega

/-- `partitionNodes` never panics; it returns `min (max replicaN 1) n` nodes read off the ring at
consecutive positions starting from some `H`. -/
theorem partitionNodes_ok {next : Nat → BitVec 64 → Nat} (hnext : ∀ b k, b < next b k) (c : Cluster) (p : Nat) :
    ∃ l H, partitionNodes next c p = .ok l ∧ l.length = min (max c.replicaN 1) c.nodes.length ∧
      (0 < c.nodes.length → H < c.nodes.length) ∧
      ∀ k, k < l.length → l[k]? = c.nodes[(H + k) % c.nodes.length]? := by
  unfold partitionNodes
  rw [clampReplicas_eq]
  by_cases hn : 0 < c.nodes.length
  · obtain ⟨r, hr, h0, hlt⟩ := hash_range hnext (BitVec.ofNat 64 p) hn
    obtain ⟨l, hl, hlen, hget⟩ := ringWalk_ok hn h0 (min (max c.replicaN 1) c.nodes.length) 0
    refine ⟨l, r.toNat, ?_, hlen, fun _ => by omega, ?_⟩
    · simp only [hr, hl]
    · intro k hk
      have := hget k (by omega)
      simpa using this
  · have h0 : c.nodes.length = 0 := by omega
    refine ⟨[], 0, ?_, by simp [h0], fun h => by omega, fun k hk => by simp at hk⟩
    simp only [h0, hash_zero, Nat.min_zero, ringWalk]

theorem nodup_getElem_ne {l : List Id} (h : l.Nodup) {i j : Nat} (hi : i < l.length) (hj : j < l.length)
    (hne : i ≠ j) : l[i] ≠ l[j] := by
  have hp := List.pairwise_iff_getElem.mp h
  rcases Nat.lt_or_gt_of_ne hne with hlt | hgt
  · exact hp i j hi hj hlt
  · exact fun e => hp j i hj hi hgt e.symm

theorem ring_index_ne {H n k₁ k₂ : Nat} (h₁ : k₁ < k₂) (h₂ : k₂ < n) : (H + k₁) % n ≠ (H + k₂) % n := by
  intro e
  have := Nat.sub_mod_eq_zero_of_mod_eq e.symm
  have hsub : H + k₂ - (H + k₁) = k₂ - k₁ := by omega
  rw [hsub, Nat.mod_eq_of_lt (by omega)] at this
  omega

/-- Owners read off a duplicate-free ring at fewer than `n` consecutive positions are distinct. -/
theorem ring_nodup {nodes l : List Id} {H : Nat} (hnd : nodes.Nodup) (hlen : l.length ≤ nodes.length)
    (hget : ∀ k, k < l.length → l[k]? = nodes[(H + k) % nodes.length]?) : l.Nodup := by
  apply List.pairwise_iff_getElem.mpr
  intro i j hi hj hij
  have hn : 0 < nodes.length := by omega
  have hi' := hget i hi
  have hj' := hget j hj
  have hli : (H + i) % nodes.length < nodes.length := Nat.mod_lt _ hn
  have hlj : (H + j) % nodes.length < nodes.length := Nat.mod_lt _ hn
  rw [List.getElem?_eq_getElem hi, List.getElem?_eq_getElem hli] at hi'
  rw [List.getElem?_eq_getElem hj, List.getElem?_eq_getElem hlj] at hj'
  have hi'' := Option.some.inj hi'
  have hj'' := Option.some.inj hj'
  rw [hi'', hj'']
  exact nodup_getElem_ne hnd hli hlj (ring_index_ne hij (by omega))

theorem ring_subset {nodes l : List Id} {H : Nat}
    (hget : ∀ k, k < l.length → l[k]? = nodes[(H + k) % nodes.length]?) : ∀ x ∈ l, x ∈ nodes := by
  intro x hx
  obtain ⟨k, hk⟩ := List.mem_iff_getElem?.mp hx
  have hlt : k < l.length := by
    rcases List.getElem?_eq_some_iff.mp hk with ⟨h, _⟩; exact h
  rw [hget k hlt] at hk
  exact List.mem_of_getElem? hk

/-! ### helpers -/

theorem containsID_iff : ∀ {l : List Id} {id : Id}, containsID l id = true ↔ id ∈ l
  | [], _ => by simp [containsID]
  | n :: ns, id => by
    simp only [containsID, mem_cons]
    split
    · rename_i h; simp [h]
    · rename_i h
      rw [containsID_iff (l := ns)]
      constructor
      · exact Or.inr
      · rintro (e | h')
        · exact absurd e.symm h
        · exact h'

theorem appendPerMatch_nodup : ∀ {owners : List Id} (id : Id) (s : Nat), owners.Nodup →
    appendPerMatch owners id s = if id ∈ owners then [s] else []
  | [], _, _, _ => by simp [appendPerMatch]
  | n :: ns, id, s, h => by
    have hn := nodup_cons.mp h
    simp only [appendPerMatch]
    split
    · rename_i e
      subst e
      rw [appendPerMatch_nodup n s hn.2]
      simp [hn.1]
    · rename_i hne
      rw [appendPerMatch_nodup id s hn.2]
      have : id ∈ n :: ns ↔ id ∈ ns := by
        simp only [mem_cons]
        constructor
        · rintro (e | h')
          · exact absurd e.symm hne
          · exact h'
        · exact Or.inr
      simp only [this]

theorem mem_run_joins (ids : List Id) (x : Id) : x ∈ run (ids.map Ev.join) ↔ x ∈ ids := by
  unfold run
  suffices H : ∀ (l : List Id), x ∈ (ids.map Ev.join).foldl applyEv l ↔ x ∈ l ∨ x ∈ ids by
    simpa using H []
  induction ids with
  | nil => intro l; simp
  | cons a as ih =>
    intro l
    simp only [map_cons, foldl_cons, ih, applyEv, mem_addNode, mem_cons]
    constructor
    · rintro ((h | h) | h)
      · exact Or.inr (Or.inl h)
      · exact Or.inl h
      · exact Or.inr (Or.inr h)
    · rintro (h | h | h)
      · exact Or.inl (Or.inr h)
      · exact Or.inl (Or.inl h)
      · exact Or.inr h

theorem shardNodes_total {next : Nat → BitVec 64 → Nat} (hnext : ∀ b k, b < next b k) (c : Cluster)
    (index : List Nat) (shard : Nat) : shardNodes next c index shard = .ok (ownersOf next c index shard) := by
  obtain ⟨l, H, hl, _⟩ := partitionNodes_ok hnext c (partition c.partitionN index shard)
  unfold ownersOf shardNodes
  rw [hl]

theorem firstAvail_some : ∀ {os avail : List Id} {n : Id}, firstAvail os avail = some n → n ∈ os ∧ n ∈ avail
  | [], _, _, h => by simp [firstAvail] at h
  | o :: os, avail, n, h => by
    simp only [firstAvail] at h
    split at h
    · rename_i hc
      have e : o = n := Option.some.inj h
      subst e
      exact ⟨by simp, containsID_iff.mp hc⟩
    · have := firstAvail_some h
      exact ⟨mem_cons_of_mem _ this.1, this.2⟩

theorem firstAvail_none : ∀ {os avail : List Id}, firstAvail os avail = none ↔ ∀ n ∈ os, n ∉ avail
  | [], _ => by simp [firstAvail]
  | o :: os, avail => by
    simp only [firstAvail]
    split
    · rename_i hc
      simp only [reduceCtorEq, false_iff]
      intro h
      exact h o (by simp) (containsID_iff.mp hc)
    · rename_i hc
      rw [firstAvail_none (os := os)]
      constructor
      · intro h n hn
        rcases mem_cons.mp hn with e | hn
        · subst e; exact fun hm => hc (containsID_iff.mpr hm)
        · exact h n hn
      · intro h n hn; exact h n (mem_cons_of_mem _ hn)

/-- The (node, shard) pairs of a `shardsByNode` result. -/
def pairsOf {β : Type} (m : List (Id × List β)) : List (Id × β) :=
  m.flatMap (fun e => e.2.map (fun s => (e.1, s)))

theorem mem_pairsOf {β : Type} {m : List (Id × List β)} {n : Id} {s : β} :
    (n, s) ∈ pairsOf m ↔ ∃ ss, (n, ss) ∈ m ∧ s ∈ ss := by
  simp only [pairsOf, mem_flatMap, mem_map, Prod.mk.injEq, Prod.exists]
  constructor
  · rintro ⟨a, b, hab, x, hx, rfl, rfl⟩
    exact ⟨b, hab, hx⟩
  · rintro ⟨ss, h, hs⟩
    exact ⟨n, ss, h, s, hs, rfl, rfl⟩

theorem mem_pairsOf_assocAppend {β : Type} : ∀ {m : List (Id × List β)} {k : Id} {v : β} {n : Id} {s : β},
    (n, s) ∈ pairsOf (assocAppend m k v) ↔ (n, s) ∈ pairsOf m ∨ (n = k ∧ s = v)
  | [], k, v, n, s => by simp [assocAppend, pairsOf]
  | (k', vs) :: rest, k, v, n, s => by
    simp only [assocAppend]
    split
    · rename_i e
      subst e
      simp only [pairsOf, flatMap_cons, mem_append, mem_map, Prod.mk.injEq]
      constructor
      · rintro (⟨x, hx | hx, rfl, rfl⟩ | h)
        · exact Or.inl (Or.inl ⟨_, hx, rfl, rfl⟩)
        · simp only [mem_cons, not_mem_nil, or_false] at hx
          subst hx; exact Or.inr ⟨rfl, rfl⟩
        · exact Or.inl (Or.inr h)
      · rintro ((⟨x, hx, rfl, rfl⟩ | h) | ⟨rfl, rfl⟩)
        · exact Or.inl ⟨_, Or.inl hx, rfl, rfl⟩
        · exact Or.inr h
        · exact Or.inl ⟨_, Or.inr (by simp), rfl, rfl⟩
    · have ih := mem_pairsOf_assocAppend (m := rest) (k := k) (v := v) (n := n) (s := s)
      simp only [pairsOf, flatMap_cons, mem_append] at ih ⊢
      rw [ih]
      constructor
      · rintro (h | h | h)
        · exact Or.inl (Or.inl h)
        · exact Or.inl (Or.inr h)
        · exact Or.inr h
      · rintro ((h | h) | h)
        · exact Or.inl h
        · exact Or.inr (Or.inl h)
        · exact Or.inr (Or.inr h)

theorem shardsByNodeAux_spec {next : Nat → BitVec 64 → Nat} (hnext : ∀ b k, b < next b k) (c : Cluster)
    (avail : List Id) (index : List Nat) : ∀ (shards : List Nat) (m : List (Id × List Nat)),
    (∃ m', shardsByNodeAux next c avail index shards m = .ok m' ∧
        (∀ s ∈ shards, firstAvail (ownersOf next c index s) avail ≠ none) ∧
        ∀ n s, (n, s) ∈ pairsOf m' ↔
          (n, s) ∈ pairsOf m ∨ (s ∈ shards ∧ firstAvail (ownersOf next c index s) avail = some n)) ∨
    (shardsByNodeAux next c avail index shards m = .unavailable ∧
        ∃ s ∈ shards, firstAvail (ownersOf next c index s) avail = none)
  | [], m => Or.inl ⟨m, rfl, by simp, by simp⟩
  | s :: ss, m => by
    simp only [shardsByNodeAux, shardNodes_total hnext]
    cases hfa : firstAvail (ownersOf next c index s) avail with
    | none => exact Or.inr ⟨rfl, s, by simp, hfa⟩
    | some n₀ =>
      simp only []
      rcases shardsByNodeAux_spec hnext c avail index ss (assocAppend m n₀ s) with ⟨m', hm', hall, hiff⟩ | ⟨hu, s', hs', hn'⟩
      · refine Or.inl ⟨m', hm', ?_, ?_⟩
        · intro t ht
          rcases mem_cons.mp ht with e | ht
          · subst e; simp [hfa]
          · exact hall t ht
        · intro n t
          rw [hiff, mem_pairsOf_assocAppend]
          constructor
          · rintro ((h | ⟨rfl, rfl⟩) | ⟨ht, hf⟩)
            · exact Or.inl h
            · exact Or.inr ⟨by simp, hfa⟩
            · exact Or.inr ⟨mem_cons_of_mem _ ht, hf⟩
          · rintro (h | ⟨ht, hf⟩)
            · exact Or.inl (Or.inl h)
            · rcases mem_cons.mp ht with e | ht
              · subst e
                rw [hfa] at hf
                have := Option.some.inj hf
                subst this
                exact Or.inl (Or.inr ⟨rfl, rfl⟩)
              · exact Or.inr ⟨ht, hf⟩
      · exact Or.inr ⟨hu, s', mem_cons_of_mem _ hs', hn'⟩

theorem containsShards_eq {next : Nat → BitVec 64 → Nat} (hnext : ∀ b k, b < next b k) (c : Cluster)
    (hnd : c.nodes.Nodup) (index : List Nat) (id : Id) : ∀ (shards : List Nat),
    containsShards next c index shards id =
      .ok (shards.filter (fun s => decide (id ∈ ownersOf next c index s)))
  | [] => rfl
  | s :: ss => by
    have htot := shardNodes_total hnext c index s
    unfold shardNodes at htot
    simp only [containsShards, htot, containsShards_eq hnext c hnd index id ss]
    obtain ⟨l, H, hl, hlen, _, hget⟩ := partitionNodes_ok hnext c (partition c.partitionN index s)
    have hl' : l = ownersOf next c index s := by
      rw [hl] at htot; exact Out.ok.inj htot
    have hnodup : (ownersOf next c index s).Nodup := by
      rw [← hl']
      exact ring_nodup hnd (by rw [hlen]; exact Nat.min_le_right _ _) hget
    rw [appendPerMatch_nodup id s hnodup]
    by_cases hm : id ∈ ownersOf next c index s
    · simp [hm]
    · simp [hm]

/-- position of the primary owner on the ring -/
def primaryIdx (next : Nat → BitVec 64 → Nat) (n p : Nat) : Nat :=
  match hash next (BitVec.ofNat 64 p) n with
  | some r => r.toNat
  | none => 0

theorem partitionNodes_get {next : Nat → BitVec 64 → Nat} (hnext : ∀ b k, b < next b k) (c : Cluster) (p : Nat) :
    ∃ l, partitionNodes next c p = .ok l ∧ l.length = min (max c.replicaN 1) c.nodes.length ∧
      ∀ k, k < l.length → l[k]? = c.nodes[(primaryIdx next c.nodes.length p + k) % c.nodes.length]? := by
  unfold partitionNodes primaryIdx
  rw [clampReplicas_eq]
  by_cases hn : 0 < c.nodes.length
  · obtain ⟨r, hr, h0, hlt⟩ := hash_range hnext (BitVec.ofNat 64 p) hn
    obtain ⟨l, hl, hlen, hget⟩ := ringWalk_ok hn h0 (min (max c.replicaN 1) c.nodes.length) 0
    refine ⟨l, ?_, hlen, ?_⟩
    · simp only [hr, hl]
    · intro k hk
      have := hget k (by omega)
      simpa [hr] using this
  · have h0 : c.nodes.length = 0 := by omega
    refine ⟨[], ?_, by simp [h0], fun k hk => by simp at hk⟩
    simp only [h0, hash_zero, Nat.min_zero, ringWalk]

/-- the owners for replica count 1 (the primary) are among the owners for any replica count -/
theorem owners_replica1_subset {next : Nat → BitVec 64 → Nat} (hnext : ∀ b k, b < next b k) (c : Cluster)
    (index : List Nat) (s : Nat) :
    ∀ x ∈ ownersOf next { c with replicaN := 1 } index s, x ∈ ownersOf next c index s := by
  intro x hx
  have e1 := shardNodes_total hnext { c with replicaN := 1 } index s
  have e2 := shardNodes_total hnext c index s
  unfold shardNodes at e1 e2
  obtain ⟨l1, h1, hlen1, hget1⟩ := partitionNodes_get hnext { c with replicaN := 1 } (partition c.partitionN index s)
  obtain ⟨l2, h2, hlen2, hget2⟩ := partitionNodes_get hnext c (partition c.partitionN index s)
  rw [h1] at e1; rw [h2] at e2
  have e1' := Out.ok.inj e1
  have e2' := Out.ok.inj e2
  rw [← e1'] at hx
  rw [← e2']
  obtain ⟨k, hk⟩ := List.mem_iff_getElem?.mp hx
  have hklt : k < l1.length := by
    rcases List.getElem?_eq_some_iff.mp hk with ⟨h, _⟩; exact h
  simp only at hlen1 hget1
  have hk0 : k = 0 := by omega
  subst hk0
  have hn : 0 < c.nodes.length := by omega
  have h2len : 0 < l2.length := by rw [hlen2]; omega
  rw [hget1 0 hklt] at hk
  rw [← hget2 0 h2len] at hk
  exact List.mem_of_getElem? hk

theorem owners_replica1_nil_iff {next : Nat → BitVec 64 → Nat} (hnext : ∀ b k, b < next b k) (c : Cluster)
    (index : List Nat) (s : Nat) :
    ownersOf next { c with replicaN := 1 } index s = [] ↔ ownersOf next c index s = [] := by
  have e1 := shardNodes_total hnext { c with replicaN := 1 } index s
  have e2 := shardNodes_total hnext c index s
  unfold shardNodes at e1 e2
  obtain ⟨l1, h1, hlen1, _⟩ := partitionNodes_get hnext { c with replicaN := 1 } (partition c.partitionN index s)
  obtain ⟨l2, h2, hlen2, _⟩ := partitionNodes_get hnext c (partition c.partitionN index s)
  rw [h1] at e1; rw [h2] at e2
  rw [← Out.ok.inj e1, ← Out.ok.inj e2]
  simp only at hlen1
  rw [← List.length_eq_zero_iff, ← List.length_eq_zero_iff, hlen1, hlen2]
  omega

theorem length_insertSorted (x : Id) : ∀ (l : List Id), (insertSorted x l).length = l.length + 1
  | [] => rfl
  | y :: ys => by
    simp only [insertSorted]
    split
    · simp [length_insertSorted x ys]
    · simp

theorem length_sortIds : ∀ (l : List Id), (sortIds l).length = l.length
  | [] => rfl
  | x :: xs => by simp [sortIds, length_insertSorted, length_sortIds xs]

theorem length_addNode {l : List Id} {id : Id} (h : id ∉ l) : (addNode l id).length = l.length + 1 := by
  simp [addNode, h, length_sortIds]

theorem length_removeNode : ∀ {l : List Id} {id : Id}, id ∈ l → (removeNode l id).length + 1 = l.length
  | [], _, h => by simp at h
  | y :: ys, id, h => by
    simp only [removeNode]
    split
    · simp
    · rename_i hne
      have : id ∈ ys := by
        rcases mem_cons.mp h with e | h'
        · exact absurd e.symm hne
        · exact h'
      simp [length_removeNode this]

/-! ### the model refines the order-free specification -/

def specApply (s : List Id) : Ev → List Id
  | .join id => Spec.join s id
  | .leave id => Spec.leave s id

theorem mem_specJoin {s : List Id} {id x : Id} : x ∈ Spec.join s id ↔ x = id ∨ x ∈ s := by
  unfold Spec.join
  split
  · rename_i h
    have : id ∈ s := by simpa using h
    constructor
    · exact Or.inr
    · rintro (rfl | h') <;> assumption
  · simp

theorem mem_specLeave {s : List Id} {id x : Id} : x ∈ Spec.leave s id ↔ x ∈ s ∧ x ≠ id := by
  simp [Spec.leave]

theorem specApply_nodup {s : List Id} (h : s.Nodup) (e : Ev) : (specApply s e).Nodup := by
  cases e with
  | join id =>
    simp only [specApply, Spec.join]
    split
    · exact h
    · rename_i hc
      exact nodup_cons.mpr ⟨by simpa using hc, h⟩
  | leave id => exact h.sublist (List.filter_sublist)

theorem run_spec_mem : ∀ (evs : List Ev) (l s : List Id), Sorted l → (∀ x, x ∈ l ↔ x ∈ s) →
    ∀ x, x ∈ evs.foldl applyEv l ↔ x ∈ evs.foldl specApply s
  | [], _, _, _, h => h
  | e :: es, l, _, hl, h => by
    simp only [foldl_cons]
    apply run_spec_mem es _ _ (applyEv_sorted hl e)
    intro x
    cases e with
    | join id => simp only [applyEv, specApply, mem_addNode, mem_specJoin, h x]
    | leave id => simp only [applyEv, specApply, mem_removeNode hl.nodup, mem_specLeave, h x]

theorem foldl_specApply_nodup : ∀ (evs : List Ev) (s : List Id), s.Nodup → (evs.foldl specApply s).Nodup
  | [], _, h => h
  | e :: es, _, h => foldl_specApply_nodup es _ (specApply_nodup h e)

theorem members_sorted {s : List Id} (h : s.Nodup) : Sorted (Spec.members s) := by
  unfold Spec.members
  have hp := List.pairwise_mergeSort (le := fun a b => !idLt b a)
    (by
      intro a b c hab hbc
      simp only [Bool.not_eq_true'] at hab hbc ⊢
      cases hca : idLt c a with
      | false => rfl
      | true =>
        -- c < a, not b < a, not c < b  ⇒  contradiction by trichotomy on b, c
        cases hcb' : idLt b c with
        | true =>
          have := idLt_trans hcb' hca
          rw [hab] at this; cases this
        | false =>
          have : b = c := idLt_tri hcb' hbc
          subst this
          rw [hab] at hca; cases hca)
    (by
      intro a b
      cases hba : idLt b a with
      | false => simp
      | true => simp [idLt_asymm hba])
    s
  have hnd : (s.mergeSort (fun a b => !idLt b a)).Nodup := (List.mergeSort_perm s _).nodup_iff.mpr h
  unfold Sorted
  have := hp.and hnd
  refine this.imp ?_
  rintro a b ⟨hab, hne⟩
  simp only [Bool.not_eq_true'] at hab
  cases h' : idLt a b with
  | true => rfl
  | false => exact absurd (idLt_tri h' hab) hne

theorem mem_members {s : List Id} {x : Id} : x ∈ Spec.members s ↔ x ∈ s :=
  (List.mergeSort_perm s _).mem_iff

/-- The node list a cluster value holds after any history is the specification's ring: the
member set in ascending id order. -/
theorem run_eq_members (evs : List Ev) : run evs = Spec.members (evs.foldl specApply []) := by
  apply sorted_unique (run_sorted evs) (members_sorted (foldl_specApply_nodup evs [] (by simp)))
  intro x
  rw [mem_members]
  exact run_spec_mem evs [] [] (by simp [Sorted]) (fun _ => Iff.rfl) x

theorem rotate_take_get (nodes : List Id) (H K k : Nat) (hH : H < nodes.length) (hK : K ≤ nodes.length) :
    ((Spec.rotate nodes H).take K)[k]? = if k < K then nodes[(H + k) % nodes.length]? else none := by
  unfold Spec.rotate
  rw [List.getElem?_take]
  by_cases hk : k < K
  · simp only [hk, if_true]
    by_cases h1 : k < nodes.length - H
    · rw [List.getElem?_append_left (by simp; omega), List.getElem?_drop]
      rw [Nat.mod_eq_of_lt (by omega)]
    · rw [List.getElem?_append_right (by simp; omega)]
      simp only [length_drop]
      rw [List.getElem?_take]
      have : k - (nodes.length - H) < H := by omega
      simp only [this, if_true]
      congr 1
      have h2 : H + k = (H + k - nodes.length) + nodes.length := by omega
      rw [h2, Nat.add_mod_right, Nat.mod_eq_of_lt (by omega)]
      omega
  · simp [hk]

/-- `partitionNodes` on the ring computes the specification's owner list. -/
theorem partitionNodes_eq_spec {next : Nat → BitVec 64 → Nat} (hnext : ∀ b k, b < next b k)
    (s : List Id) (r pn p : Nat) :
    ∃ l, partitionNodes next { nodes := Spec.members s, replicaN := r, partitionN := pn } p = .ok l ∧
      Spec.owners next s r p = some l := by
  obtain ⟨l, hl, hlen, hget⟩ := partitionNodes_get hnext { nodes := Spec.members s, replicaN := r, partitionN := pn } p
  refine ⟨l, hl, ?_⟩
  simp only at hlen hget
  unfold Spec.owners
  simp only
  by_cases hn : (Spec.members s).length = 0
  · simp only [hn, if_true]
    have : l.length = 0 := by rw [hlen, hn]; simp
    rw [List.length_eq_zero_iff.mp this]
  · simp only [hn, if_false]
    obtain ⟨h, hh, h0, hlt⟩ := hash_range hnext (BitVec.ofNat 64 p) (Nat.pos_of_ne_zero hn)
    simp only [hh]
    have hH : primaryIdx next (Spec.members s).length p = h.toNat := by simp [primaryIdx, hh]
    rw [hH] at hget
    have hHlt : h.toNat < (Spec.members s).length := by omega
    congr 1
    apply List.ext_getElem?
    intro k
    rw [Nat.mod_eq_of_lt hHlt, rotate_take_get _ _ _ _ hHlt (Nat.min_le_right _ _)]
    by_cases hk : k < min (max r 1) (Spec.members s).length
    · simp only [hk, if_true]
      exact (hget k (by rw [hlen]; exact hk)).symm
    · simp only [hk, if_false]
      exact (List.getElem?_eq_none (by rw [hlen]; omega)).symm

end PV.C20
