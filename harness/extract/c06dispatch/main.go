// c06dispatch extracts, from the current source tree, the facts the C06 dispatch model needs:
//
//   - broadcast.go: the messageType* constants (in iota order), the message struct getMessage
//     returns for each, and whether its default branch panics;
//   - api.go (API.ClusterMessage): whether `len(body) == 0` is checked before `body[0]`, and
//     whether the result of getMessage is nil-checked;
//   - server.go (Server.receiveMessage): per case of the type switch, the variables assigned from
//     s.holder.Index(...) / s.holder.Field(...) and whether each is compared with nil (with a
//     return in the if body) before its first other use;
//   - api.go (importWorker): whether `len(viewData) < 2` (or a stronger bound) is checked before
//     `viewData[0:2]`.
//
// Output: a Lean file (namespace PV.C06.Gen) written to --out.  With --selftest the extractor
// runs on in-memory mutants of the three files (nil check removed, length check removed, panic
// restored) and verifies that the extracted facts change accordingly.
package main

import (
	"encoding/json"
	"flag"
	"fmt"
	"go/ast"
	"go/parser"
	"go/token"
	"os"
	"path/filepath"
	"sort"
	"strings"
)

type lookup struct {
	Var        string
	Kind       string // "index" | "field"
	NilChecked bool
}

type handler struct {
	Msg     string
	Lookups []lookup
}

type facts struct {
	MsgTypes           []string // constant names, iota order
	GetMessage         map[string]string
	DefaultPanics      bool
	BodyLenChecked     bool
	UnknownTypeChecked bool
	Handlers           []handler
	ViewDataChecked    bool
	// pql: Parse's recover filter and the panic sites of the action machine (pql/ast.go)
	PQLConsts          map[string]string // const name -> text (string constants of pql/parser.go)
	PQLFilter          []string          // const names Parse tests with strings.HasPrefix before returning an error
	PQLNonStringIsErr  bool              // a recovered non-string value (runtime error) is returned as an error
	PQLSites           []pqlSite
}

type pqlSite struct {
	Func  string
	Kind  string // "const": message starts with a named constant; "invariant": literal message
	Const string // constant name (Kind const)
	Text  string // message prefix: the constant's text, or the literal up to the first verb
}

func parse(src string, name string) (*ast.File, *token.FileSet) {
	fset := token.NewFileSet()
	f, err := parser.ParseFile(fset, name, src, 0)
	if err != nil {
		fail("parse " + name + ": " + err.Error())
	}
	return f, fset
}

func fail(msg string) {
	fmt.Fprintln(os.Stderr, "c06dispatch:", msg)
	os.Exit(1)
}

func funcDecl(f *ast.File, recv, name string) *ast.FuncDecl {
	for _, d := range f.Decls {
		fd, ok := d.(*ast.FuncDecl)
		if !ok || fd.Name.Name != name {
			continue
		}
		if recv == "" && fd.Recv == nil {
			return fd
		}
		if recv != "" && fd.Recv != nil && len(fd.Recv.List) == 1 {
			t := fd.Recv.List[0].Type
			if st, ok := t.(*ast.StarExpr); ok {
				t = st.X
			}
			if id, ok := t.(*ast.Ident); ok && id.Name == recv {
				return fd
			}
		}
	}
	return nil
}

func hasReturn(b *ast.BlockStmt) bool {
	for _, s := range b.List {
		if _, ok := s.(*ast.ReturnStmt); ok {
			return true
		}
	}
	return false
}

// isNilCheck: `if v == nil { ... return ... }`
func isNilCheck(s ast.Stmt, v string) bool {
	is, ok := s.(*ast.IfStmt)
	if !ok || is.Init != nil {
		return false
	}
	be, ok := is.Cond.(*ast.BinaryExpr)
	if !ok || be.Op != token.EQL {
		return false
	}
	x, ok1 := be.X.(*ast.Ident)
	y, ok2 := be.Y.(*ast.Ident)
	return ok1 && ok2 && x.Name == v && y.Name == "nil" && hasReturn(is.Body)
}

func uses(n ast.Node, v string) bool {
	found := false
	ast.Inspect(n, func(m ast.Node) bool {
		if id, ok := m.(*ast.Ident); ok && id.Name == v {
			found = true
		}
		return !found
	})
	return found
}

// lenCheck: `if len(v) == 0 {return}` (min 1) or `if len(v) < k {return}` (min k); 0 if s is not such a check.
func lenCheck(s ast.Stmt, v string) int {
	is, ok := s.(*ast.IfStmt)
	if !ok || !hasReturn(is.Body) {
		return 0
	}
	be, ok := is.Cond.(*ast.BinaryExpr)
	if !ok {
		return 0
	}
	call, ok := be.X.(*ast.CallExpr)
	if !ok || len(call.Args) != 1 {
		return 0
	}
	fn, ok := call.Fun.(*ast.Ident)
	arg, ok2 := call.Args[0].(*ast.Ident)
	lit, ok3 := be.Y.(*ast.BasicLit)
	if !ok || !ok2 || !ok3 || fn.Name != "len" || arg.Name != v {
		return 0
	}
	k := 0
	fmt.Sscan(lit.Value, &k)
	switch be.Op {
	case token.EQL:
		if k == 0 {
			return 1
		}
	case token.LSS:
		return k
	case token.LEQ:
		return k + 1
	}
	return 0
}

func extract(broadcast, api, server, pqlParser, pqlAst string) facts {
	var fx facts
	fx.GetMessage = map[string]string{}
	// ---- broadcast.go
	bf, _ := parse(broadcast, "broadcast.go")
	for _, d := range bf.Decls {
		gd, ok := d.(*ast.GenDecl)
		if !ok || gd.Tok != token.CONST {
			continue
		}
		var names []string
		for _, sp := range gd.Specs {
			for _, n := range sp.(*ast.ValueSpec).Names {
				names = append(names, n.Name)
			}
		}
		if len(names) > 0 && strings.HasPrefix(names[0], "messageType") {
			fx.MsgTypes = names
		}
	}
	gm := funcDecl(bf, "", "getMessage")
	if gm == nil || len(fx.MsgTypes) == 0 {
		fail("broadcast.go: getMessage or the messageType constants not found")
	}
	for _, s := range gm.Body.List {
		sw, ok := s.(*ast.SwitchStmt)
		if !ok {
			continue
		}
		for _, c := range sw.Body.List {
			cc := c.(*ast.CaseClause)
			if cc.List == nil { // default
				for _, st := range cc.Body {
					if es, ok := st.(*ast.ExprStmt); ok {
						if call, ok := es.X.(*ast.CallExpr); ok {
							if id, ok := call.Fun.(*ast.Ident); ok && id.Name == "panic" {
								fx.DefaultPanics = true
							}
						}
					}
				}
				continue
			}
			for _, e := range cc.List {
				id, ok := e.(*ast.Ident)
				if !ok {
					continue
				}
				for _, st := range cc.Body {
					rs, ok := st.(*ast.ReturnStmt)
					if !ok || len(rs.Results) != 1 {
						continue
					}
					if ue, ok := rs.Results[0].(*ast.UnaryExpr); ok {
						if cl, ok := ue.X.(*ast.CompositeLit); ok {
							if t, ok := cl.Type.(*ast.Ident); ok {
								fx.GetMessage[id.Name] = t.Name
							}
						}
					}
				}
			}
		}
	}
	// ---- api.go
	af, _ := parse(api, "api.go")
	cm := funcDecl(af, "API", "ClusterMessage")
	if cm == nil {
		fail("api.go: API.ClusterMessage not found")
	}
	seenLen, seenIndex := false, false
	msgVar, msgChecked, msgUsed := "", false, false
	for _, s := range cm.Body.List {
		if lenCheck(s, "body") >= 1 && !seenIndex {
			seenLen = true
		}
		if msgVar != "" && !msgUsed {
			if isNilCheck(s, msgVar) {
				msgChecked = true
			} else if uses(s, msgVar) {
				msgUsed = true
			}
		}
		ast.Inspect(s, func(n ast.Node) bool {
			if ix, ok := n.(*ast.IndexExpr); ok {
				if id, ok := ix.X.(*ast.Ident); ok && id.Name == "body" && !seenIndex {
					seenIndex = true
					fx.BodyLenChecked = seenLen
				}
			}
			if as, ok := n.(*ast.AssignStmt); ok && len(as.Rhs) == 1 {
				if call, ok := as.Rhs[0].(*ast.CallExpr); ok {
					if id, ok := call.Fun.(*ast.Ident); ok && id.Name == "getMessage" {
						if l, ok := as.Lhs[0].(*ast.Ident); ok {
							msgVar = l.Name
						}
					}
				}
			}
			return true
		})
	}
	if !seenIndex || msgVar == "" {
		fail("api.go: body[0] / getMessage call not found in ClusterMessage")
	}
	fx.UnknownTypeChecked = !fx.DefaultPanics && msgChecked
	// importWorker: viewData[0:2]
	iw := funcDecl(af, "", "importWorker")
	if iw == nil {
		fail("api.go: importWorker not found")
	}
	minLen, sliced := 0, false
	ast.Inspect(iw.Body, func(n ast.Node) bool {
		if sliced {
			return false
		}
		switch x := n.(type) {
		case *ast.IfStmt:
			if k := lenCheck(x, "viewData"); k > minLen {
				minLen = k
			}
		case *ast.SliceExpr:
			if id, ok := x.X.(*ast.Ident); ok && id.Name == "viewData" {
				sliced = true
				fx.ViewDataChecked = minLen >= 2
			}
		}
		return true
	})
	if !sliced {
		fail("api.go: viewData slice expression not found in importWorker")
	}
	// ---- server.go
	sf, _ := parse(server, "server.go")
	rm := funcDecl(sf, "Server", "receiveMessage")
	if rm == nil {
		fail("server.go: Server.receiveMessage not found")
	}
	var ts *ast.TypeSwitchStmt
	for _, s := range rm.Body.List {
		if t, ok := s.(*ast.TypeSwitchStmt); ok {
			ts = t
		}
	}
	if ts == nil {
		fail("server.go: type switch not found in receiveMessage")
	}
	for _, c := range ts.Body.List {
		cc := c.(*ast.CaseClause)
		if len(cc.List) != 1 {
			continue
		}
		name := ""
		if st, ok := cc.List[0].(*ast.StarExpr); ok {
			if id, ok := st.X.(*ast.Ident); ok {
				name = id.Name
			}
		}
		if name == "" {
			continue
		}
		h := handler{Msg: name}
		for i, s := range cc.Body {
			as, ok := s.(*ast.AssignStmt)
			if !ok || len(as.Lhs) != 1 || len(as.Rhs) != 1 {
				continue
			}
			call, ok := as.Rhs[0].(*ast.CallExpr)
			if !ok {
				continue
			}
			sel, ok := call.Fun.(*ast.SelectorExpr)
			if !ok || (sel.Sel.Name != "Index" && sel.Sel.Name != "Field") {
				continue
			}
			inner, ok := sel.X.(*ast.SelectorExpr)
			if !ok || inner.Sel.Name != "holder" {
				continue
			}
			v := as.Lhs[0].(*ast.Ident).Name
			lk := lookup{Var: v, Kind: strings.ToLower(sel.Sel.Name)}
			for _, later := range cc.Body[i+1:] {
				if isNilCheck(later, v) {
					lk.NilChecked = true
					break
				}
				if uses(later, v) {
					break
				}
			}
			h.Lookups = append(h.Lookups, lk)
		}
		fx.Handlers = append(fx.Handlers, h)
	}
	// ---- pql/parser.go, pql/ast.go
	fx.PQLConsts = map[string]string{}
	pf, _ := parse(pqlParser, "pql/parser.go")
	for _, d := range pf.Decls {
		gd, ok := d.(*ast.GenDecl)
		if !ok || gd.Tok != token.CONST {
			continue
		}
		for _, sp := range gd.Specs {
			vs := sp.(*ast.ValueSpec)
			for i, n := range vs.Names {
				if i < len(vs.Values) {
					if bl, ok := vs.Values[i].(*ast.BasicLit); ok && bl.Kind == token.STRING {
						var txt string
						fmt.Sscanf(bl.Value, "%q", &txt)
						fx.PQLConsts[n.Name] = txt
					}
				}
			}
		}
	}
	pp := funcDecl(pf, "parser", "Parse")
	if pp == nil {
		fail("pql/parser.go: parser.Parse not found")
	}
	sawRecover := false
	ast.Inspect(pp.Body, func(n ast.Node) bool {
		switch x := n.(type) {
		case *ast.CallExpr:
			if id, ok := x.Fun.(*ast.Ident); ok && id.Name == "recover" {
				sawRecover = true
			}
			if sel, ok := x.Fun.(*ast.SelectorExpr); ok && sel.Sel.Name == "HasPrefix" && len(x.Args) == 2 {
				if id, ok := x.Args[1].(*ast.Ident); ok {
					fx.PQLFilter = append(fx.PQLFilter, id.Name)
				}
			}
		case *ast.IfStmt:
			// `if !ok { return nil, fmt.Errorf(...) }` after `errorMessage, ok := v.(string)`
			if ue, ok := x.Cond.(*ast.UnaryExpr); ok && ue.Op == token.NOT {
				if id, ok := ue.X.(*ast.Ident); ok && id.Name == "ok" && hasReturn(x.Body) {
					fx.PQLNonStringIsErr = true
				}
			}
		}
		return true
	})
	if !sawRecover {
		fail("pql/parser.go: no recover() in parser.Parse")
	}
	af2, _ := parse(pqlAst, "pql/ast.go")
	for _, d := range af2.Decls {
		fd, ok := d.(*ast.FuncDecl)
		if !ok || fd.Body == nil {
			continue
		}
		ast.Inspect(fd.Body, func(n ast.Node) bool {
			call, ok := n.(*ast.CallExpr)
			if !ok {
				return true
			}
			id, ok := call.Fun.(*ast.Ident)
			if !ok || id.Name != "panic" || len(call.Args) != 1 {
				return true
			}
			site := pqlSite{Func: fd.Name.Name, Kind: "invariant"}
			if sp, ok := call.Args[0].(*ast.CallExpr); ok && len(sp.Args) >= 1 {
				if bl, ok := sp.Args[0].(*ast.BasicLit); ok && bl.Kind == token.STRING {
					var f string
					fmt.Sscanf(bl.Value, "%q", &f)
					if strings.HasPrefix(f, "%s") && len(sp.Args) >= 2 {
						if cid, ok := sp.Args[1].(*ast.Ident); ok {
							if txt, isConst := fx.PQLConsts[cid.Name]; isConst {
								site.Kind, site.Const, site.Text = "const", cid.Name, txt
							}
						}
					}
					if site.Kind == "invariant" {
						if i := strings.IndexByte(f, '%'); i >= 0 {
							f = f[:i]
						}
						site.Text = f
					}
				}
			} else if bl, ok := call.Args[0].(*ast.BasicLit); ok && bl.Kind == token.STRING {
				fmt.Sscanf(bl.Value, "%q", &site.Text)
			}
			fx.PQLSites = append(fx.PQLSites, site)
			return true
		})
	}
	if len(fx.PQLSites) == 0 {
		fail("pql/ast.go: no panic sites found (the extractor no longer understands the file)")
	}
	return fx
}

func leanBool(b bool) string {
	if b {
		return "true"
	}
	return "false"
}

func render(fx facts) string {
	var sb strings.Builder
	sb.WriteString("/-\nGENERATED by harness/extract/c06dispatch from broadcast.go, api.go, server.go of the tree under\ncheck. Do not edit: bin/check regenerates it before building PV.C06.Props.\n-/\nnamespace PV.C06.Gen\n\n")
	sb.WriteString("structure Lookup where\n  var : String\n  kind : String\n  nilChecked : Bool\n  deriving Repr, DecidableEq\n\n")
	fmt.Fprintf(&sb, "/-- `len(body) == 0` is checked before `body[0]` in API.ClusterMessage. -/\ndef bodyLenChecked : Bool := %s\n\n", leanBool(fx.BodyLenChecked))
	fmt.Fprintf(&sb, "/-- getMessage's default branch does not panic and ClusterMessage nil-checks its result. -/\ndef unknownTypeChecked : Bool := %s\n\n", leanBool(fx.UnknownTypeChecked))
	fmt.Fprintf(&sb, "/-- importWorker checks `len(viewData) >= 2` before `viewData[0:2]`. -/\ndef viewDataChecked : Bool := %s\n\n", leanBool(fx.ViewDataChecked))
	sb.WriteString("/-- type byte ↦ message struct that getMessage returns (iota order of the messageType constants). -/\ndef msgTypes : List (Nat × String) := [\n")
	var rows []string
	for i, n := range fx.MsgTypes {
		if m, ok := fx.GetMessage[n]; ok {
			rows = append(rows, fmt.Sprintf("  (%d, %q)", i, m))
		}
	}
	sb.WriteString(strings.Join(rows, ",\n") + "]\n\n")
	sb.WriteString("/-- Server.receiveMessage: per message struct, the holder lookups and whether each result is\nnil-checked before use. -/\ndef handlers : List (String × List Lookup) := [\n")
	rows = nil
	hs := append([]handler(nil), fx.Handlers...)
	sort.SliceStable(hs, func(i, j int) bool { return hs[i].Msg < hs[j].Msg })
	for _, h := range hs {
		var ls []string
		for _, l := range h.Lookups {
			ls = append(ls, fmt.Sprintf("⟨%q, %q, %s⟩", l.Var, l.Kind, leanBool(l.NilChecked)))
		}
		rows = append(rows, fmt.Sprintf("  (%q, [%s])", h.Msg, strings.Join(ls, ", ")))
	}
	sb.WriteString(strings.Join(rows, ",\n") + "]\n\n")
	sb.WriteString("/-- pql/parser.go Parse: message prefixes (string constants) for which a recovered string panic\nis returned as an error; any other string panic is re-panicked. -/\ndef pqlFilterPrefixes : List String := [")
	var fs []string
	for _, n := range fx.PQLFilter {
		fs = append(fs, fmt.Sprintf("%q", fx.PQLConsts[n]))
	}
	sb.WriteString(strings.Join(fs, ", ") + "]\n\n")
	fmt.Fprintf(&sb, "/-- a recovered non-string value (a runtime error inside Execute) is returned as an error. -/\ndef pqlNonStringIsError : Bool := %s\n\n", leanBool(fx.PQLNonStringIsErr))
	sb.WriteString("/-- panic sites of the action machine (pql/ast.go): function, kind (`const`: the message starts with\nthe named string constant; `invariant`: a literal message guarding an internal invariant), message prefix. -/\ndef pqlPanicSites : List (String × String × String) := [\n")
	rows = nil
	for _, st := range fx.PQLSites {
		rows = append(rows, fmt.Sprintf("  (%q, %q, %q)", st.Func, st.Kind, st.Text))
	}
	sb.WriteString(strings.Join(rows, ",\n") + "]\n\nend PV.C06.Gen\n")
	return sb.String()
}

func read(p string) string {
	b, err := os.ReadFile(p)
	if err != nil {
		fail(err.Error())
	}
	return string(b)
}

func selftest(broadcast, api, server, pqlParser, pqlAst string) {
	base := extract(broadcast, api, server, pqlParser, pqlAst)
	type mut struct {
		name string
		run  func() facts
		bad  func(facts) bool
	}
	mustReplace := func(s, old, new string) string {
		if !strings.Contains(s, old) {
			fail("selftest: pattern not found: " + old)
		}
		return strings.Replace(s, old, new, 1)
	}
	muts := []mut{
		{"nil check of DeleteFieldMessage's index removed",
			func() facts {
				return extract(broadcast, api, mustReplace(server, "case *DeleteFieldMessage:\n\t\tidx := s.holder.Index(obj.Index)\n\t\tif idx == nil {", "case *DeleteFieldMessage:\n\t\tidx := s.holder.Index(obj.Index)\n\t\tif false {"), pqlParser, pqlAst)
			},
			func(f facts) bool {
				for _, h := range f.Handlers {
					if h.Msg == "DeleteFieldMessage" {
						return len(h.Lookups) == 1 && !h.Lookups[0].NilChecked
					}
				}
				return false
			}},
		{"empty-body check removed from ClusterMessage",
			func() facts { return extract(broadcast, mustReplace(api, "if len(body) == 0 {", "if false {"), server, pqlParser, pqlAst) },
			func(f facts) bool { return !f.BodyLenChecked }},
		{"getMessage default panics again",
			func() facts { return extract(mustReplace(broadcast, "\t\treturn nil\n\t}\n}", "\t\tpanic(\"unknown\")\n\t}\n}"), api, server, pqlParser, pqlAst) },
			func(f facts) bool { return f.DefaultPanics && !f.UnknownTypeChecked }},
		{"viewData length check removed from importWorker",
			func() facts { return extract(broadcast, mustReplace(api, "if len(viewData) < 2 {", "if false {"), server, pqlParser, pqlAst) },
			func(f facts) bool { return !f.ViewDataChecked }},
		{"invalid-string-literal prefix dropped from Parse's recover filter",
			func() facts {
				return extract(broadcast, api, server, mustReplace(pqlParser, " || strings.HasPrefix(errorMessage, invalidStringLiteralError)", ""), pqlAst)
			},
			func(f facts) bool {
				in := false
				for _, n := range f.PQLFilter {
					in = in || n == "invalidStringLiteralError"
				}
				return !in && len(f.PQLFilter) == 2
			}},
		{"a new named panic prefix in the action machine",
			func() facts {
				return extract(broadcast, api, server, mustReplace(pqlParser, "const intOutOfRangeError", "const brandNewError = \"brand new\"\nconst intOutOfRangeError"),
					mustReplace(pqlAst, "panic(fmt.Sprintf(\"%s: %s\", intOutOfRangeError, err))", "panic(fmt.Sprintf(\"%s: %s\", brandNewError, err))"))
			},
			func(f facts) bool {
				for _, st := range f.PQLSites {
					if st.Kind == "const" && st.Const == "brandNewError" {
						return true
					}
				}
				return false
			}},
	}
	ok := base.BodyLenChecked && base.UnknownTypeChecked && base.ViewDataChecked && len(base.PQLFilter) >= 1 && base.PQLNonStringIsErr
	what := []string{}
	for _, m := range muts {
		if !m.bad(m.run()) {
			ok = false
			what = append(what, "NOT DETECTED: "+m.name)
		} else {
			what = append(what, "detected: "+m.name)
		}
	}
	v := map[string]interface{}{"ok": ok, "evaluations": len(muts), "distinct_nontrivial": len(muts), "found": false,
		"what": "translator self-test on mutated copies of broadcast.go/api.go/server.go/pql/parser.go/pql/ast.go: " + strings.Join(what, "; ")}
	b, _ := json.Marshal(v)
	fmt.Println(string(b))
}

func main() {
	repo := flag.String("repo", "/repo", "source tree")
	out := flag.String("out", "", "Lean file to write")
	st := flag.Bool("selftest", false, "run the mutation self-test and print a JSON verdict")
	flag.Parse()
	broadcast := read(filepath.Join(*repo, "broadcast.go"))
	api := read(filepath.Join(*repo, "api.go"))
	server := read(filepath.Join(*repo, "server.go"))
	pqlParser := read(filepath.Join(*repo, "pql", "parser.go"))
	pqlAst := read(filepath.Join(*repo, "pql", "ast.go"))
	if *st {
		selftest(broadcast, api, server, pqlParser, pqlAst)
		return
	}
	fx := extract(broadcast, api, server, pqlParser, pqlAst)
	txt := render(fx)
	if *out == "" {
		fmt.Print(txt)
		return
	}
	if old, err := os.ReadFile(*out); err == nil && string(old) == txt {
		return // unchanged: keep the timestamp so lake does not rebuild
	}
	if err := os.WriteFile(*out, []byte(txt), 0o644); err != nil {
		fail(err.Error())
	}
}
