#!/usr/bin/env python3
"""Self-test of the C27 translator (extra check of props/C27.json).

Mutates a scratch copy of encoding/proto/proto.go (outside the repo), translates it and checks that
every mutation is noticed: the translator fails loudly (unknown construct, stale fingerprint of a
hand-modelled function) or the generated theorems no longer check (`lean` on the scratch Gen.lean
fails).  Quick tier: the two mutations the translator rejects by itself; thorough: all nine.  Last stdout line: JSON verdict."""
import json, os, shutil, subprocess, sys, tempfile

repo, tier, seed = os.path.abspath(sys.argv[1]), sys.argv[2], int(sys.argv[3])
here = os.path.dirname(os.path.abspath(__file__))
root = os.path.dirname(os.path.dirname(os.path.dirname(os.path.dirname(here))))
harn = os.path.join(root, "harness")
lean = os.path.join(root, "lean")
env = dict(os.environ, GOFLAGS="-mod=mod", GOPROXY="off", GOSUMDB="off", GOTOOLCHAIN="local")
src = open(os.path.join(repo, "encoding/proto/proto.go")).read()

MUTATIONS = [
    ("encodeNode drops State", "\t\tIsCoordinator: n.IsCoordinator,\n\t\tState:         n.State,\n", "\t\tIsCoordinator: n.IsCoordinator,\n"),
    ("decodeURI copies the wrong field", "\tm.Host = i.Host\n", "\tm.Host = i.Scheme\n"),
    ("decodeNodeStatus does not decode the node", "\tm.Node = &pilosa.Node{}\n\tdecodeNode(pb.Node, m.Node)\n\tm.Indexes", "\tm.Node = &pilosa.Node{}\n\tm.Indexes"),
    ("decodeNode loses its nil guard", "func decodeNode(node *internal.Node, m *pilosa.Node) {\n\tif node == nil {\n\t\treturn\n\t}\n", "func decodeNode(node *internal.Node, m *pilosa.Node) {\n"),
    ("encodeFieldOptions drops NoStandardView", "\t\tNoStandardView: o.NoStandardView,\n", ""),
    ("encodeFieldRows swaps key and id", "\t\t\t\tField:  fr.Field,\n\t\t\t\tRowKey: fr.RowKey,\n", "\t\t\t\tField:  fr.RowKey,\n\t\t\t\tRowKey: fr.Field,\n"),
    ("decodeQueryResult panics again on an unknown type", "\treturn nil, fmt.Errorf(\"unknown query result type: %d\", pb.Type)\n", "\tpanic(fmt.Sprintf(\"unknown type: %d\", pb.Type))\n"),
    ("decodeFieldStatus (translated: Bitmap.Slice / roaring.NewBitmap) drops the name", "\tm.Name = pb.Name\n\tm.AvailableShards = roaring.NewBitmap(pb.AvailableShards...)\n", "\tm.AvailableShards = roaring.NewBitmap(pb.AvailableShards...)\n"),
    ("hand-modelled encodeAttr edited", "\tcase uint64:\n\t\tpb.Type = attrTypeInt\n\t\tpb.IntValue = int64(value)\n", "\tcase uint64:\n\t\tpb.Type = attrTypeInt\n\t\tpb.IntValue = -int64(value)\n"),
    ("unknown construct", "func decodeImportResponse(pb *internal.ImportResponse, m *pilosa.ImportResponse) {\n\tm.Err = pb.Err\n", "func decodeImportResponse(pb *internal.ImportResponse, m *pilosa.ImportResponse) {\n\tfor i := 0; i < 1; i++ {\n\t\tm.Err = pb.Err\n\t}\n"),
]
# quick tier: the two mutations the translator itself rejects (fast); the eight that break a generated
# proof need a Lean run each and are left to the thorough tier
todo = MUTATIONS if tier == "thorough" else MUTATIONS[-2:]

tmp = tempfile.mkdtemp(prefix="c27-selftest-")
caught, missed, details = 0, [], []
try:
    binp = os.path.join(tmp, "codec.bin")
    p = subprocess.run(["go", "build", "-o", binp, "./extract/codec"], cwd=harn, env=env, stdout=subprocess.PIPE, stderr=subprocess.STDOUT, text=True)
    if p.returncode != 0:
        print(json.dumps({"ok": False, "found": False, "what": "translator does not build: " + p.stdout[-300:]}))
        sys.exit(0)
    for name, old, new in todo:
        if old not in src:
            missed.append(name + " (pattern not found in proto.go: update the self-test)")
            continue
        mp = os.path.join(tmp, "proto.go")
        open(mp, "w").write(src.replace(old, new, 1))
        gen, types = os.path.join(tmp, "Gen.lean"), os.path.join(tmp, "GenTypes.lean")
        p1 = subprocess.run([binp, "--repo", repo, "--proto", mp, "--types", types, "--out", gen,
                             "--hand", os.path.join(lean, "PV/C27/Hand.lean")], stdout=subprocess.PIPE, stderr=subprocess.STDOUT, text=True)
        if p1.returncode != 0:
            caught += 1
            details.append(name + ": translator: " + p1.stdout.strip().split("\n")[0][:140])
            continue
        if open(types).read() != open(os.path.join(lean, "PV/C27/GenTypes.lean")).read():
            caught += 1
            details.append(name + ": generated types differ")
            continue
        p2 = subprocess.run(["lean", gen], cwd=lean, env=dict(os.environ, LEAN_PATH=os.path.join(lean, ".lake/build/lib/lean")),
                            stdout=subprocess.PIPE, stderr=subprocess.STDOUT, text=True)
        if p2.returncode != 0 and "error" in p2.stdout:
            caught += 1
            first = [l for l in p2.stdout.split("\n") if "error" in l][0]
            details.append(name + ": proof: " + first[:140])
        else:
            missed.append(name)
finally:
    shutil.rmtree(tmp, ignore_errors=True)
ok = not missed
for d in details:
    print("#", d)
print(json.dumps({"ok": ok, "evaluations": len(todo), "distinct_nontrivial": caught, "found": False,
                  "what": ("translator self-test: %d/%d mutations of proto.go noticed" % (caught, len(todo))) +
                          ("" if ok else "; MISSED: " + "; ".join(missed)),
                  "counters": {"mutations": len(todo), "caught": caught}, "replay_lines": []}))
